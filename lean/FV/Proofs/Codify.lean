import FV.Proofs.Bdd
/-
  Helper lemmas for C07, part 3: `Ineq.getrobdd` end to end, and the one-directional Tseitin encoding
  `SATManager._codifyrobdd`.  Core Lean only.
-/
set_option linter.unusedSectionVars false
namespace FV.PB
variable {V : Type} [DecidableEq V]

/-- `getrobdd` on a `>=` inequality with positive coefficients: it succeeds, only appends to the store, keeps it
    well formed, and the returned node denotes `Σ cᵢ·litᵢ ≥ rhs` — for both constructions and every earlier store -/
theorem getRobdd_spec (q : Ineq V) (dec : Bool) (S : Store V) (hw : WFStore S) (hpos : ∀ t ∈ q.lhs.t, 0 < t.c)
    (hop : q.op = .ge) :
    ∃ id S', q.getRobdd dec S = .ok (id, S') ∧ WFStore S' ∧ S.le S' ∧ id < S'.size ∧
      ∀ σ, evalNodeD S' σ id = decide (termsVal σ q.lhs.t ≥ q.rhs) := by
  have hok : DataOK (sortDesc q.lhs.t, q.rhs) := fun t ht => hpos t (mem_sortDesc.1 ht)
  have htot := construct_total dec (dataMeasure (sortDesc q.lhs.t, q.rhs) + 1) (sortDesc q.lhs.t, q.rhs) ⟨S, []⟩ hok
    (by omega)
  cases hc : construct dec (dataMeasure (sortDesc q.lhs.t, q.rhs) + 1) (sortDesc q.lhs.t, q.rhs) ⟨S, []⟩ with
  | none => rw [hc] at htot; simp at htot
  | some r =>
    obtain ⟨id, st'⟩ := r
    obtain ⟨w, l, _, s, e⟩ := construct_spec dec _ _ _ _ _ hc hw (by intro d id h; simp [memoGet] at h) hok
    refine ⟨id, st'.store, ?_, w, l, s, fun σ => ?_⟩
    · simp [Ineq.getRobdd, hop, hc]
    · rw [e σ]; simp [dataSem, termsVal_sortDesc]

theorem getRobdd_refused (q : Ineq V) (dec : Bool) (S : Store V) (hop : q.op ≠ .ge) :
    q.getRobdd dec S = .error .notImplemented := by
  simp [Ineq.getRobdd, hop]

end FV.PB

namespace FV.Sat
open FV.PB

/-! ### the manager's bookkeeping does not touch clauses -/
@[simp] theorem newvar_clauses (m : Mgr) (v : Var) : (m.newvar v).clauses = m.clauses := by
  unfold Mgr.newvar; split <;> rfl
@[simp] theorem newvar_codified (m : Mgr) (v : Var) : (m.newvar v).codified = m.codified := by
  unfold Mgr.newvar; split <;> rfl
@[simp] theorem newvar_auxcount (m : Mgr) (v : Var) : (m.newvar v).auxcount = m.auxcount := by
  unfold Mgr.newvar; split <;> rfl
@[simp] theorem addClause_clauses (m : Mgr) (c : Clause) : (m.addClause c).clauses = m.clauses ++ [c] := rfl
@[simp] theorem addClause_codified (m : Mgr) (c : Clause) : (m.addClause c).codified = m.codified := rfl
@[simp] theorem addClause_auxcount (m : Mgr) (c : Clause) : (m.addClause c).auxcount = m.auxcount := rfl

/-- the clauses `_codifyrobdd` emits for node `id` -/
def nodeClauses (S : Store Var) (id : Nat) : List Clause :=
  if id = 0 then [[⟨.node 0, false⟩]]
  else if id = 1 then [[⟨.node 1, true⟩]]
  else match S.memory[id]? with
    | some (.node dv i e) =>
      [[⟨.node id, false⟩, ⟨dv, false⟩, ⟨.node i, true⟩], [⟨.node id, false⟩, ⟨dv, true⟩, ⟨.node e, true⟩]]
    | _ => []

/-- node `j` has been encoded completely in manager `m` -/
def CodGood (S : Store Var) (m : Mgr) (j : Nat) : Prop :=
  j < S.size ∧ (∀ c ∈ nodeClauses S j, c ∈ m.clauses) ∧
    (2 ≤ j → ∀ v i e, S.memory[j]? = some (.node v i e) → i ∈ m.codified ∧ e ∈ m.codified)

def InvBelow (S : Store Var) (m : Mgr) (b : Nat) : Prop := ∀ j ∈ m.codified, j < b → CodGood S m j
/-- every id marked in `codified` has its clauses and its children encoded -/
def CodInv (S : Store Var) (m : Mgr) : Prop := ∀ j ∈ m.codified, CodGood S m j

theorem CodGood.mono {S : Store Var} {m m' : Mgr} {j : Nat} (h : CodGood S m j)
    (hc : ∀ c ∈ m.clauses, c ∈ m'.clauses) (hd : ∀ k ∈ m.codified, k ∈ m'.codified) : CodGood S m' j :=
  ⟨h.1, fun c hcl => hc c (h.2.1 c hcl), fun h2 v i e hn => ⟨hd _ (h.2.2 h2 v i e hn).1, hd _ (h.2.2 h2 v i e hn).2⟩⟩

theorem CodGood.le {S S' : Store Var} {m : Mgr} {j : Nat} (h : CodGood S m j) (hle : S.le S') : CodGood S' m j := by
  have hget := Store.le_get hle h.1
  refine ⟨Nat.lt_of_lt_of_le h.1 (Store.le_size hle), ?_, ?_⟩
  · intro c hc; apply h.2.1; simpa [nodeClauses, hget] using hc
  · intro h2 v i e hn; rw [hget] at hn; exact h.2.2 h2 v i e hn

/-- what one call of `_codifyrobdd` does to the manager -/
structure CodStep (S : Store Var) (id : Nat) (m m' : Mgr) : Prop where
  aux : m'.auxcount = m.auxcount
  clauses : ∃ ext, m'.clauses = m.clauses ++ ext ∧
    ∀ c ∈ ext, ∃ j, j ∈ m'.codified ∧ j ∉ m.codified ∧ c ∈ nodeClauses S j
  cod_mono : ∀ j ∈ m.codified, j ∈ m'.codified
  cod_new : ∀ j ∈ m'.codified, j ∈ m.codified ∨ j ≤ id
  cod_id : id ∈ m'.codified
  inv : ∀ b, id < b → InvBelow S m b → InvBelow S m' b

theorem codify_spec {S : Store Var} (hw : WFStore S) : ∀ (fuel id : Nat) (m : Mgr), id < S.size → id < fuel →
    ∃ m', Mgr.codify S fuel id m = .ok m' ∧ CodStep S id m m' := by
  intro fuel
  induction fuel with
  | zero => intro id m _ h; omega
  | succ fuel ih =>
    intro id m hid hf
    unfold Mgr.codify
    split
    · rename_i hin
      exact ⟨m, rfl, ⟨rfl, ⟨[], by simp, by simp⟩, fun j hj => hj, fun j hj => Or.inl hj, hin, fun b _ h => h⟩⟩
    · rename_i hnin
      dsimp only
      split
      · -- leaf 0
        rename_i h0; subst h0
        refine ⟨_, rfl, ⟨by simp, ⟨[[⟨.node 0, false⟩]], by simp [Literal.neg], ?_⟩, ?_, ?_, by simp, ?_⟩⟩
        · intro c hc; simp at hc; subst hc
          exact ⟨0, by simp, hnin, by simp [nodeClauses]⟩
        · intro j hj; simp [hj]
        · intro j hj; simp at hj; rcases hj with h | h <;> simp [h]
        · intro b hb hinv j hj hjb
          simp at hj
          rcases hj with hj | rfl
          · exact (hinv j hj hjb).mono (by simp; intro c hc; exact Or.inl hc) (by simp; intro k hk; exact Or.inl hk)
          · exact ⟨hid, by simp [nodeClauses, Literal.neg], by omega⟩
      · split
        · -- leaf 1
          rename_i h0 h1; subst h1
          refine ⟨_, rfl, ⟨by simp, ⟨[[⟨.node 1, true⟩]], by simp, ?_⟩, ?_, ?_, by simp, ?_⟩⟩
          · intro c hc; simp at hc; subst hc
            exact ⟨1, by simp, hnin, by simp [nodeClauses]⟩
          · intro j hj; simp [hj]
          · intro j hj; simp at hj; rcases hj with h | h <;> simp [h]
          · intro b hb hinv j hj hjb
            simp at hj
            rcases hj with hj | rfl
            · exact (hinv j hj hjb).mono (by simp; intro c hc; exact Or.inl hc) (by simp; intro k hk; exact Or.inl hk)
            · exact ⟨hid, by simp [nodeClauses], by omega⟩
        · rename_i h0 h1
          have h2 : 2 ≤ id := by omega
          have hget : S.memory[id]? = some S.memory[id] := List.getElem?_eq_getElem hid
          obtain ⟨dv, i, e, hn, hi, he⟩ := hw.nodes id _ hget h2
          rw [hn] at hget
          rw [hget]
          simp only
          -- the manager after marking `id`
          generalize hm1 : ({ m with codified := m.codified ++ [id] } : Mgr).newvar (.node id) = m1
          have m1c : m1.clauses = m.clauses := by subst hm1; simp
          have m1d : m1.codified = m.codified ++ [id] := by subst hm1; simp
          have m1a : m1.auxcount = m.auxcount := by subst hm1; simp
          obtain ⟨m2, r2, s2⟩ := ih i m1 (by omega) (by omega)
          obtain ⟨m3, r3, s3⟩ := ih e m2 (by omega) (by omega)
          simp only [r2, r3, bind, Except.bind, pure, Except.pure]
          refine ⟨_, rfl, ?_⟩
          obtain ⟨x2, hx2, hx2'⟩ := s2.clauses
          obtain ⟨x3, hx3, hx3'⟩ := s3.clauses
          have idm3 : id ∈ m3.codified := s3.cod_mono _ (s2.cod_mono _ (by simp [m1d]))
          have im3 : i ∈ m3.codified := s3.cod_mono _ s2.cod_id
          have em3 : e ∈ m3.codified := s3.cod_id
          have hnc : nodeClauses S id = [[⟨.node id, false⟩, ⟨dv, false⟩, ⟨.node i, true⟩],
              [⟨.node id, false⟩, ⟨dv, true⟩, ⟨.node e, true⟩]] := by
            simp [nodeClauses, h0, h1, hget]
          constructor
          · simp [s3.aux, s2.aux, m1a]
          · refine ⟨x2 ++ x3 ++ [[⟨.node id, false⟩, ⟨dv, false⟩, ⟨.node i, true⟩],
              [⟨.node id, false⟩, ⟨dv, true⟩, ⟨.node e, true⟩]], by simp [hx3, hx2, m1c, Literal.neg], ?_⟩
            intro c hc
            simp only [List.mem_append, List.mem_cons, List.mem_nil_iff, or_false] at hc
            rcases hc with (hc | hc) | hc
            · obtain ⟨j, hj1, hj2, hj3⟩ := hx2' c hc
              exact ⟨j, by simpa using s3.cod_mono _ hj1, fun h => hj2 (by simp [m1d, h]), hj3⟩
            · obtain ⟨j, hj1, hj2, hj3⟩ := hx3' c hc
              exact ⟨j, by simpa using hj1, fun h => hj2 (s2.cod_mono _ (by simp [m1d, h])), hj3⟩
            · exact ⟨id, by simpa using idm3, hnin, by rw [hnc]; simpa using hc⟩
          · intro j hj; simpa using s3.cod_mono _ (s2.cod_mono _ (by simp [m1d, hj]))
          · intro j hj
            simp at hj
            rcases s3.cod_new j hj with h | h
            · rcases s2.cod_new j h with h | h
              · simp [m1d] at h; rcases h with h | h
                · exact Or.inl h
                · exact Or.inr (by omega)
              · exact Or.inr (by omega)
            · exact Or.inr (by omega)
          · simpa using idm3
          · intro b hb hinv
            -- below `id` everything is encoded once both children are done
            have inv1 : InvBelow S m1 id := by
              intro j hj hjb
              simp [m1d] at hj
              rcases hj with hj | rfl
              · exact (hinv j hj (by omega)).mono (by simp [m1c]) (by simp [m1d]; intro k hk; exact Or.inl hk)
              · omega
            have inv2 : InvBelow S m2 id := s2.inv id hi inv1
            have inv3 : InvBelow S m3 id := s3.inv id he inv2
            intro j hj hjb
            simp at hj
            have hcl : ∀ c ∈ m3.clauses, c ∈ (((((m3.newvar dv).newvar (.node i)).newvar (.node e)).addClause
                [(⟨.node id, true⟩ : Lit).neg, (⟨dv, true⟩ : Lit).neg, ⟨.node i, true⟩]).addClause
                [(⟨.node id, true⟩ : Lit).neg, ⟨dv, true⟩, ⟨.node e, true⟩]).clauses := by
              intro c hc; simp; exact Or.inl hc
            by_cases hlt : j < id
            · exact (inv3 j hj hlt).mono hcl (by simp)
            · by_cases heq : j = id
              · subst heq
                refine ⟨hid, ?_, ?_⟩
                · intro c hc; rw [hnc] at hc; simp [Literal.neg] at hc ⊢; rcases hc with h | h <;> simp [h]
                · intro _ v' i' e' hn'
                  rw [hget] at hn'; simp at hn'; obtain ⟨rfl, rfl, rfl⟩ := hn'
                  simpa using ⟨im3, em3⟩
              · -- ids above `id` were marked before this call
                have hold : j ∈ m.codified := by
                  rcases s3.cod_new j hj with h | h
                  · rcases s2.cod_new j h with h | h
                    · simp [m1d] at h; rcases h with h | h
                      · exact h
                      · omega
                    · omega
                  · omega
                exact (hinv j hold hjb).mono
                  (by intro c hc; apply hcl; rw [hx3, hx2, m1c]; simp [hc])
                  (by intro k hk; simpa using s3.cod_mono _ (s2.cod_mono _ (by simp [m1d, hk])))

/-- soundness of the one-directional encoding: a model of the clauses that sets `robdd_j` makes node `j` true -/
theorem codify_sound {S : Store Var} (hw : WFStore S) {m : Mgr} (hinv : CodInv S m) (τ : Var → Bool)
    (hτ : cnfTrue τ m.clauses) : ∀ j, j ∈ m.codified → τ (.node j) = true → evalNodeD S τ j = true := by
  intro j
  induction j using Nat.strongRecOn with
  | _ j ih =>
    intro hj hτj
    obtain ⟨hsz, hcl, hch⟩ := hinv j hj
    by_cases h0 : j = 0
    · subst h0
      have := hτ _ (hcl [⟨.node 0, false⟩] (by simp [nodeClauses]))
      simp [clauseTrue, litTrue, hτj] at this
    · by_cases h1 : j = 1
      · subst h1; exact evalNodeD_leaf1 hw τ
      · have h2 : 2 ≤ j := by omega
        have hget : S.memory[j]? = some S.memory[j] := List.getElem?_eq_getElem hsz
        obtain ⟨dv, i, e, hn, hi, he⟩ := hw.nodes j _ hget h2
        rw [hn] at hget
        obtain ⟨hic, hec⟩ := hch h2 dv i e hget
        have c1 := hτ _ (hcl [⟨.node j, false⟩, ⟨dv, false⟩, ⟨.node i, true⟩] (by simp [nodeClauses, h0, h1, hget]))
        have c2 := hτ _ (hcl [⟨.node j, false⟩, ⟨dv, true⟩, ⟨.node e, true⟩] (by simp [nodeClauses, h0, h1, hget]))
        rw [evalNodeD_node hw τ hget h2]
        simp only [clauseTrue, List.any_cons, List.any_nil, litTrue, hτj] at c1 c2
        cases hd : τ dv
        · simp [hd] at c2 ⊢; exact ih e he hec c2
        · simp [hd] at c1 ⊢; exact ih i hi hic c1

/-- completeness: giving every node variable the value of its node satisfies the clauses of that node -/
theorem nodeClauses_true {S : Store Var} (hw : WFStore S) (τ : Var → Bool) {j : Nat} (hj : j < S.size)
    (hτj : τ (.node j) = evalNodeD S τ j)
    (hch : 2 ≤ j → ∀ v i e, S.memory[j]? = some (.node v i e) →
      τ (.node i) = evalNodeD S τ i ∧ τ (.node e) = evalNodeD S τ e) :
    cnfTrue τ (nodeClauses S j) := by
  unfold nodeClauses
  split
  · rename_i h0; subst h0
    rw [evalNodeD_leaf0 hw] at hτj
    simp [cnfTrue, clauseTrue, litTrue, hτj]
  · split
    · rename_i h1; subst h1
      rw [evalNodeD_leaf1 hw] at hτj
      simp [cnfTrue, clauseTrue, litTrue, hτj]
    · rename_i h0 h1
      have h2 : 2 ≤ j := by omega
      have hget : S.memory[j]? = some S.memory[j] := List.getElem?_eq_getElem hj
      obtain ⟨dv, i, e, hn, hi, he⟩ := hw.nodes j _ hget h2
      rw [hn] at hget
      rw [hget]
      obtain ⟨ti, te⟩ := hch h2 dv i e hget
      rw [evalNodeD_node hw τ hget h2] at hτj
      simp only [cnfTrue, List.mem_cons, List.mem_nil_iff, or_false]
      rintro c (rfl | rfl)
      · simp only [clauseTrue, List.any_cons, List.any_nil, litTrue]
        cases hd : τ dv <;> simp [hd] at hτj ⊢
        cases hp : τ (.node j) <;> simp [hp] at hτj ⊢
        rw [ti, ← hτj]
      · simp only [clauseTrue, List.any_cons, List.any_nil, litTrue]
        cases hd : τ dv <;> simp [hd] at hτj ⊢
        cases hp : τ (.node j) <;> simp [hp] at hτj ⊢
        rw [te, ← hτj]

end FV.Sat

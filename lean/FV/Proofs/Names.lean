import FV.Proofs.History
/-
  Helper lemmas for C07: the strings behind the variables (`FV/Model/Sat.lean`, section "variable names").
  Core Lean only.
-/
namespace FV.Sat
open FV.PB

theorem stripPre_append (p s : List Char) : stripPre p (p ++ s) = some s := by
  induction p with
  | nil => cases s <;> rfl
  | cons a r ih => simp [stripPre, ih]

/-- `str(n)` never starts with `0`, except for `0` itself -/
theorem toDigits_head (n : Nat) : 0 < n → ∃ c r, Nat.toDigits 10 n = c :: r ∧ c ≠ '0' := by
  induction n using Nat.strongRecOn with
  | _ n ih =>
    intro hn
    by_cases h : n < 10
    · refine ⟨n.digitChar, [], Nat.toDigits_of_lt_base h, ?_⟩
      intro h0
      have := Nat.digitChar_eq_zero.1 h0
      omega
    · have h10 : 10 ≤ n := by omega
      obtain ⟨c, r, hcr, hc⟩ := ih (n / 10) (by omega) (by omega)
      exact ⟨c, r ++ [Nat.digitChar (n % 10)], by rw [Nat.toDigits_of_base_le (by decide) h10, hcr]; rfl, hc⟩

theorem canonNat?_natChars (n : Nat) : canonNat? (natChars n) = some n := by
  unfold natChars
  have hdig : ∀ c ∈ Nat.toDigits 10 n, c.isDigit = true :=
    fun c hc => Nat.isDigit_of_mem_toDigits (by decide) (by decide) hc
  have hval := Nat.ofDigitChars_ten_toDigits (n := n)
  by_cases hn : n = 0
  · subst hn; rfl
  · obtain ⟨c, r, hcr, hc⟩ := toDigits_head n (by omega)
    rw [hcr] at hdig hval ⊢
    have hall : (c :: r).all Char.isDigit = true := List.all_eq_true.2 hdig
    have hc' : (c != '0') = true := by simpa using hc
    simp only [canonNat?, hall, hc', Bool.or_true, Bool.and_self, if_true, hval]

theorem classify_node (n : Nat) : classify (robddPre ++ natChars n) = .node n := by
  simp [classify, stripPre_append, canonNat?_natChars]

theorem stripPre_robdd_aux (s : List Char) : stripPre robddPre (auxPre ++ s) = none := by
  simp [robddPre, auxPre, stripPre]

theorem classify_aux (n : Nat) : classify (auxPre ++ natChars n) = .aux n := by
  simp [classify, stripPre_robdd_aux, stripPre_append, canonNat?_natChars]

/-- a name made with the default prefix `def_` is a user variable, whatever `str(name)` is -/
theorem classify_def (name : List Char) : classify (defPre ++ name) = .user (String.ofList (defPre ++ name)) := by
  simp [classify, robddPre, auxPre, defPre, stripPre]

/-- so is every name starting with a character other than `r` / `a` (the names of `rect.py` start with `b`) -/
theorem classify_other (c : Char) (cs : List Char) (hr : c ≠ 'r') (ha : c ≠ 'a') :
    classify (c :: cs) = .user (String.ofList (c :: cs)) := by
  have h1 : ¬ 'r' = c := fun h => hr h.symm
  have h2 : ¬ 'a' = c := fun h => ha h.symm
  simp [classify, robddPre, auxPre, stripPre, h1, h2]

/-- a variable of the model stands for a Python name: a user variable is not one of the reserved names -/
def Var.Canon : Var → Prop
  | .user s => classify s.toList = .user s
  | _ => True

theorem classify_chars (v : Var) (hv : v.Canon) : classify v.chars = v := by
  cases v with
  | user s => exact hv
  | node n => exact classify_node n
  | aux n => exact classify_aux n

theorem classify_canon (cs : List Char) : (classify cs).Canon := by
  unfold classify
  split
  · trivial
  · split
    · trivial
    · rename_i _ h1 _ h2
      show classify (String.ofList cs).toList = _
      rw [String.toList_ofList]
      simp [classify, h1, h2]

/-- distinct variables of the model have distinct Python names (so the model's tables keyed by `Var` and Python's
    dictionaries keyed by the name string agree) -/
theorem chars_injective {v w : Var} (hv : v.Canon) (hw : w.Canon) (h : v.chars = w.chars) : v = w := by
  rw [← classify_chars v hv, ← classify_chars w hw, h]

/-- a digit is the character of its value -/
theorem digitChar_of_isDigit {c : Char} (h : c.isDigit = true) : Nat.digitChar (c.toNat - '0'.toNat) = c ∧ c.toNat - '0'.toNat < 10 := by
  obtain ⟨h1, h2⟩ := Char.isDigit_iff_toNat.1 h
  have e0 : '0'.toNat = 48 := by decide
  have e9 : '9'.toNat = 57 := by decide
  rw [e0] at h1 ⊢; rw [e9] at h2
  refine ⟨Char.toNat_inj.1 ?_, by omega⟩
  rw [Nat.toNat_digitChar_of_lt_ten (by omega)]; omega

/-- a canonical decimal string is `str()` of its value -/
theorem toDigits_ofDigitChars : ∀ r : List Char, r ≠ [] → (∀ c ∈ r, c.isDigit = true) → (r.length = 1 ∨ r.head? ≠ some '0') →
    Nat.toDigits 10 (Nat.ofDigitChars 10 r 0) = r := by
  intro r
  rw [← List.reverse_reverse r]
  generalize r.reverse = l
  induction l with
  | nil => intro h; exact absurd rfl h
  | cons d l' ih =>
    rw [List.reverse_cons]
    generalize l'.reverse = r' at ih ⊢
    intro _ hdig hlead
    obtain ⟨hd, hlt⟩ := digitChar_of_isDigit (hdig d (by simp))
    rw [Nat.ofDigitChars_append, Nat.ofDigitChars_cons, Nat.ofDigitChars_nil]
    by_cases hr : r' = []
    · subst hr
      simp only [Nat.ofDigitChars_nil, Nat.mul_zero, Nat.zero_add, List.nil_append]
      rw [Nat.toDigits_of_lt_base hlt, hd]
    · have hlead' : r'.length = 1 ∨ r'.head? ≠ some '0' := by
        right
        rcases hlead with h | h
        · simp at h; exact absurd h hr
        · cases r' with
          | nil => exact absurd rfl hr
          | cons a t => simpa using h
      have ih' := ih hr (fun c hc => hdig c (by simp [hc])) hlead'
      have hpos : 0 < Nat.ofDigitChars 10 r' 0 := by
        apply Nat.pos_of_ne_zero
        intro h0
        rw [h0, Nat.toDigits_zero] at ih'
        rcases hlead with h | h
        · rw [← ih'] at h; simp at h
        · rw [← ih'] at h; simp at h
      rw [← Nat.toDigits_append_toDigits (by decide) hpos hlt, ih', Nat.toDigits_of_lt_base hlt, hd]

theorem natChars_of_canonNat {r : List Char} {n : Nat} (h : canonNat? r = some n) : natChars n = r := by
  cases r with
  | nil => simp [canonNat?] at h
  | cons c t =>
    simp only [canonNat?] at h
    split at h
    · rename_i hc
      simp at h; subst h
      simp only [Bool.and_eq_true, List.all_eq_true, Bool.or_eq_true, List.isEmpty_iff, bne_iff_ne, ne_eq] at hc
      refine toDigits_ofDigitChars (c :: t) (by simp) hc.1 ?_
      rcases hc.2 with h | h
      · left; simp [h]
      · right; simpa using h
    · simp at h

theorem stripPre_some : ∀ {p cs r : List Char}, stripPre p cs = some r → cs = p ++ r
  | [], cs, r, h => by cases cs <;> simp [stripPre] at h <;> simp [h]
  | a :: p, [], r, h => by simp [stripPre] at h
  | a :: p, c :: cs, r, h => by
    simp only [stripPre] at h
    split at h
    · rename_i hac; rw [hac, stripPre_some h]; rfl
    · simp at h

/-- reading a string as a variable and printing the variable gives the string back: the name Python uses -/
theorem chars_classify (cs : List Char) : (classify cs).chars = cs := by
  unfold classify
  cases h1 : (stripPre robddPre cs).bind canonNat? with
  | some n =>
    obtain ⟨r, hr, hn⟩ := Option.bind_eq_some_iff.1 h1
    show robddPre ++ natChars n = cs
    rw [natChars_of_canonNat hn, stripPre_some hr]
  | none =>
    cases h2 : (stripPre auxPre cs).bind canonNat? with
    | some n =>
      obtain ⟨r, hr, hn⟩ := Option.bind_eq_some_iff.1 h2
      show auxPre ++ natChars n = cs
      rw [natChars_of_canonNat hn, stripPre_some hr]
    | none => show (String.ofList cs).toList = cs; exact String.toList_ofList

theorem canon_isUser_or (v : Var) : isUser v ∨ (∃ n, v = .node n) ∨ (∃ n, v = .aux n) := by
  cases v with
  | user s => exact Or.inl trivial
  | node n => exact Or.inr (Or.inl ⟨n, rfl⟩)
  | aux n => exact Or.inr (Or.inr ⟨n, rfl⟩)

end FV.Sat

import FV.Model.RectIO
import Mathlib.Algebra.Order.Field.Basic
import Mathlib.Tactic.Linarith
/-
  Helper lemmas for `FV/Model/RectIO.lean` (property C08): `sorted(set(values))`, `snap_coordinates`, `select_box`.
  Proved for every linearly ordered field (`Rat`, at which the driver executes the same definitions, is one).
-/
namespace FV.RectIO
open FV FV.RectSearch
set_option linter.unusedSectionVars false
set_option linter.unusedVariables false

variable {α : Type} [Field α] [LinearOrder α] [IsStrictOrderedRing α]

/-! ### `sorted(set(values))` -/

theorem mem_insertLt {x y : α} : ∀ {l : List α}, y ∈ insertLt x l ↔ y = x ∨ y ∈ l
  | [] => by simp [insertLt]
  | z :: zs => by
    unfold insertLt
    split
    · simp
    · split
      · simp only [List.mem_cons, mem_insertLt (l := zs)]; tauto
      · have hx : x = z := le_antisymm (not_lt.1 ‹¬ z < x›) (not_lt.1 ‹¬ x < z›)
        subst hx; simp

theorem insertLt_sorted {x : α} : ∀ {l : List α}, l.Pairwise (· < ·) → (insertLt x l).Pairwise (· < ·)
  | [], _ => by simp [insertLt]
  | z :: zs, h => by
    have hz := List.pairwise_cons.1 h
    unfold insertLt
    split
    · rename_i hxz
      exact List.pairwise_cons.2 ⟨fun a ha => by
        rcases List.mem_cons.1 ha with rfl | ha
        · exact hxz
        · exact lt_trans hxz (hz.1 a ha), h⟩
    · split
      · rename_i hzx
        refine List.pairwise_cons.2 ⟨fun a ha => ?_, insertLt_sorted hz.2⟩
        rcases mem_insertLt.1 ha with rfl | ha
        · exact hzx
        · exact hz.1 a ha
      · exact h

theorem sortedDistinct_sorted : ∀ l : List α, (sortedDistinct l).Pairwise (· < ·)
  | [] => by simp [sortedDistinct]
  | x :: xs => by
    show (insertLt x (sortedDistinct xs)).Pairwise (· < ·)
    exact insertLt_sorted (sortedDistinct_sorted xs)

theorem mem_sortedDistinct {y : α} : ∀ {l : List α}, y ∈ sortedDistinct l ↔ y ∈ l
  | [] => by simp [sortedDistinct]
  | x :: xs => by
    show y ∈ insertLt x (sortedDistinct xs) ↔ _
    rw [mem_insertLt, mem_sortedDistinct (l := xs)]; simp

/-! ### `snap_coordinates` -/

/-- the loop started with a representative `p` not above the values still to come -/
theorem snapGo_some {tol : α} (htol : 0 ≤ tol) : ∀ (vs : List α) (p : α), vs.Pairwise (· < ·) → (∀ v ∈ vs, p ≤ v) →
    (snapGo tol (some p) vs).map Prod.fst = vs ∧
    (∀ q ∈ snapGo tol (some p) vs, (q.2 = p ∨ q.2 ∈ vs) ∧ q.2 ≤ q.1 ∧ q.1 - q.2 ≤ tol) ∧
    (∀ q ∈ snapGo tol (some p) vs, q.2 = p ∨ tol < q.2 - p) ∧
    (∀ q ∈ snapGo tol (some p) vs, ∀ q' ∈ snapGo tol (some p) vs, q.2 < q'.2 → tol < q'.2 - q.2)
  | [], p, _, _ => by simp [snapGo]
  | v :: r, p, hs, hp => by
    have hs' := List.pairwise_cons.1 hs
    have hpv : p ≤ v := hp v (by simp)
    -- the representative after `v`
    obtain ⟨rep, hrep, hcase⟩ : ∃ rep, snapGo tol (some p) (v :: r) = (v, rep) :: snapGo tol (some rep) r ∧
        ((tol < v - p ∧ rep = v) ∨ (¬ tol < v - p ∧ rep = p)) := by
      by_cases h : tol < v - p
      · exact ⟨v, by simp [snapGo, h], Or.inl ⟨h, rfl⟩⟩
      · exact ⟨p, by simp [snapGo, h], Or.inr ⟨h, rfl⟩⟩
    have hrep_le : ∀ w ∈ r, rep ≤ w := by
      intro w hw
      rcases hcase with ⟨_, rfl⟩ | ⟨_, rfl⟩
      · exact le_of_lt (hs'.1 w hw)
      · exact hp w (by simp [hw])
    obtain ⟨i1, i2, i3, i4⟩ := snapGo_some htol r rep hs'.2 hrep_le
    have hrv : rep ≤ v ∧ v - rep ≤ tol ∧ (rep = p ∨ rep = v) ∧ (rep = p ∨ tol < rep - p) := by
      rcases hcase with ⟨h, rfl⟩ | ⟨h, rfl⟩
      · exact ⟨le_refl _, by simpa using htol, Or.inr rfl, Or.inr h⟩
      · exact ⟨hpv, not_lt.1 h, Or.inl rfl, Or.inl rfl⟩
    rw [hrep]
    refine ⟨by simp [i1], ?_, ?_, ?_⟩
    · intro q hq
      rcases List.mem_cons.1 hq with rfl | hq
      · refine ⟨?_, hrv.1, hrv.2.1⟩
        rcases hrv.2.2.1 with h | h
        · exact Or.inl h
        · exact Or.inr (by simp [h])
      · obtain ⟨a, b, c⟩ := i2 q hq
        refine ⟨?_, b, c⟩
        rcases a with a | a
        · rcases hrv.2.2.1 with h | h
          · exact Or.inl (a.trans h)
          · exact Or.inr (by simp [a, h])
        · exact Or.inr (by simp [a])
    · intro q hq
      rcases List.mem_cons.1 hq with rfl | hq
      · exact hrv.2.2.2
      · rcases i3 q hq with a | a
        · rw [a]; exact hrv.2.2.2
        · rcases hrv.2.2.2 with h | h
          · rw [← h]; exact Or.inr a
          · right; linarith
    · intro q hq q' hq' hlt
      rcases List.mem_cons.1 hq with rfl | hq <;> rcases List.mem_cons.1 hq' with rfl | hq'
      · exact absurd hlt (lt_irrefl _)
      · rcases i3 q' hq' with a | a
        · simp only at hlt; rw [a] at hlt; exact absurd hlt (lt_irrefl _)
        · exact a
      · rcases i3 q hq with a | a
        · simp only at hlt; rw [a] at hlt; exact absurd hlt (lt_irrefl _)
        · simp only at hlt; linarith
      · exact i4 q hq q' hq' hlt

/-- **`snap_coordinates`**: every value gets a representative that is one of the values, is not above it and is within the
    tolerance of it; and two different representatives are more than the tolerance apart — no float noise survives as a
    sliver between two grid lines -/
theorem snap_spec (values : List α) {tol : α} (htol : 0 ≤ tol) :
    (snapCoordinates values tol).map Prod.fst = sortedDistinct values ∧
    (∀ q ∈ snapCoordinates values tol, q.2 ∈ values ∧ q.2 ≤ q.1 ∧ q.1 - q.2 ≤ tol) ∧
    (∀ q ∈ snapCoordinates values tol, ∀ q' ∈ snapCoordinates values tol, q.2 < q'.2 → tol < q'.2 - q.2) := by
  unfold snapCoordinates
  have hs := sortedDistinct_sorted values
  cases hvs : sortedDistinct values with
  | nil => simp [snapGo]
  | cons v r =>
    rw [hvs] at hs
    have hs' := List.pairwise_cons.1 hs
    obtain ⟨i1, i2, i3, i4⟩ := snapGo_some htol r v hs'.2 (fun w hw => le_of_lt (hs'.1 w hw))
    have hmem : ∀ w, w ∈ v :: r → w ∈ values := fun w hw => mem_sortedDistinct.1 (hvs ▸ hw)
    have hgo : snapGo tol none (v :: r) = (v, v) :: snapGo tol (some v) r := by simp [snapGo]
    rw [hgo]
    refine ⟨by simp [i1], ?_, ?_⟩
    · intro q hq
      rcases List.mem_cons.1 hq with rfl | hq
      · exact ⟨hmem _ (by simp), le_refl _, by simpa using htol⟩
      · obtain ⟨a, b, c⟩ := i2 q hq
        refine ⟨?_, b, c⟩
        rcases a with a | a
        · rw [a]; exact hmem _ (by simp)
        · exact hmem _ (by simp [a])
    · intro q hq q' hq' hlt
      rcases List.mem_cons.1 hq with rfl | hq <;> rcases List.mem_cons.1 hq' with rfl | hq'
      · exact absurd hlt (lt_irrefl _)
      · rcases i3 q' hq' with a | a
        · simp only at hlt; rw [a] at hlt; exact absurd hlt (lt_irrefl _)
        · exact a
      · rcases i3 q hq with a | a
        · simp only at hlt; rw [a] at hlt; exact absurd hlt (lt_irrefl _)
        · simp only at hlt; linarith
      · exact i4 q hq q' hq' hlt

/-- values that are already more than the tolerance apart are their own representatives -/
theorem snapGo_id {tol : α} : ∀ (vs : List α) (p : α), (∀ v ∈ vs, tol < v - p) →
    (p :: vs).Pairwise (fun a b => tol < b - a) → snapGo tol (some p) vs = vs.map fun v => (v, v)
  | [], _, _, _ => rfl
  | v :: r, p, h, hs => by
    have hv := h v (by simp)
    have hs' := (List.pairwise_cons.1 hs).2
    have := snapGo_id r v (fun w hw => (List.pairwise_cons.1 hs').1 w hw) hs'
    simp [snapGo, hv, this]

theorem snap_id_of_separated (values : List α) {tol : α}
    (hsep : (sortedDistinct values).Pairwise (fun a b => tol < b - a)) :
    snapCoordinates values tol = (sortedDistinct values).map fun v => (v, v) := by
  unfold snapCoordinates
  cases hvs : sortedDistinct values with
  | nil => rfl
  | cons v r =>
    rw [hvs] at hsep
    have := snapGo_id r v (fun w hw => (List.pairwise_cons.1 hsep).1 w hw) hsep
    simp [snapGo, this]

/-! ### `select_box` -/

theorem snapLookup_id {l : List α} (hs : l.Pairwise (· < ·)) {v : α} (hv : v ∈ l) :
    snapLookup (l.map fun w => (w, w)) v = some v := by
  induction l with
  | nil => simp at hv
  | cons a r ih =>
    have hs' := List.pairwise_cons.1 hs
    simp only [snapLookup, List.map_cons, List.find?_cons]
    rcases List.mem_cons.1 hv with rfl | hv
    · simp
    · have hav : a < v := hs'.1 v hv
      simp only [hav, decide_true, Bool.not_true, Bool.false_and]
      exact ih hs'.2 hv

theorem snapBox_occ {sx sy : List (α × α)} {b r : Cell α × α} (h : snapBox sx sy b = some r) : r.2 = b.2 := by
  unfold snapBox at h
  cases h1 : snapLookup sx b.1.x0 <;> simp [h1] at h
  cases h2 : snapLookup sy b.1.y0 <;> simp [h2] at h
  cases h3 : snapLookup sx b.1.x1 <;> simp [h3] at h
  cases h4 : snapLookup sy b.1.y1 <;> simp [h4] at h
  rw [← h]

theorem mapM_shape {β γ : Type} (f : β → Option γ) : ∀ (l : List β) (out : List γ), l.mapM f = some out →
    out.length = l.length ∧ ∀ i (hi : i < l.length) (ho : i < out.length), f l[i] = some out[i]
  | [], out, h => by simp at h; subst h; simp
  | b :: r, out, h => by
    rw [List.mapM_cons] at h
    cases hx : f b with
    | none => simp [hx] at h
    | some x =>
      cases hrest : r.mapM f with
      | none => simp [hx, hrest] at h
      | some rest =>
        simp [hx, hrest] at h; subst h
        obtain ⟨h1, h2⟩ := mapM_shape f r rest hrest
        refine ⟨by simp [h1], fun i hi ho => ?_⟩
        cases i with
        | zero => simpa using hx
        | succ j => simpa using h2 j (by simpa using hi) (by simpa using ho)

/-- one box per record, in the order of the records, carrying the occupancy of the selected module in that record
    (the value of the LAST dictionary of the record listing it, `0` if none does) -/
theorem selectBox_shape {sel : String} {ifile : List (IRect α)} {out : List (Cell α × α)}
    (h : selectBox sel ifile = some out) :
    out.length = ifile.length ∧
    ∀ i (hi : i < ifile.length) (ho : i < out.length), out[i].2 = occOf ((0 : Nat) : α) sel ifile[i].mods := by
  unfold selectBox at h
  simp only at h
  split at h
  · rename_i he
    simp at h; subst h
    have : ifile = [] := by simpa using he
    subst this; simp
  · cases ht : snapTol (ifile.map (rawBox sel)) with
    | none => simp [ht] at h
    | some tol =>
      simp only [ht, Option.bind] at h
      obtain ⟨h1, h2⟩ := mapM_shape _ _ _ h
      simp only [List.length_map] at h1
      refine ⟨h1, fun i hi ho => ?_⟩
      have := h2 i (by simpa using hi) ho
      rw [snapBox_occ this]
      simp [rawBox]

/-- on records whose corner coordinates are already more than the tolerance apart (an exact grid, however it is listed)
    `select_box` returns the corners `centre ± size / 2` themselves -/
theorem selectBox_exact {sel : String} {ifile : List (IRect α)} {tol : α} (hne : ifile ≠ [])
    (ht : snapTol (ifile.map (rawBox sel)) = some tol)
    (hx : (sortedDistinct (xsOf (ifile.map (rawBox sel)))).Pairwise (fun a b => tol < b - a))
    (hy : (sortedDistinct (ysOf (ifile.map (rawBox sel)))).Pairwise (fun a b => tol < b - a)) :
    selectBox sel ifile = some (ifile.map (rawBox sel)) := by
  unfold selectBox
  simp only
  have he : (ifile.map (rawBox sel)).isEmpty = false := by
    cases ifile with
    | nil => exact absurd rfl hne
    | cons a r => rfl
  rw [he]
  simp only [Bool.false_eq_true, if_false, ht, Option.bind]
  rw [snap_id_of_separated _ hx, snap_id_of_separated _ hy]
  -- every corner is among the coordinates, so every lookup succeeds with the corner itself
  have hall : ∀ b ∈ ifile.map (rawBox sel),
      snapBox ((sortedDistinct (xsOf (ifile.map (rawBox sel)))).map fun v => (v, v))
        ((sortedDistinct (ysOf (ifile.map (rawBox sel)))).map fun v => (v, v)) b = some b := by
    intro b hb
    have mx : ∀ v, (v = b.1.x0 ∨ v = b.1.x1) → v ∈ sortedDistinct (xsOf (ifile.map (rawBox sel))) := by
      intro v hv
      rw [mem_sortedDistinct]
      simp only [xsOf, List.mem_flatMap, List.mem_cons, List.not_mem_nil, or_false]
      exact ⟨b, hb, hv⟩
    have my : ∀ v, (v = b.1.y0 ∨ v = b.1.y1) → v ∈ sortedDistinct (ysOf (ifile.map (rawBox sel))) := by
      intro v hv
      rw [mem_sortedDistinct]
      simp only [ysOf, List.mem_flatMap, List.mem_cons, List.not_mem_nil, or_false]
      exact ⟨b, hb, hv⟩
    unfold snapBox
    rw [snapLookup_id (sortedDistinct_sorted _) (mx _ (Or.inl rfl)), snapLookup_id (sortedDistinct_sorted _) (my _ (Or.inl rfl)),
      snapLookup_id (sortedDistinct_sorted _) (mx _ (Or.inr rfl)), snapLookup_id (sortedDistinct_sorted _) (my _ (Or.inr rfl))]
    rfl
  generalize ifile.map (rawBox sel) = raw at hall ⊢
  generalize (sortedDistinct (xsOf raw)).map (fun v => (v, v)) = sx at hall ⊢
  generalize (sortedDistinct (ysOf raw)).map (fun v => (v, v)) = sy at hall ⊢
  clear hx hy ht he
  induction raw with
  | nil => rfl
  | cons b r ih =>
    rw [List.mapM_cons, hall b (by simp), ih (fun c hc => hall c (by simp [hc]))]
    rfl

/-! ### `get_alloc` -/

/-- the occupancy `select_box` reads from a record made by `get_alloc` is the ratio the allocation's dictionary holds for
    the selected module (the last entry with that key — a dictionary has one), `0` if the module is not listed -/
theorem occOf_getAlloc (zero : α) (sel : String) (c : List (String × α)) :
    occOf zero sel (some (c.map fun q => [q])) =
      (c.foldl (fun acc q => if q.1 = sel then some q.2 else acc) none).getD zero := by
  unfold occOf
  suffices h : ∀ (val : α) (acc : Option α), val = acc.getD zero →
      (c.map fun q => [q]).foldl (fun val d => match d.lookup sel with | some v => v | none => val) val =
        (c.foldl (fun acc q => if q.1 = sel then some q.2 else acc) acc).getD zero from h zero none rfl
  induction c with
  | nil => intro val acc h; simpa using h
  | cons q r ih =>
    intro val acc h
    simp only [List.map_cons, List.foldl_cons]
    apply ih
    by_cases hq : q.1 = sel
    · have : (sel == q.1) = true := by simp [hq]
      simp [List.lookup, this, hq]
    · have : (sel == q.1) = false := by simpa using fun h' => hq h'.symm
      simp [List.lookup, this, hq, h]

theorem getAlloc_records (cells : List ((α × α × α × α) × List (String × α))) :
    (getAlloc cells).length = cells.length ∧
    ∀ i (hi : i < cells.length) (ho : i < (getAlloc cells).length),
      ((getAlloc cells)[i].xc, (getAlloc cells)[i].yc, (getAlloc cells)[i].w, (getAlloc cells)[i].h) = cells[i].1 ∧
      (getAlloc cells)[i].mods = some (cells[i].2.map fun q => [q]) := by
  refine ⟨by simp [getAlloc], fun i hi ho => ?_⟩
  simp [getAlloc]

end FV.RectIO

import FV.Model.Glb
import FV.Proofs.Geom
import Mathlib.Algebra.Order.Field.Basic
import Mathlib.Algebra.BigOperators.Group.List.Basic
import Mathlib.Algebra.Order.BigOperators.Group.List
import Mathlib.Tactic.Linarith
import Mathlib.Tactic.Ring
import Mathlib.Tactic.FieldSimp
/-
  Helper lemmas for the global-floorplanning model over an arbitrary linearly ordered field.
-/
namespace FV.Glb
open FV
set_option linter.unusedSectionVars false
set_option linter.unusedVariables false
set_option linter.unusedSimpArgs false

variable {α : Type} [Field α] [LinearOrder α] [IsStrictOrderedRing α]

@[simp] theorem zero_eq : (zero : α) = 0 := by simp [zero]
@[simp] theorem one_eq : (one : α) = 1 := by simp [one]

/-! ### the compensated sum is the sum (exact arithmetic) -/

theorem neumaierStep_exact (f c x : α) : neumaierStep (f, c) x = (f + x, c) := by
  unfold neumaierStep
  split <;> (simp only [Prod.mk.injEq, true_and]; ring)

theorem foldl_neumaier (xs : List α) (f c : α) : xs.foldl neumaierStep (f, c) = (f + xs.sum, c) := by
  induction xs generalizing f with
  | nil => simp
  | cons x xs ih => rw [List.foldl_cons, neumaierStep_exact, ih, List.sum_cons]; congr 1; ring

@[simp] theorem pySum_eq (xs : List α) : pySum xs = xs.sum := by
  cases xs with
  | nil => simp [pySum]
  | cons x xs => simp [pySum, foldl_neumaier]

/-! ### weighted sums -/

/-- total area of a list of rectangles (`sum(r.area for r in rectangles)`). -/
def totalArea (rs : List (Rect α)) : α := (rs.map Rect.area).sum
/-- first moments `Σ r.cx·area`, `Σ r.cy·area`. -/
def momentX (rs : List (Rect α)) : α := (rs.map fun r => r.cx * r.area).sum
def momentY (rs : List (Rect α)) : α := (rs.map fun r => r.cy * r.area).sum

/-- the affine map `x ↦ sx·x + tx`, `y ↦ sy·y + ty` applied to the centre of a rectangle; the shape, region and
    flags are untouched. -/
def affine (sx tx sy ty : α) (r : Rect α) : Rect α := { r with cx := sx * r.cx + tx, cy := sy * r.cy + ty }

@[simp] theorem affine_area (sx tx sy ty : α) (r : Rect α) : (affine sx tx sy ty r).area = r.area := rfl

theorem totalArea_affine (sx tx sy ty : α) (rs : List (Rect α)) :
    totalArea (rs.map (affine sx tx sy ty)) = totalArea rs := by
  simp [totalArea, List.map_map, Function.comp_def]

theorem momentX_affine (sx tx sy ty : α) (rs : List (Rect α)) :
    momentX (rs.map (affine sx tx sy ty)) = sx * momentX rs + tx * totalArea rs := by
  induction rs with
  | nil => simp [momentX, totalArea]
  | cons r rs ih =>
    simp only [momentX, totalArea, List.map_cons, List.sum_cons] at ih ⊢
    rw [ih]; simp only [affine, Rect.area]; ring

theorem momentY_affine (sx tx sy ty : α) (rs : List (Rect α)) :
    momentY (rs.map (affine sx tx sy ty)) = sy * momentY rs + ty * totalArea rs := by
  induction rs with
  | nil => simp [momentY, totalArea]
  | cons r rs ih =>
    simp only [momentY, totalArea, List.map_cons, List.sum_cons] at ih ⊢
    rw [ih]; simp only [affine, Rect.area]; ring

theorem affine_comp (sx tx sy ty sx' tx' sy' ty' : α) (rs : List (Rect α)) :
    (rs.map (affine sx tx sy ty)).map (affine sx' tx' sy' ty') =
      rs.map (affine (sx' * sx) (sx' * tx + tx') (sy' * sy) (sy' * ty + ty')) := by
  rw [List.map_map]; apply List.map_congr_left; intro r _
  simp only [Function.comp, affine]; congr 1 <;> ring

theorem affine_id (rs : List (Rect α)) : rs.map (affine 1 0 1 0) = rs := by
  conv_rhs => rw [← List.map_id rs]
  apply List.map_congr_left; intro r _; simp [affine]

/-! ### `recenter`, mirrors -/

theorem recenter_eq (cx cy : α) (rs rs' : List (Rect α)) (h : recenter cx cy rs = some rs') :
    totalArea rs ≠ 0 ∧
    rs' = rs.map (affine 1 (cx - momentX rs / totalArea rs) 1 (cy - momentY rs / totalArea rs)) := by
  unfold recenter at h
  simp only [pySum_eq, zero_eq] at h
  split at h
  · rename_i hA
    have hne : totalArea rs ≠ 0 := by
      rcases hA with hA | hA
      · exact ne_of_lt hA
      · exact ne_of_gt hA
    refine ⟨hne, ?_⟩
    simp only [Option.some.injEq] at h
    rw [← h]; apply List.map_congr_left; intro r _
    simp only [affine, totalArea, momentX, momentY]; congr 1 <;> ring
  · exact absurd h (by simp)

theorem recenter_isSome (cx cy : α) (rs : List (Rect α)) (hA : totalArea rs ≠ 0) :
    (recenter cx cy rs).isSome = true := by
  unfold recenter
  simp only [pySum_eq, zero_eq]
  have : (List.map Rect.area rs).sum < 0 ∨ 0 < (List.map Rect.area rs).sum := lt_or_gt_of_ne hA
  simp [this]

theorem mirrorX_eq (cx : α) (rs : List (Rect α)) : mirrorX cx rs = rs.map (affine (-1) (2 * cx) 1 0) := by
  unfold mirrorX; apply List.map_congr_left; intro r _
  simp only [affine]; congr 1 <;> ring

theorem mirrorY_eq (cy : α) (rs : List (Rect α)) : mirrorY cy rs = rs.map (affine 1 0 (-1) (2 * cy)) := by
  unfold mirrorY; apply List.map_congr_left; intro r _
  simp only [affine]; congr 1 <;> ring

/-- the flip step is the identity or a mirror about the given centre in x and/or y. -/
theorem flipStep_eq (ans : Answer α) (name : String) (cx cy : α) (rs : List (Rect α)) :
    ∃ sx sy : α, (sx = 1 ∨ sx = -1) ∧ (sy = 1 ∨ sy = -1) ∧
      flipStep ans name cx cy rs = rs.map (affine sx ((1 - sx) * cx) sy ((1 - sy) * cy)) := by
  unfold flipStep
  simp only [mirrorX_eq, mirrorY_eq]
  split <;> split
  · refine ⟨-1, -1, Or.inr rfl, Or.inr rfl, ?_⟩
    rw [affine_comp]; congr 1; funext r; simp only [affine]; congr 1 <;> ring
  · refine ⟨-1, 1, Or.inr rfl, Or.inl rfl, ?_⟩
    congr 1; funext r; simp only [affine]; congr 1 <;> ring
  · refine ⟨1, -1, Or.inl rfl, Or.inr rfl, ?_⟩
    congr 1; funext r; simp only [affine]; congr 1 <;> ring
  · refine ⟨1, 1, Or.inl rfl, Or.inl rfl, ?_⟩
    conv_lhs => rw [← affine_id rs]
    congr 1; funext r; simp only [affine]; congr 1 <;> ring

/-! ### allocation list -/

theorem filterMap_map_sublist {β γ δ : Type} (f : β → Option γ) (g : γ → δ) (k : β → δ)
    (h : ∀ x y, f x = some y → g y = k x) (l : List β) : ((l.filterMap f).map g).Sublist (l.map k) := by
  induction l with
  | nil => simp
  | cons x l ih =>
    cases hf : f x with
    | none => rw [List.filterMap_cons_none hf, List.map_cons]; exact ih.cons _
    | some y => rw [List.filterMap_cons_some hf, List.map_cons, List.map_cons, h x y hf]; exact ih.cons_cons _

theorem allocList_rects_sublist (ans : Answer α) (thr : α) (mods : List (Module α)) (cells : List (Rect α)) :
    ((allocList ans thr mods cells).map (·.rect)).Sublist cells := by
  unfold allocList
  have h2 : (cells.zipIdx.map (·.1)) = cells := by simp
  conv_rhs => rw [← h2]
  apply filterMap_map_sublist
  rintro ⟨cell, c⟩ y hxy
  by_cases he : (cellAlloc ans thr mods c).isEmpty = true
  · simp only [he, if_true] at hxy; exact absurd hxy (by simp)
  · simp only [he] at hxy
    simp only [Bool.false_eq_true, if_false, Option.some.injEq] at hxy
    rw [← hxy]

/-- every element of the allocation list is `(cells[c], cellAlloc c)` for some index with a non-empty `cellAlloc`. -/
theorem mem_allocList (ans : Answer α) (thr : α) (mods : List (Module α)) (cells : List (Rect α)) (ra : RectAlloc α) :
    ra ∈ allocList ans thr mods cells ↔
      ∃ c, ∃ cell, cells[c]? = some cell ∧ cellAlloc ans thr mods c ≠ [] ∧
        ra = { rect := cell, alloc := cellAlloc ans thr mods c, depth := 0 } := by
  unfold allocList
  simp only [List.mem_filterMap, List.mem_zipIdx_iff_getElem?, Prod.exists]
  constructor
  · rintro ⟨cell, c, hc, h⟩
    split at h
    · exact absurd h (by simp)
    · rename_i hne
      refine ⟨c, cell, by simpa using hc, by simpa [List.isEmpty_iff] using hne, ?_⟩
      simp only [Option.some.injEq] at h; exact h.symm
  · rintro ⟨c, cell, hc, hne, rfl⟩
    refine ⟨cell, c, by simpa using hc, ?_⟩
    have : (cellAlloc ans thr mods c).isEmpty = false := by
      cases h : cellAlloc ans thr mods c with
      | nil => exact absurd h hne
      | cons _ _ => rfl
    simp [this]

theorem mem_cellAlloc (ans : Answer α) (thr : α) (mods : List (Module α)) (c : Nat) (n : String) (v : α) :
    (n, v) ∈ cellAlloc ans thr mods c ↔ ∃ m ∈ mods, m.name = n ∧ ans.a m.name c = v ∧ 1 - thr < v := by
  unfold cellAlloc
  simp only [List.mem_filterMap, one_eq]
  constructor
  · rintro ⟨m, hm, h⟩
    split at h
    · rename_i hlt
      simp only [Option.some.injEq, Prod.mk.injEq] at h
      exact ⟨m, hm, h.1, h.2, h.2 ▸ hlt⟩
    · exact absurd h (by simp)
  · rintro ⟨m, hm, rfl, rfl, hlt⟩
    exact ⟨m, hm, by simp [hlt]⟩

/-- the ratios listed for a cell are the answer's ratios of a sub-list of the modules. -/
theorem cellAlloc_eq_map_filter (ans : Answer α) (thr : α) (mods : List (Module α)) (c : Nat) :
    cellAlloc ans thr mods c =
      (mods.filter fun m => decide (1 - thr < ans.a m.name c)).map fun m => (m.name, ans.a m.name c) := by
  unfold cellAlloc
  simp only [one_eq]
  induction mods with
  | nil => rfl
  | cons m ms ih =>
    by_cases h : 1 - thr < ans.a m.name c
    · simp only [List.filterMap_cons, List.filter_cons, h, if_true, decide_true, List.map_cons, ih]
    · simp only [List.filterMap_cons, List.filter_cons, h, if_false, decide_false, ih]
      simp

/-- dropping non-negative entries does not increase a sum. -/
theorem sum_filter_le {β : Type} (l : List β) (f : β → α) (p : β → Bool) (h : ∀ x ∈ l, 0 ≤ f x) :
    ((l.filter p).map f).sum ≤ (l.map f).sum := by
  induction l with
  | nil => simp
  | cons x l ih =>
    have hx := h x (by simp)
    have ih' := ih (fun y hy => h y (by simp [hy]))
    by_cases hp : p x = true
    · simp only [List.filter_cons, hp, if_true, List.map_cons, List.sum_cons]; linarith
    · simp only [List.filter_cons, hp, List.map_cons, List.sum_cons]
      simp only [Bool.false_eq_true, if_false]; linarith

theorem sum_nonneg' {β : Type} (l : List β) (f : β → α) (h : ∀ x ∈ l, 0 ≤ f x) : 0 ≤ (l.map f).sum := by
  induction l with
  | nil => simp
  | cons x l ih =>
    have hx := h x (by simp)
    have ih' := ih (fun y hy => h y (by simp [hy]))
    simp only [List.map_cons, List.sum_cons]; linarith

theorem le_sum_of_mem {β : Type} (l : List β) (f : β → α) (h : ∀ x ∈ l, 0 ≤ f x) (y : β) (hy : y ∈ l) :
    f y ≤ (l.map f).sum := by
  induction l with
  | nil => simp at hy
  | cons x l ih =>
    have hx := h x (by simp)
    have hl := sum_nonneg' l f (fun z hz => h z (by simp [hz]))
    simp only [List.map_cons, List.sum_cons]
    rcases List.mem_cons.mp hy with rfl | hy'
    · linarith
    · have := ih (fun z hz => h z (by simp [hz])) hy'; linarith

/-! ### the `Allocation` constructor and `extractSolution` -/

theorem allocationCtor_ok (εA : α) (l r : List (RectAlloc α)) (h : allocationCtor εA l = .ok r) :
    r = l ∧ l ≠ [] ∧
    (∀ ra ∈ l, ∀ p ∈ ra.alloc, 0 ≤ p.2 ∧ p.2 ≤ 1) ∧
    (∀ ra ∈ l, 0 ≤ ra.rect.xmin ∧ 0 ≤ ra.rect.ymin) ∧
    allPairs (fun a b => !(Rect.overlap εA a.rect b.rect)) l = true := by
  unfold allocationCtor at h
  split at h
  · exact absurd h (by simp)
  · rename_i h1
    split at h
    · exact absurd h (by simp)
    · rename_i h2
      split at h
      · exact absurd h (by simp)
      · rename_i h3
        split at h
        · exact absurd h (by simp)
        · rename_i h4
          simp only [Except.ok.injEq] at h
          refine ⟨h.symm, ?_, ?_, ?_, ?_⟩
          · intro hl; simp [hl] at h2
          · have h1' : (l.all fun ra => ra.alloc.all fun p => decide ((zero : α) ≤ p.2) && decide (p.2 ≤ one)) = true := by
              simpa using h1
            intro ra hra p hp
            simp only [List.all_eq_true, Bool.and_eq_true, decide_eq_true_eq, zero_eq, one_eq] at h1'
            exact h1' ra hra p hp
          · have h3' : (l.all fun ra => decide ((zero : α) ≤ ra.rect.xmin) && decide ((zero : α) ≤ ra.rect.ymin)) = true := by
              simpa using h3
            intro ra hra
            simp only [List.all_eq_true, Bool.and_eq_true, decide_eq_true_eq, zero_eq] at h3'
            exact h3' ra hra
          · simpa using h4

theorem allPairs_iff_pairwise {β : Type} (p : β → β → Bool) (l : List β) :
    allPairs p l = true ↔ l.Pairwise (fun a b => p a b = true) := by
  induction l with
  | nil => simp [allPairs]
  | cons x l ih => simp [allPairs, ih, List.pairwise_cons]

theorem updateModules_spec (ans : Answer α) (mods mods' : List (Module α)) (h : updateModules ans mods = some mods') :
    List.Forall₂ (fun m m' => updateModule ans m = some m') mods mods' := by
  induction mods generalizing mods' with
  | nil => simp [updateModules] at h; subst h; exact .nil
  | cons m ms ih =>
    unfold updateModules at h
    split at h
    · exact absurd h (by simp)
    · rename_i m1 hm
      split at h
      · exact absurd h (by simp)
      · rename_i ms1 hms
        simp only [Option.some.injEq] at h; subst h
        exact .cons hm (ih _ hms)

theorem extractSolution_ok (ans : Answer α) (εA thr : α) (mods : List (Module α)) (cells : List (Rect α))
    (al : List (RectAlloc α)) (mods' : List (Module α))
    (h : extractSolution ans εA thr mods cells = .ok (al, mods')) :
    allocationCtor εA (allocList ans thr mods cells) = .ok al ∧ updateModules ans mods = some mods' := by
  unfold extractSolution at h
  split at h
  · exact absurd h (by simp)
  · rename_i al1 h1
    split at h
    · exact absurd h (by simp)
    · rename_i ms1 h2
      simp only [Except.ok.injEq, Prod.mk.injEq] at h
      rw [h1, h2, h.1, h.2]; exact ⟨rfl, rfl⟩

/-! ### list plumbing and the owned-cell lemma used by `fixed_kept` -/

theorem forall₂_mem_right {β γ : Type} {R : β → γ → Prop} {l1 : List β} {l2 : List γ} (h : List.Forall₂ R l1 l2)
    (b : γ) (hb : b ∈ l2) : ∃ a ∈ l1, R a b := by
  induction h with
  | nil => simp at hb
  | cons hab _ ih =>
    rcases List.mem_cons.mp hb with rfl | hb'
    · exact ⟨_, by simp, hab⟩
    · obtain ⟨a, ha, hr⟩ := ih hb'; exact ⟨a, by simp [ha], hr⟩

theorem forall₂_get {β γ : Type} {R : β → γ → Prop} {l1 : List β} {l2 : List γ} (h : List.Forall₂ R l1 l2)
    (i : Nat) (a : β) (b : γ) (ha : l1[i]? = some a) (hb : l2[i]? = some b) : R a b := by
  induction h generalizing i with
  | nil => simp at ha
  | cons hab _ ih =>
    cases i with
    | zero => simp at ha hb; subst ha; subst hb; exact hab
    | succ i => simp at ha hb; exact ih i ha hb

/-- In a cell where module `f` has ratio 1, a non-negative answer whose row sums to at most `1 + tol` with
    `tol ≤ 1 - thr` and `0 < thr` lists `f` alone, with ratio 1. -/
theorem cellAlloc_owned (ans : Answer α) (thr tol : α) (mods : List (Module α)) (c : Nat) (f : Module α)
    (hthr : 0 < thr) (htol : tol ≤ 1 - thr) (hf : f ∈ mods) (h1 : ans.a f.name c = 1)
    (hnn : ∀ m ∈ mods, 0 ≤ ans.a m.name c) (hrow : (mods.map fun m => ans.a m.name c).sum ≤ 1 + tol) :
    cellAlloc ans thr mods c = [(f.name, 1)] := by
  obtain ⟨l1, l2, rfl⟩ := List.append_of_mem hf
  rw [cellAlloc_eq_map_filter]
  simp only [List.map_append, List.map_cons, List.sum_append, List.sum_cons, h1] at hrow
  have hn1 : ∀ m ∈ l1, 0 ≤ ans.a m.name c := fun m hm => hnn m (by simp [hm])
  have hn2 : ∀ m ∈ l2, 0 ≤ ans.a m.name c := fun m hm => hnn m (by simp [hm])
  have s1 := sum_nonneg' l1 (fun m => ans.a m.name c) hn1
  have s2 := sum_nonneg' l2 (fun m => ans.a m.name c) hn2
  have e1 : l1.filter (fun m => decide (1 - thr < ans.a m.name c)) = [] := by
    rw [List.filter_eq_nil_iff]; intro m hm
    have := le_sum_of_mem l1 (fun m => ans.a m.name c) hn1 m hm
    simp only [decide_eq_true_eq, not_lt]; linarith
  have e2 : l2.filter (fun m => decide (1 - thr < ans.a m.name c)) = [] := by
    rw [List.filter_eq_nil_iff]; intro m hm
    have := le_sum_of_mem l2 (fun m => ans.a m.name c) hn2 m hm
    simp only [decide_eq_true_eq, not_lt]; linarith
  have e3 : decide (1 - thr < ans.a f.name c) = true := by rw [h1]; simp; linarith
  rw [List.filter_append, List.filter_cons, e1, e2, e3]
  simp [h1]

theorem getA_isSome (offered : List (RectAlloc α)) (f : Module α) (c : Nat) (hc : c < offered.length) :
    ∃ v, getA offered f c = some v := by
  unfold getA
  rw [List.getElem?_eq_getElem hc]
  dsimp only
  split
  · exact ⟨_, rfl⟩
  · split <;> exact ⟨_, rfl⟩

/-! ### the generic refine / optimise loop -/

theorem loopG_invariant {σ : Type} (optimize : σ → Option σ) (mustRefine : σ → Bool) (refine : σ → Option σ)
    (maxIter : Option Nat) (P : σ → Prop) (hrefine : ∀ s r, P s → refine s = some r → P r)
    (hopt : ∀ s r, P s → optimize s = some r → P r)
    (fuel n : Nat) (s r : σ) (hs : P s) (h : loopG optimize mustRefine refine maxIter fuel n s = some r) : P r := by
  induction fuel generalizing n s with
  | zero => simp [loopG] at h
  | succ fuel ih =>
    unfold loopG at h
    by_cases hc : withinLimit maxIter n = true
    · rw [if_pos hc] at h
      by_cases h1 : 1 < n
      · rw [if_pos h1] at h
        by_cases hm : mustRefine s = true
        · rw [if_pos hm] at h
          cases hr : refine s with
          | none => simp only [hr] at h; exact absurd h (by simp)
          | some sr =>
            simp only [hr] at h
            cases ho : optimize sr with
            | none => simp only [ho] at h; exact absurd h (by simp)
            | some s' => simp only [ho] at h; exact ih _ _ (hopt _ _ (hrefine s sr hs hr) ho) h
        · rw [if_neg hm] at h; simp only [Option.some.injEq] at h; subst h; exact hs
      · rw [if_neg h1] at h
        cases ho : optimize s with
        | none => simp only [ho] at h; exact absurd h (by simp)
        | some s' => simp only [ho] at h; exact ih _ _ (hopt _ _ hs ho) h
    · rw [if_neg hc] at h; simp only [Option.some.injEq] at h; subst h; exact hs

/-- the states the loop may offer to the optimiser: the initial one, and `refine` of an optimiser output that
    must be refined. -/
inductive Offered {σ : Type} (optimize : σ → Option σ) (mustRefine : σ → Bool) (refine : σ → Option σ) (init : σ) :
    σ → Prop
  | first : Offered optimize mustRefine refine init init
  | next {s s' s'' : σ} : Offered optimize mustRefine refine init s → optimize s = some s' → mustRefine s' = true →
      refine s' = some s'' → Offered optimize mustRefine refine init s''

/-- from the second pass on (`1 < n`), started on an optimiser output of an offered state, the loop returns an
    optimiser output of an offered state. -/
theorem loopG_out {σ : Type} (optimize : σ → Option σ) (mustRefine : σ → Bool) (refine : σ → Option σ)
    (maxIter : Option Nat) (init : σ) (fuel n : Nat) (s r : σ) (hn : 1 < n)
    (hs : ∃ o, Offered optimize mustRefine refine init o ∧ optimize o = some s)
    (h : loopG optimize mustRefine refine maxIter fuel n s = some r) :
    ∃ o, Offered optimize mustRefine refine init o ∧ optimize o = some r := by
  induction fuel generalizing n s with
  | zero => simp [loopG] at h
  | succ fuel ih =>
    unfold loopG at h
    by_cases hc : withinLimit maxIter n = true
    · rw [if_pos hc, if_pos hn] at h
      by_cases hm : mustRefine s = true
      · rw [if_pos hm] at h
        cases hr : refine s with
        | none => simp only [hr] at h; exact absurd h (by simp)
        | some sr =>
          simp only [hr] at h
          cases ho : optimize sr with
          | none => simp only [ho] at h; exact absurd h (by simp)
          | some s' =>
            simp only [ho] at h
            obtain ⟨o, hoff, hoo⟩ := hs
            exact ih (n + 1) s' (by omega) ⟨sr, Offered.next hoff hoo hm hr, ho⟩ h
      · rw [if_neg hm] at h; simp only [Option.some.injEq] at h; subst h; exact hs
    · rw [if_neg hc] at h; simp only [Option.some.injEq] at h; subst h; exact hs

/-- started at `n_iter = 1` with at least one pass allowed, the loop optimises before it may stop: what it returns
    is the optimiser's output on a state it offered. -/
theorem loopG_first {σ : Type} (optimize : σ → Option σ) (mustRefine : σ → Bool) (refine : σ → Option σ)
    (maxIter : Option Nat) (fuel : Nat) (s r : σ) (hlim : withinLimit maxIter 1 = true)
    (h : loopG optimize mustRefine refine maxIter fuel 1 s = some r) :
    ∃ o, Offered optimize mustRefine refine s o ∧ optimize o = some r := by
  cases fuel with
  | zero => simp [loopG] at h
  | succ fuel =>
    unfold loopG at h
    rw [if_pos hlim, if_neg (by omega)] at h
    cases ho : optimize s with
    | none => simp only [ho] at h; exact absurd h (by simp)
    | some s' =>
      simp only [ho] at h
      exact loopG_out optimize mustRefine refine maxIter s fuel 2 s' r (by omega) ⟨s, Offered.first, ho⟩ h

/-- an invariant of the initial state preserved by `refine` and by the optimiser holds of every offered state. -/
theorem Offered.inv {σ : Type} {optimize : σ → Option σ} {mustRefine : σ → Bool} {refine : σ → Option σ} {init s : σ}
    (h : Offered optimize mustRefine refine init s) (P : σ → Prop) (h0 : P init)
    (hrefine : ∀ s r, P s → refine s = some r → P r) (hopt : ∀ s r, P s → optimize s = some r → P r) : P s := by
  induction h with
  | first => exact h0
  | next _ ho _ hr ih => exact hrefine _ _ (hopt _ _ ih ho) hr

theorem forall₂_refl_of {β : Type} {R : β → β → Prop} (hr : ∀ a, R a a) : ∀ l : List β, List.Forall₂ R l l
  | [] => .nil
  | a :: l => .cons (hr a) (forall₂_refl_of hr l)

theorem forall₂_trans_of {β γ δ : Type} {R : β → γ → Prop} {S : γ → δ → Prop} {T : β → δ → Prop}
    (htr : ∀ a b c, R a b → S b c → T a c) :
    ∀ {l1 : List β} {l2 : List γ} {l3 : List δ}, List.Forall₂ R l1 l2 → List.Forall₂ S l2 l3 → List.Forall₂ T l1 l3
  | _, _, _, .nil, .nil => .nil
  | _, _, _, .cons h1 t1, .cons h2 t2 => .cons (htr _ _ _ h1 h2) (forall₂_trans_of htr t1 t2)

theorem forall₂_mem_left {β γ : Type} {R : β → γ → Prop} {l1 : List β} {l2 : List γ} (h : List.Forall₂ R l1 l2)
    (a : β) (ha : a ∈ l1) : ∃ b ∈ l2, R a b := by
  induction h with
  | nil => simp at ha
  | cons hab _ ih =>
    rcases List.mem_cons.mp ha with rfl | ha'
    · exact ⟨_, by simp, hab⟩
    · obtain ⟨b, hb, hr⟩ := ih ha'; exact ⟨b, by simp [hb], hr⟩


/-! ### when `extract_solution` does NOT raise -/

theorem updateModule_isSome (ans : Answer α) (m : Module α)
    (h : m.hard = true → m.fixed = false → totalArea m.rects ≠ 0) : (updateModule ans m).isSome = true := by
  unfold updateModule
  dsimp only
  split
  · rename_i hc
    simp only [Bool.and_eq_true, Bool.not_eq_true'] at hc
    have := recenter_isSome (ans.x m.name) (ans.y m.name) m.rects (h hc.1 hc.2)
    obtain ⟨rs, hrs⟩ := Option.isSome_iff_exists.mp this
    rw [hrs]; rfl
  · rfl

theorem updateModules_isSome (ans : Answer α) (mods : List (Module α))
    (h : ∀ m ∈ mods, m.hard = true → m.fixed = false → totalArea m.rects ≠ 0) : (updateModules ans mods).isSome = true := by
  induction mods with
  | nil => rfl
  | cons m ms ih =>
    obtain ⟨m', hm'⟩ := Option.isSome_iff_exists.mp (updateModule_isSome ans m (h m (by simp)))
    obtain ⟨ms', hms'⟩ := Option.isSome_iff_exists.mp (ih fun x hx => h x (by simp [hx]))
    unfold updateModules
    rw [hm', hms']; rfl

/-- the four checks of the `Allocation` constructor pass on the allocation list when: every listed ratio is in `[0,1]`,
    some ratio passes the threshold filter, the offered cells are in the positive quadrant and pairwise overlap at most
    `εA`. -/
theorem allocationCtor_allocList (ans : Answer α) (εA thr : α) (mods : List (Module α)) (cells : List (Rect α))
    (hb : ∀ m ∈ mods, ∀ c < cells.length, 0 ≤ ans.a m.name c ∧ ans.a m.name c ≤ 1)
    (hne : ∃ m ∈ mods, ∃ c, c < cells.length ∧ 1 - thr < ans.a m.name c)
    (hq : ∀ r ∈ cells, 0 ≤ r.xmin ∧ 0 ≤ r.ymin)
    (hsep : cells.Pairwise fun a b => a.areaOverlap b ≤ εA) :
    allocationCtor εA (allocList ans thr mods cells) = .ok (allocList ans thr mods cells) := by
  have hsub := allocList_rects_sublist ans thr mods cells
  have c1 : ((allocList ans thr mods cells).all fun ra =>
      ra.alloc.all fun p => decide ((zero : α) ≤ p.2) && decide (p.2 ≤ one)) = true := by
    simp only [List.all_eq_true, Bool.and_eq_true, decide_eq_true_eq, zero_eq, one_eq]
    intro ra hra p hp
    obtain ⟨c, cell, hc, _, rfl⟩ := (mem_allocList ans thr mods cells ra).mp hra
    have hlt : c < cells.length := by
      by_contra hge
      rw [List.getElem?_eq_none (Nat.le_of_not_lt hge)] at hc; exact absurd hc (by simp)
    obtain ⟨m, hm, _, hv, _⟩ := (mem_cellAlloc ans thr mods c p.1 p.2).mp hp
    rw [← hv]; exact hb m hm c hlt
  have c2 : (allocList ans thr mods cells).isEmpty = false := by
    obtain ⟨m, hm, c, hc, hlt⟩ := hne
    have hmem : (m.name, ans.a m.name c) ∈ cellAlloc ans thr mods c :=
      (mem_cellAlloc ans thr mods c _ _).mpr ⟨m, hm, rfl, rfl, hlt⟩
    have : ({ rect := cells[c], alloc := cellAlloc ans thr mods c, depth := 0 } : RectAlloc α) ∈
        allocList ans thr mods cells :=
      (mem_allocList ans thr mods cells _).mpr ⟨c, cells[c], by simp [hc], List.ne_nil_of_mem hmem, rfl⟩
    cases hl : allocList ans thr mods cells with
    | nil => rw [hl] at this; cases this
    | cons _ _ => rfl
  have c3 : ((allocList ans thr mods cells).all fun ra =>
      decide ((zero : α) ≤ ra.rect.xmin) && decide ((zero : α) ≤ ra.rect.ymin)) = true := by
    simp only [List.all_eq_true, Bool.and_eq_true, decide_eq_true_eq, zero_eq]
    intro ra hra
    exact hq ra.rect (hsub.subset (List.mem_map.mpr ⟨ra, hra, rfl⟩))
  have c4 : allPairs (fun a b : RectAlloc α => !(Rect.overlap εA a.rect b.rect)) (allocList ans thr mods cells) = true := by
    rw [allPairs_iff_pairwise]
    have := hsep.sublist hsub
    rw [List.pairwise_map] at this
    refine this.imp ?_
    intro a b hab
    simp [Rect.overlap, not_lt.mpr hab]
  unfold allocationCtor
  rw [if_neg (by rw [c1]; simp), if_neg (by rw [c2]; simp), if_neg (by rw [c3]; simp), if_neg (by rw [c4]; simp)]

theorem extractSolution_returns (ans : Answer α) (εA thr : α) (mods : List (Module α)) (cells : List (Rect α))
    (hb : ∀ m ∈ mods, ∀ c < cells.length, 0 ≤ ans.a m.name c ∧ ans.a m.name c ≤ 1)
    (hne : ∃ m ∈ mods, ∃ c, c < cells.length ∧ 1 - thr < ans.a m.name c)
    (hq : ∀ r ∈ cells, 0 ≤ r.xmin ∧ 0 ≤ r.ymin)
    (hsep : cells.Pairwise fun a b => a.areaOverlap b ≤ εA)
    (harea : ∀ m ∈ mods, m.hard = true → m.fixed = false → totalArea m.rects ≠ 0) :
    ∃ ms, extractSolution ans εA thr mods cells = .ok (allocList ans thr mods cells, ms) := by
  obtain ⟨ms, hms⟩ := Option.isSome_iff_exists.mp (updateModules_isSome ans mods harea)
  refine ⟨ms, ?_⟩
  unfold extractSolution
  rw [allocationCtor_allocList ans εA thr mods cells hb hne hq hsep]
  simp only [hms]

end FV.Glb

import FV.Model.Alloc
import FV.Props.C18
import Mathlib.Algebra.BigOperators.Group.List.Basic
import Mathlib.Algebra.Order.BigOperators.Group.List
/-
  Helper lemmas for the `Allocation` model over an arbitrary linearly ordered field, part 1 (constructor, `Refines`,
  threshold / uniform refinement, one round of gridding); continued in `FV/Proofs/AllocGrid.lean` and `FV/Proofs/Alloc.lean`.
-/
namespace FV.Alloc
open FV FV.Rect FV.C18
set_option linter.unusedSectionVars false
set_option linter.unusedSimpArgs false
set_option linter.unusedVariables false

variable {α : Type} [Field α] [LinearOrder α] [IsStrictOrderedRing α]

@[simp] theorem one_eq : (one : α) = 1 := by simp [one]

/-! ### `mapE` -/

theorem mapE_ok_iff {β γ ε : Type} (f : β → Except ε γ) (l : List β) (ys : List γ) :
    mapE f l = .ok ys ↔ List.Forall₂ (fun x y => f x = .ok y) l ys := by
  induction l generalizing ys with
  | nil =>
    cases ys with
    | nil => simp [mapE]
    | cons y ys => simp [mapE]
  | cons x xs ih =>
    unfold mapE
    cases hfx : f x with
    | error e =>
      simp only
      constructor
      · intro h; cases h
      · intro h; cases h with | cons h1 _ => rw [hfx] at h1; cases h1
    | ok y =>
      simp only
      cases hm : mapE f xs with
      | error e =>
        simp only
        constructor
        · intro h; cases h
        · intro h
          cases h with
          | cons h1 h2 =>
            have := (ih _).mpr h2
            rw [hm] at this; cases this
      | ok ys' =>
        simp only
        constructor
        · intro h
          injection h with h; subst h
          exact List.Forall₂.cons hfx ((ih ys').mp hm)
        · intro h
          cases h with
          | cons h1 h2 =>
            rw [hfx] at h1; injection h1 with h1; subst h1
            have := (ih _).mpr h2
            rw [hm] at this; injection this with this; subst this; rfl

theorem mapE_ok_of_forall {β γ ε : Type} (f : β → Except ε γ) (R : β → γ → Prop) (l : List β)
    (h : ∀ x ∈ l, ∃ y, f x = .ok y ∧ R x y) : ∃ ys, mapE f l = .ok ys ∧ List.Forall₂ R l ys := by
  induction l with
  | nil => exact ⟨[], by simp [mapE], List.Forall₂.nil⟩
  | cons x xs ih =>
    obtain ⟨y, hy, hr⟩ := h x (by simp)
    obtain ⟨ys, hys, hrs⟩ := ih (fun z hz => h z (by simp [hz]))
    exact ⟨y :: ys, by simp [mapE, hy, hys], List.Forall₂.cons hr hrs⟩

theorem mapE_congr {β γ ε : Type} (f g : β → Except ε γ) (l : List β) (h : ∀ x ∈ l, f x = g x) :
    mapE f l = mapE g l := by
  induction l with
  | nil => rfl
  | cons x xs ih =>
    unfold mapE
    rw [h x (by simp), ih (fun z hz => h z (by simp [hz]))]

/-! ### generic facts on `Forall₂` / `flatten` -/

theorem forall2_mem_right {β γ : Type} {R : β → γ → Prop} {l : List β} {m : List γ}
    (h : List.Forall₂ R l m) : ∀ p ∈ m, ∃ d ∈ l, R d p := by
  induction h with
  | nil => intro p hp; cases hp
  | cons h1 _ ih =>
    intro p hp
    rcases List.mem_cons.mp hp with rfl | hp
    · exact ⟨_, by simp, h1⟩
    · obtain ⟨d, hd, hr⟩ := ih p hp
      exact ⟨d, by simp [hd], hr⟩

theorem forall2_mem_left {β γ : Type} {R : β → γ → Prop} {l : List β} {m : List γ}
    (h : List.Forall₂ R l m) : ∀ d ∈ l, ∃ p ∈ m, R d p := by
  induction h with
  | nil => intro p hp; cases hp
  | cons h1 _ ih =>
    intro p hp
    rcases List.mem_cons.mp hp with rfl | hp
    · exact ⟨_, by simp, h1⟩
    · obtain ⟨d, hd, hr⟩ := ih p hp
      exact ⟨d, by simp [hd], hr⟩

theorem sum_flatten_forall2 {β γ : Type} (f : γ → α) (g : β → α) {l : List β} {parts : List (List γ)}
    (h : List.Forall₂ (fun d p => (p.map f).sum = g d) l parts) :
    (parts.flatten.map f).sum = (l.map g).sum := by
  induction h with
  | nil => simp
  | cons h1 _ ih =>
    rw [List.flatten_cons, List.map_append, List.sum_append, List.map_cons, List.sum_cons, h1, ih]

theorem pairwise_of_forall2 {β γ : Type} {S : β → β → Prop} {R : β → γ → Prop} {T : γ → γ → Prop}
    {l : List β} {m : List γ} (hp : l.Pairwise S) (h : List.Forall₂ R l m)
    (hst : ∀ d e p q, S d e → R d p → R e q → T p q) : m.Pairwise T := by
  induction h with
  | nil => exact List.Pairwise.nil
  | cons h1 h2 ih =>
    rw [List.pairwise_cons] at hp ⊢
    refine ⟨?_, ih hp.2⟩
    intro q hq
    obtain ⟨e, he, hr⟩ := forall2_mem_right h2 q hq
    exact hst _ _ _ _ (hp.1 e he) h1 hr

/-! ### monotonicity of the overlap area -/

theorem ovLen_mono (l1 h1 l2 h2 l1' h1' l2' h2' : α) (a : l1 ≤ l1') (b : h1' ≤ h1) (c : l2 ≤ l2') (d : h2' ≤ h2) :
    ovLen l1' h1' l2' h2' ≤ ovLen l1 h1 l2 h2 := by
  unfold ovLen
  grind

theorem areaOverlap_mono (d' d e' e : Rect α) (h1 : d'.isInside d = true) (h2 : e'.isInside e = true) :
    d'.areaOverlap e' ≤ d.areaOverlap e := by
  rw [isInside_iff_coords] at h1 h2
  rw [areaOverlap_eq, areaOverlap_eq]
  apply mul_le_mul
  · exact ovLen_mono _ _ _ _ _ _ _ _ h1.1 h1.2.2.1 h2.1 h2.2.2.1
  · exact ovLen_mono _ _ _ _ _ _ _ _ h1.2.1 h1.2.2.2 h2.2.1 h2.2.2.2
  · exact ovLen_nonneg ..
  · exact ovLen_nonneg ..

theorem isInside_refl (r : Rect α) : r.isInside r = true := by
  rw [isInside_iff_coords]; exact ⟨le_refl _, le_refl _, le_refl _, le_refl _⟩

theorem isInside_trans (a b c : Rect α) (h1 : a.isInside b = true) (h2 : b.isInside c = true) :
    a.isInside c = true := by
  rw [isInside_iff_coords] at *
  exact ⟨le_trans h2.1 h1.1, le_trans h2.2.1 h1.2.1, le_trans h1.2.2.1 h2.2.2.1, le_trans h1.2.2.2 h2.2.2.2⟩

/-! ### a list of cells tiling one cell -/

/-- `ch` is a refinement of the single cell `c`: the pieces lie inside `c`, do not overlap, cover it,
    carry its ratios and attributes, and conserve area and first moments; a fixed cell is kept whole. -/
structure TilesCell (c : Cell α) (ch : List (Cell α)) : Prop where
  nonempty : ch ≠ []
  alloc : ∀ d ∈ ch, d.alloc = c.alloc
  attrs : ∀ d ∈ ch, d.rect.region = c.rect.region ∧ d.rect.fixed = c.rect.fixed ∧ d.rect.hard = c.rect.hard
  pos : ∀ d ∈ ch, 0 < d.rect.w ∧ 0 < d.rect.h
  inside : ∀ d ∈ ch, d.rect.isInside c.rect = true
  disjoint : ch.Pairwise (fun d e => d.rect.areaOverlap e.rect = 0)
  area : (ch.map (fun d => d.rect.area)).sum = c.rect.area
  momx : (ch.map (fun d => d.rect.area * d.rect.cx)).sum = c.rect.area * c.rect.cx
  momy : (ch.map (fun d => d.rect.area * d.rect.cy)).sum = c.rect.area * c.rect.cy
  cover : ∀ x y, Mem c.rect x y → ∃ d ∈ ch, Mem d.rect x y
  fixedKept : c.rect.fixed = true → ch = [c]

theorem TilesCell.refl (c : Cell α) (hw : 0 < c.rect.w) (hh : 0 < c.rect.h) : TilesCell c [c] := by
  refine ⟨by simp, ?_, ?_, ?_, ?_, ?_, by simp, by simp, by simp, ?_, fun _ => rfl⟩
  · intro d hd; simp at hd; subst hd; rfl
  · intro d hd; simp at hd; subst hd; exact ⟨rfl, rfl, rfl⟩
  · intro d hd; simp at hd; subst hd; exact ⟨hw, hh⟩
  · intro d hd; simp at hd; subst hd; exact isInside_refl _
  · simp
  · intro x y hm; exact ⟨c, by simp, hm⟩

/-- refinements compose. -/
theorem TilesCell.bind {c : Cell α} {ch : List (Cell α)} {parts : List (List (Cell α))}
    (h : TilesCell c ch) (hp : List.Forall₂ TilesCell ch parts) : TilesCell c parts.flatten := by
  have hr := forall2_mem_right hp
  have hl := forall2_mem_left hp
  have memf : ∀ d' ∈ parts.flatten, ∃ d ∈ ch, ∃ p, d' ∈ p ∧ TilesCell d p := by
    intro d' hd'
    obtain ⟨p, hp1, hp2⟩ := List.mem_flatten.mp hd'
    obtain ⟨d, hd, ht⟩ := hr p hp1
    exact ⟨d, hd, p, hp2, ht⟩
  refine ⟨?_, ?_, ?_, ?_, ?_, ?_, ?_, ?_, ?_, ?_, ?_⟩
  · cases hp with
    | nil => exact absurd rfl h.nonempty
    | cons h1 _ =>
      intro hc
      have := h1.nonempty
      simp only [List.flatten_cons, List.append_eq_nil_iff] at hc
      exact this hc.1
  · intro d' hd'
    obtain ⟨d, hd, p, hdp, ht⟩ := memf d' hd'
    rw [ht.alloc d' hdp, h.alloc d hd]
  · intro d' hd'
    obtain ⟨d, hd, p, hdp, ht⟩ := memf d' hd'
    obtain ⟨a1, a2, a3⟩ := ht.attrs d' hdp
    obtain ⟨b1, b2, b3⟩ := h.attrs d hd
    exact ⟨a1.trans b1, a2.trans b2, a3.trans b3⟩
  · intro d' hd'
    obtain ⟨d, hd, p, hdp, ht⟩ := memf d' hd'
    exact ht.pos d' hdp
  · intro d' hd'
    obtain ⟨d, hd, p, hdp, ht⟩ := memf d' hd'
    exact isInside_trans _ _ _ (ht.inside d' hdp) (h.inside d hd)
  · rw [List.pairwise_flatten]
    constructor
    · intro p hp1
      obtain ⟨d, _, ht⟩ := hr p hp1
      exact ht.disjoint
    · apply pairwise_of_forall2 h.disjoint hp
      intro d e p q hde hdp heq x hx y hy
      have h1 := areaOverlap_mono _ _ _ _ (hdp.inside x hx) (heq.inside y hy)
      have h2 := areaOverlap_nonneg x.rect y.rect
      rw [hde] at h1
      exact le_antisymm h1 h2
  · rw [← h.area]
    exact sum_flatten_forall2 (fun d : Cell α => d.rect.area) (fun d : Cell α => d.rect.area)
      (hp.imp (fun _ _ ht => ht.area))
  · rw [← h.momx]
    exact sum_flatten_forall2 (fun d : Cell α => d.rect.area * d.rect.cx) (fun d : Cell α => d.rect.area * d.rect.cx)
      (hp.imp (fun _ _ ht => ht.momx))
  · rw [← h.momy]
    exact sum_flatten_forall2 (fun d : Cell α => d.rect.area * d.rect.cy) (fun d : Cell α => d.rect.area * d.rect.cy)
      (hp.imp (fun _ _ ht => ht.momy))
  · intro x y hm
    obtain ⟨d, hd, hmd⟩ := h.cover x y hm
    obtain ⟨p, hp1, ht⟩ := hl d hd
    obtain ⟨d', hd', hm'⟩ := ht.cover x y hmd
    exact ⟨d', List.mem_flatten.mpr ⟨p, hp1, hd'⟩, hm'⟩
  · intro hf
    have := h.fixedKept hf
    subst this
    cases hp with
    | cons h1 h2 =>
      cases h2
      have := h1.fixedKept hf
      subst this
      simp

/-! ### two pieces of a cut -/

theorem area_sides (r : Rect α) : r.area = (r.xmax - r.xmin) * (r.ymax - r.ymin) := by
  rw [xmax_sub_xmin, ymax_sub_ymin]; rfl

theorem pieces_of_sidesH (r p q : Rect α) (x : α) (hh : 0 < r.h)
    (hs : p.xmin = r.xmin ∧ p.xmax = x ∧ q.xmin = x ∧ q.xmax = r.xmax ∧
      p.ymin = r.ymin ∧ p.ymax = r.ymax ∧ q.ymin = r.ymin ∧ q.ymax = r.ymax ∧ r.xmin < x ∧ x < r.xmax) :
    p.area * p.cx + q.area * q.cx = r.area * r.cx ∧ p.area * p.cy + q.area * q.cy = r.area * r.cy ∧
    0 < p.w ∧ 0 < p.h ∧ 0 < q.w ∧ 0 < q.h := by
  obtain ⟨a1, a2, a3, a4, a5, a6, a7, a8, a9, a10⟩ := hs
  have e1 := xmax_sub_xmin p; have e2 := xmax_sub_xmin q
  have e3 := ymax_sub_ymin p; have e4 := ymax_sub_ymin q; have e5 := ymax_sub_ymin r
  refine ⟨?_, ?_, by linarith, by linarith, by linarith, by linarith⟩
  · rw [area_sides p, area_sides q, area_sides r, cx_eq p, cx_eq q, cx_eq r, a1, a2, a3, a4, a5, a6, a7, a8]; ring
  · rw [area_sides p, area_sides q, area_sides r, cy_eq p, cy_eq q, cy_eq r, a1, a2, a3, a4, a5, a6, a7, a8]; ring

theorem pieces_of_sidesV (r p q : Rect α) (y : α) (hw : 0 < r.w)
    (hs : p.ymin = r.ymin ∧ p.ymax = y ∧ q.ymin = y ∧ q.ymax = r.ymax ∧
      p.xmin = r.xmin ∧ p.xmax = r.xmax ∧ q.xmin = r.xmin ∧ q.xmax = r.xmax ∧ r.ymin < y ∧ y < r.ymax) :
    p.area * p.cx + q.area * q.cx = r.area * r.cx ∧ p.area * p.cy + q.area * q.cy = r.area * r.cy ∧
    0 < p.w ∧ 0 < p.h ∧ 0 < q.w ∧ 0 < q.h := by
  obtain ⟨a1, a2, a3, a4, a5, a6, a7, a8, a9, a10⟩ := hs
  have e1 := xmax_sub_xmin p; have e2 := xmax_sub_xmin q; have e5 := xmax_sub_xmin r
  have e3 := ymax_sub_ymin p; have e4 := ymax_sub_ymin q
  refine ⟨?_, ?_, by linarith, by linarith, by linarith, by linarith⟩
  · rw [area_sides p, area_sides q, area_sides r, cx_eq p, cx_eq q, cx_eq r, a1, a2, a3, a4, a5, a6, a7, a8]; ring
  · rw [area_sides p, area_sides q, area_sides r, cy_eq p, cy_eq q, cy_eq r, a1, a2, a3, a4, a5, a6, a7, a8]; ring

/-- two pieces that tile `r` (C18 `Tiles2`) with the right moments form a refinement of the cell. -/
theorem TilesCell.of_pair (r p q : Rect α) (al : Alloc α) (d d1 d2 : Nat) (ht : Tiles2 r p q)
    (hm : p.area * p.cx + q.area * q.cx = r.area * r.cx ∧ p.area * p.cy + q.area * q.cy = r.area * r.cy ∧
      0 < p.w ∧ 0 < p.h ∧ 0 < q.w ∧ 0 < q.h) (hf : r.fixed = false) :
    TilesCell ⟨r, al, d⟩ [⟨p, al, d1⟩, ⟨q, al, d2⟩] := by
  obtain ⟨m1, m2, p1, p2, p3, p4⟩ := hm
  refine ⟨by simp, ?_, ?_, ?_, ?_, ?_, ?_, ?_, ?_, ?_, ?_⟩
  · intro c hc; simp at hc; rcases hc with rfl | rfl <;> rfl
  · intro c hc; simp at hc; rcases hc with rfl | rfl
    · exact ht.inherit_p
    · exact ht.inherit_q
  · intro c hc; simp at hc; rcases hc with rfl | rfl
    · exact ⟨p1, p2⟩
    · exact ⟨p3, p4⟩
  · intro c hc; simp at hc; rcases hc with rfl | rfl
    · exact ht.inside_p
    · exact ht.inside_q
  · simp [ht.disjoint]
  · simp [ht.area]
  · simp [m1]
  · simp [m2]
  · intro x y hxy
    rcases ht.cover x y hxy with h | h
    · exact ⟨⟨p, al, d1⟩, by simp, h⟩
    · exact ⟨⟨q, al, d2⟩, by simp, h⟩
  · intro h; simp [hf] at h

/-- `split()` of a proper, non-fixed rectangle refines the cell. -/
theorem split_tilesCell (r p q : Rect α) (al : Alloc α) (d d1 d2 : Nat) (hw : 0 < r.w) (hh : 0 < r.h)
    (hf : r.fixed = false) (h : r.split = some (p, q)) : TilesCell ⟨r, al, d⟩ [⟨p, al, d1⟩, ⟨q, al, d2⟩] := by
  have ht := (split_tiles r p q hw hh h).1
  unfold Rect.split at h
  split at h
  · exact TilesCell.of_pair r p q al d d1 d2 ht (pieces_of_sidesV r p q r.cy hw (splitV_half_sides r p q h)) hf
  · exact TilesCell.of_pair r p q al d d1 d2 ht (pieces_of_sidesH r p q r.cx hh (splitH_half_sides r p q h)) hf

/-- `_split_allocation` succeeds and refines the cell into `2^levels` pieces of depth `depth + levels`. -/
theorem splitAllocation_tiles (levels : Nat) : ∀ (r : Rect α) (al : Alloc α) (d : Nat), 0 < r.w → 0 < r.h →
    (levels = 0 ∨ r.fixed = false) →
    ∃ ch, splitAllocation r al d levels = .ok ch ∧ TilesCell ⟨r, al, d⟩ ch ∧
      (∀ c ∈ ch, c.depth = d + levels) ∧ ch.length = 2 ^ levels := by
  induction levels with
  | zero =>
    intro r al d hw hh _
    exact ⟨[⟨r, al, d⟩], rfl, TilesCell.refl _ hw hh, by simp, by simp⟩
  | succ l ih =>
    intro r al d hw hh hf
    have hf : r.fixed = false := by
      rcases hf with h | h
      · omega
      · exact h
    have hs := split_isSome r hw hh
    obtain ⟨⟨p, q⟩, hpq⟩ := Option.isSome_iff_exists.mp hs
    have ht := split_tilesCell r p q al d (d + 1) (d + 1) hw hh hf hpq
    have hp := ht.pos ⟨p, al, d + 1⟩ (by simp)
    have hq := ht.pos ⟨q, al, d + 1⟩ (by simp)
    have fp : p.fixed = false := by have := (ht.attrs ⟨p, al, d + 1⟩ (by simp)).2.1; simp at this; rw [this, hf]
    have fq : q.fixed = false := by have := (ht.attrs ⟨q, al, d + 1⟩ (by simp)).2.1; simp at this; rw [this, hf]
    obtain ⟨a, ha, ta, da, la⟩ := ih p al (d + 1) hp.1 hp.2 (Or.inr fp)
    obtain ⟨b, hb, tb, db, lb⟩ := ih q al (d + 1) hq.1 hq.2 (Or.inr fq)
    refine ⟨a ++ b, ?_, ?_, ?_, ?_⟩
    · simp [splitAllocation, hpq, ha, hb]
    · have := TilesCell.bind ht (List.Forall₂.cons ta (List.Forall₂.cons tb List.Forall₂.nil))
      simpa using this
    · intro c hc
      rcases List.mem_append.mp hc with h | h
      · rw [da c h]; omega
      · rw [db c h]; omega
    · rw [List.length_append, la, lb]; ring

/-! ### refinement of a list of cells -/

/-- `cs'` refines `cs`: it is the concatenation of one refinement per cell of `cs`, in order. -/
def Refines (cs cs' : List (Cell α)) : Prop :=
  ∃ parts : List (List (Cell α)), cs' = parts.flatten ∧ List.Forall₂ TilesCell cs parts

theorem forall2_append_left {β γ : Type} {R : β → γ → Prop} : ∀ (l1 l2 : List β) (m : List γ),
    List.Forall₂ R (l1 ++ l2) m → ∃ m1 m2, m = m1 ++ m2 ∧ List.Forall₂ R l1 m1 ∧ List.Forall₂ R l2 m2 := by
  intro l1
  induction l1 with
  | nil => intro l2 m h; exact ⟨[], m, rfl, List.Forall₂.nil, h⟩
  | cons x xs ih =>
    intro l2 m h
    cases h with
    | cons h1 h2 =>
      obtain ⟨m1, m2, rfl, a, b⟩ := ih l2 _ h2
      exact ⟨_ :: m1, m2, rfl, List.Forall₂.cons h1 a, b⟩

theorem forall2_flatten_split {β γ : Type} {R : β → γ → Prop} : ∀ (P : List (List β)) (Q : List γ),
    List.Forall₂ R P.flatten Q → ∃ QQ : List (List γ), Q = QQ.flatten ∧ List.Forall₂ (fun p qq => List.Forall₂ R p qq) P QQ := by
  intro P
  induction P with
  | nil => intro Q h; simp at h; subst h; exact ⟨[], rfl, List.Forall₂.nil⟩
  | cons p P ih =>
    intro Q h
    rw [List.flatten_cons] at h
    obtain ⟨m1, m2, rfl, a, b⟩ := forall2_append_left _ _ _ h
    obtain ⟨QQ, rfl, c⟩ := ih m2 b
    exact ⟨m1 :: QQ, rfl, List.Forall₂.cons a c⟩

theorem forall2_comp {β γ δ : Type} {R1 : β → γ → Prop} {R2 : γ → δ → Prop} {R3 : β → δ → Prop}
    (hc : ∀ a b c, R1 a b → R2 b c → R3 a c) : ∀ (l : List β) (m : List γ) (n : List δ),
    List.Forall₂ R1 l m → List.Forall₂ R2 m n → List.Forall₂ R3 l n := by
  intro l m n h1
  induction h1 generalizing n with
  | nil => intro h2; cases h2; exact List.Forall₂.nil
  | cons a _ ih =>
    intro h2
    cases h2 with
    | cons b c => exact List.Forall₂.cons (hc _ _ _ a b) (ih _ c)

theorem Refines.refl (cs : List (Cell α)) (hpos : ∀ c ∈ cs, 0 < c.rect.w ∧ 0 < c.rect.h) : Refines cs cs := by
  refine ⟨cs.map (fun c => [c]), ?_, ?_⟩
  · clear hpos
    induction cs with
    | nil => rfl
    | cons c cs ih => simp [← ih]
  · rw [List.forall₂_map_right_iff]
    induction cs with
    | nil => exact List.Forall₂.nil
    | cons c cs ih =>
      exact List.Forall₂.cons (TilesCell.refl c (hpos c (by simp)).1 (hpos c (by simp)).2)
        (ih (fun d hd => hpos d (by simp [hd])))

theorem Refines.trans {cs cs' cs'' : List (Cell α)} (h1 : Refines cs cs') (h2 : Refines cs' cs'') :
    Refines cs cs'' := by
  obtain ⟨P, rfl, hP⟩ := h1
  obtain ⟨Q, rfl, hQ⟩ := h2
  obtain ⟨QQ, rfl, hQQ⟩ := forall2_flatten_split P Q hQ
  refine ⟨QQ.map List.flatten, ?_, ?_⟩
  · rw [List.flatten_flatten]
  · rw [List.forall₂_map_right_iff]
    exact forall2_comp (R1 := TilesCell) (R2 := fun p qq => List.Forall₂ TilesCell p qq)
      (R3 := fun c qq => TilesCell c qq.flatten) (fun a b c h h' => TilesCell.bind h h') _ _ _ hP hQQ

/-- every cell of the refinement lies in exactly the part of one original cell. -/
theorem Refines.mem {cs cs' : List (Cell α)} (h : Refines cs cs') :
    ∀ d ∈ cs', ∃ c ∈ cs, d.alloc = c.alloc ∧ d.rect.isInside c.rect = true ∧ 0 < d.rect.w ∧ 0 < d.rect.h ∧
      d.rect.region = c.rect.region ∧ d.rect.fixed = c.rect.fixed ∧ d.rect.hard = c.rect.hard := by
  obtain ⟨P, rfl, hP⟩ := h
  intro d hd
  obtain ⟨p, hp1, hp2⟩ := List.mem_flatten.mp hd
  obtain ⟨c, hc, ht⟩ := forall2_mem_right hP p hp1
  exact ⟨c, hc, ht.alloc d hp2, ht.inside d hp2, (ht.pos d hp2).1, (ht.pos d hp2).2, ht.attrs d hp2⟩

/-- a fixed cell of the original list is a cell of the refinement. -/
theorem Refines.fixed_kept {cs cs' : List (Cell α)} (h : Refines cs cs') :
    ∀ c ∈ cs, c.rect.fixed = true → c ∈ cs' := by
  obtain ⟨P, rfl, hP⟩ := h
  intro c hc hf
  obtain ⟨p, hp1, ht⟩ := forall2_mem_left hP c hc
  have := ht.fixedKept hf
  subst this
  exact List.mem_flatten.mpr ⟨_, hp1, by simp⟩

theorem Refines.ne_nil {cs cs' : List (Cell α)} (h : Refines cs cs') (hne : cs ≠ []) : cs' ≠ [] := by
  obtain ⟨P, rfl, hP⟩ := h
  cases hP with
  | nil => exact absurd rfl hne
  | cons h1 _ =>
    intro hc
    simp only [List.flatten_cons, List.append_eq_nil_iff] at hc
    exact h1.nonempty hc.1

/-- pairwise overlap bounds survive refinement (`0 ≤ ε`). -/
theorem Refines.pairwise {cs cs' : List (Cell α)} (h : Refines cs cs') (ε : α) (hε : 0 ≤ ε)
    (hp : cs.Pairwise (fun c d => c.rect.areaOverlap d.rect ≤ ε)) :
    cs'.Pairwise (fun c d => c.rect.areaOverlap d.rect ≤ ε) := by
  obtain ⟨P, rfl, hP⟩ := h
  rw [List.pairwise_flatten]
  constructor
  · intro p hp1
    obtain ⟨c, _, ht⟩ := forall2_mem_right hP p hp1
    exact ht.disjoint.imp (fun h => by rw [h]; exact hε)
  · apply pairwise_of_forall2 hp hP
    intro d e p q hde hdp heq x hx y hy
    exact le_trans (areaOverlap_mono _ _ _ _ (hdp.inside x hx) (heq.inside y hy)) hde

/-! ### the module dictionary (`_module2rect` keys) is unchanged by refinement -/

theorem addKeys_mem (acc : List String) (al : Alloc α) (k : String) :
    k ∈ addKeys acc al ↔ k ∈ acc ∨ k ∈ al.map Prod.fst := by
  unfold addKeys
  induction al generalizing acc with
  | nil => simp
  | cons p ps ih =>
    simp only [List.foldl_cons, List.map_cons, List.mem_cons]
    rw [ih]
    by_cases hc : acc.contains p.1 = true
    · simp only [hc, ↓reduceIte]
      have : p.1 ∈ acc := by simpa using hc
      constructor
      · rintro (h | h)
        · exact Or.inl h
        · exact Or.inr (Or.inr h)
      · rintro (h | h | h)
        · exact Or.inl h
        · subst h; exact Or.inl this
        · exact Or.inr h
    · simp only [hc, Bool.false_eq_true, ↓reduceIte, List.mem_append, List.mem_singleton]
      tauto

theorem addKeys_fix (acc : List String) (al : Alloc α) (h : ∀ p ∈ al, p.1 ∈ acc) : addKeys acc al = acc := by
  unfold addKeys
  induction al generalizing acc with
  | nil => rfl
  | cons p ps ih =>
    have hp : acc.contains p.1 = true := by simpa using h p (by simp)
    simp only [List.foldl_cons, hp, ↓reduceIte]
    exact ih acc (fun q hq => h q (by simp [hq]))

theorem addKeys_idem (acc : List String) (al : Alloc α) : addKeys (addKeys acc al) al = addKeys acc al := by
  apply addKeys_fix
  intro p hp
  rw [addKeys_mem]
  exact Or.inr (List.mem_map.mpr ⟨p, hp, rfl⟩)

theorem foldl_addKeys_part (acc : List String) (al : Alloc α) (p : List (Cell α)) (hne : p ≠ [])
    (hal : ∀ d ∈ p, d.alloc = al) : p.foldl (fun acc c => addKeys acc c.alloc) acc = addKeys acc al := by
  induction p generalizing acc with
  | nil => exact absurd rfl hne
  | cons d ds ih =>
    simp only [List.foldl_cons]
    rw [hal d (by simp)]
    by_cases hds : ds = []
    · subst hds; rfl
    · rw [ih (addKeys acc al) hds (fun e he => hal e (by simp [he])), addKeys_idem]

theorem modules_refines {cs cs' : List (Cell α)} (h : Refines cs cs') : modules cs' = modules cs := by
  obtain ⟨P, rfl, hP⟩ := h
  unfold modules
  generalize ([] : List String) = acc
  induction hP generalizing acc with
  | nil => rfl
  | cons h1 _ ih =>
    rw [List.flatten_cons, List.foldl_append, List.foldl_cons,
      foldl_addKeys_part acc _ _ h1.nonempty h1.alloc, ih]

/-! ### per-module area and first moments as sums over the cells -/

/-- occupancy ratio of module `m` in cell `c` (`0` when the cell does not list it). -/
def occ (m : String) (c : Cell α) : α := (c.alloc.lookup m).getD 0

/-- allocated area of `m`: `Σ ratio · area(cell)`. -/
def areaSum (m : String) (cs : List (Cell α)) : α := (cs.map fun c => occ m c * c.rect.area).sum
/-- first moments of `m`: `Σ ratio · area(cell) · centre(cell)`. -/
def momXSum (m : String) (cs : List (Cell α)) : α := (cs.map fun c => c.rect.cx * (occ m c * c.rect.area)).sum
def momYSum (m : String) (cs : List (Cell α)) : α := (cs.map fun c => c.rect.cy * (occ m c * c.rect.area)).sum

theorem modStats_foldl (m : String) (cs : List (Cell α)) (acc : α × α × α) :
    (entries m cs).foldl (fun acc e =>
        let ratio := e.2 * e.1.area
        (acc.1 + ratio, acc.2.1 + e.1.cx * ratio, acc.2.2 + e.1.cy * ratio)) acc =
      (acc.1 + areaSum m cs, acc.2.1 + momXSum m cs, acc.2.2 + momYSum m cs) := by
  induction cs generalizing acc with
  | nil => simp [entries, areaSum, momXSum, momYSum]
  | cons c cs ih =>
    unfold entries at ih ⊢
    rw [List.filterMap_cons]
    cases hl : c.alloc.lookup m with
    | none =>
      simp only [Option.map_none]
      rw [ih]
      simp [areaSum, momXSum, momYSum, occ, hl]
    | some o =>
      simp only [Option.map_some, List.foldl_cons]
      rw [ih]
      simp only [areaSum, momXSum, momYSum, occ, hl, List.map_cons, List.sum_cons, Option.getD_some]
      refine Prod.ext ?_ (Prod.ext ?_ ?_) <;> simp only <;> ring

/-- the running totals of `_calculate_areas_and_centers` are these sums. -/
theorem modStats_eq (m : String) (cs : List (Cell α)) :
    modStats (entries m cs) = (areaSum m cs, momXSum m cs, momYSum m cs) := by
  unfold modStats
  rw [modStats_foldl]
  simp

theorem sum_map_mul_left' {β : Type} (l : List β) (r : α) (f : β → α) :
    (l.map fun b => r * f b).sum = r * (l.map f).sum := by
  induction l with
  | nil => simp
  | cons b bs ih => simp [ih, mul_add]

theorem occ_part (m : String) (c : Cell α) (p : List (Cell α)) (ht : TilesCell c p) :
    ∀ d ∈ p, occ m d = occ m c := by
  intro d hd; unfold occ; rw [ht.alloc d hd]

theorem areaSum_refines (m : String) {cs cs' : List (Cell α)} (h : Refines cs cs') :
    areaSum m cs' = areaSum m cs := by
  obtain ⟨P, rfl, hP⟩ := h
  unfold areaSum
  apply sum_flatten_forall2
  apply hP.imp
  intro c p ht
  rw [List.map_congr_left (g := fun d => occ m c * d.rect.area) (fun d hd => by rw [occ_part m c p ht d hd]),
    sum_map_mul_left', ht.area]

theorem momXSum_refines (m : String) {cs cs' : List (Cell α)} (h : Refines cs cs') :
    momXSum m cs' = momXSum m cs := by
  obtain ⟨P, rfl, hP⟩ := h
  unfold momXSum
  apply sum_flatten_forall2
  apply hP.imp
  intro c p ht
  rw [List.map_congr_left (g := fun d => occ m c * (d.rect.area * d.rect.cx))
      (fun d hd => by rw [occ_part m c p ht d hd]; ring),
    sum_map_mul_left', ht.momx]
  ring

theorem momYSum_refines (m : String) {cs cs' : List (Cell α)} (h : Refines cs cs') :
    momYSum m cs' = momYSum m cs := by
  obtain ⟨P, rfl, hP⟩ := h
  unfold momYSum
  apply sum_flatten_forall2
  apply hP.imp
  intro c p ht
  rw [List.map_congr_left (g := fun d => occ m c * (d.rect.area * d.rect.cy))
      (fun d hd => by rw [occ_part m c p ht d hd]; ring),
    sum_map_mul_left', ht.momy]
  ring

/-- the caches `_areas / _centers` computed from a refinement are literally those of the original. -/
theorem areasCenters_refines {cs cs' : List (Cell α)} (h : Refines cs cs') :
    areasCenters cs' = areasCenters cs := by
  unfold areasCenters
  rw [modules_refines h]
  apply mapE_congr
  intro m _
  unfold statOf
  rw [modStats_eq, modStats_eq, areaSum_refines m h, momXSum_refines m h, momYSum_refines m h]

/-! ### what the constructor checks -/

/-- a proper rectangle in the positive quadrant. -/
def CellGood (c : Cell α) : Prop := 0 < c.rect.w ∧ 0 < c.rect.h ∧ 0 ≤ c.rect.xmin ∧ 0 ≤ c.rect.ymin

/-- the conditions `Allocation.__init__` imposes on a list of cells (area tolerance `εA`). -/
structure CellsOK (εA : α) (cs : List (Cell α)) : Prop where
  nonempty : cs ≠ []
  good : ∀ c ∈ cs, CellGood c
  allocs : ∀ c ∈ cs, allocOK c.alloc = true
  noOverlap : cs.Pairwise (fun c d => c.rect.areaOverlap d.rect ≤ εA)
  areaNZ : ∀ m ∈ modules cs, areaSum m cs ≠ 0

/-- a valid allocation object in the global state `st` (tolerances defined): what the constructor
    accepted, with consistent caches. -/
structure ValidAlloc (st : Eps α) (a : Allocation α) : Prop where
  epsDef : 0 ≤ st.dist
  epsArea : 0 ≤ st.area
  cells : CellsOK st.area a.cells
  stats : areasCenters a.cells = .ok a.stats
  bbox : boundingBox a.cells = .ok a.bbox

theorem isZero_iff (x : α) : isZero x = true ↔ x = 0 := by
  simp only [isZero, zero_eq, Bool.and_eq_true, decide_eq_true_eq]
  constructor
  · rintro ⟨a, b⟩; exact le_antisymm a b
  · rintro rfl; exact ⟨le_refl _, le_refl _⟩

theorem foldl_min_le {β : Type} (g : β → α) (l : List β) (init : α) :
    l.foldl (fun m d => pyMin m (g d)) init ≤ init := by
  induction l generalizing init with
  | nil => exact le_refl _
  | cons d ds ih =>
    rw [List.foldl_cons]
    refine le_trans (ih _) ?_
    rw [pyMin_eq]; exact min_le_left _ _

theorem le_foldl_min {β : Type} (g : β → α) (l : List β) (init lb : α) (h0 : lb ≤ init) (h : ∀ d ∈ l, lb ≤ g d) :
    lb ≤ l.foldl (fun m d => pyMin m (g d)) init := by
  induction l generalizing init with
  | nil => exact h0
  | cons d ds ih =>
    rw [List.foldl_cons]
    refine ih _ ?_ (fun e he => h e (by simp [he]))
    rw [pyMin_eq]; exact le_min h0 (h d (by simp))

theorem le_foldl_max {β : Type} (g : β → α) (l : List β) (init : α) :
    init ≤ l.foldl (fun m d => pyMax m (g d)) init := by
  induction l generalizing init with
  | nil => exact le_refl _
  | cons d ds ih =>
    rw [List.foldl_cons]
    refine le_trans ?_ (ih _)
    rw [pyMax_eq]; exact le_max_left _ _

theorem boundingBox_ok (cs : List (Cell α)) (hne : cs ≠ []) (hg : ∀ c ∈ cs, CellGood c) :
    ∃ bb, boundingBox cs = .ok bb := by
  cases cs with
  | nil => exact absurd rfl hne
  | cons c cs =>
    obtain ⟨hw, hh, hx, hy⟩ := hg c (by simp)
    have h1 := foldl_min_le (fun d : Cell α => d.rect.xmin) cs c.rect.xmin
    have h2 := foldl_min_le (fun d : Cell α => d.rect.ymin) cs c.rect.ymin
    have h3 := le_foldl_max (fun d : Cell α => d.rect.xmax) cs c.rect.xmax
    have h4 := le_foldl_max (fun d : Cell α => d.rect.ymax) cs c.rect.ymax
    have h5 := le_foldl_min (fun d : Cell α => d.rect.xmin) cs c.rect.xmin 0 hx (fun d hd => (hg d (by simp [hd])).2.2.1)
    have h6 := le_foldl_min (fun d : Cell α => d.rect.ymin) cs c.rect.ymin 0 hy (fun d hd => (hg d (by simp [hd])).2.2.2)
    have h7 := xmin_lt_xmax c.rect hw
    have h8 := ymin_lt_ymax c.rect hh
    simp only [boundingBox, zero_eq]
    rw [if_neg (not_not.mpr ⟨h5, h6⟩), if_neg (not_not.mpr (by linarith)), if_neg (not_not.mpr (by linarith))]
    exact ⟨_, rfl⟩

theorem parseCell_toRaw (c : Cell α) (h : allocOK c.alloc = true) : parseCell c.toRaw = .ok c := by
  simp [parseCell, Cell.toRaw, parseRect, h]

theorem mapE_parse_toRaw (cs : List (Cell α)) (h : ∀ c ∈ cs, allocOK c.alloc = true) :
    mapE parseCell (cs.map Cell.toRaw) = .ok cs := by
  rw [mapE_ok_iff, List.forall₂_map_left_iff]
  induction cs with
  | nil => exact List.Forall₂.nil
  | cons c cs ih =>
    exact List.Forall₂.cons (parseCell_toRaw c (h c (by simp))) (ih (fun d hd => h d (by simp [hd])))

theorem noOverlapPairs_of (ε : α) (cs : List (Cell α))
    (h : cs.Pairwise (fun c d => c.rect.areaOverlap d.rect ≤ ε)) : noOverlapPairs ε cs = true := by
  induction cs with
  | nil => rfl
  | cons c cs ih =>
    rw [List.pairwise_cons] at h
    simp only [noOverlapPairs, Bool.and_eq_true, List.all_eq_true]
    refine ⟨?_, ih h.2⟩
    intro d hd
    simp only [Rect.overlap, Bool.not_eq_true', decide_eq_false_iff_not, not_lt]
    exact h.1 d hd

theorem noOverlapPairs_iff (ε : α) (cs : List (Cell α)) :
    noOverlapPairs ε cs = true ↔ cs.Pairwise (fun c d => c.rect.areaOverlap d.rect ≤ ε) := by
  constructor
  · intro h
    induction cs with
    | nil => exact List.Pairwise.nil
    | cons c cs ih =>
      simp only [noOverlapPairs, Bool.and_eq_true, List.all_eq_true] at h
      rw [List.pairwise_cons]
      refine ⟨?_, ih h.2⟩
      intro d hd
      have := h.1 d hd
      simpa [Rect.overlap] using this
  · exact noOverlapPairs_of ε cs

theorem areasCenters_ok (cs : List (Cell α)) (h : ∀ m ∈ modules cs, areaSum m cs ≠ 0) :
    ∃ stats, areasCenters cs = .ok stats := by
  unfold areasCenters
  have hstat : ∀ m ∈ modules cs, ∃ y, statOf cs m = .ok y ∧ True := by
    intro m hm
    have hz : isZero (areaSum m cs) = false := by
      rw [Bool.eq_false_iff, Ne, isZero_iff]; exact h m hm
    exact ⟨(m, areaSum m cs, momXSum m cs / areaSum m cs, momYSum m cs / areaSum m cs),
      by unfold statOf; rw [modStats_eq]; simp [hz], trivial⟩
  obtain ⟨ys, hys, _⟩ := mapE_ok_of_forall (statOf cs) (fun _ _ => True) (modules cs) hstat
  exact ⟨ys, hys⟩

/-- **the constructor accepts** a list of `Rectangle`-object descriptors satisfying its checks, keeps the
    tolerances, and returns exactly these cells. -/
theorem mkAllocation_obj_ok (env : Env α) (st : Eps α) (cs : List (Cell α)) (hd : 0 ≤ st.dist) (ha : 0 ≤ st.area)
    (hc : CellsOK st.area cs) :
    ∃ a, mkAllocation env st (cs.map Cell.toRaw) = .ok (a, st) ∧ a.cells = cs ∧ ValidAlloc st a := by
  obtain ⟨bb, hbb⟩ := boundingBox_ok cs hc.nonempty hc.good
  obtain ⟨stats, hst⟩ := areasCenters_ok cs hc.areaNZ
  refine ⟨⟨cs, stats, bb⟩, ?_, rfl, ⟨hd, ha, hc, hst, hbb⟩⟩
  unfold mkAllocation
  rw [mapE_parse_toRaw cs hc.allocs]
  simp only [hbb]
  have hdef : st.defined = true := by simp [Eps.defined, hd]
  simp only [hdef, ↓reduceIte]
  have hno : checkNoOverlap st cs = true := by
    unfold checkNoOverlap
    rw [if_neg (by simp [ha])]
    exact noOverlapPairs_of _ _ hc.noOverlap
  simp [hno, hst]

theorem CellsOK.refines {ε : α} {cs cs' : List (Cell α)} (hε : 0 ≤ ε) (hc : CellsOK ε cs) (h : Refines cs cs') :
    CellsOK ε cs' := by
  refine ⟨h.ne_nil hc.nonempty, ?_, ?_, h.pairwise ε hε hc.noOverlap, ?_⟩
  · intro d hd
    obtain ⟨c, hcm, _, hin, hw, hh, _⟩ := h.mem d hd
    obtain ⟨_, _, gx, gy⟩ := hc.good c hcm
    rw [isInside_iff_coords] at hin
    exact ⟨hw, hh, le_trans gx hin.1, le_trans gy hin.2.1⟩
  · intro d hd
    obtain ⟨c, hcm, hal, _⟩ := h.mem d hd
    rw [hal]; exact hc.allocs c hcm
  · intro m hm
    rw [modules_refines h] at hm
    rw [areaSum_refines m h]
    exact hc.areaNZ m hm

/-- re-constructing an allocation from a refinement of a valid allocation succeeds, is valid, and has
    literally the same `_areas / _centers`. -/
theorem mk_of_refines (env : Env α) (st : Eps α) (a : Allocation α) (hv : ValidAlloc st a)
    (cs' : List (Cell α)) (h : Refines a.cells cs') :
    ∃ a', mkAllocation env st (cs'.map Cell.toRaw) = .ok (a', st) ∧ a'.cells = cs' ∧ a'.stats = a.stats ∧
      ValidAlloc st a' := by
  obtain ⟨a', h1, h2, h3⟩ := mkAllocation_obj_ok env st cs' hv.epsDef hv.epsArea (hv.cells.refines hv.epsArea h)
  refine ⟨a', h1, h2, ?_, h3⟩
  have e1 := h3.stats
  rw [h2, areasCenters_refines h, hv.stats] at e1
  injection e1 with e1
  exact e1.symm

/-! ### the three operations refine the cell list -/

theorem refines_of_mapE (f : Cell α → Except AErr (List (Cell α))) (q : List (Cell α))
    (h : ∀ c ∈ q, ∃ ch, f c = .ok ch ∧ TilesCell c ch) :
    ∃ parts, mapE f q = .ok parts ∧ Refines q parts.flatten := by
  obtain ⟨parts, h1, h2⟩ := mapE_ok_of_forall f TilesCell q h
  exact ⟨parts, h1, parts, rfl, h2⟩

theorem splitCond_not_fixed (t : α) (c : Cell α) (h : splitCond t c = true) : c.rect.fixed = false := by
  simp only [splitCond, Bool.and_eq_true, Bool.not_eq_true'] at h
  exact h.1.1

theorem refineCells_refines (t : α) (levels : Nat) (cells : List (Cell α))
    (hpos : ∀ c ∈ cells, 0 < c.rect.w ∧ 0 < c.rect.h) :
    ∃ cs', refineCells t levels cells = .ok cs' ∧ Refines cells cs' := by
  obtain ⟨parts, h1, h2⟩ := refines_of_mapE
    (fun c => splitAllocation c.rect c.alloc c.depth (if splitCond t c then levels else 0)) cells (by
      intro c hc
      obtain ⟨ch, a, b, _⟩ := splitAllocation_tiles (if splitCond t c then levels else 0) c.rect c.alloc c.depth
        (hpos c hc).1 (hpos c hc).2 (by
          by_cases hs : splitCond t c = true
          · exact Or.inr (splitCond_not_fixed t c hs)
          · simp [hs])
      exact ⟨ch, a, b⟩)
  exact ⟨parts.flatten, by simp [refineCells, h1], h2⟩

theorem uniformCells_refines (cells : List (Cell α)) (hpos : ∀ c ∈ cells, 0 < c.rect.w ∧ 0 < c.rect.h) :
    ∃ cs', uniformCells cells = .ok cs' ∧ Refines cells cs' := by
  obtain ⟨parts, h1, h2⟩ := refines_of_mapE
    (fun c => splitAllocation c.rect c.alloc c.depth (if c.rect.fixed then 0 else maxDepth cells - c.depth)) cells (by
      intro c hc
      obtain ⟨ch, a, b, _⟩ := splitAllocation_tiles (if c.rect.fixed then 0 else maxDepth cells - c.depth)
        c.rect c.alloc c.depth (hpos c hc).1 (hpos c hc).2 (by
          by_cases hs : c.rect.fixed = true
          · simp [hs]
          · exact Or.inr (by simpa using hs))
      exact ⟨ch, a, b⟩)
  exact ⟨parts.flatten, by simp [uniformCells, h1], h2⟩

theorem ValidAlloc.pos {st : Eps α} {a : Allocation α} (hv : ValidAlloc st a) :
    ∀ c ∈ a.cells, 0 < c.rect.w ∧ 0 < c.rect.h :=
  fun c hc => ⟨(hv.cells.good c hc).1, (hv.cells.good c hc).2.1⟩

/-- `refine` on a valid allocation. -/
theorem refine_spec (env : Env α) (st : Eps α) (a : Allocation α) (t : α) (levels : Nat) (hv : ValidAlloc st a)
    (hl : 0 < levels) :
    ∃ a', refine env st a t levels = .ok (a', st) ∧ ValidAlloc st a' ∧ Refines a.cells a'.cells ∧
      a'.stats = a.stats ∧ refineCells t levels a.cells = .ok a'.cells := by
  obtain ⟨cs', h1, h2⟩ := refineCells_refines t levels a.cells hv.pos
  obtain ⟨a', e1, e2, e3, e4⟩ := mk_of_refines env st a hv cs' h2
  refine ⟨a', ?_, e4, e2 ▸ h2, e3, e2 ▸ h1⟩
  unfold refine
  rw [if_neg (by omega), h1]
  exact e1

/-- `uniform_refinement_depth` on a valid allocation. -/
theorem uniform_spec (env : Env α) (st : Eps α) (a : Allocation α) (hv : ValidAlloc st a) :
    ∃ a', uniform env st a = .ok (a', st) ∧ ValidAlloc st a' ∧ Refines a.cells a'.cells ∧ a'.stats = a.stats ∧
      ((maxDepth a.cells = minDepth a.cells ∧ a' = a) ∨
       (maxDepth a.cells ≠ minDepth a.cells ∧ uniformCells a.cells = .ok a'.cells)) := by
  unfold uniform
  have hne := hv.cells.nonempty
  cases hcs : a.cells with
  | nil => exact absurd hcs hne
  | cons c cs =>
    simp only
    rw [← hcs]
    by_cases hm : maxDepth a.cells = minDepth a.cells
    · rw [if_pos hm]
      exact ⟨a, rfl, hv, Refines.refl _ hv.pos, rfl, Or.inl ⟨hm, rfl⟩⟩
    · rw [if_neg hm]
      obtain ⟨cs', h1, h2⟩ := uniformCells_refines a.cells hv.pos
      obtain ⟨a', e1, e2, e3, e4⟩ := mk_of_refines env st a hv cs' h2
      rw [h1]
      exact ⟨a', e1, e4, e2 ▸ h2, e3, Or.inr ⟨hm, by rw [e2]⟩⟩

/-! ### gridding -/

theorem CellGood.of_tiles {c : Cell α} {ch : List (Cell α)} (hg : CellGood c) (ht : TilesCell c ch) :
    ∀ d ∈ ch, CellGood d := by
  intro d hd
  have hin := ht.inside d hd
  rw [isInside_iff_coords] at hin
  exact ⟨(ht.pos d hd).1, (ht.pos d hd).2, le_trans hg.2.2.1 hin.1, le_trans hg.2.2.2 hin.2.1⟩

theorem good_of_refines {q q' : List (Cell α)} (hg : ∀ c ∈ q, CellGood c) (h : Refines q q') :
    ∀ d ∈ q', CellGood d := by
  obtain ⟨P, rfl, hP⟩ := h
  intro d hd
  obtain ⟨p, hp1, hp2⟩ := List.mem_flatten.mp hd
  obtain ⟨c, hc, ht⟩ := forall2_mem_right hP p hp1
  exact (hg c hc).of_tiles ht d hp2

/-- what one step of the x sweep does to a cell. -/
theorem cutX_cases (ρ x : α) (c : Cell α) (hg : CellGood c) :
    (c.rect.fixed = false ∧ c.rect.xCuttable x ρ = true ∧ ∃ p q, c.rect.splitH x = some (p, q) ∧ 0 ≤ x ∧
        cutX ρ x c = .ok [⟨p, c.alloc, c.depth + 1⟩, ⟨q, c.alloc, c.depth + 1⟩]) ∨
    ((c.rect.fixed = true ∨ c.rect.xCuttable x ρ = false) ∧ cutX ρ x c = .ok [c]) := by
  by_cases hcond : (!c.rect.fixed && c.rect.xCuttable x ρ) = true
  · left
    have hc := hcond
    simp only [Bool.and_eq_true, Bool.not_eq_true'] at hc
    have hin := xCuttable_imp_strict_inside c.rect x ρ hc.2
    have hx : 0 ≤ x := le_of_lt (lt_of_le_of_lt hg.2.2.1 hin.1)
    have hs := (splitH_isSome_iff c.rect x hx).mpr hin
    obtain ⟨⟨p, q⟩, hpq⟩ := Option.isSome_iff_exists.mp hs
    refine ⟨hc.1, hc.2, p, q, hpq, hx, ?_⟩
    simp only [cutX, hcond, ↓reduceIte, hpq]
  · right
    refine ⟨?_, by simp only [cutX, hcond, Bool.false_eq_true, ↓reduceIte]⟩
    by_cases hf : c.rect.fixed = true
    · exact Or.inl hf
    · right
      simp only [Bool.and_eq_true, Bool.not_eq_true', not_and, Bool.not_eq_true] at hcond
      exact hcond (by simpa using hf)

theorem cutY_cases (ρ y : α) (c : Cell α) (hg : CellGood c) :
    (c.rect.fixed = false ∧ c.rect.yCuttable y ρ = true ∧ ∃ p q, c.rect.splitV y = some (p, q) ∧ 0 ≤ y ∧
        cutY ρ y c = .ok [⟨p, c.alloc, c.depth + 1⟩, ⟨q, c.alloc, c.depth + 1⟩]) ∨
    ((c.rect.fixed = true ∨ c.rect.yCuttable y ρ = false) ∧ cutY ρ y c = .ok [c]) := by
  by_cases hcond : (!c.rect.fixed && c.rect.yCuttable y ρ) = true
  · left
    have hc := hcond
    simp only [Bool.and_eq_true, Bool.not_eq_true'] at hc
    have hin := yCuttable_imp_strict_inside c.rect y ρ hc.2
    have hy : 0 ≤ y := le_of_lt (lt_of_le_of_lt hg.2.2.2 hin.1)
    have hs : (c.rect.splitV y).isSome = true := by
      unfold splitV
      simp only [zero_eq, not_lt.mpr hy, ↓reduceIte, hin, and_self, Option.isSome_some]
    obtain ⟨⟨p, q⟩, hpq⟩ := Option.isSome_iff_exists.mp hs
    refine ⟨hc.1, hc.2, p, q, hpq, hy, ?_⟩
    simp only [cutY, hcond, ↓reduceIte, hpq]
  · right
    refine ⟨?_, by simp only [cutY, hcond, Bool.false_eq_true, ↓reduceIte]⟩
    by_cases hf : c.rect.fixed = true
    · exact Or.inl hf
    · right
      simp only [Bool.and_eq_true, Bool.not_eq_true', not_and, Bool.not_eq_true] at hcond
      exact hcond (by simpa using hf)

theorem cutX_tiles (ρ x : α) (c : Cell α) (hg : CellGood c) : ∃ ch, cutX ρ x c = .ok ch ∧ TilesCell c ch := by
  rcases cutX_cases ρ x c hg with ⟨hf, _, p, q, hpq, hx, he⟩ | ⟨_, he⟩
  · refine ⟨_, he, ?_⟩
    have ht := (splitH_tiles c.rect p q x hx hpq).1
    have hs := splitH_sides c.rect p q x hx hpq
    exact TilesCell.of_pair c.rect p q c.alloc c.depth _ _ ht (pieces_of_sidesH c.rect p q x hg.2.1 hs) hf
  · exact ⟨_, he, TilesCell.refl c hg.1 hg.2.1⟩

theorem cutY_tiles (ρ y : α) (c : Cell α) (hg : CellGood c) : ∃ ch, cutY ρ y c = .ok ch ∧ TilesCell c ch := by
  rcases cutY_cases ρ y c hg with ⟨hf, _, p, q, hpq, hy, he⟩ | ⟨_, he⟩
  · refine ⟨_, he, ?_⟩
    have ht := (splitV_tiles c.rect p q y hy hpq).1
    have hs := splitV_sides c.rect p q y hy hpq
    exact TilesCell.of_pair c.rect p q c.alloc c.depth _ _ ht (pieces_of_sidesV c.rect p q y hg.1 hs) hf
  · exact ⟨_, he, TilesCell.refl c hg.1 hg.2.1⟩

theorem pass_refines (cut : Cell α → Except AErr (List (Cell α))) (q : List (Cell α))
    (hcut : ∀ c ∈ q, ∃ ch, cut c = .ok ch ∧ TilesCell c ch) :
    ∃ q', pass cut q = .ok q' ∧ Refines q q' := by
  obtain ⟨parts, h1, h2⟩ := refines_of_mapE cut q hcut
  exact ⟨parts.flatten, by simp [pass, h1], h2⟩

theorem cutsLoop_refines (cut : α → Cell α → Except AErr (List (Cell α)))
    (hcut : ∀ x c, CellGood c → ∃ ch, cut x c = .ok ch ∧ TilesCell c ch) (cuts : List α) :
    ∀ (idxs : List Nat) (q : List (Cell α)), (∀ i ∈ idxs, i < cuts.length) → (∀ c ∈ q, CellGood c) →
      ∃ q', cutsLoop cut cuts idxs q = .ok q' ∧ Refines q q' := by
  intro idxs
  induction idxs with
  | nil =>
    intro q _ hq
    exact ⟨q, rfl, Refines.refl q (fun c hc => ⟨(hq c hc).1, (hq c hc).2.1⟩)⟩
  | cons i is ih =>
    intro q hi hq
    have hlt := hi i (by simp)
    obtain ⟨q1, e1, r1⟩ := pass_refines (cut cuts[i]) q (fun c hc => hcut _ c (hq c hc))
    obtain ⟨q2, e2, r2⟩ := ih q1 (fun j hj => hi j (by simp [hj])) (good_of_refines hq r1)
    refine ⟨q2, ?_, r1.trans r2⟩
    simp only [cutsLoop, List.getElem?_eq_getElem hlt, e1, e2]

theorem range'_lt (n i : Nat) (h : i ∈ List.range' 1 (n - 2)) : i < n := by
  rw [List.mem_range'_1] at h; omega

theorem griddifyCells_refines (ρ : α) (xs ys : List α) (cells : List (Cell α)) (hg : ∀ c ∈ cells, CellGood c) :
    ∃ q, griddifyCells ρ xs ys cells = .ok q ∧ Refines cells q := by
  obtain ⟨q1, e1, r1⟩ := cutsLoop_refines (cutX ρ) (cutX_tiles ρ) xs _ cells (fun i hi => range'_lt _ i hi) hg
  obtain ⟨q2, e2, r2⟩ := cutsLoop_refines (cutY ρ) (cutY_tiles ρ) ys _ q1 (fun i hi => range'_lt _ i hi)
    (good_of_refines hg r1)
  exact ⟨q2, by simp only [griddifyCells, e1, e2], r1.trans r2⟩

end FV.Alloc

import FV.Model.RectSearch
import Mathlib.Order.Defs.LinearOrder
/-
  Helper lemmas for the rectilinear shape search model (property C08).
  Part 1: semantics of constraint lists;  Part 2: strictly sorted coordinate lists and their successor pairs;
  Part 3: `definecoords`;  Part 4: semantics of `boxConstrs` / `attachConstrs` on a grid;  Part 5: geometry of boxes.
-/
namespace FV.RectSearch
set_option linter.unusedSectionVars false
set_option linter.unusedVariables false
set_option linter.unusedSimpArgs false
set_option linter.unnecessarySeqFocus false

/-! ### Part 1 — semantics of constraint lists -/
section Sem
variable {α : Type} {σ : Assign α}

@[simp] theorem eval_pos (v : Var α) : (pos v).eval σ = σ v := by simp [Lit.eval, pos]
@[simp] theorem eval_neg (v : Var α) : (neg v).eval σ = !σ v := by
  cases h : σ v <;> simp [Lit.eval, neg, h]
@[simp] theorem eval_not (l : Lit α) : l.not.eval σ = !l.eval σ := by
  cases l with | mk v s => cases h : σ v <;> cases s <;> simp [Lit.eval, Lit.not, h]

theorem sat_nil : Sat σ ([] : List (Constr α)) := by intro c h; cases h
theorem sat_cons {c : Constr α} {cs} : Sat σ (c :: cs) ↔ c.holds σ = true ∧ Sat σ cs := by
  simp [Sat]
theorem sat_append {a b : List (Constr α)} : Sat σ (a ++ b) ↔ Sat σ a ∧ Sat σ b := by
  simp only [Sat, List.mem_append]
  constructor
  · intro h; exact ⟨fun c hc => h c (Or.inl hc), fun c hc => h c (Or.inr hc)⟩
  · rintro ⟨h1, h2⟩ c (hc | hc); exact h1 c hc; exact h2 c hc
theorem sat_singleton {c : Constr α} : Sat σ [c] ↔ c.holds σ = true := by simp [Sat]
theorem sat_flatMap {β} {l : List β} {f : β → List (Constr α)} :
    Sat σ (l.flatMap f) ↔ ∀ x ∈ l, Sat σ (f x) := by
  simp only [Sat, List.mem_flatMap]
  constructor
  · intro h x hx c hc; exact h c ⟨x, hx, hc⟩
  · rintro h c ⟨x, hx, hc⟩; exact h x hx c hc
theorem sat_map {β} {l : List β} {f : β → Constr α} :
    Sat σ (l.map f) ↔ ∀ x ∈ l, (f x).holds σ = true := by
  simp only [Sat, List.mem_map]
  constructor
  · intro h x hx; exact h _ ⟨x, hx, rfl⟩
  · rintro h c ⟨x, hx, rfl⟩; exact h x hx
theorem sat_ite {p : Prop} [Decidable p] {a : List (Constr α)} :
    Sat σ (if p then a else []) ↔ (p → Sat σ a) := by
  by_cases hp : p <;> simp [hp, sat_nil]

theorem holds_imply {l1 : List (Lit α)} {l2 : Lit α} :
    (imply l1 l2).holds σ = true ↔ ((∀ l ∈ l1, l.eval σ = true) → l2.eval σ = true) := by
  simp only [imply, Constr.holds, List.any_append, List.any_map, List.any_cons, List.any_nil, Bool.or_false,
    Bool.or_eq_true, List.any_eq_true, Function.comp, eval_not, Bool.not_eq_true']
  constructor
  · rintro (⟨l, hl, hf⟩ | h) hall
    · rw [hall l hl] at hf; cases hf
    · exact h
  · intro h
    by_cases hall : ∀ l ∈ l1, l.eval σ = true
    · exact Or.inr (h hall)
    · left
      have : ∃ l, l ∈ l1 ∧ ¬ l.eval σ = true := by
        apply Classical.byContradiction; intro hne
        apply hall; intro l hl
        apply Classical.byContradiction; intro hl'; exact hne ⟨l, hl, hl'⟩
      obtain ⟨l, hl, hf⟩ := this
      exact ⟨l, hl, by simpa using hf⟩

theorem holds_atLeastOne {ls : List (Lit α)} :
    (Constr.atLeastOne ls).holds σ = true ↔ ∃ l ∈ ls, l.eval σ = true := by
  simp [Constr.holds]

theorem holds_pbGe {ts : List (Int × Lit α)} {k : Int} :
    (Constr.pbGe ts k).holds σ = true ↔ k ≤ pbSum σ ts := by simp [Constr.holds]

theorem countTrue_cons (l : Lit α) (ls : List (Lit α)) :
    countTrue σ (l :: ls) = (if l.eval σ then 1 else 0) + countTrue σ ls := by
  unfold countTrue
  by_cases h : l.eval σ = true <;> simp [List.filter_cons, h] <;> omega

theorem countTrue_eq_zero {ls : List (Lit α)} : countTrue σ ls = 0 ↔ ∀ l ∈ ls, l.eval σ = false := by
  induction ls with
  | nil => simp [countTrue]
  | cons a t ih =>
    rw [countTrue_cons]
    by_cases h : a.eval σ = true
    · simp [h]
    · have h' : a.eval σ = false := by simpa using h
      simp [h', ih]

/-- at-most-one = no two positions are both true. -/
theorem countTrue_le_one {ls : List (Lit α)} :
    countTrue σ ls ≤ 1 ↔ ls.Pairwise (fun a b => ¬(a.eval σ = true ∧ b.eval σ = true)) := by
  induction ls with
  | nil => simp [countTrue]
  | cons a t ih =>
    rw [countTrue_cons, List.pairwise_cons, ← ih]
    by_cases h : a.eval σ = true
    · simp only [h, if_true, true_and]
      constructor
      · intro hle
        have h0 : countTrue σ t = 0 := by omega
        refine ⟨fun b hb => ?_, by omega⟩
        rw [countTrue_eq_zero] at h0; simp [h0 b hb]
      · rintro ⟨h1, _⟩
        have : countTrue σ t = 0 := by
          rw [countTrue_eq_zero]; intro l hl
          have := h1 l hl; simpa using this
        omega
    · simp [h]

theorem holds_amo_range {k : Nat} {f : Nat → Lit α} :
    (Constr.amo ((List.range k).map f)).holds σ = true ↔
      ∀ i j, i < k → j < k → i ≠ j → ¬((f i).eval σ = true ∧ (f j).eval σ = true) := by
  simp only [Constr.holds, decide_eq_true_eq, countTrue_le_one, List.pairwise_iff_getElem, List.length_map,
    List.length_range, List.getElem_map, List.getElem_range]
  constructor
  · intro h i j hi hj hne
    rcases Nat.lt_or_gt_of_ne hne with hlt | hlt
    · exact h i j hi hj hlt
    · intro ⟨a, b⟩; exact h j i hj hi hlt ⟨b, a⟩
  · intro h i j hi hj hlt; exact h i j hi hj (Nat.ne_of_lt hlt)

end Sem

/-! ### Part 2 — strictly sorted coordinate lists and their successor pairs `xs.zip xs.tail` -/
section Sorted
variable {α : Type} [LinearOrder α]

/-- strictly increasing list. -/
abbrev SSorted (xs : List α) : Prop := xs.Pairwise (· < ·)

theorem succ_cons_cons (x y : α) (r : List α) :
    (x :: y :: r).zip (x :: y :: r).tail = (x, y) :: (y :: r).zip (y :: r).tail := rfl

theorem pred_cons_cons (x y : α) (r : List α) :
    (x :: y :: r).tail.zip (x :: y :: r) = (y, x) :: (y :: r).tail.zip (y :: r) := by
  simp [List.zip_cons_cons]

theorem succ_mem : ∀ {xs : List α} {a b : α}, (a, b) ∈ xs.zip xs.tail → a ∈ xs ∧ b ∈ xs.tail
  | [], a, b, h => by simp at h
  | [x], a, b, h => by simp at h
  | x :: y :: r, a, b, h => by
    rw [succ_cons_cons, List.mem_cons] at h
    rcases h with h | h
    · cases h; simp
    · have := succ_mem h
      simp only [List.tail_cons] at this ⊢
      exact ⟨List.mem_cons_of_mem _ this.1, List.mem_cons_of_mem _ this.2⟩

theorem succ_mem' {xs : List α} {a b : α} (h : (a, b) ∈ xs.zip xs.tail) : a ∈ xs ∧ b ∈ xs :=
  ⟨(succ_mem h).1, List.mem_of_mem_tail (succ_mem h).2⟩

theorem succ_lt : ∀ {xs : List α}, SSorted xs → ∀ {a b : α}, (a, b) ∈ xs.zip xs.tail → a < b
  | [], _, a, b, h => by simp at h
  | [x], _, a, b, h => by simp at h
  | x :: y :: r, hs, a, b, h => by
    rw [succ_cons_cons, List.mem_cons] at h
    rcases h with h | h
    · cases h; exact (List.pairwise_cons.1 hs).1 y (by simp)
    · exact succ_lt (List.Pairwise.of_cons hs) h

/-- no coordinate lies strictly between a coordinate and its successor. -/
theorem no_between : ∀ {xs : List α}, SSorted xs → ∀ {a b u : α}, (a, b) ∈ xs.zip xs.tail → u ∈ xs → a < u → b ≤ u
  | [], _, a, b, u, h, _, _ => by simp at h
  | [x], _, a, b, u, h, _, _ => by simp at h
  | x :: y :: r, hs, a, b, u, h, hu, hau => by
    have hs' := List.Pairwise.of_cons hs
    have hx := (List.pairwise_cons.1 hs).1
    rw [succ_cons_cons, List.mem_cons] at h
    rcases h with h | h
    · cases h
      rcases List.mem_cons.1 hu with rfl | hu
      · exact absurd hau (lt_irrefl _)
      · rcases List.mem_cons.1 hu with rfl | hu
        · exact le_refl _
        · exact le_of_lt ((List.pairwise_cons.1 hs').1 u hu)
    · rcases List.mem_cons.1 hu with rfl | hu
      · have := hx a (succ_mem' h).1
        exact absurd (lt_trans this hau) (lt_irrefl _)
      · exact no_between hs' h hu hau

theorem no_between' {xs : List α} (hs : SSorted xs) {a b u : α} (h : (a, b) ∈ xs.zip xs.tail) (hu : u ∈ xs)
    (hub : u < b) : u ≤ a := by
  rcases lt_or_ge a u with h1 | h1
  · exact absurd (lt_of_lt_of_le hub (no_between hs h hu h1)) (lt_irrefl _)
  · exact h1

theorem succ_unique {xs : List α} (hs : SSorted xs) {a b b' : α} (h : (a, b) ∈ xs.zip xs.tail)
    (h' : (a, b') ∈ xs.zip xs.tail) : b = b' :=
  le_antisymm (no_between hs h (succ_mem' h').2 (succ_lt hs h')) (no_between hs h' (succ_mem' h).2 (succ_lt hs h))

theorem pred_unique {xs : List α} (hs : SSorted xs) {a a' b : α} (h : (a, b) ∈ xs.zip xs.tail)
    (h' : (a', b) ∈ xs.zip xs.tail) : a = a' :=
  le_antisymm (no_between' hs h' (succ_mem' h).1 (succ_lt hs h)) (no_between' hs h (succ_mem' h').1 (succ_lt hs h'))

/-- two successor intervals that overlap (as open intervals) are the same interval. -/
theorem overlap_eq {xs : List α} (hs : SSorted xs) {a b a' b' : α} (h : (a, b) ∈ xs.zip xs.tail)
    (h' : (a', b') ∈ xs.zip xs.tail) (h1 : a' < b) (h2 : a < b') : a = a' ∧ b = b' := by
  have e : a = a' := le_antisymm (no_between' hs h' (succ_mem' h).1 h2) (no_between' hs h (succ_mem' h').1 h1)
  subst e
  exact ⟨rfl, succ_unique hs h h'⟩

theorem lookup_next : ∀ {xs : List α}, SSorted xs → ∀ {a b : α}, (a, b) ∈ xs.zip xs.tail →
    (xs.zip xs.tail).lookup a = some b
  | [], _, a, b, h => by simp at h
  | [x], _, a, b, h => by simp at h
  | x :: y :: r, hs, a, b, h => by
    have hs' := List.Pairwise.of_cons hs
    have hx := (List.pairwise_cons.1 hs).1
    rw [succ_cons_cons] at h ⊢
    rcases List.mem_cons.1 h with h | h
    · cases h; simp [List.lookup_cons]
    · have hne : ¬ a = x := fun e => by
        have := hx a (succ_mem' h).1; rw [e] at this; exact lt_irrefl _ this
      have ih := lookup_next hs' h
      simp only [List.lookup_cons]
      have : (a == x) = false := by simpa using hne
      rw [this]; exact ih

theorem lookup_prev : ∀ {xs : List α}, SSorted xs → ∀ {a b : α}, (a, b) ∈ xs.zip xs.tail →
    (xs.tail.zip xs).lookup b = some a
  | [], _, a, b, h => by simp at h
  | [x], _, a, b, h => by simp at h
  | x :: y :: r, hs, a, b, h => by
    have hs' := List.Pairwise.of_cons hs
    have hx := (List.pairwise_cons.1 hs).1
    rw [succ_cons_cons] at h
    rw [pred_cons_cons]
    rcases List.mem_cons.1 h with h | h
    · cases h; simp [List.lookup_cons]
    · have hne : ¬ b = y := fun e => by
        have h1 : b ∈ (y :: r).tail := (succ_mem h).2
        simp only [List.tail_cons] at h1
        have := (List.pairwise_cons.1 hs').1 b h1; rw [e] at this; exact lt_irrefl _ this
      have ih := lookup_prev hs' h
      simp only [List.lookup_cons]
      have : (b == y) = false := by simpa using hne
      rw [this]; exact ih

theorem dget_next {xs : List α} (hs : SSorted xs) {a b : α} (h : (a, b) ∈ xs.zip xs.tail) :
    dget (xs.zip xs.tail) a = b := by simp [dget, lookup_next hs h]

theorem dget_prev {xs : List α} (hs : SSorted xs) {a b : α} (h : (a, b) ∈ xs.zip xs.tail) :
    dget (xs.tail.zip xs) b = a := by simp [dget, lookup_prev hs h]

/-- every coordinate but the first has a predecessor. -/
theorem exists_pred : ∀ {xs : List α} {u : α}, u ∈ xs.tail → ∃ p, (p, u) ∈ xs.zip xs.tail
  | [], u, h => by simp at h
  | [x], u, h => by simp at h
  | x :: y :: r, u, h => by
    simp only [List.tail_cons] at h
    rw [succ_cons_cons]
    rcases List.mem_cons.1 h with rfl | h
    · exact ⟨x, by simp⟩
    · obtain ⟨p, hp⟩ := exists_pred (xs := y :: r) (u := u) (by simpa using h)
      exact ⟨p, List.mem_cons_of_mem _ hp⟩

theorem mem_tail_of_ne_head : ∀ {xs : List α} {u : α}, u ∈ xs → some u ≠ xs.head? → u ∈ xs.tail
  | [], u, h, _ => by simp at h
  | x :: r, u, h, hne => by
    rcases List.mem_cons.1 h with rfl | h
    · simp at hne
    · simpa using h

theorem head_le : ∀ {xs : List α}, SSorted xs → ∀ {h u : α}, xs.head? = some h → u ∈ xs → h ≤ u
  | [], _, h, u, e, _ => by simp at e
  | x :: r, hs, h, u, e, hu => by
    simp at e; subst e
    rcases List.mem_cons.1 hu with rfl | hu
    · exact le_refl _
    · exact le_of_lt ((List.pairwise_cons.1 hs).1 u hu)

theorem head_not_tail {xs : List α} (hs : SSorted xs) {h : α} (e : xs.head? = some h) : h ∉ xs.tail := by
  cases xs with
  | nil => simp at e
  | cons x r =>
    simp at e; subst e
    intro hm
    exact lt_irrefl _ ((List.pairwise_cons.1 hs).1 x (by simpa using hm))

/-- every coordinate but the last has a successor. -/
theorem exists_succ : ∀ {xs : List α} {u : α}, u ∈ xs → some u ≠ xs.getLast? → ∃ s, (u, s) ∈ xs.zip xs.tail
  | [], u, h, _ => by simp at h
  | [x], u, h, hne => by simp at h; subst h; simp at hne
  | x :: y :: r, u, h, hne => by
    rw [succ_cons_cons]
    rcases List.mem_cons.1 h with rfl | h
    · exact ⟨y, by simp⟩
    · have hne' : some u ≠ (y :: r).getLast? := by
        simpa [List.getLast?_cons_cons] using hne
      obtain ⟨s, hs⟩ := exists_succ h hne'
      exact ⟨s, List.mem_cons_of_mem _ hs⟩

theorem le_last : ∀ {xs : List α}, SSorted xs → ∀ {l u : α}, xs.getLast? = some l → u ∈ xs → u ≤ l
  | [], _, l, u, e, _ => by simp at e
  | [x], _, l, u, e, hu => by simp at e hu; subst e; subst hu; exact le_refl _
  | x :: y :: r, hs, l, u, e, hu => by
    have hs' := List.Pairwise.of_cons hs
    rw [List.getLast?_cons_cons] at e
    rcases List.mem_cons.1 hu with rfl | hu
    · have hl : l ∈ y :: r := List.mem_of_getLast? e
      exact le_of_lt ((List.pairwise_cons.1 hs).1 l hl)
    · exact le_last hs' e hu

theorem last_not_fst {xs : List α} (hs : SSorted xs) {l s : α} (e : xs.getLast? = some l) :
    (l, s) ∉ xs.zip xs.tail := by
  intro h
  have h1 := succ_lt hs h
  have h2 := le_last hs e (succ_mem' h).2
  exact lt_irrefl _ (lt_of_lt_of_le h1 h2)

/-- between two coordinates `u < v` the successor of `u` exists and is `≤ v`. -/
theorem exists_succ_le {xs : List α} (hs : SSorted xs) {u v : α} (hu : u ∈ xs) (hv : v ∈ xs) (h : u < v) :
    ∃ s, (u, s) ∈ xs.zip xs.tail ∧ s ≤ v := by
  have hne : some u ≠ xs.getLast? := by
    intro e
    have := le_last hs e.symm hv
    exact lt_irrefl _ (lt_of_lt_of_le h this)
  obtain ⟨s, hsu⟩ := exists_succ hu hne
  exact ⟨s, hsu, no_between hs hsu hv h⟩

theorem exists_pred_ge {xs : List α} (hs : SSorted xs) {u v : α} (hu : u ∈ xs) (hv : v ∈ xs) (h : u < v) :
    ∃ p, (p, v) ∈ xs.zip xs.tail ∧ u ≤ p := by
  have hne : some v ≠ xs.head? := by
    intro e
    have := head_le hs e.symm hu
    exact lt_irrefl _ (lt_of_lt_of_le h this)
  obtain ⟨p, hp⟩ := exists_pred (mem_tail_of_ne_head hv hne)
  exact ⟨p, hp, no_between' hs hp hu h⟩

/-- an implication along every successor pair propagates upwards along the whole list. -/
theorem chain_up : ∀ {xs : List α}, SSorted xs → ∀ {f : α → Prop}, (∀ p ∈ xs.zip xs.tail, f p.1 → f p.2) →
    ∀ {u v : α}, u ∈ xs → v ∈ xs → u ≤ v → f u → f v
  | [], _, f, _, u, v, hu, _, _, _ => by simp at hu
  | [x], _, f, _, u, v, hu, hv, _, fu => by simp at hu hv; subst hu; subst hv; exact fu
  | x :: y :: r, hs, f, hc, u, v, hu, hv, huv, fu => by
    have hs' := List.Pairwise.of_cons hs
    have hx := (List.pairwise_cons.1 hs).1
    have hc' : ∀ p ∈ (y :: r).zip (y :: r).tail, f p.1 → f p.2 := fun p hp =>
      hc p (by rw [succ_cons_cons]; exact List.mem_cons_of_mem _ hp)
    have hxy : f x → f y := hc (x, y) (by rw [succ_cons_cons]; simp)
    rcases List.mem_cons.1 hu with rfl | hu'
    · rcases List.mem_cons.1 hv with rfl | hv
      · exact fu
      · exact chain_up hs' hc' (List.mem_cons_self) hv (by
          rcases List.mem_cons.1 hv with rfl | hv'
          · exact le_refl _
          · exact le_of_lt ((List.pairwise_cons.1 hs').1 v hv')) (hxy fu)
    · rcases List.mem_cons.1 hv with rfl | hv'
      · exact absurd (lt_of_lt_of_le (hx u hu') huv) (lt_irrefl _)
      · exact chain_up hs' hc' hu' hv' huv fu

theorem chain_down : ∀ {xs : List α}, SSorted xs → ∀ {f : α → Prop}, (∀ p ∈ xs.zip xs.tail, f p.2 → f p.1) →
    ∀ {u v : α}, u ∈ xs → v ∈ xs → u ≤ v → f v → f u
  | [], _, f, _, u, v, hu, _, _, _ => by simp at hu
  | [x], _, f, _, u, v, hu, hv, _, fu => by simp at hu hv; subst hu; subst hv; exact fu
  | x :: y :: r, hs, f, hc, u, v, hu, hv, huv, fv => by
    have hs' := List.Pairwise.of_cons hs
    have hx := (List.pairwise_cons.1 hs).1
    have hc' : ∀ p ∈ (y :: r).zip (y :: r).tail, f p.2 → f p.1 := fun p hp =>
      hc p (by rw [succ_cons_cons]; exact List.mem_cons_of_mem _ hp)
    have hxy : f y → f x := hc (x, y) (by rw [succ_cons_cons]; simp)
    rcases List.mem_cons.1 hu with rfl | hu'
    · rcases List.mem_cons.1 hv with rfl | hv
      · exact fv
      · exact hxy (chain_down hs' hc' (List.mem_cons_self) hv (by
          rcases List.mem_cons.1 hv with rfl | hv'
          · exact le_refl _
          · exact le_of_lt ((List.pairwise_cons.1 hs').1 v hv')) fv)
    · rcases List.mem_cons.1 hv with rfl | hv'
      · exact absurd (lt_of_lt_of_le (hx u hu') huv) (lt_irrefl _)
      · exact chain_down hs' hc' hu' hv' huv fv

/-- a non-empty finite set of coordinates has a greatest / least element. -/
theorem exists_max (p : α → Prop) : ∀ (l : List α), (∃ x ∈ l, p x) → ∃ m ∈ l, p m ∧ ∀ x ∈ l, p x → x ≤ m
  | [], h => by obtain ⟨x, hx, _⟩ := h; cases hx
  | a :: t, h => by
    by_cases ht : ∃ x ∈ t, p x
    · obtain ⟨m, hm, pm, hmax⟩ := exists_max p t ht
      by_cases pa : p a
      · rcases le_total a m with ham | ham
        · exact ⟨m, List.mem_cons_of_mem _ hm, pm, fun x hx px => by
            rcases List.mem_cons.1 hx with rfl | hx; exact ham; exact hmax x hx px⟩
        · exact ⟨a, List.mem_cons_self, pa, fun x hx px => by
            rcases List.mem_cons.1 hx with rfl | hx; exact le_refl _; exact le_trans (hmax x hx px) ham⟩
      · exact ⟨m, List.mem_cons_of_mem _ hm, pm, fun x hx px => by
          rcases List.mem_cons.1 hx with rfl | hx; exact absurd px pa; exact hmax x hx px⟩
    · obtain ⟨x, hx, px⟩ := h
      rcases List.mem_cons.1 hx with rfl | hx
      · exact ⟨x, List.mem_cons_self, px, fun z hz pz => by
          rcases List.mem_cons.1 hz with rfl | hz; exact le_refl _; exact absurd ⟨z, hz, pz⟩ ht⟩
      · exact absurd ⟨x, hx, px⟩ ht

theorem exists_min (p : α → Prop) : ∀ (l : List α), (∃ x ∈ l, p x) → ∃ m ∈ l, p m ∧ ∀ x ∈ l, p x → m ≤ x
  | [], h => by obtain ⟨x, hx, _⟩ := h; cases hx
  | a :: t, h => by
    by_cases ht : ∃ x ∈ t, p x
    · obtain ⟨m, hm, pm, hmin⟩ := exists_min p t ht
      by_cases pa : p a
      · rcases le_total m a with ham | ham
        · exact ⟨m, List.mem_cons_of_mem _ hm, pm, fun x hx px => by
            rcases List.mem_cons.1 hx with rfl | hx; exact ham; exact hmin x hx px⟩
        · exact ⟨a, List.mem_cons_self, pa, fun x hx px => by
            rcases List.mem_cons.1 hx with rfl | hx; exact le_refl _; exact le_trans ham (hmin x hx px)⟩
      · exact ⟨m, List.mem_cons_of_mem _ hm, pm, fun x hx px => by
          rcases List.mem_cons.1 hx with rfl | hx; exact absurd px pa; exact hmin x hx px⟩
    · obtain ⟨x, hx, px⟩ := h
      rcases List.mem_cons.1 hx with rfl | hx
      · exact ⟨x, List.mem_cons_self, px, fun z hz pz => by
          rcases List.mem_cons.1 hz with rfl | hz; exact le_refl _; exact absurd ⟨z, hz, pz⟩ ht⟩
      · exact absurd ⟨x, hx, px⟩ ht

end Sorted

/-! ### Part 3 — `definecoords` -/
section Coords
variable {α : Type} [LinearOrder α]

theorem insertSorted_mem {x y : α} : ∀ {l : List α}, y ∈ insertSorted x l ↔ y = x ∨ y ∈ l
  | [] => by simp [insertSorted]
  | a :: t => by
    unfold insertSorted
    by_cases h1 : x < a
    · simp [h1]
    · by_cases h2 : x = a
      · subst h2; simp [h1]
      · simp only [h1, h2, if_false, List.mem_cons, insertSorted_mem (l := t)]
        constructor
        · rintro (h | h | h); exact Or.inr (Or.inl h); exact Or.inl h; exact Or.inr (Or.inr h)
        · rintro (h | h | h); exact Or.inr (Or.inl h); exact Or.inl h; exact Or.inr (Or.inr h)

theorem insertSorted_sorted {x : α} : ∀ {l : List α}, SSorted l → SSorted (insertSorted x l)
  | [], _ => by simp [insertSorted]
  | a :: t, hs => by
    have ha := (List.pairwise_cons.1 hs).1
    have ht := (List.pairwise_cons.1 hs).2
    unfold insertSorted
    by_cases h1 : x < a
    · simp only [h1, if_true]
      refine List.pairwise_cons.2 ⟨fun y hy => ?_, hs⟩
      rcases List.mem_cons.1 hy with rfl | hy
      · exact h1
      · exact lt_trans h1 (ha y hy)
    · by_cases h2 : x = a
      · subst h2; simp only [h1, if_false, if_true]; exact hs
      · simp only [h1, h2, if_false]
        refine List.pairwise_cons.2 ⟨fun y hy => ?_, insertSorted_sorted ht⟩
        rcases insertSorted_mem.1 hy with rfl | hy
        · exact lt_of_le_of_ne (not_lt.1 h1) (fun e => h2 e.symm)
        · exact ha y hy

theorem sortedSet_sorted : ∀ (l : List α), SSorted (sortedSet l)
  | [] => by simp [sortedSet]
  | a :: t => by
    have := sortedSet_sorted t
    simp only [sortedSet, List.foldr_cons] at this ⊢
    exact insertSorted_sorted this

theorem mem_sortedSet {y : α} : ∀ {l : List α}, y ∈ sortedSet l ↔ y ∈ l
  | [] => by simp [sortedSet]
  | a :: t => by
    have ih := mem_sortedSet (y := y) (l := t)
    simp only [sortedSet, List.foldr_cons] at ih ⊢
    rw [insertSorted_mem, ih]; simp

/-- what the proofs use of a coordinate structure: it is the one `definecoords` builds. -/
structure WF (C : Coords α) (ip : List (Cell α)) : Prop where
  xs_sorted : SSorted C.xcoords
  ys_sorted : SSorted C.ycoords
  nextX_eq : C.nextX = C.xcoords.zip C.xcoords.tail
  prevX_eq : C.prevX = C.xcoords.tail.zip C.xcoords
  nextY_eq : C.nextY = C.ycoords.zip C.ycoords.tail
  prevY_eq : C.prevY = C.ycoords.tail.zip C.ycoords
  blocks_eq : C.blocks = List.range ip.length

theorem defineCoords_wf (ip : List (Cell α)) : WF (defineCoords ip) ip :=
  ⟨sortedSet_sorted _, sortedSet_sorted _, rfl, rfl, rfl, rfl, rfl⟩

theorem mem_cellsOf {C : Coords α} {ip : List (Cell α)} (h : C.blocks = List.range ip.length) {b : Nat} {c : Cell α} :
    (b, c) ∈ cellsOf C ip ↔ ip[b]? = some c := by
  simp only [cellsOf, h, List.mem_filterMap, List.mem_range, Option.map_eq_some_iff, Prod.mk.injEq]
  constructor
  · rintro ⟨b', _, c', hc, rfl, rfl⟩; exact hc
  · intro hc
    exact ⟨b, (List.getElem?_eq_some_iff.1 hc).1, c, hc, rfl, rfl⟩

theorem forall_cellsOf {C : Coords α} {ip : List (Cell α)} (h : C.blocks = List.range ip.length)
    {p : Nat × Cell α → Prop} : (∀ bc ∈ cellsOf C ip, p bc) ↔ ∀ b c, ip[b]? = some c → p (b, c) := by
  constructor
  · intro hh b c hc; exact hh (b, c) ((mem_cellsOf h).2 hc)
  · intro hh bc hbc; exact hh bc.1 bc.2 ((mem_cellsOf h).1 hbc)

end Coords

/-! ### Specification vocabulary (used by `FV/Props/C08.lean`) -/
section Spec
variable {α : Type} [LinearOrder α]

/-- the cell lies inside the (closed) rectangle `R`. -/
structure Cell.inside (c : Cell α) (R : Box α) : Prop where
  x0 : R.X0 ≤ c.x0
  x1 : c.x1 ≤ R.X1
  y0 : R.Y0 ≤ c.y0
  y1 : c.y1 ≤ R.Y1

/-- `R` is a rectangle of positive size whose four sides lie on grid lines. -/
structure Box.OnGrid (C : Coords α) (R : Box α) : Prop where
  X0 : R.X0 ∈ C.xcoords
  X1 : R.X1 ∈ C.xcoords
  Y0 : R.Y0 ∈ C.ycoords
  Y1 : R.Y1 ∈ C.ycoords
  ltX : R.X0 < R.X1
  ltY : R.Y0 < R.Y1

/-- `input_problem` is a (possibly non-uniform) rectangular grid of cells with respect to the coordinate structure `C`:
    every cell spans from a coordinate to its successor in both axes, and every such combination is a cell. -/
structure IsGridFor (C : Coords α) (ip : List (Cell α)) : Prop extends WF C ip where
  cells : ∀ c ∈ ip, (c.x0, c.x1) ∈ C.nextX ∧ (c.y0, c.y1) ∈ C.nextY
  full : ∀ p ∈ C.nextX, ∀ q ∈ C.nextY, (⟨p.1, q.1, p.2, q.2⟩ : Cell α) ∈ ip

/-- box `B` (a branch) abuts the trunk `T` on the side named by the direction variable, the shared side of `B`
    lying within the extent of the trunk's side (`west`: the trunk is to the west of the branch, …;
    `north` is towards smaller `y`, as in the code). -/
def AbutsOn : Dir → Box α → Box α → Prop
  | .west, B, T => B.X0 = T.X1 ∧ T.Y0 ≤ B.Y0 ∧ B.Y1 ≤ T.Y1
  | .east, B, T => B.X1 = T.X0 ∧ T.Y0 ≤ B.Y0 ∧ B.Y1 ≤ T.Y1
  | .north, B, T => B.Y0 = T.Y1 ∧ T.X0 ≤ B.X0 ∧ B.X1 ≤ T.X1
  | .south, B, T => B.Y1 = T.Y0 ∧ T.X0 ≤ B.X0 ∧ B.X1 ≤ T.X1

/-- under `σ`, box `i` consists exactly of the cells inside `R`. -/
def BoxIs (ip : List (Cell α)) (σ : Assign α) (i : Nat) (R : Box α) : Prop :=
  ∀ b c, ip[b]? = some c → (σ (.cell i b) = true ↔ c.inside R)

end Spec

/-! ### Part 4 — semantics of `boxConstrs` / `attachConstrs` on a grid -/
section BoxSem
variable {α : Type} [LinearOrder α] {C : Coords α} {ip : List (Cell α)} {σ : Assign α}

/-- what the constraints of lines 119-138 say, on a grid. -/
structure BoxSem (C : Coords α) (ip : List (Cell α)) (σ : Assign α) (i : Nat) : Prop where
  mem : ∀ b c, ip[b]? = some c → σ (.cell i b) = true →
    σ (.lilx i c.x1) = true ∧ σ (.bigx i c.x0) = true ∧ σ (.lily i c.y1) = true ∧ σ (.bigy i c.y0) = true
  chainX : ∀ p ∈ C.xcoords.zip C.xcoords.tail,
    (σ (.bigx i p.1) = true → σ (.bigx i p.2) = true) ∧ (σ (.lilx i p.2) = true → σ (.lilx i p.1) = true)
  chainY : ∀ p ∈ C.ycoords.zip C.ycoords.tail,
    (σ (.bigy i p.1) = true → σ (.bigy i p.2) = true) ∧ (σ (.lily i p.2) = true → σ (.lily i p.1) = true)
  close : ∀ b c, ip[b]? = some c → σ (.lilx i c.x1) = true → σ (.bigx i c.x0) = true →
    σ (.lily i c.y1) = true → σ (.bigy i c.y0) = true → σ (.cell i b) = true
  nonempty : ∃ b c, ip[b]? = some c ∧ σ (.cell i b) = true

theorem chain_tail_iff {xs : List α} (hs : SSorted xs) (P : α → α → Prop) :
    (∀ x ∈ xs.tail, P (dget (xs.tail.zip xs) x) x) ↔ ∀ p ∈ xs.zip xs.tail, P p.1 p.2 := by
  constructor
  · rintro h ⟨a, b⟩ hp
    have := h b (succ_mem hp).2
    rwa [dget_prev hs hp] at this
  · intro h x hx
    obtain ⟨p, hp⟩ := exists_pred hx
    rw [dget_prev hs hp]
    exact h (p, x) hp

theorem cell_mem (G : IsGridFor C ip) {b : Nat} {c : Cell α} (h : ip[b]? = some c) :
    (c.x0, c.x1) ∈ C.xcoords.zip C.xcoords.tail ∧ (c.y0, c.y1) ∈ C.ycoords.zip C.ycoords.tail := by
  have := G.cells c (List.mem_of_getElem? h)
  rwa [G.nextX_eq, G.nextY_eq] at this

theorem cell_memX (G : IsGridFor C ip) {b : Nat} {c : Cell α} (h : ip[b]? = some c) :
    (c.x0, c.x1) ∈ C.xcoords.zip C.xcoords.tail := (cell_mem G h).1

theorem cell_memY (G : IsGridFor C ip) {b : Nat} {c : Cell α} (h : ip[b]? = some c) :
    (c.y0, c.y1) ∈ C.ycoords.zip C.ycoords.tail := (cell_mem G h).2

theorem sat_boxConstrs (G : IsGridFor C ip) (i : Nat) : Sat σ (boxConstrs C ip i) ↔ BoxSem C ip σ i := by
  have hb := G.blocks_eq
  simp only [boxConstrs, sat_append, sat_flatMap, sat_map, sat_cons, sat_nil, and_true, holds_imply, holds_atLeastOne,
    List.mem_cons, List.not_mem_nil, or_false, forall_eq_or_imp, forall_eq, eval_pos, List.mem_map,
    forall_cellsOf hb, G.prevX_eq, G.prevY_eq, G.nextX_eq, G.nextY_eq]
  rw [chain_tail_iff G.xs_sorted (fun a b => (σ (.bigx i a) = true → σ (.bigx i b) = true) ∧
        (σ (.lilx i b) = true → σ (.lilx i a) = true)),
      chain_tail_iff G.ys_sorted (fun a b => (σ (.bigy i a) = true → σ (.bigy i b) = true) ∧
        (σ (.lily i b) = true → σ (.lily i a) = true))]
  constructor
  · rintro ⟨⟨⟨⟨h1, h2⟩, h3⟩, h4⟩, h5⟩
    refine ⟨fun b c hc hs => ?_, h2, h3, fun b c hc a1 a2 a3 a4 => ?_, ?_⟩
    · obtain ⟨e1, e2, e3, e4⟩ := h1 b c hc
      exact ⟨e1 hs, e2 hs, e3 hs, e4 hs⟩
    · have hx := (cell_mem G hc).1
      have hy := (cell_mem G hc).2
      have := h4 b c hc
      rw [dget_next G.xs_sorted hx, dget_prev G.xs_sorted hx, dget_next G.ys_sorted hy, dget_prev G.ys_sorted hy] at this
      exact this ⟨a1, a2, a3, a4⟩
    · obtain ⟨l, ⟨bc, hbc, rfl⟩, hl⟩ := h5
      exact ⟨bc.1, bc.2, (mem_cellsOf hb).1 hbc, by simpa using hl⟩
  · intro S
    refine ⟨⟨⟨⟨fun b c hc => ?_, S.chainX⟩, S.chainY⟩, fun b c hc => ?_⟩, ?_⟩
    · have := S.mem b c hc
      exact ⟨fun h => (this h).1, fun h => (this h).2.1, fun h => (this h).2.2.1, fun h => (this h).2.2.2⟩
    · have hx := (cell_mem G hc).1
      have hy := (cell_mem G hc).2
      rw [dget_next G.xs_sorted hx, dget_prev G.xs_sorted hx, dget_next G.ys_sorted hy, dget_prev G.ys_sorted hy]
      rintro ⟨a1, a2, a3, a4⟩
      exact S.close b c hc a1 a2 a3 a4
    · obtain ⟨b, c, hc, hs⟩ := S.nonempty
      exact ⟨pos (.cell i b), ⟨(b, c), (mem_cellsOf hb).2 hc, rfl⟩, by simpa using hs⟩

end BoxSem

/-! ### Part 5 — one box: models of `boxConstrs` = non-empty full rectangles -/
section Box
variable {α : Type} [LinearOrder α] {C : Coords α} {ip : List (Cell α)} {σ : Assign α}

theorem boxSem_rect (G : IsGridFor C ip) {i : Nat} (S : BoxSem C ip σ i) :
    ∃ R : Box α, R.OnGrid C ∧ BoxIs ip σ i R := by
  obtain ⟨b0, c0, hc0, hs0⟩ := S.nonempty
  obtain ⟨m1, m2, m3, m4⟩ := S.mem b0 c0 hc0 hs0
  have hx0 := (cell_mem G hc0).1
  have hy0 := (cell_mem G hc0).2
  obtain ⟨X1, hX1, lX1, maxX⟩ := exists_max (fun x => σ (.lilx i x) = true) C.xcoords ⟨c0.x1, (succ_mem' hx0).2, m1⟩
  obtain ⟨X0, hX0, bX0, minX⟩ := exists_min (fun x => σ (.bigx i x) = true) C.xcoords ⟨c0.x0, (succ_mem' hx0).1, m2⟩
  obtain ⟨Y1, hY1, lY1, maxY⟩ := exists_max (fun y => σ (.lily i y) = true) C.ycoords ⟨c0.y1, (succ_mem' hy0).2, m3⟩
  obtain ⟨Y0, hY0, bY0, minY⟩ := exists_min (fun y => σ (.bigy i y) = true) C.ycoords ⟨c0.y0, (succ_mem' hy0).1, m4⟩
  refine ⟨⟨X0, Y0, X1, Y1⟩, ⟨hX0, hX1, hY0, hY1, ?_, ?_⟩, fun b c hc => ⟨fun hs => ?_, fun hin => ?_⟩⟩
  · exact lt_of_le_of_lt (minX _ (succ_mem' hx0).1 m2) (lt_of_lt_of_le (succ_lt G.xs_sorted hx0) (maxX _ (succ_mem' hx0).2 m1))
  · exact lt_of_le_of_lt (minY _ (succ_mem' hy0).1 m4) (lt_of_lt_of_le (succ_lt G.ys_sorted hy0) (maxY _ (succ_mem' hy0).2 m3))
  · obtain ⟨n1, n2, n3, n4⟩ := S.mem b c hc hs
    have hx := (cell_mem G hc).1
    have hy := (cell_mem G hc).2
    exact ⟨minX _ (succ_mem' hx).1 n2, maxX _ (succ_mem' hx).2 n1, minY _ (succ_mem' hy).1 n4, maxY _ (succ_mem' hy).2 n3⟩
  · obtain ⟨i1, i2, i3, i4⟩ := hin
    have hx := (cell_mem G hc).1
    have hy := (cell_mem G hc).2
    refine S.close b c hc ?_ ?_ ?_ ?_
    · exact chain_down G.xs_sorted (f := fun x => σ (.lilx i x) = true) (fun p hp => (S.chainX p hp).2)
        (succ_mem' hx).2 hX1 i2 lX1
    · exact chain_up G.xs_sorted (f := fun x => σ (.bigx i x) = true) (fun p hp => (S.chainX p hp).1)
        hX0 (succ_mem' hx).1 i1 bX0
    · exact chain_down G.ys_sorted (f := fun y => σ (.lily i y) = true) (fun p hp => (S.chainY p hp).2)
        (succ_mem' hy).2 hY1 i4 lY1
    · exact chain_up G.ys_sorted (f := fun y => σ (.bigy i y) = true) (fun p hp => (S.chainY p hp).1)
        hY0 (succ_mem' hy).1 i3 bY0

/-- on a full grid a rectangle with sides on grid lines contains the cell at its lower-left corner. -/
theorem corner_cell (G : IsGridFor C ip) {R : Box α} (hR : R.OnGrid C) :
    ∃ (b : Nat) (c : Cell α), ip[b]? = some c ∧ c.inside R ∧ c.x0 = R.X0 ∧ c.y0 = R.Y0 := by
  obtain ⟨h0, h1, h2, h3, hx, hy⟩ := hR
  obtain ⟨sx, hsx, lex⟩ := exists_succ_le G.xs_sorted h0 h1 hx
  obtain ⟨sy, hsy, ley⟩ := exists_succ_le G.ys_sorted h2 h3 hy
  have hm := G.full (R.X0, sx) (by rw [G.nextX_eq]; exact hsx) (R.Y0, sy) (by rw [G.nextY_eq]; exact hsy)
  obtain ⟨b, hb⟩ := List.mem_iff_getElem?.1 hm
  exact ⟨b, _, hb, ⟨le_refl _, lex, le_refl _, ley⟩, rfl, rfl⟩

/-- the assignment of the interval variables that describes the rectangle `R`. -/
structure Describes (σ : Assign α) (i : Nat) (R : Box α) : Prop where
  lilx : ∀ x, σ (.lilx i x) = true ↔ x ≤ R.X1
  bigx : ∀ x, σ (.bigx i x) = true ↔ R.X0 ≤ x
  lily : ∀ y, σ (.lily i y) = true ↔ y ≤ R.Y1
  bigy : ∀ y, σ (.bigy i y) = true ↔ R.Y0 ≤ y

theorem boxSem_of_rect (G : IsGridFor C ip) {i : Nat} {R : Box α} (hR : R.OnGrid C) (hB : BoxIs ip σ i R)
    (hD : Describes σ i R) : BoxSem C ip σ i := by
  refine ⟨fun b c hc hs => ?_, fun p hp => ?_, fun p hp => ?_, fun b c hc a1 a2 a3 a4 => ?_, ?_⟩
  · obtain ⟨i1, i2, i3, i4⟩ := (hB b c hc).1 hs
    exact ⟨(hD.lilx _).2 i2, (hD.bigx _).2 i1, (hD.lily _).2 i4, (hD.bigy _).2 i3⟩
  · have := le_of_lt (succ_lt G.xs_sorted hp)
    exact ⟨fun h => (hD.bigx _).2 (le_trans ((hD.bigx _).1 h) this), fun h => (hD.lilx _).2 (le_trans this ((hD.lilx _).1 h))⟩
  · have := le_of_lt (succ_lt G.ys_sorted hp)
    exact ⟨fun h => (hD.bigy _).2 (le_trans ((hD.bigy _).1 h) this), fun h => (hD.lily _).2 (le_trans this ((hD.lily _).1 h))⟩
  · exact (hB b c hc).2 ⟨(hD.bigx _).1 a2, (hD.lilx _).1 a1, (hD.bigy _).1 a4, (hD.lily _).1 a3⟩
  · obtain ⟨b, c, hc, hin, _, _⟩ := corner_cell G hR
    exact ⟨b, c, hc, (hB b c hc).2 hin⟩

end Box

/-! ### Part 6 — semantics of `attachConstrs` -/
section Attach
variable {α : Type} [LinearOrder α] {C : Coords α} {ip : List (Cell α)} {σ : Assign α}

theorem holds_amo_dirs (i : Nat) :
    (Constr.amo (dirLits (α := α) i)).holds σ = true ↔
      ∀ d d', d ≠ d' → ¬(σ (.dir i d) = true ∧ σ (.dir i d') = true) := by
  simp only [Constr.holds, decide_eq_true_eq, countTrue_le_one]
  simp only [dirLits, List.pairwise_cons, List.mem_cons,
    List.not_mem_nil, or_false, forall_eq_or_imp, forall_eq, eval_pos, List.Pairwise.nil, and_true,
    implies_true, false_imp_iff]
  constructor
  · rintro ⟨⟨h1, h2, h3⟩, ⟨h4, h5⟩, h6⟩ d d' hne ⟨a, b⟩
    cases d <;> cases d'
    all_goals first
      | exact hne rfl
      | exact h1 ⟨a, b⟩ | exact h2 ⟨a, b⟩ | exact h3 ⟨a, b⟩ | exact h4 ⟨a, b⟩ | exact h5 ⟨a, b⟩ | exact h6 ⟨a, b⟩
      | exact h1 ⟨b, a⟩ | exact h2 ⟨b, a⟩ | exact h3 ⟨b, a⟩ | exact h4 ⟨b, a⟩ | exact h5 ⟨b, a⟩ | exact h6 ⟨b, a⟩
  · intro h
    exact ⟨⟨h _ _ (by decide), h _ _ (by decide), h _ _ (by decide)⟩, ⟨h _ _ (by decide), h _ _ (by decide)⟩,
      h _ _ (by decide)⟩

theorem holds_alo_dirs (i : Nat) :
    (Constr.atLeastOne (dirLits (α := α) i)).holds σ = true ↔ ∃ d, σ (.dir i d) = true := by
  simp only [holds_atLeastOne, dirLits, List.mem_cons, List.not_mem_nil, or_false, exists_eq_or_imp, exists_eq_left,
    eval_pos]
  constructor
  · rintro (h | h | h | h); exact ⟨_, h⟩; exact ⟨_, h⟩; exact ⟨_, h⟩; exact ⟨_, h⟩
  · rintro ⟨d, h⟩; cases d; exact Or.inl h; exact Or.inr (Or.inl h); exact Or.inr (Or.inr (Or.inl h))
    exact Or.inr (Or.inr (Or.inr h))

/-- what the constraints of lines 140-166 say (repaired border comparison). -/
structure AttachSem (L : Limits α) (ip : List (Cell α)) (σ : Assign α) (i c : Nat) : Prop where
  amo : ∀ d d', d ≠ d' → ¬(σ (.dir i d) = true ∧ σ (.dir i d') = true)
  alo : ∃ d, σ (.dir i d) = true
  border : ∀ b1 c1, ip[b1]? = some c1 →
    (some c1.x0 = L.west → σ (.dir i .west) = true → σ (.cell i b1) = false) ∧
    (some c1.y0 = L.north → σ (.dir i .north) = true → σ (.cell i b1) = false) ∧
    (some c1.x1 = L.east → σ (.dir i .east) = true → σ (.cell i b1) = false) ∧
    (some c1.y1 = L.south → σ (.dir i .south) = true → σ (.cell i b1) = false)
  neigh : ∀ b1 c1, ip[b1]? = some c1 → ∀ b2 c2, ip[b2]? = some c2 →
    (c1.x0 = c2.x1 ∧ c2.y0 < c1.y1 ∧ c1.y0 < c2.y1 → σ (.cell i b1) = true → σ (.dir i .west) = true →
        σ (.cell i b2) = false → σ (.cell c b2) = true) ∧
    (c1.x1 = c2.x0 ∧ c2.y0 < c1.y1 ∧ c1.y0 < c2.y1 → σ (.cell i b1) = true → σ (.dir i .east) = true →
        σ (.cell i b2) = false → σ (.cell c b2) = true) ∧
    (c1.y0 = c2.y1 ∧ c2.x0 < c1.x1 ∧ c1.x0 < c2.x1 → σ (.cell i b1) = true → σ (.dir i .north) = true →
        σ (.cell i b2) = false → σ (.cell c b2) = true) ∧
    (c1.y1 = c2.y0 ∧ c2.x0 < c1.x1 ∧ c1.x0 < c2.x1 → σ (.cell i b1) = true → σ (.dir i .south) = true →
        σ (.cell i b2) = false → σ (.cell c b2) = true)

theorem sat_attachConstrs (L : Limits α) (hb : C.blocks = List.range ip.length) (i c : Nat) :
    Sat σ (attachConstrs L C ip i c) ↔ AttachSem L ip σ i c := by
  simp only [attachConstrs, borderConstrs, neighbourConstrs, sat_append, sat_flatMap, sat_cons, sat_nil,
    and_true, sat_ite, holds_imply, holds_amo_dirs, holds_alo_dirs, List.mem_cons, List.not_mem_nil, or_false,
    forall_eq_or_imp, forall_eq, eval_pos, eval_neg, Bool.not_eq_true', forall_cellsOf hb]
  constructor
  · rintro ⟨⟨h1, h2⟩, h3⟩
    refine ⟨h1, h2, fun b1 c1 hc1 => ?_, fun b1 c1 hc1 b2 c2 hc2 => ?_⟩
    · obtain ⟨⟨⟨⟨a1, a2⟩, a3⟩, a4⟩, _⟩ := h3 b1 c1 hc1
      exact ⟨a1, a2, a3, a4⟩
    · obtain ⟨⟨⟨a1, a2⟩, a3⟩, a4⟩ := (h3 b1 c1 hc1).2 b2 c2 hc2
      exact ⟨fun g x y z => a1 g ⟨x, y, z⟩, fun g x y z => a2 g ⟨x, y, z⟩, fun g x y z => a3 g ⟨x, y, z⟩,
        fun g x y z => a4 g ⟨x, y, z⟩⟩
  · intro S
    refine ⟨⟨S.amo, S.alo⟩, fun b1 c1 hc1 => ⟨?_, fun b2 c2 hc2 => ?_⟩⟩
    · obtain ⟨a1, a2, a3, a4⟩ := S.border b1 c1 hc1
      exact ⟨⟨⟨a1, a2⟩, a3⟩, a4⟩
    · obtain ⟨a1, a2, a3, a4⟩ := S.neigh b1 c1 hc1 b2 c2 hc2
      exact ⟨⟨⟨fun g h => a1 g h.1 h.2.1 h.2.2, fun g h => a2 g h.1 h.2.1 h.2.2⟩, fun g h => a3 g h.1 h.2.1 h.2.2⟩,
        fun g h => a4 g h.1 h.2.1 h.2.2⟩

end Attach

/-! ### Part 7 — geometry of the attachment: the neighbour implications say "abuts within the trunk's extent" -/
section Geometry
variable {α : Type} [LinearOrder α] {C : Coords α} {ip : List (Cell α)} {σ : Assign α}

theorem grid_cell (G : IsGridFor C ip) {a a' t t' : α} (hx : (a, a') ∈ C.xcoords.zip C.xcoords.tail)
    (hy : (t, t') ∈ C.ycoords.zip C.ycoords.tail) : ∃ b : Nat, ip[b]? = some (⟨a, t, a', t'⟩ : Cell α) :=
  List.mem_iff_getElem?.1 (G.full (a, a') (by rw [G.nextX_eq]; exact hx) (t, t') (by rw [G.nextY_eq]; exact hy))

theorem not_sel_of_not_inside {i : Nat} {R : Box α} (sB : BoxIs ip σ i R) {b : Nat} {c : Cell α} (hc : ip[b]? = some c)
    (h : ¬ c.inside R) : σ (.cell i b) = false := by
  cases hs : σ (.cell i b)
  · rfl
  · exact absurd ((sB b c hc).1 hs) h

/-- the part of `AttachSem` that is active when the direction variable `d` is the true one. -/
def DirSem (L : Limits α) (ip : List (Cell α)) (σ : Assign α) (i c : Nat) : Dir → Prop
  | .west =>
    (∀ b1 c1, ip[b1]? = some c1 → some c1.x0 = L.west → σ (.cell i b1) = false) ∧
    (∀ b1 c1, ip[b1]? = some c1 → ∀ b2 c2, ip[b2]? = some c2 → c1.x0 = c2.x1 ∧ c2.y0 < c1.y1 ∧ c1.y0 < c2.y1 →
      σ (.cell i b1) = true → σ (.cell i b2) = false → σ (.cell c b2) = true)
  | .east =>
    (∀ b1 c1, ip[b1]? = some c1 → some c1.x1 = L.east → σ (.cell i b1) = false) ∧
    (∀ b1 c1, ip[b1]? = some c1 → ∀ b2 c2, ip[b2]? = some c2 → c1.x1 = c2.x0 ∧ c2.y0 < c1.y1 ∧ c1.y0 < c2.y1 →
      σ (.cell i b1) = true → σ (.cell i b2) = false → σ (.cell c b2) = true)
  | .north =>
    (∀ b1 c1, ip[b1]? = some c1 → some c1.y0 = L.north → σ (.cell i b1) = false) ∧
    (∀ b1 c1, ip[b1]? = some c1 → ∀ b2 c2, ip[b2]? = some c2 → c1.y0 = c2.y1 ∧ c2.x0 < c1.x1 ∧ c1.x0 < c2.x1 →
      σ (.cell i b1) = true → σ (.cell i b2) = false → σ (.cell c b2) = true)
  | .south =>
    (∀ b1 c1, ip[b1]? = some c1 → some c1.y1 = L.south → σ (.cell i b1) = false) ∧
    (∀ b1 c1, ip[b1]? = some c1 → ∀ b2 c2, ip[b2]? = some c2 → c1.y1 = c2.y0 ∧ c2.x0 < c1.x1 ∧ c1.x0 < c2.x1 →
      σ (.cell i b1) = true → σ (.cell i b2) = false → σ (.cell c b2) = true)

theorem west_iff (G : IsGridFor C ip) {i c : Nat} {B T : Box α} (hB : B.OnGrid C) (hT : T.OnGrid C)
    (sB : BoxIs ip σ i B) (sT : BoxIs ip σ c T)
    (hdis : ∀ b, b < ip.length → ¬(σ (.cell i b) = true ∧ σ (.cell c b) = true)) :
    DirSem (gridLimits C) ip σ i c .west ↔ AbutsOn .west B T := by
  have xs := G.xs_sorted
  have ys := G.ys_sorted
  constructor
  · rintro ⟨hbord, hnb⟩
    obtain ⟨sx, hsx, lsx⟩ := exists_succ_le xs hB.X0 hB.X1 hB.ltX
    obtain ⟨sy, hsy, lsy⟩ := exists_succ_le ys hB.Y0 hB.Y1 hB.ltY
    obtain ⟨py, hpy, lpy⟩ := exists_pred_ge ys hB.Y0 hB.Y1 hB.ltY
    obtain ⟨bA, hA⟩ := grid_cell G (hx := hsx) (hy := hsy)
    have sA : σ (.cell i bA) = true := (sB _ _ hA).2 { x0 := le_refl _, x1 := lsx, y0 := le_refl _, y1 := lsy }
    have hne : some B.X0 ≠ C.xcoords.head? := fun e => by
      have := hbord bA _ hA e; rw [sA] at this; cases this
    obtain ⟨p, hp⟩ := exists_pred (mem_tail_of_ne_head hB.X0 hne)
    have hpl := succ_lt xs hp
    obtain ⟨bA', hA'⟩ := grid_cell G (hx := hp) (hy := hsy)
    have nA' : σ (.cell i bA') = false :=
      not_sel_of_not_inside sB hA' (fun h => absurd (lt_of_lt_of_le hpl h.x0) (lt_irrefl _))
    have tA' := (sT _ _ hA').1 (hnb bA _ hA bA' _ hA' ⟨rfl, succ_lt ys hsy, succ_lt ys hsy⟩ sA nA')
    obtain ⟨bB, hBc⟩ := grid_cell G (hx := hsx) (hy := hpy)
    have sBc : σ (.cell i bB) = true := (sB _ _ hBc).2 { x0 := le_refl _, x1 := lsx, y0 := lpy, y1 := le_refl _ }
    obtain ⟨bB', hB'⟩ := grid_cell G (hx := hp) (hy := hpy)
    have nB' : σ (.cell i bB') = false :=
      not_sel_of_not_inside sB hB' (fun h => absurd (lt_of_lt_of_le hpl h.x0) (lt_irrefl _))
    have tB' := (sT _ _ hB').1 (hnb bB _ hBc bB' _ hB' ⟨rfl, succ_lt ys hpy, succ_lt ys hpy⟩ sBc nB')
    refine ⟨le_antisymm tA'.x1 ?_, tA'.y0, tB'.y1⟩
    rcases lt_or_ge B.X0 T.X1 with hlt | hge
    · have h1 : sx ≤ T.X1 := no_between xs hsx hT.X1 hlt
      have : σ (.cell c bA) = true :=
        (sT _ _ hA).2 { x0 := le_trans tA'.x0 (le_of_lt hpl), x1 := h1, y0 := tA'.y0, y1 := tA'.y1 }
      exact absurd ⟨sA, this⟩ (hdis bA (List.getElem?_eq_some_iff.1 hA).1)
    · exact hge
  · rintro ⟨e, hy0, hy1⟩
    refine ⟨fun b1 c1 hc1 hw => ?_, fun b1 c1 hc1 b2 c2 hc2 hcond s1 n2 => ?_⟩
    · apply not_sel_of_not_inside sB hc1
      intro hin
      have h1 : c1.x0 ≤ T.X0 := head_le xs hw.symm hT.X0
      have : T.X1 ≤ T.X0 := by rw [← e]; exact le_trans hin.x0 h1
      exact lt_irrefl _ (lt_of_lt_of_le hT.ltX this)
    · have hx1 := cell_memX G hc1
      have hy1' := cell_memY G hc1
      have hx2 := cell_memX G hc2
      have hy2' := cell_memY G hc2
      obtain ⟨e1, o1, o2⟩ := hcond
      obtain ⟨ey0, ey1⟩ := overlap_eq ys hy1' hy2' o1 o2
      have in1 := (sB _ _ hc1).1 s1
      have hlt2 : c2.x0 < B.X0 := by
        rcases lt_or_ge c2.x0 B.X0 with h | h
        · exact h
        · exfalso
          have : c2.inside B :=
            { x0 := h, x1 := by rw [← e1]; exact le_trans (le_of_lt (succ_lt xs hx1)) in1.x1,
              y0 := by rw [← ey0]; exact in1.y0, y1 := by rw [← ey1]; exact in1.y1 }
          have := (sB _ _ hc2).2 this
          rw [n2] at this; cases this
      have h2 : c2.x1 ≤ B.X0 := no_between xs hx2 hB.X0 hlt2
      have e2 : c2.x1 = T.X1 := by rw [← e]; exact le_antisymm h2 (by rw [← e1]; exact in1.x0)
      exact (sT _ _ hc2).2
        { x0 := no_between' xs hx2 hT.X0 (by rw [e2]; exact hT.ltX), x1 := le_of_eq e2,
          y0 := by rw [← ey0]; exact le_trans hy0 in1.y0, y1 := by rw [← ey1]; exact le_trans in1.y1 hy1 }

theorem east_iff (G : IsGridFor C ip) {i c : Nat} {B T : Box α} (hB : B.OnGrid C) (hT : T.OnGrid C)
    (sB : BoxIs ip σ i B) (sT : BoxIs ip σ c T)
    (hdis : ∀ b, b < ip.length → ¬(σ (.cell i b) = true ∧ σ (.cell c b) = true)) :
    DirSem (gridLimits C) ip σ i c .east ↔ AbutsOn .east B T := by
  have xs := G.xs_sorted
  have ys := G.ys_sorted
  constructor
  · rintro ⟨hbord, hnb⟩
    obtain ⟨px, hpx, lpx⟩ := exists_pred_ge xs hB.X0 hB.X1 hB.ltX
    obtain ⟨sy, hsy, lsy⟩ := exists_succ_le ys hB.Y0 hB.Y1 hB.ltY
    obtain ⟨py, hpy, lpy⟩ := exists_pred_ge ys hB.Y0 hB.Y1 hB.ltY
    obtain ⟨bA, hA⟩ := grid_cell G (hx := hpx) (hy := hsy)
    have sA : σ (.cell i bA) = true := (sB _ _ hA).2 { x0 := lpx, x1 := le_refl _, y0 := le_refl _, y1 := lsy }
    have hne : some B.X1 ≠ C.xcoords.getLast? := fun e => by
      have := hbord bA _ hA e; rw [sA] at this; cases this
    obtain ⟨s, hs⟩ := exists_succ hB.X1 hne
    have hsl := succ_lt xs hs
    obtain ⟨bA', hA'⟩ := grid_cell G (hx := hs) (hy := hsy)
    have nA' : σ (.cell i bA') = false :=
      not_sel_of_not_inside sB hA' (fun h => absurd (lt_of_lt_of_le hsl h.x1) (lt_irrefl _))
    have tA' := (sT _ _ hA').1 (hnb bA _ hA bA' _ hA' ⟨rfl, succ_lt ys hsy, succ_lt ys hsy⟩ sA nA')
    obtain ⟨bB, hBc⟩ := grid_cell G (hx := hpx) (hy := hpy)
    have sBc : σ (.cell i bB) = true := (sB _ _ hBc).2 { x0 := lpx, x1 := le_refl _, y0 := lpy, y1 := le_refl _ }
    obtain ⟨bB', hB'⟩ := grid_cell G (hx := hs) (hy := hpy)
    have nB' : σ (.cell i bB') = false :=
      not_sel_of_not_inside sB hB' (fun h => absurd (lt_of_lt_of_le hsl h.x1) (lt_irrefl _))
    have tB' := (sT _ _ hB').1 (hnb bB _ hBc bB' _ hB' ⟨rfl, succ_lt ys hpy, succ_lt ys hpy⟩ sBc nB')
    refine ⟨le_antisymm ?_ tA'.x0, tA'.y0, tB'.y1⟩
    rcases lt_or_ge T.X0 B.X1 with hlt | hge
    · have h1 : T.X0 ≤ px := no_between' xs hpx hT.X0 hlt
      have : σ (.cell c bA) = true :=
        (sT _ _ hA).2 { x0 := h1, x1 := le_trans (le_of_lt hsl) tA'.x1, y0 := tA'.y0, y1 := tA'.y1 }
      exact absurd ⟨sA, this⟩ (hdis bA (List.getElem?_eq_some_iff.1 hA).1)
    · exact hge
  · rintro ⟨e, hy0, hy1⟩
    refine ⟨fun b1 c1 hc1 hw => ?_, fun b1 c1 hc1 b2 c2 hc2 hcond s1 n2 => ?_⟩
    · apply not_sel_of_not_inside sB hc1
      intro hin
      have h1 : T.X1 ≤ c1.x1 := le_last xs hw.symm hT.X1
      have : T.X1 ≤ T.X0 := by rw [← e]; exact le_trans h1 hin.x1
      exact lt_irrefl _ (lt_of_lt_of_le hT.ltX this)
    · have hx1 := cell_memX G hc1
      have hy1' := cell_memY G hc1
      have hx2 := cell_memX G hc2
      have hy2' := cell_memY G hc2
      obtain ⟨e1, o1, o2⟩ := hcond
      obtain ⟨ey0, ey1⟩ := overlap_eq ys hy1' hy2' o1 o2
      have in1 := (sB _ _ hc1).1 s1
      have hlt2 : B.X1 < c2.x1 := by
        rcases lt_or_ge B.X1 c2.x1 with h | h
        · exact h
        · exfalso
          have : c2.inside B :=
            { x0 := by rw [← e1]; exact le_trans in1.x0 (le_of_lt (succ_lt xs hx1)), x1 := h,
              y0 := by rw [← ey0]; exact in1.y0, y1 := by rw [← ey1]; exact in1.y1 }
          have := (sB _ _ hc2).2 this
          rw [n2] at this; cases this
      have h2 : B.X1 ≤ c2.x0 := no_between' xs hx2 hB.X1 hlt2
      have e2 : c2.x0 = T.X0 := by rw [← e]; exact le_antisymm (by rw [← e1]; exact in1.x1) h2
      exact (sT _ _ hc2).2
        { x0 := le_of_eq e2.symm, x1 := no_between xs hx2 hT.X1 (by rw [e2]; exact hT.ltX),
          y0 := by rw [← ey0]; exact le_trans hy0 in1.y0, y1 := by rw [← ey1]; exact le_trans in1.y1 hy1 }

/- `north_iff` / `south_iff`: the two proofs above with the roles of x and y exchanged (generated text). -/
theorem north_iff (G : IsGridFor C ip) {i c : Nat} {B T : Box α} (hB : B.OnGrid C) (hT : T.OnGrid C)
    (sB : BoxIs ip σ i B) (sT : BoxIs ip σ c T)
    (hdis : ∀ b, b < ip.length → ¬(σ (.cell i b) = true ∧ σ (.cell c b) = true)) :
    DirSem (gridLimits C) ip σ i c .north ↔ AbutsOn .north B T := by
  have ys := G.ys_sorted
  have xs := G.xs_sorted
  constructor
  · rintro ⟨hbord, hnb⟩
    obtain ⟨sx, hsx, lsx⟩ := exists_succ_le ys hB.Y0 hB.Y1 hB.ltY
    obtain ⟨sy, hsy, lsy⟩ := exists_succ_le xs hB.X0 hB.X1 hB.ltX
    obtain ⟨py, hpy, lpy⟩ := exists_pred_ge xs hB.X0 hB.X1 hB.ltX
    obtain ⟨bA, hA⟩ := grid_cell G (hy := hsx) (hx := hsy)
    have sA : σ (.cell i bA) = true := (sB _ _ hA).2 { y0 := le_refl _, y1 := lsx, x0 := le_refl _, x1 := lsy }
    have hne : some B.Y0 ≠ C.ycoords.head? := fun e => by
      have := hbord bA _ hA e; rw [sA] at this; cases this
    obtain ⟨p, hp⟩ := exists_pred (mem_tail_of_ne_head hB.Y0 hne)
    have hpl := succ_lt ys hp
    obtain ⟨bA', hA'⟩ := grid_cell G (hy := hp) (hx := hsy)
    have nA' : σ (.cell i bA') = false :=
      not_sel_of_not_inside sB hA' (fun h => absurd (lt_of_lt_of_le hpl h.y0) (lt_irrefl _))
    have tA' := (sT _ _ hA').1 (hnb bA _ hA bA' _ hA' ⟨rfl, succ_lt xs hsy, succ_lt xs hsy⟩ sA nA')
    obtain ⟨bB, hBc⟩ := grid_cell G (hy := hsx) (hx := hpy)
    have sBc : σ (.cell i bB) = true := (sB _ _ hBc).2 { y0 := le_refl _, y1 := lsx, x0 := lpy, x1 := le_refl _ }
    obtain ⟨bB', hB'⟩ := grid_cell G (hy := hp) (hx := hpy)
    have nB' : σ (.cell i bB') = false :=
      not_sel_of_not_inside sB hB' (fun h => absurd (lt_of_lt_of_le hpl h.y0) (lt_irrefl _))
    have tB' := (sT _ _ hB').1 (hnb bB _ hBc bB' _ hB' ⟨rfl, succ_lt xs hpy, succ_lt xs hpy⟩ sBc nB')
    refine ⟨le_antisymm tA'.y1 ?_, tA'.x0, tB'.x1⟩
    rcases lt_or_ge B.Y0 T.Y1 with hlt | hge
    · have h1 : sx ≤ T.Y1 := no_between ys hsx hT.Y1 hlt
      have : σ (.cell c bA) = true :=
        (sT _ _ hA).2 { y0 := le_trans tA'.y0 (le_of_lt hpl), y1 := h1, x0 := tA'.x0, x1 := tA'.x1 }
      exact absurd ⟨sA, this⟩ (hdis bA (List.getElem?_eq_some_iff.1 hA).1)
    · exact hge
  · rintro ⟨e, hy0, hy1⟩
    refine ⟨fun b1 c1 hc1 hw => ?_, fun b1 c1 hc1 b2 c2 hc2 hcond s1 n2 => ?_⟩
    · apply not_sel_of_not_inside sB hc1
      intro hin
      have h1 : c1.y0 ≤ T.Y0 := head_le ys hw.symm hT.Y0
      have : T.Y1 ≤ T.Y0 := by rw [← e]; exact le_trans hin.y0 h1
      exact lt_irrefl _ (lt_of_lt_of_le hT.ltY this)
    · have hx1 := cell_memY G hc1
      have hy1' := cell_memX G hc1
      have hx2 := cell_memY G hc2
      have hy2' := cell_memX G hc2
      obtain ⟨e1, o1, o2⟩ := hcond
      obtain ⟨ey0, ey1⟩ := overlap_eq xs hy1' hy2' o1 o2
      have in1 := (sB _ _ hc1).1 s1
      have hlt2 : c2.y0 < B.Y0 := by
        rcases lt_or_ge c2.y0 B.Y0 with h | h
        · exact h
        · exfalso
          have : c2.inside B :=
            { y0 := h, y1 := by rw [← e1]; exact le_trans (le_of_lt (succ_lt ys hx1)) in1.y1,
              x0 := by rw [← ey0]; exact in1.x0, x1 := by rw [← ey1]; exact in1.x1 }
          have := (sB _ _ hc2).2 this
          rw [n2] at this; cases this
      have h2 : c2.y1 ≤ B.Y0 := no_between ys hx2 hB.Y0 hlt2
      have e2 : c2.y1 = T.Y1 := by rw [← e]; exact le_antisymm h2 (by rw [← e1]; exact in1.y0)
      exact (sT _ _ hc2).2
        { y0 := no_between' ys hx2 hT.Y0 (by rw [e2]; exact hT.ltY), y1 := le_of_eq e2,
          x0 := by rw [← ey0]; exact le_trans hy0 in1.x0, x1 := by rw [← ey1]; exact le_trans in1.x1 hy1 }

theorem south_iff (G : IsGridFor C ip) {i c : Nat} {B T : Box α} (hB : B.OnGrid C) (hT : T.OnGrid C)
    (sB : BoxIs ip σ i B) (sT : BoxIs ip σ c T)
    (hdis : ∀ b, b < ip.length → ¬(σ (.cell i b) = true ∧ σ (.cell c b) = true)) :
    DirSem (gridLimits C) ip σ i c .south ↔ AbutsOn .south B T := by
  have ys := G.ys_sorted
  have xs := G.xs_sorted
  constructor
  · rintro ⟨hbord, hnb⟩
    obtain ⟨px, hpx, lpx⟩ := exists_pred_ge ys hB.Y0 hB.Y1 hB.ltY
    obtain ⟨sy, hsy, lsy⟩ := exists_succ_le xs hB.X0 hB.X1 hB.ltX
    obtain ⟨py, hpy, lpy⟩ := exists_pred_ge xs hB.X0 hB.X1 hB.ltX
    obtain ⟨bA, hA⟩ := grid_cell G (hy := hpx) (hx := hsy)
    have sA : σ (.cell i bA) = true := (sB _ _ hA).2 { y0 := lpx, y1 := le_refl _, x0 := le_refl _, x1 := lsy }
    have hne : some B.Y1 ≠ C.ycoords.getLast? := fun e => by
      have := hbord bA _ hA e; rw [sA] at this; cases this
    obtain ⟨s, hs⟩ := exists_succ hB.Y1 hne
    have hsl := succ_lt ys hs
    obtain ⟨bA', hA'⟩ := grid_cell G (hy := hs) (hx := hsy)
    have nA' : σ (.cell i bA') = false :=
      not_sel_of_not_inside sB hA' (fun h => absurd (lt_of_lt_of_le hsl h.y1) (lt_irrefl _))
    have tA' := (sT _ _ hA').1 (hnb bA _ hA bA' _ hA' ⟨rfl, succ_lt xs hsy, succ_lt xs hsy⟩ sA nA')
    obtain ⟨bB, hBc⟩ := grid_cell G (hy := hpx) (hx := hpy)
    have sBc : σ (.cell i bB) = true := (sB _ _ hBc).2 { y0 := lpx, y1 := le_refl _, x0 := lpy, x1 := le_refl _ }
    obtain ⟨bB', hB'⟩ := grid_cell G (hy := hs) (hx := hpy)
    have nB' : σ (.cell i bB') = false :=
      not_sel_of_not_inside sB hB' (fun h => absurd (lt_of_lt_of_le hsl h.y1) (lt_irrefl _))
    have tB' := (sT _ _ hB').1 (hnb bB _ hBc bB' _ hB' ⟨rfl, succ_lt xs hpy, succ_lt xs hpy⟩ sBc nB')
    refine ⟨le_antisymm ?_ tA'.y0, tA'.x0, tB'.x1⟩
    rcases lt_or_ge T.Y0 B.Y1 with hlt | hge
    · have h1 : T.Y0 ≤ px := no_between' ys hpx hT.Y0 hlt
      have : σ (.cell c bA) = true :=
        (sT _ _ hA).2 { y0 := h1, y1 := le_trans (le_of_lt hsl) tA'.y1, x0 := tA'.x0, x1 := tA'.x1 }
      exact absurd ⟨sA, this⟩ (hdis bA (List.getElem?_eq_some_iff.1 hA).1)
    · exact hge
  · rintro ⟨e, hy0, hy1⟩
    refine ⟨fun b1 c1 hc1 hw => ?_, fun b1 c1 hc1 b2 c2 hc2 hcond s1 n2 => ?_⟩
    · apply not_sel_of_not_inside sB hc1
      intro hin
      have h1 : T.Y1 ≤ c1.y1 := le_last ys hw.symm hT.Y1
      have : T.Y1 ≤ T.Y0 := by rw [← e]; exact le_trans h1 hin.y1
      exact lt_irrefl _ (lt_of_lt_of_le hT.ltY this)
    · have hx1 := cell_memY G hc1
      have hy1' := cell_memX G hc1
      have hx2 := cell_memY G hc2
      have hy2' := cell_memX G hc2
      obtain ⟨e1, o1, o2⟩ := hcond
      obtain ⟨ey0, ey1⟩ := overlap_eq xs hy1' hy2' o1 o2
      have in1 := (sB _ _ hc1).1 s1
      have hlt2 : B.Y1 < c2.y1 := by
        rcases lt_or_ge B.Y1 c2.y1 with h | h
        · exact h
        · exfalso
          have : c2.inside B :=
            { y0 := by rw [← e1]; exact le_trans in1.y0 (le_of_lt (succ_lt ys hx1)), y1 := h,
              x0 := by rw [← ey0]; exact in1.x0, x1 := by rw [← ey1]; exact in1.x1 }
          have := (sB _ _ hc2).2 this
          rw [n2] at this; cases this
      have h2 : B.Y1 ≤ c2.y0 := no_between' ys hx2 hB.Y1 hlt2
      have e2 : c2.y0 = T.Y0 := by rw [← e]; exact le_antisymm (by rw [← e1]; exact in1.y1) h2
      exact (sT _ _ hc2).2
        { y0 := le_of_eq e2.symm, y1 := no_between ys hx2 hT.Y1 (by rw [e2]; exact hT.ltY),
          x0 := by rw [← ey0]; exact le_trans hy0 in1.x0, x1 := by rw [← ey1]; exact le_trans in1.x1 hy1 }

theorem dirSem_iff (G : IsGridFor C ip) {i c : Nat} {B T : Box α} (hB : B.OnGrid C) (hT : T.OnGrid C)
    (sB : BoxIs ip σ i B) (sT : BoxIs ip σ c T)
    (hdis : ∀ b, b < ip.length → ¬(σ (.cell i b) = true ∧ σ (.cell c b) = true)) (d : Dir) :
    DirSem (gridLimits C) ip σ i c d ↔ AbutsOn d B T := by
  cases d
  · exact north_iff G hB hT sB sT hdis
  · exact south_iff G hB hT sB sT hdis
  · exact east_iff G hB hT sB sT hdis
  · exact west_iff G hB hT sB sT hdis

/-- the attachment constraints: exactly one direction variable is true, and its part of the constraints holds. -/
theorem attachSem_split (L : Limits α) (i c : Nat) :
    AttachSem L ip σ i c ↔ ∃ d, (∀ d', σ (.dir i d') = true ↔ d' = d) ∧ DirSem L ip σ i c d := by
  constructor
  · intro S
    obtain ⟨d, hd⟩ := S.alo
    have huniq : ∀ d', σ (.dir i d') = true ↔ d' = d := fun d' =>
      ⟨fun h => Classical.byContradiction fun hne => S.amo d' d hne ⟨h, hd⟩, fun e => e ▸ hd⟩
    refine ⟨d, huniq, ?_⟩
    cases d
    · exact ⟨fun b1 c1 h1 e => (S.border b1 c1 h1).2.1 e hd,
        fun b1 c1 h1 b2 c2 h2 g s1 n2 => (S.neigh b1 c1 h1 b2 c2 h2).2.2.1 g s1 hd n2⟩
    · exact ⟨fun b1 c1 h1 e => (S.border b1 c1 h1).2.2.2 e hd,
        fun b1 c1 h1 b2 c2 h2 g s1 n2 => (S.neigh b1 c1 h1 b2 c2 h2).2.2.2 g s1 hd n2⟩
    · exact ⟨fun b1 c1 h1 e => (S.border b1 c1 h1).2.2.1 e hd,
        fun b1 c1 h1 b2 c2 h2 g s1 n2 => (S.neigh b1 c1 h1 b2 c2 h2).2.1 g s1 hd n2⟩
    · exact ⟨fun b1 c1 h1 e => (S.border b1 c1 h1).1 e hd,
        fun b1 c1 h1 b2 c2 h2 g s1 n2 => (S.neigh b1 c1 h1 b2 c2 h2).1 g s1 hd n2⟩
  · rintro ⟨d, huniq, hD⟩
    have hd : σ (.dir i d) = true := (huniq d).2 rfl
    refine ⟨fun d1 d2 hne ⟨h1, h2⟩ => hne (((huniq d1).1 h1).trans ((huniq d2).1 h2).symm), ⟨d, hd⟩, ?_, ?_⟩
    · intro b1 c1 h1
      refine ⟨fun e hw => ?_, fun e hw => ?_, fun e hw => ?_, fun e hw => ?_⟩
      all_goals (have := (huniq _).1 hw; subst this; exact hD.1 b1 c1 h1 e)
    · intro b1 c1 h1 b2 c2 h2
      refine ⟨fun g s1 hw n2 => ?_, fun g s1 hw n2 => ?_, fun g s1 hw n2 => ?_, fun g s1 hw n2 => ?_⟩
      all_goals (have := (huniq _).1 hw; subst this; exact hD.2 b1 c1 h1 b2 c2 h2 g s1 n2)

/-- **attach**: for two rectangles `B` (box `i`) and `T` (trunk `c`) with no common cell, the attachment
    constraints hold iff exactly one direction variable is true and `B` abuts `T` on that side within its extent. -/
theorem attachSem_iff (G : IsGridFor C ip) {i c : Nat} {B T : Box α} (hB : B.OnGrid C) (hT : T.OnGrid C)
    (sB : BoxIs ip σ i B) (sT : BoxIs ip σ c T)
    (hdis : ∀ b, b < ip.length → ¬(σ (.cell i b) = true ∧ σ (.cell c b) = true)) :
    AttachSem (gridLimits C) ip σ i c ↔ ∃ d, (∀ d', σ (.dir i d') = true ↔ d' = d) ∧ AbutsOn d B T := by
  rw [attachSem_split]
  constructor
  · rintro ⟨d, h1, h2⟩; exact ⟨d, h1, (dirSem_iff G hB hT sB sT hdis d).1 h2⟩
  · rintro ⟨d, h1, h2⟩; exact ⟨d, h1, (dirSem_iff G hB hT sB sT hdis d).2 h2⟩

end Geometry

/-! ### Part 8 — k boxes: `shapeConstrs ++ exclConstrs` = k-box single-trunk orthogons -/
section Shape
variable {α : Type} [LinearOrder α] {C : Coords α} {ip : List (Cell α)} {σ : Assign α}

/-- a k-box single-trunk orthogon on the grid: `S i b` tells whether block `b` belongs to box `i`,
    `R i` is the rectangle of box `i`; box `0` is the trunk. -/
structure IsOrthogon (C : Coords α) (ip : List (Cell α)) (k : Nat) (S : Nat → Nat → Bool) (R : Nat → Box α) : Prop where
  /-- every box is a non-empty full rectangle of cells (sides on grid lines, positive size). -/
  box : ∀ i, i < k → (R i).OnGrid C ∧ ∀ b c, ip[b]? = some c → (S i b = true ↔ c.inside (R i))
  /-- boxes are pairwise disjoint. -/
  disjoint : ∀ i j, i < k → j < k → i ≠ j → ∀ b, b < ip.length → ¬(S i b = true ∧ S j b = true)
  /-- every non-trunk box abuts the trunk along one side, within the trunk's extent. -/
  attach : ∀ i, 0 < i → i < k → ∃ d, AbutsOn d (R i) (R 0)

theorem enforceBB_eq_some {i c : Nat} {cs : List (Constr α)} :
    enforceBB C ip i c = some cs ↔
      keysOk C ip = true ∧ cs = boxConstrs C ip i ++ (if i ≠ c then attachConstrs (gridLimits C) C ip i c else []) := by
  unfold enforceBB enforceBBWith
  by_cases h : keysOk C ip = true
  · simp [h, eq_comm]
  · simp [h]

theorem contains_of_mem {l : List α} {x : α} (h : x ∈ l) : l.contains x = true := by simpa using h

theorem keysOk_of_grid (G : IsGridFor C ip) : keysOk C ip = true := by
  have xs := G.xs_sorted
  have ys := G.ys_sorted
  unfold keysOk
  simp only [Bool.and_eq_true, List.all_eq_true, decide_eq_true_eq]
  refine ⟨⟨⟨fun b hb => ?_, fun bc hbc => ?_⟩, fun x hx => ?_⟩, fun y hy => ?_⟩
  · rw [G.blocks_eq] at hb; exact List.mem_range.1 hb
  · have hc := (mem_cellsOf G.blocks_eq).1 hbc
    have hx := cell_memX G hc
    have hy := cell_memY G hc
    rw [G.nextX_eq, G.prevX_eq, G.nextY_eq, G.prevY_eq, lookup_next xs hx, lookup_prev xs hx, lookup_next ys hy,
      lookup_prev ys hy]
    simp [(succ_mem' hx).1, (succ_mem' hx).2, (succ_mem' hy).1, (succ_mem' hy).2]
  · obtain ⟨p, hp⟩ := exists_pred hx
    rw [G.prevX_eq, lookup_prev xs hp]
    simp [(succ_mem' hp).1]
  · obtain ⟨p, hp⟩ := exists_pred hy
    rw [G.prevY_eq, lookup_prev ys hp]
    simp [(succ_mem' hp).1]

/-- the `foldr` of `shapeConstrs` over an arbitrary list of box indices, as a recursion. -/
def shapeAux (P : Problem α) : List Nat → Option (List (Constr α))
  | [] => some []
  | i :: t =>
    match enforceBB P.C P.ip i 0, shapeAux P t with
    | some a, some r => some (a ++ r)
    | _, _ => none

theorem shapeAux_foldr (P : Problem α) : ∀ is : List Nat,
    is.foldr (fun i acc => do
      let a ← enforceBB P.C P.ip i 0
      let r ← acc
      pure (a ++ r)) (some []) = shapeAux P is
  | [] => rfl
  | i :: t => by
    rw [List.foldr_cons, shapeAux_foldr P t, shapeAux]
    cases enforceBB P.C P.ip i 0 <;> cases shapeAux P t <;> rfl

theorem shapeConstrs_eq (P : Problem α) (k : Nat) : shapeConstrs P k = shapeAux P (List.range k) :=
  shapeAux_foldr P _

theorem shapeAux_sat (P : Problem α) : ∀ (is : List Nat) (cs : List (Constr α)), shapeAux P is = some cs →
    (Sat σ cs ↔ ∀ i ∈ is, Sat σ (boxConstrs P.C P.ip i) ∧
      (i ≠ 0 → Sat σ (attachConstrs (gridLimits P.C) P.C P.ip i 0)))
  | [], cs, h => by
    simp [shapeAux] at h; subst h; simp [sat_nil]
  | i :: t, cs, h => by
    rw [shapeAux] at h
    cases h1 : enforceBB P.C P.ip i 0 with
    | none => simp [h1] at h
    | some a =>
      cases h2 : shapeAux P t with
      | none => simp [h1, h2] at h
      | some r =>
        simp only [h1, h2, Option.some.injEq] at h
        subst h
        have ih := shapeAux_sat P t r h2
        obtain ⟨_, ha⟩ := enforceBB_eq_some.1 h1
        rw [sat_append, ih, ha, sat_append, sat_ite]
        simp only [List.mem_cons, forall_eq_or_imp]

theorem shapeAux_isSome (P : Problem α) (hk : keysOk P.C P.ip = true) : ∀ is : List Nat, ∃ cs, shapeAux P is = some cs
  | [] => ⟨[], rfl⟩
  | i :: t => by
    obtain ⟨r, hr⟩ := shapeAux_isSome P hk t
    have : ∃ a, enforceBB P.C P.ip i 0 = some a := ⟨_, enforceBB_eq_some.2 ⟨hk, rfl⟩⟩
    obtain ⟨a, ha⟩ := this
    exact ⟨a ++ r, by rw [shapeAux, ha, hr]⟩

theorem sat_exclConstrs (P : Problem α) (hb : P.C.blocks = List.range P.ip.length) (k : Nat) :
    Sat σ (exclConstrs P k) ↔
      ∀ b, b < P.ip.length → ∀ i j, i < k → j < k → i ≠ j → ¬(σ (.cell i b) = true ∧ σ (.cell j b) = true) := by
  simp only [exclConstrs, sat_map, hb, List.mem_range, holds_amo_range, eval_pos]

/-- semantic content of all shape constraints of `solve` on a grid. -/
theorem sat_shape (P : Problem α) (G : IsGridFor P.C P.ip) {k : Nat} {cs : List (Constr α)}
    (h : shapeConstrs P k = some cs) :
    Sat σ (cs ++ exclConstrs P k) ↔
      (∀ i, i < k → BoxSem P.C P.ip σ i ∧ (i ≠ 0 → AttachSem (gridLimits P.C) P.ip σ i 0)) ∧
      (∀ b, b < P.ip.length → ∀ i j, i < k → j < k → i ≠ j → ¬(σ (.cell i b) = true ∧ σ (.cell j b) = true)) := by
  rw [sat_append, shapeAux_sat P _ _ (by rw [← shapeConstrs_eq]; exact h), sat_exclConstrs P G.blocks_eq]
  simp only [List.mem_range, sat_boxConstrs G, sat_attachConstrs (gridLimits P.C) G.blocks_eq]

open Classical in
/-- the assignment that describes a family of rectangles `R` with attachment sides `d`. -/
noncomputable def shapeAssign (ip : List (Cell α)) (k : Nat) (R : Nat → Box α) (d : Nat → Dir) : Assign α
  | .sel b => decide (∃ i, i < k ∧ ∃ c, ip[b]? = some c ∧ c.inside (R i))
  | .cell i b => decide (i < k ∧ ∃ c, ip[b]? = some c ∧ c.inside (R i))
  | .lilx i x => decide (x ≤ (R i).X1)
  | .bigx i x => decide ((R i).X0 ≤ x)
  | .lily i y => decide (y ≤ (R i).Y1)
  | .bigy i y => decide ((R i).Y0 ≤ y)
  | .dir i e => decide (e = d i)

theorem shapeAssign_boxIs (ip : List (Cell α)) {k : Nat} (R : Nat → Box α) (d : Nat → Dir) {i : Nat} (hi : i < k) :
    BoxIs ip (shapeAssign ip k R d) i (R i) := by
  intro b c hc
  simp only [shapeAssign, decide_eq_true_eq, hc, Option.some.injEq, exists_eq_left', hi, true_and]

theorem shapeAssign_describes (ip : List (Cell α)) (k : Nat) (R : Nat → Box α) (d : Nat → Dir) (i : Nat) :
    Describes (shapeAssign ip k R d) i (R i) :=
  ⟨fun x => by simp [shapeAssign], fun x => by simp [shapeAssign], fun x => by simp [shapeAssign],
    fun x => by simp [shapeAssign]⟩

theorem orthogon_of_sat (G : IsGridFor C ip) {k : Nat} {S : Nat → Nat → Bool}
    (hbox : ∀ i, i < k → BoxSem C ip σ i ∧ (i ≠ 0 → AttachSem (gridLimits C) ip σ i 0))
    (hex : ∀ b, b < ip.length → ∀ i j, i < k → j < k → i ≠ j → ¬(σ (.cell i b) = true ∧ σ (.cell j b) = true))
    (hS : ∀ i, i < k → ∀ b, b < ip.length → σ (.cell i b) = S i b) (hk : 0 < k) :
    ∃ R, IsOrthogon C ip k S R ∧ ∀ i, i < k → BoxIs ip σ i (R i) := by
  have hR : ∀ i, ∃ R : Box α, i < k → R.OnGrid C ∧ BoxIs ip σ i R := fun i => by
    by_cases hi : i < k
    · obtain ⟨R, h1, h2⟩ := boxSem_rect G (hbox i hi).1
      exact ⟨R, fun _ => ⟨h1, h2⟩⟩
    · obtain ⟨R, _⟩ := boxSem_rect G (hbox 0 hk).1
      exact ⟨R, fun h => absurd h hi⟩
  obtain ⟨R, hR⟩ := Classical.axiomOfChoice hR
  refine ⟨R, ⟨fun i hi => ⟨(hR i hi).1, fun b c hc => ?_⟩, fun i j hi hj hne b hb => ?_, fun i h0 hi => ?_⟩,
    fun i hi => (hR i hi).2⟩
  · rw [← hS i hi b (List.getElem?_eq_some_iff.1 hc).1]; exact (hR i hi).2 b c hc
  · rw [← hS i hi b hb, ← hS j hj b hb]; exact hex b hb i j hi hj hne
  · have hA := (hbox i hi).2 (Nat.pos_iff_ne_zero.1 h0)
    obtain ⟨d, _, hd⟩ := (attachSem_iff G (hR i hi).1 (hR 0 hk).1 (hR i hi).2 (hR 0 hk).2
      (fun b hb => hex b hb i 0 hi hk (Nat.pos_iff_ne_zero.1 h0))).1 hA
    exact ⟨d, hd⟩

theorem sat_of_orthogon (G : IsGridFor C ip) {k : Nat} {S : Nat → Nat → Bool} {R : Nat → Box α}
    (hO : IsOrthogon C ip k S R) (hk : 0 < k) :
    ∃ d : Nat → Dir, let σ := shapeAssign ip k R d
      (∀ i, i < k → BoxSem C ip σ i ∧ (i ≠ 0 → AttachSem (gridLimits C) ip σ i 0)) ∧
      (∀ b, b < ip.length → ∀ i j, i < k → j < k → i ≠ j → ¬(σ (.cell i b) = true ∧ σ (.cell j b) = true)) ∧
      (∀ i, i < k → ∀ b, b < ip.length → σ (.cell i b) = S i b) := by
  have hd : ∀ i, ∃ d : Dir, 0 < i → i < k → AbutsOn d (R i) (R 0) := fun i => by
    by_cases h : 0 < i ∧ i < k
    · obtain ⟨d, hd⟩ := hO.attach i h.1 h.2; exact ⟨d, fun _ _ => hd⟩
    · exact ⟨.north, fun h1 h2 => absurd ⟨h1, h2⟩ h⟩
  obtain ⟨d, hd⟩ := Classical.axiomOfChoice hd
  refine ⟨d, ?_⟩
  intro σ
  have hS : ∀ i, i < k → ∀ b, b < ip.length → σ (.cell i b) = S i b := fun i hi b hb => by
    have hc : ip[b]? = some ip[b] := List.getElem?_eq_getElem hb
    have h1 := shapeAssign_boxIs ip R d hi b _ hc
    have h2 := (hO.box i hi).2 b _ hc
    rw [Bool.eq_iff_iff]; exact h1.trans h2.symm
  have hex : ∀ b, b < ip.length → ∀ i j, i < k → j < k → i ≠ j →
      ¬(σ (.cell i b) = true ∧ σ (.cell j b) = true) := fun b hb i j hi hj hne => by
    rw [hS i hi b hb, hS j hj b hb]; exact hO.disjoint i j hi hj hne b hb
  refine ⟨fun i hi => ⟨?_, fun hne => ?_⟩, hex, hS⟩
  · exact boxSem_of_rect G (hO.box i hi).1 (shapeAssign_boxIs ip R d hi) (shapeAssign_describes ip k R d i)
  · have h0 : 0 < i := Nat.pos_of_ne_zero hne
    refine (attachSem_iff G (hO.box i hi).1 (hO.box 0 hk).1 (shapeAssign_boxIs ip R d hi)
      (shapeAssign_boxIs ip R d hk) (fun b hb => hex b hb i 0 hi hk hne)).2 ⟨d i, fun d' => ?_, hd i h0 hi⟩
    simp [σ, shapeAssign]

end Shape

/-! ### Part 9 — `solve`: link constraints, objective, bounding boxes -/
section Solve
variable {α : Type} [LinearOrder α] {σ : Assign α}

/-- block `b` belongs to one of the `k` boxes. -/
def anyBox (k : Nat) (S : Nat → Nat → Bool) (b : Nat) : Bool := (List.range k).any fun i => S i b

/-- the objective `ratio * selarea - realarea` of the union of the boxes (boxes being disjoint, every cell counts once). -/
def shapeCost (P : Problem α) (ratio : Int) (k : Nat) (S : Nat → Nat → Bool) : Int :=
  ((List.range P.ip.length).map fun b => if anyBox k S b then P.weight ratio b else 0).sum

theorem anyBox_eq_true {k : Nat} {S : Nat → Nat → Bool} {b : Nat} : anyBox k S b = true ↔ ∃ i, i < k ∧ S i b = true := by
  simp [anyBox]

theorem shapeCost_congr (P : Problem α) (ratio : Int) {k : Nat} {S S' : Nat → Nat → Bool}
    (h : ∀ i, i < k → ∀ b, b < P.ip.length → S i b = S' i b) : shapeCost P ratio k S = shapeCost P ratio k S' := by
  unfold shapeCost
  congr 1
  apply List.map_congr_left
  intro b hb
  have hb' := List.mem_range.1 hb
  have : anyBox k S b = anyBox k S' b := by
    rw [Bool.eq_iff_iff, anyBox_eq_true, anyBox_eq_true]
    constructor
    · rintro ⟨i, hi, hs⟩; exact ⟨i, hi, by rw [← h i hi b hb']; exact hs⟩
    · rintro ⟨i, hi, hs⟩; exact ⟨i, hi, by rw [h i hi b hb']; exact hs⟩
  rw [this]

theorem sat_linkConstrs (P : Problem α) (hb : P.C.blocks = List.range P.ip.length) (k : Nat) :
    Sat σ (linkConstrs P k) ↔
      ∀ b, b < P.ip.length → (σ (.sel b) = true ↔ ∃ i, i < k ∧ σ (.cell i b) = true) := by
  simp only [linkConstrs, sat_flatMap, sat_append, sat_map, sat_singleton, holds_imply, hb, List.mem_range,
    List.mem_cons, List.not_mem_nil, or_false, forall_eq, eval_pos, eval_neg, List.mem_map, Bool.not_eq_true',
    forall_exists_index, and_imp, forall_apply_eq_imp_iff₂]
  constructor
  · intro h b hb'
    obtain ⟨h1, h2⟩ := h b hb'
    constructor
    · intro hs
      apply Classical.byContradiction
      intro hne
      have : σ (.sel b) = false := h2 (fun i hi => by
        cases hc : σ (.cell i b)
        · rfl
        · exact absurd ⟨i, hi, hc⟩ hne)
      rw [this] at hs; cases hs
    · rintro ⟨i, hi, hc⟩; exact h1 i hi hc
  · intro h b hb'
    refine ⟨fun i hi hc => (h b hb').2 ⟨i, hi, hc⟩, fun hall => ?_⟩
    cases hs : σ (.sel b)
    · rfl
    · obtain ⟨i, hi, hc⟩ := (h b hb').1 hs
      rw [hall i hi] at hc; cases hc

theorem pbSum_obj (P : Problem α) (hb : P.C.blocks = List.range P.ip.length) (ratio : Int) {k : Nat}
    (hl : ∀ b, b < P.ip.length → (σ (.sel b) = true ↔ ∃ i, i < k ∧ σ (.cell i b) = true)) :
    pbSum σ (objTerms P ratio) = shapeCost P ratio k (fun i b => σ (.cell i b)) := by
  unfold pbSum objTerms shapeCost
  rw [hb, List.map_map]
  congr 1
  apply List.map_congr_left
  intro b hb'
  have hb'' := List.mem_range.1 hb'
  have : σ (.sel b) = anyBox k (fun i b => σ (.cell i b)) b := by
    rw [Bool.eq_iff_iff, anyBox_eq_true]; exact hl b hb''
  simp [this]

theorem solveConstrs_eq_some {P : Problem α} {ratio dif0 : Int} {k : Nat} {cs : List (Constr α)} :
    solveConstrs P ratio dif0 k = some cs ↔
      ∃ sh, shapeConstrs P k = some sh ∧
        cs = linkConstrs P k ++ [.atLeastOne (selLits P), .pbGe (objTerms P ratio) dif0] ++ sh ++ exclConstrs P k := by
  unfold solveConstrs
  cases shapeConstrs P k with
  | none => simp
  | some sh => simp [eq_comm]

/-- semantic content of everything `solve` posts, on a grid. -/
theorem sat_solve (P : Problem α) (G : IsGridFor P.C P.ip) {ratio dif0 : Int} {k : Nat} {cs : List (Constr α)}
    (h : solveConstrs P ratio dif0 k = some cs) :
    Sat σ cs ↔
      (∀ b, b < P.ip.length → (σ (.sel b) = true ↔ ∃ i, i < k ∧ σ (.cell i b) = true)) ∧
      (∃ b, b < P.ip.length ∧ σ (.sel b) = true) ∧
      dif0 ≤ pbSum σ (objTerms P ratio) ∧
      (∀ i, i < k → BoxSem P.C P.ip σ i ∧ (i ≠ 0 → AttachSem (gridLimits P.C) P.ip σ i 0)) ∧
      (∀ b, b < P.ip.length → ∀ i j, i < k → j < k → i ≠ j → ¬(σ (.cell i b) = true ∧ σ (.cell j b) = true)) := by
  obtain ⟨sh, hsh, rfl⟩ := solveConstrs_eq_some.1 h
  rw [List.append_assoc, sat_append, sat_append, sat_shape P G hsh, sat_linkConstrs P G.blocks_eq, sat_cons,
    sat_singleton]
  simp only [holds_atLeastOne, holds_pbGe, selLits, G.blocks_eq, List.mem_map, List.mem_range]
  constructor
  · rintro ⟨⟨h1, ⟨l, ⟨b, hb, rfl⟩, hl⟩, h3⟩, h4, h5⟩
    exact ⟨h1, ⟨b, hb, by simpa using hl⟩, h3, h4, h5⟩
  · rintro ⟨h1, ⟨b, hb, hs⟩, h3, h4, h5⟩
    exact ⟨⟨h1, ⟨_, ⟨b, hb, rfl⟩, by simpa using hs⟩, h3⟩, h4, h5⟩

/-! bounding boxes -/

/-- `A` lies within `R`. -/
structure Box.within (A R : Box α) : Prop where
  X0 : R.X0 ≤ A.X0
  X1 : A.X1 ≤ R.X1
  Y0 : R.Y0 ≤ A.Y0
  Y1 : A.Y1 ≤ R.Y1

def cellBox (c : Cell α) : Box α := ⟨c.x0, c.y0, c.x1, c.y1⟩

theorem growBox_none (c : Cell α) : growBox none c = some (cellBox c) := rfl

theorem growBox_some (A : Box α) (c : Cell α) :
    ∃ A', growBox (some A) c = some A' ∧ A.within A' ∧ c.inside A' ∧
      ∀ R, A.within R → c.inside R → A'.within R := by
  refine ⟨_, rfl, ?_, ?_, fun R hA hc => ?_⟩
  · constructor <;> (dsimp only; grind)
  · constructor <;> (dsimp only; grind)
  · obtain ⟨a1, a2, a3, a4⟩ := hA
    obtain ⟨c1, c2, c3, c4⟩ := hc
    constructor <;> (dsimp only; grind)

theorem Box.within_refl (A : Box α) : A.within A := ⟨le_refl _, le_refl _, le_refl _, le_refl _⟩

theorem Box.within_trans {A B D : Box α} (h1 : A.within B) (h2 : B.within D) : A.within D :=
  ⟨le_trans h2.X0 h1.X0, le_trans h1.X1 h2.X1, le_trans h2.Y0 h1.Y0, le_trans h1.Y1 h2.Y1⟩

theorem inside_of_within {c : Cell α} {A B : Box α} (h1 : c.inside A) (h2 : A.within B) : c.inside B :=
  ⟨le_trans h2.X0 h1.x0, le_trans h1.x1 h2.X1, le_trans h2.Y0 h1.y0, le_trans h1.y1 h2.Y1⟩

theorem inside_cellBox (c : Cell α) : c.inside (cellBox c) := ⟨le_refl _, le_refl _, le_refl _, le_refl _⟩

theorem cellBox_within {c : Cell α} {R : Box α} (h : c.inside R) : (cellBox c).within R := ⟨h.x0, h.x1, h.y0, h.y1⟩

/-- the step of the accumulation loop of lines 251-264. -/
def bbStep (σ : Assign α) (i : Nat) (acc : Option (Box α)) (bc : Nat × Cell α) : Option (Box α) :=
  if σ (.cell i bc.1) then growBox acc bc.2 else acc

theorem bboxOf_eq_foldl (C : Coords α) (ip : List (Cell α)) (σ : Assign α) (i : Nat) :
    bboxOf C ip σ i = (cellsOf C ip).foldl (bbStep σ i) none := rfl

theorem fold_some (σ : Assign α) (i : Nat) : ∀ (l : List (Nat × Cell α)) (A : Box α),
    ∃ A', l.foldl (bbStep σ i) (some A) = some A' ∧ A.within A' ∧
      (∀ bc ∈ l, σ (.cell i bc.1) = true → bc.2.inside A') ∧
      (∀ R, A.within R → (∀ bc ∈ l, σ (.cell i bc.1) = true → bc.2.inside R) → A'.within R)
  | [], A => ⟨A, rfl, A.within_refl, fun bc h => (by cases h), fun R h _ => h⟩
  | bc :: t, A => by
    by_cases hs : σ (.cell i bc.1) = true
    · obtain ⟨A1, e1, w1, i1, r1⟩ := growBox_some A bc.2
      obtain ⟨A', e', w', i', r'⟩ := fold_some σ i t A1
      refine ⟨A', ?_, Box.within_trans w1 w', fun x hx hsx => ?_, fun R hA hall => ?_⟩
      · simp only [List.foldl_cons, bbStep, hs, if_true, e1]; exact e'
      · rcases List.mem_cons.1 hx with rfl | hx
        · exact inside_of_within i1 w'
        · exact i' x hx hsx
      · exact r' R (r1 R hA (hall bc List.mem_cons_self hs)) (fun x hx => hall x (List.mem_cons_of_mem _ hx))
    · obtain ⟨A', e', w', i', r'⟩ := fold_some σ i t A
      refine ⟨A', ?_, w', fun x hx hsx => ?_, fun R hA hall => ?_⟩
      · simp only [List.foldl_cons, bbStep, hs]; exact e'
      · rcases List.mem_cons.1 hx with rfl | hx
        · exact absurd hsx hs
        · exact i' x hx hsx
      · exact r' R hA (fun x hx => hall x (List.mem_cons_of_mem _ hx))

theorem fold_none (σ : Assign α) (i : Nat) : ∀ (l : List (Nat × Cell α)), (∃ bc ∈ l, σ (.cell i bc.1) = true) →
    ∃ A', l.foldl (bbStep σ i) none = some A' ∧
      (∀ bc ∈ l, σ (.cell i bc.1) = true → bc.2.inside A') ∧
      (∀ R, (∀ bc ∈ l, σ (.cell i bc.1) = true → bc.2.inside R) → A'.within R)
  | [], h => by obtain ⟨bc, h, _⟩ := h; cases h
  | bc :: t, h => by
    by_cases hs : σ (.cell i bc.1) = true
    · obtain ⟨A', e', w', i', r'⟩ := fold_some σ i t (cellBox bc.2)
      refine ⟨A', ?_, fun x hx hsx => ?_, fun R hall => ?_⟩
      · simp only [List.foldl_cons, bbStep, hs, if_true, growBox_none]; exact e'
      · rcases List.mem_cons.1 hx with rfl | hx
        · exact inside_of_within (inside_cellBox _) w'
        · exact i' x hx hsx
      · exact r' R (cellBox_within (hall bc List.mem_cons_self hs)) (fun x hx => hall x (List.mem_cons_of_mem _ hx))
    · have ht : ∃ x ∈ t, σ (.cell i x.1) = true := by
        obtain ⟨x, hx, hsx⟩ := h
        rcases List.mem_cons.1 hx with rfl | hx
        · exact absurd hsx hs
        · exact ⟨x, hx, hsx⟩
      obtain ⟨A', e', i', r'⟩ := fold_none σ i t ht
      refine ⟨A', ?_, fun x hx hsx => ?_, fun R hall => ?_⟩
      · simp only [List.foldl_cons, bbStep, hs]; exact e'
      · rcases List.mem_cons.1 hx with rfl | hx
        · exact absurd hsx hs
        · exact i' x hx hsx
      · exact r' R (fun x hx => hall x (List.mem_cons_of_mem _ hx))

theorem corner_cell' {C : Coords α} {ip : List (Cell α)} (G : IsGridFor C ip) {R : Box α} (hR : R.OnGrid C) :
    ∃ (b : Nat) (c : Cell α), ip[b]? = some c ∧ c.inside R ∧ c.x1 = R.X1 ∧ c.y1 = R.Y1 := by
  obtain ⟨px, hpx, lex⟩ := exists_pred_ge G.xs_sorted hR.X0 hR.X1 hR.ltX
  obtain ⟨py, hpy, ley⟩ := exists_pred_ge G.ys_sorted hR.Y0 hR.Y1 hR.ltY
  obtain ⟨b, hb⟩ := grid_cell G hpx hpy
  exact ⟨b, _, hb, ⟨lex, le_refl _, ley, le_refl _⟩, rfl, rfl⟩

/-- the rectangle returned for box `i` (bounding box of its cells) is the box itself. -/
theorem bboxOf_eq {C : Coords α} {ip : List (Cell α)} (G : IsGridFor C ip) {i : Nat} {R : Box α} (hR : R.OnGrid C)
    (hB : BoxIs ip σ i R) : bboxOf C ip σ i = some R := by
  obtain ⟨b0, c0, h0, in0, ex0, ey0⟩ := corner_cell G hR
  obtain ⟨b1, c1, h1, in1, ex1, ey1⟩ := corner_cell' G hR
  have m0 := (mem_cellsOf G.blocks_eq).2 h0
  have m1 := (mem_cellsOf G.blocks_eq).2 h1
  obtain ⟨A, eA, iA, rA⟩ := fold_none σ i (cellsOf C ip) ⟨(b0, c0), m0, (hB b0 c0 h0).2 in0⟩
  have w : A.within R := rA R (fun bc hbc hs => (hB bc.1 bc.2 ((mem_cellsOf G.blocks_eq).1 hbc)).1 hs)
  have j0 := iA (b0, c0) m0 ((hB b0 c0 h0).2 in0)
  have j1 := iA (b1, c1) m1 ((hB b1 c1 h1).2 in1)
  rw [bboxOf_eq_foldl, eA]
  have e1 : A.X0 = R.X0 := le_antisymm (by rw [← ex0]; exact j0.x0) w.X0
  have e2 : A.Y0 = R.Y0 := le_antisymm (by rw [← ey0]; exact j0.y0) w.Y0
  have e3 : A.X1 = R.X1 := le_antisymm w.X1 (by rw [← ex1]; exact j1.x1)
  have e4 : A.Y1 = R.Y1 := le_antisymm w.Y1 (by rw [← ey1]; exact j1.y1)
  cases A; cases R; simp only [Option.some.injEq, Box.mk.injEq]; exact ⟨e1, e2, e3, e4⟩

end Solve

end FV.RectSearch

import FV.Model.Die
import FV.Proofs.Geom
import Mathlib.Algebra.BigOperators.Intervals
import Mathlib.Algebra.BigOperators.Ring.Finset
import Mathlib.Algebra.Order.BigOperators.Group.Finset
import Mathlib.Data.List.Nodup
import Mathlib.Data.List.Sort
import Mathlib.Data.List.Perm.Subperm
import Mathlib.Tactic.Linarith
import Mathlib.Tactic.Ring
/-
  Helper lemmas for the die model (C01).
  Part A: Boolean matrices — index rectangles, the cover relation, the BFS of `_expand_rectangle`.
-/
namespace FV.Die
open FV
set_option linter.unusedSectionVars false
set_option linter.unusedVariables false
set_option linter.unusedSimpArgs false

/-! ### A.1 index rectangles and freeness -/

theorem IRect.contains_iff (g : IRect) (r c : Nat) :
    g.contains r c = true ↔ g.rmin ≤ r ∧ r ≤ g.rmax ∧ g.cmin ≤ c ∧ c ≤ g.cmax := by
  simp [IRect.contains, and_assoc]

theorem IRect.wf_iff (g : IRect) (nr nc : Nat) :
    g.wf nr nc = true ↔ g.rmin ≤ g.rmax ∧ g.rmax < nr ∧ g.cmin ≤ g.cmax ∧ g.cmax < nc := by
  simp [IRect.wf, and_assoc]

theorem rowFree_iff (m : Mat) (row a b : Nat) :
    rowFree m row a b = true ↔ ∀ j, a ≤ j → j ≤ b → m row j = false := by
  simp only [rowFree, List.all_eq_true, List.mem_range'_1, Bool.not_eq_true']
  constructor
  · intro h j h1 h2; exact h j ⟨h1, by omega⟩
  · intro h j hj; exact h j hj.1 (by omega)

theorem colFree_iff (m : Mat) (col a b : Nat) :
    colFree m col a b = true ↔ ∀ i, a ≤ i → i ≤ b → m i col = false := by
  simp only [colFree, List.all_eq_true, List.mem_range'_1, Bool.not_eq_true']
  constructor
  · intro h j h1 h2; exact h j ⟨h1, by omega⟩
  · intro h j hj; exact h j hj.1 (by omega)

theorem allFree_iff (m : Mat) (g : IRect) :
    allFree m g = true ↔ ∀ r c, g.contains r c = true → m r c = false := by
  simp only [allFree, List.all_eq_true, List.mem_range'_1, rowFree_iff, IRect.contains_iff]
  constructor
  · intro h r c ⟨h1, h2, h3, h4⟩; exact h r ⟨h1, by omega⟩ c h3 h4
  · intro h r hr c h3 h4; exact h r c ⟨hr.1, by omega, h3, h4⟩

theorem noFree_iff (nr nc : Nat) (m : Mat) :
    noFree nr nc m = true ↔ ∀ r c, r < nr → c < nc → m r c = true := by
  simp only [noFree, List.all_eq_true, List.mem_range]
  constructor
  · intro h r c hr hc; exact h r hr c hc
  · intro h r hr c hc; exact h r c hr hc

@[simp] theorem occupy_apply (m : Mat) (g : IRect) (r c : Nat) :
    occupy m g r c = (m r c || g.contains r c) := rfl

/-- two index rectangles share no cell. -/
def CellDisjoint (g h : IRect) : Prop := ∀ r c, ¬ (g.contains r c = true ∧ h.contains r c = true)

/-! ### A.2 the cover relation -/

theorem coverRun_spec (nr nc : Nat) : ∀ (picks : List IRect) (m m' : Mat), coverRun nr nc m picks = some m' →
    (∀ g ∈ picks, g.wf nr nc = true) ∧
    (∀ g ∈ picks, ∀ r c, g.contains r c = true → m r c = false) ∧
    picks.Pairwise CellDisjoint ∧
    (∀ r c, m' r c = (m r c || picks.any fun g => g.contains r c)) := by
  intro picks
  induction picks with
  | nil =>
    intro m m' h
    simp only [coverRun, Option.some.injEq] at h
    subst h
    simp
  | cons g t ih =>
    intro m m' h
    simp only [coverRun] at h
    split at h
    · rename_i hg
      simp only [Bool.and_eq_true] at hg
      obtain ⟨i1, i2, i3, i4⟩ := ih _ _ h
      have hfree := (allFree_iff m g).mp hg.2
      refine ⟨?_, ?_, ?_, ?_⟩
      · intro x hx
        rcases List.mem_cons.mp hx with rfl | hx
        · exact hg.1
        · exact i1 x hx
      · intro x hx r c hc
        rcases List.mem_cons.mp hx with rfl | hx
        · exact hfree r c hc
        · have := i2 x hx r c hc
          simp only [occupy_apply, Bool.or_eq_false_iff] at this
          exact this.1
      · refine List.pairwise_cons.mpr ⟨?_, i3⟩
        intro x hx r c ⟨h1, h2⟩
        have := i2 x hx r c h2
        simp only [occupy_apply, Bool.or_eq_false_iff] at this
        rw [h1] at this
        exact Bool.noConfusion this.2
      · intro r c
        rw [i4 r c]
        simp only [occupy_apply, List.any_cons, Bool.or_assoc]
    · simp at h

/-- the relational reading: `coverRun` succeeds exactly along chains of `CoverStep`s. -/
theorem coverRun_cons_iff (nr nc : Nat) (m m' : Mat) (g : IRect) (t : List IRect) :
    coverRun nr nc m (g :: t) = some m' ↔ ∃ m1, CoverStep nr nc m g m1 ∧ coverRun nr nc m1 t = some m' := by
  simp only [coverRun, CoverStep]
  constructor
  · intro h
    split at h
    · rename_i hg
      simp only [Bool.and_eq_true] at hg
      exact ⟨_, ⟨hg.1, hg.2, rfl⟩, h⟩
    · simp at h
  · rintro ⟨m1, ⟨h1, h2, rfl⟩, h3⟩
    simp [h1, h2, h3]

/-- number of free cells of the `nr × nc` matrix. -/
def freeCount (nr nc : Nat) (m : Mat) : Nat :=
  ((Finset.range nr ×ˢ Finset.range nc).filter fun rc => m rc.1 rc.2 = false).card

theorem freeCount_occupy_lt (nr nc : Nat) (m : Mat) (g : IRect) (hw : g.wf nr nc = true) (hf : allFree m g = true) :
    freeCount nr nc (occupy m g) < freeCount nr nc m := by
  unfold freeCount
  apply Finset.card_lt_card
  rw [Finset.ssubset_iff_of_subset]
  · obtain ⟨w1, w2, w3, w4⟩ := (IRect.wf_iff g nr nc).mp hw
    have hc : g.contains g.rmin g.cmin = true := (IRect.contains_iff _ _ _).mpr ⟨le_refl _, w1, le_refl _, w3⟩
    refine ⟨(g.rmin, g.cmin), ?_, ?_⟩
    · simp only [Finset.mem_filter, Finset.mem_product, Finset.mem_range]
      exact ⟨⟨by omega, by omega⟩, (allFree_iff m g).mp hf _ _ hc⟩
    · simp [hc]
  · intro x hx
    simp only [Finset.mem_filter, occupy_apply, Bool.or_eq_false_iff] at hx ⊢
    exact ⟨hx.1, hx.2.1⟩

theorem coverRun_length (nr nc : Nat) : ∀ (picks : List IRect) (m m' : Mat), coverRun nr nc m picks = some m' →
    picks.length + freeCount nr nc m' ≤ freeCount nr nc m := by
  intro picks
  induction picks with
  | nil => intro m m' h; simp only [coverRun, Option.some.injEq] at h; subst h; simp
  | cons g t ih =>
    intro m m' h
    obtain ⟨m1, ⟨h1, h2, rfl⟩, h3⟩ := (coverRun_cons_iff nr nc m m' g t).mp h
    have := ih _ _ h3
    have := freeCount_occupy_lt nr nc m g h1 h2
    simp only [List.length_cons]
    omega

theorem freeCount_le (nr nc : Nat) (m : Mat) : freeCount nr nc m ≤ nr * nc := by
  unfold freeCount
  calc _ ≤ (Finset.range nr ×ˢ Finset.range nc).card := Finset.card_filter_le _ _
    _ = nr * nc := by simp

/-! ### A.3 candidates: the set kept by the loop of `_calculate_ground_rectangles` -/

/-- `L` is (as a set) the set of all non-empty index rectangles of the matrix whose cells are all free. -/
def CandsOf (nr nc : Nat) (m : Mat) (L : List IRect) : Prop :=
  ∀ g, g ∈ L ↔ (g.wf nr nc = true ∧ allFree m g = true)

theorem allFree_occupy (m : Mat) (g x : IRect) :
    allFree (occupy m g) x = true ↔ (allFree m x = true ∧ CellDisjoint x g) := by
  simp only [allFree_iff, occupy_apply, Bool.or_eq_false_iff, CellDisjoint]
  constructor
  · intro h
    exact ⟨fun r c hc => (h r c hc).1, fun r c ⟨h1, h2⟩ => by have := (h r c h1).2; rw [h2] at this; exact Bool.noConfusion this⟩
  · rintro ⟨h1, h2⟩ r c hc
    refine ⟨h1 r c hc, ?_⟩
    by_contra hne
    exact h2 r c ⟨hc, by simpa using hne⟩

/-- "Remove the rectangles touching the occupied cells" keeps exactly the candidates of the new matrix. -/
theorem candsOf_filter (nr nc : Nat) (m : Mat) (L : List IRect) (g : IRect) (h : CandsOf nr nc m L) :
    CandsOf nr nc (occupy m g) (L.filter fun x => allFree (occupy m g) x) := by
  intro x
  simp only [List.mem_filter, h x]
  constructor
  · rintro ⟨⟨h1, _⟩, h3⟩; exact ⟨h1, h3⟩
  · rintro ⟨h1, h3⟩; exact ⟨⟨h1, ((allFree_occupy m g x).mp h3).1⟩, h3⟩

/-- … and the picked rectangle itself is removed, so the candidate set strictly shrinks (termination). -/
theorem cands_shrink (nr nc : Nat) (m : Mat) (L : List IRect) (g : IRect) (h : CandsOf nr nc m L) (hg : g ∈ L) :
    (L.filter fun x => allFree (occupy m g) x).length < L.length := by
  apply List.length_filter_lt_length_iff_exists.mpr
  refine ⟨g, hg, ?_⟩
  obtain ⟨hw, _⟩ := (h g).mp hg
  obtain ⟨w1, w2, w3, w4⟩ := (IRect.wf_iff g nr nc).mp hw
  have hc : g.contains g.rmin g.cmin = true := (IRect.contains_iff _ _ _).mpr ⟨le_refl _, w1, le_refl _, w3⟩
  intro hall
  have := ((allFree_occupy m g g).mp hall).2 _ _ ⟨hc, hc⟩
  exact this

/-- the loop exits (`len(all_rectangles) == 0`) exactly when no cell is free. -/
theorem cands_nil_iff (nr nc : Nat) (m : Mat) (L : List IRect) (h : CandsOf nr nc m L) :
    L = [] ↔ noFree nr nc m = true := by
  rw [noFree_iff]
  constructor
  · intro hL r c hr hc
    by_contra hm
    have hm' : m r c = false := by simpa using hm
    have : (⟨r, r, c, c⟩ : IRect) ∈ L := by
      rw [h]
      refine ⟨(IRect.wf_iff _ _ _).mpr ⟨le_refl _, hr, le_refl _, hc⟩, (allFree_iff _ _).mpr ?_⟩
      intro r' c' hc'
      obtain ⟨a, b, c1, d⟩ := (IRect.contains_iff _ _ _).mp hc'
      have e1 : r' = r := by simp only at a b; omega
      have e2 : c' = c := by simp only at c1 d; omega
      rw [e1, e2]; exact hm'
    rw [hL] at this
    exact List.not_mem_nil this
  · intro hfull
    apply List.eq_nil_iff_forall_not_mem.mpr
    intro g hg
    obtain ⟨hw, hf⟩ := (h g).mp hg
    obtain ⟨w1, w2, w3, w4⟩ := (IRect.wf_iff g nr nc).mp hw
    have hc : g.contains g.rmin g.cmin = true := (IRect.contains_iff _ _ _).mpr ⟨le_refl _, w1, le_refl _, w3⟩
    have := (allFree_iff m g).mp hf _ _ hc
    rw [hfull g.rmin g.cmin (by omega) (by omega)] at this
    exact Bool.noConfusion this


/-- some admissible complete pick sequence always exists (take any candidate, filter, repeat). -/
theorem exists_cover (nr nc : Nat) : ∀ (n : Nat) (m : Mat) (L : List IRect), L.length ≤ n → CandsOf nr nc m L →
    ∃ picks, coverAccept nr nc m picks = true := by
  intro n
  induction n with
  | zero =>
    intro m L hlen hL
    have : L = [] := List.length_eq_zero_iff.mp (by omega)
    exact ⟨[], by simpa [coverAccept, coverRun] using (cands_nil_iff nr nc m L hL).mp this⟩
  | succ k ih =>
    intro m L hlen hL
    cases L with
    | nil => exact ⟨[], by simpa [coverAccept, coverRun] using (cands_nil_iff nr nc m [] hL).mp rfl⟩
    | cons g t =>
      have hg : g ∈ g :: t := List.mem_cons_self
      obtain ⟨hw, hf⟩ := (hL g).mp hg
      have hlt := cands_shrink nr nc m (g :: t) g hL hg
      obtain ⟨picks, hp⟩ := ih (occupy m g) _ (by simp only [List.length_cons] at hlen hlt; omega) (candsOf_filter nr nc m (g :: t) g hL)
      refine ⟨g :: picks, ?_⟩
      unfold coverAccept at hp ⊢
      simp only [coverRun, hw, hf, Bool.and_self, ↓reduceIte]
      exact hp

/-! ### A.4 the BFS of `_expand_rectangle` -/

/-- the rectangles `_expand_rectangle` is after: top-left cell `(r0, c0)`, inside the matrix, all free. -/
def Good (m : Mat) (nr nc r0 c0 : Nat) (g : IRect) : Prop :=
  g.rmin = r0 ∧ g.cmin = c0 ∧ g.wf nr nc = true ∧ allFree m g = true

theorem good_growRow_iff {m : Mat} {nr nc r0 c0 : Nat} {g : IRect} (hg : Good m nr nc r0 c0 g) :
    Good m nr nc r0 c0 g.growRow ↔ (g.rmax + 1 < nr ∧ rowFree m (g.rmax + 1) g.cmin g.cmax = true) := by
  obtain ⟨e1, e2, hw, hf⟩ := hg
  obtain ⟨w1, w2, w3, w4⟩ := (IRect.wf_iff g nr nc).mp hw
  have hf' := (allFree_iff m g).mp hf
  simp only [Good, IRect.growRow, IRect.wf_iff, allFree_iff, IRect.contains_iff, rowFree_iff]
  constructor
  · rintro ⟨_, _, ⟨_, h2, _, _⟩, h3⟩
    exact ⟨h2, fun j h4 h5 => h3 _ _ ⟨by omega, le_refl _, h4, h5⟩⟩
  · rintro ⟨h1, h2⟩
    refine ⟨e1, e2, ⟨by omega, h1, w3, w4⟩, ?_⟩
    intro r c ⟨a1, a2, a3, a4⟩
    by_cases hr : r ≤ g.rmax
    · exact hf' r c ((IRect.contains_iff _ _ _).mpr ⟨a1, hr, a3, a4⟩)
    · have : r = g.rmax + 1 := by omega
      rw [this]; exact h2 c a3 a4

theorem good_growCol_iff {m : Mat} {nr nc r0 c0 : Nat} {g : IRect} (hg : Good m nr nc r0 c0 g) :
    Good m nr nc r0 c0 g.growCol ↔ (g.cmax + 1 < nc ∧ colFree m (g.cmax + 1) g.rmin g.rmax = true) := by
  obtain ⟨e1, e2, hw, hf⟩ := hg
  obtain ⟨w1, w2, w3, w4⟩ := (IRect.wf_iff g nr nc).mp hw
  have hf' := (allFree_iff m g).mp hf
  simp only [Good, IRect.growCol, IRect.wf_iff, allFree_iff, IRect.contains_iff, colFree_iff]
  constructor
  · rintro ⟨_, _, ⟨_, _, _, h2⟩, h3⟩
    exact ⟨h2, fun j h4 h5 => h3 _ _ ⟨h4, h5, by omega, le_refl _⟩⟩
  · rintro ⟨h1, h2⟩
    refine ⟨e1, e2, ⟨w1, w2, by omega, h1⟩, ?_⟩
    intro r c ⟨a1, a2, a3, a4⟩
    by_cases hc : c ≤ g.cmax
    · exact hf' r c ((IRect.contains_iff _ _ _).mpr ⟨a1, a2, a3, hc⟩)
    · have : c = g.cmax + 1 := by omega
      rw [this]; exact h2 r a1 a2

/-- invariant of the `while pending` loop; `hole` is the element just popped (its successors are being added). -/
structure BfsInv (m : Mat) (nr nc r0 c0 : Nat) (pending seen : List IRect) (hole : Option IRect) : Prop where
  good : ∀ g ∈ seen, Good m nr nc r0 c0 g
  sub : ∀ g ∈ pending, g ∈ seen
  nodupS : seen.Nodup
  nodupP : pending.Nodup
  start : (⟨r0, r0, c0, c0⟩ : IRect) ∈ seen
  closed : ∀ g ∈ seen, g ∈ pending ∨ some g = hole ∨
      ((Good m nr nc r0 c0 g.growRow → g.growRow ∈ seen) ∧ (Good m nr nc r0 c0 g.growCol → g.growCol ∈ seen))

theorem push_sub (valid : Bool) (x : IRect) (ps : List IRect × List IRect) :
    (∀ g ∈ ps.2, g ∈ (push valid x ps).2) ∧ (valid = true → x ∈ (push valid x ps).2) := by
  unfold push
  split
  · rename_i h
    exact ⟨fun g hg => List.mem_append_left _ hg, fun _ => List.mem_append_right _ (List.mem_singleton.mpr rfl)⟩
  · rename_i h
    refine ⟨fun g hg => hg, fun hv => ?_⟩
    simp only [hv, Bool.true_and, Bool.not_eq_true', List.contains_eq_mem, decide_eq_false_iff_not, not_not] at h
    exact h

theorem push_length (valid : Bool) (x : IRect) (ps : List IRect × List IRect) :
    ∃ k, (push valid x ps).1.length = ps.1.length + k ∧ (push valid x ps).2.length = ps.2.length + k := by
  unfold push
  split
  · exact ⟨1, by simp, by simp⟩
  · exact ⟨0, rfl, rfl⟩

theorem push_inv {m : Mat} {nr nc r0 c0 : Nat} {pending seen : List IRect} {hole : Option IRect}
    (valid : Bool) (x : IRect) (inv : BfsInv m nr nc r0 c0 pending seen hole)
    (hx : valid = true → Good m nr nc r0 c0 x) :
    BfsInv m nr nc r0 c0 (push valid x (pending, seen)).1 (push valid x (pending, seen)).2 hole := by
  unfold push
  split
  · rename_i h
    simp only [Bool.and_eq_true, Bool.not_eq_true', List.contains_eq_mem, decide_eq_false_iff_not] at h
    obtain ⟨hv, hns⟩ := h
    have hnp : x ∉ pending := fun hp => hns (inv.sub x hp)
    refine ⟨?_, ?_, ?_, ?_, ?_, ?_⟩
    · intro g hg
      rcases List.mem_append.mp hg with h1 | h1
      · exact inv.good g h1
      · rw [List.mem_singleton.mp h1]; exact hx hv
    · intro g hg
      rcases List.mem_append.mp hg with h1 | h1
      · exact List.mem_append_left _ (inv.sub g h1)
      · exact List.mem_append_right _ h1
    · exact List.nodup_append.mpr ⟨inv.nodupS, List.nodup_singleton x, fun a ha b hb => by
        rw [List.mem_singleton.mp hb]; intro e; exact hns (e ▸ ha)⟩
    · exact List.nodup_append.mpr ⟨inv.nodupP, List.nodup_singleton x, fun a ha b hb => by
        rw [List.mem_singleton.mp hb]; intro e; exact hnp (e ▸ ha)⟩
    · exact List.mem_append_left _ inv.start
    · intro g hg
      rcases List.mem_append.mp hg with h1 | h1
      · rcases inv.closed g h1 with c1 | c1 | c1
        · exact Or.inl (List.mem_append_left _ c1)
        · exact Or.inr (Or.inl c1)
        · exact Or.inr (Or.inr ⟨fun hG => List.mem_append_left _ (c1.1 hG), fun hG => List.mem_append_left _ (c1.2 hG)⟩)
      · exact Or.inl (List.mem_append_right _ h1)
  · exact inv

theorem good_length_le {m : Mat} {nr nc r0 c0 : Nat} (s : List IRect) (hg : ∀ g ∈ s, Good m nr nc r0 c0 g)
    (hn : s.Nodup) : s.length ≤ nr * nc := by
  have hinj : ∀ a ∈ s, ∀ b ∈ s, (fun g : IRect => (g.rmax, g.cmax)) a = (fun g : IRect => (g.rmax, g.cmax)) b → a = b := by
    intro a ha b hb hab
    obtain ⟨a1, a2, _, _⟩ := hg a ha
    obtain ⟨b1, b2, _, _⟩ := hg b hb
    simp only [Prod.mk.injEq] at hab
    cases a; cases b; simp_all
  have hnd : (s.map fun g : IRect => (g.rmax, g.cmax)).Nodup := List.Nodup.map_on hinj hn
  have hsub : (s.map fun g : IRect => (g.rmax, g.cmax)).toFinset ⊆ Finset.range nr ×ˢ Finset.range nc := by
    intro p hp
    simp only [List.mem_toFinset, List.mem_map] at hp
    obtain ⟨g, hgs, rfl⟩ := hp
    obtain ⟨_, _, hw, _⟩ := hg g hgs
    obtain ⟨w1, w2, w3, w4⟩ := (IRect.wf_iff g nr nc).mp hw
    simp only [Finset.mem_product, Finset.mem_range]
    exact ⟨w2, w4⟩
  have := Finset.card_le_card hsub
  rw [List.toFinset_card_of_nodup hnd, List.length_map] at this
  simpa using this

theorem closed_complete {m : Mat} {nr nc r0 c0 : Nat} {seen : List IRect}
    (inv : BfsInv m nr nc r0 c0 [] seen none) :
    ∀ (n : Nat) (g : IRect), (g.rmax - r0) + (g.cmax - c0) = n → Good m nr nc r0 c0 g → g ∈ seen := by
  intro n
  induction n with
  | zero =>
    intro g hn hg
    obtain ⟨e1, e2, hw, _⟩ := hg
    obtain ⟨w1, w2, w3, w4⟩ := (IRect.wf_iff g nr nc).mp hw
    have : g = ⟨r0, r0, c0, c0⟩ := by
      cases g; simp only [IRect.mk.injEq] at *; omega
    rw [this]; exact inv.start
  | succ k ih =>
    intro g hn hg
    obtain ⟨e1, e2, hw, hf⟩ := hg
    obtain ⟨w1, w2, w3, w4⟩ := (IRect.wf_iff g nr nc).mp hw
    have hf' := (allFree_iff m g).mp hf
    by_cases hr : r0 < g.rmax
    · let g' : IRect := ⟨g.rmin, g.rmax - 1, g.cmin, g.cmax⟩
      have hg' : Good m nr nc r0 c0 g' := by
        refine ⟨e1, e2, (IRect.wf_iff _ _ _).mpr ⟨by simp only [g']; omega, by simp only [g']; omega, w3, w4⟩, (allFree_iff _ _).mpr ?_⟩
        intro r c hc
        obtain ⟨a1, a2, a3, a4⟩ := (IRect.contains_iff _ _ _).mp hc
        exact hf' r c ((IRect.contains_iff _ _ _).mpr ⟨a1, by simp only [g'] at a2; omega, a3, a4⟩)
      have hmem := ih g' (by simp only [g']; omega) hg'
      have hgrow : g'.growRow = g := by
        show (⟨g.rmin, g.rmax - 1 + 1, g.cmin, g.cmax⟩ : IRect) = g
        have : g.rmax - 1 + 1 = g.rmax := by omega
        rw [this]
      rcases inv.closed g' hmem with c1 | c1 | c1
      · exact absurd c1 List.not_mem_nil
      · exact absurd c1 (by simp)
      · rw [← hgrow]; exact c1.1 (by rw [hgrow]; exact ⟨e1, e2, hw, hf⟩)
    · have hc : c0 < g.cmax := by omega
      let g' : IRect := ⟨g.rmin, g.rmax, g.cmin, g.cmax - 1⟩
      have hg' : Good m nr nc r0 c0 g' := by
        refine ⟨e1, e2, (IRect.wf_iff _ _ _).mpr ⟨w1, w2, by simp only [g']; omega, by simp only [g']; omega⟩, (allFree_iff _ _).mpr ?_⟩
        intro r c hc
        obtain ⟨a1, a2, a3, a4⟩ := (IRect.contains_iff _ _ _).mp hc
        exact hf' r c ((IRect.contains_iff _ _ _).mpr ⟨a1, a2, a3, by simp only [g'] at a4; omega⟩)
      have hmem := ih g' (by simp only [g']; omega) hg'
      have hgrow : g'.growCol = g := by
        show (⟨g.rmin, g.rmax, g.cmin, g.cmax - 1 + 1⟩ : IRect) = g
        have : g.cmax - 1 + 1 = g.cmax := by omega
        rw [this]
      rcases inv.closed g' hmem with c1 | c1 | c1
      · exact absurd c1 List.not_mem_nil
      · exact absurd c1 (by simp)
      · rw [← hgrow]; exact c1.2 (by rw [hgrow]; exact ⟨e1, e2, hw, hf⟩)

/-- the loop terminates within the fuel and returns exactly the `Good` rectangles. -/
theorem bfs_spec (m : Mat) (nr nc r0 c0 : Nat) : ∀ (f : Nat) (pending seen : List IRect),
    BfsInv m nr nc r0 c0 pending seen none → (nr * nc - seen.length) + pending.length ≤ f →
    ∃ out, bfs m nr nc f pending seen = some out ∧ out.Nodup ∧ ∀ g, g ∈ out ↔ Good m nr nc r0 c0 g := by
  intro f
  induction f with
  | zero =>
    intro pending seen inv hm
    cases pending with
    | nil =>
      refine ⟨seen, by simp [bfs], inv.nodupS, fun g => ⟨inv.good g, fun hg => closed_complete inv _ g rfl hg⟩⟩
    | cons r rest => simp at hm
  | succ f ih =>
    intro pending seen inv hm
    cases pending with
    | nil =>
      refine ⟨seen, by simp [bfs], inv.nodupS, fun g => ⟨inv.good g, fun hg => closed_complete inv _ g rfl hg⟩⟩
    | cons r rest =>
      have hrs : r ∈ seen := inv.sub r List.mem_cons_self
      have hgr := inv.good r hrs
      have hnd := List.nodup_cons.mp inv.nodupP
      -- the state after the pop
      have inv0 : BfsInv m nr nc r0 c0 rest seen (some r) := by
        refine ⟨inv.good, fun g hg => inv.sub g (List.mem_cons_of_mem _ hg), inv.nodupS, hnd.2, inv.start, ?_⟩
        intro g hg
        rcases inv.closed g hg with c1 | c1 | c1
        · rcases List.mem_cons.mp c1 with rfl | c1
          · exact Or.inr (Or.inl rfl)
          · exact Or.inl c1
        · exact absurd c1 (by simp)
        · exact Or.inr (Or.inr c1)
      let v1 : Bool := decide (r.rmax + 1 < nr) && rowFree m (r.rmax + 1) r.cmin r.cmax
      let v2 : Bool := decide (r.cmax + 1 < nc) && colFree m (r.cmax + 1) r.rmin r.rmax
      have hv1 : v1 = true ↔ Good m nr nc r0 c0 r.growRow := by
        rw [good_growRow_iff hgr]; simp [v1]
      have hv2 : v2 = true ↔ Good m nr nc r0 c0 r.growCol := by
        rw [good_growCol_iff hgr]; simp [v2]
      have inv1 := push_inv v1 r.growRow inv0 hv1.mp
      have inv2 := push_inv v2 r.growCol inv1 hv2.mp
      obtain ⟨k1, l1, l2⟩ := push_length v1 r.growRow (rest, seen)
      obtain ⟨k2, l3, l4⟩ := push_length v2 r.growCol (push v1 r.growRow (rest, seen))
      have s1 := push_sub v1 r.growRow (rest, seen)
      have s2 := push_sub v2 r.growCol (push v1 r.growRow (rest, seen))
      -- close the hole
      have inv3 : BfsInv m nr nc r0 c0 (push v2 r.growCol (push v1 r.growRow (rest, seen))).1
          (push v2 r.growCol (push v1 r.growRow (rest, seen))).2 none := by
        refine ⟨inv2.good, inv2.sub, inv2.nodupS, inv2.nodupP, inv2.start, ?_⟩
        intro g hg
        rcases inv2.closed g hg with c1 | c1 | c1
        · exact Or.inl c1
        · simp only [Option.some.injEq] at c1
          subst c1
          exact Or.inr (Or.inr ⟨fun hG => s2.1 _ (s1.2 (hv1.mpr hG)), fun hG => s2.2 (hv2.mpr hG)⟩)
        · exact Or.inr (Or.inr c1)
      have hlen := good_length_le _ inv3.good inv3.nodupS
      have hmeas : (nr * nc - (push v2 r.growCol (push v1 r.growRow (rest, seen))).2.length) +
          (push v2 r.growCol (push v1 r.growRow (rest, seen))).1.length ≤ f := by
        simp only [List.length_cons] at hm
        simp only at l1 l2
        omega
      obtain ⟨out, h1, h2, h3⟩ := ih _ _ inv3 hmeas
      exact ⟨out, by simpa [bfs] using h1, h2, h3⟩

theorem expand_spec (m : Mat) (nr nc r c : Nat) (hr : r < nr) (hc : c < nc) (hfree : m r c = false) :
    ∃ out, expand m nr nc r c = some out ∧ out.Nodup ∧ ∀ g, g ∈ out ↔ Good m nr nc r c g := by
  unfold expand
  apply bfs_spec m nr nc r c
  · have hgood : Good m nr nc r c ⟨r, r, c, c⟩ := by
      refine ⟨rfl, rfl, (IRect.wf_iff _ _ _).mpr ⟨le_refl _, hr, le_refl _, hc⟩, (allFree_iff _ _).mpr ?_⟩
      intro r' c' hc'
      obtain ⟨a, b, c1, d⟩ := (IRect.contains_iff _ _ _).mp hc'
      have e1 : r' = r := by simp only at a b; omega
      have e2 : c' = c := by simp only at c1 d; omega
      rw [e1, e2]; exact hfree
    refine ⟨?_, fun g hg => hg, List.nodup_singleton _, List.nodup_singleton _, List.mem_singleton.mpr rfl, ?_⟩
    · intro g hg; rw [List.mem_singleton.mp hg]; exact hgood
    · intro g hg; exact Or.inl hg
  · simp only [List.length_singleton]; omega

/-! ### A.5 `_find_all_ground_rectangles` -/

theorem mem_cellList (nr nc : Nat) (rc : Nat × Nat) : rc ∈ cellList nr nc ↔ rc.1 < nr ∧ rc.2 < nc := by
  simp only [cellList, List.mem_flatMap, List.mem_range, List.mem_map]
  constructor
  · rintro ⟨r, hr, c, hc, rfl⟩; exact ⟨hr, hc⟩
  · rintro ⟨h1, h2⟩; exact ⟨rc.1, h1, rc.2, h2, rfl⟩

/-- the step function of the fold in `allFreeRects`. -/
def candStep (m : Mat) (nr nc : Nat) (acc : List IRect) (rc : Nat × Nat) : Option (List IRect) :=
  if m rc.1 rc.2 then some acc else
    match expand m nr nc rc.1 rc.2 with
    | some more => some (acc ++ more.filter fun g => !acc.contains g)
    | none => none

theorem allFreeRects_eq (m : Mat) (nr nc : Nat) : allFreeRects m nr nc = (cellList nr nc).foldlM (candStep m nr nc) [] := rfl

theorem foldCands_spec (m : Mat) (nr nc : Nat) : ∀ (cells : List (Nat × Nat)) (acc : List IRect) (P : Nat × Nat → Prop),
    (∀ rc ∈ cells, rc.1 < nr ∧ rc.2 < nc) →
    (∀ g, g ∈ acc ↔ (g.wf nr nc = true ∧ allFree m g = true ∧ P (g.rmin, g.cmin))) →
    ∃ out, cells.foldlM (candStep m nr nc) acc = some out ∧
      ∀ g, g ∈ out ↔ (g.wf nr nc = true ∧ allFree m g = true ∧ (P (g.rmin, g.cmin) ∨ (g.rmin, g.cmin) ∈ cells)) := by
  intro cells
  induction cells with
  | nil =>
    intro acc P _ hacc
    exact ⟨acc, rfl, fun g => by simp [hacc g]⟩
  | cons rc t ih =>
    intro acc P hin hacc
    have hrc := hin rc List.mem_cons_self
    have hin' : ∀ x ∈ t, x.1 < nr ∧ x.2 < nc := fun x hx => hin x (List.mem_cons_of_mem _ hx)
    simp only [List.foldlM_cons]
    by_cases hm : m rc.1 rc.2 = true
    · have hstep : candStep m nr nc acc rc = some acc := by simp [candStep, hm]
      rw [hstep]
      obtain ⟨out, h1, h2⟩ := ih acc (fun x => P x ∨ x = rc) hin' (by
        intro g
        rw [hacc g]
        constructor
        · rintro ⟨a, b, c⟩; exact ⟨a, b, Or.inl c⟩
        · rintro ⟨a, b, c | c⟩
          · exact ⟨a, b, c⟩
          · exfalso
            obtain ⟨w1, w2, w3, w4⟩ := (IRect.wf_iff g nr nc).mp a
            have := (allFree_iff m g).mp b g.rmin g.cmin ((IRect.contains_iff _ _ _).mpr ⟨le_refl _, w1, le_refl _, w3⟩)
            rw [← c] at hm; simp only at hm; rw [hm] at this; exact Bool.noConfusion this)
      refine ⟨out, by simpa using h1, fun g => ?_⟩
      rw [h2 g]
      simp only [List.mem_cons]
      constructor
      · rintro ⟨a, b, (c | c) | c⟩
        · exact ⟨a, b, Or.inl c⟩
        · exact ⟨a, b, Or.inr (Or.inl c)⟩
        · exact ⟨a, b, Or.inr (Or.inr c)⟩
      · rintro ⟨a, b, c | c | c⟩
        · exact ⟨a, b, Or.inl (Or.inl c)⟩
        · exact ⟨a, b, Or.inl (Or.inr c)⟩
        · exact ⟨a, b, Or.inr c⟩
    · have hm' : m rc.1 rc.2 = false := by simpa using hm
      obtain ⟨more, e1, _, e3⟩ := expand_spec m nr nc rc.1 rc.2 hrc.1 hrc.2 hm'
      have hstep : candStep m nr nc acc rc = some (acc ++ more.filter fun g => !acc.contains g) := by
        simp [candStep, hm', e1]
      rw [hstep]
      obtain ⟨out, h1, h2⟩ := ih (acc ++ more.filter fun g => !acc.contains g) (fun x => P x ∨ x = rc) hin' (by
        intro g
        simp only [List.mem_append, List.mem_filter, hacc g, e3 g, Good, Bool.not_eq_true', List.contains_eq_mem,
          decide_eq_false_iff_not]
        constructor
        · rintro (⟨a, b, c⟩ | ⟨⟨a1, a2, a3, a4⟩, _⟩)
          · exact ⟨a, b, Or.inl c⟩
          · exact ⟨a3, a4, Or.inr (Prod.ext a1 a2)⟩
        · rintro ⟨a, b, c | c⟩
          · exact Or.inl ⟨a, b, c⟩
          · by_cases hp : P (g.rmin, g.cmin)
            · exact Or.inl ⟨a, b, hp⟩
            · refine Or.inr ⟨⟨by rw [← c], by rw [← c], a, b⟩, ?_⟩
              rintro ⟨_, _, hp'⟩; exact hp hp')
      refine ⟨out, by simpa using h1, fun g => ?_⟩
      rw [h2 g]
      simp only [List.mem_cons]
      constructor
      · rintro ⟨a, b, (c | c) | c⟩
        · exact ⟨a, b, Or.inl c⟩
        · exact ⟨a, b, Or.inr (Or.inl c)⟩
        · exact ⟨a, b, Or.inr (Or.inr c)⟩
      · rintro ⟨a, b, c | c | c⟩
        · exact ⟨a, b, Or.inl (Or.inl c)⟩
        · exact ⟨a, b, Or.inl (Or.inr c)⟩
        · exact ⟨a, b, Or.inr c⟩

/-- `_find_all_ground_rectangles` returns (as a set) all the non-empty all-free index rectangles. -/
theorem allFreeRects_spec (m : Mat) (nr nc : Nat) : ∃ L, allFreeRects m nr nc = some L ∧ CandsOf nr nc m L := by
  rw [allFreeRects_eq]
  obtain ⟨out, h1, h2⟩ := foldCands_spec m nr nc (cellList nr nc) [] (fun _ => False)
    (fun rc hrc => (mem_cellList nr nc rc).mp hrc) (by intro g; simp)
  refine ⟨out, h1, fun g => ?_⟩
  rw [h2 g]
  constructor
  · rintro ⟨a, b, _⟩; exact ⟨a, b⟩
  · rintro ⟨a, b⟩
    obtain ⟨w1, w2, w3, w4⟩ := (IRect.wf_iff g nr nc).mp a
    exact ⟨a, b, Or.inr ((mem_cellList nr nc _).mpr ⟨by simp only; omega, by simp only; omega⟩)⟩

/-! ## Part B: scalars in an ordered field -/

section field
variable {α : Type} [Field α] [LinearOrder α] [IsStrictOrderedRing α]
open Rect

/-! ### B.1 the self-check -/

theorem pyAbs_eq (x : α) : pyAbs x = |x| := by
  unfold pyAbs
  simp only [zero_eq]
  split
  · rw [abs_of_neg ‹_›]
  · rw [abs_of_nonneg (not_lt.mp ‹_›)]

theorem neumaier_fold (l : List α) : ∀ f : α, l.foldl neumaierStep (f, 0) = (f + l.sum, 0) := by
  induction l with
  | nil => intro f; simp
  | cons x t ih =>
    intro f
    have hs : neumaierStep (f, 0) x = (f + x, 0) := by
      unfold neumaierStep
      split <;> (simp only [Prod.mk.injEq, true_and]; ring)
    rw [List.foldl_cons, hs, ih, List.sum_cons, add_assoc]

/-- in exact arithmetic the compensated `sum()` is the sum. -/
theorem pySum_eq (l : List α) : pySum l = l.sum := by
  cases l with
  | nil => simp [pySum]
  | cons x t =>
    simp only [pySum, zero_eq, neumaier_fold, zero_add, ↓reduceIte, List.sum_cons]

theorem mem_pairsOf {β : Type} (l : List β) (p : β × β → Bool) :
    (pairsOf l).all p = true ↔ l.Pairwise (fun a b => p (a, b) = true) := by
  induction l with
  | nil => simp [pairsOf]
  | cons x t ih =>
    simp only [pairsOf, List.all_append, Bool.and_eq_true, List.all_map, List.pairwise_cons, ih, List.all_eq_true]
    rfl

theorem dieRect_sides (W H : α) :
    (dieRect W H).xmin = 0 ∧ (dieRect W H).xmax = W ∧ (dieRect W H).ymin = 0 ∧ (dieRect W H).ymax = H := by
  simp only [dieRect, xmin, xmax, ymin, ymax, two_eq]
  refine ⟨by ring, by ring, by ring, by ring⟩

/-- what `_check_rectangles` (repaired) establishes. -/
theorem selfCheck_iff (ε : Eps α) (W H : α) (all : List (Rect α)) :
    selfCheck ε W H all = true ↔
      (∀ r ∈ all, -ε.die ≤ r.xmin ∧ r.xmax ≤ W + ε.die ∧ -ε.die ≤ r.ymin ∧ r.ymax ≤ H + ε.die) ∧
      all.Pairwise (fun a b => a.areaOverlap b ≤ ε.a) ∧
      |(all.map Rect.area).sum - W * H| < ε.die * max W H := by
  obtain ⟨d1, d2, d3, d4⟩ := dieRect_sides W H
  have hp : ((pairsOf all).all fun p => !overlap ε.a p.1 p.2) = true ↔ all.Pairwise (fun a b => a.areaOverlap b ≤ ε.a) := by
    rw [mem_pairsOf]; simp [overlap]
  have ha : (dieRect W H).area = W * H := rfl
  unfold selfCheck
  simp only []
  rw [Bool.and_eq_true, Bool.and_eq_true, hp, ha]
  simp only [List.all_eq_true, insideTol, d1, d2, d3, d4, Bool.and_eq_true, decide_eq_true_eq, pyAbs_eq, pySum_eq,
    pyMax_eq, zero_sub, and_assoc]

theorem mapE_ok {β γ : Type} (f : β → Except Err γ) : ∀ (l : List β) (rs : List γ),
    mapE f l = .ok rs ↔ List.Forall₂ (fun y r => f y = .ok r) l rs := by
  intro l
  induction l with
  | nil => intro rs; cases rs <;> simp [mapE]
  | cons x t ih =>
    intro rs
    simp only [mapE]
    cases hx : f x with
    | error e =>
      simp only [reduceCtorEq, false_iff]
      intro h; cases h with | cons h1 _ => rw [hx] at h1; cases h1
    | ok y =>
      simp only
      cases ht : mapE f t with
      | error e =>
        simp only [reduceCtorEq, false_iff]
        intro h; cases h with | cons _ h2 => rw [← ih] at h2; rw [ht] at h2; cases h2
      | ok ys =>
        simp only [Except.ok.injEq]
        constructor
        · rintro rfl; exact List.Forall₂.cons hx ((ih ys).mp ht)
        · intro h
          cases h with
          | cons h1 h2 =>
            rw [hx] at h1
            have := (ih _).mpr h2
            rw [ht] at this
            cases h1; cases this; rfl

theorem ofArr_toArr (nr nc : Nat) (m : Mat) : ofArr (toArr nr nc m) m = m := by
  funext r c
  simp only [ofArr, toArr]
  split
  · rename_i row hrow
    split
    · rename_i b hb
      simp only [Array.getElem?_ofFn] at hrow
      split at hrow
      · simp only [Option.some.injEq] at hrow
        subst hrow
        simp only [Array.getElem?_ofFn] at hb
        split at hb
        · simp only [Option.some.injEq] at hb; exact hb.symm
        · cases hb
      · cases hrow
    · rfl
  · rfl

theorem mkGround_ok (xs ys : List α) (p : IRect) (r : Rect α) (h : mkGround xs ys p = .ok r) :
    r = pickRect xs ys p ∧ 0 < r.w ∧ 0 < r.h := by
  unfold mkGround at h
  simp only [zero_eq, Bool.and_eq_true, decide_eq_true_eq] at h
  split at h
  · rename_i hc
    simp only [Except.ok.injEq] at h
    subst h
    exact ⟨rfl, hc.1, hc.2⟩
  · cases h

/-- what a successful run of the constructor body establishes. -/
theorem dieCore_ok (ε : Eps α) (inp : DieIn α) (fixed : List (Rect α)) (picks : List IRect) (out : DieOut α)
    (h : dieCore ε inp fixed picks = .ok out) :
    coverAccept ((gridOf ε inp fixed).2.length - 1) ((gridOf ε inp fixed).1.length - 1)
      (occ (gridOf ε inp fixed).1 (gridOf ε inp fixed).2 (occRects inp fixed)) picks = true ∧
    List.Forall₂ (fun p r => mkGround (gridOf ε inp fixed).1 (gridOf ε inp fixed).2 p = .ok r) picks out.ground ∧
    out.W = inp.W ∧ out.H = inp.H ∧ out.specialized = specOf inp ∧ out.blockages = blockOf inp ∧ out.fixed = fixed ∧
    selfCheck ε inp.W inp.H out.all = true := by
  unfold dieCore at h
  simp only [ofArr_toArr] at h
  split at h
  · cases h
  · rename_i hacc
    split at h
    · cases h
    · rename_i ground hg
      split at h
      · rename_i hsc
        simp only [Except.ok.injEq] at h
        subst h
        refine ⟨by simpa using hacc, (mapE_ok _ _ _).mp hg, rfl, rfl, rfl, rfl, rfl, hsc⟩
      · cases h

theorem forall2_mem_right {β γ : Type} {R : β → γ → Prop} : ∀ {l1 : List β} {l2 : List γ}, List.Forall₂ R l1 l2 →
    ∀ b ∈ l2, ∃ a ∈ l1, R a b := by
  intro l1 l2 h
  induction h with
  | nil => intro b hb; cases hb
  | cons h1 _ ih =>
    intro b hb
    rcases List.mem_cons.mp hb with rfl | hb
    · exact ⟨_, List.mem_cons_self, h1⟩
    · obtain ⟨a, ha, hr⟩ := ih b hb
      exact ⟨a, List.mem_cons_of_mem _ ha, hr⟩

theorem mem_regions_all (inp : DieIn α) (fixed ground : List (Rect α)) (r : Rect α)
    (hr : r ∈ inp.regions ∨ r ∈ fixed) : r ∈ specOf inp ++ ground ++ blockOf inp ++ fixed := by
  rcases hr with hr | hr
  · by_cases hb : r.region = KW_BLOCKAGE
    · exact List.mem_append_left _ (List.mem_append_right _ (List.mem_filter.mpr ⟨hr, by simp [hb]⟩))
    · exact List.mem_append_left _ (List.mem_append_left _ (List.mem_append_left _ (List.mem_filter.mpr ⟨hr, by simp [hb]⟩)))
  · exact List.mem_append_right _ hr

theorem occRects_sublist (inp : DieIn α) (fixed ground : List (Rect α)) :
    List.Sublist (occRects inp fixed) (specOf inp ++ ground ++ blockOf inp ++ fixed) := by
  unfold occRects
  apply List.Sublist.append _ (List.Sublist.refl _)
  apply List.Sublist.append _ (List.Sublist.refl _)
  exact List.sublist_append_left _ _

/-! ### B.2 boxes on a strictly increasing grid -/

/-- `X` is strictly increasing on `0 … n`. -/
def MonoUpTo (X : Nat → α) (n : Nat) : Prop := ∀ i j, i < j → j ≤ n → X i < X j

theorem MonoUpTo.le {X : Nat → α} {n : Nat} (h : MonoUpTo X n) {i j : Nat} (hij : i ≤ j) (hj : j ≤ n) : X i ≤ X j := by
  rcases Nat.lt_or_eq_of_le hij with c | c
  · exact le_of_lt (h i j c hj)
  · rw [c]

theorem MonoUpTo.lt_iff {X : Nat → α} {n : Nat} (h : MonoUpTo X n) {i j : Nat} (hi : i ≤ n) (hj : j ≤ n) :
    X i < X j ↔ i < j := by
  constructor
  · intro hlt
    by_contra hc
    have := h.le (Nat.le_of_not_lt hc) hi
    exact absurd hlt (not_lt.mpr this)
  · intro hlt; exact h i j hlt hj

/-- the rectangle `R` is the union of the grid cells of the index rectangle `g`. -/
def IsGridBox (X Y : Nat → α) (R : Rect α) (g : IRect) : Prop :=
  R.xmin = X g.cmin ∧ R.xmax = X (g.cmax + 1) ∧ R.ymin = Y g.rmin ∧ R.ymax = Y (g.rmax + 1)

theorem pickRect_isGridBox (xs ys : List α) (g : IRect) : IsGridBox (at' xs) (at' ys) (pickRect xs ys g) g := by
  simp only [IsGridBox, pickRect, xmin, xmax, ymin, ymax, two_eq]
  refine ⟨by ring, by ring, by ring, by ring⟩

/-- cell-disjoint index rectangles have row ranges or column ranges apart. -/
theorem cellDisjoint_cases (g h : IRect) (nr nc : Nat) (hg : g.wf nr nc = true) (hh : h.wf nr nc = true)
    (hd : CellDisjoint g h) : g.rmax < h.rmin ∨ h.rmax < g.rmin ∨ g.cmax < h.cmin ∨ h.cmax < g.cmin := by
  obtain ⟨a1, a2, a3, a4⟩ := (IRect.wf_iff g nr nc).mp hg
  obtain ⟨b1, b2, b3, b4⟩ := (IRect.wf_iff h nr nc).mp hh
  by_contra hc
  push Not at hc
  obtain ⟨c1, c2, c3, c4⟩ := hc
  apply hd (max g.rmin h.rmin) (max g.cmin h.cmin)
  rw [IRect.contains_iff, IRect.contains_iff]
  omega

theorem ovLen_apart (l1 h1 l2 h2 : α) (h : h1 ≤ l2) : ovLen l1 h1 l2 h2 = 0 := by
  unfold ovLen
  apply max_eq_left
  have := min_le_left h1 h2
  have := le_max_right l1 l2
  linarith

/-- boxes made of disjoint sets of cells do not overlap. -/
theorem gridBox_disjoint {X Y : Nat → α} {nr nc : Nat} (hX : MonoUpTo X nc) (hY : MonoUpTo Y nr)
    {R S : Rect α} {g h : IRect} (hR : IsGridBox X Y R g) (hS : IsGridBox X Y S h)
    (hg : g.wf nr nc = true) (hh : h.wf nr nc = true) (hd : CellDisjoint g h) : R.areaOverlap S = 0 := by
  obtain ⟨a1, a2, a3, a4⟩ := (IRect.wf_iff g nr nc).mp hg
  obtain ⟨b1, b2, b3, b4⟩ := (IRect.wf_iff h nr nc).mp hh
  obtain ⟨r1, r2, r3, r4⟩ := hR
  obtain ⟨s1, s2, s3, s4⟩ := hS
  rw [areaOverlap_eq, r1, r2, r3, r4, s1, s2, s3, s4]
  rcases cellDisjoint_cases g h nr nc hg hh hd with c | c | c | c
  · rw [ovLen_apart (Y g.rmin) _ _ _ (hY.le (by omega) (by omega)), mul_zero]
  · rw [ovLen_comm (Y g.rmin), ovLen_apart (Y h.rmin) _ _ _ (hY.le (by omega) (by omega)), mul_zero]
  · rw [ovLen_apart (X g.cmin) _ _ _ (hX.le (by omega) (by omega)), zero_mul]
  · rw [ovLen_comm (X g.cmin), ovLen_apart (X h.cmin) _ _ _ (hX.le (by omega) (by omega)), zero_mul]

/-- a cell centre lies in a grid box iff the cell belongs to its index rectangle. -/
theorem gridBox_pointInside {X Y : Nat → α} {nr nc : Nat} (hX : MonoUpTo X nc) (hY : MonoUpTo Y nr)
    {R : Rect α} {g : IRect} (hR : IsGridBox X Y R g) (hg : g.wf nr nc = true) (r c : Nat) (hr : r < nr) (hc : c < nc) :
    R.pointInside ((X c + X (c + 1)) / two) ((Y r + Y (r + 1)) / two) = g.contains r c := by
  obtain ⟨a1, a2, a3, a4⟩ := (IRect.wf_iff g nr nc).mp hg
  obtain ⟨r1, r2, r3, r4⟩ := hR
  have key : ∀ (Z : Nat → α) (n lo hi i : Nat), MonoUpTo Z n → lo ≤ hi → hi < n → i < n →
      ((Z lo ≤ (Z i + Z (i + 1)) / 2 ∧ (Z i + Z (i + 1)) / 2 ≤ Z (hi + 1)) ↔ (lo ≤ i ∧ i ≤ hi)) := by
    intro Z n lo hi i hZ h1 h2 h3
    have hstep := hZ i (i + 1) (by omega) (by omega)
    constructor
    · rintro ⟨p1, p2⟩
      constructor
      · by_contra hc'
        have := hZ.le (show i + 1 ≤ lo by omega) (by omega)
        linarith
      · by_contra hc'
        have := hZ.le (show hi + 1 ≤ i by omega) (by omega)
        linarith
    · rintro ⟨p1, p2⟩
      have := hZ.le p1 (by omega)
      have := hZ.le (show i + 1 ≤ hi + 1 by omega) (by omega)
      constructor <;> linarith
  rw [Bool.eq_iff_iff, IRect.contains_iff]
  simp only [pointInside, Bool.and_eq_true, decide_eq_true_eq, r1, r2, r3, r4, two_eq]
  have kx := key X nc g.cmin g.cmax c hX a3 a4 hc
  have ky := key Y nr g.rmin g.rmax r hY a1 a2 hr
  constructor
  · rintro ⟨⟨⟨p1, p2⟩, p3⟩, p4⟩
    have := kx.mp ⟨p1, p2⟩
    have := ky.mp ⟨p3, p4⟩
    omega
  · rintro ⟨p1, p2, p3, p4⟩
    obtain ⟨k1, k2⟩ := kx.mpr ⟨p3, p4⟩
    obtain ⟨k3, k4⟩ := ky.mpr ⟨p1, p2⟩
    exact ⟨⟨⟨k1, k2⟩, k3⟩, k4⟩

/-- two grid boxes sharing a cell overlap with positive area. -/
theorem gridBox_share_cell {X Y : Nat → α} {nr nc : Nat} (hX : MonoUpTo X nc) (hY : MonoUpTo Y nr)
    {R S : Rect α} {g h : IRect} (hR : IsGridBox X Y R g) (hS : IsGridBox X Y S h)
    (hg : g.wf nr nc = true) (hh : h.wf nr nc = true) (r c : Nat)
    (h1 : g.contains r c = true) (h2 : h.contains r c = true) : 0 < R.areaOverlap S := by
  obtain ⟨a1, a2, a3, a4⟩ := (IRect.wf_iff g nr nc).mp hg
  obtain ⟨b1, b2, b3, b4⟩ := (IRect.wf_iff h nr nc).mp hh
  obtain ⟨r1, r2, r3, r4⟩ := hR
  obtain ⟨s1, s2, s3, s4⟩ := hS
  obtain ⟨p1, p2, p3, p4⟩ := (IRect.contains_iff _ _ _).mp h1
  obtain ⟨q1, q2, q3, q4⟩ := (IRect.contains_iff _ _ _).mp h2
  rw [areaOverlap_eq, r1, r2, r3, r4, s1, s2, s3, s4]
  apply mul_pos
  · rw [ovLen_pos_iff]
    have := hX c (c + 1) (by omega) (by omega)
    have := hX.le (show g.cmin ≤ c by omega) (by omega)
    have := hX.le (show h.cmin ≤ c by omega) (by omega)
    have := hX.le (show c + 1 ≤ g.cmax + 1 by omega) (by omega)
    have := hX.le (show c + 1 ≤ h.cmax + 1 by omega) (by omega)
    rw [max_lt_iff, lt_min_iff, lt_min_iff]
    refine ⟨⟨by linarith, by linarith⟩, ⟨by linarith, by linarith⟩⟩
  · rw [ovLen_pos_iff]
    have := hY r (r + 1) (by omega) (by omega)
    have := hY.le (show g.rmin ≤ r by omega) (by omega)
    have := hY.le (show h.rmin ≤ r by omega) (by omega)
    have := hY.le (show r + 1 ≤ g.rmax + 1 by omega) (by omega)
    have := hY.le (show r + 1 ≤ h.rmax + 1 by omega) (by omega)
    rw [max_lt_iff, lt_min_iff, lt_min_iff]
    refine ⟨⟨by linarith, by linarith⟩, ⟨by linarith, by linarith⟩⟩

/-! ### B.3 free-area book-keeping -/

open Finset in
/-- telescoping sum restricted to an index interval. -/
theorem sum_ind_tele (X : Nat → α) (a b n : Nat) (hab : a ≤ b) (hb : b < n) :
    ∑ i ∈ range n, (if a ≤ i ∧ i ≤ b then X (i + 1) - X i else 0) = X (b + 1) - X a := by
  rw [← Finset.sum_filter]
  have hf : (range n).filter (fun i => a ≤ i ∧ i ≤ b) = Ico a (b + 1) := by
    ext i; simp only [mem_filter, mem_range, mem_Ico]; omega
  rw [hf, Finset.sum_Ico_eq_sum_range]
  have := Finset.sum_range_sub (fun i => X (a + i)) (b + 1 - a)
  simp only [Nat.add_zero] at this
  have e : a + (b + 1 - a) = b + 1 := by omega
  rw [e] at this
  exact this

/-- area of the free cells of the `nr × nc` matrix. -/
def freeArea (X Y : Nat → α) (nr nc : Nat) (m : Mat) : α :=
  ∑ r ∈ Finset.range nr, ∑ c ∈ Finset.range nc, if m r c = true then 0 else (X (c + 1) - X c) * (Y (r + 1) - Y r)

/-- area of the box of an index rectangle. -/
def boxArea (X Y : Nat → α) (g : IRect) : α := (X (g.cmax + 1) - X g.cmin) * (Y (g.rmax + 1) - Y g.rmin)

theorem freeArea_congr (X Y : Nat → α) (nr nc : Nat) (m1 m2 : Mat) (h : ∀ r c, r < nr → c < nc → m1 r c = m2 r c) :
    freeArea X Y nr nc m1 = freeArea X Y nr nc m2 := by
  unfold freeArea
  apply Finset.sum_congr rfl
  intro r hr
  apply Finset.sum_congr rfl
  intro c hc
  rw [h r c (Finset.mem_range.mp hr) (Finset.mem_range.mp hc)]

theorem freeArea_occupy (X Y : Nat → α) (nr nc : Nat) (m : Mat) (g : IRect) (hw : g.wf nr nc = true)
    (hf : allFree m g = true) : freeArea X Y nr nc (occupy m g) = freeArea X Y nr nc m - boxArea X Y g := by
  obtain ⟨a1, a2, a3, a4⟩ := (IRect.wf_iff g nr nc).mp hw
  have hf' := (allFree_iff m g).mp hf
  have hbox : boxArea X Y g = ∑ r ∈ Finset.range nr, ∑ c ∈ Finset.range nc,
      if g.contains r c = true then (X (c + 1) - X c) * (Y (r + 1) - Y r) else 0 := by
    unfold boxArea
    rw [← sum_ind_tele X g.cmin g.cmax nc a3 a4, ← sum_ind_tele Y g.rmin g.rmax nr a1 a2, mul_comm, Finset.sum_mul_sum]
    apply Finset.sum_congr rfl
    intro r _
    apply Finset.sum_congr rfl
    intro c _
    by_cases h1 : g.rmin ≤ r ∧ r ≤ g.rmax <;> by_cases h2 : g.cmin ≤ c ∧ c ≤ g.cmax
    · have : g.contains r c = true := (IRect.contains_iff _ _ _).mpr ⟨h1.1, h1.2, h2.1, h2.2⟩
      simp only [h1, h2, this, and_self, ↓reduceIte]; ring
    · have : ¬ g.contains r c = true := by rw [IRect.contains_iff]; tauto
      simp [h1, h2, this]
    · have : ¬ g.contains r c = true := by rw [IRect.contains_iff]; tauto
      simp [h1, h2, this]
    · have : ¬ g.contains r c = true := by rw [IRect.contains_iff]; tauto
      simp [h1, h2, this]
  rw [hbox]
  unfold freeArea
  rw [← Finset.sum_sub_distrib]
  apply Finset.sum_congr rfl
  intro r _
  rw [← Finset.sum_sub_distrib]
  apply Finset.sum_congr rfl
  intro c _
  simp only [occupy_apply, Bool.or_eq_true]
  by_cases hc : g.contains r c = true
  · have := hf' r c hc
    simp [hc, this]
  · by_cases hm : m r c = true
    · simp [hc, hm]
    · simp [hc, hm]

theorem freeArea_empty (X Y : Nat → α) (nr nc : Nat) :
    freeArea X Y nr nc (fun _ _ => false) = (X nc - X 0) * (Y nr - Y 0) := by
  unfold freeArea
  simp only [Bool.false_eq_true, ↓reduceIte]
  rw [← Finset.sum_range_sub X nc, ← Finset.sum_range_sub Y nr, mul_comm, Finset.sum_mul_sum]
  apply Finset.sum_congr rfl
  intro r _
  apply Finset.sum_congr rfl
  intro c _
  ring

theorem freeArea_full (X Y : Nat → α) (nr nc : Nat) (m : Mat) (h : noFree nr nc m = true) :
    freeArea X Y nr nc m = 0 := by
  unfold freeArea
  apply Finset.sum_eq_zero
  intro r hr
  apply Finset.sum_eq_zero
  intro c hc
  rw [if_pos ((noFree_iff nr nc m).mp h r c (Finset.mem_range.mp hr) (Finset.mem_range.mp hc))]

/-- along an admissible pick sequence the free area drops by the areas of the picked boxes. -/
theorem freeArea_run (X Y : Nat → α) (nr nc : Nat) : ∀ (picks : List IRect) (m m' : Mat),
    coverRun nr nc m picks = some m' →
    freeArea X Y nr nc m' = freeArea X Y nr nc m - (picks.map (boxArea X Y)).sum := by
  intro picks
  induction picks with
  | nil => intro m m' h; simp only [coverRun, Option.some.injEq] at h; subst h; simp
  | cons g t ih =>
    intro m m' h
    obtain ⟨m1, ⟨h1, h2, rfl⟩, h3⟩ := (coverRun_cons_iff nr nc m m' g t).mp h
    rw [ih _ _ h3, freeArea_occupy X Y nr nc m g h1 h2, List.map_cons, List.sum_cons]
    ring

/-- pairwise cell-disjoint index rectangles on free cells can be occupied one after the other. -/
theorem coverRun_of_disjoint (nr nc : Nat) : ∀ (gs : List IRect) (m : Mat),
    (∀ g ∈ gs, g.wf nr nc = true) → gs.Pairwise CellDisjoint →
    (∀ g ∈ gs, ∀ r c, g.contains r c = true → m r c = false) →
    coverRun nr nc m gs = some (fun r c => m r c || gs.any fun g => g.contains r c) := by
  intro gs
  induction gs with
  | nil => intro m _ _ _; simp [coverRun]
  | cons g t ih =>
    intro m hw hd hf
    obtain ⟨d1, d2⟩ := List.pairwise_cons.mp hd
    have hfree : allFree m g = true := (allFree_iff m g).mpr (hf g List.mem_cons_self)
    simp only [coverRun, hw g List.mem_cons_self, hfree, Bool.and_self, ↓reduceIte]
    rw [ih (occupy m g) (fun x hx => hw x (List.mem_cons_of_mem _ hx)) d2 ?_]
    · congr 1
      funext r c
      simp only [occupy_apply, List.any_cons, Bool.or_assoc]
    · intro x hx r c hc
      simp only [occupy_apply, Bool.or_eq_false_iff]
      refine ⟨hf x (List.mem_cons_of_mem _ hx) r c hc, ?_⟩
      by_contra hne
      exact d1 x hx r c ⟨by simpa using hne, hc⟩

/-! ### B.4 `gather_boundaries` on separated coordinates -/

/-- distinct values of the list differ by more than `ε`. -/
def Sep (ε : α) (l : List α) : Prop := ∀ a ∈ l, ∀ b ∈ l, a = b ∨ ε < |a - b|

theorem Sep.anti {ε ε' : α} {l : List α} (h : Sep ε' l) (hle : ε ≤ ε') : Sep ε l := fun a ha b hb => by
  rcases h a ha b hb with e | e
  · exact Or.inl e
  · exact Or.inr (lt_of_le_of_lt hle e)

theorem Sep.mono {ε : α} {l l' : List α} (h : Sep ε l) (hsub : ∀ a ∈ l', a ∈ l) : Sep ε l' :=
  fun a ha b hb => h a (hsub a ha) b (hsub b hb)

theorem dedupe_some (ε : α) (hε : 0 ≤ ε) : ∀ (l : List α) (u : α), (u :: l).Pairwise (· ≤ ·) → Sep ε (u :: l) →
    (∀ v, v ∈ dedupe ε (some u) l ↔ (v ∈ l ∧ v ≠ u)) ∧ (u :: dedupe ε (some u) l).Pairwise (· < ·) := by
  intro l
  induction l with
  | nil => intro u _ _; simp [dedupe]
  | cons v t ih =>
    intro u hs hsep
    obtain ⟨hu, hvt⟩ := List.pairwise_cons.mp hs
    have huv : u ≤ v := hu v List.mem_cons_self
    simp only [dedupe]
    split
    · rename_i hlt
      obtain ⟨i1, i2⟩ := ih v hvt (hsep.mono fun a ha => List.mem_cons_of_mem _ ha)
      obtain ⟨i3, i4⟩ := List.pairwise_cons.mp i2
      have hvt' := (List.pairwise_cons.mp hvt).1
      constructor
      · intro w
        simp only [List.mem_cons, i1 w]
        constructor
        · rintro (rfl | ⟨h1, h2⟩)
          · exact ⟨Or.inl rfl, by intro e; rw [e] at hlt; linarith⟩
          · exact ⟨Or.inr h1, by intro e; have := hvt' w h1; rw [e] at this; linarith⟩
        · rintro ⟨rfl | h1, h2⟩
          · exact Or.inl rfl
          · by_cases e : w = v
            · exact Or.inl e
            · exact Or.inr ⟨h1, e⟩
      · refine List.pairwise_cons.mpr ⟨?_, i2⟩
        intro w hw
        rcases List.mem_cons.mp hw with rfl | hw
        · linarith
        · have := i3 w hw; linarith
    · rename_i hnlt
      have hvu : v = u := by
        rcases hsep v (List.mem_cons_of_mem _ List.mem_cons_self) u List.mem_cons_self with e | e
        · exact e
        · exfalso
          rw [abs_of_nonneg (by linarith)] at e
          exact hnlt (by linarith)
      have hs' : (u :: t).Pairwise (· ≤ ·) :=
        List.pairwise_cons.mpr ⟨fun w hw => hu w (List.mem_cons_of_mem _ hw), (List.pairwise_cons.mp hvt).2⟩
      obtain ⟨i1, i2⟩ := ih u hs' (hsep.mono fun a ha => by
        rcases List.mem_cons.mp ha with rfl | ha
        · exact List.mem_cons_self
        · exact List.mem_cons_of_mem _ (List.mem_cons_of_mem _ ha))
      refine ⟨fun w => ?_, i2⟩
      rw [i1 w]
      simp only [List.mem_cons]
      constructor
      · rintro ⟨h1, h2⟩; exact ⟨Or.inr h1, h2⟩
      · rintro ⟨rfl | h1, h2⟩
        · exact absurd hvu h2
        · exact ⟨h1, h2⟩

theorem dedupe_none (ε : α) (hε : 0 ≤ ε) (l : List α) (hs : l.Pairwise (· ≤ ·)) (hsep : Sep ε l) :
    (∀ v, v ∈ dedupe ε none l ↔ v ∈ l) ∧ (dedupe ε none l).Pairwise (· < ·) := by
  cases l with
  | nil => simp [dedupe]
  | cons u t =>
    obtain ⟨i1, i2⟩ := dedupe_some ε hε t u hs hsep
    simp only [dedupe]
    refine ⟨fun v => ?_, i2⟩
    simp only [List.mem_cons, i1 v]
    constructor
    · rintro (h | ⟨h, _⟩)
      · exact Or.inl h
      · exact Or.inr h
    · rintro (h | h)
      · exact Or.inl h
      · by_cases e : v = u
        · exact Or.inl e
        · exact Or.inr ⟨h, e⟩

theorem sortAsc_spec (l : List α) : (sortAsc l).Pairwise (· ≤ ·) ∧ ∀ v, v ∈ sortAsc l ↔ v ∈ l := by
  unfold sortAsc
  constructor
  · have := List.pairwise_mergeSort (le := fun a b : α => decide (a ≤ b))
      (fun a b c h1 h2 => by simp only [decide_eq_true_eq] at *; exact le_trans h1 h2)
      (fun a b => by simp only [Bool.or_eq_true, decide_eq_true_eq]; exact le_total a b) l
    exact this.imp (fun h => by simpa using h)
  · intro v; exact List.mem_mergeSort

/-- on separated coordinates the gathered list is strictly increasing and has exactly the given values. -/
theorem gatherList_spec (ε : α) (hε : 0 ≤ ε) (vals : List α) (hsep : Sep ε vals) :
    (∀ v, v ∈ dedupe ε none (sortAsc vals) ↔ v ∈ vals) ∧ (dedupe ε none (sortAsc vals)).Pairwise (· < ·) := by
  obtain ⟨s1, s2⟩ := sortAsc_spec vals
  obtain ⟨d1, d2⟩ := dedupe_none ε hε (sortAsc vals) s1 (hsep.mono fun a ha => (s2 a).mp ha)
  exact ⟨fun v => by rw [d1 v, s2 v], d2⟩

theorem at'_eq (xs : List α) (i : Nat) (h : i < xs.length) : at' xs i = xs[i] := by
  unfold at'; exact (List.getElem_eq_getD _).symm

theorem monoUpTo_of_pairwise (xs : List α) (h : xs.Pairwise (· < ·)) : MonoUpTo (at' xs) (xs.length - 1) := by
  intro i j hij hj
  by_cases hl : xs.length = 0
  · omega
  · rw [at'_eq xs i (by omega), at'_eq xs j (by omega)]
    exact List.pairwise_iff_getElem.mp h i j (by omega) (by omega) hij

theorem mem_iff_at' (xs : List α) (v : α) : v ∈ xs ↔ ∃ i, i < xs.length ∧ at' xs i = v := by
  rw [List.mem_iff_getElem]
  constructor
  · rintro ⟨i, hi, rfl⟩; exact ⟨i, hi, at'_eq xs i hi⟩
  · rintro ⟨i, hi, rfl⟩; exact ⟨i, hi, (at'_eq xs i hi).symm⟩

/-! ### B.5 from a valid die to index rectangles on its Hanan grid -/

theorem forall2_map_eq {β γ δ : Type} {P : β → γ → Prop} {f : β → δ} {g : γ → δ} :
    ∀ {l1 : List β} {l2 : List γ}, List.Forall₂ P l1 l2 → (∀ a b, P a b → f a = g b) → l1.map f = l2.map g := by
  intro l1 l2 h hfg
  induction h with
  | nil => rfl
  | cons h1 _ ih => simp only [List.map_cons, hfg _ _ h1, ih]

theorem forall2_pairwise {β γ : Type} {P : β → γ → Prop} {R : β → β → Prop} {S : γ → γ → Prop}
    (hRS : ∀ a b a' b', P a a' → P b b' → R a b → S a' b') :
    ∀ {l1 : List β} {l2 : List γ}, List.Forall₂ P l1 l2 → l1.Pairwise R → l2.Pairwise S := by
  intro l1 l2 h
  induction h with
  | nil => intro _; exact List.Pairwise.nil
  | cons h1 h2 ih =>
    intro hp
    obtain ⟨p1, p2⟩ := List.pairwise_cons.mp hp
    refine List.pairwise_cons.mpr ⟨?_, ih p2⟩
    intro b' hb'
    obtain ⟨b, hb, hPb⟩ := forall2_mem_right h2 b' hb'
    exact hRS _ _ _ _ h1 hPb (p1 b hb)

theorem mapE_map_ok {β γ : Type} (f : β → Except Err γ) (g : β → γ) :
    ∀ l : List β, (∀ x ∈ l, f x = .ok (g x)) → mapE f l = .ok (l.map g) := by
  intro l
  induction l with
  | nil => intro _; rfl
  | cons x t ih =>
    intro h
    simp only [mapE, h x List.mem_cons_self, ih (fun y hy => h y (List.mem_cons_of_mem _ hy)), List.map_cons]

theorem mem_boundsX (rs : List (Rect α)) (v : α) : v ∈ boundsX rs ↔ ∃ r ∈ rs, v = r.xmin ∨ v = r.xmax := by
  simp [boundsX, List.mem_flatMap]
theorem mem_boundsY (rs : List (Rect α)) (v : α) : v ∈ boundsY rs ↔ ∃ r ∈ rs, v = r.ymin ∨ v = r.ymax := by
  simp [boundsY, List.mem_flatMap]

/-- one axis of the Hanan grid of a valid die. -/
theorem axis_facts (ε : α) (hε : 0 ≤ ε) (vals : List α) (L : α) (hL : 0 < L) (hsep : Sep ε vals)
    (h0 : (0 : α) ∈ vals) (hLm : L ∈ vals) (hrange : ∀ v ∈ vals, 0 ≤ v ∧ v ≤ L) :
    MonoUpTo (at' (dedupe ε none (sortAsc vals))) ((dedupe ε none (sortAsc vals)).length - 1) ∧
    at' (dedupe ε none (sortAsc vals)) 0 = 0 ∧
    at' (dedupe ε none (sortAsc vals)) ((dedupe ε none (sortAsc vals)).length - 1) = L ∧
    1 ≤ (dedupe ε none (sortAsc vals)).length - 1 ∧
    ∀ v ∈ vals, ∃ i, i ≤ (dedupe ε none (sortAsc vals)).length - 1 ∧ at' (dedupe ε none (sortAsc vals)) i = v := by
  obtain ⟨hmem, hpw⟩ := gatherList_spec ε hε vals hsep
  generalize dedupe ε none (sortAsc vals) = xs at hmem hpw ⊢
  have hmono := monoUpTo_of_pairwise xs hpw
  obtain ⟨k0, hk0, e0⟩ := (mem_iff_at' xs 0).mp ((hmem 0).mpr h0)
  obtain ⟨kL, hkL, eL⟩ := (mem_iff_at' xs L).mp ((hmem L).mpr hLm)
  have hlen : 0 < xs.length := by omega
  have hne : k0 ≠ kL := by intro e; rw [e, eL] at e0; linarith
  have hfirst : at' xs 0 = 0 := by
    have h1 : at' xs 0 ∈ vals := (hmem _).mp ((mem_iff_at' xs _).mpr ⟨0, hlen, rfl⟩)
    have h2 := hmono.le (Nat.zero_le k0) (by omega)
    rw [e0] at h2
    exact le_antisymm h2 (hrange _ h1).1
  have hlast : at' xs (xs.length - 1) = L := by
    have h1 : at' xs (xs.length - 1) ∈ vals := (hmem _).mp ((mem_iff_at' xs _).mpr ⟨xs.length - 1, by omega, rfl⟩)
    have h2 := hmono.le (show kL ≤ xs.length - 1 by omega) (le_refl _)
    rw [eL] at h2
    exact le_antisymm (hrange _ h1).2 h2
  refine ⟨hmono, hfirst, hlast, by omega, ?_⟩
  intro v hv
  obtain ⟨i, hi, e⟩ := (mem_iff_at' xs v).mp ((hmem v).mpr hv)
  exact ⟨i, by omega, e⟩

/-- regions that live on their own Hanan grid: positive sizes, inside the die, boundary coordinates separated. -/
structure GridIn (εd W H : α) (regs : List (Rect α)) : Prop where
  hW : 0 < W
  hH : 0 < H
  hε : 0 ≤ εd
  pos : ∀ r ∈ regs, 0 < r.w ∧ 0 < r.h
  inside : ∀ r ∈ regs, 0 ≤ r.xmin ∧ r.xmax ≤ W ∧ 0 ≤ r.ymin ∧ r.ymax ≤ H
  sepX : Sep εd (boundsX (regs ++ [dieRect W H]))
  sepY : Sep εd (boundsY (regs ++ [dieRect W H]))

/-- the hypotheses of completeness, on the rectangles that occupy cells. -/
structure ValidIn (εd W H : α) (regs : List (Rect α)) : Prop where
  hW : 0 < W
  hH : 0 < H
  hε : 0 ≤ εd
  pos : ∀ r ∈ regs, 0 < r.w ∧ 0 < r.h
  inside : ∀ r ∈ regs, 0 ≤ r.xmin ∧ r.xmax ≤ W ∧ 0 ≤ r.ymin ∧ r.ymax ≤ H
  disjoint : regs.Pairwise (fun a b => a.areaOverlap b = 0)
  sepX : Sep εd (boundsX (regs ++ [dieRect W H]))
  sepY : Sep εd (boundsY (regs ++ [dieRect W H]))

/-- the grid of a valid die: strictly increasing from `0` to `W` (resp. `H`), and every region is a grid box. -/
theorem ValidIn.toGrid {εd W H : α} {regs : List (Rect α)} (hv : ValidIn εd W H regs) : GridIn εd W H regs :=
  ⟨hv.hW, hv.hH, hv.hε, hv.pos, hv.inside, hv.sepX, hv.sepY⟩

theorem grid_facts {εd W H : α} {regs : List (Rect α)} (hv : GridIn εd W H regs) :
    MonoUpTo (at' (gather εd (regs ++ [dieRect W H])).1) ((gather εd (regs ++ [dieRect W H])).1.length - 1) ∧
    MonoUpTo (at' (gather εd (regs ++ [dieRect W H])).2) ((gather εd (regs ++ [dieRect W H])).2.length - 1) ∧
    at' (gather εd (regs ++ [dieRect W H])).1 0 = 0 ∧
    at' (gather εd (regs ++ [dieRect W H])).1 ((gather εd (regs ++ [dieRect W H])).1.length - 1) = W ∧
    at' (gather εd (regs ++ [dieRect W H])).2 0 = 0 ∧
    at' (gather εd (regs ++ [dieRect W H])).2 ((gather εd (regs ++ [dieRect W H])).2.length - 1) = H ∧
    ∀ r ∈ regs, ∃ g : IRect,
      g.wf ((gather εd (regs ++ [dieRect W H])).2.length - 1) ((gather εd (regs ++ [dieRect W H])).1.length - 1) = true ∧
      IsGridBox (at' (gather εd (regs ++ [dieRect W H])).1) (at' (gather εd (regs ++ [dieRect W H])).2) r g := by
  obtain ⟨d1, d2, d3, d4⟩ := dieRect_sides W H
  simp only [gather]
  have hx0 : (0 : α) ∈ boundsX (regs ++ [dieRect W H]) :=
    (mem_boundsX _ _).mpr ⟨dieRect W H, by simp, Or.inl d1.symm⟩
  have hxW : W ∈ boundsX (regs ++ [dieRect W H]) :=
    (mem_boundsX _ _).mpr ⟨dieRect W H, by simp, Or.inr d2.symm⟩
  have hy0 : (0 : α) ∈ boundsY (regs ++ [dieRect W H]) :=
    (mem_boundsY _ _).mpr ⟨dieRect W H, by simp, Or.inl d3.symm⟩
  have hyH : H ∈ boundsY (regs ++ [dieRect W H]) :=
    (mem_boundsY _ _).mpr ⟨dieRect W H, by simp, Or.inr d4.symm⟩
  have hxr : ∀ v ∈ boundsX (regs ++ [dieRect W H]), 0 ≤ v ∧ v ≤ W := by
    intro v hvm
    obtain ⟨r, hr, hvr⟩ := (mem_boundsX _ _).mp hvm
    rcases List.mem_append.mp hr with hr | hr
    · obtain ⟨i1, i2, _, _⟩ := hv.inside r hr
      have := xmin_lt_xmax r (hv.pos r hr).1
      rcases hvr with rfl | rfl <;> constructor <;> linarith
    · rw [List.mem_singleton.mp hr, d1, d2] at hvr
      have := hv.hW
      rcases hvr with rfl | rfl <;> constructor <;> linarith
  have hyr : ∀ v ∈ boundsY (regs ++ [dieRect W H]), 0 ≤ v ∧ v ≤ H := by
    intro v hvm
    obtain ⟨r, hr, hvr⟩ := (mem_boundsY _ _).mp hvm
    rcases List.mem_append.mp hr with hr | hr
    · obtain ⟨_, _, i1, i2⟩ := hv.inside r hr
      have := ymin_lt_ymax r (hv.pos r hr).2
      rcases hvr with rfl | rfl <;> constructor <;> linarith
    · rw [List.mem_singleton.mp hr, d3, d4] at hvr
      have := hv.hH
      rcases hvr with rfl | rfl <;> constructor <;> linarith
  obtain ⟨mx, x0, xW, nx1, xidx⟩ := axis_facts εd hv.hε _ W hv.hW hv.sepX hx0 hxW hxr
  obtain ⟨my, y0, yH, ny1, yidx⟩ := axis_facts εd hv.hε _ H hv.hH hv.sepY hy0 hyH hyr
  refine ⟨mx, my, x0, xW, y0, yH, ?_⟩
  intro r hr
  have hrm : r ∈ regs ++ [dieRect W H] := List.mem_append_left _ hr
  obtain ⟨a, ha, ea⟩ := xidx r.xmin ((mem_boundsX _ _).mpr ⟨r, hrm, Or.inl rfl⟩)
  obtain ⟨b, hb, eb⟩ := xidx r.xmax ((mem_boundsX _ _).mpr ⟨r, hrm, Or.inr rfl⟩)
  obtain ⟨c, hc, ec⟩ := yidx r.ymin ((mem_boundsY _ _).mpr ⟨r, hrm, Or.inl rfl⟩)
  obtain ⟨d, hd, ed⟩ := yidx r.ymax ((mem_boundsY _ _).mpr ⟨r, hrm, Or.inr rfl⟩)
  have hab : a < b := (mx.lt_iff ha hb).mp (by
    show at' _ a < at' _ b
    rw [ea, eb]; exact xmin_lt_xmax r (hv.pos r hr).1)
  have hcd : c < d := (my.lt_iff hc hd).mp (by
    show at' _ c < at' _ d
    rw [ec, ed]; exact ymin_lt_ymax r (hv.pos r hr).2)
  refine ⟨⟨c, d - 1, a, b - 1⟩, (IRect.wf_iff _ _ _).mpr ⟨by simp only; omega, by simp only; omega, by simp only; omega, by simp only; omega⟩, ?_⟩
  have e1 : b - 1 + 1 = b := by omega
  have e2 : d - 1 + 1 = d := by omega
  simp only [IsGridBox, e1, e2]
  exact ⟨ea.symm, eb.symm, ec.symm, ed.symm⟩

theorem exists_forall2 {β γ : Type} {P : β → γ → Prop} : ∀ (l : List β), (∀ a ∈ l, ∃ b, P a b) →
    ∃ l2 : List γ, List.Forall₂ P l l2 := by
  intro l
  induction l with
  | nil => intro _; exact ⟨[], List.Forall₂.nil⟩
  | cons a t ih =>
    intro h
    obtain ⟨b, hb⟩ := h a List.mem_cons_self
    obtain ⟨l2, hl2⟩ := ih (fun x hx => h x (List.mem_cons_of_mem _ hx))
    exact ⟨b :: l2, List.Forall₂.cons hb hl2⟩

theorem forall2_any_eq {β γ : Type} {P : β → γ → Prop} {f : β → Bool} {g : γ → Bool} :
    ∀ {l1 : List β} {l2 : List γ}, List.Forall₂ P l1 l2 → (∀ a b, P a b → f a = g b) → l1.any f = l2.any g := by
  intro l1 l2 h hfg
  induction h with
  | nil => rfl
  | cons h1 _ ih => simp only [List.any_cons, hfg _ _ h1, ih]

theorem areaOverlap_symm (a b : Rect α) : a.areaOverlap b = b.areaOverlap a := by
  rw [areaOverlap_eq, areaOverlap_eq, ovLen_comm, ovLen_comm a.ymin]

theorem pairwise_insert_mid {β : Type} {R : β → β → Prop} (hsym : ∀ a b, R a b → R b a) (A G B F : List β)
    (h1 : (A ++ B ++ F).Pairwise R) (h2 : G.Pairwise R) (h3 : ∀ a ∈ A ++ B ++ F, ∀ g ∈ G, R a g) :
    (A ++ G ++ B ++ F).Pairwise R := by
  simp only [List.pairwise_append, List.mem_append] at h1 h3 ⊢
  obtain ⟨⟨pA, pB, pAB⟩, pF, pABF⟩ := h1
  refine ⟨⟨⟨pA, h2, fun a ha g hg => h3 a (Or.inl (Or.inl ha)) g hg⟩, pB, ?_⟩, pF, ?_⟩
  · rintro a (ha | ha) b hb
    · exact pAB a ha b hb
    · exact hsym _ _ (h3 b (Or.inl (Or.inr hb)) a ha)
  · rintro a ((ha | ha) | ha) b hb
    · exact pABF a (Or.inl ha) b hb
    · exact hsym _ _ (h3 b (Or.inr hb) a ha)
    · exact pABF a (Or.inr ha) b hb

theorem gridBox_area {X Y : Nat → α} {R : Rect α} {g : IRect} (h : IsGridBox X Y R g) : R.area = boxArea X Y g := by
  obtain ⟨r1, r2, r3, r4⟩ := h
  unfold boxArea Rect.area
  rw [← xmax_sub_xmin R, ← ymax_sub_ymin R, r1, r2, r3, r4]

/-- **the Hanan-grid argument**: on a valid die every admissible pick sequence passes the self-check, with an
    exact tiling. -/
theorem dieCore_complete (ε : Eps α) (inp : DieIn α) (fixed : List (Rect α))
    (hv : ValidIn ε.d inp.W inp.H (occRects inp fixed)) (ha : 0 ≤ ε.a) (hd : 0 < ε.die) (picks : List IRect)
    (hacc : coverAccept ((gridOf ε inp fixed).2.length - 1) ((gridOf ε inp fixed).1.length - 1)
      (occ (gridOf ε inp fixed).1 (gridOf ε inp fixed).2 (occRects inp fixed)) picks = true) :
    ∃ out, dieCore ε inp fixed picks = .ok out ∧
      out.W = inp.W ∧ out.H = inp.H ∧ out.specialized = specOf inp ∧ out.blockages = blockOf inp ∧ out.fixed = fixed ∧
      out.ground = picks.map (pickRect (gridOf ε inp fixed).1 (gridOf ε inp fixed).2) ∧
      (∀ r ∈ out.all, 0 ≤ r.xmin ∧ r.xmax ≤ inp.W ∧ 0 ≤ r.ymin ∧ r.ymax ≤ inp.H) ∧
      out.all.Pairwise (fun a b => a.areaOverlap b = 0) ∧
      (out.all.map Rect.area).sum = inp.W * inp.H := by
  obtain ⟨mx, my, x0, xW, y0, yH, hbox⟩ := grid_facts hv.toGrid
  have hgrid : gather ε.d (occRects inp fixed ++ [dieRect inp.W inp.H]) = gridOf ε inp fixed := rfl
  rw [hgrid] at mx my x0 xW y0 yH hbox
  unfold dieCore
  simp only [ofArr_toArr]
  generalize (gridOf ε inp fixed).1 = xs at *
  generalize (gridOf ε inp fixed).2 = ys at *
  generalize hnr : ys.length - 1 = nr at *
  generalize hnc : xs.length - 1 = nc at *
  -- the regions as index rectangles
  obtain ⟨gs, hgs⟩ := exists_forall2 (P := fun (r : Rect α) (g : IRect) => g.wf nr nc = true ∧ IsGridBox (at' xs) (at' ys) r g)
    (occRects inp fixed) hbox
  have hgs_wf : ∀ g ∈ gs, g.wf nr nc = true := fun g hg => by
    obtain ⟨r, _, hr⟩ := forall2_mem_right hgs g hg; exact hr.1
  have hdisj : gs.Pairwise CellDisjoint :=
    forall2_pairwise (R := fun a b : Rect α => a.areaOverlap b = 0) (S := CellDisjoint)
      (fun a b a' b' ha' hb' hab r c hrc => by
        have := gridBox_share_cell mx my ha'.2 hb'.2 ha'.1 hb'.1 r c hrc.1 hrc.2
        linarith) hgs hv.disjoint
  have hocc : ∀ r c, r < nr → c < nc → occ xs ys (occRects inp fixed) r c = gs.any fun g => g.contains r c := by
    intro r c hr hc
    unfold occ
    exact forall2_any_eq hgs (fun a b hab => gridBox_pointInside mx my hab.2 hab.1 r c hr hc)
  have hrun0 := coverRun_of_disjoint nr nc gs (fun _ _ => false) hgs_wf hdisj (fun _ _ _ _ _ => rfl)
  have hfa0 := freeArea_run (at' xs) (at' ys) nr nc gs _ _ hrun0
  rw [freeArea_empty, x0, y0, xW, yH, sub_zero, sub_zero] at hfa0
  have hfa1 : freeArea (at' xs) (at' ys) nr nc (occ xs ys (occRects inp fixed)) =
      inp.W * inp.H - ((occRects inp fixed).map Rect.area).sum := by
    rw [freeArea_congr _ _ nr nc _ (fun r c => false || gs.any fun g => g.contains r c)
      (fun r c hr hc => by rw [hocc r c hr hc, Bool.false_or]), hfa0,
      forall2_map_eq hgs (fun a b hab => gridBox_area hab.2)]
  -- the picks
  unfold coverAccept at hacc
  split at hacc
  swap
  · cases hacc
  rename_i m' hrun
  obtain ⟨pw, pfree, ppair, _⟩ := coverRun_spec nr nc picks _ m' hrun
  have hfa2 := freeArea_run (at' xs) (at' ys) nr nc picks _ m' hrun
  rw [freeArea_full _ _ nr nc m' hacc, hfa1] at hfa2
  have hacc' : coverAccept nr nc (occ xs ys (occRects inp fixed)) picks = true := by
    unfold coverAccept; rw [hrun]; exact hacc
  simp only [hacc', Bool.not_true, Bool.false_eq_true, ↓reduceIte]
  -- the ground rectangles exist
  have hpk_pos : ∀ p ∈ picks, mkGround xs ys p = .ok (pickRect xs ys p) := by
    intro p hp
    obtain ⟨w1, w2, w3, w4⟩ := (IRect.wf_iff p nr nc).mp (pw p hp)
    unfold mkGround
    have h1 := mx p.cmin (p.cmax + 1) (by omega) (by omega)
    have h2 := my p.rmin (p.rmax + 1) (by omega) (by omega)
    have e1 : (0 : α) < (pickRect xs ys p).w := by simp only [pickRect]; linarith
    have e2 : (0 : α) < (pickRect xs ys p).h := by simp only [pickRect]; linarith
    simp [zero_eq, e1, e2]
  rw [mapE_map_ok _ _ picks hpk_pos]
  simp only
  -- facts about the reported list
  have hpk_box : ∀ p ∈ picks, IsGridBox (at' xs) (at' ys) (pickRect xs ys p) p := fun p _ => pickRect_isGridBox xs ys p
  have hsplit : ∀ r, r ∈ specOf inp ++ picks.map (pickRect xs ys) ++ blockOf inp ++ fixed →
      r ∈ occRects inp fixed ∨ ∃ p ∈ picks, r = pickRect xs ys p := by
    intro r hr
    simp only [occRects, List.mem_append, List.mem_map] at hr ⊢
    rcases hr with ((h | ⟨p, hp, rfl⟩) | h) | h
    · exact Or.inl (Or.inl (Or.inl h))
    · exact Or.inr ⟨p, hp, rfl⟩
    · exact Or.inl (Or.inl (Or.inr h))
    · exact Or.inl (Or.inr h)
  have hinside : ∀ r ∈ specOf inp ++ picks.map (pickRect xs ys) ++ blockOf inp ++ fixed,
      0 ≤ r.xmin ∧ r.xmax ≤ inp.W ∧ 0 ≤ r.ymin ∧ r.ymax ≤ inp.H := by
    intro r hr
    rcases hsplit r hr with h | ⟨p, hp, rfl⟩
    · exact hv.inside r h
    · obtain ⟨w1, w2, w3, w4⟩ := (IRect.wf_iff p nr nc).mp (pw p hp)
      obtain ⟨b1, b2, b3, b4⟩ := hpk_box p hp
      rw [b1, b2, b3, b4]
      refine ⟨?_, ?_, ?_, ?_⟩
      · rw [← x0]; exact mx.le (Nat.zero_le _) (by omega)
      · rw [← xW]; exact mx.le (by omega) (le_refl _)
      · rw [← y0]; exact my.le (Nat.zero_le _) (by omega)
      · rw [← yH]; exact my.le (by omega) (le_refl _)
  have hpair : (specOf inp ++ picks.map (pickRect xs ys) ++ blockOf inp ++ fixed).Pairwise
      (fun a b => a.areaOverlap b = 0) := by
    apply pairwise_insert_mid (fun a b h => by rw [areaOverlap_symm]; exact h)
    · exact hv.disjoint
    · rw [List.pairwise_map]
      exact ppair.imp_of_mem (fun {a b} ha hb hab =>
        gridBox_disjoint mx my (hpk_box a ha) (hpk_box b hb) (pw a ha) (pw b hb) hab)
    · intro a ha b hb
      obtain ⟨p, hp, rfl⟩ := List.mem_map.mp hb
      obtain ⟨ga, hga, hPa⟩ : ∃ g ∈ gs, g.wf nr nc = true ∧ IsGridBox (at' xs) (at' ys) a g := by
        have : ∀ {l1 : List (Rect α)} {l2 : List IRect}, List.Forall₂
            (fun (r : Rect α) (g : IRect) => g.wf nr nc = true ∧ IsGridBox (at' xs) (at' ys) r g) l1 l2 →
            ∀ a ∈ l1, ∃ g ∈ l2, g.wf nr nc = true ∧ IsGridBox (at' xs) (at' ys) a g := by
          intro l1 l2 h
          induction h with
          | nil => intro a ha; cases ha
          | cons h1 _ ih =>
            intro a ha
            rcases List.mem_cons.mp ha with rfl | ha
            · exact ⟨_, List.mem_cons_self, h1⟩
            · obtain ⟨g, hg, hP⟩ := ih a ha
              exact ⟨g, List.mem_cons_of_mem _ hg, hP⟩
        exact this hgs a ha
      apply gridBox_disjoint mx my hPa.2 (hpk_box p hp) hPa.1 (pw p hp)
      intro r c ⟨h1, h2⟩
      obtain ⟨w1, w2, w3, w4⟩ := (IRect.wf_iff p nr nc).mp (pw p hp)
      obtain ⟨q1, q2, q3, q4⟩ := (IRect.contains_iff _ _ _).mp h2
      have hfree := pfree p hp r c h2
      rw [hocc r c (by omega) (by omega)] at hfree
      have : (gs.any fun g => g.contains r c) = true := List.any_eq_true.mpr ⟨ga, hga, h1⟩
      rw [this] at hfree
      exact Bool.noConfusion hfree
  have hsum : ((specOf inp ++ picks.map (pickRect xs ys) ++ blockOf inp ++ fixed).map Rect.area).sum = inp.W * inp.H := by
    have e1 : (picks.map (pickRect xs ys)).map Rect.area = picks.map (boxArea (at' xs) (at' ys)) := by
      rw [List.map_map]
      apply List.map_congr_left
      intro p hp
      exact gridBox_area (hpk_box p hp)
    simp only [occRects, List.map_append, List.sum_append] at hfa2 ⊢
    rw [e1]
    linarith
  have hsc : selfCheck ε inp.W inp.H (specOf inp ++ picks.map (pickRect xs ys) ++ blockOf inp ++ fixed) = true := by
    rw [selfCheck_iff]
    refine ⟨?_, hpair.imp (fun h => by rw [h]; exact ha), ?_⟩
    · intro r hr
      obtain ⟨i1, i2, i3, i4⟩ := hinside r hr
      refine ⟨by linarith, by linarith, by linarith, by linarith⟩
    · rw [hsum, sub_self, abs_zero]
      exact mul_pos hd (lt_max_of_lt_left hv.hW)
  simp only [DieOut.all, hsc, ↓reduceIte]
  exact ⟨_, rfl, rfl, rfl, rfl, rfl, rfl, rfl, hinside, hpair, hsum⟩

/-! ### B.7 overlapping regions: the doubly covered area shows up in the area sum -/

/-- the box of an index rectangle as a sum over its cells. -/
theorem boxArea_eq_sum (X Y : Nat → α) (nr nc : Nat) (g : IRect) (hw : g.wf nr nc = true) :
    boxArea X Y g = ∑ r ∈ Finset.range nr, ∑ c ∈ Finset.range nc,
      if g.contains r c = true then (X (c + 1) - X c) * (Y (r + 1) - Y r) else 0 := by
  obtain ⟨a1, a2, a3, a4⟩ := (IRect.wf_iff g nr nc).mp hw
  unfold boxArea
  rw [← sum_ind_tele X g.cmin g.cmax nc a3 a4, ← sum_ind_tele Y g.rmin g.rmax nr a1 a2, mul_comm, Finset.sum_mul_sum]
  apply Finset.sum_congr rfl
  intro r _
  apply Finset.sum_congr rfl
  intro c _
  by_cases h1 : g.rmin ≤ r ∧ r ≤ g.rmax <;> by_cases h2 : g.cmin ≤ c ∧ c ≤ g.cmax
  · have : g.contains r c = true := (IRect.contains_iff _ _ _).mpr ⟨h1.1, h1.2, h2.1, h2.2⟩
    simp only [h1, h2, this, and_self, ↓reduceIte]; ring
  · have : ¬ g.contains r c = true := by rw [IRect.contains_iff]; tauto
    simp [h1, h2, this]
  · have : ¬ g.contains r c = true := by rw [IRect.contains_iff]; tauto
    simp [h1, h2, this]
  · have : ¬ g.contains r c = true := by rw [IRect.contains_iff]; tauto
    simp [h1, h2, this]

/-- area of the cells of `g` that are already occupied in `m`. -/
def covered (X Y : Nat → α) (nr nc : Nat) (m : Mat) (g : IRect) : α :=
  ∑ r ∈ Finset.range nr, ∑ c ∈ Finset.range nc,
    if (g.contains r c && m r c) = true then (X (c + 1) - X c) * (Y (r + 1) - Y r) else 0

theorem cellArea_nonneg {X Y : Nat → α} {nr nc : Nat} (hX : MonoUpTo X nc) (hY : MonoUpTo Y nr) {r c : Nat}
    (hr : r < nr) (hc : c < nc) : 0 ≤ (X (c + 1) - X c) * (Y (r + 1) - Y r) := by
  have := hX c (c + 1) (by omega) (by omega)
  have := hY r (r + 1) (by omega) (by omega)
  apply mul_nonneg <;> linarith

/-- occupying an arbitrary (not necessarily free) index rectangle. -/
theorem freeArea_occupy_gen (X Y : Nat → α) (nr nc : Nat) (m : Mat) (g : IRect) (hw : g.wf nr nc = true) :
    freeArea X Y nr nc (occupy m g) = freeArea X Y nr nc m - boxArea X Y g + covered X Y nr nc m g := by
  rw [boxArea_eq_sum X Y nr nc g hw]
  unfold freeArea covered
  rw [← Finset.sum_sub_distrib, ← Finset.sum_add_distrib]
  apply Finset.sum_congr rfl
  intro r _
  rw [← Finset.sum_sub_distrib, ← Finset.sum_add_distrib]
  apply Finset.sum_congr rfl
  intro c _
  simp only [occupy_apply]
  rcases Bool.eq_false_or_eq_true (g.contains r c) with h1 | h1 <;>
    rcases Bool.eq_false_or_eq_true (m r c) with h2 | h2 <;> simp [h1, h2]

theorem covered_nonneg {X Y : Nat → α} {nr nc : Nat} (hX : MonoUpTo X nc) (hY : MonoUpTo Y nr) (m : Mat) (g : IRect) :
    0 ≤ covered X Y nr nc m g := by
  unfold covered
  apply Finset.sum_nonneg
  intro r hr
  apply Finset.sum_nonneg
  intro c hc
  split
  · exact cellArea_nonneg hX hY (Finset.mem_range.mp hr) (Finset.mem_range.mp hc)
  · exact le_refl _

theorem covered_mono {X Y : Nat → α} {nr nc : Nat} (hX : MonoUpTo X nc) (hY : MonoUpTo Y nr) (m m' : Mat) (g : IRect)
    (h : ∀ r c, m r c = true → m' r c = true) : covered X Y nr nc m g ≤ covered X Y nr nc m' g := by
  unfold covered
  apply Finset.sum_le_sum
  intro r hr
  apply Finset.sum_le_sum
  intro c hc
  have hn := cellArea_nonneg hX hY (Finset.mem_range.mp hr) (Finset.mem_range.mp hc)
  by_cases h1 : (g.contains r c && m r c) = true
  · have h2 : (g.contains r c && m' r c) = true := by
      simp only [Bool.and_eq_true] at h1 ⊢; exact ⟨h1.1, h r c h1.2⟩
    rw [if_pos h1, if_pos h2]
  · rw [if_neg h1]
    split
    · exact hn
    · exact le_refl _

/-- matrix after marking all the cells of a list of index rectangles. -/
def paint (m : Mat) (gs : List IRect) : Mat := fun r c => m r c || gs.any fun g => g.contains r c

theorem paint_cons (m : Mat) (g : IRect) (t : List IRect) : paint m (g :: t) = paint (occupy m g) t := by
  funext r c
  simp only [paint, occupy_apply, List.any_cons, Bool.or_assoc]

/-- how much the listed boxes' areas exceed the area they occupy together. -/
def excess (X Y : Nat → α) (nr nc : Nat) (m : Mat) (gs : List IRect) : α :=
  freeArea X Y nr nc (paint m gs) - freeArea X Y nr nc m + (gs.map (boxArea X Y)).sum

theorem excess_cons (X Y : Nat → α) (nr nc : Nat) (m : Mat) (g : IRect) (t : List IRect) (hw : g.wf nr nc = true) :
    excess X Y nr nc m (g :: t) = covered X Y nr nc m g + excess X Y nr nc (occupy m g) t := by
  unfold excess
  rw [paint_cons, freeArea_occupy_gen X Y nr nc m g hw, List.map_cons, List.sum_cons]
  ring

theorem excess_nonneg {X Y : Nat → α} {nr nc : Nat} (hX : MonoUpTo X nc) (hY : MonoUpTo Y nr) :
    ∀ (gs : List IRect) (m : Mat), (∀ g ∈ gs, g.wf nr nc = true) → 0 ≤ excess X Y nr nc m gs := by
  intro gs
  induction gs with
  | nil =>
    intro m _
    have : paint m [] = m := by funext r c; simp [paint]
    simp [excess, this]
  | cons g t ih =>
    intro m hw
    rw [excess_cons X Y nr nc m g t (hw g List.mem_cons_self)]
    have := covered_nonneg hX hY m g
    have := ih (occupy m g) (fun x hx => hw x (List.mem_cons_of_mem _ hx))
    linarith

theorem excess_ge_covered {X Y : Nat → α} {nr nc : Nat} (hX : MonoUpTo X nc) (hY : MonoUpTo Y nr) :
    ∀ (gs : List IRect) (m : Mat) (h : IRect), (∀ g ∈ gs, g.wf nr nc = true) → h ∈ gs →
      covered X Y nr nc m h ≤ excess X Y nr nc m gs := by
  intro gs
  induction gs with
  | nil => intro m h _ hh; cases hh
  | cons g t ih =>
    intro m h hw hh
    rw [excess_cons X Y nr nc m g t (hw g List.mem_cons_self)]
    have hw' : ∀ x ∈ t, x.wf nr nc = true := fun x hx => hw x (List.mem_cons_of_mem _ hx)
    rcases List.mem_cons.mp hh with rfl | hh
    · have := excess_nonneg hX hY t (occupy m h) hw'
      linarith
    · have h1 := ih (occupy m g) h hw' hh
      have h2 := covered_mono hX hY m (occupy m g) h (fun r c hm => by simp [hm])
      have := covered_nonneg hX hY m g
      linarith

open Finset in
/-- 1-D: the cells common to two index intervals add up to the overlap length of the two spans. -/
theorem sum_ind2_tele {Z : Nat → α} {n : Nat} (hZ : MonoUpTo Z n) (a b a' b' : Nat) (hab : a ≤ b) (hb : b < n)
    (hab' : a' ≤ b') (hb' : b' < n) :
    ∑ i ∈ range n, (if (a ≤ i ∧ i ≤ b) ∧ (a' ≤ i ∧ i ≤ b') then Z (i + 1) - Z i else 0) =
      ovLen (Z a) (Z (b + 1)) (Z a') (Z (b' + 1)) := by
  have hmin : min (Z (b + 1)) (Z (b' + 1)) = Z (min b b' + 1) := by
    rcases le_total b b' with h | h
    · rw [min_eq_left h, min_eq_left (hZ.le (by omega) (by omega))]
    · rw [min_eq_right h, min_eq_right (hZ.le (by omega) (by omega))]
  have hmax : max (Z a) (Z a') = Z (max a a') := by
    rcases le_total a a' with h | h
    · rw [max_eq_right h, max_eq_right (hZ.le h (by omega))]
    · rw [max_eq_left h, max_eq_left (hZ.le h (by omega))]
  unfold ovLen
  rw [hmin, hmax]
  by_cases hne : max a a' ≤ min b b'
  · have hcongr : ∀ i ∈ range n, (if (a ≤ i ∧ i ≤ b) ∧ (a' ≤ i ∧ i ≤ b') then Z (i + 1) - Z i else 0) =
        (if max a a' ≤ i ∧ i ≤ min b b' then Z (i + 1) - Z i else 0) := by
      intro i _
      have : ((a ≤ i ∧ i ≤ b) ∧ (a' ≤ i ∧ i ≤ b')) ↔ (max a a' ≤ i ∧ i ≤ min b b') := by omega
      simp only [this]
    rw [Finset.sum_congr rfl hcongr, sum_ind_tele Z (max a a') (min b b') n hne (by omega)]
    have := hZ (max a a') (min b b' + 1) (by omega) (by omega)
    rw [max_eq_right (a := (0 : α)) (b := Z (min b b' + 1) - Z (max a a')) (by linarith)]
  · have hcongr : ∀ i ∈ range n, (if (a ≤ i ∧ i ≤ b) ∧ (a' ≤ i ∧ i ≤ b') then Z (i + 1) - Z i else 0) = 0 := by
      intro i _
      have : ¬ ((a ≤ i ∧ i ≤ b) ∧ (a' ≤ i ∧ i ≤ b')) := by omega
      simp only [this, ↓reduceIte]
    rw [Finset.sum_congr rfl hcongr, Finset.sum_const_zero]
    have := hZ.le (show min b b' + 1 ≤ max a a' by omega) (by omega)
    rw [max_eq_left (a := (0 : α)) (b := Z (min b b' + 1) - Z (max a a')) (by linarith)]

/-- occupying `g` covers at least the common area of the boxes of `g` and `h`. -/
theorem covered_occupy_ge_overlap {X Y : Nat → α} {nr nc : Nat} (hX : MonoUpTo X nc) (hY : MonoUpTo Y nr)
    {R S : Rect α} {g h : IRect} (hR : IsGridBox X Y R g) (hS : IsGridBox X Y S h)
    (hg : g.wf nr nc = true) (hh : h.wf nr nc = true) (m : Mat) :
    R.areaOverlap S ≤ covered X Y nr nc (occupy m g) h := by
  obtain ⟨a1, a2, a3, a4⟩ := (IRect.wf_iff g nr nc).mp hg
  obtain ⟨b1, b2, b3, b4⟩ := (IRect.wf_iff h nr nc).mp hh
  obtain ⟨r1, r2, r3, r4⟩ := hR
  obtain ⟨s1, s2, s3, s4⟩ := hS
  rw [areaOverlap_eq, r1, r2, r3, r4, s1, s2, s3, s4,
    ← sum_ind2_tele hX g.cmin g.cmax h.cmin h.cmax a3 a4 b3 b4,
    ← sum_ind2_tele hY g.rmin g.rmax h.rmin h.rmax a1 a2 b1 b2, mul_comm, Finset.sum_mul_sum]
  unfold covered
  apply Finset.sum_le_sum
  intro r hr
  apply Finset.sum_le_sum
  intro c hc
  have hn := cellArea_nonneg hX hY (Finset.mem_range.mp hr) (Finset.mem_range.mp hc)
  by_cases hboth : ((g.rmin ≤ r ∧ r ≤ g.rmax) ∧ (h.rmin ≤ r ∧ r ≤ h.rmax)) ∧ ((g.cmin ≤ c ∧ c ≤ g.cmax) ∧ (h.cmin ≤ c ∧ c ≤ h.cmax))
  · have e1 : g.contains r c = true := (IRect.contains_iff _ _ _).mpr ⟨hboth.1.1.1, hboth.1.1.2, hboth.2.1.1, hboth.2.1.2⟩
    have e2 : h.contains r c = true := (IRect.contains_iff _ _ _).mpr ⟨hboth.1.2.1, hboth.1.2.2, hboth.2.2.1, hboth.2.2.2⟩
    simp only [hboth.1, hboth.2, and_self, ↓reduceIte, occupy_apply, e1, e2, Bool.or_true, Bool.and_self]
    linarith [mul_comm (Y (r + 1) - Y r) (X (c + 1) - X c)]
  · have : (if (g.rmin ≤ r ∧ r ≤ g.rmax) ∧ (h.rmin ≤ r ∧ r ≤ h.rmax) then Y (r + 1) - Y r else 0) *
        (if (g.cmin ≤ c ∧ c ≤ g.cmax) ∧ (h.cmin ≤ c ∧ c ≤ h.cmax) then X (c + 1) - X c else 0) = 0 := by
      by_cases p1 : (g.rmin ≤ r ∧ r ≤ g.rmax) ∧ (h.rmin ≤ r ∧ r ≤ h.rmax)
      · have p2 : ¬ ((g.cmin ≤ c ∧ c ≤ g.cmax) ∧ (h.cmin ≤ c ∧ c ≤ h.cmax)) := fun p2 => hboth ⟨p1, p2⟩
        rw [if_neg p2, mul_zero]
      · rw [if_neg p1, zero_mul]
    rw [this]
    split
    · exact hn
    · exact le_refl _

/-- two listed regions with common area `≥ a` make the excess at least `a`. -/
theorem excess_ge_overlap {X Y : Nat → α} {nr nc : Nat} (hX : MonoUpTo X nc) (hY : MonoUpTo Y nr) (a : α) :
    ∀ {regs : List (Rect α)} {gs : List IRect},
      List.Forall₂ (fun (r : Rect α) (g : IRect) => g.wf nr nc = true ∧ IsGridBox X Y r g) regs gs →
      ¬ regs.Pairwise (fun x y => x.areaOverlap y < a) → ∀ m : Mat, a ≤ excess X Y nr nc m gs := by
  intro regs gs h
  induction h with
  | nil => intro hn; exact absurd List.Pairwise.nil hn
  | @cons x g xs t h1 h2 ih =>
    intro hn m
    have hwt : ∀ y ∈ t, y.wf nr nc = true := fun y hy => by
      obtain ⟨r, _, hr⟩ := forall2_mem_right h2 y hy; exact hr.1
    rw [excess_cons X Y nr nc m g t h1.1]
    have hc := covered_nonneg hX hY m g
    by_cases hp : xs.Pairwise (fun x y => x.areaOverlap y < a)
    · have : ¬ ∀ y ∈ xs, x.areaOverlap y < a := fun hall => hn (List.pairwise_cons.mpr ⟨hall, hp⟩)
      push Not at this
      obtain ⟨y, hy, hya⟩ := this
      obtain ⟨gy, hgy, hPy⟩ : ∃ gy ∈ t, gy.wf nr nc = true ∧ IsGridBox X Y y gy := by
        clear ih hn hp hwt
        induction h2 with
        | nil => cases hy
        | cons q1 _ ih2 =>
          rcases List.mem_cons.mp hy with rfl | hy
          · exact ⟨_, List.mem_cons_self, q1⟩
          · obtain ⟨k, hk, hP⟩ := ih2 hy
            exact ⟨k, List.mem_cons_of_mem _ hk, hP⟩
      have e1 := covered_occupy_ge_overlap hX hY h1.2 hPy.2 h1.1 hPy.1 m
      have e2 := excess_ge_covered hX hY t (occupy m g) gy hwt hgy
      linarith
    · have := ih hp (occupy m g)
      linarith

/-- regions on their Hanan grid two of which have common area at least the area-sum tolerance: the area-sum test of
    the self-check fails whatever the picks (the sum exceeds `W·H` by at least that common area). -/
theorem dieCore_rejects_excess (ε : Eps α) (inp : DieIn α) (fixed : List (Rect α))
    (hgi : GridIn ε.d inp.W inp.H (occRects inp fixed))
    (hov : ¬ (occRects inp fixed).Pairwise (fun x y => x.areaOverlap y < ε.die * max inp.W inp.H))
    (picks : List IRect) : ∃ err, dieCore ε inp fixed picks = .error err := by
  cases hres : dieCore ε inp fixed picks with
  | error err => exact ⟨err, rfl⟩
  | ok out =>
    exfalso
    obtain ⟨hacc, hgr, e1, e2, e3, e4, e5, hsc⟩ := dieCore_ok ε inp fixed picks out hres
    obtain ⟨mx, my, x0, xW, y0, yH, hbox⟩ := grid_facts hgi
    have hgrid : gather ε.d (occRects inp fixed ++ [dieRect inp.W inp.H]) = gridOf ε inp fixed := rfl
    rw [hgrid] at mx my x0 xW y0 yH hbox
    generalize (gridOf ε inp fixed).1 = xs at *
    generalize (gridOf ε inp fixed).2 = ys at *
    generalize hnr : ys.length - 1 = nr at *
    generalize hnc : xs.length - 1 = nc at *
    obtain ⟨gs, hgs⟩ := exists_forall2 (P := fun (r : Rect α) (g : IRect) => g.wf nr nc = true ∧ IsGridBox (at' xs) (at' ys) r g)
      (occRects inp fixed) hbox
    have hocc : ∀ r c, r < nr → c < nc → occ xs ys (occRects inp fixed) r c = gs.any fun g => g.contains r c := by
      intro r c hr hc
      unfold occ
      exact forall2_any_eq hgs (fun a b hab => gridBox_pointInside mx my hab.2 hab.1 r c hr hc)
    have hex := excess_ge_overlap mx my (ε.die * max inp.W inp.H) hgs hov (fun _ _ => false)
    unfold excess at hex
    rw [freeArea_empty, x0, y0, xW, yH, sub_zero, sub_zero,
      ← forall2_map_eq (f := Rect.area) hgs (fun a b hab => gridBox_area hab.2),
      ← freeArea_congr _ _ nr nc (occ xs ys (occRects inp fixed)) (paint (fun _ _ => false) gs)
        (fun r c hr hc => by rw [hocc r c hr hc]; simp [paint])] at hex
    -- the picks consume exactly the free area
    unfold coverAccept at hacc
    split at hacc
    swap
    · cases hacc
    rename_i m' hrun
    have hfa2 := freeArea_run (at' xs) (at' ys) nr nc picks _ m' hrun
    rw [freeArea_full _ _ nr nc m' hacc] at hfa2
    have hground : picks.map (pickRect xs ys) = out.ground := by
      have := forall2_map_eq (f := pickRect xs ys) (g := fun r : Rect α => r) hgr
        (fun p r hpr => ((mkGround_ok xs ys p r hpr).1).symm)
      simpa using this
    have e6 : (out.ground.map Rect.area) = picks.map (boxArea (at' xs) (at' ys)) := by
      rw [← hground, List.map_map]
      apply List.map_congr_left
      intro p _
      exact gridBox_area (pickRect_isGridBox xs ys p)
    obtain ⟨_, _, s3⟩ := (selfCheck_iff _ _ _ _).mp hsc
    simp only [DieOut.all, e3, e4, e5, List.map_append, List.sum_append, e6] at s3
    have hsum : ((occRects inp fixed).map Rect.area).sum =
        ((specOf inp).map Rect.area).sum + ((blockOf inp).map Rect.area).sum + (fixed.map Rect.area).sum := by
      simp only [occRects, List.map_append, List.sum_append]
    rw [hsum] at hex
    have hpos : 0 ≤ ε.die * max inp.W inp.H := by
      have := excess_nonneg mx my gs (fun _ _ => false) (fun g hg => by
        obtain ⟨r, _, hr⟩ := forall2_mem_right hgs g hg; exact hr.1)
      by_contra hc
      push Not at hc
      exact absurd s3 (not_lt.mpr (le_trans (le_of_lt hc) (abs_nonneg _)))
    rw [abs_lt] at s3
    linarith [s3.2]

/-! ### B.6 the deterministic instance is an instance of the relation -/

theorem bestOf_fold (xs ys : List α) : ∀ (cands : List IRect) (acc : α × Option IRect),
    (cands.foldl (fun (acc : α × Option IRect) g =>
        if acc.1 < gArea xs ys g then (gArea xs ys g, some g) else acc) acc).2 = acc.2 ∨
    ∃ b ∈ cands, (cands.foldl (fun (acc : α × Option IRect) g =>
        if acc.1 < gArea xs ys g then (gArea xs ys g, some g) else acc) acc).2 = some b := by
  intro cands
  induction cands with
  | nil => intro acc; exact Or.inl rfl
  | cons c t ih =>
    intro acc
    simp only [List.foldl_cons]
    split
    · rcases ih (gArea xs ys c, some c) with h | ⟨b, hb, h⟩
      · exact Or.inr ⟨c, List.mem_cons_self, h⟩
      · exact Or.inr ⟨b, List.mem_cons_of_mem _ hb, h⟩
    · rcases ih acc with h | ⟨b, hb, h⟩
      · exact Or.inl h
      · exact Or.inr ⟨b, List.mem_cons_of_mem _ hb, h⟩

theorem bestOf_mem (xs ys : List α) (cands : List IRect) (b : IRect) (h : bestOf xs ys cands = some b) : b ∈ cands := by
  unfold bestOf at h
  rcases bestOf_fold xs ys cands (negOne, none) with h' | ⟨b', hb', h'⟩
  · rw [h'] at h; cases h
  · rw [h'] at h; cases h; exact hb'

/-- whatever the deterministic loop returns is an admissible complete pick sequence; it never runs out of fuel. -/
theorem greedy_spec (xs ys : List α) (nr nc : Nat) : ∀ (f : Nat) (m : Mat) (cands acc : List IRect),
    CandsOf nr nc m cands → cands.length < f →
    greedy xs ys f m cands acc ≠ .error .trace ∧
    ∀ out, greedy xs ys f m cands acc = .ok out → ∃ picks, out = acc.reverse ++ picks ∧ coverAccept nr nc m picks = true := by
  intro f
  induction f with
  | zero => intro m cands acc _ hlen; omega
  | succ k ih =>
    intro m cands acc hL hlen
    cases cands with
    | nil =>
      simp only [greedy]
      refine ⟨by simp, fun out h => ?_⟩
      simp only [Except.ok.injEq] at h
      exact ⟨[], by simp [h], by simpa [coverAccept, coverRun] using (cands_nil_iff nr nc m [] hL).mp rfl⟩
    | cons c cs =>
      simp only [greedy]
      cases hb : bestOf xs ys (c :: cs) with
      | none => simp
      | some b =>
        simp only
        have hbm := bestOf_mem xs ys _ b hb
        obtain ⟨hw, hf⟩ := (hL b).mp hbm
        have hlt := cands_shrink nr nc m (c :: cs) b hL hbm
        obtain ⟨i1, i2⟩ := ih (occupy m b) ((c :: cs).filter fun g => allFree (occupy m b) g) (b :: acc)
          (candsOf_filter nr nc m (c :: cs) b hL) (by omega)
        refine ⟨i1, fun out h => ?_⟩
        obtain ⟨picks, e, hacc⟩ := i2 out h
        refine ⟨b :: picks, by simp [e], ?_⟩
        unfold coverAccept at hacc ⊢
        simp only [coverRun, hw, hf, Bool.and_self, ↓reduceIte]
        exact hacc

/-- `detPicks`: never a trace error, and its result is accepted by the relational cover. -/
theorem detPicks_spec (ε : Eps α) (inp : DieIn α) (fixed : List (Rect α)) :
    detPicks ε inp fixed ≠ .error .trace ∧
    ∀ picks, detPicks ε inp fixed = .ok picks →
      coverAccept ((gridOf ε inp fixed).2.length - 1) ((gridOf ε inp fixed).1.length - 1)
        (occ (gridOf ε inp fixed).1 (gridOf ε inp fixed).2 (occRects inp fixed)) picks = true := by
  unfold detPicks
  simp only [ofArr_toArr]
  obtain ⟨L, hL1, hL2⟩ := allFreeRects_spec (occ (gridOf ε inp fixed).1 (gridOf ε inp fixed).2 (occRects inp fixed))
    ((gridOf ε inp fixed).2.length - 1) ((gridOf ε inp fixed).1.length - 1)
  rw [hL1]
  simp only
  obtain ⟨g1, g2⟩ := greedy_spec (gridOf ε inp fixed).1 (gridOf ε inp fixed).2 _ _ (L.length + 1) _ L [] hL2 (by omega)
  refine ⟨g1, fun picks h => ?_⟩
  obtain ⟨p, e, hacc⟩ := g2 picks h
  simp only [List.reverse_nil, List.nil_append] at e
  rw [e]; exact hacc

/-! ### B.8 inside the separated band the tolerance does not matter -/

/-- a strictly increasing list is determined by its set of elements. -/
theorem eq_of_strict_of_mem_iff {l1 l2 : List α} (h1 : l1.Pairwise (· < ·)) (h2 : l2.Pairwise (· < ·))
    (hm : ∀ v, v ∈ l1 ↔ v ∈ l2) : l1 = l2 := by
  have n1 : l1.Nodup := h1.imp (fun h => ne_of_lt h)
  have n2 : l2.Nodup := h2.imp (fun h => ne_of_lt h)
  exact List.Perm.eq_of_pairwise (le := fun a b => a < b) (fun a b _ _ hab hba => absurd hab (not_lt.mpr (le_of_lt hba)))
    h1 h2 ((List.perm_ext_iff_of_nodup n1 n2).mpr hm)

/-- `gather_boundaries` gives the same coordinates for every tolerance below the separation of the values. -/
theorem gatherList_insensitive (ε ε' εmax : α) (h0 : 0 ≤ ε) (h0' : 0 ≤ ε') (hle : ε ≤ εmax) (hle' : ε' ≤ εmax)
    (vals : List α) (hsep : Sep εmax vals) :
    dedupe ε none (sortAsc vals) = dedupe ε' none (sortAsc vals) := by
  obtain ⟨m1, p1⟩ := gatherList_spec ε h0 vals (hsep.anti hle)
  obtain ⟨m2, p2⟩ := gatherList_spec ε' h0' vals (hsep.anti hle')
  exact eq_of_strict_of_mem_iff p1 p2 (fun v => by rw [m1 v, m2 v])

theorem bestOf_fold_some (xs ys : List α) : ∀ (cands : List IRect) (acc : α × Option IRect), acc.2 ≠ none →
    (cands.foldl (fun (acc : α × Option IRect) g =>
        if acc.1 < gArea xs ys g then (gArea xs ys g, some g) else acc) acc).2 ≠ none := by
  intro cands
  induction cands with
  | nil => intro acc h; exact h
  | cons c t ih =>
    intro acc h
    simp only [List.foldl_cons]
    split
    · exact ih _ (by simp)
    · exact ih _ h

theorem bestOf_ne_none (xs ys : List α) (c : IRect) (cs : List IRect) (hc : -1 < gArea xs ys c) :
    bestOf xs ys (c :: cs) ≠ none := by
  unfold bestOf
  simp only [List.foldl_cons, negOne_eq, hc, ↓reduceIte]
  exact bestOf_fold_some xs ys cs _ (by simp)

/-- with positive candidate areas the deterministic loop returns. -/
theorem greedy_total (xs ys : List α) (nr nc : Nat) (hpos : ∀ g : IRect, g.wf nr nc = true → -1 < gArea xs ys g) :
    ∀ (f : Nat) (m : Mat) (cands acc : List IRect), CandsOf nr nc m cands → cands.length < f →
    ∃ out, greedy xs ys f m cands acc = .ok out := by
  intro f
  induction f with
  | zero => intro m cands acc _ hlen; omega
  | succ k ih =>
    intro m cands acc hL hlen
    cases cands with
    | nil => exact ⟨acc.reverse, by simp [greedy]⟩
    | cons c cs =>
      simp only [greedy]
      have hcw := ((hL c).mp List.mem_cons_self).1
      cases hb : bestOf xs ys (c :: cs) with
      | none => exact absurd hb (bestOf_ne_none xs ys c cs (hpos c hcw))
      | some b =>
        simp only
        have hbm := bestOf_mem xs ys _ b hb
        have hlt := cands_shrink nr nc m (c :: cs) b hL hbm
        exact ih (occupy m b) _ (b :: acc) (candsOf_filter nr nc m (c :: cs) b hL) (by omega)

theorem ValidIn.anti {ε εmax W H : α} {regs : List (Rect α)} (hv : ValidIn εmax W H regs) (h0 : 0 ≤ ε) (hle : ε ≤ εmax) :
    ValidIn ε W H regs :=
  ⟨hv.hW, hv.hH, h0, hv.pos, hv.inside, hv.disjoint, hv.sepX.anti hle, hv.sepY.anti hle⟩

/-- the Hanan grid is the same for all distance tolerances below the separation of the boundary coordinates. -/
theorem gridOf_insensitive (ε ε' : Eps α) (εmax : α) (inp : DieIn α) (fixed : List (Rect α))
    (h0 : 0 ≤ ε.d) (h0' : 0 ≤ ε'.d) (hle : ε.d ≤ εmax) (hle' : ε'.d ≤ εmax)
    (sx : Sep εmax (boundsX (occRects inp fixed ++ [dieRect inp.W inp.H])))
    (sy : Sep εmax (boundsY (occRects inp fixed ++ [dieRect inp.W inp.H]))) :
    gridOf ε inp fixed = gridOf ε' inp fixed := by
  unfold gridOf gather
  rw [gatherList_insensitive ε.d ε'.d εmax h0 h0' hle hle' _ sx, gatherList_insensitive ε.d ε'.d εmax h0 h0' hle hle' _ sy]

theorem DieOut.ext' {o1 o2 : DieOut α} (h1 : o1.W = o2.W) (h2 : o1.H = o2.H) (h3 : o1.specialized = o2.specialized)
    (h4 : o1.ground = o2.ground) (h5 : o1.blockages = o2.blockages) (h6 : o1.fixed = o2.fixed) : o1 = o2 := by
  cases o1; cases o2; simp_all

/-- same picks, two tolerance triples below the separation (same die tolerance): both runs return the SAME object. -/
theorem dieCore_insensitive (ε ε' : Eps α) (εmax : α) (inp : DieIn α) (fixed : List (Rect α))
    (hv : ValidIn εmax inp.W inp.H (occRects inp fixed))
    (h0 : 0 ≤ ε.d) (h0' : 0 ≤ ε'.d) (hle : ε.d ≤ εmax) (hle' : ε'.d ≤ εmax) (ha : 0 ≤ ε.a) (ha' : 0 ≤ ε'.a)
    (hd : 0 < ε.die) (hd' : 0 < ε'.die) (picks : List IRect)
    (hacc : coverAccept ((gridOf ε inp fixed).2.length - 1) ((gridOf ε inp fixed).1.length - 1)
      (occ (gridOf ε inp fixed).1 (gridOf ε inp fixed).2 (occRects inp fixed)) picks = true) :
    coverAccept ((gridOf ε' inp fixed).2.length - 1) ((gridOf ε' inp fixed).1.length - 1)
      (occ (gridOf ε' inp fixed).1 (gridOf ε' inp fixed).2 (occRects inp fixed)) picks = true ∧
    ∃ out, dieCore ε inp fixed picks = .ok out ∧ dieCore ε' inp fixed picks = .ok out ∧
      (∀ r ∈ out.all, 0 ≤ r.xmin ∧ r.xmax ≤ inp.W ∧ 0 ≤ r.ymin ∧ r.ymax ≤ inp.H) ∧
      out.all.Pairwise (fun a b => a.areaOverlap b = 0) ∧ (out.all.map Rect.area).sum = inp.W * inp.H ∧
      out.W = inp.W ∧ out.H = inp.H := by
  have hg := gridOf_insensitive ε ε' εmax inp fixed h0 h0' hle hle' hv.sepX hv.sepY
  have hacc' : coverAccept ((gridOf ε' inp fixed).2.length - 1) ((gridOf ε' inp fixed).1.length - 1)
      (occ (gridOf ε' inp fixed).1 (gridOf ε' inp fixed).2 (occRects inp fixed)) picks = true := by rw [← hg]; exact hacc
  obtain ⟨o1, c1, a1, a2, a3, a4, a5, a6, hin, hpw, hsum⟩ :=
    dieCore_complete ε inp fixed (hv.anti h0 hle) ha hd picks hacc
  obtain ⟨o2, c2, b1, b2, b3, b4, b5, b6, _, _, _⟩ :=
    dieCore_complete ε' inp fixed (hv.anti h0' hle') ha' hd' picks hacc'
  have : o2 = o1 := DieOut.ext' (by rw [a1, b1]) (by rw [a2, b2]) (by rw [a3, b3]) (by rw [a6, b6, hg]) (by rw [a4, b4])
    (by rw [a5, b5])
  rw [this] at c2
  exact ⟨hacc', o1, c1, c2, hin, hpw, hsum, a1, a2⟩

/-- on a valid die the deterministic cover returns, and it is the same for all tolerances below the separation. -/
theorem detPicks_total (ε : Eps α) (inp : DieIn α) (fixed : List (Rect α))
    (hv : ValidIn ε.d inp.W inp.H (occRects inp fixed)) : ∃ picks, detPicks ε inp fixed = .ok picks := by
  obtain ⟨mx, my, _, _, _, _, _⟩ := grid_facts hv.toGrid
  have hgrid : gather ε.d (occRects inp fixed ++ [dieRect inp.W inp.H]) = gridOf ε inp fixed := rfl
  rw [hgrid] at mx my
  unfold detPicks
  simp only [ofArr_toArr]
  obtain ⟨L, hL1, hL2⟩ := allFreeRects_spec (occ (gridOf ε inp fixed).1 (gridOf ε inp fixed).2 (occRects inp fixed))
    ((gridOf ε inp fixed).2.length - 1) ((gridOf ε inp fixed).1.length - 1)
  rw [hL1]
  simp only
  apply greedy_total (gridOf ε inp fixed).1 (gridOf ε inp fixed).2 _ _ ?_ (L.length + 1) _ L [] hL2 (by omega)
  intro g hg
  obtain ⟨w1, w2, w3, w4⟩ := (IRect.wf_iff g _ _).mp hg
  have h1 := mx g.cmin (g.cmax + 1) (by omega) (by omega)
  have h2 := my g.rmin (g.rmax + 1) (by omega) (by omega)
  unfold gArea
  have : 0 < (at' (gridOf ε inp fixed).2 (g.rmax + 1) - at' (gridOf ε inp fixed).2 g.rmin) *
      (at' (gridOf ε inp fixed).1 (g.cmax + 1) - at' (gridOf ε inp fixed).1 g.cmin) := by
    apply mul_pos <;> linarith
  linarith

theorem detPicks_insensitive (ε ε' : Eps α) (εmax : α) (inp : DieIn α) (fixed : List (Rect α))
    (h0 : 0 ≤ ε.d) (h0' : 0 ≤ ε'.d) (hle : ε.d ≤ εmax) (hle' : ε'.d ≤ εmax)
    (sx : Sep εmax (boundsX (occRects inp fixed ++ [dieRect inp.W inp.H])))
    (sy : Sep εmax (boundsY (occRects inp fixed ++ [dieRect inp.W inp.H]))) :
    detPicks ε inp fixed = detPicks ε' inp fixed := by
  unfold detPicks
  rw [gridOf_insensitive ε ε' εmax inp fixed h0 h0' hle hle' sx sy]

end field

end FV.Die

import FV.Proofs.Strop.Coords
import FV.Proofs.Strop.Area
import Mathlib.Algebra.Order.BigOperators.Group.Finset
import Mathlib.Algebra.Ring.Int.Parity
import Mathlib.Data.ZMod.Basic
/-
  A vertex list that walks the boundary of the 1-cells of a grid `S` (`tracesGrid`): the matrix the pipeline computes
  is `S`, and the shoelace area is the area of the 1-cells.
-/
namespace FV.Strop
open Finset
set_option linter.unusedVariables false
set_option linter.unusedSimpArgs false
set_option linter.unusedSectionVars false

variable {α : Type} [Field α] [LinearOrder α] [IsStrictOrderedRing α]

/-! ### the loops of the specification as big operators -/

theorem sumInt_eq (n : ℕ) (f : ℕ → ℤ) : sumInt n f = ∑ i ∈ range n, f i := by
  induction n with
  | zero => rfl
  | succ n ih => rw [sumInt, ih, sum_range_succ]

theorem sumSc_eq (n : ℕ) (f : ℕ → α) : sumSc 0 n f = ∑ i ∈ range n, f i := by
  induction n with
  | zero => rfl
  | succ n ih => rw [sumSc, ih, sum_range_succ]

theorem winding_eq (x y : α) (vs : List (α × α)) :
    winding x y vs = ∑ i ∈ range vs.length, edgeSign x y (E vs i) := by
  unfold winding
  rw [sumInt_eq]
  apply sum_congr rfl
  intro i hi
  rw [mem_range] at hi
  rw [edgeAt_eq vs i hi]

theorem rectilinear_iff (vs : List (α × α)) : rectilinear vs = true ↔
    ∀ i, i < vs.length → (E vs i).1.1 = (E vs i).2.1 ∨ (E vs i).1.2 = (E vs i).2.2 := by
  unfold rectilinear
  rw [cycEdges_eq]
  simp only [List.all_eq_true, List.mem_map, List.mem_range, Bool.or_eq_true, decide_eq_true_eq]
  constructor
  · intro h i hi; exact h _ ⟨i, hi, rfl⟩
  · rintro h e ⟨i, hi, rfl⟩; exact h i hi

theorem E_mem (vs : List (α × α)) (i : ℕ) (hi : i < vs.length) : (E vs i).1 ∈ vs ∧ (E vs i).2 ∈ vs := by
  have h2 : (i + 1) % vs.length < vs.length := Nat.mod_lt _ (by omega)
  unfold E
  rw [List.getD_eq_getElem?_getD, List.getD_eq_getElem?_getD, List.getElem?_eq_getElem hi, List.getElem?_eq_getElem h2]
  exact ⟨List.getElem_mem _, List.getElem_mem _⟩

/-! ### axis-parallel loops: only vertical edges count -/

theorem spansY_iff (e : Edge α) (y : α) : spansY e y = true ↔ ((e.1.2 ≤ y ∧ y < e.2.2) ∨ (e.2.2 ≤ y ∧ y < e.1.2)) := by
  simp [spansY]

/-- for a horizontal or vertical edge the crossing test reads: vertical, spans the ordinate, lies to the right. -/
theorem crossP_rect (px py : α) (e : Edge α) (h : e.1.1 = e.2.1 ∨ e.1.2 = e.2.2) :
    crossP px py e ↔ (e.1.1 = e.2.1 ∧ spansY e py = true ∧ px < e.1.1) := by
  rw [spansY_iff]
  unfold crossP
  by_cases hy : e.1.2 = e.2.2
  · have : ¬ ((e.1.2 ≤ py ∧ py < e.2.2) ∨ (e.2.2 ≤ py ∧ py < e.1.2)) := by
      rw [hy]; rintro (⟨a, b⟩ | ⟨a, b⟩) <;> exact absurd (lt_of_le_of_lt a b) (lt_irrefl _)
    simp [this]
  · have hx : e.1.1 = e.2.1 := h.resolve_right hy
    have : e.1.1 + (py - e.1.2) * (e.2.1 - e.1.1) / (e.2.2 - e.1.2) = e.1.1 := by
      rw [hx]; simp
    rw [this]
    simp [hx]

theorem countP_range_map {β : Type} (f : ℕ → β) (p : β → Bool) (n : ℕ) :
    ((List.range n).map f).countP p = ∑ i ∈ range n, if p (f i) = true then 1 else 0 := by
  induction n with
  | zero => simp
  | succ n ih =>
    rw [List.range_succ, List.map_append, List.countP_append, ih, sum_range_succ]
    simp [List.countP_cons]

theorem crossN_rect (px py : α) (vs : List (α × α)) (hr : rectilinear vs = true) :
    crossN px py vs = rightCount px py vs := by
  unfold rightCount crossN
  rw [cycEdges_eq, countP_range_map]
  apply sum_congr rfl
  intro i hi
  rw [mem_range] at hi
  have := crossP_rect px py (E vs i) ((rectilinear_iff vs).1 hr i hi)
  simp only [this, Bool.and_eq_true, decide_eq_true_eq, and_assoc]

/-! ### the matrix of a traced polygon -/

section matrix
variable (zero : α)

theorem getD_eq_get (l : List α) (i : ℕ) (h : i < l.length) : l.getD i zero = l[i] := by
  rw [List.getD_eq_getElem?_getD, List.getElem?_eq_getElem h]; rfl

theorem getD_lt_of_pairwise (l : List α) (h : l.Pairwise (· < ·)) (a b : ℕ) (hab : a < b) (hb : b < l.length) :
    l.getD a zero < l.getD b zero := by
  rw [getD_eq_get zero l a (by omega), getD_eq_get zero l b hb]
  exact List.pairwise_iff_getElem.1 h a b (by omega) hb hab

theorem getD_le_of_pairwise (l : List α) (h : l.Pairwise (· < ·)) (a b : ℕ) (hab : a ≤ b) (hb : b < l.length) :
    l.getD a zero ≤ l.getD b zero := by
  rcases Nat.eq_or_lt_of_le hab with rfl | hlt
  · exact le_refl _
  · exact le_of_lt (getD_lt_of_pairwise zero l h a b hlt hb)

theorem edgeSign_cast (x y : α) (e : Edge α) :
    ((edgeSign x y e : ℤ) : ZMod 2) = if e.1.1 = x ∧ e.2.1 = x ∧ spansY e y = true then 1 else 0 := by
  unfold edgeSign
  have hs := spansY_iff e y
  by_cases hx : e.1.1 = x ∧ e.2.1 = x
  · by_cases h1 : e.1.2 ≤ y ∧ y < e.2.2
    · rw [if_pos hx, if_pos h1, if_pos ⟨hx.1, hx.2, hs.2 (Or.inl h1)⟩]
      simp
    · by_cases h2 : e.2.2 ≤ y ∧ y < e.1.2
      · rw [if_pos hx, if_neg h1, if_pos h2, if_pos ⟨hx.1, hx.2, hs.2 (Or.inr h2)⟩]
        decide
      · rw [if_pos hx, if_neg h1, if_neg h2, if_neg (by rintro ⟨_, _, h⟩; rcases hs.1 h with h | h <;> tauto)]
        simp
  · rw [if_neg hx, if_neg (by rintro ⟨a, b, _⟩; exact hx ⟨a, b⟩)]
    simp

theorem edgeSign_ne (x y : α) (e : Edge α) (h : e.1.1 ≠ x) : edgeSign x y e = 0 := by
  unfold edgeSign
  rw [if_neg (fun hh => h hh.1)]

/-- one edge: "crosses to the right of the centre of column `j`" is, modulo 2, the sum of its signs on the grid
lines to the right of column `j`. -/
theorem edge_cross_cast (xs : List α) (hxs : xs.Pairwise (· < ·)) (j : ℕ) (hj : j + 1 < xs.length) (cy : α)
    (e : Edge α) (hrect : e.1.1 = e.2.1 ∨ e.1.2 = e.2.2) (hmem : e.1.1 ∈ xs) :
    (((if crossP ((xs.getD j zero + xs.getD (j + 1) zero) / two) cy e then 1 else 0 : ℕ) : ℕ) : ZMod 2)
      = ∑ k ∈ range xs.length, if j < k then ((edgeSign (xs.getD k zero) cy e : ℤ) : ZMod 2) else 0 := by
  obtain ⟨k0, hk0, hk0e⟩ := List.getElem_of_mem hmem
  have hX0 : xs.getD k0 zero = e.1.1 := by rw [getD_eq_get zero xs k0 hk0, hk0e]
  rw [sum_eq_single k0]
  · rw [edgeSign_cast, hX0]
    have hcr := crossP_rect ((xs.getD j zero + xs.getD (j + 1) zero) / two) cy e hrect
    have h2 : (two : α) = 2 := by simp [two]
    have hlt : (xs.getD j zero + xs.getD (j + 1) zero) / two < e.1.1 ↔ j < k0 := by
      rw [h2, ← hX0]
      have hj1 := getD_lt_of_pairwise zero xs hxs j (j + 1) (by omega) hj
      constructor
      · intro h
        by_contra hc
        have := getD_le_of_pairwise zero xs hxs k0 j (by omega) (by omega)
        rw [div_lt_iff₀ (by norm_num)] at h
        linarith
      · intro h
        have := getD_le_of_pairwise zero xs hxs (j + 1) k0 (by omega) hk0
        rw [div_lt_iff₀ (by norm_num)]
        linarith
    by_cases hc : crossP ((xs.getD j zero + xs.getD (j + 1) zero) / two) cy e
    · have hc' := hcr.1 hc
      have hjk : j < k0 := hlt.1 hc'.2.2
      rw [if_pos hc, if_pos hjk, if_pos ⟨rfl, hc'.1.symm, hc'.2.1⟩]
      simp
    · rw [if_neg hc]
      by_cases hjk : j < k0
      · rw [if_pos hjk, if_neg]
        · simp
        · rintro ⟨_, b, c⟩
          exact hc (hcr.2 ⟨b.symm, c, hlt.2 hjk⟩)
      · rw [if_neg hjk]; simp
  · intro k hk hne
    rw [mem_range] at hk
    have : e.1.1 ≠ xs.getD k zero := by
      rw [← hX0]
      intro heq
      rcases Nat.lt_or_gt_of_ne hne with h | h
      · have := getD_lt_of_pairwise zero xs hxs k k0 h hk0; rw [heq] at this; exact lt_irrefl _ this
      · have := getD_lt_of_pairwise zero xs hxs k0 k h hk; rw [heq] at this; exact lt_irrefl _ this
    rw [edgeSign_ne _ _ _ this]; simp
  · intro h; exact absurd (mem_range.2 hk0) h

theorem tele_int (t : ℕ → ℤ) (j : ℕ) : ∀ m, j ≤ m →
    ∑ k ∈ range (m + 1), (if j < k then t (k - 1) - t k else 0) = t j - t m := by
  intro m
  induction m with
  | zero =>
    intro h
    have : j = 0 := by omega
    subst this; simp
  | succ m ih =>
    intro h
    rw [sum_range_succ]
    rcases Nat.eq_or_lt_of_le h with rfl | hlt
    · have : ∀ k ∈ range (m + 1), (if m + 1 < k then t (k - 1) - t k else 0) = 0 := by
        intro k hk; rw [mem_range] at hk; rw [if_neg (by omega)]
      rw [sum_eq_zero this]; simp
    · rw [ih (by omega), if_pos (by omega)]
      simp only [Nat.add_sub_cancel]; ring

/-- the crossing count of the centre of column `j` at the ordinate `cy`, modulo 2: the signed edge counts of the grid
lines to its right. -/
theorem crossN_cast (vs : List (α × α)) (xs : List α) (hxs : xs.Pairwise (· < ·)) (hmem : ∀ p ∈ vs, p.1 ∈ xs)
    (hr : rectilinear vs = true) (j : ℕ) (hj : j + 1 < xs.length) (cy : α) :
    ((crossN ((xs.getD j zero + xs.getD (j + 1) zero) / two) cy vs : ℕ) : ZMod 2)
      = ∑ k ∈ range xs.length, if j < k then ((winding (xs.getD k zero) cy vs : ℤ) : ZMod 2) else 0 := by
  unfold crossN
  rw [Nat.cast_sum]
  have h1 : ∀ i ∈ range vs.length,
      (((if crossP ((xs.getD j zero + xs.getD (j + 1) zero) / two) cy (E vs i) then 1 else 0 : ℕ) : ℕ) : ZMod 2)
      = ∑ k ∈ range xs.length, if j < k then ((edgeSign (xs.getD k zero) cy (E vs i) : ℤ) : ZMod 2) else 0 := by
    intro i hi
    rw [mem_range] at hi
    exact edge_cross_cast zero xs hxs j hj cy (E vs i) ((rectilinear_iff vs).1 hr i hi) (hmem _ (E_mem vs i hi).1)
  rw [sum_congr rfl h1, sum_comm]
  apply sum_congr rfl
  intro k _
  by_cases hjk : j < k
  · simp only [hjk, if_true]
    rw [winding_eq, Int.cast_sum]
  · simp only [hjk, if_false]
    exact sum_const_zero

theorem cell_eq_get (S : Grid) (i j : ℕ) (hi : i < S.length) (hj : j < S[i].length) : cell S i j = S[i][j] := by
  unfold cell
  have : List.getD S i [] = S[i] := by
    rw [List.getD_eq_getElem?_getD, List.getElem?_eq_getElem hi]; rfl
  rw [this, List.getD_eq_getElem?_getD, List.getElem?_eq_getElem hj]
  rfl

theorem cell_out (S : Grid) (i j : ℕ) (hi : i < S.length) (hj : S[i].length ≤ j) : cell S i j = false := by
  unfold cell
  have : List.getD S i [] = S[i] := by
    rw [List.getD_eq_getElem?_getD, List.getElem?_eq_getElem hi]; rfl
  rw [this, List.getD_eq_getElem?_getD, List.getElem?_eq_none hj]
  rfl

theorem gridDims_iff (S : Grid) (nr nc : ℕ) : gridDims S nr nc = true ↔
    S.length = nr ∧ ∀ i (hi : i < S.length), S[i].length = nc := by
  unfold gridDims
  simp only [Bool.and_eq_true, beq_iff_eq, List.all_eq_true]
  constructor
  · rintro ⟨h1, h2⟩; exact ⟨h1, fun i hi => h2 _ (List.getElem_mem hi)⟩
  · rintro ⟨h1, h2⟩
    refine ⟨h1, ?_⟩
    intro r hr
    obtain ⟨i, hi, rfl⟩ := List.getElem_of_mem hr
    exact h2 i hi

theorem isBoundaryOf_iff (σ : ℤ) (S : Grid) (xs ys : List α) (vs : List (α × α)) :
    isBoundaryOf zero σ S xs ys vs = true ↔ ∀ i, i < ys.length - 1 → ∀ k, k < xs.length →
      winding (xs.getD k zero) ((ys.getD (i + 1) zero + ys.getD i zero) / two) vs
        = σ * ((if k = 0 then 0 else b2i (cell S i (k - 1))) - b2i (cell S i k)) := by
  unfold isBoundaryOf
  simp only [List.all_eq_true, List.mem_range, beq_iff_eq]

/-- one cell: the point-in-polygon answer for the centre of cell `(i, j)` is `S[i][j]`. -/
theorem pip_centre (σ : ℤ) (hσ : σ = 1 ∨ σ = -1) (S : Grid) (xs ys : List α) (vs : List (α × α))
    (hxs : xs.Pairwise (· < ·)) (hmem : ∀ p ∈ vs, p.1 ∈ xs) (hr : rectilinear vs = true)
    (hd : gridDims S (ys.length - 1) (xs.length - 1) = true) (hb : isBoundaryOf zero σ S xs ys vs = true)
    (i j : ℕ) (hi : i < ys.length - 1) (hj : j < xs.length - 1) :
    isPointInside ((xs.getD j zero + xs.getD (j + 1) zero) / two) ((ys.getD (i + 1) zero + ys.getD i zero) / two) vs
      = cell S i j := by
  obtain ⟨hd1, hd2⟩ := (gridDims_iff S _ _).1 hd
  have hiS : i < S.length := by omega
  rw [isPointInside_eq]
  have key := crossN_cast zero vs xs hxs hmem hr j (by omega) ((ys.getD (i + 1) zero + ys.getD i zero) / two)
  have hb' := (isBoundaryOf_iff zero σ S xs ys vs).1 hb i hi
  have h1 : ∀ k ∈ range xs.length,
      (if j < k then ((winding (xs.getD k zero) ((ys.getD (i + 1) zero + ys.getD i zero) / two) vs : ℤ) : ZMod 2) else 0)
      = (((if j < k then σ * (b2i (cell S i (k - 1)) - b2i (cell S i k)) else 0 : ℤ) : ℤ) : ZMod 2) := by
    intro k hk
    rw [mem_range] at hk
    by_cases hjk : j < k
    · rw [if_pos hjk, if_pos hjk, hb' k hk, if_neg (by omega)]
    · rw [if_neg hjk, if_neg hjk]; simp
  rw [sum_congr rfl h1, ← Int.cast_sum] at key
  have h2 : ∑ k ∈ range xs.length, (if j < k then σ * (b2i (cell S i (k - 1)) - b2i (cell S i k)) else 0 : ℤ)
      = σ * b2i (cell S i j) := by
    have e : ∀ k ∈ range xs.length, (if j < k then σ * (b2i (cell S i (k - 1)) - b2i (cell S i k)) else 0 : ℤ)
        = σ * (if j < k then (fun k => b2i (cell S i k)) (k - 1) - (fun k => b2i (cell S i k)) k else 0) := by
      intro k _; split <;> simp
    rw [sum_congr rfl e, ← mul_sum]
    have hlen : xs.length = (xs.length - 1) + 1 := by omega
    rw [hlen, tele_int (fun k => b2i (cell S i k)) j (xs.length - 1) (by omega)]
    have : cell S i (xs.length - 1) = false := cell_out S i _ hiS (by rw [hd2 i hiS])
    simp [this, b2i]
  rw [h2] at key
  have hodd : Odd (crossN ((xs.getD j zero + xs.getD (j + 1) zero) / two)
      ((ys.getD (i + 1) zero + ys.getD i zero) / two) vs) ↔ cell S i j = true := by
    rw [← ZMod.natCast_eq_one_iff_odd, key]
    cases hc : cell S i j
    · simp [b2i]
    · rcases hσ with rfl | rfl
      · simp [b2i]
      · simp [b2i]
  cases hc : cell S i j
  · rw [hc] at hodd
    exact decide_eq_false (fun h => by simpa using hodd.1 h)
  · rw [hc] at hodd
    exact decide_eq_true (hodd.2 rfl)

theorem tracesGrid_iff (σ : ℤ) (S : Grid) (vs : List (α × α)) : tracesGrid zero σ S vs = true ↔
    rectilinear vs = true ∧
    gridDims S ((gridOfVertices vs).2.1.length - 1) ((gridOfVertices vs).1.length - 1) = true ∧
    isBoundaryOf zero σ S (gridOfVertices vs).1 (gridOfVertices vs).2.1 vs = true := by
  unfold tracesGrid
  simp only [Bool.and_eq_true, and_assoc]

theorem xs_pairwise (vs : List (α × α)) : (gridOfVertices vs).1.Pairwise (· < ·) := sortedSet_pairwise _

theorem ys_pairwise (vs : List (α × α)) : (gridOfVertices vs).2.1.Pairwise (· > ·) := by
  show ((sortedSet (vs.map (·.2))).reverse).Pairwise (· > ·)
  rw [List.pairwise_reverse]
  exact sortedSet_pairwise _

theorem xs_mem (vs : List (α × α)) (p : α × α) (hp : p ∈ vs) : p.1 ∈ (gridOfVertices vs).1 := by
  show p.1 ∈ sortedSet (vs.map (·.1))
  rw [mem_sortedSet]; exact List.mem_map_of_mem hp

theorem ys_mem (vs : List (α × α)) (p : α × α) (hp : p ∈ vs) : p.2 ∈ (gridOfVertices vs).2.1 := by
  show p.2 ∈ (sortedSet (vs.map (·.2))).reverse
  rw [List.mem_reverse, mem_sortedSet]; exact List.mem_map_of_mem hp

/-- what `strop_decomposition` puts in cell `(i, j)` of its matrix. -/
theorem gridOfVertices_cell (vs : List (α × α)) (i j : ℕ) (hi : i < (gridOfVertices vs).2.1.length - 1)
    (hj : j < (gridOfVertices vs).1.length - 1) :
    ∃ (h1 : i < (gridOfVertices vs).2.2.length) (h2 : j < ((gridOfVertices vs).2.2)[i].length),
      ((gridOfVertices vs).2.2)[i][j] =
        isPointInside (((gridOfVertices vs).1.getD j zero + (gridOfVertices vs).1.getD (j + 1) zero) / two)
          (((gridOfVertices vs).2.1.getD (i + 1) zero + (gridOfVertices vs).2.1.getD i zero) / two) vs := by
  generalize hxs : (gridOfVertices vs).1 = xs at *
  generalize hys : (gridOfVertices vs).2.1 = ys at *
  have hg : (gridOfVertices vs).2.2 = (List.range (ys.length - 1)).map fun i => (List.range (xs.length - 1)).map fun j =>
      match xs[j]?, xs[j+1]?, ys[i]?, ys[i+1]? with
      | some xmin, some xmax, some ymax, some ymin => isPointInside ((xmin + xmax) / two) ((ymin + ymax) / two) vs
      | _, _, _, _ => false := by
    rw [← hxs, ← hys]; rfl
  rw [hg]
  refine ⟨by simp; omega, by simp; omega, ?_⟩
  simp only [List.getElem_map, List.getElem_range]
  rw [List.getElem?_eq_getElem (by omega : j < xs.length), List.getElem?_eq_getElem (by omega : j + 1 < xs.length),
    List.getElem?_eq_getElem (by omega : i < ys.length), List.getElem?_eq_getElem (by omega : i + 1 < ys.length)]
  simp only []
  rw [getD_eq_get zero xs j (by omega), getD_eq_get zero xs (j + 1) (by omega), getD_eq_get zero ys i (by omega),
    getD_eq_get zero ys (i + 1) (by omega)]

theorem gridOfVertices_dims (vs : List (α × α)) :
    gridDims (gridOfVertices vs).2.2 ((gridOfVertices vs).2.1.length - 1) ((gridOfVertices vs).1.length - 1) = true := by
  rw [gridDims_iff]
  have hg : (gridOfVertices vs).2.2 = (List.range ((gridOfVertices vs).2.1.length - 1)).map fun i =>
      (List.range ((gridOfVertices vs).1.length - 1)).map fun j =>
      match (gridOfVertices vs).1[j]?, (gridOfVertices vs).1[j+1]?, (gridOfVertices vs).2.1[i]?, (gridOfVertices vs).2.1[i+1]? with
      | some xmin, some xmax, some ymax, some ymin => isPointInside ((xmin + xmax) / two) ((ymin + ymax) / two) vs
      | _, _, _, _ => false := rfl
  generalize (gridOfVertices vs).2.2 = g at *
  subst hg
  refine ⟨by simp, ?_⟩
  intro i hi
  simp

/-- **the matrix of a traced polygon** — if the vertex list walks the boundary of the 1-cells of `S` (on the
coordinate lists the pipeline extracts from it), the matrix `strop_decomposition` hands to `Strop` is `S`. -/
theorem matrix_of_traced (σ : ℤ) (hσ : σ = 1 ∨ σ = -1) (S : Grid) (vs : List (α × α))
    (h : tracesGrid zero σ S vs = true) : (gridOfVertices vs).2.2 = S := by
  obtain ⟨hr, hd, hb⟩ := (tracesGrid_iff zero σ S vs).1 h
  obtain ⟨hd1, hd2⟩ := (gridDims_iff S _ _).1 hd
  obtain ⟨hg1, hg2⟩ := (gridDims_iff _ _ _).1 (gridOfVertices_dims vs)
  apply List.ext_getElem (by rw [hg1, hd1])
  intro i hi1 hi2
  apply List.ext_getElem (by rw [hg2 i hi1, hd2 i hi2])
  intro j hj1 hj2
  have hi : i < (gridOfVertices vs).2.1.length - 1 := by rw [← hd1]; exact hi2
  have hj : j < (gridOfVertices vs).1.length - 1 := by rw [← hd2 i hi2]; exact hj2
  obtain ⟨_, _, e⟩ := gridOfVertices_cell zero vs i j hi hj
  rw [e, pip_centre zero σ hσ S _ _ vs (xs_pairwise vs) (xs_mem vs) hr hd hb i j hi hj, cell_eq_get S i j hi2 hj2]

end matrix

end FV.Strop

import FV.Proofs.Strop.Valid
/-
  Counting: the histogram cover has exactly `total` cells, so `numCells = total` ⇔ `ValidTrunk`.
-/
namespace FV.Strop
set_option linter.unusedVariables false
set_option linter.unusedSimpArgs false

theorem sumTo_const (k w : Nat) : sumTo k (fun _ => w) = k * w := by
  induction k with
  | zero => simp [sumTo]
  | succ k ih => simp only [sumTo, ih, Nat.succ_mul]

theorem sumTo_interval (n a b : Nat) (hab : a ≤ b) (hb : b ≤ n) :
    sumTo n (fun i => if a ≤ i ∧ i < b then 1 else 0) = b - a := by
  induction n generalizing b with
  | zero =>
    have : b = 0 := by omega
    subst this; simp [sumTo]
  | succ n ih =>
    simp only [sumTo]
    by_cases hbn : b = n + 1
    · subst hbn
      by_cases han : a = n + 1
      · subst han
        have : ∀ i, i < n → (if n + 1 ≤ i ∧ i < n + 1 then 1 else 0) = (fun _ => 0) i := by
          intro i hi; have : ¬ (n + 1 ≤ i ∧ i < n + 1) := by omega
          simp [this]
        rw [sumTo_congr this, sumTo_zero]; simp
      · have h1 : ∀ i, i < n → (if a ≤ i ∧ i < n + 1 then 1 else 0) = (if a ≤ i ∧ i < n then 1 else 0) := by
          intro i hi
          have : (a ≤ i ∧ i < n + 1) ↔ (a ≤ i ∧ i < n) := by omega
          simp only [this]
        rw [sumTo_congr h1, ih n (by omega) (Nat.le_refl _)]
        have : a ≤ n ∧ n < n + 1 := by omega
        simp only [this, and_self, if_true]; omega
    · rw [ih b hab (by omega)]
      have : ¬ (a ≤ n ∧ n < b) := by omega
      simp [this]

/-- number of cells of a region given row by row as a column interval `[lo i, hi i)`, rows `a..b`. -/
theorem arm_count (nr nc a b : Nat) (lo hi : Nat → Nat) (hab : a ≤ b) (hb : b < nr)
    (h : ∀ i, a ≤ i → i ≤ b → lo i ≤ hi i ∧ hi i ≤ nc) :
    sumTo nr (fun i => sumTo nc (fun j => if (a ≤ i ∧ i ≤ b) ∧ (lo i ≤ j ∧ j < hi i) then 1 else 0))
      = sumRange a b (fun i => hi i - lo i) := by
  rw [← sumTo_indicator nr a b (fun i => hi i - lo i) hab hb]
  apply sumTo_congr
  intro i hi'
  by_cases hi2 : a ≤ i ∧ i ≤ b
  · simp only [hi2, and_self, true_and, if_true]
    exact sumTo_interval nc (lo i) (hi i) (h i hi2.1 hi2.2).1 (h i hi2.1 hi2.2).2
  · simp only [hi2, false_and, if_false]
    exact sumTo_zero nc

theorem ind_congr {P Q : Prop} [Decidable P] [Decidable Q] (h : P ↔ Q) :
    (if P then 1 else 0 : Nat) = (if Q then 1 else 0) := by
  by_cases hp : P
  · simp [hp, h.1 hp]
  · have : ¬ Q := fun hq => hp (h.2 hq)
    simp [hp, this]

section
variable (m : Grid) (T : SRect)

theorem cnt_T (hr : T.rows.low ≤ T.rows.high) (hc : T.cols.low ≤ T.cols.high)
    (hrn : T.rows.high < m.nrows) (hcn : T.cols.high < m.ncols) :
    sumTo m.nrows (fun i => sumTo m.ncols (fun j => if InT T i j then 1 else 0)) = T.area := by
  have e : ∀ i, i < m.nrows → sumTo m.ncols (fun j => if InT T i j then 1 else 0)
      = sumTo m.ncols (fun j => if (T.rows.low ≤ i ∧ i ≤ T.rows.high) ∧ (T.cols.low ≤ j ∧ j < T.cols.high + 1) then 1 else 0) := by
    intro i _; apply sumTo_congr; intro j _; apply ind_congr; omega
  rw [sumTo_congr e, arm_count m.nrows m.ncols T.rows.low T.rows.high (fun _ => T.cols.low) (fun _ => T.cols.high + 1) hr hrn
    (fun i _ _ => ⟨by omega, by omega⟩)]
  simp only [sumRange, sumTo_const, SRect.area, Interval.length]
  have e1 : T.rows.high + 1 - T.rows.low = T.rows.high - T.rows.low + 1 := by omega
  have e2 : T.cols.high + 1 - T.cols.low = T.cols.high - T.cols.low + 1 := by omega
  rw [e1, e2]

theorem cnt_W (hr : T.rows.low ≤ T.rows.high) (hrn : T.rows.high < m.nrows) (hcn : T.cols.high < m.ncols)
    (hc : T.cols.low ≤ T.cols.high) :
    sumTo m.nrows (fun i => sumTo m.ncols (fun j => if CovW m T i j then 1 else 0))
      = sumRange T.rows.low T.rows.high (hWest m T) := by
  have e : ∀ i, i < m.nrows → sumTo m.ncols (fun j => if CovW m T i j then 1 else 0)
      = sumTo m.ncols (fun j => if (T.rows.low ≤ i ∧ i ≤ T.rows.high) ∧ (T.cols.low - hWest m T i ≤ j ∧ j < T.cols.low) then 1 else 0) := by
    intro i _; apply sumTo_congr; intro j _; apply ind_congr
    have := hWest_le m T i
    omega
  rw [sumTo_congr e, arm_count m.nrows m.ncols T.rows.low T.rows.high (fun i => T.cols.low - hWest m T i) (fun _ => T.cols.low) hr hrn
    (fun i _ _ => ⟨by omega, by omega⟩)]
  simp only [sumRange]
  apply sumTo_congr; intro k _
  have := hWest_le m T (T.rows.low + k)
  omega

theorem cnt_E (hr : T.rows.low ≤ T.rows.high) (hrn : T.rows.high < m.nrows) (hcn : T.cols.high < m.ncols) :
    sumTo m.nrows (fun i => sumTo m.ncols (fun j => if CovE m T i j then 1 else 0))
      = sumRange T.rows.low T.rows.high (hEast m T) := by
  have e : ∀ i, i < m.nrows → sumTo m.ncols (fun j => if CovE m T i j then 1 else 0)
      = sumTo m.ncols (fun j => if (T.rows.low ≤ i ∧ i ≤ T.rows.high) ∧ (T.cols.high + 1 ≤ j ∧ j < T.cols.high + 1 + hEast m T i) then 1 else 0) := by
    intro i _; apply sumTo_congr; intro j _; apply ind_congr
    omega
  rw [sumTo_congr e, arm_count m.nrows m.ncols T.rows.low T.rows.high (fun _ => T.cols.high + 1) (fun i => T.cols.high + 1 + hEast m T i) hr hrn
    (fun i _ _ => ⟨by omega, by have := hEast_le m T i; omega⟩)]
  simp only [sumRange]
  apply sumTo_congr; intro k _
  omega

theorem cnt_N (hc : T.cols.low ≤ T.cols.high) (hrn : T.rows.high < m.nrows) (hcn : T.cols.high < m.ncols)
    (hr : T.rows.low ≤ T.rows.high) :
    sumTo m.nrows (fun i => sumTo m.ncols (fun j => if CovN m T i j then 1 else 0))
      = sumRange T.cols.low T.cols.high (hNorth m T) := by
  rw [sumTo_comm]
  have e : ∀ j, j < m.ncols → sumTo m.nrows (fun i => if CovN m T i j then 1 else 0)
      = sumTo m.nrows (fun i => if (T.cols.low ≤ j ∧ j ≤ T.cols.high) ∧ (T.rows.low - hNorth m T j ≤ i ∧ i < T.rows.low) then 1 else 0) := by
    intro j _; apply sumTo_congr; intro i _; apply ind_congr
    have := hNorth_le m T j
    omega
  rw [sumTo_congr e, arm_count m.ncols m.nrows T.cols.low T.cols.high (fun j => T.rows.low - hNorth m T j) (fun _ => T.rows.low) hc hcn
    (fun i _ _ => ⟨by omega, by omega⟩)]
  simp only [sumRange]
  apply sumTo_congr; intro k _
  have := hNorth_le m T (T.cols.low + k)
  omega

theorem cnt_S (hc : T.cols.low ≤ T.cols.high) (hrn : T.rows.high < m.nrows) (hcn : T.cols.high < m.ncols) :
    sumTo m.nrows (fun i => sumTo m.ncols (fun j => if CovS m T i j then 1 else 0))
      = sumRange T.cols.low T.cols.high (hSouth m T) := by
  rw [sumTo_comm]
  have e : ∀ j, j < m.ncols → sumTo m.nrows (fun i => if CovS m T i j then 1 else 0)
      = sumTo m.nrows (fun i => if (T.cols.low ≤ j ∧ j ≤ T.cols.high) ∧ (T.rows.high + 1 ≤ i ∧ i < T.rows.high + 1 + hSouth m T j) then 1 else 0) := by
    intro j _; apply sumTo_congr; intro i _; apply ind_congr
    omega
  rw [sumTo_congr e, arm_count m.ncols m.nrows T.cols.low T.cols.high (fun _ => T.rows.high + 1) (fun j => T.rows.high + 1 + hSouth m T j) hc hcn
    (fun j _ _ => ⟨by omega, by have := hSouth_le m T j; omega⟩)]
  simp only [sumRange]
  apply sumTo_congr; intro k _
  omega

theorem ind_or5 (P1 P2 P3 P4 P5 : Prop) [Decidable P1] [Decidable P2] [Decidable P3] [Decidable P4] [Decidable P5]
    (h12 : ¬ (P1 ∧ P2)) (h13 : ¬ (P1 ∧ P3)) (h14 : ¬ (P1 ∧ P4)) (h15 : ¬ (P1 ∧ P5)) (h23 : ¬ (P2 ∧ P3))
    (h24 : ¬ (P2 ∧ P4)) (h25 : ¬ (P2 ∧ P5)) (h34 : ¬ (P3 ∧ P4)) (h35 : ¬ (P3 ∧ P5)) (h45 : ¬ (P4 ∧ P5)) :
    (if P1 ∨ P2 ∨ P3 ∨ P4 ∨ P5 then 1 else 0 : Nat) =
      (if P1 then 1 else 0) + (if P2 then 1 else 0) + (if P3 then 1 else 0) + (if P4 then 1 else 0)
      + (if P5 then 1 else 0) := by
  by_cases h1 : P1 <;> by_cases h2 : P2 <;> by_cases h3 : P3 <;> by_cases h4 : P4 <;> by_cases h5 : P5 <;>
    simp_all

theorem ind_cov (i j : Nat) (hr : T.rows.low ≤ T.rows.high) (hc : T.cols.low ≤ T.cols.high) :
    (if Cov m T i j then 1 else 0 : Nat) =
      (if InT T i j then 1 else 0) + (if CovN m T i j then 1 else 0) + (if CovS m T i j then 1 else 0)
      + (if CovW m T i j then 1 else 0) + (if CovE m T i j then 1 else 0) := by
  apply ind_or5
  all_goals (rintro ⟨⟨a1, a2, a3, a4⟩, ⟨b1, b2, b3, b4⟩⟩; omega)

/-- the histogram cover has `total` cells. -/
theorem cnt_cov (hr : T.rows.low ≤ T.rows.high) (hc : T.cols.low ≤ T.cols.high)
    (hrn : T.rows.high < m.nrows) (hcn : T.cols.high < m.ncols) :
    sumTo m.nrows (fun i => sumTo m.ncols (fun j => if Cov m T i j then 1 else 0)) = total m T := by
  have e : ∀ i, i < m.nrows → sumTo m.ncols (fun j => if Cov m T i j then 1 else 0) =
      sumTo m.ncols (fun j => if InT T i j then 1 else 0) + sumTo m.ncols (fun j => if CovN m T i j then 1 else 0)
      + sumTo m.ncols (fun j => if CovS m T i j then 1 else 0) + sumTo m.ncols (fun j => if CovW m T i j then 1 else 0)
      + sumTo m.ncols (fun j => if CovE m T i j then 1 else 0) := by
    intro i _
    rw [← sumTo_add, ← sumTo_add, ← sumTo_add, ← sumTo_add]
    apply sumTo_congr; intro j _; exact ind_cov m T i j hr hc
  rw [sumTo_congr e, sumTo_add, sumTo_add, sumTo_add, sumTo_add,
    cnt_T m T hr hc hrn hcn, cnt_N m T hc hrn hcn hr, cnt_S m T hc hrn hcn, cnt_W m T hr hrn hcn hc, cnt_E m T hr hrn hcn]
  simp only [total, sumRange_add]
  omega

end

/-- the cell-count test decides `ValidTrunk`. -/
theorem valid_iff_count (m : Grid) (hwf : m.wf = true) (T : SRect) (hr : T.rows.low ≤ T.rows.high)
    (hc : T.cols.low ≤ T.cols.high) (hones : ∀ i j, InT T i j → cell m i j = true) :
    numCells m = total m T ↔ ValidTrunk m T := by
  have hcell := hones T.rows.high T.cols.high ⟨hr, Nat.le_refl _, hc, Nat.le_refl _⟩
  have hrn := cell_lt_rows hcell
  have hcn := cell_lt_cols hwf hcell
  rw [validTrunk_iff_cov m hwf T hr hc hones, ← cnt_cov m T hr hc hrn hcn]
  unfold numCells
  have hle : ∀ i j, (if Cov m T i j then 1 else 0 : Nat) ≤ (if cell m i j = true then 1 else 0) := by
    intro i j
    by_cases h : Cov m T i j
    · simp [h, cov_imp_cell m T hones i j h]
    · simp [h]
  constructor
  · intro he i j hcell
    have hrow := sumTo_eq_of_le (n := m.nrows)
      (f := fun i => sumTo m.ncols (fun j => if Cov m T i j then 1 else 0))
      (g := fun i => sumTo m.ncols (fun j => if cell m i j = true then 1 else 0))
      (fun i _ => sumTo_le (fun j _ => hle i j)) he.symm i (cell_lt_rows hcell)
    have := sumTo_eq_of_le (n := m.ncols) (fun j _ => hle i j) hrow j (cell_lt_cols hwf hcell)
    by_cases h : Cov m T i j
    · exact h
    · simp [h, hcell] at this
  · intro h
    apply sumTo_congr; intro i _; apply sumTo_congr; intro j _
    by_cases hcell : cell m i j = true
    · simp [hcell, h i j hcell]
    · have : ¬ Cov m T i j := fun hc => hcell (cov_imp_cell m T hones i j hc)
      simp [hcell, this]

end FV.Strop

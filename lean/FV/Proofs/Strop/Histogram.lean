import FV.Proofs.Strop.Classes
/-
  A second class for which `tracesGrid` is proved: histogram (staircase) polygons — columns of arbitrary heights
  standing on a common base line.
-/
namespace FV.Strop
open Finset
set_option linter.unusedVariables false
set_option linter.unusedSimpArgs false
set_option linter.unusedSectionVars false

variable {α : Type} [Field α] [LinearOrder α] [IsStrictOrderedRing α]

/-! ### sums over the cyclic edges, structurally -/

/-- `Σ f(pᵢ, pᵢ₊₁)` along an open path. -/
def pathSum {M : Type} [AddCommMonoid M] (f : Edge α → M) : List (α × α) → M
  | p :: q :: r => f (p, q) + pathSum f (q :: r)
  | _ => 0

theorem pathSum_eq {M : Type} [AddCommMonoid M] (f : Edge α → M) : ∀ (vs : List (α × α)),
    pathSum f vs = ∑ i ∈ range (vs.length - 1), f (vs.getD i (0, 0), vs.getD (i + 1) (0, 0)) := by
  intro vs
  induction vs with
  | nil => simp [pathSum]
  | cons p r ih =>
    cases r with
    | nil => simp [pathSum]
    | cons q r =>
      rw [pathSum, ih]
      simp only [List.length_cons, Nat.add_sub_cancel]
      rw [sum_range_succ' (fun i => f ((p :: q :: r).getD i (0, 0), (p :: q :: r).getD (i + 1) (0, 0)))]
      rw [add_comm]
      congr 1

/-- the cyclic edge sum of a non-empty list = the open path + the closing edge. -/
theorem sum_edges_path {M : Type} [AddCommMonoid M] (f : Edge α → M) (vs : List (α × α)) (hne : vs ≠ []) :
    ∑ i ∈ range vs.length, f (E vs i) = pathSum f vs + f (vs.getD (vs.length - 1) (0, 0), vs.getD 0 (0, 0)) := by
  have hpos : 0 < vs.length := List.length_pos_of_ne_nil hne
  have hlen : vs.length = (vs.length - 1) + 1 := by omega
  rw [pathSum_eq]
  conv_lhs => rw [hlen, sum_range_succ]
  congr 1
  · apply sum_congr rfl
    intro i hi
    rw [mem_range] at hi
    unfold E
    rw [Nat.mod_eq_of_lt (by omega)]
  · unfold E
    have : (vs.length - 1 + 1) % vs.length = 0 := by rw [← hlen, Nat.mod_self]
    rw [this]

/-! ### the histogram loop -/

/-- along the tops, left to right: `(x₀,h₀) (x₁,h₀) (x₁,h₁) (x₂,h₁) …`. -/
def walk : List α → List α → List (α × α)
  | x0 :: x1 :: xs, h :: hs => (x0, h) :: (x1, h) :: walk (x1 :: xs) hs
  | _, _ => []

/-- the histogram polygon with column boundaries `x0 :: xr`, column heights `hs` and base line `b`, clockwise:
base-left corner, up, along the tops to the right, down to the base-right corner. -/
def histLoop (x0 : α) (xr hs : List α) (b : α) : List (α × α) :=
  (x0, b) :: (walk (x0 :: xr) hs ++ [(xr.getLastD x0, b)])

/-- `1` if the ordinate lies below the level. -/
def gLev (cy l : α) : ℤ := if cy < l then 1 else 0

theorem edgeSign_vert (x cy a l1 l2 : α) :
    edgeSign x cy ((a, l1), (a, l2)) = if a = x then gLev cy l2 - gLev cy l1 else 0 := by
  unfold edgeSign gLev
  by_cases ha : a = x
  · subst ha
    simp only [and_self, if_true]
    by_cases h1 : cy < l1
    · have n1 : ¬ (l1 ≤ cy ∧ cy < l2) := fun h => absurd h1 (not_lt.2 h.1)
      by_cases h2 : cy < l2
      · have n2 : ¬ (l2 ≤ cy ∧ cy < l1) := fun h => absurd h2 (not_lt.2 h.1)
        rw [if_neg n1, if_neg n2, if_pos h1, if_pos h2]; norm_num
      · rw [if_neg n1, if_pos ⟨not_lt.1 h2, h1⟩, if_pos h1, if_neg h2]; norm_num
    · have n2 : ¬ (l2 ≤ cy ∧ cy < l1) := fun h => h1 h.2
      by_cases h2 : cy < l2
      · rw [if_pos ⟨not_lt.1 h1, h2⟩, if_neg h1, if_pos h2]; norm_num
      · have n1 : ¬ (l1 ≤ cy ∧ cy < l2) := fun h => h2 h.2
        rw [if_neg n1, if_neg n2, if_neg h1, if_neg h2]; norm_num
  · simp [ha]

theorem edgeSign_flat (x cy a a' l : α) : edgeSign x cy ((a, l), (a', l)) = 0 := by
  unfold edgeSign
  have n1 : ¬ (l ≤ cy ∧ cy < l) := fun h => absurd (lt_of_le_of_lt h.1 h.2) (lt_irrefl _)
  simp [n1]

/-- the signed edge count of the open path `(x0, l) → tops → (xₙ, b)` on the line `x`. -/
def walkW (x cy b : α) : α → List α → List α → α → ℤ
  | x0, x1 :: xr, h :: hs, l => (if x0 = x then gLev cy h - gLev cy l else 0) + walkW x cy b x1 xr hs h
  | x0, _, _, l => (if x0 = x then gLev cy b - gLev cy l else 0)

theorem pathSum_walk (x cy b : α) : ∀ (hs xr : List α) (x0 l : α), xr.length = hs.length →
    pathSum (edgeSign x cy) ((x0, l) :: (walk (x0 :: xr) hs ++ [(xr.getLastD x0, b)])) = walkW x cy b x0 xr hs l := by
  intro hs
  induction hs with
  | nil =>
    intro xr x0 l hlen
    have : xr = [] := List.length_eq_zero_iff.1 hlen
    subst this
    simp [walk, pathSum, walkW, edgeSign_vert]
  | cons h hs ih =>
    intro xr x0 l hlen
    cases xr with
    | nil => simp at hlen
    | cons x1 xr =>
      have hlen' : xr.length = hs.length := by simpa using hlen
      have := ih xr x1 h hlen'
      simp only [walk, List.cons_append, pathSum, walkW, List.getLastD_cons] at this ⊢
      rw [this, edgeSign_vert, edgeSign_flat]
      ring

theorem winding_histLoop (x cy b x0 : α) (xr hs : List α) (hlen : xr.length = hs.length) :
    winding x cy (histLoop x0 xr hs b) = walkW x cy b x0 xr hs b := by
  rw [winding_eq, sum_edges_path (fun e => edgeSign x cy e) _ (by simp [histLoop])]
  have hp := pathSum_walk x cy b hs xr x0 b hlen
  unfold histLoop
  rw [hp]
  have h0 : ((x0, b) :: (walk (x0 :: xr) hs ++ [(xr.getLastD x0, b)])).getD 0 (0, 0) = (x0, b) := rfl
  have h1 : ((x0, b) :: (walk (x0 :: xr) hs ++ [(xr.getLastD x0, b)])).getD
      (((x0, b) :: (walk (x0 :: xr) hs ++ [(xr.getLastD x0, b)])).length - 1) (0, 0) = (xr.getLastD x0, b) := by
    simp [List.getD_eq_getElem?_getD]
  rw [h0, h1, edgeSign_flat, add_zero]

theorem walkW_notMem (x cy b : α) : ∀ (hs xr : List α) (x0 l : α), x ∉ x0 :: xr → walkW x cy b x0 xr hs l = 0 := by
  intro hs
  induction hs with
  | nil =>
    intro xr x0 l hx
    have : x0 ≠ x := fun h => hx (by simp [h])
    cases xr <;> simp [walkW, this]
  | cons h hs ih =>
    intro xr x0 l hx
    have h0 : x0 ≠ x := fun h => hx (by simp [h])
    cases xr with
    | nil => simp [walkW, h0]
    | cons x1 xr =>
      have : x ∉ x1 :: xr := fun h => hx (List.mem_cons_of_mem _ h)
      simp [walkW, h0, ih xr x1 h this]

/-- the level of the path before / after the `k`-th vertical step. -/
def lv (b : α) : List α → α → ℕ → α
  | _, l, 0 => l
  | [], _, _ + 1 => b
  | h :: hs, _, k + 1 => lv b hs h k

theorem lv_succ (b : α) : ∀ (hs : List α) (l : α) (k : ℕ), lv b hs l (k + 1) = hs.getD k b := by
  intro hs
  induction hs with
  | nil => intro l k; simp [lv]
  | cons h hs ih =>
    intro l k
    cases k with
    | zero => simp [lv]
    | succ k => simp [lv, ih]

theorem walkW_at (cy b : α) : ∀ (k : ℕ) (hs xr : List α) (x0 l : α), (x0 :: xr).Pairwise (· < ·) →
    xr.length = hs.length → k ≤ hs.length →
    walkW ((x0 :: xr).getD k 0) cy b x0 xr hs l = gLev cy (lv b hs l (k + 1)) - gLev cy (lv b hs l k) := by
  intro k
  induction k with
  | zero =>
    intro hs xr x0 l hp hlen _
    cases hs with
    | nil =>
      have : xr = [] := List.length_eq_zero_iff.1 hlen
      subst this
      simp [walkW, lv]
    | cons h hs =>
      cases xr with
      | nil => simp at hlen
      | cons x1 xr =>
        have hnm : x0 ∉ x1 :: xr := by
          intro hm
          exact lt_irrefl _ ((List.pairwise_cons.1 hp).1 x0 hm)
        simp [walkW, lv, walkW_notMem x0 cy b hs xr x1 h hnm]
  | succ k ih =>
    intro hs xr x0 l hp hlen hk
    cases hs with
    | nil => simp at hk
    | cons h hs =>
      cases xr with
      | nil => simp at hlen
      | cons x1 xr =>
        have hp' : (x1 :: xr).Pairwise (· < ·) := (List.pairwise_cons.1 hp).2
        have hlen' : xr.length = hs.length := by simpa using hlen
        have hk' : k ≤ hs.length := by simpa using hk
        have hget : (x0 :: x1 :: xr).getD (k + 1) 0 = (x1 :: xr).getD k 0 := by simp
        have hmem : (x1 :: xr).getD k 0 ∈ x1 :: xr := by
          have hk2 : k < (x1 :: xr).length := by simp; omega
          rw [List.getD_eq_getElem?_getD, List.getElem?_eq_getElem hk2]
          exact List.getElem_mem _
        have hne : x0 ≠ (x1 :: xr).getD k 0 := ne_of_lt ((List.pairwise_cons.1 hp).1 _ hmem)
        rw [hget]
        have := ih hs xr x1 h hp' hlen' hk'
        simp only [walkW, lv, if_neg hne, zero_add]
        exact this

/-! ### the points of the loop -/

theorem mem_walk (p : α × α) : ∀ (hs xr : List α) (x0 : α), p ∈ walk (x0 :: xr) hs → p.1 ∈ x0 :: xr ∧ p.2 ∈ hs := by
  intro hs
  induction hs with
  | nil => intro xr x0 h; cases xr <;> simp [walk] at h
  | cons h hs ih =>
    intro xr x0 hm
    cases xr with
    | nil => simp [walk] at hm
    | cons x1 xr =>
      simp only [walk, List.mem_cons] at hm
      rcases hm with rfl | rfl | hm
      · simp
      · simp
      · obtain ⟨a, b⟩ := ih xr x1 hm
        exact ⟨List.mem_cons_of_mem _ a, List.mem_cons_of_mem _ b⟩

theorem walk_has_h : ∀ (hs xr : List α) (x0 : α), xr.length = hs.length → ∀ h ∈ hs, ∃ x, (x, h) ∈ walk (x0 :: xr) hs := by
  intro hs
  induction hs with
  | nil => intro xr x0 _ h hh; simp at hh
  | cons h0 hs ih =>
    intro xr x0 hlen h hh
    cases xr with
    | nil => simp at hlen
    | cons x1 xr =>
      rcases List.mem_cons.1 hh with rfl | hh
      · exact ⟨x0, by simp [walk]⟩
      · obtain ⟨x, hx⟩ := ih xr x1 (by simpa using hlen) h hh
        exact ⟨x, by simp [walk, hx]⟩

theorem walk_has_x : ∀ (hs xr : List α) (x0 : α), xr.length = hs.length → ∀ x ∈ xr, ∃ h, (x, h) ∈ walk (x0 :: xr) hs := by
  intro hs
  induction hs with
  | nil =>
    intro xr x0 hlen x hx
    have : xr = [] := List.length_eq_zero_iff.1 hlen
    subst this; simp at hx
  | cons h0 hs ih =>
    intro xr x0 hlen x hx
    cases xr with
    | nil => simp at hlen
    | cons x1 xr =>
      rcases List.mem_cons.1 hx with rfl | hx
      · exact ⟨h0, by simp [walk]⟩
      · obtain ⟨h, hh⟩ := ih xr x1 (by simpa using hlen) x hx
        exact ⟨h, by simp [walk, hh]⟩

theorem getLastD_mem : ∀ (xr : List α) (x0 : α), xr.getLastD x0 ∈ x0 :: xr := by
  intro xr
  induction xr with
  | nil => intro x0; simp
  | cons x1 xr ih =>
    intro x0
    rw [List.getLastD_cons]
    exact List.mem_cons_of_mem _ (ih x1)

theorem mem_histLoop_fst (x0 b : α) (xr hs : List α) (hlen : xr.length = hs.length) (x : α) :
    x ∈ (histLoop x0 xr hs b).map (·.1) ↔ x ∈ x0 :: xr := by
  simp only [List.mem_map]
  constructor
  · rintro ⟨p, hp, rfl⟩
    unfold histLoop at hp
    simp only [List.mem_cons, List.mem_append, List.mem_nil_iff, or_false] at hp
    rcases hp with rfl | hp | rfl
    · simp
    · exact (mem_walk p hs xr x0 hp).1
    · exact getLastD_mem xr x0
  · intro hx
    rcases List.mem_cons.1 hx with rfl | hx
    · exact ⟨(x, b), by simp [histLoop], rfl⟩
    · obtain ⟨h, hh⟩ := walk_has_x hs xr x0 hlen x hx
      exact ⟨(x, h), by simp [histLoop, hh], rfl⟩

theorem mem_histLoop_snd (x0 b : α) (xr hs : List α) (hlen : xr.length = hs.length) (y : α) :
    y ∈ (histLoop x0 xr hs b).map (·.2) ↔ (y = b ∨ y ∈ hs) := by
  simp only [List.mem_map]
  constructor
  · rintro ⟨p, hp, rfl⟩
    unfold histLoop at hp
    simp only [List.mem_cons, List.mem_append, List.mem_nil_iff, or_false] at hp
    rcases hp with rfl | hp | rfl
    · simp
    · exact Or.inr (mem_walk p hs xr x0 hp).2
    · simp
  · rintro (rfl | hy)
    · exact ⟨(x0, y), by simp [histLoop], rfl⟩
    · obtain ⟨x, hx⟩ := walk_has_h hs xr x0 hlen y hy
      exact ⟨(x, y), by simp [histLoop, hx], rfl⟩

/-! ### the theorem -/

/-- the pattern of the histogram on the pipeline's own ordinates: cell `(i, j)` is inside iff column `j` reaches the
top `ys[i]` of row `i`. -/
def histGrid (zero : α) (ys hs : List α) : Grid :=
  (List.range (ys.length - 1)).map fun i => hs.map fun h => decide (ys.getD i zero ≤ h)

theorem histLoop_xs (x0 b : α) (xr hs : List α) (hp : (x0 :: xr).Pairwise (· < ·)) (hlen : xr.length = hs.length) :
    (gridOfVertices (histLoop x0 xr hs b)).1 = x0 :: xr :=
  (sortedSet_pairwise _).eq_of_mem_iff hp (fun x => by
    rw [mem_sortedSet]; exact mem_histLoop_fst x0 b xr hs hlen x)

theorem histLoop_ys_mem (x0 b : α) (xr hs : List α) (hlen : xr.length = hs.length) (y : α) :
    y ∈ (gridOfVertices (histLoop x0 xr hs b)).2.1 ↔ (y = b ∨ y ∈ hs) := by
  show y ∈ (sortedSet ((histLoop x0 xr hs b).map (·.2))).reverse ↔ _
  rw [List.mem_reverse, mem_sortedSet]
  exact mem_histLoop_snd x0 b xr hs hlen y

/-- every consecutive pair of an open path satisfies `P`. -/
def PathAll (P : Edge α → Prop) : List (α × α) → Prop
  | p :: q :: r => P (p, q) ∧ PathAll P (q :: r)
  | _ => True

theorem pathAll_get (P : Edge α → Prop) : ∀ (vs : List (α × α)), PathAll P vs →
    ∀ i, i + 1 < vs.length → P (vs.getD i (0, 0), vs.getD (i + 1) (0, 0)) := by
  intro vs
  induction vs with
  | nil => intro _ i hi; simp at hi
  | cons p r ih =>
    cases r with
    | nil => intro _ i hi; simp at hi
    | cons q r =>
      intro h i hi
      obtain ⟨h1, h2⟩ := h
      cases i with
      | zero => simpa using h1
      | succ i =>
        have := ih h2 i (by simp at hi ⊢; omega)
        simpa using this

theorem rectilinear_of_path (vs : List (α × α)) (hne : vs ≠ [])
    (hpath : PathAll (fun e => e.1.1 = e.2.1 ∨ e.1.2 = e.2.2) vs)
    (hclose : (vs.getD (vs.length - 1) (0, 0)).1 = (vs.getD 0 (0, 0)).1 ∨
      (vs.getD (vs.length - 1) (0, 0)).2 = (vs.getD 0 (0, 0)).2) : rectilinear vs = true := by
  have hpos : 0 < vs.length := List.length_pos_of_ne_nil hne
  rw [rectilinear_iff]
  intro i hi
  unfold E
  rcases Nat.lt_or_ge (i + 1) vs.length with h | h
  · rw [Nat.mod_eq_of_lt h]
    exact pathAll_get _ vs hpath i h
  · have hi' : i = vs.length - 1 := by omega
    have : (i + 1) % vs.length = 0 := by rw [hi']; have : vs.length - 1 + 1 = vs.length := by omega
                                         rw [this, Nat.mod_self]
    rw [this, hi']
    exact hclose

theorem pathAll_walk : ∀ (hs xr : List α) (x0 l b : α), xr.length = hs.length →
    PathAll (fun e => e.1.1 = e.2.1 ∨ e.1.2 = e.2.2) ((x0, l) :: (walk (x0 :: xr) hs ++ [(xr.getLastD x0, b)])) := by
  intro hs
  induction hs with
  | nil =>
    intro xr x0 l b hlen
    have : xr = [] := List.length_eq_zero_iff.1 hlen
    subst this
    simp [walk, PathAll]
  | cons h hs ih =>
    intro xr x0 l b hlen
    cases xr with
    | nil => simp at hlen
    | cons x1 xr =>
      have := ih xr x1 h b (by simpa using hlen)
      simp only [walk, List.cons_append, PathAll, List.getLastD_cons] at this ⊢
      simp only [true_or, or_true, true_and]
      exact this

theorem histLoop_rectilinear (x0 b : α) (xr hs : List α) (hlen : xr.length = hs.length) :
    rectilinear (histLoop x0 xr hs b) = true := by
  apply rectilinear_of_path _ (by simp [histLoop]) (pathAll_walk hs xr x0 b b hlen)
  right
  simp [List.getD_eq_getElem?_getD]

theorem cell_histGrid (zero : α) (ys hs : List α) (i j : ℕ) (hi : i < ys.length - 1) :
    cell (histGrid zero ys hs) i j = if h : j < hs.length then decide (ys.getD i zero ≤ hs[j]) else false := by
  have hi' : i < (histGrid zero ys hs).length := by simp [histGrid, hi]
  have hrow : (histGrid zero ys hs)[i] = hs.map fun h => decide (ys.getD i zero ≤ h) := by simp [histGrid]
  by_cases hj : j < hs.length
  · rw [dif_pos hj, cell_eq_get _ i j hi' (by rw [hrow]; simpa using hj)]
    simp [hrow]
  · rw [dif_neg hj, cell_out _ i j hi' (by rw [hrow]; simp; omega)]

/-- **histogram polygons** — columns of heights `hs` (all above the base line `b`) between the abscissae `x0 :: xr`
(strictly increasing), walked clockwise: the loop walks the boundary of the histogram's pattern on the pipeline's own
ordinates. -/
theorem histLoop_traces (zero : α) (x0 b : α) (xr hs : List α) (hp : (x0 :: xr).Pairwise (· < ·))
    (hlen : xr.length = hs.length) (hb : ∀ h ∈ hs, b < h) :
    tracesGrid zero (-1) (histGrid zero (gridOfVertices (histLoop x0 xr hs b)).2.1 hs) (histLoop x0 xr hs b) = true := by
  rw [tracesGrid_iff]
  have hxs := histLoop_xs x0 b xr hs hp hlen
  have hym := histLoop_ys_mem x0 b xr hs hlen
  have hys := ys_pairwise (histLoop x0 xr hs b)
  generalize (gridOfVertices (histLoop x0 xr hs b)).2.1 = ys at *
  rw [hxs]
  refine ⟨histLoop_rectilinear x0 b xr hs hlen, ?_, ?_⟩
  · rw [gridDims_iff]
    refine ⟨by simp [histGrid], ?_⟩
    intro i hi
    simp [histGrid, hlen]
  · rw [isBoundaryOf_iff]
    intro i hi k hk
    have hk' : k ≤ hs.length := by simp at hk; omega
    generalize hcy : (ys.getD (i + 1) zero + ys.getD i zero) / two = cy
    have h2 : (two : α) = 2 := by simp [two]
    have hstep := getD_gt_of_pairwise zero ys hys i (i + 1) (by omega) (by omega)
    have hlo : ys.getD (i + 1) zero < cy := by rw [← hcy, h2, lt_div_iff₀ (by norm_num)]; linarith
    have hhi : cy < ys.getD i zero := by rw [← hcy, h2, div_lt_iff₀ (by norm_num)]; linarith
    -- the base line lies below every row
    have hmin : ∀ y ∈ ys, b ≤ y := by
      intro y hy
      rcases (hym y).1 hy with rfl | hh
      · exact le_refl _
      · exact le_of_lt (hb y hh)
    have hgb : gLev cy b = 0 := by
      have : b ≤ ys.getD (i + 1) zero := hmin _ (by
        rw [getD_eq_get zero ys (i + 1) (by omega)]; exact List.getElem_mem _)
      unfold gLev
      rw [if_neg (not_lt.2 (le_trans this (le_of_lt hlo)))]
    -- a column reaches the top of row i iff its height is above the row's centre
    have hcol : ∀ h ∈ hs, gLev cy h = b2i (decide (ys.getD i zero ≤ h)) := by
      intro h hh
      obtain ⟨a, ha, hae⟩ := List.getElem_of_mem ((hym h).2 (Or.inr hh))
      have hYa : ys.getD a zero = h := by rw [getD_eq_get zero ys a ha, hae]
      unfold gLev
      by_cases hc : cy < h
      · have : ys.getD i zero ≤ h := by
          by_contra hn
          have hai : i < a := by
            by_contra hge
            have := getD_ge_of_pairwise zero ys hys a i (by omega) (by omega)
            rw [hYa] at this
            exact hn this
          have := getD_ge_of_pairwise zero ys hys (i + 1) a (by omega) ha
          rw [hYa] at this
          exact absurd (lt_of_lt_of_le hc this) (not_lt.2 (le_of_lt hlo))
        rw [if_pos hc, decide_eq_true this]; rfl
      · have : ¬ ys.getD i zero ≤ h := fun hle => hc (lt_of_lt_of_le hhi hle)
        rw [if_neg hc, decide_eq_false this]; rfl
    have hcell : ∀ j, gLev cy (hs.getD j b) = b2i (cell (histGrid zero ys hs) i j) := by
      intro j
      rw [cell_histGrid zero ys hs i j hi]
      by_cases hj : j < hs.length
      · rw [dif_pos hj, List.getD_eq_getElem?_getD, List.getElem?_eq_getElem hj]
        exact hcol _ (List.getElem_mem _)
      · rw [dif_neg hj, List.getD_eq_getElem?_getD, List.getElem?_eq_none (by omega)]
        simpa [b2i] using hgb
    have hX : (x0 :: xr).getD k zero = (x0 :: xr).getD k 0 := by
      rw [getD_eq_get zero _ k hk, getD_eq_get 0 _ k hk]
    rw [hX, winding_histLoop _ cy b x0 xr hs hlen, walkW_at cy b k hs xr x0 b hp hlen hk', lv_succ, hcell]
    cases k with
    | zero => simp [lv, hgb]
    | succ k =>
      rw [lv_succ, hcell]
      simp

end FV.Strop

import FV.Proofs.Strop.Basic
import Mathlib.Algebra.BigOperators.Ring.Finset
import Mathlib.Algebra.BigOperators.Intervals
import Mathlib.Algebra.Order.Field.Basic
import Mathlib.Algebra.Group.Nat.Even
import Mathlib.Data.List.Rotate
import Mathlib.Data.List.Sort
import Mathlib.Tactic.Ring
import Mathlib.Tactic.FieldSimp
import Mathlib.Tactic.Linarith
/-
  `is_point_inside_polygon` (even–odd rule): the loop is the parity of the number of crossing edges; that number does
  not depend on the start vertex nor on the orientation; for an axis-parallel loop only vertical edges count.
-/
namespace FV.Strop
open Finset
set_option linter.unusedVariables false
set_option linter.unusedSimpArgs false
set_option linter.unusedSectionVars false

variable {α : Type} [Field α] [LinearOrder α] [IsStrictOrderedRing α]

abbrev Edge (α : Type) := (α × α) × (α × α)

/-- total form of `edgeAt` (the cyclic edge number `i`). -/
def E (vs : List (α × α)) (i : ℕ) : Edge α :=
  (vs.getD i (0, 0), vs.getD ((i + 1) % vs.length) (0, 0))

theorem edgeAt_eq (vs : List (α × α)) (i : ℕ) (hi : i < vs.length) : edgeAt vs i = some (E vs i) := by
  have h2 : (i + 1) % vs.length < vs.length := Nat.mod_lt _ (by omega)
  unfold edgeAt E
  rw [List.getElem?_eq_getElem hi, List.getElem?_eq_getElem h2]
  simp [List.getD_eq_getElem?_getD, List.getElem?_eq_getElem hi, List.getElem?_eq_getElem h2]

theorem edgeAt_none (vs : List (α × α)) (i : ℕ) (hi : vs.length ≤ i) : edgeAt vs i = none := by
  unfold edgeAt
  rw [List.getElem?_eq_none hi]

theorem cycEdges_eq (vs : List (α × α)) : cycEdges vs = (List.range vs.length).map (E vs) := by
  unfold cycEdges
  rw [← List.filterMap_eq_map]
  apply List.filterMap_congr
  intro i hi
  rw [List.mem_range] at hi
  simp [edgeAt_eq vs i hi]

/-- the edge toggles the answer: `(p1.y <= y < p2.y or p2.y <= y < p1.y) and x < intersect_x`. -/
def crossP (px py : α) (e : Edge α) : Prop :=
  ((e.1.2 ≤ py ∧ py < e.2.2) ∨ (e.2.2 ≤ py ∧ py < e.1.2)) ∧
    px < e.1.1 + (py - e.1.2) * (e.2.1 - e.1.1) / (e.2.2 - e.1.2)

instance (px py : α) (e : Edge α) : Decidable (crossP px py e) := by unfold crossP; infer_instance

/-- number of edges that toggle the answer. -/
def crossN (px py : α) (vs : List (α × α)) : ℕ := ∑ i ∈ range vs.length, if crossP px py (E vs i) then 1 else 0

/-- the loop body of `is_point_inside_polygon`. -/
def pipBody (px py : α) (vs : List (α × α)) (i : ℕ) (inside : Bool) : Bool :=
  match vs[i]?, vs[(i + 1) % vs.length]? with
  | some p1, some p2 =>
    if (p1.2 ≤ py ∧ py < p2.2) ∨ (p2.2 ≤ py ∧ py < p1.2) then
      let ix := p1.1 + (py - p1.2) * (p2.1 - p1.1) / (p2.2 - p1.2)
      if px < ix then !inside else inside
    else inside
  | _, _ => inside

theorem isPointInside_body (px py : α) (vs : List (α × α)) :
    isPointInside px py vs = forUp 0 vs.length (pipBody px py vs) false := rfl

theorem pipBody_eq (px py : α) (vs : List (α × α)) (i : ℕ) (hi : i < vs.length) (s : Bool) :
    pipBody px py vs i s = if crossP px py (E vs i) then !s else s := by
  have h2 : (i + 1) % vs.length < vs.length := Nat.mod_lt _ (by omega)
  have hE : E vs i = (vs[i], vs[(i + 1) % vs.length]) := by
    simp [E, List.getD_eq_getElem?_getD, List.getElem?_eq_getElem hi, List.getElem?_eq_getElem h2]
  unfold pipBody
  simp only [List.getElem?_eq_getElem hi, List.getElem?_eq_getElem h2]
  rw [hE]
  unfold crossP
  by_cases h1 : (vs[i].2 ≤ py ∧ py < vs[(i + 1) % vs.length].2) ∨ (vs[(i + 1) % vs.length].2 ≤ py ∧ py < vs[i].2)
  · simp only [h1, if_true, true_and]
  · simp only [h1, if_false, false_and]

theorem isPointInside_eq (px py : α) (vs : List (α × α)) :
    isPointInside px py vs = decide (Odd (crossN px py vs)) := by
  rw [isPointInside_body]
  unfold crossN
  have := forUp_inv (fun k (s : Bool) => s = decide (Odd (∑ i ∈ range k, if crossP px py (E vs i) then 1 else 0)))
    (pipBody px py vs) vs.length 0 false (by simp) ?_
  · simpa using this
  · intro i s _ hi hs
    have hi' : i < vs.length := by omega
    rw [sum_range_succ, pipBody_eq px py vs i hi']
    by_cases hc : crossP px py (E vs i)
    · simp only [hc, if_true, hs, Nat.odd_add_one, decide_not]
    · simp only [hc, if_false, add_zero]
      exact hs

/-! ### sums over the cyclic edges do not depend on the start vertex; reversal swaps every edge -/

theorem sum_shift {M : Type} [AddCommMonoid M] (n : ℕ) (f : ℕ → M) :
    ∑ i ∈ range n, f ((i + 1) % n) = ∑ i ∈ range n, f i := by
  cases n with
  | zero => simp
  | succ m =>
    rw [sum_range_succ, sum_range_succ' f, Nat.mod_self]
    congr 1
    apply sum_congr rfl
    intro i hi
    rw [mem_range] at hi
    rw [Nat.mod_eq_of_lt (by omega)]

theorem getD_rotate_one (vs : List (α × α)) (i : ℕ) (hi : i < vs.length) (d : α × α) :
    (vs.rotate 1).getD i d = vs.getD ((i + 1) % vs.length) d := by
  rw [List.getD_eq_getElem?_getD, List.getD_eq_getElem?_getD, List.getElem?_rotate hi]

theorem E_rotate_one (vs : List (α × α)) (i : ℕ) (hi : i < vs.length) :
    E (vs.rotate 1) i = E vs ((i + 1) % vs.length) := by
  have h2 : (i + 1) % vs.length < vs.length := Nat.mod_lt _ (by omega)
  unfold E
  rw [List.length_rotate, getD_rotate_one vs i hi, getD_rotate_one vs _ h2]

theorem sum_edges_rotate {M : Type} [AddCommMonoid M] (f : Edge α → M) (vs : List (α × α)) (k : ℕ) :
    ∑ i ∈ range (vs.rotate k).length, f (E (vs.rotate k) i) = ∑ i ∈ range vs.length, f (E vs i) := by
  induction k with
  | zero => simp
  | succ k ih =>
    rw [← List.rotate_rotate, ← ih]
    generalize vs.rotate k = ws
    rw [List.length_rotate, ← sum_shift ws.length (fun i => f (E ws i))]
    apply sum_congr rfl
    intro i hi
    rw [mem_range] at hi
    rw [E_rotate_one ws i hi]

theorem getD_reverse' (vs : List (α × α)) (i : ℕ) (hi : i < vs.length) (d : α × α) :
    vs.reverse.getD i d = vs.getD (vs.length - 1 - i) d := by
  rw [List.getD_eq_getElem?_getD, List.getD_eq_getElem?_getD, List.getElem?_reverse hi]

theorem E_reverse_lt (vs : List (α × α)) (i : ℕ) (hi : i + 1 < vs.length) :
    E vs.reverse i = (E vs (vs.length - 2 - i)).swap := by
  unfold E
  rw [List.length_reverse, getD_reverse' vs i (by omega), Nat.mod_eq_of_lt hi, getD_reverse' vs (i + 1) hi]
  have e1 : (vs.length - 2 - i + 1) % vs.length = vs.length - 1 - i := by
    rw [Nat.mod_eq_of_lt (by omega)]; omega
  have e2 : vs.length - 1 - (i + 1) = vs.length - 2 - i := by omega
  rw [e1, e2]; rfl

theorem E_reverse_last (vs : List (α × α)) (m : ℕ) (hm : vs.length = m + 1) :
    E vs.reverse m = (E vs m).swap := by
  unfold E
  rw [List.length_reverse, getD_reverse' vs m (by omega), hm, Nat.mod_self, ← hm, getD_reverse' vs 0 (by omega),
    hm]
  simp

theorem sum_edges_reverse {M : Type} [AddCommMonoid M] (f : Edge α → M) (vs : List (α × α)) :
    ∑ i ∈ range vs.reverse.length, f (E vs.reverse i) = ∑ i ∈ range vs.length, f (E vs i).swap := by
  rw [List.length_reverse]
  cases hn : vs.length with
  | zero => simp
  | succ m =>
    rw [sum_range_succ, sum_range_succ, E_reverse_last vs m hn]
    congr 1
    rw [← sum_range_reflect (fun j => f (E vs j).swap) m]
    apply sum_congr rfl
    intro i hi
    rw [mem_range] at hi
    rw [E_reverse_lt vs i (by omega), hn]
    congr 3

/-! ### `is_point_inside_polygon`: start vertex and orientation -/

theorem crossP_swap (px py : α) (e : Edge α) : crossP px py e.swap ↔ crossP px py e := by
  obtain ⟨⟨ax, ay⟩, ⟨bx, b_y⟩⟩ := e
  unfold crossP
  simp only [Prod.swap]
  constructor
  · rintro ⟨hc, hx⟩
    have hne : b_y - ay ≠ 0 := by
      rcases hc with h | h
      · intro h0; have : b_y = ay := by linarith
        rw [this] at h; exact absurd (lt_of_le_of_lt h.1 h.2) (lt_irrefl _)
      · intro h0; have : b_y = ay := by linarith
        rw [this] at h; exact absurd (lt_of_le_of_lt h.1 h.2) (lt_irrefl _)
    have hne' : ay - b_y ≠ 0 := by intro h0; apply hne; linarith
    refine ⟨hc.symm, ?_⟩
    have : ax + (py - ay) * (bx - ax) / (b_y - ay) = bx + (py - b_y) * (ax - bx) / (ay - b_y) := by
      field_simp; ring
    rw [this]; exact hx
  · rintro ⟨hc, hx⟩
    have hne : b_y - ay ≠ 0 := by
      rcases hc with h | h
      · intro h0; have : b_y = ay := by linarith
        rw [this] at h; exact absurd (lt_of_le_of_lt h.1 h.2) (lt_irrefl _)
      · intro h0; have : b_y = ay := by linarith
        rw [this] at h; exact absurd (lt_of_le_of_lt h.1 h.2) (lt_irrefl _)
    have hne' : ay - b_y ≠ 0 := by intro h0; apply hne; linarith
    refine ⟨hc.symm, ?_⟩
    have : ax + (py - ay) * (bx - ax) / (b_y - ay) = bx + (py - b_y) * (ax - bx) / (ay - b_y) := by
      field_simp; ring
    rw [← this]; exact hx

theorem crossN_rotate (px py : α) (vs : List (α × α)) (k : ℕ) : crossN px py (vs.rotate k) = crossN px py vs :=
  sum_edges_rotate (fun e => if crossP px py e then 1 else 0) vs k

theorem crossN_reverse (px py : α) (vs : List (α × α)) : crossN px py vs.reverse = crossN px py vs := by
  unfold crossN
  rw [sum_edges_reverse (fun e => if crossP px py e then 1 else 0) vs]
  apply sum_congr rfl
  intro i _
  simp only [crossP_swap]

theorem isPointInside_rotate (px py : α) (vs : List (α × α)) (k : ℕ) :
    isPointInside px py (vs.rotate k) = isPointInside px py vs := by
  rw [isPointInside_eq, isPointInside_eq, crossN_rotate]

theorem isPointInside_reverse (px py : α) (vs : List (α × α)) :
    isPointInside px py vs.reverse = isPointInside px py vs := by
  rw [isPointInside_eq, isPointInside_eq, crossN_reverse]

end FV.Strop

import FV.Proofs.Strop.Sound
/-
  Completeness, part 1: a decomposition gives a `ValidTrunk`; a valid trunk can be grown to a maximal one.
-/
namespace FV.Strop
set_option linter.unusedVariables false
set_option linter.unusedSimpArgs false

/-- a trunk with branches abutting it within its extent, together covering exactly the ones, is a `ValidTrunk`. -/
theorem validTrunk_of_cover (m : Grid) (T : SRect) (bs : List SRect)
    (hr : T.rows.low ≤ T.rows.high) (hc : T.cols.low ≤ T.cols.high)
    (habuts : ∀ b ∈ bs,
      (b.rows.low ≤ b.rows.high ∧ b.rows.high + 1 = T.rows.low ∧ T.cols.low ≤ b.cols.low ∧ b.cols.low ≤ b.cols.high ∧ b.cols.high ≤ T.cols.high)
      ∨ (b.rows.low ≤ b.rows.high ∧ b.rows.low = T.rows.high + 1 ∧ T.cols.low ≤ b.cols.low ∧ b.cols.low ≤ b.cols.high ∧ b.cols.high ≤ T.cols.high)
      ∨ (b.cols.low ≤ b.cols.high ∧ b.cols.low = T.cols.high + 1 ∧ T.rows.low ≤ b.rows.low ∧ b.rows.low ≤ b.rows.high ∧ b.rows.high ≤ T.rows.high)
      ∨ (b.cols.low ≤ b.cols.high ∧ b.cols.high + 1 = T.cols.low ∧ T.rows.low ≤ b.rows.low ∧ b.rows.low ≤ b.rows.high ∧ b.rows.high ≤ T.rows.high))
    (hcover : ∀ i j, cell m i j = true ↔ (T.mem i j = true ∨ ∃ b ∈ bs, b.mem i j = true)) :
    ValidTrunk m T := by
  refine ⟨hr, hc, ?_, ?_⟩
  · intro i j h
    exact (hcover i j).2 (Or.inl ((mem_iff T i j).2 h))
  · intro i j hcell
    rcases (hcover i j).1 hcell with h | ⟨b, hb, hm⟩
    · exact Or.inl ((mem_iff T i j).1 h)
    · have hmb := (mem_iff b i j).1 hm
      have inb : ∀ i' j', (b.rows.low ≤ i' ∧ i' ≤ b.rows.high ∧ b.cols.low ≤ j' ∧ j' ≤ b.cols.high) → cell m i' j' = true :=
        fun i' j' h => (hcover i' j').2 (Or.inr ⟨b, hb, (mem_iff b i' j').2 h⟩)
      rcases habuts b hb with h | h | h | h
      · exact Or.inr (Or.inl ⟨by omega, by omega, by omega, fun k h1 h2 => inb k j (by omega)⟩)
      · exact Or.inr (Or.inr (Or.inl ⟨by omega, by omega, by omega, fun k h1 h2 => inb k j (by omega)⟩))
      · exact Or.inr (Or.inr (Or.inr (Or.inr ⟨by omega, by omega, by omega, fun k h1 h2 => inb i k (by omega)⟩)))
      · exact Or.inr (Or.inr (Or.inr (Or.inl ⟨by omega, by omega, by omega, fun k h1 h2 => inb i k (by omega)⟩)))

/-! ### growing a valid trunk by one line of ones keeps it valid -/

theorem extend_left (m : Grid) (T : SRect) (hv : ValidTrunk m T) (h1 : 1 ≤ T.cols.low)
    (hcol : ∀ i, T.rows.low ≤ i → i ≤ T.rows.high → cell m i (T.cols.low - 1) = true) :
    ValidTrunk m ⟨T.rows, ⟨T.cols.low - 1, T.cols.high⟩⟩ := by
  obtain ⟨hr, hc, hones, hcross⟩ := hv
  refine ⟨hr, by simp only; omega, ?_, ?_⟩
  · rintro i j ⟨a1, a2, a3, a4⟩
    simp only at a1 a2 a3 a4
    by_cases hj : T.cols.low ≤ j
    · exact hones i j ⟨a1, a2, hj, a4⟩
    · have : j = T.cols.low - 1 := by omega
      subst this; exact hcol i a1 a2
  · intro i j hcell
    dsimp only [InT]
    rcases hcross i j hcell with h | ⟨b1, b2, b3, b4⟩ | ⟨b1, b2, b3, b4⟩ | ⟨b1, b2, b3, b4⟩ | ⟨b1, b2, b3, b4⟩
    · exact Or.inl ⟨h.1, h.2.1, by omega, h.2.2.2⟩
    · exact Or.inr (Or.inl ⟨by omega, b2, b3, b4⟩)
    · exact Or.inr (Or.inr (Or.inl ⟨by omega, b2, b3, b4⟩))
    · by_cases hj : j = T.cols.low - 1
      · exact Or.inl ⟨b1, b2, by omega, by omega⟩
      · exact Or.inr (Or.inr (Or.inr (Or.inl ⟨b1, b2, by omega, fun k k1 k2 => b4 k k1 (by omega)⟩)))
    · exact Or.inr (Or.inr (Or.inr (Or.inr ⟨b1, b2, b3, b4⟩)))

theorem extend_right (m : Grid) (T : SRect) (hv : ValidTrunk m T)
    (hcol : ∀ i, T.rows.low ≤ i → i ≤ T.rows.high → cell m i (T.cols.high + 1) = true) :
    ValidTrunk m ⟨T.rows, ⟨T.cols.low, T.cols.high + 1⟩⟩ := by
  obtain ⟨hr, hc, hones, hcross⟩ := hv
  refine ⟨hr, by simp only; omega, ?_, ?_⟩
  · rintro i j ⟨a1, a2, a3, a4⟩
    simp only at a1 a2 a3 a4
    by_cases hj : j ≤ T.cols.high
    · exact hones i j ⟨a1, a2, a3, hj⟩
    · have : j = T.cols.high + 1 := by omega
      subst this; exact hcol i a1 a2
  · intro i j hcell
    dsimp only [InT]
    rcases hcross i j hcell with h | ⟨b1, b2, b3, b4⟩ | ⟨b1, b2, b3, b4⟩ | ⟨b1, b2, b3, b4⟩ | ⟨b1, b2, b3, b4⟩
    · exact Or.inl ⟨h.1, h.2.1, h.2.2.1, by omega⟩
    · exact Or.inr (Or.inl ⟨b1, by omega, b3, b4⟩)
    · exact Or.inr (Or.inr (Or.inl ⟨b1, by omega, b3, b4⟩))
    · exact Or.inr (Or.inr (Or.inr (Or.inl ⟨b1, b2, b3, b4⟩)))
    · by_cases hj : j = T.cols.high + 1
      · exact Or.inl ⟨b1, b2, by omega, by omega⟩
      · exact Or.inr (Or.inr (Or.inr (Or.inr ⟨b1, b2, by omega, fun k k1 k2 => b4 k (by omega) k2⟩)))

theorem extend_up (m : Grid) (T : SRect) (hv : ValidTrunk m T) (h1 : 1 ≤ T.rows.low)
    (hrow : ∀ j, T.cols.low ≤ j → j ≤ T.cols.high → cell m (T.rows.low - 1) j = true) :
    ValidTrunk m ⟨⟨T.rows.low - 1, T.rows.high⟩, T.cols⟩ := by
  obtain ⟨hr, hc, hones, hcross⟩ := hv
  refine ⟨by simp only; omega, hc, ?_, ?_⟩
  · rintro i j ⟨a1, a2, a3, a4⟩
    simp only at a1 a2 a3 a4
    by_cases hi : T.rows.low ≤ i
    · exact hones i j ⟨hi, a2, a3, a4⟩
    · have : i = T.rows.low - 1 := by omega
      subst this; exact hrow j a3 a4
  · intro i j hcell
    dsimp only [InT]
    rcases hcross i j hcell with h | ⟨b1, b2, b3, b4⟩ | ⟨b1, b2, b3, b4⟩ | ⟨b1, b2, b3, b4⟩ | ⟨b1, b2, b3, b4⟩
    · exact Or.inl ⟨by omega, h.2.1, h.2.2.1, h.2.2.2⟩
    · by_cases hi : i = T.rows.low - 1
      · exact Or.inl ⟨by omega, by omega, b1, b2⟩
      · exact Or.inr (Or.inl ⟨b1, b2, by omega, fun k k1 k2 => b4 k k1 (by omega)⟩)
    · exact Or.inr (Or.inr (Or.inl ⟨b1, b2, b3, b4⟩))
    · exact Or.inr (Or.inr (Or.inr (Or.inl ⟨by omega, b2, b3, b4⟩)))
    · exact Or.inr (Or.inr (Or.inr (Or.inr ⟨by omega, b2, b3, b4⟩)))

theorem extend_down (m : Grid) (T : SRect) (hv : ValidTrunk m T)
    (hrow : ∀ j, T.cols.low ≤ j → j ≤ T.cols.high → cell m (T.rows.high + 1) j = true) :
    ValidTrunk m ⟨⟨T.rows.low, T.rows.high + 1⟩, T.cols⟩ := by
  obtain ⟨hr, hc, hones, hcross⟩ := hv
  refine ⟨by simp only; omega, hc, ?_, ?_⟩
  · rintro i j ⟨a1, a2, a3, a4⟩
    simp only at a1 a2 a3 a4
    by_cases hi : i ≤ T.rows.high
    · exact hones i j ⟨a1, hi, a3, a4⟩
    · have : i = T.rows.high + 1 := by omega
      subst this; exact hrow j a3 a4
  · intro i j hcell
    dsimp only [InT]
    rcases hcross i j hcell with h | ⟨b1, b2, b3, b4⟩ | ⟨b1, b2, b3, b4⟩ | ⟨b1, b2, b3, b4⟩ | ⟨b1, b2, b3, b4⟩
    · exact Or.inl ⟨h.1, by omega, h.2.2.1, h.2.2.2⟩
    · exact Or.inr (Or.inl ⟨b1, b2, b3, b4⟩)
    · by_cases hi : i = T.rows.high + 1
      · exact Or.inl ⟨by omega, by omega, b1, b2⟩
      · exact Or.inr (Or.inr (Or.inl ⟨b1, b2, by omega, fun k k1 k2 => b4 k (by omega) k2⟩))
    · exact Or.inr (Or.inr (Or.inr (Or.inl ⟨b1, by omega, b3, b4⟩)))
    · exact Or.inr (Or.inr (Or.inr (Or.inr ⟨b1, by omega, b3, b4⟩)))

/-- no full line of ones abuts the rectangle on any side. -/
structure Maximal (m : Grid) (T : SRect) : Prop where
  left : ¬ (1 ≤ T.cols.low ∧ ∀ i, T.rows.low ≤ i → i ≤ T.rows.high → cell m i (T.cols.low - 1) = true)
  right : ¬ (∀ i, T.rows.low ≤ i → i ≤ T.rows.high → cell m i (T.cols.high + 1) = true)
  up : ¬ (1 ≤ T.rows.low ∧ ∀ j, T.cols.low ≤ j → j ≤ T.cols.high → cell m (T.rows.low - 1) j = true)
  down : ¬ (∀ j, T.cols.low ≤ j → j ≤ T.cols.high → cell m (T.rows.high + 1) j = true)

/-- `T` lies inside `T'`. -/
abbrev SubRect (T T' : SRect) : Prop :=
  T'.rows.low ≤ T.rows.low ∧ T.rows.high ≤ T'.rows.high ∧ T'.cols.low ≤ T.cols.low ∧ T.cols.high ≤ T'.cols.high

/-- room left around the rectangle (termination measure of the growth). -/
def room (m : Grid) (T : SRect) : Nat :=
  T.rows.low + T.cols.low + (m.nrows - T.rows.high) + (m.ncols - T.cols.high)

theorem exists_maximal_aux (m : Grid) (hwf : m.wf = true) : ∀ (n : Nat) (T : SRect), room m T ≤ n → ValidTrunk m T →
    ∃ T', ValidTrunk m T' ∧ Maximal m T' ∧ SubRect T T' := by
  intro n
  induction n with
  | zero =>
    intro T hn hv
    have hcell := hv.ones T.rows.high T.cols.high ⟨hv.rows_le, Nat.le_refl _, hv.cols_le, Nat.le_refl _⟩
    have := cell_lt_rows hcell
    unfold room at hn; omega
  | succ n ih =>
    intro T hn hv
    by_cases hL : 1 ≤ T.cols.low ∧ ∀ i, T.rows.low ≤ i → i ≤ T.rows.high → cell m i (T.cols.low - 1) = true
    · obtain ⟨T', a, b, c⟩ := ih _ (by unfold room at hn ⊢; simp only; omega) (extend_left m T hv hL.1 hL.2)
      exact ⟨T', a, b, by simp only [SubRect] at c ⊢; omega⟩
    by_cases hR : ∀ i, T.rows.low ≤ i → i ≤ T.rows.high → cell m i (T.cols.high + 1) = true
    · have := cell_lt_cols hwf (hR T.rows.low (Nat.le_refl _) hv.rows_le)
      obtain ⟨T', a, b, c⟩ := ih _ (by unfold room at hn ⊢; simp only; omega) (extend_right m T hv hR)
      exact ⟨T', a, b, by simp only [SubRect] at c ⊢; omega⟩
    by_cases hU : 1 ≤ T.rows.low ∧ ∀ j, T.cols.low ≤ j → j ≤ T.cols.high → cell m (T.rows.low - 1) j = true
    · obtain ⟨T', a, b, c⟩ := ih _ (by unfold room at hn ⊢; simp only; omega) (extend_up m T hv hU.1 hU.2)
      exact ⟨T', a, b, by simp only [SubRect] at c ⊢; omega⟩
    by_cases hD : ∀ j, T.cols.low ≤ j → j ≤ T.cols.high → cell m (T.rows.high + 1) j = true
    · have := cell_lt_rows (hD T.cols.low (Nat.le_refl _) hv.cols_le)
      obtain ⟨T', a, b, c⟩ := ih _ (by unfold room at hn ⊢; simp only; omega) (extend_down m T hv hD)
      exact ⟨T', a, b, by simp only [SubRect] at c ⊢; omega⟩
    exact ⟨T, hv, ⟨hL, hR, hU, hD⟩, by simp only [SubRect]; omega⟩

/-- **extend_valid**: a valid trunk extended to a maximal all-ones rectangle is still valid. -/
theorem exists_maximal (m : Grid) (hwf : m.wf = true) (T : SRect) (hv : ValidTrunk m T) :
    ∃ T', ValidTrunk m T' ∧ Maximal m T' ∧ SubRect T T' :=
  exists_maximal_aux m hwf (room m T) T (Nat.le_refl _) hv

end FV.Strop

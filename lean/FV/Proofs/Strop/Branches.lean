import FV.Proofs.Strop.Count
import FV.Proofs.Strop.Span
/-
  The run-length scan of the histograms and the branches it emits.
-/
namespace FV.Strop
set_option linter.unusedVariables false
set_option linter.unusedSimpArgs false

/-- invariant of the scan: pending run `[init, c)` of value `v`, `cnt` entries `c, …, c+cnt-1` still to read. -/
theorem runsAux_spec (h : Nat → Nat) : ∀ (cnt c init v : Nat), init < c → (∀ x, init ≤ x → x < c → h x = v) →
    (∀ e ∈ runsAux h cnt c init v, e.1 ≠ 0 ∧ init ≤ e.2.1 ∧ e.2.1 ≤ e.2.2 ∧ e.2.2 < c + cnt ∧
        ∀ x, e.2.1 ≤ x → x ≤ e.2.2 → h x = e.1) ∧
    (∀ x, init ≤ x → x < c + cnt → h x ≠ 0 → ∃ e ∈ runsAux h cnt c init v, e.2.1 ≤ x ∧ x ≤ e.2.2) ∧
    (runsAux h cnt c init v).Pairwise (fun e f => e.2.2 < f.2.1) := by
  intro cnt
  induction cnt with
  | zero =>
    intro c init v hic hv
    simp only [runsAux]
    by_cases hv0 : v = 0
    · subst hv0
      simp only [ne_eq, not_true_eq_false, if_false, List.not_mem_nil, false_imp_iff, implies_true, true_and,
        false_and, exists_false, List.Pairwise.nil, and_true]
      intro x h1 h2 h3; exact absurd (hv x h1 (by omega)) h3
    · simp only [ne_eq, hv0, not_false_eq_true, if_true, List.mem_singleton, forall_eq, exists_eq_left,
        List.pairwise_cons, List.not_mem_nil, false_imp_iff, implies_true, List.Pairwise.nil, and_true]
      refine ⟨⟨trivial, Nat.le_refl _, by omega, by omega, fun x h1 h2 => hv x h1 (by omega)⟩, ?_⟩
      intro x h1 h2 _; exact ⟨h1, by omega⟩
  | succ cnt ih =>
    intro c init v hic hv
    simp only [runsAux]
    by_cases hne : h c = v
    · simp only [ne_eq, hne, not_true_eq_false, if_false]
      obtain ⟨a1, a2, a3⟩ := ih (c + 1) init v (by omega) (by
        intro x h1 h2
        by_cases hx : x = c
        · subst hx; exact hne
        · exact hv x h1 (by omega))
      refine ⟨?_, ?_, a3⟩
      · intro e he
        obtain ⟨b1, b2, b3, b4, b5⟩ := a1 e he
        exact ⟨b1, b2, b3, by omega, b5⟩
      · intro x h1 h2 h3; exact a2 x h1 (by omega) h3
    · simp only [ne_eq, hne, not_false_eq_true, if_true]
      obtain ⟨a1, a2, a3⟩ := ih (c + 1) c (h c) (by omega) (by
        intro x h1 h2
        have : x = c := by omega
        subst this; rfl)
      by_cases hv0 : v = 0
      · subst hv0
        simp only [not_true_eq_false, if_false, List.nil_append]
        refine ⟨?_, ?_, a3⟩
        · intro e he
          obtain ⟨b1, b2, b3, b4, b5⟩ := a1 e he
          exact ⟨b1, by omega, b3, by omega, b5⟩
        · intro x h1 h2 h3
          by_cases hx : x < c
          · exact absurd (hv x h1 hx) h3
          · exact a2 x (by omega) (by omega) h3
      · simp only [hv0, not_false_eq_true, if_true, List.singleton_append, List.mem_cons, forall_eq_or_imp,
          exists_eq_or_imp, List.pairwise_cons]
        refine ⟨⟨⟨trivial, Nat.le_refl _, by omega, by omega, fun x h1 h2 => hv x h1 (by omega)⟩, ?_⟩, ?_, ?_, a3⟩
        · intro e he
          obtain ⟨b1, b2, b3, b4, b5⟩ := a1 e he
          exact ⟨b1, by omega, b3, by omega, b5⟩
        · intro x h1 h2 h3
          by_cases hx : x < c
          · exact Or.inl ⟨h1, by omega⟩
          · exact Or.inr (a2 x (by omega) (by omega) h3)
        · intro e he
          obtain ⟨b1, b2, b3, b4, b5⟩ := a1 e he
          show c - 1 < e.2.1
          omega

theorem runs_spec (h : Nat → Nat) (lo hi : Nat) (hle : lo ≤ hi) :
    (∀ e ∈ runs h lo hi, e.1 ≠ 0 ∧ lo ≤ e.2.1 ∧ e.2.1 ≤ e.2.2 ∧ e.2.2 ≤ hi ∧
        ∀ x, e.2.1 ≤ x → x ≤ e.2.2 → h x = e.1) ∧
    (∀ x, lo ≤ x → x ≤ hi → h x ≠ 0 → ∃ e ∈ runs h lo hi, e.2.1 ≤ x ∧ x ≤ e.2.2) ∧
    (runs h lo hi).Pairwise (fun e f => e.2.2 < f.2.1) := by
  obtain ⟨a1, a2, a3⟩ := runsAux_spec h (hi - lo) (lo + 1) lo (h lo) (by omega) (by
    intro x h1 h2
    have : x = lo := by omega
    subst this; rfl)
  refine ⟨?_, ?_, a3⟩
  · intro e he
    obtain ⟨b1, b2, b3, b4, b5⟩ := a1 e he
    exact ⟨b1, b2, b3, by omega, b5⟩
  · intro x h1 h2 h3; exact a2 x h1 (by omega) h3

/-- two rectangles share no cell. -/
abbrev NoCommonCell (a b : SRect) : Prop := ∀ i j, ¬ (a.mem i j = true ∧ b.mem i j = true)

theorem mem_iff (r : SRect) (i j : Nat) : r.mem i j = true ↔
    r.rows.low ≤ i ∧ i ≤ r.rows.high ∧ r.cols.low ≤ j ∧ j ≤ r.cols.high := by
  simp [SRect.mem, and_assoc]

/-- one side: the rectangles built from the runs of the histogram `h` cover exactly the cells whose position
`along i j` lies in `[lo,hi]` at depth `depth (h (along i j)) i j`, and share no cell. -/
theorem side_spec (h : Nat → Nat) (lo hi : Nat) (hle : lo ≤ hi) (mk : Nat × Nat × Nat → SRect)
    (along : Nat → Nat → Nat) (depth : Nat → Nat → Nat → Prop)
    (hmem : ∀ v a b i j, (mk (v, a, b)).mem i j = true ↔ a ≤ along i j ∧ along i j ≤ b ∧ depth v i j) :
    (∀ i j, (lo ≤ along i j ∧ along i j ≤ hi ∧ h (along i j) ≠ 0 ∧ depth (h (along i j)) i j) ↔
        ∃ b ∈ (runs h lo hi).map mk, b.mem i j = true) ∧
    ((runs h lo hi).map mk).Pairwise NoCommonCell := by
  obtain ⟨a1, a2, a3⟩ := runs_spec h lo hi hle
  constructor
  · intro i j
    constructor
    · rintro ⟨h1, h2, h3, h4⟩
      obtain ⟨e, he, b1, b2⟩ := a2 (along i j) h1 h2 h3
      obtain ⟨c1, c2, c3, c4, c5⟩ := a1 e he
      refine ⟨mk e, List.mem_map.2 ⟨e, he, rfl⟩, ?_⟩
      obtain ⟨v, a, b⟩ := e
      rw [hmem]
      refine ⟨b1, b2, ?_⟩
      have := c5 (along i j) b1 b2
      simp only at this
      rw [← this]; exact h4
    · rintro ⟨b, hb, hbm⟩
      obtain ⟨e, he, rfl⟩ := List.mem_map.1 hb
      obtain ⟨c1, c2, c3, c4, c5⟩ := a1 e he
      obtain ⟨v, a, b⟩ := e
      rw [hmem] at hbm
      obtain ⟨d1, d2, d3⟩ := hbm
      have := c5 (along i j) d1 d2
      simp only at this c1 c2 c3 c4
      refine ⟨by omega, by omega, by rw [this]; exact c1, by rw [this]; exact d3⟩
  · rw [List.pairwise_map]
    refine a3.imp ?_
    intro e f hef i j ⟨m1, m2⟩
    obtain ⟨v, a, b⟩ := e
    obtain ⟨v', a', b'⟩ := f
    rw [hmem] at m1 m2
    simp only at hef
    omega

end FV.Strop

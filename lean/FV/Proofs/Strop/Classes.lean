import FV.Proofs.Strop.Shoelace
/-
  Classes of vertex lists for which `tracesGrid` is proved (not only evaluated): closure under change of the start
  vertex and of the orientation; axis-parallel rectangles.
-/
namespace FV.Strop
open Finset
set_option linter.unusedVariables false
set_option linter.unusedSimpArgs false
set_option linter.unusedSectionVars false

variable {α : Type} [Field α] [LinearOrder α] [IsStrictOrderedRing α]

/-! ### start vertex and orientation -/

theorem winding_rotate (x y : α) (vs : List (α × α)) (k : ℕ) : winding x y (vs.rotate k) = winding x y vs := by
  rw [winding_eq, winding_eq]
  exact sum_edges_rotate (fun e => edgeSign x y e) vs k

theorem edgeSign_swap (x y : α) (e : Edge α) : edgeSign x y e.swap = - edgeSign x y e := by
  obtain ⟨⟨ax, ay⟩, ⟨bx, b_y⟩⟩ := e
  unfold edgeSign
  simp only [Prod.swap]
  by_cases hx : ax = x ∧ bx = x
  · rw [if_pos hx, if_pos ⟨hx.2, hx.1⟩]
    by_cases h1 : ay ≤ y ∧ y < b_y
    · have h2 : ¬ (b_y ≤ y ∧ y < ay) := fun h => absurd (lt_of_le_of_lt h.1 h1.2) (lt_irrefl _)
      rw [if_pos h1, if_neg h2, if_pos h1]
    · by_cases h2 : b_y ≤ y ∧ y < ay
      · simp only [if_pos h2, if_neg h1]; norm_num
      · simp only [if_neg h2, if_neg h1]; norm_num
  · rw [if_neg hx, if_neg (fun h => hx ⟨h.2, h.1⟩)]; simp

theorem winding_reverse (x y : α) (vs : List (α × α)) : winding x y vs.reverse = - winding x y vs := by
  rw [winding_eq, winding_eq, sum_edges_reverse (fun e => edgeSign x y e) vs, ← sum_neg_distrib]
  apply sum_congr rfl
  intro i _
  exact edgeSign_swap x y _

theorem rectilinear_rotate (vs : List (α × α)) (hr : rectilinear vs = true) (k : ℕ) :
    rectilinear (vs.rotate k) = true := by
  induction k with
  | zero => simpa using hr
  | succ k ih =>
    rw [← List.rotate_rotate]
    generalize vs.rotate k = ws at ih
    rw [rectilinear_iff] at ih ⊢
    intro i hi
    rw [List.length_rotate] at hi
    rw [E_rotate_one ws i hi]
    exact ih _ (Nat.mod_lt _ (by omega))

theorem rectilinear_reverse (vs : List (α × α)) (hr : rectilinear vs = true) : rectilinear vs.reverse = true := by
  rw [rectilinear_iff] at hr ⊢
  intro i hi
  rw [List.length_reverse] at hi
  rcases Nat.lt_or_ge (i + 1) vs.length with h | h
  · rw [E_reverse_lt vs i h]
    have := hr (vs.length - 2 - i) (by omega)
    simp only [Prod.swap]
    rcases this with h | h
    · exact Or.inl h.symm
    · exact Or.inr h.symm
  · have hm : vs.length = i + 1 := by omega
    rw [E_reverse_last vs i hm]
    have := hr i (by omega)
    simp only [Prod.swap]
    rcases this with h | h
    · exact Or.inl h.symm
    · exact Or.inr h.symm

/-- the class of vertex lists that walk the boundary of `S` is closed under change of the start vertex … -/
theorem tracesGrid_rotate (zero : α) (σ : ℤ) (S : Grid) (vs : List (α × α)) (h : tracesGrid zero σ S vs = true)
    (k : ℕ) : tracesGrid zero σ S (vs.rotate k) = true := by
  obtain ⟨hr, hd, hb⟩ := (tracesGrid_iff zero σ S vs).1 h
  rw [tracesGrid_iff, gridOfVertices_rotate]
  refine ⟨rectilinear_rotate vs hr k, hd, ?_⟩
  rw [isBoundaryOf_iff] at hb ⊢
  intro i hi j hj
  rw [winding_rotate]
  exact hb i hi j hj

/-- … and under reversal, with the orientation sign flipped. -/
theorem tracesGrid_reverse (zero : α) (σ : ℤ) (S : Grid) (vs : List (α × α)) (h : tracesGrid zero σ S vs = true) :
    tracesGrid zero (-σ) S vs.reverse = true := by
  obtain ⟨hr, hd, hb⟩ := (tracesGrid_iff zero σ S vs).1 h
  rw [tracesGrid_iff, gridOfVertices_reverse]
  refine ⟨rectilinear_reverse vs hr, hd, ?_⟩
  rw [isBoundaryOf_iff] at hb ⊢
  intro i hi j hj
  rw [winding_reverse, hb i hi j hj]
  ring

/-! ### axis-parallel rectangles -/

/-- the rectangle `[x0, x1] × [y0, y1]`, counter-clockwise from its lower-left corner. -/
def rectLoop (x0 x1 y0 y1 : α) : List (α × α) := [(x0, y0), (x1, y0), (x1, y1), (x0, y1)]

theorem rectLoop_coords (x0 x1 y0 y1 : α) (hx : x0 < x1) (hy : y0 < y1) :
    (gridOfVertices (rectLoop x0 x1 y0 y1)).1 = [x0, x1] ∧ (gridOfVertices (rectLoop x0 x1 y0 y1)).2.1 = [y1, y0] := by
  have hx' : ¬ x1 < x0 := not_lt_of_gt hx
  have hy' : ¬ y1 < y0 := not_lt_of_gt hy
  have hxn : x1 ≠ x0 := ne_of_gt hx
  have hyn : y1 ≠ y0 := ne_of_gt hy
  constructor
  · show sortedSet ((rectLoop x0 x1 y0 y1).map (·.1)) = [x0, x1]
    simp [rectLoop, sortedSet, insertAsc, hx, hx', hxn]
  · show (sortedSet ((rectLoop x0 x1 y0 y1).map (·.2))).reverse = [y1, y0]
    simp [rectLoop, sortedSet, insertAsc, hy, hy', hyn]

/-- **rectangles** — an axis-parallel rectangle walks the boundary of the one-cell grid. -/
theorem rectLoop_traces (zero : α) (x0 x1 y0 y1 : α) (hx : x0 < x1) (hy : y0 < y1) :
    tracesGrid zero 1 [[true]] (rectLoop x0 x1 y0 y1) = true := by
  obtain ⟨e1, e2⟩ := rectLoop_coords x0 x1 y0 y1 hx hy
  rw [tracesGrid_iff, e1, e2]
  have h2 : (two : α) = 2 := by simp [two]
  have hm1 : y0 ≤ (y0 + y1) / two := by rw [h2, le_div_iff₀ (by norm_num)]; linarith
  have hm2 : (y0 + y1) / two < y1 := by rw [h2, div_lt_iff₀ (by norm_num)]; linarith
  have hm3 : ¬ (y1 ≤ (y0 + y1) / two) := not_le.2 hm2
  have hx' : x1 ≠ x0 := ne_of_gt hx
  have hx'' : x0 ≠ x1 := ne_of_lt hx
  refine ⟨?_, ?_, ?_⟩
  · simp [rectilinear, cycEdges, edgeAt, rectLoop, List.range, List.range.loop]
  · simp [gridDims]
  · rw [isBoundaryOf_iff]
    intro i hi k hk
    simp only [List.length_cons, List.length_nil] at hi hk
    have hi0 : i = 0 := by omega
    subst hi0
    generalize hcy : (([y1, y0] : List α).getD (0 + 1) zero + ([y1, y0] : List α).getD 0 zero) / two = cy
    have hcy' : cy = (y0 + y1) / two := by rw [← hcy]; simp
    rw [hcy'] at *
    have hk' : k = 0 ∨ k = 1 := by omega
    rcases hk' with rfl | rfl
    · simp [winding, sumInt, edgeAt, rectLoop, edgeSign, hm1, hm2, hm3, hx', hx'', b2i, cell]
    · simp [winding, sumInt, edgeAt, rectLoop, edgeSign, hm1, hm2, hm3, hx', hx'', b2i, cell]

theorem strop_one : strop [[true]] = some [⟨⟨⟨0, 0⟩, ⟨0, 0⟩⟩, [], [], [], []⟩] := by decide +kernel

/-- what `strop_decomposition` answers for a rectangle: the rectangle itself, `[cx, cy, w, h]`. -/
theorem rectLoop_decomposition (zero : α) (x0 x1 y0 y1 : α) (hx : x0 < x1) (hy : y0 < y1) :
    stropDecomposition zero (rectLoop x0 x1 y0 y1)
      = some [[((x0 + x1) / two, (y0 + y1) / two, x1 - x0, y1 - y0)]] := by
  obtain ⟨e1, e2⟩ := rectLoop_coords x0 x1 y0 y1 hx hy
  have e3 := matrix_of_traced zero 1 (Or.inl rfl) [[true]] _ (rectLoop_traces zero x0 x1 y0 y1 hx hy)
  have hg : gridOfVertices (rectLoop x0 x1 y0 y1) = ([x0, x1], [y1, y0], [[true]]) := by
    rw [← e1, ← e2, ← e3]
  unfold stropDecomposition
  rw [hg]
  simp only [strop_one]
  simp [Instance.rectangles, Instance.branches, coordRect]

end FV.Strop

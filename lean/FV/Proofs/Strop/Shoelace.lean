import FV.Proofs.Strop.Boundary
/-
  The shoelace area of a vertex list that walks the boundary of the 1-cells of `S` is (±) the area of those cells
  (a discrete Green formula: `∮ x dy` over the vertical pieces, Abel summation along every row).
-/
namespace FV.Strop
open Finset
set_option linter.unusedVariables false
set_option linter.unusedSimpArgs false
set_option linter.unusedSectionVars false

variable {α : Type} [Field α] [LinearOrder α] [IsStrictOrderedRing α]

theorem shoelace2_eq (vs : List (α × α)) :
    shoelace2 0 vs = ∑ i ∈ range vs.length, ((E vs i).1.1 * (E vs i).2.2 - (E vs i).2.1 * (E vs i).1.2) := by
  unfold shoelace2
  rw [sumSc_eq]
  apply sum_congr rfl
  intro i hi
  rw [mem_range] at hi
  rw [edgeAt_eq vs i hi]

/-- `Σ x₁y₂ − x₂y₁ = Σ (x₁ + x₂)(y₂ − y₁)` over a closed loop. -/
theorem shoelace2_green (vs : List (α × α)) :
    shoelace2 0 vs = ∑ i ∈ range vs.length, ((E vs i).1.1 + (E vs i).2.1) * ((E vs i).2.2 - (E vs i).1.2) := by
  rw [shoelace2_eq]
  have hs := sum_shift vs.length (fun i => (vs.getD i (0, 0)).1 * (vs.getD i (0, 0)).2)
  have e : ∀ i ∈ range vs.length,
      ((E vs i).1.1 + (E vs i).2.1) * ((E vs i).2.2 - (E vs i).1.2)
        = ((E vs i).1.1 * (E vs i).2.2 - (E vs i).2.1 * (E vs i).1.2)
          + ((vs.getD ((i + 1) % vs.length) (0, 0)).1 * (vs.getD ((i + 1) % vs.length) (0, 0)).2
            - (vs.getD i (0, 0)).1 * (vs.getD i (0, 0)).2) := by
    intro i _
    simp only [E]; ring
  have z : ∑ i ∈ range vs.length,
      ((vs.getD ((i + 1) % vs.length) (0, 0)).1 * (vs.getD ((i + 1) % vs.length) (0, 0)).2
        - (vs.getD i (0, 0)).1 * (vs.getD i (0, 0)).2) = 0 := by
    rw [sum_sub_distrib, hs, sub_self]
  rw [sum_congr rfl e, sum_add_distrib, z, add_zero]

/-- for an axis-parallel loop: `2·∮ x dy`. -/
theorem shoelace2_rect (vs : List (α × α)) (hr : rectilinear vs = true) :
    shoelace2 0 vs = 2 * ∑ i ∈ range vs.length, (E vs i).1.1 * ((E vs i).2.2 - (E vs i).1.2) := by
  rw [shoelace2_green, mul_sum]
  apply sum_congr rfl
  intro i hi
  rw [mem_range] at hi
  rcases (rectilinear_iff vs).1 hr i hi with h | h
  · rw [h]; ring
  · rw [h]; ring

section rows
variable (zero : α)

theorem getD_gt_of_pairwise (l : List α) (h : l.Pairwise (· > ·)) (a b : ℕ) (hab : a < b) (hb : b < l.length) :
    l.getD b zero < l.getD a zero := by
  rw [getD_eq_get zero l a (by omega), getD_eq_get zero l b hb]
  exact List.pairwise_iff_getElem.1 h a b (by omega) hb hab

theorem getD_ge_of_pairwise (l : List α) (h : l.Pairwise (· > ·)) (a b : ℕ) (hab : a ≤ b) (hb : b < l.length) :
    l.getD b zero ≤ l.getD a zero := by
  rcases Nat.eq_or_lt_of_le hab with rfl | hlt
  · exact le_refl _
  · exact le_of_lt (getD_gt_of_pairwise zero l h a b hlt hb)

/-- which rows a vertical edge from `ys[a]` to `ys[b]` crosses (half-open test at the row's centre). -/
theorem span_index (ys : List α) (hys : ys.Pairwise (· > ·)) (a b i : ℕ) (ha : a < ys.length) (hb : b < ys.length)
    (hi : i + 1 < ys.length) :
    (ys.getD a zero ≤ (ys.getD (i + 1) zero + ys.getD i zero) / two ∧
      (ys.getD (i + 1) zero + ys.getD i zero) / two < ys.getD b zero) ↔ (b ≤ i ∧ i < a) := by
  have h2 : (two : α) = 2 := by simp [two]
  rw [h2]
  have hstep := getD_gt_of_pairwise zero ys hys i (i + 1) (by omega) hi
  constructor
  · rintro ⟨h1, h3⟩
    rw [le_div_iff₀ (by norm_num)] at h1
    rw [div_lt_iff₀ (by norm_num)] at h3
    constructor
    · by_contra hc
      have := getD_ge_of_pairwise zero ys hys (i + 1) b (by omega) hb
      linarith
    · by_contra hc
      have := getD_ge_of_pairwise zero ys hys a i (by omega) (by omega)
      linarith
  · rintro ⟨h1, h3⟩
    have p1 := getD_ge_of_pairwise zero ys hys (i + 1) a (by omega) ha
    have p2 := getD_ge_of_pairwise zero ys hys b i h1 (by omega)
    constructor
    · rw [le_div_iff₀ (by norm_num)]; linarith
    · rw [div_lt_iff₀ (by norm_num)]; linarith

/-- the height of a vertical edge is the signed sum of the heights of the rows it crosses. -/
theorem dy_decomp (ys : List α) (hys : ys.Pairwise (· > ·)) (a b : ℕ) (ha : a < ys.length) (hb : b < ys.length) :
    ys.getD b zero - ys.getD a zero = ∑ i ∈ range (ys.length - 1),
      (if ys.getD a zero ≤ (ys.getD (i + 1) zero + ys.getD i zero) / two ∧
          (ys.getD (i + 1) zero + ys.getD i zero) / two < ys.getD b zero then (1 : α)
       else if ys.getD b zero ≤ (ys.getD (i + 1) zero + ys.getD i zero) / two ∧
          (ys.getD (i + 1) zero + ys.getD i zero) / two < ys.getD a zero then -1 else 0)
        * (ys.getD i zero - ys.getD (i + 1) zero) := by
  have e : ∀ i ∈ range (ys.length - 1),
      (if ys.getD a zero ≤ (ys.getD (i + 1) zero + ys.getD i zero) / two ∧
          (ys.getD (i + 1) zero + ys.getD i zero) / two < ys.getD b zero then (1 : α)
       else if ys.getD b zero ≤ (ys.getD (i + 1) zero + ys.getD i zero) / two ∧
          (ys.getD (i + 1) zero + ys.getD i zero) / two < ys.getD a zero then -1 else 0)
        * (ys.getD i zero - ys.getD (i + 1) zero)
      = (if a ≤ i ∧ i < b then ys.getD (i + 1) zero - ys.getD i zero else 0)
        - (if b ≤ i ∧ i < a then ys.getD (i + 1) zero - ys.getD i zero else 0) := by
    intro i hi
    rw [mem_range] at hi
    have s1 := span_index zero ys hys a b i ha hb (by omega)
    have s2 := span_index zero ys hys b a i hb ha (by omega)
    by_cases c1 : b ≤ i ∧ i < a
    · rw [if_pos (s1.2 c1), if_neg (by omega), if_pos c1]; ring
    · rw [if_neg (fun h => c1 (s1.1 h))]
      by_cases c2 : a ≤ i ∧ i < b
      · rw [if_pos (s2.2 c2), if_pos c2, if_neg c1]; ring
      · rw [if_neg (fun h => c2 (s2.1 h)), if_neg c2, if_neg c1]; ring
  rw [sum_congr rfl e, sum_sub_distrib]
  have conv : ∀ (p q : ℕ), p < q → ∑ i ∈ range (ys.length - 1), (if p ≤ i ∧ i < q then ys.getD (i + 1) zero - ys.getD i zero else 0)
      = ∑ i ∈ range (ys.length - 1), (if p ≤ i ∧ i ≤ q - 1 then ys.getD (i + 1) zero - ys.getD i zero else 0) := by
    intro p q hpq
    apply sum_congr rfl
    intro i _
    have : (p ≤ i ∧ i < q) ↔ (p ≤ i ∧ i ≤ q - 1) := by omega
    simp only [this]
  have zer : ∀ (p q : ℕ), q ≤ p → ∑ i ∈ range (ys.length - 1), (if p ≤ i ∧ i < q then ys.getD (i + 1) zero - ys.getD i zero else 0) = 0 := by
    intro p q hpq
    apply sum_eq_zero
    intro i _; rw [if_neg (by omega)]
  rcases Nat.lt_trichotomy a b with h | h | h
  · rw [conv a b h, tele (fun k => ys.getD k zero) a (ys.length - 1) (b - 1) (by omega) (by omega), zer b a (by omega)]
    have : b - 1 + 1 = b := by omega
    simp only [this]; ring
  · subst h
    ring
  · rw [conv b a h, tele (fun k => ys.getD k zero) b (ys.length - 1) (a - 1) (by omega) (by omega), zer a b (by omega)]
    have : a - 1 + 1 = a := by omega
    simp only [this]; ring

theorem edgeSign_castA (x y : α) (e : Edge α) :
    ((edgeSign x y e : ℤ) : α) = if e.1.1 = x ∧ e.2.1 = x then
      (if e.1.2 ≤ y ∧ y < e.2.2 then (1 : α) else if e.2.2 ≤ y ∧ y < e.1.2 then -1 else 0) else 0 := by
  unfold edgeSign
  split_ifs <;> simp

/-- one edge of an axis-parallel loop with its end points on the grid lines: `x·Δy` spread over the grid lines and
rows. -/
theorem edge_xdy (xs ys : List α) (hxs : xs.Pairwise (· < ·)) (hys : ys.Pairwise (· > ·)) (e : Edge α)
    (hrect : e.1.1 = e.2.1 ∨ e.1.2 = e.2.2) (hx1 : e.1.1 ∈ xs) (hy1 : e.1.2 ∈ ys) (hy2 : e.2.2 ∈ ys) :
    e.1.1 * (e.2.2 - e.1.2) = ∑ k ∈ range xs.length, xs.getD k zero * ∑ i ∈ range (ys.length - 1),
      ((edgeSign (xs.getD k zero) ((ys.getD (i + 1) zero + ys.getD i zero) / two) e : ℤ) : α)
        * (ys.getD i zero - ys.getD (i + 1) zero) := by
  by_cases hv : e.1.1 = e.2.1
  · obtain ⟨k0, hk0, hk0e⟩ := List.getElem_of_mem hx1
    obtain ⟨a, ha, hae⟩ := List.getElem_of_mem hy1
    obtain ⟨b, hb, hbe⟩ := List.getElem_of_mem hy2
    have hX0 : xs.getD k0 zero = e.1.1 := by rw [getD_eq_get zero xs k0 hk0, hk0e]
    have hYa : ys.getD a zero = e.1.2 := by rw [getD_eq_get zero ys a ha, hae]
    have hYb : ys.getD b zero = e.2.2 := by rw [getD_eq_get zero ys b hb, hbe]
    rw [sum_eq_single k0]
    · rw [hX0]
      congr 1
      have hd := dy_decomp zero ys hys a b ha hb
      rw [hYa, hYb] at hd
      rw [hd]
      apply sum_congr rfl
      intro i _
      rw [edgeSign_castA, if_pos (show e.1.1 = e.1.1 ∧ e.2.1 = e.1.1 from ⟨rfl, hv.symm⟩)]
    · intro k hk hne
      rw [mem_range] at hk
      have : e.1.1 ≠ xs.getD k zero := by
        rw [← hX0]
        intro heq
        rcases Nat.lt_or_gt_of_ne hne with h | h
        · have := getD_lt_of_pairwise zero xs hxs k k0 h hk0; rw [heq] at this; exact lt_irrefl _ this
        · have := getD_lt_of_pairwise zero xs hxs k0 k h hk; rw [heq] at this; exact lt_irrefl _ this
      have z : ∀ i ∈ range (ys.length - 1),
          ((edgeSign (xs.getD k zero) ((ys.getD (i + 1) zero + ys.getD i zero) / two) e : ℤ) : α)
            * (ys.getD i zero - ys.getD (i + 1) zero) = 0 := by
        intro i _; rw [edgeSign_ne _ _ _ this]; simp
      rw [sum_eq_zero z, mul_zero]
    · intro h; exact absurd (mem_range.2 hk0) h
  · have hh : e.1.2 = e.2.2 := hrect.resolve_left hv
    rw [hh, sub_self, mul_zero]
    symm
    apply sum_eq_zero
    intro k _
    have z : ∀ i ∈ range (ys.length - 1),
        ((edgeSign (xs.getD k zero) ((ys.getD (i + 1) zero + ys.getD i zero) / two) e : ℤ) : α)
          * (ys.getD i zero - ys.getD (i + 1) zero) = 0 := by
      intro i _
      have : edgeSign (xs.getD k zero) ((ys.getD (i + 1) zero + ys.getD i zero) / two) e = 0 := by
        unfold edgeSign
        rw [if_neg (fun h => hv (h.1.trans h.2.symm))]
      rw [this]; simp
    rw [sum_eq_zero z, mul_zero]

/-- Abel summation along one row. -/
theorem abel_row (X : ℕ → α) (t : ℕ → α) : ∀ m,
    ∑ k ∈ range (m + 1), X k * ((if k = 0 then 0 else t (k - 1)) - t k)
      = ∑ j ∈ range m, t j * (X (j + 1) - X j) - X m * t m := by
  intro m
  induction m with
  | zero => simp
  | succ m ih =>
    rw [sum_range_succ, ih, sum_range_succ, if_neg (by omega)]
    simp only [Nat.add_sub_cancel]; ring

/-- `∮ x dy` of the loop through the signed edge counts. -/
theorem xdy_winding (vs : List (α × α)) (hr : rectilinear vs = true) :
    ∑ i ∈ range vs.length, (E vs i).1.1 * ((E vs i).2.2 - (E vs i).1.2)
      = ∑ i ∈ range ((gridOfVertices vs).2.1.length - 1), ∑ k ∈ range (gridOfVertices vs).1.length,
          (gridOfVertices vs).1.getD k zero *
          (((winding ((gridOfVertices vs).1.getD k zero)
              (((gridOfVertices vs).2.1.getD (i + 1) zero + (gridOfVertices vs).2.1.getD i zero) / two) vs : ℤ) : α)
            * ((gridOfVertices vs).2.1.getD i zero - (gridOfVertices vs).2.1.getD (i + 1) zero)) := by
  have hxs := xs_pairwise vs
  have hys := ys_pairwise vs
  have hxm := xs_mem vs
  have hym := ys_mem vs
  generalize (gridOfVertices vs).1 = xs at *
  generalize (gridOfVertices vs).2.1 = ys at *
  have e : ∀ n ∈ range vs.length, (E vs n).1.1 * ((E vs n).2.2 - (E vs n).1.2)
      = ∑ k ∈ range xs.length, ∑ i ∈ range (ys.length - 1), xs.getD k zero *
        (((edgeSign (xs.getD k zero) ((ys.getD (i + 1) zero + ys.getD i zero) / two) (E vs n) : ℤ) : α)
          * (ys.getD i zero - ys.getD (i + 1) zero)) := by
    intro n hn
    rw [mem_range] at hn
    rw [edge_xdy zero xs ys hxs hys (E vs n) ((rectilinear_iff vs).1 hr n hn) (hxm _ (E_mem vs n hn).1)
      (hym _ (E_mem vs n hn).1) (hym _ (E_mem vs n hn).2)]
    apply sum_congr rfl
    intro k _
    rw [mul_sum]
  rw [sum_congr rfl e, sum_comm]
  conv_rhs => rw [sum_comm]
  apply sum_congr rfl
  intro k _
  rw [sum_comm]
  apply sum_congr rfl
  intro i _
  rw [winding_eq, Int.cast_sum, sum_mul, mul_sum]

theorem ncols_of_dims (S : Grid) (nr nc : ℕ) (hd : gridDims S nr nc = true) (hnr : 0 < nr) : S.ncols = nc := by
  obtain ⟨h1, h2⟩ := (gridDims_iff S nr nc).1 hd
  unfold Grid.ncols
  cases S with
  | nil => simp at h1; omega
  | cons r S =>
    have := h2 0 (by simp)
    simpa [List.headD] using this

/-- **discrete Green formula** — the shoelace sum of a vertex list that walks the boundary of the 1-cells of `S` is
`2σ` times the area of those cells (cell sizes taken from the pipeline's coordinate lists). -/
theorem shoelace_of_traced (σ : ℤ) (S : Grid) (vs : List (α × α)) (h : tracesGrid zero σ S vs = true) :
    shoelace2 0 vs = 2 * (σ : α) * gridArea S (fun j => (gridOfVertices vs).1.getD j zero)
      (fun i => (gridOfVertices vs).2.1.getD i zero) := by
  obtain ⟨hr, hd, hb⟩ := (tracesGrid_iff zero σ S vs).1 h
  rw [shoelace2_rect vs hr, xdy_winding zero vs hr, mul_assoc]
  congr 1
  have hb' := (isBoundaryOf_iff zero σ S _ _ vs).1 hb
  obtain ⟨hd1, hd2⟩ := (gridDims_iff S _ _).1 hd
  generalize (gridOfVertices vs).1 = xs at *
  generalize (gridOfVertices vs).2.1 = ys at *
  unfold gridArea
  have hnr : S.nrows = ys.length - 1 := hd1
  rw [hnr, mul_sum]
  apply sum_congr rfl
  intro i hi
  rw [mem_range] at hi
  have hiS : i < S.length := by omega
  have hnc : S.ncols = xs.length - 1 := ncols_of_dims S _ _ hd (by omega)
  rw [hnc]
  -- the row: grid lines → cells
  have e : ∀ k ∈ range xs.length, xs.getD k zero *
      (((winding (xs.getD k zero) ((ys.getD (i + 1) zero + ys.getD i zero) / two) vs : ℤ) : α)
        * (ys.getD i zero - ys.getD (i + 1) zero))
      = ((σ : α) * (ys.getD i zero - ys.getD (i + 1) zero)) *
        ((fun k => xs.getD k zero) k * ((if k = 0 then 0 else (fun k => ((b2i (cell S i k) : ℤ) : α)) (k - 1))
          - (fun k => ((b2i (cell S i k) : ℤ) : α)) k)) := by
    intro k hk
    rw [mem_range] at hk
    rw [hb' i hi k hk]
    by_cases hk0 : k = 0
    · simp only [hk0, if_true]; push_cast; ring
    · simp only [hk0, if_false]; push_cast; ring
  rw [sum_congr rfl e, ← mul_sum]
  rcases Nat.eq_zero_or_pos xs.length with hx0 | hxpos
  · rw [hx0]; simp
  · have hlen : xs.length = (xs.length - 1) + 1 := by omega
    rw [hlen, abel_row (fun k => xs.getD k zero) (fun k => ((b2i (cell S i k) : ℤ) : α)) (xs.length - 1)]
    have hout : cell S i (xs.length - 1) = false := cell_out S i _ hiS (by rw [hd2 i hiS])
    simp only [hout, b2i, Nat.add_sub_cancel]
    rw [mul_sub, mul_sum, mul_sum]
    simp only [Bool.false_eq_true, if_false, Int.cast_zero, mul_zero, sub_zero]
    apply sum_congr rfl
    intro j _
    cases hc : cell S i j
    · simp
    · simp [cellArea]; ring

end rows

end FV.Strop

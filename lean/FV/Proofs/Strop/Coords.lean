import FV.Proofs.Strop.Pip
/-
  `sorted(set(…))`, the coordinate lists and the 0/1 matrix `strop_decomposition` builds: they depend on the vertex
  list only through its set of points and through `is_point_inside_polygon`, hence neither on the start vertex nor on
  the orientation.
-/
namespace FV.Strop
open Finset
set_option linter.unusedVariables false
set_option linter.unusedSimpArgs false
set_option linter.unusedSectionVars false

variable {α : Type} [Field α] [LinearOrder α] [IsStrictOrderedRing α]

theorem mem_insertAsc (x y : α) : ∀ (l : List α), y ∈ insertAsc x l ↔ y = x ∨ y ∈ l := by
  intro l
  induction l with
  | nil => simp [insertAsc]
  | cons z l ih =>
    unfold insertAsc
    by_cases h1 : x < z
    · simp [h1]
    · by_cases h2 : x = z
      · subst h2; simp [h1]
      · simp only [h1, h2, if_false, List.mem_cons, ih]
        tauto

theorem insertAsc_pairwise (x : α) : ∀ (l : List α), l.Pairwise (· < ·) → (insertAsc x l).Pairwise (· < ·) := by
  intro l
  induction l with
  | nil => intro _; simp [insertAsc]
  | cons z l ih =>
    intro hp
    rw [List.pairwise_cons] at hp
    unfold insertAsc
    by_cases h1 : x < z
    · simp only [h1, if_true]
      refine List.pairwise_cons.2 ⟨?_, List.pairwise_cons.2 hp⟩
      intro a ha
      rcases List.mem_cons.1 ha with rfl | ha
      · exact h1
      · exact lt_trans h1 (hp.1 a ha)
    · by_cases h2 : x = z
      · subst h2
        simp only [h1, if_false, if_true]
        exact List.pairwise_cons.2 hp
      · simp only [h1, h2, if_false]
        refine List.pairwise_cons.2 ⟨?_, ih hp.2⟩
        intro a ha
        rcases (mem_insertAsc x a l).1 ha with rfl | ha
        · exact lt_of_le_of_ne (not_lt.1 h1) (Ne.symm h2)
        · exact hp.1 a ha

theorem foldl_insertAsc (l : List α) : ∀ (acc : List α), acc.Pairwise (· < ·) →
    (l.foldl (fun acc x => insertAsc x acc) acc).Pairwise (· < ·) ∧
    ∀ y, y ∈ l.foldl (fun acc x => insertAsc x acc) acc ↔ y ∈ acc ∨ y ∈ l := by
  induction l with
  | nil => intro acc h; simp [h]
  | cons x l ih =>
    intro acc h
    obtain ⟨h1, h2⟩ := ih (insertAsc x acc) (insertAsc_pairwise x acc h)
    refine ⟨h1, ?_⟩
    intro y
    rw [List.foldl_cons, h2, mem_insertAsc, List.mem_cons]
    tauto

theorem sortedSet_pairwise (l : List α) : (sortedSet l).Pairwise (· < ·) :=
  (foldl_insertAsc l [] List.Pairwise.nil).1

theorem mem_sortedSet (l : List α) (y : α) : y ∈ sortedSet l ↔ y ∈ l := by
  have := (foldl_insertAsc l [] List.Pairwise.nil).2 y
  simpa [sortedSet] using this

/-- `sorted(set(l))` is a function of the set of elements. -/
theorem sortedSet_congr (l l' : List α) (h : ∀ y, y ∈ l ↔ y ∈ l') : sortedSet l = sortedSet l' :=
  (sortedSet_pairwise l).eq_of_mem_iff (sortedSet_pairwise l') (fun y => by rw [mem_sortedSet, mem_sortedSet, h])

/-- the coordinate lists and the matrix depend on the vertex list only through its set of points and the
point-in-polygon answers. -/
theorem gridOfVertices_congr (vs ws : List (α × α)) (hm : ∀ p, p ∈ vs ↔ p ∈ ws)
    (hp : ∀ px py, isPointInside px py vs = isPointInside px py ws) : gridOfVertices vs = gridOfVertices ws := by
  have hx : sortedSet (vs.map (·.1)) = sortedSet (ws.map (·.1)) := by
    apply sortedSet_congr
    intro y
    simp only [List.mem_map]
    constructor
    · rintro ⟨p, hp, rfl⟩; exact ⟨p, (hm p).1 hp, rfl⟩
    · rintro ⟨p, hp, rfl⟩; exact ⟨p, (hm p).2 hp, rfl⟩
  have hy : sortedSet (vs.map (·.2)) = sortedSet (ws.map (·.2)) := by
    apply sortedSet_congr
    intro y
    simp only [List.mem_map]
    constructor
    · rintro ⟨p, hp, rfl⟩; exact ⟨p, (hm p).1 hp, rfl⟩
    · rintro ⟨p, hp, rfl⟩; exact ⟨p, (hm p).2 hp, rfl⟩
  unfold gridOfVertices
  simp only [hx, hy, hp]

theorem gridOfVertices_rotate (vs : List (α × α)) (k : ℕ) : gridOfVertices (vs.rotate k) = gridOfVertices vs :=
  gridOfVertices_congr _ _ (fun p => List.mem_rotate) (fun px py => isPointInside_rotate px py vs k)

theorem gridOfVertices_reverse (vs : List (α × α)) : gridOfVertices vs.reverse = gridOfVertices vs :=
  gridOfVertices_congr _ _ (fun p => List.mem_reverse) (fun px py => isPointInside_reverse px py vs)

theorem stropDecomposition_congr (zero : α) (vs ws : List (α × α)) (h : gridOfVertices vs = gridOfVertices ws) :
    stropDecomposition zero vs = stropDecomposition zero ws := by
  unfold stropDecomposition
  rw [h]

end FV.Strop

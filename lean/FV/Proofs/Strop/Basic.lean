import FV.Model.Strop
/-
  Helper lemmas for the STrOP model: loops, sums, `index`, `_row_interval`, interval intersection.
  Core Lean only.
-/
namespace FV.Strop
set_option linter.unusedVariables false

/-! ### loops -/

theorem forUp_inv {σ : Type} (Inv : Nat → σ → Prop) (body : Nat → σ → σ) :
    ∀ (cnt a : Nat) (s : σ), Inv a s →
      (∀ i s, a ≤ i → i < a + cnt → Inv i s → Inv (i + 1) (body i s)) →
      Inv (a + cnt) (forUp a cnt body s) := by
  intro cnt
  induction cnt with
  | zero => intro a s h _; simpa [forUp] using h
  | succ n ih =>
    intro a s h step
    have h1 : Inv (a + 1) (body a s) := step a s (Nat.le_refl _) (by omega) h
    have := ih (a + 1) (body a s) h1 (fun i s hi hlt hI => step i s (by omega) (by omega) hI)
    simpa [forUp, Nat.add_assoc, Nat.add_comm 1 n] using this

theorem forDown_inv {σ : Type} (Inv : Nat → σ → Prop) (body : Nat → σ → σ) (lo : Nat) :
    ∀ (cnt : Nat) (s : σ), Inv (lo + cnt) s →
      (∀ i s, lo ≤ i → i < lo + cnt → Inv (i + 1) s → Inv i (body i s)) →
      Inv lo (forDown lo cnt body s) := by
  intro cnt
  induction cnt with
  | zero => intro s h _; simpa [forDown] using h
  | succ n ih =>
    intro s h step
    have h1 : Inv (lo + n) (body (lo + n) s) := step (lo + n) s (by omega) (by omega) (by simpa [Nat.add_assoc] using h)
    exact ih (body (lo + n) s) h1 (fun i s hi hlt hI => step i s hi (by omega) hI)

/-! ### the table -/

@[simp] theorem get_upd (t : Table) (i j : Nat) (v : Option Interval) (i' j' : Nat) :
    (upd t i j v).get i' j' = if i' = i ∧ j' = j then v else t.get i' j' := by
  simp only [Table.get, upd, List.find?_cons]
  by_cases h : i' = i ∧ j' = j
  · obtain ⟨rfl, rfl⟩ := h; simp
  · have : ((i == i') && (j == j')) = false := by
      simp only [Bool.and_eq_false_imp, beq_iff_eq, beq_eq_false_iff_ne, ne_eq]
      intro h1 h2; exact h ⟨h1.symm, h2.symm⟩
    simp [this, h]

@[simp] theorem get_empty (i j : Nat) : (Table.mk []).get i j = none := by simp [Table.get]

/-! ### sums -/

theorem sumTo_congr {n : Nat} {f g : Nat → Nat} (h : ∀ i, i < n → f i = g i) : sumTo n f = sumTo n g := by
  induction n with
  | zero => rfl
  | succ n ih => simp only [sumTo]; rw [ih (fun i hi => h i (by omega)), h n (by omega)]

theorem sumTo_add (n : Nat) (f g : Nat → Nat) : sumTo n (fun i => f i + g i) = sumTo n f + sumTo n g := by
  induction n with
  | zero => rfl
  | succ n ih => simp only [sumTo, ih]; omega

theorem sumTo_zero (n : Nat) : sumTo n (fun _ => 0) = 0 := by
  induction n with
  | zero => rfl
  | succ n ih => simp [sumTo, ih]

theorem sumTo_comm (a b : Nat) (f : Nat → Nat → Nat) :
    sumTo a (fun i => sumTo b (fun j => f i j)) = sumTo b (fun j => sumTo a (fun i => f i j)) := by
  induction a with
  | zero => simp [sumTo, sumTo_zero]
  | succ a ih => simp only [sumTo]; rw [ih, ← sumTo_add]

theorem sumTo_le {n : Nat} {f g : Nat → Nat} (h : ∀ i, i < n → f i ≤ g i) : sumTo n f ≤ sumTo n g := by
  induction n with
  | zero => exact Nat.le_refl _
  | succ n ih =>
    simp only [sumTo]
    have := ih (fun i hi => h i (by omega))
    have := h n (by omega)
    omega

/-- pointwise `≤` and equal totals force pointwise equality. -/
theorem sumTo_eq_of_le {n : Nat} {f g : Nat → Nat} (h : ∀ i, i < n → f i ≤ g i) (he : sumTo n f = sumTo n g) :
    ∀ i, i < n → f i = g i := by
  induction n with
  | zero => intro i hi; omega
  | succ n ih =>
    simp only [sumTo] at he
    have h1 := sumTo_le (n := n) (fun i hi => h i (by omega))
    have h2 := h n (by omega)
    intro i hi
    by_cases hin : i = n
    · subst hin; omega
    · exact ih (fun i hi => h i (by omega)) (by omega) i (by omega)

/-- `Σ_{i<n} [a ≤ i ≤ b] · f i = Σ_{a ≤ i ≤ b} f i` for `b < n`. -/
theorem sumTo_indicator (n a b : Nat) (f : Nat → Nat) (hab : a ≤ b) (hb : b < n) :
    sumTo n (fun i => if a ≤ i ∧ i ≤ b then f i else 0) = sumRange a b f := by
  induction n with
  | zero => omega
  | succ n ih =>
    simp only [sumTo]
    by_cases hbn : b = n
    · subst hbn
      -- the last index is `b`
      have hrest : ∀ m, m ≤ b → sumTo m (fun i => if a ≤ i ∧ i ≤ b then f i else 0)
          = sumTo (m - a) (fun k => f (a + k)) := by
        intro m
        induction m with
        | zero => intro _; simp [sumTo]
        | succ m ihm =>
          intro hm
          simp only [sumTo]
          rw [ihm (by omega)]
          by_cases ham : a ≤ m
          · have : m + 1 - a = (m - a) + 1 := by omega
            rw [this]; simp only [sumTo]
            have h2 : a + (m - a) = m := by omega
            rw [h2]; simp [ham]; omega
          · have : m + 1 - a = 0 := by omega
            have h3 : m - a = 0 := by omega
            rw [this, h3]; simp [sumTo, ham]
      rw [hrest b (Nat.le_refl _)]
      simp only [sumRange]
      have : b + 1 - a = (b - a) + 1 := by omega
      rw [this]; simp only [sumTo]
      have h2 : a + (b - a) = b := by omega
      rw [h2]; simp [hab]
    · have := ih (by omega)
      rw [this]
      have : ¬ (a ≤ n ∧ n ≤ b) := by omega
      simp [this]

theorem sumRange_add (a b : Nat) (f g : Nat → Nat) :
    sumRange a b (fun i => f i + g i) = sumRange a b f + sumRange a b g := by
  simp only [sumRange]; exact sumTo_add _ _ _

theorem sumTo_const_indicator (n a b : Nat) (hab : a ≤ b + 1) (hb : b < n) :
    sumTo n (fun i => if a ≤ i ∧ i ≤ b then 1 else 0) = b + 1 - a := by
  by_cases h : a ≤ b
  · rw [sumTo_indicator n a b (fun _ => 1) h hb]
    simp only [sumRange]
    generalize b + 1 - a = k
    induction k with
    | zero => rfl
    | succ k ih => simp [sumTo, ih]
  · have : ∀ i, i < n → (if a ≤ i ∧ i ≤ b then 1 else 0) = (fun _ => 0) i := by
      intro i _; have : ¬ (a ≤ i ∧ i ≤ b) := by omega
      simp [this]
    rw [sumTo_congr this, sumTo_zero]; omega

/-! ### `any` -/

theorem anyFrom_eq_false (p : Nat → Bool) : ∀ (cnt a : Nat),
    anyFrom a cnt p = false ↔ ∀ i, a ≤ i → i < a + cnt → p i = false := by
  intro cnt
  induction cnt with
  | zero => intro a; simp [anyFrom]; intro i h1 h2; omega
  | succ n ih =>
    intro a
    simp only [anyFrom, Bool.or_eq_false_iff, ih]
    constructor
    · rintro ⟨h0, h1⟩ i hi hlt
      by_cases h : i = a
      · subst h; exact h0
      · exact h1 i (by omega) (by omega)
    · intro h; exact ⟨h a (Nat.le_refl _) (by omega), fun i hi hlt => h i (by omega) (by omega)⟩

/-! ### `runLen` -/

theorem runLen_le (f : Nat → Bool) (cnt : Nat) : runLen f cnt ≤ cnt := by
  induction cnt generalizing f with
  | zero => simp [runLen]
  | succ n ih =>
    simp only [runLen]
    have := ih (fun k => f (k + 1))
    split <;> omega

theorem runLen_true (f : Nat → Bool) (cnt k : Nat) (hk : k < runLen f cnt) : f k = true := by
  induction cnt generalizing f k with
  | zero => simp [runLen] at hk
  | succ n ih =>
    simp only [runLen] at hk
    by_cases h0 : f 0 = true
    · simp only [h0, if_true] at hk
      cases k with
      | zero => exact h0
      | succ k => exact ih (fun k => f (k + 1)) k (by omega)
    · simp [h0] at hk

theorem runLen_ge (f : Nat → Bool) (cnt d : Nat) (hd : d ≤ cnt) (h : ∀ k, k < d → f k = true) : d ≤ runLen f cnt := by
  induction cnt generalizing f d with
  | zero => omega
  | succ n ih =>
    cases d with
    | zero => omega
    | succ d =>
      simp only [runLen, h 0 (by omega), if_true]
      have := ih (fun k => f (k + 1)) d (by omega) (fun k hk => h (k + 1) (by omega))
      omega

/-- the run stops at a `false` (or at the end of the range). -/
theorem runLen_stop (f : Nat → Bool) (cnt : Nat) (h : runLen f cnt < cnt) : f (runLen f cnt) = false := by
  induction cnt generalizing f with
  | zero => omega
  | succ n ih =>
    simp only [runLen] at h ⊢
    by_cases h0 : f 0 = true
    · simp only [h0, if_true] at h ⊢
      have := ih (fun k => f (k + 1)) (by omega)
      simpa [Nat.add_comm] using this
    · simp only [h0]; simpa using h0

end FV.Strop

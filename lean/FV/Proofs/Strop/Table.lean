import FV.Proofs.Strop.RowIv
/-
  `_get_trunks_matrix`: what the in-place loops compute.
-/
namespace FV.Strop
set_option linter.unusedVariables false
set_option linter.unusedSimpArgs false

/-- `_row_interval(M[i])`. -/
def rowIv (M : Grid) (i : Nat) : Option Interval := rowInterval (M.getD i [])

/-- intersection of the row intervals of rows `r, …, r+k`. -/
def span (M : Grid) (r : Nat) : Nat → Option Interval
  | 0 => rowIv M r
  | k+1 => inter (span M r k) (rowIv M (r + k + 1))

theorem span_proper (M : Grid) (r k : Nat) (I : Interval) (h : span M r k = some I) : I.low ≤ I.high := by
  cases k with
  | zero => exact (rowInterval_sound _ _ h).1
  | succ k =>
    simp only [span] at h
    obtain ⟨A, B, _, _, _, _, h5⟩ := inter_eq_some.1 h
    exact h5

theorem span_succ_left (M : Grid) (r k : Nat) : span M r (k + 1) = inter (rowIv M r) (span M (r + 1) k) := by
  induction k with
  | zero => simp [span]
  | succ k ih =>
    have e : r + (k + 1) + 1 = r + 1 + k + 1 := by omega
    rw [span, ih, inter_assoc, e]
    rfl

theorem inter_absorb (S x : Option Interval) (hS : ∀ A, S = some A → A.low ≤ A.high) :
    inter (inter S x) S = inter S x := by
  rw [inter_comm (inter S x) S, ← inter_assoc, inter_self S hS]

/-- the recurrence of the fill loop. -/
theorem fill_step (M : Grid) (r k : Nat) : inter (span M (r + 1) k) (span M r k) = span M r (k + 1) := by
  cases k with
  | zero => simp only [span]; exact inter_comm _ _
  | succ k =>
    have hS : ∀ A, span M (r + 1) k = some A → A.low ≤ A.high := fun A h => span_proper M _ _ A h
    rw [span_succ_left M r (k + 1), span_succ_left M r k]
    -- `(S ∩ x) ∩ (y ∩ S) = y ∩ (S ∩ x)` with `S ∩ x = span (r+1) (k+1)`
    have e : span M (r + 1) (k + 1) = inter (span M (r + 1) k) (rowIv M (r + 1 + k + 1)) := rfl
    rw [e]
    generalize span M (r + 1) k = S at hS
    generalize rowIv M (r + 1 + k + 1) = x
    generalize rowIv M r = y
    rw [inter_comm y S, ← inter_assoc, inter_absorb S x hS, inter_comm]

/-- extending a span by one more row. -/
theorem span_succ_right (M : Grid) (r k : Nat) : span M r (k + 1) = inter (span M r k) (rowIv M (r + k + 1)) := rfl

/-! ### the fill phase -/

theorem fillTable_get (M : Grid) (r c : Nat) (hrc : r ≤ c) (hc : c < M.length) :
    (fillTable M).get r c = span M r (c - r) := by
  unfold fillTable
  simp only
  -- phase 1: the diagonal
  have h1 : ∀ i, i < M.length →
      (forUp 0 M.length (fun i t => upd t i i (rowInterval (M.getD i []))) ⟨[]⟩).get i i = rowIv M i := by
    have := forUp_inv (σ := Table) (fun k t => ∀ i, i < k → t.get i i = rowIv M i)
      (fun i t => upd t i i (rowInterval (M.getD i []))) M.length 0 ⟨[]⟩ (by intro i hi; omega)
      (by
        intro i s _ _ hI j hj
        simp only [get_upd]
        by_cases h : j = i
        · subst h; simp [rowIv]
        · simp only [h, and_self, if_false]; exact hI j (by omega))
    simpa using this
  generalize forUp 0 M.length (fun i t => upd t i i (rowInterval (M.getD i []))) ⟨[]⟩ = t1 at h1
  -- phase 2
  have h2 := forUp_inv (σ := Table)
    (fun col t => ∀ r c, r ≤ c → c < M.length → (c < col ∨ r = c) → t.get r c = span M r (c - r))
    (fun column t => forDown 0 column (fun row t =>
      upd t row column (inter (t.get (row + 1) column) (t.get row (column - 1)))) t)
    (M.length - 1) 1 t1
    (by
      intro r c hrc hc h
      have : r = c := by omega
      subst this
      simpa [span] using h1 r hc)
    (by
      intro col s hcol1 hcol2 hI
      have hin := forDown_inv (σ := Table)
        (fun row t => ∀ r c, r ≤ c → c < M.length → (c < col ∨ r = c ∨ (c = col ∧ row ≤ r)) → t.get r c = span M r (c - r))
        (fun row t => upd t row col (inter (t.get (row + 1) col) (t.get row (col - 1)))) 0 col s
        (by
          intro r c hrc hc h
          exact hI r c hrc hc (by omega))
        (by
          intro i s' _ hi hI' r c hrc hc h
          simp only [get_upd]
          by_cases hk : r = i ∧ c = col
          · obtain ⟨rfl, rfl⟩ := hk
            simp only [and_self, if_true]
            have a1 := hI' (r + 1) c (by omega) hc (by omega)
            have a2 := hI' r (c - 1) (by omega) (by omega) (by omega)
            rw [a1, a2]
            have e1 : c - (r + 1) = c - 1 - r := by omega
            have e2 : c - r = (c - 1 - r) + 1 := by omega
            rw [e1, e2]
            exact fill_step M r (c - 1 - r)
          · simp only [hk, if_false]
            exact hI' r c hrc hc (by omega))
      intro r c hrc hc h
      exact hin r c hrc hc (by omega))
  exact h2 r c hrc hc (by omega)

/-! ### the two pruning passes -/

/-- value of an entry after pass 1, in terms of the table `F` it started from. -/
def p1val (n : Nat) (F : Table) (r c : Nat) : Option Interval :=
  if c + 1 < n ∧ F.get r c = F.get r (c + 1) then none else F.get r c

theorem prune1_get (n : Nat) (F : Table) (r c : Nat) (hrc : r ≤ c) (hc : c < n) :
    (prune1 n F).get r c = p1val n F r c := by
  unfold prune1
  have h := forUp_inv (σ := Table)
    (fun row t => ∀ r c, r ≤ c → c < n → t.get r c = if r < row then p1val n F r c else F.get r c)
    (fun row t => forUp row (n - 1 - row) (fun column t =>
      if t.get row column = t.get row (column + 1) then upd t row column none else t) t)
    (n - 1) 0 F
    (by intro r c _ _; simp)
    (by
      intro row s _ hrow hI
      have hin := forUp_inv (σ := Table)
        (fun col t => ∀ r c, r ≤ c → c < n → t.get r c =
          if r < row ∨ (r = row ∧ c < col) then p1val n F r c else F.get r c)
        (fun column t => if t.get row column = t.get row (column + 1) then upd t row column none else t)
        (n - 1 - row) row s
        (by
          intro r c hrc hc
          rw [hI r c hrc hc]
          have : (r < row ∨ (r = row ∧ c < row)) ↔ r < row := by omega
          simp only [this])
        (by
          intro i s' hi1 hi2 hI' r c hrc hc
          have n1 : ¬ (row < row ∨ (row = row ∧ i < i)) := by omega
          have n2 : ¬ (row < row ∨ (row = row ∧ i + 1 < i)) := by omega
          have a1 : s'.get row i = F.get row i := by rw [hI' row i hi1 (by omega)]; exact if_neg n1
          have a2 : s'.get row (i + 1) = F.get row (i + 1) := by
            rw [hI' row (i + 1) (by omega) (by omega)]; exact if_neg n2
          by_cases hk : r = row ∧ c = i
          · obtain ⟨rfl, rfl⟩ := hk
            rw [if_pos (by omega : (r < r ∨ (r = r ∧ c < c + 1)))]
            have hc1 : c + 1 < n := by omega
            rw [a1, a2]
            unfold p1val
            by_cases hcond : F.get r c = F.get r (c + 1)
            · rw [if_pos hcond, if_pos ⟨hc1, hcond⟩]; simp
            · rw [if_neg hcond, if_neg (fun h => hcond h.2)]; exact a1
          · have e : (r < row ∨ (r = row ∧ c < i + 1)) ↔ (r < row ∨ (r = row ∧ c < i)) := by omega
            simp only [e]
            by_cases hcond : s'.get row i = s'.get row (i + 1)
            · simp only [hcond, if_true, get_upd, hk, if_false]; exact hI' r c hrc hc
            · simp only [hcond, if_false]; exact hI' r c hrc hc)
      intro r c hrc hc
      have e0 : row + (n - 1 - row) = n - 1 := by omega
      rw [e0] at hin
      rw [hin r c hrc hc]
      by_cases h1 : r < row
      · have : r < row + 1 := by omega
        simp [h1, this]
      · by_cases h2 : r = row
        · subst h2
          by_cases h3 : c < n - 1
          · simp [h3]
          · have : c = n - 1 := by omega
            have hn : ¬ (c + 1 < n) := by omega
            simp [h3, p1val, hn]
        · have : ¬ (r < row + 1) := by omega
          simp [h1, h2, this])
  have := h r c hrc hc
  simp only [Nat.zero_add] at this
  rw [this]
  by_cases h1 : r < n - 1
  · simp [h1]
  · have hn : ¬ (c + 1 < n) := by omega
    simp [h1, p1val, hn]

/-- value of an entry after pass 2, in terms of the table `P` it started from. -/
def p2val (P : Table) (r c : Nat) : Option Interval :=
  if 1 ≤ r ∧ P.get r c = P.get (r - 1) c then none else P.get r c

theorem prune2_get (n : Nat) (P : Table) (r c : Nat) (hrc : r ≤ c) (hc : c < n) :
    (prune2 n P).get r c = p2val P r c := by
  unfold prune2
  have h := forUp_inv (σ := Table)
    (fun col t => ∀ r c, r ≤ c → c < n → t.get r c = if c < col then p2val P r c else P.get r c)
    (fun column t => forDown 1 column (fun row t =>
      if t.get row column = t.get (row - 1) column then upd t row column none else t) t)
    (n - 1) 1 P
    (by
      intro r c hrc _
      by_cases h : c < 1
      · have : r = 0 := by omega
        subst this
        simp [h, p2val]
      · simp [h])
    (by
      intro col s hcol1 hcol2 hI
      have hin := forDown_inv (σ := Table)
        (fun row t => ∀ r c, r ≤ c → c < n → t.get r c =
          if c < col ∨ (c = col ∧ row ≤ r) then p2val P r c else P.get r c)
        (fun row t => if t.get row col = t.get (row - 1) col then upd t row col none else t) 1 col s
        (by
          intro r c hrc hc
          rw [hI r c hrc hc]
          have : (c < col ∨ (c = col ∧ 1 + col ≤ r)) ↔ c < col := by omega
          simp only [this])
        (by
          intro i s' hi1 hi2 hI' r c hrc hc
          have n1 : ¬ (col < col ∨ (col = col ∧ i + 1 ≤ i)) := by omega
          have n2 : ¬ (col < col ∨ (col = col ∧ i + 1 ≤ i - 1)) := by omega
          have a1 : s'.get i col = P.get i col := by rw [hI' i col (by omega) (by omega)]; exact if_neg n1
          have a2 : s'.get (i - 1) col = P.get (i - 1) col := by
            rw [hI' (i - 1) col (by omega) (by omega)]; exact if_neg n2
          by_cases hk : r = i ∧ c = col
          · obtain ⟨rfl, rfl⟩ := hk
            rw [if_pos (by omega : (c < c ∨ (c = c ∧ r ≤ r)))]
            rw [a1, a2]
            unfold p2val
            by_cases hcond : P.get r c = P.get (r - 1) c
            · rw [if_pos hcond, if_pos ⟨hi1, hcond⟩]; simp
            · rw [if_neg hcond, if_neg (fun h => hcond h.2)]; exact a1
          · have e : (c < col ∨ (c = col ∧ i ≤ r)) ↔ (c < col ∨ (c = col ∧ i + 1 ≤ r)) := by omega
            simp only [e]
            by_cases hcond : s'.get i col = s'.get (i - 1) col
            · simp only [hcond, if_true, get_upd, hk, if_false]; exact hI' r c hrc hc
            · simp only [hcond, if_false]; exact hI' r c hrc hc)
      intro r c hrc hc
      rw [hin r c hrc hc]
      by_cases h1 : c < col
      · have : c < col + 1 := by omega
        simp [h1, this]
      · by_cases h2 : c = col
        · subst h2
          by_cases h3 : 1 ≤ r
          · simp [h3]
          · have : r = 0 := by omega
            subst this
            simp [p2val]
        · have : ¬ (c < col + 1) := by omega
          simp [h1, h2, this])
  have := h r c hrc hc
  rw [this]
  by_cases h1 : c < 1 + (n - 1)
  · simp [h1]
  · omega

/-! ### the returned set -/

/-- the final table keeps exactly the row-spans that cannot be extended by a row above or below with the same
column interval. -/
theorem finalTable_get (M : Grid) (r c : Nat) (I : Interval) (hrc : r ≤ c) (hc : c < M.length) :
    (finalTable M).get r c = some I ↔
      span M r (c - r) = some I ∧ (c + 1 < M.length → span M r (c + 1 - r) ≠ some I) ∧
      (1 ≤ r → span M (r - 1) (c - (r - 1)) ≠ some I) := by
  unfold finalTable
  rw [prune2_get _ _ r c hrc hc]
  simp only [p2val]
  have hP : ∀ r' , r' ≤ c → (prune1 M.length (fillTable M)).get r' c = p1val M.length (fillTable M) r' c :=
    fun r' h => prune1_get _ _ r' c h hc
  rw [hP r hrc]
  have hF : ∀ r' c', r' ≤ c' → c' < M.length → (fillTable M).get r' c' = span M r' (c' - r') :=
    fun r' c' h1 h2 => fillTable_get M r' c' h1 h2
  -- step lemma: the spans of rows r-1.. and r.. extended by row c+1
  have ext : ∀ r', r' ≤ c → span M r' (c + 1 - r') = inter (span M r' (c - r')) (rowIv M (c + 1)) := by
    intro r' h
    have e : c + 1 - r' = (c - r') + 1 := by omega
    rw [e, span_succ_right]
    have e2 : r' + (c - r') + 1 = c + 1 := by omega
    rw [e2]
  by_cases hr : 1 ≤ r
  · rw [hP (r - 1) (by omega)]
    simp only [p1val, hr, true_and, true_imp_iff]
    by_cases hc1 : c + 1 < M.length
    · simp only [hc1, true_and, true_imp_iff]
      rw [hF r c hrc hc, hF r (c + 1) (by omega) hc1, hF (r - 1) c (by omega) hc, hF (r - 1) (c + 1) (by omega) hc1]
      rw [ext r hrc, ext (r - 1) (by omega)]
      generalize span M r (c - r) = a
      generalize span M (r - 1) (c - (r - 1)) = b
      generalize rowIv M (c + 1) = x
      grind
    · simp only [hc1, false_and, if_false, false_imp_iff, true_and]
      rw [hF r c hrc hc, hF (r - 1) c (by omega) hc]
      generalize span M r (c - r) = a
      generalize span M (r - 1) (c - (r - 1)) = b
      grind
  · have hr0 : r = 0 := by omega
    subst hr0
    have e0 : ¬ (1 ≤ 0) := by omega
    simp only [e0, false_and, if_false, p1val, false_imp_iff, and_true]
    by_cases hc1 : c + 1 < M.length
    · simp only [hc1, true_and, true_imp_iff]
      rw [hF 0 c hrc hc, hF 0 (c + 1) (by omega) hc1]
      generalize span M 0 (c - 0) = a
      generalize span M 0 (c + 1 - 0) = a'
      grind
    · simp only [hc1, false_and, if_false, false_imp_iff, and_true]
      rw [hF 0 c hrc hc]

theorem mem_trunksMatrix (M : Grid) (T : SRect) : T ∈ trunksMatrix M ↔
    ∃ r c I, r ≤ c ∧ c < M.length ∧ (finalTable M).get r c = some I ∧ T = ⟨⟨r, c⟩, I⟩ := by
  simp only [trunksMatrix, List.mem_flatMap, List.mem_range, List.mem_filterMap, List.mem_range'_1,
    Option.map_eq_some_iff]
  constructor
  · rintro ⟨r, hr, c, ⟨h1, h2⟩, I, hI, rfl⟩
    exact ⟨r, c, I, h1, by omega, hI, rfl⟩
  · rintro ⟨r, c, I, h1, h2, hI, rfl⟩
    exact ⟨r, by omega, c, ⟨h1, by omega⟩, I, hI, rfl⟩

end FV.Strop

import FV.Proofs.Strop.Table
/-
  The cell-count validity test of `StropInstance`: `numCells = total` exactly when every 1-cell lies in the
  cross of the trunk and is joined to it by ones (`ValidTrunk`).
-/
namespace FV.Strop
set_option linter.unusedVariables false
set_option linter.unusedSimpArgs false

/-! ### grid facts -/

theorem cell_lt_rows {m : Grid} {i j : Nat} (h : cell m i j = true) : i < m.nrows := by
  unfold cell at h
  rcases Nat.lt_or_ge i m.length with hlt | hge
  · exact hlt
  · simp [List.getD_eq_getElem?_getD, List.getElem?_eq_none hge] at h

theorem cell_lt_cols {m : Grid} (hwf : m.wf = true) {i j : Nat} (h : cell m i j = true) : j < m.ncols := by
  have hi := cell_lt_rows h
  unfold cell at h
  unfold Grid.wf at hwf
  simp only [Bool.and_eq_true, decide_eq_true_eq, List.all_eq_true, beq_iff_eq] at hwf
  have hrow : (m.getD i []) ∈ m := by
    have : m.getD i [] = m[i] := by simp [List.getD_eq_getElem?_getD, List.getElem?_eq_getElem hi]
    rw [this]; exact List.getElem_mem _
  have hlen := hwf.2 _ hrow
  rcases Nat.lt_or_ge j (m.getD i []).length with hlt | hge
  · omega
  · have : (m.getD i []).getD j false = false := by
      rw [List.getD_eq_getElem?_getD, List.getElem?_eq_none hge]; rfl
    rw [this] at h; cases h

/-! ### the cross of a trunk -/

/-- cell `(i,j)` lies in the index rectangle `T`. -/
abbrev InT (T : SRect) (i j : Nat) : Prop :=
  T.rows.low ≤ i ∧ i ≤ T.rows.high ∧ T.cols.low ≤ j ∧ j ≤ T.cols.high

/-- the brute-force reading of "T is the trunk of a single-trunk decomposition of the 1-cells of `m`". -/
structure ValidTrunk (m : Grid) (T : SRect) : Prop where
  rows_le : T.rows.low ≤ T.rows.high
  cols_le : T.cols.low ≤ T.cols.high
  ones : ∀ i j, InT T i j → cell m i j = true
  cross : ∀ i j, cell m i j = true →
      InT T i j
    ∨ (T.cols.low ≤ j ∧ j ≤ T.cols.high ∧ i < T.rows.low ∧ ∀ k, i ≤ k → k < T.rows.low → cell m k j = true)
    ∨ (T.cols.low ≤ j ∧ j ≤ T.cols.high ∧ T.rows.high < i ∧ ∀ k, T.rows.high < k → k ≤ i → cell m k j = true)
    ∨ (T.rows.low ≤ i ∧ i ≤ T.rows.high ∧ j < T.cols.low ∧ ∀ k, j ≤ k → k < T.cols.low → cell m i k = true)
    ∨ (T.rows.low ≤ i ∧ i ≤ T.rows.high ∧ T.cols.high < j ∧ ∀ k, T.cols.high < k → k ≤ j → cell m i k = true)

/-- the arms the histograms describe. -/
abbrev CovN (m : Grid) (T : SRect) (i j : Nat) : Prop :=
  T.cols.low ≤ j ∧ j ≤ T.cols.high ∧ i < T.rows.low ∧ T.rows.low ≤ i + hNorth m T j
abbrev CovS (m : Grid) (T : SRect) (i j : Nat) : Prop :=
  T.cols.low ≤ j ∧ j ≤ T.cols.high ∧ T.rows.high < i ∧ i ≤ T.rows.high + hSouth m T j
abbrev CovW (m : Grid) (T : SRect) (i j : Nat) : Prop :=
  T.rows.low ≤ i ∧ i ≤ T.rows.high ∧ j < T.cols.low ∧ T.cols.low ≤ j + hWest m T i
abbrev CovE (m : Grid) (T : SRect) (i j : Nat) : Prop :=
  T.rows.low ≤ i ∧ i ≤ T.rows.high ∧ T.cols.high < j ∧ j ≤ T.cols.high + hEast m T i
abbrev Cov (m : Grid) (T : SRect) (i j : Nat) : Prop :=
  InT T i j ∨ CovN m T i j ∨ CovS m T i j ∨ CovW m T i j ∨ CovE m T i j

theorem hNorth_le (m : Grid) (T : SRect) (j : Nat) : hNorth m T j ≤ T.rows.low := runLen_le _ _
theorem hWest_le (m : Grid) (T : SRect) (i : Nat) : hWest m T i ≤ T.cols.low := runLen_le _ _
theorem hSouth_le (m : Grid) (T : SRect) (j : Nat) : hSouth m T j ≤ m.nrows - (T.rows.high + 1) := runLen_le _ _
theorem hEast_le (m : Grid) (T : SRect) (i : Nat) : hEast m T i ≤ m.ncols - (T.cols.high + 1) := runLen_le _ _

theorem covN_iff (m : Grid) (T : SRect) (i j : Nat) (hi : i < T.rows.low) :
    T.rows.low ≤ i + hNorth m T j ↔ ∀ k, i ≤ k → k < T.rows.low → cell m k j = true := by
  constructor
  · intro h k hk1 hk2
    have := runLen_true (fun k => cell m (T.rows.low - 1 - k) j) T.rows.low (T.rows.low - 1 - k)
      (by unfold hNorth at h; omega)
    have e : T.rows.low - 1 - (T.rows.low - 1 - k) = k := by omega
    simpa [e] using this
  · intro h
    have := runLen_ge (fun k => cell m (T.rows.low - 1 - k) j) T.rows.low (T.rows.low - i) (by omega)
      (fun k hk => h (T.rows.low - 1 - k) (by omega) (by omega))
    unfold hNorth; omega

theorem covW_iff (m : Grid) (T : SRect) (i j : Nat) (hj : j < T.cols.low) :
    T.cols.low ≤ j + hWest m T i ↔ ∀ k, j ≤ k → k < T.cols.low → cell m i k = true := by
  constructor
  · intro h k hk1 hk2
    have := runLen_true (fun k => cell m i (T.cols.low - 1 - k)) T.cols.low (T.cols.low - 1 - k)
      (by unfold hWest at h; omega)
    have e : T.cols.low - 1 - (T.cols.low - 1 - k) = k := by omega
    simpa [e] using this
  · intro h
    have := runLen_ge (fun k => cell m i (T.cols.low - 1 - k)) T.cols.low (T.cols.low - j) (by omega)
      (fun k hk => h (T.cols.low - 1 - k) (by omega) (by omega))
    unfold hWest; omega

theorem covS_iff (m : Grid) (T : SRect) (i j : Nat) (hi : T.rows.high < i) (hin : i < m.nrows) :
    i ≤ T.rows.high + hSouth m T j ↔ ∀ k, T.rows.high < k → k ≤ i → cell m k j = true := by
  constructor
  · intro h k hk1 hk2
    have := runLen_true (fun k => cell m (T.rows.high + 1 + k) j) (m.nrows - (T.rows.high + 1)) (k - (T.rows.high + 1))
      (by unfold hSouth at h; omega)
    have e : T.rows.high + 1 + (k - (T.rows.high + 1)) = k := by omega
    simpa [e] using this
  · intro h
    have := runLen_ge (fun k => cell m (T.rows.high + 1 + k) j) (m.nrows - (T.rows.high + 1)) (i - T.rows.high) (by omega)
      (fun k hk => h (T.rows.high + 1 + k) (by omega) (by omega))
    unfold hSouth; omega

theorem covE_iff (m : Grid) (T : SRect) (i j : Nat) (hj : T.cols.high < j) (hjn : j < m.ncols) :
    j ≤ T.cols.high + hEast m T i ↔ ∀ k, T.cols.high < k → k ≤ j → cell m i k = true := by
  constructor
  · intro h k hk1 hk2
    have := runLen_true (fun k => cell m i (T.cols.high + 1 + k)) (m.ncols - (T.cols.high + 1)) (k - (T.cols.high + 1))
      (by unfold hEast at h; omega)
    have e : T.cols.high + 1 + (k - (T.cols.high + 1)) = k := by omega
    simpa [e] using this
  · intro h
    have := runLen_ge (fun k => cell m i (T.cols.high + 1 + k)) (m.ncols - (T.cols.high + 1)) (j - T.cols.high) (by omega)
      (fun k hk => h (T.cols.high + 1 + k) (by omega) (by omega))
    unfold hEast; omega

/-- what the histograms cover consists of ones. -/
theorem cov_imp_cell (m : Grid) (T : SRect) (hones : ∀ i j, InT T i j → cell m i j = true) (i j : Nat)
    (h : Cov m T i j) : cell m i j = true := by
  rcases h with h | ⟨_, _, h3, h4⟩ | ⟨_, _, h3, h4⟩ | ⟨_, _, h3, h4⟩ | ⟨_, _, h3, h4⟩
  · exact hones i j h
  · exact (covN_iff m T i j h3).1 h4 i (Nat.le_refl _) h3
  · have := hSouth_le m T j
    exact (covS_iff m T i j h3 (by omega)).1 h4 i h3 (Nat.le_refl _)
  · exact (covW_iff m T i j h3).1 h4 j (Nat.le_refl _) h3
  · have := hEast_le m T i
    exact (covE_iff m T i j h3 (by omega)).1 h4 j h3 (Nat.le_refl _)

/-- `ValidTrunk` = the ones are exactly what the histograms cover. -/
theorem validTrunk_iff_cov (m : Grid) (hwf : m.wf = true) (T : SRect) (hr : T.rows.low ≤ T.rows.high)
    (hc : T.cols.low ≤ T.cols.high) (hones : ∀ i j, InT T i j → cell m i j = true) :
    ValidTrunk m T ↔ ∀ i j, cell m i j = true → Cov m T i j := by
  constructor
  · intro hv i j hcell
    rcases hv.cross i j hcell with h | ⟨h1, h2, h3, h4⟩ | ⟨h1, h2, h3, h4⟩ | ⟨h1, h2, h3, h4⟩ | ⟨h1, h2, h3, h4⟩
    · exact Or.inl h
    · exact Or.inr (Or.inl ⟨h1, h2, h3, (covN_iff m T i j h3).2 h4⟩)
    · exact Or.inr (Or.inr (Or.inl ⟨h1, h2, h3, (covS_iff m T i j h3 (cell_lt_rows hcell)).2 h4⟩))
    · exact Or.inr (Or.inr (Or.inr (Or.inl ⟨h1, h2, h3, (covW_iff m T i j h3).2 h4⟩)))
    · exact Or.inr (Or.inr (Or.inr (Or.inr ⟨h1, h2, h3, (covE_iff m T i j h3 (cell_lt_cols hwf hcell)).2 h4⟩)))
  · intro h
    refine ⟨hr, hc, hones, ?_⟩
    intro i j hcell
    rcases h i j hcell with h | ⟨h1, h2, h3, h4⟩ | ⟨h1, h2, h3, h4⟩ | ⟨h1, h2, h3, h4⟩ | ⟨h1, h2, h3, h4⟩
    · exact Or.inl h
    · exact Or.inr (Or.inl ⟨h1, h2, h3, (covN_iff m T i j h3).1 h4⟩)
    · exact Or.inr (Or.inr (Or.inl ⟨h1, h2, h3, (covS_iff m T i j h3 (cell_lt_rows hcell)).1 h4⟩))
    · exact Or.inr (Or.inr (Or.inr (Or.inl ⟨h1, h2, h3, (covW_iff m T i j h3).1 h4⟩)))
    · exact Or.inr (Or.inr (Or.inr (Or.inr ⟨h1, h2, h3, (covE_iff m T i j h3 (cell_lt_cols hwf hcell)).1 h4⟩)))

end FV.Strop

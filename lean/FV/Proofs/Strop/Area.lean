import FV.Proofs.Strop.Sound
import Mathlib.Algebra.BigOperators.Ring.Finset
import Mathlib.Algebra.BigOperators.Intervals
import Mathlib.Algebra.Order.Field.Basic
import Mathlib.Tactic.Ring
/-
  Areas: the rectangles of a decomposition, mapped through coordinate lists, have the total area of the 1-cells.
-/
namespace FV.Strop
open Finset
set_option linter.unusedVariables false
set_option linter.unusedSimpArgs false
set_option linter.unusedSectionVars false

variable {α : Type} [Field α]

/-- area of grid cell `(i,j)`: `x_coords[j+1] - x_coords[j]` times `y_coords[i] - y_coords[i+1]`. -/
def cellArea (X Y : ℕ → α) (i j : ℕ) : α := (X (j + 1) - X j) * (Y i - Y (i + 1))

/-- total area of the 1-cells of the grid. -/
def gridArea (m : Grid) (X Y : ℕ → α) : α :=
  ∑ i ∈ range m.nrows, ∑ j ∈ range m.ncols, if cell m i j = true then cellArea X Y i j else 0

/-- `w * h` of an output rectangle `[cx, cy, w, h]`. -/
def rectArea (q : α × α × α × α) : α := q.2.2.1 * q.2.2.2

theorem tele (X : ℕ → α) (a : ℕ) : ∀ (n b : ℕ), a ≤ b → b < n →
    ∑ j ∈ range n, (if a ≤ j ∧ j ≤ b then X (j + 1) - X j else 0) = X (b + 1) - X a := by
  intro n
  induction n with
  | zero => intro b _ h; omega
  | succ n ih =>
    intro b hab hb
    rw [sum_range_succ]
    by_cases hbn : b = n
    · subst hbn
      by_cases han : a = b
      · subst han
        have : ∀ j ∈ range a, (if a ≤ j ∧ j ≤ a then X (j + 1) - X j else 0) = 0 := by
          intro j hj; rw [mem_range] at hj
          have : ¬ (a ≤ j ∧ j ≤ a) := by omega
          simp [this]
        rw [sum_eq_zero this]; simp
      · have h1 : ∀ j ∈ range b, (if a ≤ j ∧ j ≤ b then X (j + 1) - X j else 0)
            = (if a ≤ j ∧ j ≤ b - 1 then X (j + 1) - X j else 0) := by
          intro j hj; rw [mem_range] at hj
          have : (a ≤ j ∧ j ≤ b) ↔ (a ≤ j ∧ j ≤ b - 1) := by omega
          simp only [this]
        rw [sum_congr rfl h1, ih (b - 1) (by omega) (by omega)]
        have e : b - 1 + 1 = b := by omega
        have : a ≤ b ∧ b ≤ b := by omega
        simp only [this, and_self, if_true, e]; ring
    · rw [ih b hab (by omega)]
      have : ¬ (a ≤ n ∧ n ≤ b) := by omega
      simp [this]

/-- a grid rectangle has the area of its coordinate box. -/
theorem rect_cells_area (X Y : ℕ → α) (r : SRect) (nr nc : ℕ) (hr : r.rows.low ≤ r.rows.high) (hc : r.cols.low ≤ r.cols.high)
    (hrn : r.rows.high < nr) (hcn : r.cols.high < nc) :
    ∑ i ∈ range nr, ∑ j ∈ range nc, (if r.mem i j = true then cellArea X Y i j else 0)
      = (X (r.cols.high + 1) - X r.cols.low) * (Y r.rows.low - Y (r.rows.high + 1)) := by
  have inner : ∀ i ∈ range nr, ∑ j ∈ range nc, (if r.mem i j = true then cellArea X Y i j else 0)
      = if r.rows.low ≤ i ∧ i ≤ r.rows.high then (X (r.cols.high + 1) - X r.cols.low) * ((fun k => - Y k) (i + 1) - (fun k => - Y k) i) else 0 := by
    intro i _
    by_cases hi : r.rows.low ≤ i ∧ i ≤ r.rows.high
    · simp only [hi, and_self, if_true]
      rw [← tele X r.cols.low nc r.cols.high hc hcn, sum_mul]
      apply sum_congr rfl
      intro j _
      by_cases hj : r.cols.low ≤ j ∧ j ≤ r.cols.high
      · have : r.mem i j = true := (mem_iff r i j).2 ⟨hi.1, hi.2, hj.1, hj.2⟩
        simp only [this, if_true, hj, and_self, cellArea]; ring
      · have : ¬ (r.mem i j = true) := fun h => hj (by have := (mem_iff r i j).1 h; omega)
        simp [this, hj]
    · simp only [hi, if_false]
      apply sum_eq_zero
      intro j _
      have : ¬ (r.mem i j = true) := fun h => hi (by have := (mem_iff r i j).1 h; omega)
      simp [this]
  rw [sum_congr rfl inner]
  have := tele (fun k => - Y k) r.rows.low nr r.rows.high hr hrn
  have e : ∀ i ∈ range nr, (if r.rows.low ≤ i ∧ i ≤ r.rows.high then
        (X (r.cols.high + 1) - X r.cols.low) * ((fun k => - Y k) (i + 1) - (fun k => - Y k) i) else 0)
      = (X (r.cols.high + 1) - X r.cols.low) * (if r.rows.low ≤ i ∧ i ≤ r.rows.high then (fun k => - Y k) (i + 1) - (fun k => - Y k) i else 0) := by
    intro i _; split <;> simp
  rw [sum_congr rfl e, ← mul_sum, this]; ring

theorem coordRect_area (X Y : ℕ → α) (r : SRect) :
    rectArea (coordRect X Y r) = (X (r.cols.high + 1) - X r.cols.low) * (Y r.rows.low - Y (r.rows.high + 1)) := by
  simp [rectArea, coordRect]

/-- pairwise disjoint rectangles: the areas add up to the area of the cells they cover. -/
theorem rects_cells_area (X Y : ℕ → α) (nr nc : ℕ) : ∀ (l : List SRect), l.Pairwise NoCommonCell →
    (∀ r ∈ l, r.rows.low ≤ r.rows.high ∧ r.cols.low ≤ r.cols.high ∧ r.rows.high < nr ∧ r.cols.high < nc) →
    (l.map fun r => rectArea (coordRect X Y r)).sum
      = ∑ i ∈ range nr, ∑ j ∈ range nc, (if l.any (fun r => r.mem i j) = true then cellArea X Y i j else 0) := by
  intro l
  induction l with
  | nil => intro _ _; simp
  | cons r l ih =>
    intro hp hin
    rw [List.pairwise_cons] at hp
    obtain ⟨h1, h2, h3, h4⟩ := hin r (List.mem_cons_self)
    rw [List.map_cons, List.sum_cons, ih hp.2 (fun r' hr' => hin r' (List.mem_cons_of_mem _ hr')),
      coordRect_area, ← rect_cells_area X Y r nr nc h1 h2 h3 h4, ← sum_add_distrib]
    apply sum_congr rfl; intro i _
    rw [← sum_add_distrib]
    apply sum_congr rfl; intro j _
    simp only [List.any_cons, Bool.or_eq_true]
    by_cases hr : r.mem i j = true
    · have : ¬ (l.any (fun r => r.mem i j) = true) := by
        intro hl
        obtain ⟨r', hr', hm⟩ := List.any_eq_true.1 hl
        exact hp.1 r' hr' i j ⟨hr, hm⟩
      simp [hr, this]
    · simp [hr]

/-- the rectangles of an offered instance have the total area of the 1-cells. -/
theorem instance_area (m : Grid) (hwf : m.wf = true) (s : Instance) (hs : s ∈ instances m) (X Y : ℕ → α) :
    (s.rectangles.map fun r => rectArea (coordRect X Y r)).sum = gridArea m X Y := by
  obtain ⟨T, hT, hmk⟩ := (mem_instances m s).1 hs
  obtain ⟨e0, hv, hcover, hpw, hN, hS, hE, hW⟩ := instance_facts m hwf T hT s hmk
  have hrect : s.rectangles = T :: s.branches := by simp [Instance.rectangles, e0]
  have hproper : ∀ r ∈ T :: s.branches, r.rows.low ≤ r.rows.high ∧ r.cols.low ≤ r.cols.high := by
    intro r hr
    rcases List.mem_cons.1 hr with rfl | hr
    · exact ⟨hv.rows_le, hv.cols_le⟩
    · simp only [Instance.branches, List.mem_append] at hr
      rcases hr with ((hr | hr) | hr) | hr
      · have := hN r hr; omega
      · have := hS r hr; omega
      · have := hE r hr; omega
      · have := hW r hr; omega
  have hin : ∀ r ∈ T :: s.branches, r.rows.low ≤ r.rows.high ∧ r.cols.low ≤ r.cols.high ∧ r.rows.high < m.nrows ∧ r.cols.high < m.ncols := by
    intro r hr
    obtain ⟨a, b⟩ := hproper r hr
    have hm : r.mem r.rows.high r.cols.high = true := (mem_iff r _ _).2 ⟨a, Nat.le_refl _, b, Nat.le_refl _⟩
    have hcell : cell m r.rows.high r.cols.high = true := by
      rw [hcover]
      rcases List.mem_cons.1 hr with rfl | hr
      · exact Or.inl hm
      · exact Or.inr ⟨r, hr, hm⟩
    exact ⟨a, b, cell_lt_rows hcell, cell_lt_cols hwf hcell⟩
  rw [hrect, rects_cells_area X Y m.nrows m.ncols (T :: s.branches) hpw hin]
  unfold gridArea
  apply sum_congr rfl; intro i _
  apply sum_congr rfl; intro j _
  have : ((T :: s.branches).any (fun r => r.mem i j) = true) ↔ cell m i j = true := by
    rw [hcover, List.any_eq_true]
    simp only [List.mem_cons, exists_eq_or_imp]
  simp only [this]

end FV.Strop

import FV.Proofs.Strop.Table
/-
  What a row span says about the rows it intersects.
-/
namespace FV.Strop
set_option linter.unusedVariables false
set_option linter.unusedSimpArgs false

/-- a span `I` of rows `r..r+k`: every row is one run containing `I`, and `I` is tight on both sides. -/
theorem span_sound (M : Grid) (r : Nat) : ∀ (k : Nat) (I : Interval), span M r k = some I →
    I.low ≤ I.high ∧
    (∀ i, r ≤ i → i ≤ r + k → ∃ J, rowIv M i = some J ∧ J.low ≤ I.low ∧ I.high ≤ J.high) ∧
    (∃ i, r ≤ i ∧ i ≤ r + k ∧ ∃ J, rowIv M i = some J ∧ J.low = I.low) ∧
    (∃ i, r ≤ i ∧ i ≤ r + k ∧ ∃ J, rowIv M i = some J ∧ J.high = I.high) := by
  intro k
  induction k with
  | zero =>
    intro I h
    simp only [span] at h
    have hp := (rowInterval_sound _ _ h).1
    refine ⟨hp, ?_, ⟨r, Nat.le_refl _, Nat.le_refl _, I, h, rfl⟩, ⟨r, Nat.le_refl _, Nat.le_refl _, I, h, rfl⟩⟩
    intro i h1 h2
    have : i = r := by omega
    subst this
    exact ⟨I, h, Nat.le_refl _, Nat.le_refl _⟩
  | succ k ih =>
    intro I h
    simp only [span] at h
    obtain ⟨A, B, hA, hB, hlo, hhi, hle⟩ := inter_eq_some.1 h
    obtain ⟨_, hall, ⟨i1, hi1a, hi1b, J1, hJ1, hJ1'⟩, ⟨i2, hi2a, hi2b, J2, hJ2, hJ2'⟩⟩ := ih A hA
    refine ⟨hle, ?_, ?_, ?_⟩
    · intro i h1 h2
      by_cases hi : i = r + k + 1
      · subst hi; exact ⟨B, hB, by omega, by omega⟩
      · obtain ⟨J, hJ, hJa, hJb⟩ := hall i h1 (by omega)
        exact ⟨J, hJ, by omega, by omega⟩
    · by_cases hmax : A.low ≤ B.low
      · exact ⟨r + k + 1, by omega, by omega, B, hB, by omega⟩
      · exact ⟨i1, hi1a, by omega, J1, hJ1, by omega⟩
    · by_cases hmin : B.high ≤ A.high
      · exact ⟨r + k + 1, by omega, by omega, B, hB, by omega⟩
      · exact ⟨i2, hi2a, by omega, J2, hJ2, by omega⟩

/-- rows that all contain a common non-empty column interval have a span. -/
theorem span_exists (M : Grid) (r lo hi : Nat) (hle : lo ≤ hi) : ∀ (k : Nat),
    (∀ i, r ≤ i → i ≤ r + k → ∃ J, rowIv M i = some J ∧ J.low ≤ lo ∧ hi ≤ J.high) →
    ∃ I, span M r k = some I ∧ I.low ≤ lo ∧ hi ≤ I.high := by
  intro k
  induction k with
  | zero =>
    intro h
    obtain ⟨J, hJ, h1, h2⟩ := h r (Nat.le_refl _) (Nat.le_refl _)
    exact ⟨J, hJ, h1, h2⟩
  | succ k ih =>
    intro h
    obtain ⟨A, hA, hA1, hA2⟩ := ih (fun i h1 h2 => h i h1 (by omega))
    obtain ⟨B, hB, hB1, hB2⟩ := h (r + k + 1) (by omega) (by omega)
    refine ⟨⟨max A.low B.low, min A.high B.high⟩, ?_, by simp; omega, by simp; omega⟩
    simp only [span, hA, hB, inter]
    have : max A.low B.low ≤ min A.high B.high := by omega
    simp [this]

/-- the span is exactly `I` when all rows contain `I` and `I` is tight on both sides. -/
theorem span_complete (M : Grid) (r k : Nat) (I : Interval) (hle : I.low ≤ I.high)
    (hall : ∀ i, r ≤ i → i ≤ r + k → ∃ J, rowIv M i = some J ∧ J.low ≤ I.low ∧ I.high ≤ J.high)
    (hlo : ∃ i, r ≤ i ∧ i ≤ r + k ∧ ∃ J, rowIv M i = some J ∧ J.low = I.low)
    (hhi : ∃ i, r ≤ i ∧ i ≤ r + k ∧ ∃ J, rowIv M i = some J ∧ J.high = I.high) :
    span M r k = some I := by
  obtain ⟨I', hI', h1, h2⟩ := span_exists M r I.low I.high hle k hall
  obtain ⟨_, hall', _, _⟩ := span_sound M r k I' hI'
  obtain ⟨i1, a1, b1, J1, hJ1, e1⟩ := hlo
  obtain ⟨i2, a2, b2, J2, hJ2, e2⟩ := hhi
  obtain ⟨J1', hJ1', c1, _⟩ := hall' i1 a1 b1
  obtain ⟨J2', hJ2', _, c2⟩ := hall' i2 a2 b2
  rw [hJ1] at hJ1'; cases hJ1'
  rw [hJ2] at hJ2'; cases hJ2'
  rw [hI']
  cases I; cases I'; simp at *; omega

/-- `rowIv` in terms of cells. -/
theorem rowIv_iff (M : Grid) (i : Nat) (J : Interval) :
    rowIv M i = some J ↔ J.low ≤ J.high ∧ ∀ j, cell M i j = true ↔ (J.low ≤ j ∧ j ≤ J.high) := by
  unfold rowIv
  rw [rowInterval_iff]
  rfl

/-- a span consists of ones. -/
theorem span_ones (M : Grid) (r k : Nat) (I : Interval) (h : span M r k = some I) (i j : Nat)
    (h1 : r ≤ i) (h2 : i ≤ r + k) (h3 : I.low ≤ j) (h4 : j ≤ I.high) : cell M i j = true := by
  obtain ⟨_, hall, _, _⟩ := span_sound M r k I h
  obtain ⟨J, hJ, a, b⟩ := hall i h1 h2
  exact ((rowIv_iff M i J).1 hJ).2 j |>.2 ⟨by omega, by omega⟩

end FV.Strop

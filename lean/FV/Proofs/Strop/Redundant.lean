import FV.Proofs.Strop.Complete
/-
  An observation about the code: the cell-count validity test never rejects a potential trunk
  (single-run rows, single-run columns and empty corners already force a valid trunk).
-/
namespace FV.Strop
set_option linter.unusedVariables false
set_option linter.unusedSimpArgs false

theorem anyBlock_false_iff (m : Grid) (r0 nr c0 nc : Nat) :
    anyBlock m r0 nr c0 nc = false ↔ ∀ i j, r0 ≤ i → i < r0 + nr → c0 ≤ j → j < c0 + nc → cell m i j = false := by
  unfold anyBlock
  rw [anyFrom_eq_false]
  constructor
  · intro h i j a b c d
    exact (anyFrom_eq_false _ _ _).1 (h i a b) j c d
  · intro h i a b
    rw [anyFrom_eq_false]
    intro j c d
    exact h i j a b c d

theorem potentialTrunk_valid (m : Grid) (hwf : m.wf = true) (T : SRect) (hT : T ∈ potentialTrunks m) :
    ValidTrunk m T := by
  have hT' := hT
  unfold potentialTrunks at hT'
  simp only [List.mem_filter, List.contains_eq_mem, List.mem_map, decide_eq_true_eq] at hT'
  obtain ⟨⟨hrow, S, hS, hSeq⟩, hcorner⟩ := hT'
  obtain ⟨hr, hc, hones⟩ := trunksMatrix_ones m T hrow
  -- rows
  obtain ⟨r, c, I, hrc, hcl, hget, hTeq⟩ := (mem_trunksMatrix m T).1 hrow
  obtain ⟨hsp, _, _⟩ := (finalTable_get m r c I hrc hcl).1 hget
  obtain ⟨_, hrows, _, _⟩ := span_sound m r (c - r) I hsp
  -- columns (rows of the transpose)
  obtain ⟨r', c', I', hrc', hcl', hget', hSeq'⟩ := (mem_trunksMatrix (transpose m) S).1 hS
  obtain ⟨hsp', _, _⟩ := (finalTable_get (transpose m) r' c' I' hrc' hcl').1 hget'
  obtain ⟨_, hcols, _, _⟩ := span_sound (transpose m) r' (c' - r') I' hsp'
  subst hTeq
  subst hSeq'
  simp only [SRect.mk.injEq] at hSeq
  obtain ⟨e1, e2⟩ := hSeq
  subst e1
  have e3 : r' = I.low := by have := congrArg Interval.low e2; simpa using this
  have e4 : c' = I.high := by have := congrArg Interval.high e2; simpa using this
  subst e3; subst e4
  -- corners
  unfold emptyCorners at hcorner
  simp only [Bool.not_eq_true', Bool.or_eq_false_iff, anyBlock_false_iff] at hcorner
  obtain ⟨⟨⟨k1, k2⟩, k3⟩, k4⟩ := hcorner
  simp only at k1 k2 k3 k4 hr hc
  have corner : ∀ i j, cell m i j = true → ¬ (r ≤ i ∧ i ≤ c) → ¬ (I.low ≤ j ∧ j ≤ I.high) → False := by
    intro i j hcell hi hj
    have hin := cell_lt_rows hcell
    have hjn := cell_lt_cols hwf hcell
    by_cases h1 : i < r
    · by_cases h2 : j < I.low
      · have := k1 i j (Nat.zero_le _) (by omega) (Nat.zero_le _) (by omega); rw [this] at hcell; cases hcell
      · have := k2 i j (Nat.zero_le _) (by omega) (by omega) (by omega); rw [this] at hcell; cases hcell
    · by_cases h2 : j < I.low
      · have := k3 i j (by omega) (by omega) (Nat.zero_le _) (by omega); rw [this] at hcell; cases hcell
      · have := k4 i j (by omega) (by omega) (by omega) (by omega); rw [this] at hcell; cases hcell
  refine ⟨hr, hc, hones, ?_⟩
  intro i j hcell
  dsimp only [InT]
  by_cases hi : r ≤ i ∧ i ≤ c
  · obtain ⟨J, hJ, a, b⟩ := hrows i hi.1 (by omega)
    have hJ' := ((rowIv_iff m i J).1 hJ).2
    have hj := (hJ' j).1 hcell
    by_cases hj1 : j < I.low
    · exact Or.inr (Or.inr (Or.inr (Or.inl ⟨hi.1, hi.2, hj1, fun k k1 k2 => (hJ' k).2 ⟨by omega, by omega⟩⟩)))
    · by_cases hj2 : I.high < j
      · exact Or.inr (Or.inr (Or.inr (Or.inr ⟨hi.1, hi.2, hj2, fun k k1 k2 => (hJ' k).2 ⟨by omega, by omega⟩⟩)))
      · exact Or.inl ⟨hi.1, hi.2, by omega, by omega⟩
  · by_cases hj : I.low ≤ j ∧ j ≤ I.high
    · obtain ⟨K, hK, a, b⟩ := hcols j hj.1 (by omega)
      have hK' := ((rowIv_iff (transpose m) j K).1 hK).2
      simp only [cell_transpose m hwf] at hK'
      have hi' := (hK' i).1 hcell
      simp only at a b
      by_cases hi1 : i < r
      · exact Or.inr (Or.inl ⟨hj.1, hj.2, hi1, fun k k1 k2 => (hK' k).2 ⟨by omega, by omega⟩⟩)
      · exact Or.inr (Or.inr (Or.inl ⟨hj.1, hj.2, by omega, fun k k1 k2 => (hK' k).2 ⟨by omega, by omega⟩⟩))
    · exact absurd (corner i j hcell hi hj) id

/-- every potential trunk passes the cell-count test: `instances` has one entry per potential trunk. -/
theorem potentialTrunk_isSome (m : Grid) (hwf : m.wf = true) (T : SRect) (hT : T ∈ potentialTrunks m) :
    ∃ s, mkInstance m T = some s := by
  have hv := potentialTrunk_valid m hwf T hT
  exact mkInstance_isSome m T ((valid_iff_count m hwf T hv.rows_le hv.cols_le hv.ones).2 hv)

end FV.Strop

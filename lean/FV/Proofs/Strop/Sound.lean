import FV.Proofs.Strop.Branches
/-
  Soundness of the instances offered by the model.
-/
namespace FV.Strop
set_option linter.unusedVariables false
set_option linter.unusedSimpArgs false

section sides
variable (m : Grid) (T : SRect)

/-- the four constructors of `StropInstance.__init__`. -/
def mkN (e : Nat × Nat × Nat) : SRect := ⟨⟨T.rows.low - e.1, T.rows.low - 1⟩, ⟨e.2.1, e.2.2⟩⟩
def mkS (e : Nat × Nat × Nat) : SRect := ⟨⟨T.rows.high + 1, T.rows.high + e.1⟩, ⟨e.2.1, e.2.2⟩⟩
def mkW (e : Nat × Nat × Nat) : SRect := ⟨⟨e.2.1, e.2.2⟩, ⟨T.cols.low - e.1, T.cols.low - 1⟩⟩
def mkE (e : Nat × Nat × Nat) : SRect := ⟨⟨e.2.1, e.2.2⟩, ⟨T.cols.high + 1, T.cols.high + e.1⟩⟩

def northOf : List SRect := (runs (hNorth m T) T.cols.low T.cols.high).map (mkN T)
def southOf : List SRect := (runs (hSouth m T) T.cols.low T.cols.high).map (mkS T)
def westOf : List SRect := (runs (hWest m T) T.rows.low T.rows.high).map (mkW T)
def eastOf : List SRect := (runs (hEast m T) T.rows.low T.rows.high).map (mkE T)

theorem mkInstance_some (s : Instance) (h : mkInstance m T = some s) :
    numCells m = total m T ∧ s.trunk = T ∧ s.north = northOf m T ∧ s.south = southOf m T ∧
    s.east = eastOf m T ∧ s.west = westOf m T := by
  unfold mkInstance at h
  split at h
  · rename_i hv
    cases h
    exact ⟨hv, rfl, rfl, rfl, rfl, rfl⟩
  · cases h

theorem mkInstance_isSome (h : numCells m = total m T) : ∃ s, mkInstance m T = some s := by
  unfold mkInstance
  simp [h]

theorem north_spec (hc : T.cols.low ≤ T.cols.high) :
    (∀ i j, CovN m T i j ↔ ∃ b ∈ northOf m T, b.mem i j = true) ∧ (northOf m T).Pairwise NoCommonCell ∧
    ∀ b ∈ northOf m T, b.rows.low ≤ b.rows.high ∧ b.rows.high + 1 = T.rows.low ∧
      T.cols.low ≤ b.cols.low ∧ b.cols.low ≤ b.cols.high ∧ b.cols.high ≤ T.cols.high := by
  obtain ⟨a1, a2⟩ := side_spec (hNorth m T) T.cols.low T.cols.high hc (mkN T) (fun i j => j)
    (fun v i j => T.rows.low - v ≤ i ∧ i ≤ T.rows.low - 1)
    (by intro v a b i j; rw [mem_iff]; simp only [mkN]; omega)
  refine ⟨?_, a2, ?_⟩
  · intro i j
    refine Iff.trans ?_ (a1 i j)
    have := hNorth_le m T j
    simp only [CovN]; omega
  · intro b hb
    obtain ⟨e, he, rfl⟩ := List.mem_map.1 hb
    obtain ⟨c1, c2, c3, c4, c5⟩ := (runs_spec (hNorth m T) T.cols.low T.cols.high hc).1 e he
    have := hNorth_le m T e.2.1
    have := c5 e.2.1 (Nat.le_refl _) c3
    simp only [mkN]; omega

theorem south_spec (hc : T.cols.low ≤ T.cols.high) :
    (∀ i j, CovS m T i j ↔ ∃ b ∈ southOf m T, b.mem i j = true) ∧ (southOf m T).Pairwise NoCommonCell ∧
    ∀ b ∈ southOf m T, b.rows.low ≤ b.rows.high ∧ b.rows.low = T.rows.high + 1 ∧
      T.cols.low ≤ b.cols.low ∧ b.cols.low ≤ b.cols.high ∧ b.cols.high ≤ T.cols.high := by
  obtain ⟨a1, a2⟩ := side_spec (hSouth m T) T.cols.low T.cols.high hc (mkS T) (fun i j => j)
    (fun v i j => T.rows.high + 1 ≤ i ∧ i ≤ T.rows.high + v)
    (by intro v a b i j; rw [mem_iff]; simp only [mkS]; omega)
  refine ⟨?_, a2, ?_⟩
  · intro i j
    refine Iff.trans ?_ (a1 i j)
    simp only [CovS]; omega
  · intro b hb
    obtain ⟨e, he, rfl⟩ := List.mem_map.1 hb
    obtain ⟨c1, c2, c3, c4, c5⟩ := (runs_spec (hSouth m T) T.cols.low T.cols.high hc).1 e he
    simp only [mkS]; exact ⟨by omega, trivial, c2, c3, c4⟩

theorem west_spec (hr : T.rows.low ≤ T.rows.high) :
    (∀ i j, CovW m T i j ↔ ∃ b ∈ westOf m T, b.mem i j = true) ∧ (westOf m T).Pairwise NoCommonCell ∧
    ∀ b ∈ westOf m T, b.cols.low ≤ b.cols.high ∧ b.cols.high + 1 = T.cols.low ∧
      T.rows.low ≤ b.rows.low ∧ b.rows.low ≤ b.rows.high ∧ b.rows.high ≤ T.rows.high := by
  obtain ⟨a1, a2⟩ := side_spec (hWest m T) T.rows.low T.rows.high hr (mkW T) (fun i j => i)
    (fun v i j => T.cols.low - v ≤ j ∧ j ≤ T.cols.low - 1)
    (by intro v a b i j; rw [mem_iff]; simp only [mkW]; try omega)
  refine ⟨?_, a2, ?_⟩
  · intro i j
    refine Iff.trans ?_ (a1 i j)
    have := hWest_le m T i
    simp only [CovW]; omega
  · intro b hb
    obtain ⟨e, he, rfl⟩ := List.mem_map.1 hb
    obtain ⟨c1, c2, c3, c4, c5⟩ := (runs_spec (hWest m T) T.rows.low T.rows.high hr).1 e he
    have := hWest_le m T e.2.1
    have := c5 e.2.1 (Nat.le_refl _) c3
    simp only [mkW]; omega

theorem east_spec (hr : T.rows.low ≤ T.rows.high) :
    (∀ i j, CovE m T i j ↔ ∃ b ∈ eastOf m T, b.mem i j = true) ∧ (eastOf m T).Pairwise NoCommonCell ∧
    ∀ b ∈ eastOf m T, b.cols.low ≤ b.cols.high ∧ b.cols.low = T.cols.high + 1 ∧
      T.rows.low ≤ b.rows.low ∧ b.rows.low ≤ b.rows.high ∧ b.rows.high ≤ T.rows.high := by
  obtain ⟨a1, a2⟩ := side_spec (hEast m T) T.rows.low T.rows.high hr (mkE T) (fun i j => i)
    (fun v i j => T.cols.high + 1 ≤ j ∧ j ≤ T.cols.high + v)
    (by intro v a b i j; rw [mem_iff]; simp only [mkE]; try omega)
  refine ⟨?_, a2, ?_⟩
  · intro i j
    refine Iff.trans ?_ (a1 i j)
    simp only [CovE]; omega
  · intro b hb
    obtain ⟨e, he, rfl⟩ := List.mem_map.1 hb
    obtain ⟨c1, c2, c3, c4, c5⟩ := (runs_spec (hEast m T) T.rows.low T.rows.high hr).1 e he
    simp only [mkE]; exact ⟨by omega, trivial, c2, c3, c4⟩

/-- the cover in terms of the emitted rectangles. -/
theorem cov_iff_rects (hr : T.rows.low ≤ T.rows.high) (hc : T.cols.low ≤ T.cols.high) (i j : Nat) :
    Cov m T i j ↔ (T.mem i j = true ∨ ∃ b ∈ northOf m T ++ southOf m T ++ eastOf m T ++ westOf m T, b.mem i j = true) := by
  have hn := (north_spec m T hc).1 i j
  have hs := (south_spec m T hc).1 i j
  have hw := (west_spec m T hr).1 i j
  have he := (east_spec m T hr).1 i j
  constructor
  · rintro (h | h | h | h | h)
    · exact Or.inl ((mem_iff T i j).2 h)
    · obtain ⟨b, hb, hm⟩ := hn.1 h
      exact Or.inr ⟨b, by simp only [List.mem_append]; exact Or.inl (Or.inl (Or.inl hb)), hm⟩
    · obtain ⟨b, hb, hm⟩ := hs.1 h
      exact Or.inr ⟨b, by simp only [List.mem_append]; exact Or.inl (Or.inl (Or.inr hb)), hm⟩
    · obtain ⟨b, hb, hm⟩ := hw.1 h
      exact Or.inr ⟨b, by simp only [List.mem_append]; exact Or.inr hb, hm⟩
    · obtain ⟨b, hb, hm⟩ := he.1 h
      exact Or.inr ⟨b, by simp only [List.mem_append]; exact Or.inl (Or.inr hb), hm⟩
  · rintro (h | ⟨b, hb, hm⟩)
    · exact Or.inl ((mem_iff T i j).1 h)
    · simp only [List.mem_append] at hb
      rcases hb with ((hb | hb) | hb) | hb
      · exact Or.inr (Or.inl (hn.2 ⟨b, hb, hm⟩))
      · exact Or.inr (Or.inr (Or.inl (hs.2 ⟨b, hb, hm⟩)))
      · exact Or.inr (Or.inr (Or.inr (Or.inr (he.2 ⟨b, hb, hm⟩))))
      · exact Or.inr (Or.inr (Or.inr (Or.inl (hw.2 ⟨b, hb, hm⟩))))

theorem cross_disjoint {X Y : List SRect} {PX PY : Nat → Nat → Prop}
    (hX : ∀ b ∈ X, ∀ i j, b.mem i j = true → PX i j) (hY : ∀ b ∈ Y, ∀ i j, b.mem i j = true → PY i j)
    (hxy : ∀ i j, ¬ (PX i j ∧ PY i j)) : ∀ a ∈ X, ∀ b ∈ Y, NoCommonCell a b :=
  fun a ha b hb i j ⟨m1, m2⟩ => hxy i j ⟨hX a ha i j m1, hY b hb i j m2⟩

/-- trunk and branches share no cell. -/
theorem rects_pairwise (hr : T.rows.low ≤ T.rows.high) (hc : T.cols.low ≤ T.cols.high) :
    (T :: (northOf m T ++ southOf m T ++ eastOf m T ++ westOf m T)).Pairwise NoCommonCell := by
  obtain ⟨n1, n2, _⟩ := north_spec m T hc
  obtain ⟨s1, s2, _⟩ := south_spec m T hc
  obtain ⟨w1, w2, _⟩ := west_spec m T hr
  obtain ⟨e1, e2, _⟩ := east_spec m T hr
  have hN : ∀ b ∈ northOf m T, ∀ i j, b.mem i j = true → CovN m T i j := fun b hb i j h => (n1 i j).2 ⟨b, hb, h⟩
  have hS : ∀ b ∈ southOf m T, ∀ i j, b.mem i j = true → CovS m T i j := fun b hb i j h => (s1 i j).2 ⟨b, hb, h⟩
  have hW : ∀ b ∈ westOf m T, ∀ i j, b.mem i j = true → CovW m T i j := fun b hb i j h => (w1 i j).2 ⟨b, hb, h⟩
  have hE : ∀ b ∈ eastOf m T, ∀ i j, b.mem i j = true → CovE m T i j := fun b hb i j h => (e1 i j).2 ⟨b, hb, h⟩
  have hT : ∀ b ∈ [T], ∀ i j, b.mem i j = true → InT T i j := by
    intro b hb i j h
    simp only [List.mem_singleton] at hb
    subst hb
    exact (mem_iff b i j).1 h
  have hNS : ∀ b ∈ northOf m T ++ southOf m T, ∀ i j, b.mem i j = true → (CovN m T i j ∨ CovS m T i j) := by
    intro b hb i j h
    rcases List.mem_append.1 hb with hb | hb
    · exact Or.inl (hN b hb i j h)
    · exact Or.inr (hS b hb i j h)
  have hNSE : ∀ b ∈ northOf m T ++ southOf m T ++ eastOf m T, ∀ i j, b.mem i j = true →
      (CovN m T i j ∨ CovS m T i j ∨ CovE m T i j) := by
    intro b hb i j h
    rcases List.mem_append.1 hb with hb | hb
    · rcases hNS b hb i j h with h | h
      · exact Or.inl h
      · exact Or.inr (Or.inl h)
    · exact Or.inr (Or.inr (hE b hb i j h))
  have hAll : ∀ b ∈ northOf m T ++ southOf m T ++ eastOf m T ++ westOf m T, ∀ i j, b.mem i j = true →
      (CovN m T i j ∨ CovS m T i j ∨ CovE m T i j ∨ CovW m T i j) := by
    intro b hb i j h
    rcases List.mem_append.1 hb with hb | hb
    · rcases hNSE b hb i j h with h | h | h
      · exact Or.inl h
      · exact Or.inr (Or.inl h)
      · exact Or.inr (Or.inr (Or.inl h))
    · exact Or.inr (Or.inr (Or.inr (hW b hb i j h)))
  rw [List.pairwise_cons]
  refine ⟨?_, ?_⟩
  · intro b hb
    exact cross_disjoint hT hAll (by
      rintro i j ⟨⟨a1, a2, a3, a4⟩, (⟨b1, b2, b3, b4⟩ | ⟨b1, b2, b3, b4⟩ | ⟨b1, b2, b3, b4⟩ | ⟨b1, b2, b3, b4⟩)⟩ <;> omega)
      T (List.mem_singleton.2 rfl) b hb
  · rw [List.pairwise_append]
    refine ⟨?_, w2, cross_disjoint hNSE hW (by
      rintro i j ⟨(⟨a1, a2, a3, a4⟩ | ⟨a1, a2, a3, a4⟩ | ⟨a1, a2, a3, a4⟩), ⟨b1, b2, b3, b4⟩⟩ <;> omega)⟩
    rw [List.pairwise_append]
    refine ⟨?_, e2, cross_disjoint hNS hE (by
      rintro i j ⟨(⟨a1, a2, a3, a4⟩ | ⟨a1, a2, a3, a4⟩), ⟨b1, b2, b3, b4⟩⟩ <;> omega)⟩
    rw [List.pairwise_append]
    exact ⟨n2, s2, cross_disjoint hN hS (by
      rintro i j ⟨⟨a1, a2, a3, a4⟩, ⟨b1, b2, b3, b4⟩⟩; omega)⟩

end sides

/-- what membership in `potentialTrunks` gives for soundness: a proper all-ones rectangle. -/
theorem trunksMatrix_ones (M : Grid) (T : SRect) (h : T ∈ trunksMatrix M) :
    T.rows.low ≤ T.rows.high ∧ T.cols.low ≤ T.cols.high ∧ ∀ i j, InT T i j → cell M i j = true := by
  obtain ⟨r, c, I, hrc, hc, hget, rfl⟩ := (mem_trunksMatrix M T).1 h
  obtain ⟨hsp, _, _⟩ := (finalTable_get M r c I hrc hc).1 hget
  refine ⟨hrc, span_proper M r (c - r) I hsp, ?_⟩
  rintro i j ⟨h1, h2, h3, h4⟩
  exact span_ones M r (c - r) I hsp i j h1 (by simp only at h2; omega) h3 h4

theorem potentialTrunks_sub (m : Grid) (T : SRect) (h : T ∈ potentialTrunks m) : T ∈ trunksMatrix m := by
  unfold potentialTrunks at h
  simp only [List.mem_filter] at h
  exact h.1.1

theorem mem_instances (m : Grid) (s : Instance) :
    s ∈ instances m ↔ ∃ T ∈ potentialTrunks m, mkInstance m T = some s := by
  simp [instances, List.mem_filterMap]

/-- everything soundness needs about one offered instance. -/
theorem instance_facts' (m : Grid) (hwf : m.wf = true) (T : SRect) (hr : T.rows.low ≤ T.rows.high)
    (hc : T.cols.low ≤ T.cols.high) (hones : ∀ i j, InT T i j → cell m i j = true) (s : Instance)
    (h : mkInstance m T = some s) :
    s.trunk = T ∧ ValidTrunk m T ∧
    (∀ i j, cell m i j = true ↔ (T.mem i j = true ∨ ∃ b ∈ s.branches, b.mem i j = true)) ∧
    (T :: s.branches).Pairwise NoCommonCell ∧
    (∀ b ∈ s.north, b.rows.low ≤ b.rows.high ∧ b.rows.high + 1 = T.rows.low ∧
      T.cols.low ≤ b.cols.low ∧ b.cols.low ≤ b.cols.high ∧ b.cols.high ≤ T.cols.high) ∧
    (∀ b ∈ s.south, b.rows.low ≤ b.rows.high ∧ b.rows.low = T.rows.high + 1 ∧
      T.cols.low ≤ b.cols.low ∧ b.cols.low ≤ b.cols.high ∧ b.cols.high ≤ T.cols.high) ∧
    (∀ b ∈ s.east, b.cols.low ≤ b.cols.high ∧ b.cols.low = T.cols.high + 1 ∧
      T.rows.low ≤ b.rows.low ∧ b.rows.low ≤ b.rows.high ∧ b.rows.high ≤ T.rows.high) ∧
    (∀ b ∈ s.west, b.cols.low ≤ b.cols.high ∧ b.cols.high + 1 = T.cols.low ∧
      T.rows.low ≤ b.rows.low ∧ b.rows.low ≤ b.rows.high ∧ b.rows.high ≤ T.rows.high) := by
  obtain ⟨hcount, e0, e1, e2, e3, e4⟩ := mkInstance_some m T s h
  have hv : ValidTrunk m T := (valid_iff_count m hwf T hr hc hones).1 hcount
  have hcov := (validTrunk_iff_cov m hwf T hr hc hones).1 hv
  have hbr : s.branches = northOf m T ++ southOf m T ++ eastOf m T ++ westOf m T := by
    simp [Instance.branches, e1, e2, e3, e4]
  refine ⟨e0, hv, ?_, ?_, ?_, ?_, ?_, ?_⟩
  · intro i j
    rw [hbr, ← cov_iff_rects m T hr hc i j]
    exact ⟨hcov i j, cov_imp_cell m T hones i j⟩
  · rw [hbr]; exact rects_pairwise m T hr hc
  · rw [e1]; exact (north_spec m T hc).2.2
  · rw [e2]; exact (south_spec m T hc).2.2
  · rw [e3]; exact (east_spec m T hr).2.2
  · rw [e4]; exact (west_spec m T hr).2.2

theorem instance_facts (m : Grid) (hwf : m.wf = true) (T : SRect) (hT : T ∈ potentialTrunks m) (s : Instance)
    (h : mkInstance m T = some s) :
    s.trunk = T ∧ ValidTrunk m T ∧
    (∀ i j, cell m i j = true ↔ (T.mem i j = true ∨ ∃ b ∈ s.branches, b.mem i j = true)) ∧
    (T :: s.branches).Pairwise NoCommonCell ∧
    (∀ b ∈ s.north, b.rows.low ≤ b.rows.high ∧ b.rows.high + 1 = T.rows.low ∧
      T.cols.low ≤ b.cols.low ∧ b.cols.low ≤ b.cols.high ∧ b.cols.high ≤ T.cols.high) ∧
    (∀ b ∈ s.south, b.rows.low ≤ b.rows.high ∧ b.rows.low = T.rows.high + 1 ∧
      T.cols.low ≤ b.cols.low ∧ b.cols.low ≤ b.cols.high ∧ b.cols.high ≤ T.cols.high) ∧
    (∀ b ∈ s.east, b.cols.low ≤ b.cols.high ∧ b.cols.low = T.cols.high + 1 ∧
      T.rows.low ≤ b.rows.low ∧ b.rows.low ≤ b.rows.high ∧ b.rows.high ≤ T.rows.high) ∧
    (∀ b ∈ s.west, b.cols.low ≤ b.cols.high ∧ b.cols.high + 1 = T.cols.low ∧
      T.rows.low ≤ b.rows.low ∧ b.rows.low ≤ b.rows.high ∧ b.rows.high ≤ T.rows.high) := by
  obtain ⟨hr, hc, hones⟩ := trunksMatrix_ones m T (potentialTrunks_sub m T hT)
  exact instance_facts' m hwf T hr hc hones s h

end FV.Strop

import FV.Proofs.Strop.Extend
/-
  Completeness, part 2: a maximal valid trunk survives the pruning passes for rows and for columns and the
  corner test, so it is offered as an instance.
-/
namespace FV.Strop
set_option linter.unusedVariables false
set_option linter.unusedSimpArgs false

/-- rows through a valid trunk are single runs given by the west/east histograms. -/
theorem rowIv_of_valid (m : Grid) (hwf : m.wf = true) (T : SRect) (hv : ValidTrunk m T) (i : Nat)
    (h1 : T.rows.low ≤ i) (h2 : i ≤ T.rows.high) :
    rowIv m i = some ⟨T.cols.low - hWest m T i, T.cols.high + hEast m T i⟩ := by
  have hcov := (validTrunk_iff_cov m hwf T hv.rows_le hv.cols_le hv.ones).1 hv
  have hW := hWest_le m T i
  have hc := hv.cols_le
  rw [rowIv_iff]
  refine ⟨by simp only; have := hv.cols_le; omega, ?_⟩
  intro j
  simp only
  constructor
  · intro hcell
    rcases hcov i j hcell with h | ⟨_, _, h, _⟩ | ⟨_, _, h, _⟩ | ⟨_, _, a, b⟩ | ⟨_, _, a, b⟩
    · obtain ⟨_, _, a, b⟩ := h; omega
    · omega
    · omega
    · omega
    · omega
  · rintro ⟨a, b⟩
    apply cov_imp_cell m T hv.ones i j
    by_cases hj1 : j < T.cols.low
    · exact Or.inr (Or.inr (Or.inr (Or.inl ⟨h1, h2, hj1, by omega⟩)))
    · by_cases hj2 : T.cols.high < j
      · exact Or.inr (Or.inr (Or.inr (Or.inr ⟨h1, h2, hj2, by omega⟩)))
      · exact Or.inl ⟨h1, h2, by omega, by omega⟩

/-- **maximal_is_candidate**, row part: a maximal valid trunk is in the set `_get_trunks_matrix` returns. -/
theorem maximal_in_trunksMatrix (m : Grid) (hwf : m.wf = true) (T : SRect) (hv : ValidTrunk m T)
    (hmax : Maximal m T) : T ∈ trunksMatrix m := by
  have hr := hv.rows_le
  have hc := hv.cols_le
  have hcell := hv.ones T.rows.high T.cols.high ⟨hr, Nat.le_refl _, hc, Nat.le_refl _⟩
  have hrn : T.rows.high < m.length := cell_lt_rows hcell
  have hrow := rowIv_of_valid m hwf T hv
  -- some row has no west arm, some row has no east arm
  have hw0 : ∃ i, T.rows.low ≤ i ∧ i ≤ T.rows.high ∧ hWest m T i = 0 := by
    by_cases h1 : 1 ≤ T.cols.low
    · have hn : ¬ ∀ i, T.rows.low ≤ i → i ≤ T.rows.high → cell m i (T.cols.low - 1) = true :=
        fun h => hmax.left ⟨h1, h⟩
      obtain ⟨i, hi⟩ := Classical.not_forall.1 hn
      obtain ⟨a, hi⟩ := Classical.not_imp.1 hi
      obtain ⟨b, hi⟩ := Classical.not_imp.1 hi
      refine ⟨i, a, b, ?_⟩
      rcases Nat.eq_zero_or_pos (hWest m T i) with h0 | hpos
      · exact h0
      · exfalso; apply hi
        exact cov_imp_cell m T hv.ones i (T.cols.low - 1)
          (Or.inr (Or.inr (Or.inr (Or.inl ⟨a, b, by omega, by omega⟩))))
    · exact ⟨T.rows.low, Nat.le_refl _, hr, by have := hWest_le m T T.rows.low; omega⟩
  have he0 : ∃ i, T.rows.low ≤ i ∧ i ≤ T.rows.high ∧ hEast m T i = 0 := by
    obtain ⟨i, hi⟩ := Classical.not_forall.1 hmax.right
    obtain ⟨a, hi⟩ := Classical.not_imp.1 hi
    obtain ⟨b, hi⟩ := Classical.not_imp.1 hi
    refine ⟨i, a, b, ?_⟩
    rcases Nat.eq_zero_or_pos (hEast m T i) with h0 | hpos
    · exact h0
    · exfalso; apply hi
      exact cov_imp_cell m T hv.ones i (T.cols.high + 1)
        (Or.inr (Or.inr (Or.inr (Or.inr ⟨a, b, by omega, by omega⟩))))
  have hspan : span m T.rows.low (T.rows.high - T.rows.low) = some T.cols := by
    apply span_complete m T.rows.low (T.rows.high - T.rows.low) T.cols hc
    · intro i a b
      exact ⟨_, hrow i a (by omega), by simp only; omega, by simp only; omega⟩
    · obtain ⟨i, a, b, h0⟩ := hw0
      exact ⟨i, a, by omega, _, hrow i a b, by simp only; omega⟩
    · obtain ⟨i, a, b, h0⟩ := he0
      exact ⟨i, a, by omega, _, hrow i a b, by simp only; omega⟩
  rw [mem_trunksMatrix]
  refine ⟨T.rows.low, T.rows.high, T.cols, hr, hrn, ?_, rfl⟩
  rw [finalTable_get m _ _ _ hr hrn]
  refine ⟨hspan, ?_, ?_⟩
  · intro _ hsp
    apply hmax.down
    intro j a b
    exact span_ones m T.rows.low (T.rows.high + 1 - T.rows.low) T.cols hsp (T.rows.high + 1) j (by omega) (by omega) a b
  · intro h1 hsp
    apply hmax.up
    refine ⟨h1, ?_⟩
    intro j a b
    exact span_ones m (T.rows.low - 1) (T.rows.high - (T.rows.low - 1)) T.cols hsp (T.rows.low - 1) j (by omega) (by omega) a b

/-! ### transposition -/

theorem transpose_length (m : Grid) : (transpose m).length = m.ncols := by simp [transpose]

theorem cell_transpose (m : Grid) (hwf : m.wf = true) (i j : Nat) : cell (transpose m) j i = cell m i j := by
  by_cases hj : j < m.ncols
  · by_cases hi : i < m.nrows
    · simp [cell, transpose, List.getD_eq_getElem?_getD, hj, hi]
    · have h0 : cell m i j = false := by
        cases h : cell m i j with
        | false => rfl
        | true => exact absurd (cell_lt_rows h) hi
      rw [h0]
      simp [cell, transpose, List.getD_eq_getElem?_getD, hj, hi]
  · have h0 : cell m i j = false := by
      cases h : cell m i j with
      | false => rfl
      | true => exact absurd (cell_lt_cols hwf h) hj
    rw [h0]
    simp [cell, transpose, List.getD_eq_getElem?_getD, hj]

theorem transpose_wf (m : Grid) (hwf : m.wf = true) : (transpose m).wf = true := by
  have h := hwf
  unfold Grid.wf at h ⊢
  simp only [Bool.and_eq_true, decide_eq_true_eq, List.all_eq_true, beq_iff_eq] at h ⊢
  obtain ⟨⟨h1, h2⟩, h3⟩ := h
  have hn : (transpose m).nrows = m.ncols := transpose_length m
  have hc : (transpose m).ncols = m.nrows := by
    obtain ⟨k, hk⟩ : ∃ k, m.ncols = k + 1 := ⟨m.ncols - 1, by omega⟩
    unfold transpose
    rw [hk]
    simp [Grid.ncols, List.range_succ_eq_map, Grid.nrows]
  refine ⟨⟨by omega, by omega⟩, ?_⟩
  intro x hx
  rw [hc]
  simp only [transpose, List.mem_map, List.mem_range] at hx
  obtain ⟨a, _, rfl⟩ := hx
  simp [Grid.nrows]

/-- the rectangle seen in the transposed grid. -/
def SRect.swap (T : SRect) : SRect := ⟨T.cols, T.rows⟩

theorem validTrunk_transpose (m : Grid) (hwf : m.wf = true) (T : SRect) (hv : ValidTrunk m T) :
    ValidTrunk (transpose m) T.swap := by
  obtain ⟨hr, hc, hones, hcross⟩ := hv
  refine ⟨hc, hr, ?_, ?_⟩
  · rintro i j ⟨a1, a2, a3, a4⟩
    rw [cell_transpose m hwf]
    exact hones j i ⟨a3, a4, a1, a2⟩
  · intro i j hcell
    rw [cell_transpose m hwf] at hcell
    simp only [cell_transpose m hwf, SRect.swap, InT]
    rcases hcross j i hcell with h | h | h | h | h
    · exact Or.inl ⟨h.2.2.1, h.2.2.2, h.1, h.2.1⟩
    · exact Or.inr (Or.inr (Or.inr (Or.inl h)))
    · exact Or.inr (Or.inr (Or.inr (Or.inr h)))
    · exact Or.inr (Or.inl h)
    · exact Or.inr (Or.inr (Or.inl h))

theorem maximal_transpose (m : Grid) (hwf : m.wf = true) (T : SRect) (hmax : Maximal m T) :
    Maximal (transpose m) T.swap := by
  obtain ⟨a, b, c, d⟩ := hmax
  refine ⟨?_, ?_, ?_, ?_⟩ <;> simp only [cell_transpose m hwf, SRect.swap] <;> assumption

/-! ### the corner test -/

theorem anyBlock_false (m : Grid) (r0 nr c0 nc : Nat)
    (h : ∀ i j, r0 ≤ i → i < r0 + nr → c0 ≤ j → j < c0 + nc → cell m i j = false) :
    anyBlock m r0 nr c0 nc = false := by
  unfold anyBlock
  rw [anyFrom_eq_false]
  intro i a b
  rw [anyFrom_eq_false]
  intro j c d
  exact h i j a b c d

theorem emptyCorners_of_valid (m : Grid) (T : SRect) (hv : ValidTrunk m T) : emptyCorners m T = true := by
  have hcorner : ∀ i j, ¬ (T.rows.low ≤ i ∧ i ≤ T.rows.high) → ¬ (T.cols.low ≤ j ∧ j ≤ T.cols.high) → cell m i j = false := by
    intro i j hi hj
    cases h : cell m i j with
    | false => rfl
    | true =>
      rcases hv.cross i j h with h | h | h | h | h <;> omega
  unfold emptyCorners
  rw [anyBlock_false, anyBlock_false, anyBlock_false, anyBlock_false]
  · rfl
  all_goals (intro i j a b c d; apply hcorner <;> omega)

/-- **maximal_is_candidate**: a maximal valid trunk survives both pruning passes (for rows and for columns), the
row/column intersection and the corner test. -/
theorem maximal_in_potentialTrunks (m : Grid) (hwf : m.wf = true) (T : SRect) (hv : ValidTrunk m T)
    (hmax : Maximal m T) : T ∈ potentialTrunks m := by
  unfold potentialTrunks
  simp only [List.mem_filter, List.contains_eq_mem, List.mem_map, decide_eq_true_eq]
  refine ⟨⟨maximal_in_trunksMatrix m hwf T hv hmax, ?_⟩, emptyCorners_of_valid m T hv⟩
  exact ⟨T.swap, maximal_in_trunksMatrix (transpose m) (transpose_wf m hwf) T.swap
    (validTrunk_transpose m hwf T hv) (maximal_transpose m hwf T hmax), rfl⟩

/-- a valid trunk makes the polygon a STrOP for the model. -/
theorem isStrop_of_validTrunk (m : Grid) (hwf : m.wf = true) (T : SRect) (hv : ValidTrunk m T) :
    isStrop m = true := by
  obtain ⟨T', hv', hmax, _⟩ := exists_maximal m hwf T hv
  have hpt := maximal_in_potentialTrunks m hwf T' hv' hmax
  have hcount := (valid_iff_count m hwf T' hv'.rows_le hv'.cols_le hv'.ones).2 hv'
  obtain ⟨s, hs⟩ := mkInstance_isSome m T' hcount
  have : s ∈ instances m := (mem_instances m s).2 ⟨T', hpt, hs⟩
  unfold isStrop
  cases hi : instances m with
  | nil => rw [hi] at this; cases this
  | cons a l => rfl

end FV.Strop

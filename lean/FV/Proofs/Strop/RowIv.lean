import FV.Proofs.Strop.Basic
/-
  `list.index`, `_row_interval` and interval intersection.
-/
namespace FV.Strop
set_option linter.unusedVariables false
set_option linter.unusedSimpArgs false

theorem indexFrom_none (R : List Bool) (v : Bool) : ∀ s, indexFrom R v s = none ↔ ∀ j, s ≤ j → R[j]? ≠ some v := by
  induction R with
  | nil => intro s; simp [indexFrom]
  | cons x xs ih =>
    intro s
    cases s with
    | zero =>
      simp only [indexFrom]
      by_cases hx : x = v
      · subst hx; simp; exact ⟨0, by simp⟩
      · have hb : (x == v) = false := by simpa using hx
        simp only [hb, Bool.false_eq_true, if_false, Option.map_eq_none_iff, ih 0]
        constructor
        · intro h j _
          cases j with
          | zero => simpa using hx
          | succ j => simpa using h j (Nat.zero_le _)
        · intro h j _; simpa using h (j + 1) (Nat.zero_le _)
    | succ s =>
      simp only [indexFrom, Option.map_eq_none_iff, ih s]
      constructor
      · intro h j hj
        cases j with
        | zero => omega
        | succ j => simpa using h j (by omega)
      · intro h j hj; simpa using h (j + 1) (by omega)

theorem indexFrom_some (R : List Bool) (v : Bool) : ∀ s i, indexFrom R v s = some i ↔
    s ≤ i ∧ R[i]? = some v ∧ ∀ j, s ≤ j → j < i → R[j]? ≠ some v := by
  induction R with
  | nil => intro s i; simp [indexFrom]
  | cons x xs ih =>
    intro s i
    cases s with
    | zero =>
      simp only [indexFrom]
      by_cases hx : x = v
      · subst hx
        simp only [beq_self_eq_true, if_true, Option.some.injEq]
        constructor
        · intro h; subst h; simp
        · rintro ⟨_, h1, h2⟩
          cases i with
          | zero => rfl
          | succ i => exact absurd (show (x :: xs)[0]? = some x by simp) (h2 0 (Nat.le_refl _) (by omega))
      · have hb : (x == v) = false := by simpa using hx
        simp only [hb, Bool.false_eq_true, if_false, Option.map_eq_some_iff, ih 0]
        constructor
        · rintro ⟨a, ⟨_, h1, h2⟩, rfl⟩
          refine ⟨Nat.zero_le _, by simpa using h1, ?_⟩
          intro j _ hj
          cases j with
          | zero => simpa using hx
          | succ j => simpa using h2 j (Nat.zero_le _) (by omega)
        · rintro ⟨_, h1, h2⟩
          cases i with
          | zero => simp at h1; exact absurd h1 hx
          | succ i =>
            refine ⟨i, ⟨Nat.zero_le _, by simpa using h1, ?_⟩, rfl⟩
            intro j _ hj; simpa using h2 (j + 1) (Nat.zero_le _) (by omega)
    | succ s =>
      simp only [indexFrom, Option.map_eq_some_iff, ih s]
      constructor
      · rintro ⟨a, ⟨h0, h1, h2⟩, rfl⟩
        refine ⟨by omega, by simpa using h1, ?_⟩
        intro j hj hlt
        cases j with
        | zero => omega
        | succ j => simpa using h2 j (by omega) (by omega)
      · rintro ⟨h0, h1, h2⟩
        cases i with
        | zero => omega
        | succ i =>
          refine ⟨i, ⟨by omega, by simpa using h1, ?_⟩, rfl⟩
          intro j hj hlt; simpa using h2 (j + 1) (by omega) (by omega)

/-- the 1-entries of `R` are exactly the non-empty index interval `I`. -/
def OnesAre (R : List Bool) (I : Interval) : Prop :=
  I.low ≤ I.high ∧ ∀ j, R.getD j false = true ↔ (I.low ≤ j ∧ j ≤ I.high)

theorem getD_true_iff (R : List Bool) (j : Nat) : R.getD j false = true ↔ R[j]? = some true := by
  simp only [List.getD_eq_getElem?_getD]
  cases h : R[j]? with
  | none => simp
  | some b => simp

theorem getD_false_of_lt (R : List Bool) (j : Nat) (h : j < R.length) : R.getD j false = false ↔ R[j]? = some false := by
  simp only [List.getD_eq_getElem?_getD]
  have : R[j]? = some R[j] := List.getElem?_eq_getElem h
  rw [this]; simp

theorem OnesAre.unique {R : List Bool} {I J : Interval} (hI : OnesAre R I) (hJ : OnesAre R J) : I = J := by
  obtain ⟨h1, h2⟩ := hI
  obtain ⟨h3, h4⟩ := hJ
  have a1 := (h2 I.low).2 ⟨Nat.le_refl _, h1⟩
  have a2 := (h2 I.high).2 ⟨h1, Nat.le_refl _⟩
  have b1 := (h4 J.low).2 ⟨Nat.le_refl _, h3⟩
  have b2 := (h4 J.high).2 ⟨h3, Nat.le_refl _⟩
  have c1 := (h4 I.low).1 a1
  have c2 := (h4 I.high).1 a2
  have d1 := (h2 J.low).1 b1
  have d2 := (h2 J.high).1 b2
  cases I; cases J; simp only [Interval.mk.injEq] at *; omega

theorem rowInterval_sound (R : List Bool) (I : Interval) (h : rowInterval R = some I) : OnesAre R I := by
  unfold rowInterval at h
  cases h1 : indexFrom R true 0 with
  | none => simp [h1] at h
  | some a =>
    simp only [h1] at h
    obtain ⟨_, ha, ha'⟩ := (indexFrom_some R true 0 a).1 h1
    have halt : a < R.length := by
      rcases Nat.lt_or_ge a R.length with h | h
      · exact h
      · simp [List.getElem?_eq_none h] at ha
    cases h2 : indexFrom R false (a + 1) with
    | none =>
      simp only [h2, Option.some.injEq] at h
      subst h
      have hn := (indexFrom_none R false (a + 1)).1 h2
      refine ⟨by simp; omega, ?_⟩
      intro j
      simp only
      constructor
      · intro hj
        have hj' := (getD_true_iff R j).1 hj
        have hjlt : j < R.length := by
          rcases Nat.lt_or_ge j R.length with h | h
          · exact h
          · simp [List.getElem?_eq_none h] at hj'
        refine ⟨?_, by omega⟩
        rcases Nat.lt_or_ge j a with hlt | hge
        · exact absurd hj' (ha' j (Nat.zero_le _) hlt)
        · exact hge
      · rintro ⟨hj1, hj2⟩
        rcases Nat.eq_or_lt_of_le hj1 with heq | hlt
        · subst heq; exact (getD_true_iff R a).2 ha
        · have := hn j (by omega)
          have hjlt : j < R.length := by omega
          have hsome : R[j]? = some R[j] := List.getElem?_eq_getElem hjlt
          rw [getD_true_iff, hsome]
          rw [hsome] at this
          cases hb : R[j] with
          | true => rfl
          | false => rw [hb] at this; exact absurd rfl this
    | some b =>
      simp only [h2] at h
      obtain ⟨hb0, hb, hb'⟩ := (indexFrom_some R false (a + 1) b).1 h2
      cases h3 : indexFrom R true (b + 1) with
      | some c => simp [h3] at h
      | none =>
        simp only [h3, Option.some.injEq] at h
        subst h
        have hn := (indexFrom_none R true (b + 1)).1 h3
        refine ⟨by simp; omega, ?_⟩
        intro j
        simp only
        constructor
        · intro hj
          have hj' := (getD_true_iff R j).1 hj
          refine ⟨?_, ?_⟩
          · rcases Nat.lt_or_ge j a with hlt | hge
            · exact absurd hj' (ha' j (Nat.zero_le _) hlt)
            · exact hge
          · rcases Nat.lt_or_ge j b with hlt | hge
            · omega
            · rcases Nat.eq_or_lt_of_le hge with heq | hgt
              · subst heq; rw [hb] at hj'; simp at hj'
              · exact absurd hj' (hn j (by omega))
        · rintro ⟨hj1, hj2⟩
          rcases Nat.eq_or_lt_of_le hj1 with heq | hlt
          · subst heq; exact (getD_true_iff R a).2 ha
          · have := hb' j (by omega) (by omega)
            have hblt : b < R.length := by
              rcases Nat.lt_or_ge b R.length with h | h
              · exact h
              · simp [List.getElem?_eq_none h] at hb
            have hjlt : j < R.length := by omega
            have hsome : R[j]? = some R[j] := List.getElem?_eq_getElem hjlt
            rw [getD_true_iff, hsome]
            rw [hsome] at this
            cases hbb : R[j] with
            | true => rfl
            | false => rw [hbb] at this; exact absurd rfl this

theorem rowInterval_complete (R : List Bool) (I : Interval) (h : OnesAre R I) : rowInterval R = some I := by
  obtain ⟨hab, hones⟩ := h
  have htrue : ∀ j, R[j]? = some true ↔ (I.low ≤ j ∧ j ≤ I.high) := fun j => by rw [← getD_true_iff]; exact hones j
  have hb := (htrue I.high).2 ⟨hab, Nat.le_refl _⟩
  have hblt : I.high < R.length := by
    rcases Nat.lt_or_ge I.high R.length with h | h
    · exact h
    · simp [List.getElem?_eq_none h] at hb
  have h1 : indexFrom R true 0 = some I.low := by
    rw [indexFrom_some]
    refine ⟨Nat.zero_le _, (htrue _).2 ⟨Nat.le_refl _, hab⟩, ?_⟩
    intro j _ hj hc
    have := (htrue j).1 hc; omega
  unfold rowInterval
  simp only [h1]
  by_cases hend : I.high + 1 < R.length
  · have hfalse : R[I.high + 1]? = some false := by
      have hsome : R[I.high + 1]? = some R[I.high + 1] := List.getElem?_eq_getElem hend
      rw [hsome]
      cases hv : R[I.high + 1] with
      | false => rfl
      | true => rw [hv] at hsome; have := (htrue _).1 hsome; omega
    have h2 : indexFrom R false (I.low + 1) = some (I.high + 1) := by
      rw [indexFrom_some]
      refine ⟨by omega, hfalse, ?_⟩
      intro j hj1 hj2 hc
      have := (htrue j).2 ⟨by omega, by omega⟩
      rw [this] at hc; simp at hc
    have h3 : indexFrom R true (I.high + 1 + 1) = none := by
      rw [indexFrom_none]
      intro j hj hc
      have := (htrue j).1 hc; omega
    simp only [h2, h3]
    cases I; simp
  · have h2 : indexFrom R false (I.low + 1) = none := by
      rw [indexFrom_none]
      intro j hj hc
      rcases Nat.lt_or_ge I.high j with hlt | hge
      · have : R.length ≤ j := by omega
        simp [List.getElem?_eq_none this] at hc
      · have := (htrue j).2 ⟨by omega, hge⟩
        rw [this] at hc; simp at hc
    simp only [h2]
    have : R.length - 1 = I.high := by omega
    cases I; simp at this ⊢; exact this

theorem rowInterval_iff (R : List Bool) (I : Interval) : rowInterval R = some I ↔ OnesAre R I :=
  ⟨rowInterval_sound R I, rowInterval_complete R I⟩

/-! ### interval intersection is a meet -/

theorem inter_comm (a b : Option Interval) : inter a b = inter b a := by
  cases a <;> cases b <;> simp [inter, Nat.max_comm, Nat.min_comm]

theorem inter_none_left (b : Option Interval) : inter none b = none := by cases b <;> rfl
theorem inter_none_right (a : Option Interval) : inter a none = none := by cases a <;> rfl

theorem inter_eq_some {a b : Option Interval} {I : Interval} : inter a b = some I ↔
    ∃ A B, a = some A ∧ b = some B ∧ I.low = max A.low B.low ∧ I.high = min A.high B.high ∧ I.low ≤ I.high := by
  cases a with
  | none => simp [inter]
  | some A =>
    cases b with
    | none => simp [inter]
    | some B =>
      simp only [inter, Option.some.injEq, exists_and_left, exists_eq_left']
      constructor
      · intro h
        split at h
        · cases h; exact ⟨rfl, rfl, by assumption⟩
        · cases h
      · rintro ⟨h1, h2, h3⟩
        have : max A.low B.low ≤ min A.high B.high := by omega
        simp only [this, if_true]
        cases I; simp at h1 h2 ⊢; omega

theorem inter_assoc (a b c : Option Interval) : inter (inter a b) c = inter a (inter b c) := by
  cases a with
  | none => simp [inter_none_left]
  | some A =>
    cases b with
    | none => simp [inter_none_left, inter_none_right]
    | some B =>
      cases c with
      | none => simp [inter_none_right]
      | some C =>
        simp only [inter]
        by_cases h1 : max A.low B.low ≤ min A.high B.high <;> by_cases h2 : max B.low C.low ≤ min B.high C.high <;>
          simp only [h1, h2, if_true, if_false, inter] <;> (try split) <;> (try split) <;>
          simp only [Option.some.injEq, Interval.mk.injEq, reduceCtorEq] <;> omega

theorem inter_self (a : Option Interval) (h : ∀ A, a = some A → A.low ≤ A.high) : inter a a = a := by
  cases a with
  | none => rfl
  | some A => have := h A rfl; simp [inter, this]

end FV.Strop

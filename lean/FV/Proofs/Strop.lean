import FV.Proofs.Strop.Basic
import FV.Proofs.Strop.RowIv
import FV.Proofs.Strop.Table
import FV.Proofs.Strop.Span
import FV.Proofs.Strop.Valid
import FV.Proofs.Strop.Count
import FV.Proofs.Strop.Branches
import FV.Proofs.Strop.Sound
import FV.Proofs.Strop.Extend
import FV.Proofs.Strop.Complete
import FV.Proofs.Strop.Area
import FV.Proofs.Strop.Redundant
/-
  Helper lemmas for property C15 (single-trunk orthogon decomposition), split by topic:
    Basic     loops, sums, `any`, run lengths
    RowIv     `list.index`, `_row_interval`, interval intersection
    Table     `_get_trunks_matrix`: fill phase and the two in-place pruning passes
    Span      what a row span says about the rows
    Valid     the cross of a trunk (`ValidTrunk`) vs the histograms
    Count     the cell-count validity test
    Branches  the run-length scan
    Sound     the instances offered
    Extend    a decomposition gives a valid trunk; growing a valid trunk to a maximal one
    Complete  a maximal valid trunk is a potential trunk (rows, columns by transposition, corners)
    Area      areas through coordinate lists (Mathlib big operators)
    Redundant the cell-count test never rejects a potential trunk
-/

import FV.Model.Strop
namespace FV.Strop
end FV.Strop

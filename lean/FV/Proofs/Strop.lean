import FV.Proofs.Strop.Basic
import FV.Proofs.Strop.RowIv
import FV.Proofs.Strop.Table
import FV.Proofs.Strop.Span
import FV.Proofs.Strop.Valid
import FV.Proofs.Strop.Count
import FV.Proofs.Strop.Branches
import FV.Proofs.Strop.Sound
import FV.Proofs.Strop.Extend
import FV.Proofs.Strop.Complete
import FV.Proofs.Strop.Area
import FV.Proofs.Strop.Redundant
import FV.Proofs.Strop.Pip
import FV.Proofs.Strop.Coords
import FV.Proofs.Strop.Boundary
import FV.Proofs.Strop.Shoelace
import FV.Proofs.Strop.Classes
import FV.Proofs.Strop.Histogram
/-
  Helper lemmas for property C15 (single-trunk orthogon decomposition), split by topic:
    Basic     loops, sums, `any`, run lengths
    RowIv     `list.index`, `_row_interval`, interval intersection
    Table     `_get_trunks_matrix`: fill phase and the two in-place pruning passes
    Span      what a row span says about the rows
    Valid     the cross of a trunk (`ValidTrunk`) vs the histograms
    Count     the cell-count validity test
    Branches  the run-length scan
    Sound     the instances offered
    Extend    a decomposition gives a valid trunk; growing a valid trunk to a maximal one
    Complete  a maximal valid trunk is a potential trunk (rows, columns by transposition, corners)
    Area      areas through coordinate lists (Mathlib big operators)
    Redundant the cell-count test never rejects a potential trunk
    Pip       `is_point_inside_polygon` = parity of the crossing edges; start vertex / orientation do not matter
    Coords    `sorted(set(…))`, the coordinate lists and the matrix as functions of the point set
    Boundary  a vertex list walking the boundary of the 1-cells of `S`: the matrix is `S`
    Shoelace  … and the shoelace sum is ±2 × the area of the 1-cells (discrete Green formula)
    Classes   `tracesGrid` proved: closure under start vertex / orientation; axis-parallel rectangles
    Histogram `tracesGrid` proved for histogram (staircase) polygons: columns of arbitrary heights on a base line
-/

import FV.Proofs.Force
/-
  Helper lemmas for C13, second part: when the cost and `force_algorithm` RETURN, the value of
  `total_intersection_area`, the visualising runs, and independence of the payload.
  Everything holds for every value of the numeric parameters (`Ops`, the disc overlap).
-/
namespace FV.Force
open FV
set_option linter.unusedSectionVars false
set_option linter.unusedVariables false

/-! ### `Except` folds that cannot fail -/

theorem foldlM_ok {ε γ δ : Type} (f : γ → δ → Except ε γ) (l : List δ)
    (h : ∀ acc, ∀ x ∈ l, ∃ b, f acc x = .ok b) (init : γ) : ∃ r, l.foldlM f init = .ok r := by
  induction l generalizing init with
  | nil => exact ⟨init, rfl⟩
  | cons x xs ih =>
    obtain ⟨b, hb⟩ := h init x (List.mem_cons_self)
    simp only [List.foldlM_cons, hb, bind, Except.bind]
    exact ih (fun acc y hy => h acc y (List.mem_cons_of_mem _ hy)) b

theorem foldlM_inv {ε γ δ : Type} (P : γ → Prop) (f : γ → δ → Except ε γ) (l : List δ)
    (h : ∀ acc x b, P acc → f acc x = .ok b → P b) (init r : γ) (h0 : P init) (hr : l.foldlM f init = .ok r) : P r := by
  induction l generalizing init with
  | nil => simp [pure, Except.pure] at hr; subst hr; exact h0
  | cons x xs ih =>
    simp only [List.foldlM_cons, bind, Except.bind] at hr
    cases hx : f init x with
    | error e => rw [hx] at hr; cases hr
    | ok b => rw [hx] at hr; exact ih b (h init x b h0 hx) hr

theorem mapM_ok {ε γ δ : Type} (f : δ → Except ε γ) (l : List δ) (h : ∀ x ∈ l, ∃ b, f x = .ok b) :
    ∃ r, l.mapM f = .ok r ∧ r.length = l.length := by
  induction l with
  | nil => exact ⟨[], rfl, rfl⟩
  | cons x xs ih =>
    obtain ⟨b, hb⟩ := h x (List.mem_cons_self)
    obtain ⟨r, hr, hl⟩ := ih (fun y hy => h y (List.mem_cons_of_mem _ hy))
    refine ⟨b :: r, ?_, by simp [hl]⟩
    simp [List.mapM_cons, hb, hr, bind, Except.bind, pure, Except.pure]

theorem mapM_error {ε γ δ : Type} (f : δ → Except ε γ) (l : List δ) (e : ε) (h : l.mapM f = .error e) :
    ∃ x ∈ l, ∃ e', f x = .error e' := by
  induction l generalizing e with
  | nil => simp [pure, Except.pure] at h
  | cons x xs ih =>
    cases hx : f x with
    | error e' => exact ⟨x, List.mem_cons_self, e', hx⟩
    | ok b =>
      cases hr : xs.mapM f with
      | error e' =>
        obtain ⟨y, hy, e'', hf⟩ := ih _ hr
        exact ⟨y, List.mem_cons_of_mem _ hy, e'', hf⟩
      | ok r => simp [List.mapM_cons, hx, hr, bind, Except.bind, pure, Except.pure] at h

theorem mapM_length {ε γ δ : Type} (f : δ → Except ε γ) (l : List δ) (r : List γ) (h : l.mapM f = .ok r) :
    r.length = l.length := by
  induction l generalizing r with
  | nil => simp [pure, Except.pure] at h; subst h; rfl
  | cons x xs ih =>
    cases hx : f x with
    | error e' => simp [List.mapM_cons, hx, bind, Except.bind] at h
    | ok b =>
      cases hr : xs.mapM f with
      | error e' => simp [List.mapM_cons, hx, hr, bind, Except.bind] at h
      | ok r' =>
        simp [List.mapM_cons, hx, hr, bind, Except.bind, pure, Except.pure] at h
        subst h; simp [ih r' hr]

variable {α : Type} [Field α] [LinearOrder α] [IsStrictOrderedRing α] {β : Type}

/-! ### after a layout every module has a centre -/

/-- every module of a die written by `writeCentres` has a centre. -/
theorem writeCentres_centre (inst : Inst α β) (pos : List (Pt α)) (v : Nat) (m' : Mod α β)
    (h : (writeCentres inst pos).mods[v]? = some m') : m'.center ≠ none := by
  have hv : v < inst.mods.length := by
    have := (List.getElem?_eq_some_iff.mp h).1
    rwa [writeCentres_length] at this
  rw [writeCentres_mods inst pos v inst.mods[v] (List.getElem?_eq_getElem hv)] at h
  cases h; simp

/-- all centres present. -/
def AllCentres (inst : Inst α β) : Prop := ∀ (v : Nat) (m : Mod α β), inst.mods[v]? = some m → m.center ≠ none

theorem writeCentres_allCentres (inst : Inst α β) (pos : List (Pt α)) : AllCentres (writeCentres inst pos) :=
  fun v m h => writeCentres_centre inst pos v m h

/-! ### the cost returns -/

/-- `total_intersection_area` cannot fail once every module has a centre. -/
theorem tia_ok (o : Ops α) (disc : Pt α → α → Pt α → α → α) (inst : Inst α β) (hc : AllCentres inst) :
    ∃ a, totalIntersectionArea o disc inst = .ok a := by
  unfold totalIntersectionArea
  apply foldlM_ok
  intro acc i hi
  apply foldlM_ok
  intro acc j hj
  have hi' : i < inst.mods.length := List.mem_range.mp hi
  have hj' : j < inst.mods.length := List.mem_range.mp hj
  by_cases e : i = j
  · exact ⟨acc, by simp [e, pure, Except.pure]⟩
  · rw [if_neg e, List.getElem?_eq_getElem hi', List.getElem?_eq_getElem hj']
    have h1 := hc i _ (List.getElem?_eq_getElem hi')
    have h2 := hc j _ (List.getElem?_eq_getElem hj')
    cases c1 : inst.mods[i].center with
    | none => exact absurd c1 h1
    | some c1' =>
      cases c2 : inst.mods[j].center with
      | none => exact absurd c2 h2
      | some c2' => simp only [c1, c2]; exact ⟨_, rfl⟩

/-- well-formed nets: at least one pin, every pin a module index (in Python a net holds ≥ 2 module objects of the
    netlist). -/
def NetsOK (inst : Inst α β) : Prop := ∀ e ∈ inst.nets, e.pins ≠ [] ∧ ∀ v ∈ e.pins, v < inst.mods.length

theorem netWireLength_ok (o : Ops α) (inst : Inst α β) (hc : AllCentres inst) (e : Net α)
    (he : e.pins ≠ [] ∧ ∀ v ∈ e.pins, v < inst.mods.length) : ∃ a, netWireLength o inst e = .ok a := by
  unfold netWireLength
  simp only [bind, Except.bind]
  split
  · rename_i e' heq
    exfalso
    obtain ⟨v, hv, e'', hf⟩ := mapM_error _ _ _ heq
    have hv' := he.2 v hv
    have h1 := hc v _ (List.getElem?_eq_getElem hv')
    rw [List.getElem?_eq_getElem hv'] at hf
    cases c1 : inst.mods[v].center with
    | none => exact absurd c1 h1
    | some c => simp [c1, pure, Except.pure] at hf
  · rename_i cs heq
    have hl := mapM_length _ _ _ heq
    have : cs.length ≠ 0 := by rw [hl]; simpa using he.1
    simp only [this, ↓reduceIte]
    exact ⟨_, rfl⟩

theorem wireLength_ok (o : Ops α) (inst : Inst α β) (hc : AllCentres inst) (hn : NetsOK inst) :
    ∃ a, wireLength o inst = .ok a := by
  unfold wireLength
  obtain ⟨ls, hls, _⟩ := mapM_ok (netWireLength o inst) inst.nets (fun e he => netWireLength_ok o inst hc e (hn e he))
  rw [hls]; exact ⟨_, rfl⟩

theorem cost_ok (o : Ops α) (disc : Pt α → α → Pt α → α → α) (inst : Inst α β) (hc : AllCentres inst)
    (hn : NetsOK inst) : ∃ a, cost o disc inst = .ok a := by
  unfold cost
  obtain ⟨a, ha⟩ := tia_ok o disc inst hc
  obtain ⟨w, hw⟩ := wireLength_ok o inst hc hn
  rw [ha, hw]; exact ⟨_, rfl⟩

theorem writeCentres_netsOK (inst : Inst α β) (pos : List (Pt α)) (hn : NetsOK inst) : NetsOK (writeCentres inst pos) := by
  intro e he
  have := hn e he
  rw [writeCentres_length]
  exact this

/-! ### the value of `total_intersection_area` -/

/-- the overlap term of two modules as the cost evaluates it (both have a centre). -/
def pairTerm (o : Ops α) (disc : Pt α → α → Pt α → α → α) (m1 m2 : Mod α β) : α :=
  match m1.center, m2.center with
  | some c1, some c2 => disc c1 (o.sqrt (m1.area / o.pi)) c2 (o.sqrt (m2.area / o.pi))
  | _, _ => 0

/-- the same by module index. -/
def idxTerm (o : Ops α) (disc : Pt α → α → Pt α → α → α) (inst : Inst α β) (i j : Nat) : α :=
  match inst.mods[i]?, inst.mods[j]? with
  | some m1, some m2 => pairTerm o disc m1 m2
  | _, _ => 0

theorem foldlM_sum {δ : Type} (f : α → δ → Except FErr α) (g : δ → α) (l : List δ)
    (h : ∀ acc, ∀ x ∈ l, f acc x = .ok (acc + g x)) (init : α) :
    l.foldlM f init = .ok (init + (l.map g).sum) := by
  induction l generalizing init with
  | nil => simp [pure, Except.pure]
  | cons x xs ih =>
    simp only [List.foldlM_cons, h init x (List.mem_cons_self), bind, Except.bind]
    rw [ih (fun acc y hy => h acc y (List.mem_cons_of_mem _ hy))]
    simp [add_assoc]

/-- index form: the double loop adds `disc(m_i, m_j)` for every ORDERED pair of distinct positions `i ≠ j`, once. -/
theorem tia_index (o : Ops α) (disc : Pt α → α → Pt α → α → α) (inst : Inst α β) (hc : AllCentres inst) :
    totalIntersectionArea o disc inst = .ok
      (((List.range inst.mods.length).map fun i =>
        ((List.range inst.mods.length).map fun j => if i = j then 0 else idxTerm o disc inst i j).sum).sum) := by
  unfold totalIntersectionArea
  dsimp only
  refine (foldlM_sum _
    (fun i => ((List.range inst.mods.length).map fun j => if i = j then 0 else idxTerm o disc inst i j).sum) _ ?_ _).trans ?_
  rotate_left
  · simp
  · intro acc i hi
    apply foldlM_sum
    intro acc j hj
    have hi' : i < inst.mods.length := List.mem_range.mp hi
    have hj' : j < inst.mods.length := List.mem_range.mp hj
    by_cases e : i = j
    · simp [e, pure, Except.pure]
    · rw [if_neg e, if_neg e]
      unfold idxTerm pairTerm
      rw [List.getElem?_eq_getElem hi', List.getElem?_eq_getElem hj']
      have h1 := hc i _ (List.getElem?_eq_getElem hi')
      have h2 := hc j _ (List.getElem?_eq_getElem hj')
      cases c1 : inst.mods[i].center with
      | none => exact absurd c1 h1
      | some c1' =>
        cases c2 : inst.mods[j].center with
        | none => exact absurd c2 h2
        | some c2' => simp only [c1, c2]; rfl

/-- a sum over indices with the diagonal left out = the full sum minus the diagonal term. -/
theorem sum_range_skip (h : Nat → α) (n i : Nat) (hi : i < n) :
    ((List.range n).map fun j => if i = j then 0 else h j).sum = ((List.range n).map h).sum - h i := by
  induction n with
  | zero => omega
  | succ n ih =>
    rw [List.range_succ, List.map_append, List.map_append, List.sum_append, List.sum_append]
    by_cases e : i = n
    · subst e
      have : ((List.range i).map fun j => if i = j then 0 else h j) = (List.range i).map h := by
        apply List.map_congr_left
        intro j hj
        have : j < i := List.mem_range.mp hj
        rw [if_neg (by omega)]
      rw [this]; simp
    · have hi' : i < n := by omega
      rw [ih hi']
      simp [e]; ring

/-- a sum over the indices of a list of a term that reads the list at that index = the sum over the list. -/
theorem sum_range_getElem? {δ : Type} (l : List δ) (G : Option δ → α) :
    ((List.range l.length).map fun j => G l[j]?).sum = (l.map fun b => G (some b)).sum := by
  have : (List.range l.length).map (fun j => G l[j]?) = l.map fun b => G (some b) := by
    apply List.ext_getElem?
    intro k
    simp only [List.getElem?_map]
    by_cases hk : k < l.length
    · simp [hk]
    · simp [hk]
  rw [this]

theorem sum_map_sub' {δ : Type} (f g : δ → α) (l : List δ) :
    (l.map fun a => f a - g a).sum = (l.map f).sum - (l.map g).sum := by
  induction l with
  | nil => simp
  | cons x xs ih => simp only [List.map_cons, List.sum_cons, ih]; ring

/-- the sum of `f` over all ordered pairs of list positions (diagonal included) … -/
def sqSum {δ : Type} (f : δ → δ → α) (l : List δ) : α := (l.map fun a => (l.map fun b => f a b).sum).sum
/-- … and over the diagonal. -/
def diagSum {δ : Type} (f : δ → δ → α) (l : List δ) : α := (l.map fun a => f a a).sum

/-- list form of the value: all ordered pairs minus the diagonal. -/
theorem tia_value (o : Ops α) (disc : Pt α → α → Pt α → α → α) (inst : Inst α β) (hc : AllCentres inst) :
    totalIntersectionArea o disc inst = .ok (sqSum (pairTerm o disc) inst.mods - diagSum (pairTerm o disc) inst.mods) := by
  rw [tia_index o disc inst hc]
  congr 1
  let G : Option (Mod α β) → α := fun mi => match mi with
    | some m1 => (inst.mods.map fun b => pairTerm o disc m1 b).sum - pairTerm o disc m1 m1
    | none => 0
  have h1 : ∀ i ∈ List.range inst.mods.length,
      ((List.range inst.mods.length).map fun j => if i = j then 0 else idxTerm o disc inst i j).sum = G inst.mods[i]? := by
    intro i hi
    have hi' : i < inst.mods.length := List.mem_range.mp hi
    rw [sum_range_skip _ _ _ hi']
    have := sum_range_getElem? inst.mods (fun mj => match inst.mods[i]?, mj with
      | some m1, some m2 => pairTerm o disc m1 m2 | _, _ => 0)
    unfold idxTerm
    rw [this]
    simp [G, List.getElem?_eq_getElem hi']
  rw [List.map_congr_left h1, sum_range_getElem? inst.mods G]
  simp only [sqSum, diagSum, G]
  exact sum_map_sub' _ _ _

theorem sum_map_add' {δ : Type} (f g : δ → α) (l : List δ) :
    (l.map fun a => f a + g a).sum = (l.map f).sum + (l.map g).sum := by
  induction l with
  | nil => simp
  | cons x xs ih => simp only [List.map_cons, List.sum_cons, ih]; ring

theorem sum_map_perm {δ : Type} (g : δ → α) (l l' : List δ) (h : l.Perm l') : (l.map g).sum = (l'.map g).sum := by
  induction h with
  | nil => rfl
  | cons x _ ih => simp [ih]
  | swap x y l => simp only [List.map_cons, List.sum_cons]; ring
  | trans _ _ ih1 ih2 => rw [ih1, ih2]

theorem sqSum_perm {δ : Type} (f : δ → δ → α) (l l' : List δ) (h : l.Perm l') : sqSum f l = sqSum f l' := by
  unfold sqSum
  rw [sum_map_perm _ l l' h]
  congr 1
  apply List.map_congr_left
  intro a _
  exact sum_map_perm _ l l' h

theorem diagSum_perm {δ : Type} (f : δ → δ → α) (l l' : List δ) (h : l.Perm l') : diagSum f l = diagSum f l' :=
  sum_map_perm _ l l' h

/-- every unordered pair of distinct list positions once, in both orders. -/
def pairSum {δ : Type} (f : δ → δ → α) : List δ → α
  | [] => 0
  | a :: l => (l.map fun b => f a b + f b a).sum + pairSum f l

theorem sq_sub_diag {δ : Type} (f : δ → δ → α) (l : List δ) : sqSum f l - diagSum f l = pairSum f l := by
  induction l with
  | nil => simp [sqSum, diagSum, pairSum]
  | cons a l ih =>
    rw [pairSum, ← ih]
    simp only [sqSum, diagSum, List.map_cons, List.sum_cons]
    rw [sum_map_add' (fun x => f x a) (fun x => (l.map fun b => f x b).sum) l, sum_map_add' (fun b => f a b) (fun b => f b a) l]
    ring

theorem pairSum_nonneg {δ : Type} (f : δ → δ → α) (hf : ∀ a b, 0 ≤ f a b) (l : List δ) : 0 ≤ pairSum f l := by
  induction l with
  | nil => simp [pairSum]
  | cons a l ih =>
    rw [pairSum]
    apply add_nonneg _ ih
    apply List.sum_nonneg
    intro x hx
    obtain ⟨b, _, rfl⟩ := List.mem_map.mp hx
    exact add_nonneg (hf _ _) (hf _ _)

/-- every unordered pair of distinct list positions once (first position first). -/
def pairSumOnce {δ : Type} (f : δ → δ → α) : List δ → α
  | [] => 0
  | a :: l => (l.map fun b => f a b).sum + pairSumOnce f l

/-- with a symmetric overlap function every unordered pair contributes twice its overlap. -/
theorem pairSum_symm {δ : Type} (f : δ → δ → α) (hf : ∀ a b, f a b = f b a) (l : List δ) :
    pairSum f l = 2 * pairSumOnce f l := by
  induction l with
  | nil => simp [pairSum, pairSumOnce]
  | cons a l ih =>
    rw [pairSum, pairSumOnce, ih, sum_map_add' (fun b => f a b) (fun b => f b a) l]
    have : (l.map fun b => f b a) = l.map fun b => f a b := List.map_congr_left (fun b _ => hf b a)
    rw [this]; ring

/-! ### `force_algorithm` returns -/

theorem kappas_ne_zero (kp : α) (h : kp ∈ (kappas : List α)) : kp ≠ 0 := by
  simp only [kappas, List.mem_map, List.mem_range] at h
  obtain ⟨i, _, rfl⟩ := h
  simp only [ten_eq]
  have : ((i + 4 : Nat) : α) ≠ 0 := by exact_mod_cast (by omega : i + 4 ≠ 0)
  exact div_ne_zero this (by norm_num)

theorem costTable_ok (f : α → Except FErr α) (ks : List α) (h : ∀ kp ∈ ks, ∃ c, f kp = .ok c) :
    ∃ r, costTable f ks = .ok r := by
  induction ks with
  | nil => exact ⟨[], rfl⟩
  | cons kp ks ih =>
    obtain ⟨c, hc⟩ := h kp (List.mem_cons_self)
    obtain ⟨r, hr⟩ := ih (fun k hk => h k (List.mem_cons_of_mem _ hk))
    simp only [costTable, hc, hr, bind, Except.bind]
    exact ⟨_, rfl⟩

/-- a layout for a non-zero spring factor returns (restatement of `layout_returns` with the factors separated). -/
theorem frLayout_ok_of (o : Ops α) (inst : Inst α β) (kappa : α) (maxIter : Nat) (hn : inst.mods ≠ [])
    (hkp : kappa ≠ 0) (hp : o.powHalf (inst.W * inst.H / ((inst.mods.length : Nat) : α)) ≠ 0) :
    frLayout o inst kappa maxIter = .ok (writeCentres inst (frLoop o inst
      (kappa * o.powHalf (inst.W * inst.H / ((inst.mods.length : Nat) : α))) (tempStep inst maxIter) maxIter
      (temp0 inst) (initPos inst))) := by
  have hl : inst.mods.length ≠ 0 := by simpa using hn
  have hk : kappa * o.powHalf (inst.W * inst.H / ((inst.mods.length : Nat) : α)) ≠ 0 := mul_ne_zero hkp hp
  have hz : isZeroF (kappa * o.powHalf (inst.W * inst.H / ((inst.mods.length : Nat) : α))) = false := by
    cases h : isZeroF (kappa * o.powHalf (inst.W * inst.H / ((inst.mods.length : Nat) : α))) with
    | true => exact absurd ((isZeroF_iff _).mp h) hk
    | false => rfl
  simp only [frLayout, frPositions, springK, hl, ↓reduceIte, bind, Except.bind, attractionRaises, hz, Bool.false_and,
    Bool.false_eq_true, pure, Except.pure]

theorem costOf_ok (o : Ops α) (disc : Pt α → α → Pt α → α → α) (inst : Inst α β) (maxIter : Nat) (kp : α)
    (hn : inst.mods ≠ []) (hkp : kp ≠ 0) (hp : o.powHalf (inst.W * inst.H / ((inst.mods.length : Nat) : α)) ≠ 0)
    (hnets : NetsOK inst) : ∃ c, costOf o disc inst maxIter kp = .ok c := by
  unfold costOf
  rw [frLayout_ok_of o inst kp maxIter hn hkp hp]
  simp only [bind, Except.bind]
  exact cost_ok o disc _ (writeCentres_allCentres _ _) (writeCentres_netsOK _ _ hnets)

theorem forceAlgorithm_ok (o : Ops α) (disc : Pt α → α → Pt α → α → α) (inst : Inst α β) (maxIter : Nat)
    (hlt : ∀ x, o.ltInf x = true) (hn : inst.mods ≠ [])
    (hp : o.powHalf (inst.W * inst.H / ((inst.mods.length : Nat) : α)) ≠ 0) (hnets : NetsOK inst) :
    ∃ out, forceAlgorithm o disc inst maxIter = .ok out := by
  obtain ⟨table, ht⟩ := costTable_ok (costOf o disc inst maxIter) kappas
    (fun kp hk => costOf_ok o disc inst maxIter kp hn (kappas_ne_zero kp hk) hp hnets)
  obtain ⟨h1, _⟩ := costTable_spec _ _ _ ht
  unfold forceAlgorithm bestKappa
  simp only [ht, bind, Except.bind, pure, Except.pure]
  rcases argminFrom_spec o.ltInf hlt table with ⟨he, _⟩ | ⟨b, l1, l2, hb, e, _, _⟩
  · exfalso
    rw [he] at h1
    have : (kappas : List α).length = 0 := by rw [← h1]; rfl
    simp [kappas] at this
  · rw [hb]
    have hbk : b.1 ∈ (kappas : List α) := by
      rw [← h1, e]; simp
    exact ⟨_, frLayout_ok_of o inst b.1 maxIter hn (kappas_ne_zero _ hbk) hp⟩

/-! ### what the algorithm reads of a die: size, nets and per module (centre, area, fixed) -/

/-- two dies (possibly with payloads of different types) agree on everything the force code reads. -/
def SameCore {γ : Type} (a : Inst α β) (b : Inst α γ) : Prop :=
  a.W = b.W ∧ a.H = b.H ∧ a.nets = b.nets ∧
    a.mods.map (fun m => (m.center, m.area, m.fixed)) = b.mods.map (fun m => (m.center, m.area, m.fixed))

section Core
variable {γ : Type}

theorem SameCore.length {a : Inst α β} {b : Inst α γ} (h : SameCore a b) : a.mods.length = b.mods.length := by
  have := congrArg List.length h.2.2.2
  simpa using this

theorem SameCore.get {a : Inst α β} {b : Inst α γ} (h : SameCore a b) (v : Nat) :
    (a.mods[v]?).map (fun m => (m.center, m.area, m.fixed)) = (b.mods[v]?).map (fun m => (m.center, m.area, m.fixed)) := by
  have := congrArg (fun l => l[v]?) h.2.2.2
  simpa [List.getElem?_map] using this

theorem SameCore.modArea {a : Inst α β} {b : Inst α γ} (h : SameCore a b) : modArea a = modArea b := by
  funext v
  have := h.get v
  unfold Force.modArea
  cases ha : a.mods[v]? <;> cases hb : b.mods[v]? <;> simp_all

theorem SameCore.modFixed {a : Inst α β} {b : Inst α γ} (h : SameCore a b) : modFixed a = modFixed b := by
  funext v
  have := h.get v
  unfold Force.modFixed
  cases ha : a.mods[v]? <;> cases hb : b.mods[v]? <;> simp_all

theorem SameCore.initPos {a : Inst α β} {b : Inst α γ} (h : SameCore a b) : initPos a = initPos b := by
  unfold Force.initPos
  rw [h.1, h.2.1]
  apply List.ext_getElem?
  intro v
  simp only [List.getElem?_map]
  have := h.get v
  cases ha : a.mods[v]? <;> cases hb : b.mods[v]? <;> simp_all

theorem SameCore.frStep {a : Inst α β} {b : Inst α γ} (h : SameCore a b) (o : Ops α) (k t : α) (pos : List (Pt α)) :
    frStep o a k t pos = frStep o b k t pos := by
  simp only [Force.frStep, h.length, h.modArea, h.modFixed, h.1, h.2.1, h.2.2.1]

theorem SameCore.frLoop {a : Inst α β} {b : Inst α γ} (h : SameCore a b) (o : Ops α) (k dt : α) (i : Nat) (t : α)
    (pos : List (Pt α)) : frLoop o a k dt i t pos = frLoop o b k dt i t pos := by
  induction i generalizing t pos with
  | zero => rfl
  | succ i ih => simp only [Force.frLoop, h.frStep, ih]

theorem SameCore.frPositions {a : Inst α β} {b : Inst α γ} (h : SameCore a b) (o : Ops α) (kappa : α) (maxIter : Nat) :
    frPositions o a kappa maxIter = frPositions o b kappa maxIter := by
  simp only [Force.frPositions, springK, tempStep, temp0, h.length, h.1, h.2.1, h.2.2.1, h.frLoop, h.initPos]

/-- writing the same positions keeps the dies in agreement. -/
theorem SameCore.writeCentres {a : Inst α β} {b : Inst α γ} (h : SameCore a b) (pos : List (Pt α)) :
    SameCore (writeCentres a pos) (writeCentres b pos) := by
  refine ⟨h.1, h.2.1, h.2.2.1, ?_⟩
  apply List.ext_getElem?
  intro v
  simp only [List.getElem?_map]
  have hg := h.get v
  cases ha : a.mods[v]? with
  | none =>
    cases hb : b.mods[v]? with
    | none =>
      have h1 : (Force.writeCentres a pos).mods[v]? = none := by
        rw [List.getElem?_eq_none_iff] at ha ⊢; rw [writeCentres_length]; exact ha
      have h2 : (Force.writeCentres b pos).mods[v]? = none := by
        rw [List.getElem?_eq_none_iff] at hb ⊢; rw [writeCentres_length]; exact hb
      rw [h1, h2]; rfl
    | some mb => rw [ha, hb] at hg; simp at hg
  | some ma =>
    cases hb : b.mods[v]? with
    | none => rw [ha, hb] at hg; simp at hg
    | some mb =>
      rw [ha, hb] at hg
      simp only [Option.map_some, Option.some.injEq, Prod.mk.injEq] at hg
      rw [writeCentres_mods a pos v ma ha, writeCentres_mods b pos v mb hb]
      simp [hg.2.1, hg.2.2, h.1, h.2.1]

theorem SameCore.tia {a : Inst α β} {b : Inst α γ} (h : SameCore a b) (o : Ops α) (disc : Pt α → α → Pt α → α → α) :
    totalIntersectionArea o disc a = totalIntersectionArea o disc b := by
  unfold totalIntersectionArea
  dsimp only
  rw [h.length]
  congr 1
  funext acc i
  congr 1
  funext acc j
  by_cases e : i = j
  · simp [e]
  · rw [if_neg e, if_neg e]
    have hi := h.get i
    have hj := h.get j
    cases ha : a.mods[i]? <;> cases hb : b.mods[i]? <;> cases ha' : a.mods[j]? <;> cases hb' : b.mods[j]? <;>
      simp_all

theorem SameCore.netWireLength {a : Inst α β} {b : Inst α γ} (h : SameCore a b) (o : Ops α) (e : Net α) :
    netWireLength o a e = netWireLength o b e := by
  unfold Force.netWireLength
  congr 2
  funext v
  have hv := h.get v
  cases ha : a.mods[v]? <;> cases hb : b.mods[v]? <;> simp_all

theorem SameCore.cost {a : Inst α β} {b : Inst α γ} (h : SameCore a b) (o : Ops α) (disc : Pt α → α → Pt α → α → α) :
    cost o disc a = cost o disc b := by
  unfold Force.cost wireLength
  rw [h.tia, h.2.2.1]
  have : Force.netWireLength o a = Force.netWireLength o b := funext (h.netWireLength o)
  rw [this]

theorem frLayout_eq (o : Ops α) (inst : Inst α β) (kappa : α) (maxIter : Nat) :
    frLayout o inst kappa maxIter = (frPositions o inst kappa maxIter).map (Force.writeCentres inst) := by
  unfold frLayout
  cases frPositions o inst kappa maxIter <;> rfl

theorem SameCore.costOf {a : Inst α β} {b : Inst α γ} (h : SameCore a b) (o : Ops α) (disc : Pt α → α → Pt α → α → α)
    (maxIter : Nat) (kp : α) : costOf o disc a maxIter kp = costOf o disc b maxIter kp := by
  unfold Force.costOf
  rw [frLayout_eq, frLayout_eq, h.frPositions]
  cases Force.frPositions o b kp maxIter with
  | error e => rfl
  | ok pos => exact (h.writeCentres pos).cost o disc

theorem SameCore.bestKappa {a : Inst α β} {b : Inst α γ} (h : SameCore a b) (o : Ops α) (disc : Pt α → α → Pt α → α → α)
    (ks : List α) (maxIter : Nat) : bestKappa o disc a ks maxIter = bestKappa o disc b ks maxIter := by
  unfold Force.bestKappa
  have : Force.costOf o disc a maxIter = Force.costOf o disc b maxIter := funext (h.costOf o disc maxIter)
  rw [this]

theorem SameCore.frLayout {a : Inst α β} {b : Inst α γ} (h : SameCore a b) (o : Ops α) (kp : α) (maxIter : Nat) :
    (Force.frLayout o a kp maxIter).map centresOf = (Force.frLayout o b kp maxIter).map centresOf := by
  rw [frLayout_eq, frLayout_eq, h.frPositions]
  cases Force.frPositions o b kp maxIter with
  | error e => rfl
  | ok pos =>
    have := (h.writeCentres pos).2.2.2
    have := congrArg (List.map (fun (t : Option (Pt α) × α × Bool) => t.1)) this
    simpa [centresOf, Except.map, List.map_map, Function.comp_def] using this

/-- the centres `force_algorithm` returns are a function of what `SameCore` compares — nothing else. -/
theorem SameCore.forceAlgorithm {a : Inst α β} {b : Inst α γ} (h : SameCore a b) (o : Ops α)
    (disc : Pt α → α → Pt α → α → α) (maxIter : Nat) :
    (Force.forceAlgorithm o disc a maxIter).map centresOf = (Force.forceAlgorithm o disc b maxIter).map centresOf := by
  unfold Force.forceAlgorithm
  rw [h.bestKappa]
  cases Force.bestKappa o disc b kappas maxIter with
  | error e => rfl
  | ok bo =>
    have key : ∀ kp, (Force.frLayout o a kp maxIter).map centresOf = (Force.frLayout o b kp maxIter).map centresOf := by
      intro kp
      rw [frLayout_eq, frLayout_eq, h.frPositions]
      cases Force.frPositions o b kp maxIter with
      | error e => rfl
      | ok pos =>
        have := (h.writeCentres pos).2.2.2
        have := congrArg (List.map (fun (t : Option (Pt α) × α × Bool) => t.1)) this
        simpa [centresOf, Except.map, List.map_map, Function.comp_def] using this
    cases bo with
    | none => exact key _
    | some x => exact key _

end Core


/-! ### the visualising run -/

/-- a step on a die whose centres were overwritten is the step on the original die (centres are not read). -/
theorem frStep_writeCentres (o : Ops α) (inst : Inst α β) (p : List (Pt α)) (k t : α) (pos : List (Pt α)) :
    frStep o (writeCentres inst p) k t pos = frStep o inst k t pos := by
  have hA : modArea (writeCentres inst p) = modArea inst := by
    funext v
    unfold modArea
    cases hv : inst.mods[v]? with
    | none =>
      have h1 : (writeCentres inst p).mods[v]? = none := by
        rw [List.getElem?_eq_none_iff] at hv ⊢; rw [writeCentres_length]; exact hv
      rw [h1]
    | some m => rw [writeCentres_mods inst p v m hv]
  have hF : modFixed (writeCentres inst p) = modFixed inst := by
    funext v
    unfold modFixed
    cases hv : inst.mods[v]? with
    | none =>
      have h1 : (writeCentres inst p).mods[v]? = none := by
        rw [List.getElem?_eq_none_iff] at hv ⊢; rw [writeCentres_length]; exact hv
      rw [h1]
    | some m => rw [writeCentres_mods inst p v m hv]
  simp only [frStep, writeCentres_length, hA, hF]
  rfl

/-- overwriting centres twice = overwriting them once with the later positions. -/
theorem writeCentres_twice (inst : Inst α β) (p q : List (Pt α)) :
    writeCentres (writeCentres inst p) q = writeCentres inst q := by
  have hm : (writeCentres (writeCentres inst p) q).mods = (writeCentres inst q).mods := by
    apply List.ext_getElem?
    intro v
    cases hv : inst.mods[v]? with
    | none =>
      have h1 : (writeCentres inst q).mods[v]? = none := by
        rw [List.getElem?_eq_none_iff] at hv ⊢; rw [writeCentres_length]; exact hv
      have h2 : (writeCentres (writeCentres inst p) q).mods[v]? = none := by
        rw [List.getElem?_eq_none_iff] at hv ⊢; rw [writeCentres_length, writeCentres_length]; exact hv
      rw [h1, h2]
    | some m =>
      rw [writeCentres_mods inst q v m hv, writeCentres_mods (writeCentres inst p) q v _ (writeCentres_mods inst p v m hv)]
      rfl
  have e : ∀ X : Inst α β, writeCentres X q = ⟨X.W, X.H, (writeCentres X q).mods, X.nets⟩ := fun X => rfl
  rw [e (writeCentres inst p), e inst, hm]
  rfl

/-- two dies that differ in centres only. -/
def SameButCentres (a b : Inst α β) : Prop :=
  a.W = b.W ∧ a.H = b.H ∧ a.nets = b.nets ∧
    a.mods.map (fun m => (m.area, m.fixed, m.rest)) = b.mods.map (fun m => (m.area, m.fixed, m.rest))

theorem SameButCentres.refl (a : Inst α β) : SameButCentres a a := ⟨rfl, rfl, rfl, rfl⟩

theorem SameButCentres.trans {a b c : Inst α β} (h1 : SameButCentres a b) (h2 : SameButCentres b c) :
    SameButCentres a c :=
  ⟨h1.1.trans h2.1, h1.2.1.trans h2.2.1, h1.2.2.1.trans h2.2.2.1, h1.2.2.2.trans h2.2.2.2⟩

theorem writeCentres_sbc (inst : Inst α β) (p : List (Pt α)) : SameButCentres (writeCentres inst p) inst :=
  ⟨rfl, rfl, rfl, writeCentres_frame inst p⟩

theorem SameButCentres.get {a b : Inst α β} (h : SameButCentres a b) (v : Nat) :
    (a.mods[v]?).map (fun m => (m.area, m.fixed, m.rest)) = (b.mods[v]?).map (fun m => (m.area, m.fixed, m.rest)) := by
  have := congrArg (fun l => l[v]?) h.2.2.2
  simpa [List.getElem?_map] using this

theorem SameButCentres.length {a b : Inst α β} (h : SameButCentres a b) : a.mods.length = b.mods.length := by
  have := congrArg List.length h.2.2.2
  simpa using this

theorem SameButCentres.frStep {a b : Inst α β} (h : SameButCentres a b) (o : Ops α) (k t : α) (pos : List (Pt α)) :
    frStep o a k t pos = frStep o b k t pos := by
  have hA : modArea a = modArea b := by
    funext v
    have := h.get v
    unfold Force.modArea
    cases ha : a.mods[v]? <;> cases hb : b.mods[v]? <;> simp_all
  have hF : modFixed a = modFixed b := by
    funext v
    have := h.get v
    unfold Force.modFixed
    cases ha : a.mods[v]? <;> cases hb : b.mods[v]? <;> simp_all
  simp only [Force.frStep, h.length, hA, hF, h.1, h.2.1, h.2.2.1]

theorem SameButCentres.writeCentres {a b : Inst α β} (h : SameButCentres a b) (pos : List (Pt α)) :
    writeCentres a pos = writeCentres b pos := by
  have hm : (Force.writeCentres a pos).mods = (Force.writeCentres b pos).mods := by
    apply List.ext_getElem?
    intro v
    have hg := h.get v
    cases ha : a.mods[v]? with
    | none =>
      cases hb : b.mods[v]? with
      | none =>
        have h1 : (Force.writeCentres a pos).mods[v]? = none := by
          rw [List.getElem?_eq_none_iff] at ha ⊢; rw [writeCentres_length]; exact ha
        have h2 : (Force.writeCentres b pos).mods[v]? = none := by
          rw [List.getElem?_eq_none_iff] at hb ⊢; rw [writeCentres_length]; exact hb
        rw [h1, h2]
      | some mb => rw [ha, hb] at hg; simp at hg
    | some ma =>
      cases hb : b.mods[v]? with
      | none => rw [ha, hb] at hg; simp at hg
      | some mb =>
        rw [ha, hb] at hg
        simp only [Option.map_some, Option.some.injEq, Prod.mk.injEq] at hg
        rw [writeCentres_mods a pos v ma ha, writeCentres_mods b pos v mb hb]
        cases ma; cases mb
        simp only at hg
        simp [hg.1, hg.2.1, hg.2.2, h.1, h.2.1]
  have e : ∀ X : Inst α β, Force.writeCentres X pos = ⟨X.W, X.H, (Force.writeCentres X pos).mods, X.nets⟩ := fun X => rfl
  rw [e a, e b, hm, h.1, h.2.1, h.2.2.1]

/-- the visualising loop, for ANY plot that changes nothing but centres: the positions are those of the plain loop,
    the die still differs from the input in centres only, and the frames are the centres after 1, 2, … iterations. -/
theorem frLoopVis_spec (o : Ops α) (plot : Inst α β → Inst α β) (hplot : ∀ d, SameButCentres (plot d) d)
    (inst : Inst α β) (k dt : α) (i : Nat) (t : α) (pos : List (Pt α)) (cur : Inst α β)
    (hcur : SameButCentres cur inst) (frames : List (List (Option (Pt α)))) :
    ∃ cur', SameButCentres cur' inst ∧
      (i = 0 → cur' = cur) ∧ (0 < i → cur' = plot (writeCentres inst (frLoop o inst k dt i t pos))) ∧
      frLoopVis o plot k dt i t pos cur frames =
        (frLoop o inst k dt i t pos, cur',
         frames ++ (List.range i).map fun j => centresOf (writeCentres inst (frLoop o inst k dt (j + 1) t pos))) := by
  induction i generalizing t pos cur frames with
  | zero => exact ⟨cur, hcur, fun _ => rfl, fun h => absurd h (by omega), by simp [frLoopVis, frLoop]⟩
  | succ i ih =>
    have hs : frStep o cur k t pos = frStep o inst k t pos := hcur.frStep o k t pos
    have hw : writeCentres cur (frStep o inst k t pos) = writeCentres inst (frStep o inst k t pos) :=
      hcur.writeCentres _
    obtain ⟨cur', h1, h0, hp, h2⟩ := ih (t - dt) (frStep o inst k t pos) (plot (writeCentres inst (frStep o inst k t pos)))
      ((hplot _).trans (writeCentres_sbc inst _)) (frames ++ [centresOf (writeCentres inst (frStep o inst k t pos))])
    refine ⟨cur', h1, fun h => absurd h (by omega), ?_, ?_⟩
    · intro _
      cases i with
      | zero => simp only [frLoop]; exact h0 rfl
      | succ n => simp only [frLoop] at hp ⊢; exact hp (by omega)
    · simp only [frLoopVis, hs, hw, h2]
      simp only [frLoop, List.range_succ_eq_map, List.map_cons, List.map_map, Function.comp_def, List.append_assoc,
        List.singleton_append]

theorem mapRest_sameCore {γ : Type} (f : β → γ) (inst : Inst α β) : SameCore inst (mapRest f inst) := by
  refine ⟨rfl, rfl, rfl, ?_⟩
  simp [mapRest, List.map_map, Function.comp_def]

/-- `frLayoutVis` (repaired code) in terms of the plain positions, for any plot that changes nothing but centres. -/
theorem frLayoutVis_eq (o : Ops α) (plot : Inst α β → Inst α β) (hplot : ∀ d, SameButCentres (plot d) d)
    (inst : Inst α β) (kappa : α) (maxIter : Nat) (vis : Bool) :
    frLayoutVis o plot inst kappa maxIter vis =
      (frPositions o inst kappa maxIter).bind fun pos =>
        match springK o inst kappa with
        | .ok k => .ok (writeCentres inst pos,
            if vis then centresOf (writeCentres inst (initPos inst)) ::
              (List.range maxIter).map fun j => centresOf (writeCentres inst
                (frLoop o inst k (tempStep inst maxIter) (j + 1) (temp0 inst) (initPos inst)))
            else [])
        | .error e => .error e := by
  unfold frLayoutVis frPositions
  cases hk : springK o inst kappa with
  | error e => rfl
  | ok k =>
    simp only [bind, Except.bind]
    by_cases hr : attractionRaises k maxIter inst.nets = true
    · simp [hr]
    · simp only [hr, Bool.false_eq_true, ↓reduceIte, pure, Except.pure]
      cases vis with
      | false => simp
      | true =>
        obtain ⟨cur', h1, _, _, h2⟩ := frLoopVis_spec o plot hplot inst k (tempStep inst maxIter) maxIter (temp0 inst)
          (initPos inst) (plot (writeCentres inst (initPos inst))) ((hplot _).trans (writeCentres_sbc inst _))
          [centresOf (writeCentres inst (initPos inst))]
        simp only [↓reduceIte, h2, h1.writeCentres]
        simp

/-- the code as found: the die comes back as the LAST PLOT left it. -/
theorem frLayoutVisAsFound_eq (o : Ops α) (plot : Inst α β → Inst α β) (hplot : ∀ d, SameButCentres (plot d) d)
    (inst : Inst α β) (kappa : α) (maxIter : Nat) (out : Inst α β) (frames : List (List (Option (Pt α))))
    (h : frLayoutVisAsFound o plot inst kappa maxIter = .ok (out, frames)) :
    ∃ plain, frLayout o inst kappa maxIter = .ok plain ∧ out = plot plain := by
  unfold frLayoutVisAsFound at h
  rw [frLayout_eq]
  unfold frPositions
  cases hk : springK o inst kappa with
  | error e => rw [hk] at h; cases h
  | ok k =>
    rw [hk] at h
    simp only [bind, Except.bind] at h ⊢
    by_cases hr : attractionRaises k maxIter inst.nets = true
    · simp [hr] at h
    · simp only [hr, Bool.false_eq_true, ↓reduceIte, pure, Except.pure] at h ⊢
      obtain ⟨cur', h1, h0, hp, h2⟩ := frLoopVis_spec o plot hplot inst k (tempStep inst maxIter) maxIter (temp0 inst)
        (initPos inst) (plot (writeCentres inst (initPos inst))) ((hplot _).trans (writeCentres_sbc inst _))
        [centresOf (writeCentres inst (initPos inst))]
      rw [h2] at h
      simp only [Except.ok.injEq, Prod.mk.injEq] at h
      refine ⟨_, rfl, ?_⟩
      rw [← h.1]
      cases maxIter with
      | zero => rw [h0 rfl]; rfl
      | succ n => exact hp (by omega)

end FV.Force

import FV.Proofs.Force
/-
  Helper lemmas for C13, second part: when the cost and `force_algorithm` RETURN, the value of
  `total_intersection_area`, the visualising runs, and independence of the payload.
  Everything holds for every value of the numeric parameters (`Ops`, the disc overlap).
-/
namespace FV.Force
open FV
set_option linter.unusedSectionVars false
set_option linter.unusedVariables false

/-! ### `Except` folds that cannot fail -/

theorem foldlM_ok {ε γ δ : Type} (f : γ → δ → Except ε γ) (l : List δ)
    (h : ∀ acc, ∀ x ∈ l, ∃ b, f acc x = .ok b) (init : γ) : ∃ r, l.foldlM f init = .ok r := by
  induction l generalizing init with
  | nil => exact ⟨init, rfl⟩
  | cons x xs ih =>
    obtain ⟨b, hb⟩ := h init x (List.mem_cons_self)
    simp only [List.foldlM_cons, hb, bind, Except.bind]
    exact ih (fun acc y hy => h acc y (List.mem_cons_of_mem _ hy)) b

theorem mapM_ok {ε γ δ : Type} (f : δ → Except ε γ) (l : List δ) (h : ∀ x ∈ l, ∃ b, f x = .ok b) :
    ∃ r, l.mapM f = .ok r ∧ r.length = l.length := by
  induction l with
  | nil => exact ⟨[], rfl, rfl⟩
  | cons x xs ih =>
    obtain ⟨b, hb⟩ := h x (List.mem_cons_self)
    obtain ⟨r, hr, hl⟩ := ih (fun y hy => h y (List.mem_cons_of_mem _ hy))
    refine ⟨b :: r, ?_, by simp [hl]⟩
    simp [List.mapM_cons, hb, hr, bind, Except.bind, pure, Except.pure]

theorem mapM_error {ε γ δ : Type} (f : δ → Except ε γ) (l : List δ) (e : ε) (h : l.mapM f = .error e) :
    ∃ x ∈ l, ∃ e', f x = .error e' := by
  induction l with
  | nil => simp [pure, Except.pure] at h
  | cons x xs ih =>
    cases hx : f x with
    | error e' => exact ⟨x, List.mem_cons_self, e', hx⟩
    | ok b =>
      cases hr : xs.mapM f with
      | error e' =>
        obtain ⟨y, hy, e'', hf⟩ := ih hr
        exact ⟨y, List.mem_cons_of_mem _ hy, e'', hf⟩
      | ok r => simp [List.mapM_cons, hx, hr, bind, Except.bind, pure, Except.pure] at h

theorem mapM_length {ε γ δ : Type} (f : δ → Except ε γ) (l : List δ) (r : List γ) (h : l.mapM f = .ok r) :
    r.length = l.length := by
  induction l generalizing r with
  | nil => simp [pure, Except.pure] at h; subst h; rfl
  | cons x xs ih =>
    cases hx : f x with
    | error e' => simp [List.mapM_cons, hx, bind, Except.bind] at h
    | ok b =>
      cases hr : xs.mapM f with
      | error e' => simp [List.mapM_cons, hx, hr, bind, Except.bind] at h
      | ok r' =>
        simp [List.mapM_cons, hx, hr, bind, Except.bind, pure, Except.pure] at h
        subst h; simp [ih r' hr]

variable {α : Type} [Field α] [LinearOrder α] [IsStrictOrderedRing α] {β : Type}

/-! ### after a layout every module has a centre -/

/-- every module of a die written by `writeCentres` has a centre. -/
theorem writeCentres_centre (inst : Inst α β) (pos : List (Pt α)) (v : Nat) (m' : Mod α β)
    (h : (writeCentres inst pos).mods[v]? = some m') : m'.center ≠ none := by
  have hv : v < inst.mods.length := by
    have := (List.getElem?_eq_some_iff.mp h).1
    rwa [writeCentres_length] at this
  rw [writeCentres_mods inst pos v inst.mods[v] (List.getElem?_eq_getElem hv)] at h
  cases h; simp

/-- all centres present. -/
def AllCentres (inst : Inst α β) : Prop := ∀ (v : Nat) (m : Mod α β), inst.mods[v]? = some m → m.center ≠ none

theorem writeCentres_allCentres (inst : Inst α β) (pos : List (Pt α)) : AllCentres (writeCentres inst pos) :=
  fun v m h => writeCentres_centre inst pos v m h

/-! ### the cost returns -/

/-- `total_intersection_area` cannot fail once every module has a centre. -/
theorem tia_ok (o : Ops α) (disc : Pt α → α → Pt α → α → α) (inst : Inst α β) (hc : AllCentres inst) :
    ∃ a, totalIntersectionArea o disc inst = .ok a := by
  unfold totalIntersectionArea
  apply foldlM_ok
  intro acc i hi
  apply foldlM_ok
  intro acc j hj
  have hi' : i < inst.mods.length := List.mem_range.mp hi
  have hj' : j < inst.mods.length := List.mem_range.mp hj
  by_cases e : i = j
  · exact ⟨acc, by simp [e, pure, Except.pure]⟩
  · rw [if_neg e, List.getElem?_eq_getElem hi', List.getElem?_eq_getElem hj']
    have h1 := hc i _ (List.getElem?_eq_getElem hi')
    have h2 := hc j _ (List.getElem?_eq_getElem hj')
    cases c1 : inst.mods[i].center with
    | none => exact absurd c1 h1
    | some c1' =>
      cases c2 : inst.mods[j].center with
      | none => exact absurd c2 h2
      | some c2' => exact ⟨_, rfl⟩

/-- well-formed nets: at least one pin, every pin a module index (in Python a net holds ≥ 2 module objects of the
    netlist). -/
def NetsOK (inst : Inst α β) : Prop := ∀ e ∈ inst.nets, e.pins ≠ [] ∧ ∀ v ∈ e.pins, v < inst.mods.length

theorem netWireLength_ok (o : Ops α) (inst : Inst α β) (hc : AllCentres inst) (e : Net α)
    (he : e.pins ≠ [] ∧ ∀ v ∈ e.pins, v < inst.mods.length) : ∃ a, netWireLength o inst e = .ok a := by
  unfold netWireLength
  simp only [bind, Except.bind]
  split
  · rename_i e' heq
    exfalso
    obtain ⟨v, hv, e'', hf⟩ := mapM_error _ _ _ heq
    have hv' := he.2 v hv
    have h1 := hc v _ (List.getElem?_eq_getElem hv')
    rw [List.getElem?_eq_getElem hv'] at hf
    cases c1 : inst.mods[v].center with
    | none => exact absurd c1 h1
    | some c => simp [c1, pure, Except.pure] at hf
  · rename_i cs heq
    have hl := mapM_length _ _ _ heq
    have : cs.length ≠ 0 := by rw [hl]; simpa using he.1
    simp only [this, ↓reduceIte]
    exact ⟨_, rfl⟩

theorem wireLength_ok (o : Ops α) (inst : Inst α β) (hc : AllCentres inst) (hn : NetsOK inst) :
    ∃ a, wireLength o inst = .ok a := by
  unfold wireLength
  obtain ⟨ls, hls, _⟩ := mapM_ok (netWireLength o inst) inst.nets (fun e he => netWireLength_ok o inst hc e (hn e he))
  rw [hls]; exact ⟨_, rfl⟩

theorem cost_ok (o : Ops α) (disc : Pt α → α → Pt α → α → α) (inst : Inst α β) (hc : AllCentres inst)
    (hn : NetsOK inst) : ∃ a, cost o disc inst = .ok a := by
  unfold cost
  obtain ⟨a, ha⟩ := tia_ok o disc inst hc
  obtain ⟨w, hw⟩ := wireLength_ok o inst hc hn
  rw [ha, hw]; exact ⟨_, rfl⟩

theorem writeCentres_netsOK (inst : Inst α β) (pos : List (Pt α)) (hn : NetsOK inst) : NetsOK (writeCentres inst pos) := by
  intro e he
  have := hn e he
  rw [writeCentres_length]
  exact this

/-! ### `force_algorithm` returns -/

theorem kappas_ne_zero (kp : α) (h : kp ∈ (kappas : List α)) : kp ≠ 0 := by
  simp only [kappas, List.mem_map, List.mem_range] at h
  obtain ⟨i, _, rfl⟩ := h
  simp only [ten_eq]
  have : ((i + 4 : Nat) : α) ≠ 0 := by exact_mod_cast (by omega : i + 4 ≠ 0)
  exact div_ne_zero this (by norm_num)

theorem costTable_ok (f : α → Except FErr α) (ks : List α) (h : ∀ kp ∈ ks, ∃ c, f kp = .ok c) :
    ∃ r, costTable f ks = .ok r := by
  induction ks with
  | nil => exact ⟨[], rfl⟩
  | cons kp ks ih =>
    obtain ⟨c, hc⟩ := h kp (List.mem_cons_self)
    obtain ⟨r, hr⟩ := ih (fun k hk => h k (List.mem_cons_of_mem _ hk))
    simp only [costTable, hc, hr, bind, Except.bind]
    exact ⟨_, rfl⟩

/-- a layout for a non-zero spring factor returns (restatement of `layout_returns` with the factors separated). -/
theorem frLayout_ok_of (o : Ops α) (inst : Inst α β) (kappa : α) (maxIter : Nat) (hn : inst.mods ≠ [])
    (hkp : kappa ≠ 0) (hp : o.powHalf (inst.W * inst.H / ((inst.mods.length : Nat) : α)) ≠ 0) :
    frLayout o inst kappa maxIter = .ok (writeCentres inst (frLoop o inst
      (kappa * o.powHalf (inst.W * inst.H / ((inst.mods.length : Nat) : α))) (tempStep inst maxIter) maxIter
      (temp0 inst) (initPos inst))) := by
  have hl : inst.mods.length ≠ 0 := by simpa using hn
  have hk : kappa * o.powHalf (inst.W * inst.H / ((inst.mods.length : Nat) : α)) ≠ 0 := mul_ne_zero hkp hp
  have hz : isZeroF (kappa * o.powHalf (inst.W * inst.H / ((inst.mods.length : Nat) : α))) = false := by
    cases h : isZeroF (kappa * o.powHalf (inst.W * inst.H / ((inst.mods.length : Nat) : α))) with
    | true => exact absurd ((isZeroF_iff _).mp h) hk
    | false => rfl
  simp only [frLayout, frPositions, springK, hl, ↓reduceIte, bind, Except.bind, attractionRaises, hz, Bool.false_and,
    Bool.false_eq_true, pure, Except.pure]

theorem costOf_ok (o : Ops α) (disc : Pt α → α → Pt α → α → α) (inst : Inst α β) (maxIter : Nat) (kp : α)
    (hn : inst.mods ≠ []) (hkp : kp ≠ 0) (hp : o.powHalf (inst.W * inst.H / ((inst.mods.length : Nat) : α)) ≠ 0)
    (hnets : NetsOK inst) : ∃ c, costOf o disc inst maxIter kp = .ok c := by
  unfold costOf
  rw [frLayout_ok_of o inst kp maxIter hn hkp hp]
  simp only [bind, Except.bind]
  exact cost_ok o disc _ (writeCentres_allCentres _ _) (writeCentres_netsOK _ _ hnets)

theorem forceAlgorithm_ok (o : Ops α) (disc : Pt α → α → Pt α → α → α) (inst : Inst α β) (maxIter : Nat)
    (hlt : ∀ x, o.ltInf x = true) (hn : inst.mods ≠ [])
    (hp : o.powHalf (inst.W * inst.H / ((inst.mods.length : Nat) : α)) ≠ 0) (hnets : NetsOK inst) :
    ∃ out, forceAlgorithm o disc inst maxIter = .ok out := by
  obtain ⟨table, ht⟩ := costTable_ok (costOf o disc inst maxIter) kappas
    (fun kp hk => costOf_ok o disc inst maxIter kp hn (kappas_ne_zero kp hk) hp hnets)
  obtain ⟨h1, _⟩ := costTable_spec _ _ _ ht
  unfold forceAlgorithm bestKappa
  simp only [ht, bind, Except.bind, pure, Except.pure]
  rcases argminFrom_spec o.ltInf hlt table with ⟨he, _⟩ | ⟨b, l1, l2, hb, e, _, _⟩
  · exfalso
    rw [he] at h1
    have : (kappas : List α).length = 0 := by rw [← h1]; rfl
    simp [kappas] at this
  · rw [hb]
    have hbk : b.1 ∈ (kappas : List α) := by
      rw [← h1, e]; simp
    exact ⟨_, frLayout_ok_of o inst b.1 maxIter hn (kappas_ne_zero _ hbk) hp⟩

end FV.Force

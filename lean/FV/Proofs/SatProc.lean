import FV.Model.SatProc
import FV.Proofs.Wrap
/-
  Helper lemmas for C20 (ROBDD store half): the multi-manager process `FV.Proc.SatProc` keeps, for EVERY manager,
  the C07 invariant `MInv` (the manager encodes exactly the constraints it accepted) — whatever the other managers do
  in between.  Core Lean only.
-/
set_option linter.unusedSectionVars false
set_option linter.unusedVariables false
namespace FV.Proc
open FV.PB FV.Sat

/-- acceptance of a well-formed constraint does not depend on the manager's state nor on the store: it is
    `acceptable p` -/
theorem post_ok_iff_acceptable {S : Store Var} {m : Mgr} {ps : List Post} (h : MInv S m ps) (p : Post) (hp : p.WF) :
    (∃ m' S', m.post S p = .ok (m', S')) ↔ acceptable p = true := by
  cases p with
  | clause c => simp [Mgr.post, acceptable]
  | imply l1 l2 => simp [Mgr.post, acceptable]
  | amoQ lst => simp [Mgr.post, acceptable]
  | amoH k lst =>
    simp only [Mgr.post, Mgr.heule, acceptable, decide_eq_true_eq]
    by_cases hk : k < 3
    · simp [hk] <;> omega
    · simp [hk] <;> omega
  | pb q dec =>
    simp only [Mgr.post, acceptable]
    unfold Mgr.pseudoBool
    cases hc : q.isClause with
    | taut => simp
    | clause c => simp
    | no =>
      simp only [decide_eq_true_eq]
      by_cases hop : q.op = .ge
      · obtain ⟨id, S', hg, w, _, hs, _⟩ := getRobdd_spec q dec S h.wf hp.1.1 hop
        obtain ⟨m2, r, _⟩ := codify_spec w (id + 1) id m hs (by omega)
        rw [hg]
        simp only [r, bind, Except.bind, pure, Except.pure]
        simp [hop]
      · rw [getRobdd_refused q dec S hop]
        simp [hop]

/-- every manager of the process encodes exactly the constraints `acc i` it accepted so far; the store is well formed
    and extends the store `S0` the process started from -/
structure PInv (S0 : Store Var) (w : SatProc) (acc : Nat → List Post) : Prop where
  wf : WFStore w.store
  le0 : S0.le w.store
  minv : ∀ i m, w.mgrs[i]? = some m → MInv w.store m (acc i)

theorem pinv_init (n : Nat) : PInv Store.init (SatProc.init n) (fun _ => []) where
  wf := wf_init
  le0 := Store.le_refl _
  minv := by
    intro i m hm
    simp only [SatProc.init, List.getElem?_replicate] at hm
    split at hm
    · simp at hm; subst hm; exact minv_init wf_init
    · simp at hm

theorem ownPosts_append (i : Nat) : ∀ (a b : List SatOp), ownPosts i (a ++ b) = ownPosts i a ++ ownPosts i b
  | [], b => rfl
  | op :: r, b => by
    cases op with
    | newvar j v => simpa [ownPosts] using ownPosts_append i r b
    | solve j ans => simpa [ownPosts] using ownPosts_append i r b
    | post j p =>
      simp only [List.cons_append, ownPosts]
      split
      · simp [ownPosts_append i r b]
      · exact ownPosts_append i r b

theorem getElem?_set_some {l : List Mgr} {i j : Nat} {a m : Mgr} (h : (l.set i a)[j]? = some m) :
    (j = i ∧ m = a ∧ i < l.length) ∨ (j ≠ i ∧ l[j]? = some m) := by
  rw [List.getElem?_set] at h
  by_cases hij : i = j
  · subst hij
    simp only [↓reduceIte] at h
    split at h
    · simp at h; exact Or.inl ⟨rfl, h.symm, by assumption⟩
    · simp at h
  · simp only [hij, ↓reduceIte] at h
    exact Or.inr ⟨fun e => hij e.symm, h⟩

/-- one operation of any manager re-establishes the invariant for ALL managers -/
theorem pinv_step {S0 : Store Var} {w : SatProc} {acc : Nat → List Post} (h : PInv S0 w acc) (op : SatOp) (hop : op.WF) :
    PInv S0 (w.step op).1 (fun j => acc j ++ ownPosts j [op]) := by
  cases op with
  | newvar i v =>
    simp only [SatProc.step, ownPosts, List.append_nil]
    cases hm : w.mgrs[i]? with
    | none => simpa [hm] using h
    | some m =>
      simp only []
      refine ⟨h.wf, h.le0, ?_⟩
      intro j mj hj
      rcases getElem?_set_some hj with ⟨rfl, rfl, _⟩ | ⟨_, hj'⟩
      · exact minv_newvar (h.minv _ m hm) v
      · exact h.minv j mj hj'
  | solve i ans =>
    simp only [SatProc.step, ownPosts, List.append_nil]
    cases hm : w.mgrs[i]? with
    | none => simpa [hm] using h
    | some m =>
      simp only []
      cases hs : m.solve ans with
      | error e => simpa [hs] using h
      | ok r =>
        obtain ⟨b, m'⟩ := r
        simp only []
        refine ⟨h.wf, h.le0, ?_⟩
        intro j mj hj
        rcases getElem?_set_some hj with ⟨rfl, rfl, _⟩ | ⟨_, hj'⟩
        · exact minv_solve (h.minv _ m hm) hs
        · exact h.minv j mj hj'
  | post i p =>
    have hp : p.WF := hop
    simp only [SatProc.step]
    cases hm : w.mgrs[i]? with
    | none =>
      simp only []
      refine ⟨h.wf, h.le0, ?_⟩
      intro j mj hj
      have hne : i ≠ j := by intro e; subst e; rw [hm] at hj; simp at hj
      have : ownPosts j [SatOp.post i p] = [] := by simp [ownPosts, hne]
      rw [this, List.append_nil]
      exact h.minv j mj hj
    | some m =>
      simp only []
      have hinv := h.minv i m hm
      cases hr : m.post w.store p with
      | error e =>
        simp only []
        have hna : acceptable p = false := by
          cases ha : acceptable p with
          | false => rfl
          | true =>
            obtain ⟨m', S', hok⟩ := (post_ok_iff_acceptable hinv p hp).2 ha
            rw [hok] at hr; simp at hr
        refine ⟨h.wf, h.le0, ?_⟩
        intro j mj hj
        have : ownPosts j [SatOp.post i p] = [] := by simp [ownPosts, hna]
        rw [this, List.append_nil]
        exact h.minv j mj hj
      | ok r =>
        obtain ⟨m', S'⟩ := r
        simp only []
        have ha : acceptable p = true := (post_ok_iff_acceptable hinv p hp).1 ⟨m', S', hr⟩
        obtain ⟨hw', hle⟩ := post_store h.wf hp hr
        refine ⟨hw', Store.le_trans h.le0 hle, ?_⟩
        intro j mj hj
        rcases getElem?_set_some hj with ⟨rfl, rfl, _⟩ | ⟨hne, hj'⟩
        · have : ownPosts j [SatOp.post j p] = [p] := by simp [ownPosts, ha]
          rw [this]
          exact minv_post hinv p hp hr
        · have : ownPosts j [SatOp.post i p] = [] := by
            simp [ownPosts]; intro e; exact absurd e.symm hne
          rw [this, List.append_nil]
          exact minv_grow (h.minv j mj hj') hle hw'

theorem run_cons (w : SatProc) (op : SatOp) (ops : List SatOp) : w.run (op :: ops) = (w.step op).1.run ops := rfl

/-- a whole interleaved history re-establishes the invariant for all managers -/
theorem pinv_run {S0 : Store Var} : ∀ (ops : List SatOp) (w : SatProc) (acc : Nat → List Post), PInv S0 w acc →
    (∀ op ∈ ops, op.WF) → PInv S0 (w.run ops) (fun j => acc j ++ ownPosts j ops)
  | [], w, acc, h, _ => by simpa [SatProc.run, ownPosts] using h
  | op :: r, w, acc, h, hwf => by
    have h1 := pinv_step h op (hwf op (by simp))
    have h2 := pinv_run r _ _ h1 (fun o ho => hwf o (by simp [ho]))
    rw [run_cons]
    have e : (fun j => (acc j ++ ownPosts j [op]) ++ ownPosts j r) = (fun j => acc j ++ ownPosts j (op :: r)) := by
      funext j
      rw [List.append_assoc, ← ownPosts_append j [op] r]
      rfl
    rw [← e]
    exact h2

theorem step_length (w : SatProc) (op : SatOp) : (w.step op).1.mgrs.length = w.mgrs.length := by
  cases op with
  | newvar i v => simp only [SatProc.step]; split <;> simp
  | solve i ans =>
    simp only [SatProc.step]
    split
    · split <;> simp
    · rfl
  | post i p =>
    simp only [SatProc.step]
    split
    · split <;> simp
    · rfl

theorem run_length : ∀ (ops : List SatOp) (w : SatProc), (w.run ops).mgrs.length = w.mgrs.length
  | [], _ => rfl
  | op :: r, w => by rw [run_cons, run_length r, step_length]

end FV.Proc

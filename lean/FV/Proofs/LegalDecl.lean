import FV.Proofs.Legal
import FV.Model.LegalDecl
/-
  Helper lemmas for the second part of the legaliser model (`FV/Model/LegalDecl.lean`): variable declarations,
  step caps, enforce flags, disabled rectangles, and the bookkeeping of `netlist_to_utils`.
-/
namespace FV.Legal
open FV Real
set_option linter.unusedVariables false
set_option linter.unusedSectionVars false
set_option linter.unusedSimpArgs false

@[simp] theorem tenth_eq : (tenth : ℝ) = 1 / 10 := by simp [tenth]
@[simp] theorem fifth_eq : (fifth : ℝ) = 1 / 5 := by simp [fifth, one]
@[simp] theorem threeTenths_eq : (threeTenths : ℝ) = 3 / 10 := by simp [threeTenths]
@[simp] theorem thousand_eq : (thousand : ℝ) = 1000 := by simp [thousand]

/-! ### declarations -/

/-- every declared bound of a rectangle variable contains the value the configuration gives the variable. -/
def DeclsIn (P : Params ℝ) (U : Utils ℝ) (c : Cfg) : Prop :=
  ∀ d ∈ decls P U, ∀ q, d.n = .rect q → d.lb ≤ env c q ∧ env c q ≤ d.ub

/-- the same, read rectangle by rectangle. -/
def BoundsRaw (P : Params ℝ) (mods : List (InModule ℝ)) (c : Cfg) : Prop :=
  ∀ m M, mods[m]? = some M → ∀ i < (split M.rects).c,
    (0 ≤ (c m i).x ∧ (c m i).x ≤ P.dw) ∧ (0 ≤ (c m i).y ∧ (c m i).y ≤ P.dh) ∧
    (1 / 10 ≤ (c m i).w ∧ (c m i).w ≤ P.dw) ∧ (1 / 10 ≤ (c m i).h ∧ (c m i).h ≤ P.dh)

theorem mem_rectDecls (P : Params ℝ) (m i : Nat) (b : Box ℝ) (d : Decl ℝ) :
    d ∈ rectDecls P m i b ↔
      d = ⟨.rect ⟨.x, m, i⟩, b.x, 0, P.dw⟩ ∨ d = ⟨.rect ⟨.y, m, i⟩, b.y, 0, P.dh⟩ ∨
      d = ⟨.rect ⟨.w, m, i⟩, b.w, 1 / 10, P.dw⟩ ∨ d = ⟨.rect ⟨.h, m, i⟩, b.h, 1 / 10, P.dh⟩ := by
  simp [rectDecls]

/-- membership in the declaration list: `time`, or one of the four variables of a rectangle of a module. -/
theorem mem_decls (P : Params ℝ) (mods : List (InModule ℝ)) (U : Utils ℝ)
    (hml : U.ml = mods.map fun M => split M.rects) (d : Decl ℝ) :
    d ∈ decls P U ↔ d = timeDecl one ∨ ∃ m M, mods[m]? = some M ∧
      (d ∈ rectDecls P m 0 (split M.rects).trunk ∨
       ∃ i s q, (i, s, q) ∈ (split M.rects).sided ∧ d ∈ rectDecls P m i q) := by
  unfold decls moduleDecls
  simp only [hml, List.mem_cons, List.mem_flatMap, Prod.exists, mem_idxFrom_map, List.mem_append]
  constructor
  · rintro (h | ⟨m, b, ⟨M, hM, rfl⟩, h⟩)
    · exact Or.inl h
    · exact Or.inr ⟨m, M, hM, h⟩
  · rintro (h | ⟨m, M, hM, h⟩)
    · exact Or.inl h
    · exact Or.inr ⟨m, _, ⟨M, hM, rfl⟩, h⟩

theorem rectDecls_in (P : Params ℝ) (c : Cfg) (m i : Nat) (b : Box ℝ) :
    (∀ d ∈ rectDecls P m i b, ∀ q, d.n = .rect q → d.lb ≤ env c q ∧ env c q ≤ d.ub) ↔
      (0 ≤ (c m i).x ∧ (c m i).x ≤ P.dw) ∧ (0 ≤ (c m i).y ∧ (c m i).y ≤ P.dh) ∧
      (1 / 10 ≤ (c m i).w ∧ (c m i).w ≤ P.dw) ∧ (1 / 10 ≤ (c m i).h ∧ (c m i).h ≤ P.dh) := by
  constructor
  · intro h
    have hx := h ⟨.rect ⟨.x, m, i⟩, b.x, 0, P.dw⟩ (by simp [rectDecls]) _ rfl
    have hy := h ⟨.rect ⟨.y, m, i⟩, b.y, 0, P.dh⟩ (by simp [rectDecls]) _ rfl
    have hw := h ⟨.rect ⟨.w, m, i⟩, b.w, 1 / 10, P.dw⟩ (by simp [rectDecls]) _ rfl
    have hh := h ⟨.rect ⟨.h, m, i⟩, b.h, 1 / 10, P.dh⟩ (by simp [rectDecls]) _ rfl
    exact ⟨hx, hy, hw, hh⟩
  · rintro ⟨hx, hy, hw, hh⟩ d hd q hq
    rw [mem_rectDecls] at hd
    rcases hd with rfl | rfl | rfl | rfl <;> (injection hq with hq; subst hq)
    · exact hx
    · exact hy
    · exact hw
    · exact hh

/-- the declared bounds, rectangle by rectangle. -/
theorem declsIn_iff (P : Params ℝ) (mods : List (InModule ℝ)) (U : Utils ℝ) (c : Cfg)
    (hml : U.ml = mods.map fun M => split M.rects) : DeclsIn P U c ↔ BoundsRaw P mods c := by
  unfold DeclsIn BoundsRaw
  constructor
  · intro h m M hM i hi
    by_cases h0 : i = 0
    · subst h0
      rw [← rectDecls_in P c m 0 (split M.rects).trunk]
      intro d hd
      exact h d ((mem_decls P mods U hml d).mpr (Or.inr ⟨m, M, hM, Or.inl hd⟩))
    · obtain ⟨s, q, hs⟩ := sided_surj (split M.rects) i (by omega) hi
      rw [← rectDecls_in P c m i q]
      intro d hd
      exact h d ((mem_decls P mods U hml d).mpr (Or.inr ⟨m, M, hM, Or.inr ⟨i, s, q, hs, hd⟩⟩))
  · intro h d hd q hq
    rcases (mem_decls P mods U hml d).mp hd with rfl | ⟨m, M, hM, hd | ⟨i, s, b, hs, hd⟩⟩
    · simp [timeDecl] at hq
    · exact (rectDecls_in P c m 0 _).mpr (h m M hM 0 (by unfold ModIn.c; omega)) d hd q hq
    · exact (rectDecls_in P c m i b).mpr (h m M hM i (sided_range _ i s b hs).2.1) d hd q hq

theorem utils_ml (mods : List (InModule ℝ)) (U : Utils ℝ) (hU : netlistToUtils mods = .ok U) :
    U.ml = mods.map fun M => split M.rects := by
  unfold netlistToUtils at hU
  split at hU
  · cases hU
  · injection hU with hU; rw [← hU]

/-- declared bounds give positive sizes. -/
theorem boundsRaw_pos (P : Params ℝ) (mods : List (InModule ℝ)) (c : Cfg) (h : BoundsRaw P mods c) : Pos mods c := by
  intro m M hM i hi
  obtain ⟨_, _, hw, hh⟩ := h m M hM i hi
  exact ⟨by linarith [hw.1], by linarith [hh.1]⟩

/-- what a declaration of a rectangle variable contains: the variable of that rectangle, initialised with the
    rectangle's own coordinate. -/
theorem rectDecls_value (P : Params ℝ) (m i : Nat) (b : Box ℝ) (d : Decl ℝ) (q : Var)
    (hd : d ∈ rectDecls P m i b) (hq : d.n = .rect q) : q.m = m ∧ q.i = i ∧ d.value = coord q.k b := by
  rw [mem_rectDecls] at hd
  rcases hd with rfl | rfl | rfl | rfl <;> (injection hq with hq; subst hq; exact ⟨rfl, rfl, rfl⟩)

/-- a declaration is determined by the kind of its variable. -/
theorem rectDecls_functional (P : Params ℝ) (m i : Nat) (b : Box ℝ) (d₁ d₂ : Decl ℝ)
    (h₁ : d₁ ∈ rectDecls P m i b) (h₂ : d₂ ∈ rectDecls P m i b) (hn : d₁.n = d₂.n) : d₁ = d₂ := by
  rw [mem_rectDecls] at h₁ h₂
  rcases h₁ with rfl | rfl | rfl | rfl <;> rcases h₂ with rfl | rfl | rfl | rfl <;>
    first | rfl | (exfalso; simp at hn)

/-- no variable is declared twice with different content: two declarations with the same name are the same
    declaration (same initial value, same bounds). -/
theorem decls_functional (P : Params ℝ) (mods : List (InModule ℝ)) (U : Utils ℝ)
    (hml : U.ml = mods.map fun M => split M.rects) (d₁ d₂ : Decl ℝ)
    (h₁ : d₁ ∈ decls P U) (h₂ : d₂ ∈ decls P U) (hn : d₁.n = d₂.n) : d₁ = d₂ := by
  -- locate a rect declaration: module, rectangle index and the box it was created from
  have loc : ∀ d ∈ decls P U, d = timeDecl one ∨ ∃ m M i b, mods[m]? = some M ∧ d ∈ rectDecls P m i b ∧
      ((i = 0 ∧ b = (split M.rects).trunk) ∨ (1 ≤ i ∧ (split M.rects).branches[i - 1]? = some b)) := by
    intro d hd
    rcases (mem_decls P mods U hml d).mp hd with rfl | ⟨m, M, hM, hd | ⟨i, s, b, hs, hd⟩⟩
    · exact Or.inl rfl
    · exact Or.inr ⟨m, M, 0, _, hM, hd, Or.inl ⟨rfl, rfl⟩⟩
    · have := sided_range _ i s b hs
      exact Or.inr ⟨m, M, i, b, hM, hd, Or.inr ⟨this.1, this.2.2⟩⟩
  rcases loc d₁ h₁ with rfl | ⟨m₁, M₁, i₁, b₁, hM₁, hd₁, hb₁⟩ <;>
    rcases loc d₂ h₂ with rfl | ⟨m₂, M₂, i₂, b₂, hM₂, hd₂, hb₂⟩
  · rfl
  · exfalso
    rw [mem_rectDecls] at hd₂
    rcases hd₂ with rfl | rfl | rfl | rfl <;> simp [timeDecl] at hn
  · exfalso
    rw [mem_rectDecls] at hd₁
    rcases hd₁ with rfl | rfl | rfl | rfl <;> simp [timeDecl] at hn
  · -- same name: same module, same rectangle
    have key : m₁ = m₂ ∧ i₁ = i₂ := by
      rw [mem_rectDecls] at hd₁ hd₂
      rcases hd₁ with rfl | rfl | rfl | rfl <;> rcases hd₂ with rfl | rfl | rfl | rfl <;>
        simp at hn <;> exact hn
    obtain ⟨rfl, rfl⟩ := key
    have hMM : M₁ = M₂ := by rw [hM₁] at hM₂; exact Option.some.inj hM₂
    subst hMM
    have hbb : b₁ = b₂ := by
      rcases hb₁ with ⟨h0, rfl⟩ | ⟨h1, hq₁⟩ <;> rcases hb₂ with ⟨h0', rfl⟩ | ⟨h1', hq₂⟩
      · rfl
      · omega
      · omega
      · rw [hq₁] at hq₂; exact Option.some.inj hq₂
    subst hbb
    exact rectDecls_functional P m₁ i₁ b₁ d₁ d₂ hd₁ hd₂ hn

/-- the declared rectangle variables are exactly the variables of the rectangles of the modules. -/
theorem decls_cover (P : Params ℝ) (mods : List (InModule ℝ)) (U : Utils ℝ)
    (hml : U.ml = mods.map fun M => split M.rects) (q : Var) :
    (∃ d ∈ decls P U, d.n = .rect q) ↔ ∃ M, mods[q.m]? = some M ∧ q.i < (split M.rects).c := by
  constructor
  · rintro ⟨d, hd, hq⟩
    rcases (mem_decls P mods U hml d).mp hd with rfl | ⟨m, M, hM, hd | ⟨i, s, b, hs, hd⟩⟩
    · simp [timeDecl] at hq
    · obtain ⟨rfl, hi, _⟩ := rectDecls_value P m 0 _ d q hd hq
      exact ⟨M, hM, by rw [hi]; unfold ModIn.c; omega⟩
    · obtain ⟨rfl, hi, _⟩ := rectDecls_value P m i b d q hd hq
      exact ⟨M, hM, by rw [hi]; exact (sided_range _ i s b hs).2.1⟩
  · rintro ⟨M, hM, hi⟩
    obtain ⟨k, m, i⟩ := q
    simp only at hM hi
    have pick : ∀ b : Box ℝ, ∃ d ∈ rectDecls P m i b, d.n = .rect ⟨k, m, i⟩ := by
      intro b
      cases k
      · exact ⟨_, (mem_rectDecls P m i b _).mpr (Or.inl rfl), rfl⟩
      · exact ⟨_, (mem_rectDecls P m i b _).mpr (Or.inr (Or.inl rfl)), rfl⟩
      · exact ⟨_, (mem_rectDecls P m i b _).mpr (Or.inr (Or.inr (Or.inl rfl))), rfl⟩
      · exact ⟨_, (mem_rectDecls P m i b _).mpr (Or.inr (Or.inr (Or.inr rfl))), rfl⟩
    by_cases h0 : i = 0
    · subst h0
      obtain ⟨d, hd, hn⟩ := pick (split M.rects).trunk
      exact ⟨d, (mem_decls P mods U hml d).mpr (Or.inr ⟨m, M, hM, Or.inl hd⟩), hn⟩
    · obtain ⟨s, b, hs⟩ := sided_surj (split M.rects) i (by omega) hi
      obtain ⟨d, hd, hn⟩ := pick b
      exact ⟨d, (mem_decls P mods U hml d).mpr (Or.inr ⟨m, M, hM, Or.inr ⟨i, s, b, hs, hd⟩⟩), hn⟩

/-! ### `netlist_to_utils`: a faithful re-encoding -/

/-- the rectangles with their roles, as pairs. -/
def roleBox (r : InRect ℝ) : Loc × Box ℝ := (r.loc, r.box)

theorem pm {β : Type} (a : β) (l₁ l₂ : List β) : (a :: (l₁ ++ l₂)).Perm (l₁ ++ a :: l₂) := List.perm_middle.symm

/-- a role-labelled list is a permutation of its five role classes (when no rectangle is unlabelled). -/
theorem roles_partition (rs : List (InRect ℝ)) (h : ∀ r ∈ rs, r.loc ≠ .nopoly) :
    (rs.map roleBox).Perm
      ((rs.filter (fun r => r.loc == .trunk)).map roleBox ++ ((rs.filter (fun r => r.loc == .north)).map roleBox ++
        ((rs.filter (fun r => r.loc == .south)).map roleBox ++ ((rs.filter (fun r => r.loc == .east)).map roleBox ++
          (rs.filter (fun r => r.loc == .west)).map roleBox)))) := by
  induction rs with
  | nil => simp
  | cons r rs ih =>
    have ih' := ih (fun x hx => h x (List.mem_cons_of_mem _ hx))
    have hr := h r (by simp)
    cases hl : r.loc
    · simp only [List.map_cons, List.filter_cons, hl, beq_self_eq_true, if_true, List.cons_append]
      simp only [show (Loc.trunk == Loc.north) = false from rfl, show (Loc.trunk == Loc.south) = false from rfl,
        show (Loc.trunk == Loc.east) = false from rfl, show (Loc.trunk == Loc.west) = false from rfl, Bool.false_eq_true, if_false]
      exact List.Perm.cons _ ih'
    · simp only [List.map_cons, List.filter_cons, hl, beq_self_eq_true, if_true]
      simp only [show (Loc.north == Loc.trunk) = false from rfl, show (Loc.north == Loc.south) = false from rfl,
        show (Loc.north == Loc.east) = false from rfl, show (Loc.north == Loc.west) = false from rfl, Bool.false_eq_true, if_false,
        List.cons_append]
      exact (List.Perm.cons _ ih').trans (pm _ _ _)
    · simp only [List.map_cons, List.filter_cons, hl, beq_self_eq_true, if_true]
      simp only [show (Loc.south == Loc.trunk) = false from rfl, show (Loc.south == Loc.north) = false from rfl,
        show (Loc.south == Loc.east) = false from rfl, show (Loc.south == Loc.west) = false from rfl, Bool.false_eq_true, if_false,
        List.cons_append]
      exact ((List.Perm.cons _ ih').trans (pm _ _ _)).trans (List.Perm.append_left _ (pm _ _ _))
    · simp only [List.map_cons, List.filter_cons, hl, beq_self_eq_true, if_true]
      simp only [show (Loc.east == Loc.trunk) = false from rfl, show (Loc.east == Loc.north) = false from rfl,
        show (Loc.east == Loc.south) = false from rfl, show (Loc.east == Loc.west) = false from rfl, Bool.false_eq_true, if_false,
        List.cons_append]
      exact (((List.Perm.cons _ ih').trans (pm _ _ _)).trans (List.Perm.append_left _ (pm _ _ _))).trans
        (List.Perm.append_left _ (List.Perm.append_left _ (pm _ _ _)))
    · simp only [List.map_cons, List.filter_cons, hl, beq_self_eq_true, if_true]
      simp only [show (Loc.west == Loc.trunk) = false from rfl, show (Loc.west == Loc.north) = false from rfl,
        show (Loc.west == Loc.south) = false from rfl, show (Loc.west == Loc.east) = false from rfl, Bool.false_eq_true, if_false,
        List.cons_append]
      exact ((((List.Perm.cons _ ih').trans (pm _ _ _)).trans (List.Perm.append_left _ (pm _ _ _))).trans
        (List.Perm.append_left _ (List.Perm.append_left _ (pm _ _ _)))).trans
        (List.Perm.append_left _ (List.Perm.append_left _ (List.Perm.append_left _ (pm _ _ _))))
    · exact absurd hl hr

/-- the trunk `netlist_to_utils` keeps is the LAST rectangle labelled trunk (the start value if there is none). -/
theorem foldl_placeRect_trunk (rs : List (InRect ℝ)) (st : ModIn ℝ × Bool) (h : ∀ r ∈ rs, r.loc ≠ .nopoly) :
    (rs.foldl placeRect st).1.trunk =
      (((rs.filter (fun r => r.loc == .trunk)).getLast?).map (·.box)).getD st.1.trunk := by
  induction rs generalizing st with
  | nil => simp
  | cons r rs ih =>
    have hr := h r (by simp)
    have ih' := ih (placeRect st r) (fun x hx => h x (List.mem_cons_of_mem _ hx))
    simp only [List.foldl_cons]
    rw [ih']
    cases hl : r.loc
    · simp only [List.filter_cons, hl, beq_self_eq_true, if_true, List.getLast?_cons]
      cases (rs.filter (fun r => r.loc == .trunk)).getLast? <;> simp [placeRect, hl]
    · simp [List.filter_cons, hl, placeRect]
    · simp [List.filter_cons, hl, placeRect]
    · simp [List.filter_cons, hl, placeRect]
    · simp [List.filter_cons, hl, placeRect]
    · exact absurd hl hr

theorem filter_map_role (rs : List (InRect ℝ)) (l : Loc) :
    ((rs.filter (fun r => r.loc == l)).map (·.box)).map (fun q => (l, q)) = (rs.filter (fun r => r.loc == l)).map roleBox := by
  rw [List.map_map]
  apply List.map_congr_left
  intro r hr
  have := (List.mem_filter.mp hr).2
  simp only [beq_iff_eq] at this
  simp [roleBox, this]

/-- trunk slot + tagged branch lists = the module's (role, box) pairs, up to order. -/
theorem split_perm (rs : List (InRect ℝ)) (h : ∀ r ∈ rs, r.loc ≠ .nopoly)
    (h1 : (rs.filter (fun r => r.loc == .trunk)).length = 1) :
    ((Loc.trunk, (split rs).trunk) :: (split rs).tagged).Perm (rs.map roleBox) := by
  obtain ⟨r0, hr0⟩ := List.length_eq_one_iff.mp h1
  have hloc : r0.loc = .trunk := by
    have : r0 ∈ rs.filter (fun r => r.loc == .trunk) := by rw [hr0]; simp
    simpa using (List.mem_filter.mp this).2
  have htr : (split rs).trunk = r0.box := by
    unfold split
    rw [foldl_placeRect_trunk rs _ h, hr0]; simp
  have hl := foldl_placeRect_lists rs ({ trunk := ⟨zero, zero, zero, zero⟩ }, false) h
  have hN : (split rs).N = (rs.filter (fun r => r.loc == .north)).map (·.box) := by simpa [split] using hl.1
  have hS : (split rs).S = (rs.filter (fun r => r.loc == .south)).map (·.box) := by simpa [split] using hl.2.1
  have hE : (split rs).E = (rs.filter (fun r => r.loc == .east)).map (·.box) := by simpa [split] using hl.2.2.1
  have hW : (split rs).W = (rs.filter (fun r => r.loc == .west)).map (·.box) := by simpa [split] using hl.2.2.2
  have hp := roles_partition rs h
  rw [hr0] at hp
  unfold ModIn.tagged
  rw [htr, hN, hS, hE, hW, filter_map_role, filter_map_role, filter_map_role, filter_map_role,
    List.append_assoc, List.append_assoc]
  refine List.Perm.symm (hp.trans ?_)
  simp [roleBox, hloc]

/-! ### hard equations, step caps -/

theorem met_hard_le (c : Cfg) (e t : ℝ) (g n : String) (l r : Expr ℝ) (x y : ℝ) (hl : l.eval realFns (env c) = some x)
    (hr : r.eval realFns (env c) = some y) : Met c e t ⟨g, n, l, .le, r, true⟩ ↔ x ≤ y + t := by
  simp [Met, Eqn.met, hl, hr]
theorem met_hard_ge (c : Cfg) (e t : ℝ) (g n : String) (l r : Expr ℝ) (x y : ℝ) (hl : l.eval realFns (env c) = some x)
    (hr : r.eval realFns (env c) = some y) : Met c e t ⟨g, n, l, .ge, r, true⟩ ↔ y - t ≤ x := by
  simp [Met, Eqn.met, hl, hr]

/-- the six caps of one rectangle: a box around the value `b0` it had when the caps were made (no lower cap on
    the sizes); the slack `e` plays no role (hard equations). -/
def CapRaw (rad t : ℝ) (b0 b : Box ℝ) : Prop :=
  b.x ≤ b0.x + rad + t ∧ b0.x - rad - t ≤ b.x ∧ b.y ≤ b0.y + rad + t ∧ b0.y - rad - t ≤ b.y ∧
  b.w ≤ b0.w + rad + t ∧ b.h ≤ b0.h + rad + t

theorem capEqs_met_iff (c : Cfg) (e t rad : ℝ) (k m i : Nat) (b0 : Box ℝ) :
    (∀ q ∈ capEqs rad k m i b0, Met c e t q) ↔ CapRaw rad t b0 (c m i) := by
  unfold capEqs CapRaw
  simp only [List.mem_cons, List.not_mem_nil, or_false, forall_eq_or_imp, forall_eq, v]
  rw [met_hard_le c e t _ _ _ _ _ _ (eval_var c _) (eval_cst c _), met_hard_ge c e t _ _ _ _ _ _ (eval_var c _) (eval_cst c _),
    met_hard_le c e t _ _ _ _ _ _ (eval_var c _) (eval_cst c _), met_hard_ge c e t _ _ _ _ _ _ (eval_var c _) (eval_cst c _),
    met_hard_le c e t _ _ _ _ _ _ (eval_var c _) (eval_cst c _), met_hard_le c e t _ _ _ _ _ _ (eval_var c _) (eval_cst c _)]
  simp only [env]

theorem mem_flatBoxes (cfg : List (List (Box ℝ))) (m i : Nat) (b : Box ℝ) :
    (m, i, b) ∈ flatBoxes cfg ↔ ∃ bs, cfg[m]? = some bs ∧ bs[i]? = some b := by
  unfold flatBoxes
  simp only [List.mem_flatMap, List.mem_map, Prod.exists, Prod.mk.injEq, mem_idxFrom, Nat.zero_le, true_and, Nat.sub_zero]
  constructor
  · rintro ⟨m', bs, hbs, i', b', hb, rfl, rfl, rfl⟩; exact ⟨bs, hbs, hb⟩
  · rintro ⟨bs, hbs, hb⟩; exact ⟨m, bs, hbs, i, b, hb, rfl, rfl, rfl⟩

/-- `force_step`: every rectangle stays in the box around its value at cap time. -/
theorem stepEqs_met_iff (c : Cfg) (e t rad : ℝ) (cfg : List (List (Box ℝ))) :
    (∀ q ∈ stepEqs rad cfg, Met c e t q) ↔
      ∀ m bs i b0, cfg[m]? = some bs → bs[i]? = some b0 → CapRaw rad t b0 (c m i) := by
  unfold stepEqs
  simp only [List.mem_flatMap, Prod.exists, forall_exists_index, and_imp]
  constructor
  · intro h m bs i b0 hbs hb0
    obtain ⟨k, hk⟩ := exists_idx_of_mem _ 0 _ ((mem_flatBoxes cfg m i b0).mpr ⟨bs, hbs, hb0⟩)
    rw [← capEqs_met_iff c e t rad k m i b0]
    intro q hq
    exact h q k m i b0 hk hq
  · intro h q k m i b0 hk hq
    obtain ⟨bs, hbs, hb0⟩ := (mem_flatBoxes cfg m i b0).mp (mem_of_mem_idxFrom _ _ _ _ hk)
    exact (capEqs_met_iff c e t rad k m i b0).mpr (h m bs i b0 hbs hb0) q hq

theorem stepRadius_eq (P : Params ℝ) : stepRadius P = 1 / 5 * max P.dw P.dh * (3 / 10) := by
  unfold stepRadius distThreshold pyMax
  simp only [fifth_eq, threeTenths_eq]
  split
  · rw [max_eq_right (le_of_lt ‹_›)]
  · rw [max_eq_left (not_lt.mp ‹_›)]

/-! ### pairs that are not enforced -/

theorem distL1_eq (p q : Box ℝ) :
    distL1 p q = max 0 (|p.x - q.x| - 1 / 2 * (p.w + q.w)) + max 0 (|p.y - q.y| - 1 / 2 * (p.h + q.h)) := by
  have hm : ∀ a : ℝ, pyMax (zero : ℝ) a = max 0 a := by
    intro a; unfold pyMax; simp only [zero_eq]
    split
    · rw [max_eq_right (le_of_lt ‹_›)]
    · rw [max_eq_left (not_lt.mp ‹_›)]
  unfold distL1
  simp only [hm, pyAbs_eq, half_eq]

/-- a pair of boxes of positive size whose L1 gap exceeds a non-negative threshold satisfies the no-overlap
    condition of the equations, whatever the smoothing constant. -/
theorem far_pair_interRaw (p q : Box ℝ) (thr tau : ℝ) (hthr : 0 ≤ thr)
    (hpw : 0 < p.w) (hph : 0 < p.h) (hqw : 0 < q.w) (hqh : 0 < q.h) (h : ¬ distL1 p q ≤ thr) : InterRaw tau p q := by
  rw [distL1_eq] at h
  push Not at h
  have key : 0 < |p.x - q.x| - 1 / 2 * (p.w + q.w) ∨ 0 < |p.y - q.y| - 1 / 2 * (p.h + q.h) := by
    by_contra hc
    push Not at hc
    rw [max_eq_left hc.1, max_eq_left hc.2] at h
    linarith
  unfold InterRaw
  rcases key with hx | hy
  · have hX : 0 < tX p q := by
      unfold tX
      have h1 := abs_mul_abs_self (p.x - q.x)
      have h2 := abs_nonneg (p.x - q.x)
      nlinarith
    by_cases hY : 0 ≤ tY p q
    · left; linarith
    · right; push Not at hY
      nlinarith [mul_pos hX (neg_pos.mpr hY), sq_nonneg tau]
  · have hY : 0 < tY p q := by
      unfold tY
      have h1 := abs_mul_abs_self (p.y - q.y)
      have h2 := abs_nonneg (p.y - q.y)
      nlinarith
    by_cases hX : 0 ≤ tX p q
    · left; linarith
    · right; push Not at hX
      nlinarith [mul_pos hY (neg_pos.mpr hX), sq_nonneg tau]

/-! ### disabled rectangles -/

theorem ridEqs_met_iff (c : Cfg) (e t : ℝ) (m i : Nat) :
    (∀ q ∈ ridEqs m i, Met c e t q) ↔
      Near e t (c m i).x (c m 0).x ∧ Near e t (c m i).y (c m 0).y ∧ Near e t (c m i).w 0 ∧ Near e t (c m i).h 0 := by
  unfold ridEqs Near
  simp only [List.mem_cons, List.not_mem_nil, or_false, forall_eq_or_imp, forall_eq]
  rw [metP_eq c e t _ _ _ _ rfl rfl, metP_eq c e t _ _ _ _ rfl rfl, metP_eq c e t _ _ _ _ rfl rfl,
    metP_eq c e t _ _ _ _ rfl rfl]
  simp only [evalP, v, env, zero_eq]

theorem getElem?_idxFrom_map {β γ : Type} (k : Nat) (l : List β) (f : Nat × β → γ) (i : Nat) :
    ((idxFrom k l).map f)[i]? = (l[i]?).map (fun x => f (k + i, x)) := by
  induction l generalizing k i with
  | nil => simp [idxFrom]
  | cons a as ih =>
    cases i with
    | zero => simp [idxFrom]
    | succ j =>
      simp only [idxFrom, List.map_cons, List.getElem?_cons_succ, ih]
      congr 1; funext x; congr 2; omega

end FV.Legal

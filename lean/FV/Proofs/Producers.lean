import FV.Model.Producers
import Mathlib.Algebra.Order.Field.Basic
import Mathlib.Tactic.Linarith
import Mathlib.Tactic.Ring
import Mathlib.Data.List.Nodup
import Mathlib.Data.List.Range
import Mathlib.Data.List.ProdSigma
/-
  Helper lemmas for property C19 (producers): Python-dict lemmas, module names, the netlist reader of C04/C05
  (`FV.NL.parseNetlist`) on the trees the producers emit.
-/
namespace FV.Prod
open FV FV.NL
set_option linter.unusedSectionVars false
set_option linter.unusedSimpArgs false
set_option linter.unusedVariables false

/-! ### Python `dict` -/

section dict
variable {α : Type}

theorem dictInsert_of_not_mem (k : String) (v : YVal α) (d : Dict α) (h : k ∉ d.map (·.1)) :
    dictInsert k v d = d ++ [(k, v)] := by
  induction d with
  | nil => rfl
  | cons x r ih =>
    obtain ⟨k', v'⟩ := x
    simp only [List.map_cons, List.mem_cons, not_or] at h
    have hne : ¬ k' = k := fun e => h.1 e.symm
    simp [dictInsert, hne, ih h.2]

theorem dictUpdate_of_nodup (d : Dict α) (m : List (String × YVal α))
    (h : (d.map (·.1) ++ m.map (·.1)).Nodup) : dictUpdate d m = d ++ m := by
  induction m generalizing d with
  | nil => simp [dictUpdate]
  | cons x r ih =>
    obtain ⟨k, v⟩ := x
    have hk : k ∉ d.map (·.1) := by
      intro hm
      have := List.nodup_append.mp h
      exact this.2.2 k hm k (by simp) rfl
    have h' : ((d ++ [(k, v)]).map (·.1) ++ r.map (·.1)).Nodup := by
      simpa [List.append_assoc] using h
    have := ih (d ++ [(k, v)]) h'
    simp only [dictUpdate, List.foldl_cons] at this ⊢
    rw [dictInsert_of_not_mem k v d hk, this]
    simp

theorem dictOfList_of_nodup (m : List (String × YVal α)) (h : (m.map (·.1)).Nodup) : dictOfList m = m := by
  simpa [dictOfList] using dictUpdate_of_nodup [] m (by simpa using h)

end dict

/-! ### the die writer as a program on a store of list objects -/

section store
variable {α : Type}

theorem Store.get_alloc_old {β : Type} (s : Store β) (l : List β) (a : Nat) (ha : a < s.cells.length) :
    (s.alloc l).1.get a = s.get a := by
  simp [Store.get, Store.alloc, List.getD_eq_getElem?_getD, List.getElem?_append_left ha]

theorem Store.get_alloc_new {β : Type} (s : Store β) (l : List β) : (s.alloc l).1.get (s.alloc l).2 = l := by
  simp [Store.get, Store.alloc, List.getD_eq_getElem?_getD]

/-- the store program writes the same tree as the functional writer on the dereferenced die. -/
theorem writeDieS_tree (s : Store (VRect α)) (d : DieRef α) : (writeDieS s d).1 = (writeDie (d.deref s)).1 := by
  simp only [writeDieS, pyListAdd, Store.get_alloc_new, writeDie, dieTree, DieRef.deref]
  rfl

/-- frame condition, proved about the program: every list object that existed before the call is unchanged. -/
theorem writeDieS_frame (s : Store (VRect α)) (d : DieRef α) (a : Nat) (ha : a < s.cells.length) :
    (writeDieS s d).2.get a = s.get a := by
  simp only [writeDieS, pyListAdd]
  exact Store.get_alloc_old s _ a ha

theorem writeDieS_pure (s : Store (VRect α)) (d : DieRef α) (hb : d.blockages < s.cells.length)
    (hs : d.specialised < s.cells.length) : d.deref (writeDieS s d).2 = d.deref s := by
  simp only [DieRef.deref, writeDieS_frame s d _ hb, writeDieS_frame s d _ hs]

/-- the in-place variant alters the die: afterwards its blockage list also holds the specialised regions. -/
theorem writeDieAliasedS_alters (s : Store (VRect α)) (d : DieRef α) (hb : d.blockages < s.cells.length) :
    (d.deref (writeDieAliasedS s d).2).blockages = s.get d.blockages ++ s.get d.specialised := by
  simp [DieRef.deref, writeDieAliasedS, pyListIAdd, Store.get, List.getD_eq_getElem?_getD, hb]

end store

/-! ### module names -/

theorem modName_toList (i : Nat) : (modName i).toList = 'M' :: Nat.toDigits 10 i := by
  simp [modName, String.toList_append, Nat.toString_eq_repr, Nat.toList_repr]

theorem termName_toList (i : Nat) : (termName i).toList = 'T' :: Nat.toDigits 10 i := by
  simp [termName, String.toList_append, Nat.toString_eq_repr, Nat.toList_repr]

theorem modName2_toList (i j : Nat) :
    (modName2 i j).toList = 'M' :: (Nat.toDigits 10 i ++ '_' :: Nat.toDigits 10 j) := by
  simp [modName2, String.toList_append, Nat.toString_eq_repr, Nat.toList_repr]

theorem digit_identRest (c : Char) (h : c.isDigit = true) : identRest c = true := by
  simp [Char.isDigit] at h
  simp [identRest, identStart]
  right
  exact ⟨h.1, h.2⟩

theorem digits_identRest (i : Nat) : ∀ c ∈ Nat.toDigits 10 i, identRest c = true :=
  fun c hc => digit_identRest c (Nat.isDigit_of_mem_toDigits (by decide) (by decide) hc)

theorem validIdent_modName (i : Nat) : validIdent (modName i) = true := by
  simp only [validIdent, modName_toList, validIdentChars, Bool.and_eq_true, List.all_eq_true]
  exact ⟨by decide, digits_identRest i⟩

theorem validIdent_termName (i : Nat) : validIdent (termName i) = true := by
  simp only [validIdent, termName_toList, validIdentChars, Bool.and_eq_true, List.all_eq_true]
  exact ⟨by decide, digits_identRest i⟩

theorem validIdent_modName2 (i j : Nat) : validIdent (modName2 i j) = true := by
  simp only [validIdent, modName2_toList, validIdentChars, Bool.and_eq_true, List.all_eq_true]
  refine ⟨by decide, fun c hc => ?_⟩
  rcases List.mem_append.mp hc with h | h
  · exact digits_identRest i c h
  · rcases List.mem_cons.mp h with h | h
    · subst h; decide
    · exact digits_identRest j c h

theorem toDigits_inj {i j : Nat} (h : Nat.toDigits 10 i = Nat.toDigits 10 j) : i = j := by
  have := congrArg (fun l => Nat.ofDigitChars 10 l 0) h
  simpa [Nat.ofDigitChars_ten_toDigits] using this

theorem modName_inj {i j : Nat} (h : modName i = modName j) : i = j := by
  have := congrArg String.toList h
  simp only [modName_toList, List.cons.injEq, true_and] at this
  exact toDigits_inj this

theorem termName_inj {i j : Nat} (h : termName i = termName j) : i = j := by
  have := congrArg String.toList h
  simp only [termName_toList, List.cons.injEq, true_and] at this
  exact toDigits_inj this

theorem modName_ne_termName (i j : Nat) : modName i ≠ termName j := by
  intro h
  have := congrArg String.toList h
  simp [modName_toList, termName_toList] at this

/-- splitting at the first separator that occurs in neither prefix. -/
theorem append_sep_inj {β : Type} (s : β) : ∀ (a a' b b' : List β), s ∉ a → s ∉ a' →
    a ++ s :: b = a' ++ s :: b' → a = a' ∧ b = b'
  | [], [], b, b', _, _, h => by simpa using h
  | [], y :: a', b, b', _, h2, h => by
      simp only [List.nil_append, List.cons_append, List.cons.injEq] at h
      exact absurd (by simp [h.1]) h2
  | x :: a, [], b, b', h1, _, h => by
      simp only [List.nil_append, List.cons_append, List.cons.injEq] at h
      exact absurd (by simp [h.1]) h1
  | x :: a, y :: a', b, b', h1, h2, h => by
      simp only [List.cons_append, List.cons.injEq] at h
      have := append_sep_inj s a a' b b' (fun m => h1 (List.mem_cons_of_mem _ m))
        (fun m => h2 (List.mem_cons_of_mem _ m)) h.2
      exact ⟨by rw [h.1, this.1], this.2⟩

theorem modName2_inj {i j i' j' : Nat} (h : modName2 i j = modName2 i' j') : i = i' ∧ j = j' := by
  have := congrArg String.toList h
  simp only [modName2_toList, List.cons.injEq, true_and] at this
  have := append_sep_inj '_' _ _ _ _ Nat.underscore_not_in_toDigits Nat.underscore_not_in_toDigits this
  exact ⟨toDigits_inj this.1, toDigits_inj this.2⟩

theorem modName_nodup (l : List Nat) (h : l.Nodup) : (l.map modName).Nodup :=
  List.Nodup.map (fun _ _ e => modName_inj e) h


/-! ### grid names -/

theorem gridNames_eq (rows columns : Nat) :
    gridNames rows columns = (gridIdx rows columns).map fun p => modName2 p.1 p.2 := by
  simp [gridNames, gridIdx, List.map_flatMap, Function.comp_def]

theorem mem_gridIdx {rows columns r c : Nat} : (r, c) ∈ gridIdx rows columns ↔ r < rows ∧ c < columns := by
  simp [gridIdx]

theorem gridIdx_nodup (rows columns : Nat) : (gridIdx rows columns).Nodup := by
  have : gridIdx rows columns = List.product (List.range rows) (List.range columns) := rfl
  rw [this]
  exact List.Nodup.product List.nodup_range List.nodup_range

theorem gridNames_nodup (rows columns : Nat) : (gridNames rows columns).Nodup := by
  rw [gridNames_eq]
  exact List.Nodup.map (fun p q e => by
    have := modName2_inj e
    exact Prod.ext this.1 this.2) (gridIdx_nodup rows columns)

theorem mem_gridNames {rows columns r c : Nat} (hr : r < rows) (hc : c < columns) :
    modName2 r c ∈ gridNames rows columns := by
  rw [gridNames_eq]
  exact List.mem_map.mpr ⟨(r, c), mem_gridIdx.mpr ⟨hr, hc⟩, rfl⟩

theorem gridNames_valid (rows columns : Nat) : ∀ s ∈ gridNames rows columns, validIdent s = true := by
  intro s hs
  rw [gridNames_eq] at hs
  obtain ⟨p, _, rfl⟩ := List.mem_map.mp hs
  exact validIdent_modName2 _ _

/-! ### H-tree: index bookkeeping -/

/-- number of modules of an H-tree with `k + 1` levels. -/
def htreeSize : Nat → Nat
  | 0 => 1
  | k + 1 => 3 + 4 * htreeSize k

section htree
variable {α : Type}

/-- the modules `M_i` for `i` in a list of indices. -/
def mods (area : Num α) (l : List Nat) : Dict α := l.map fun i => (modName i, modInfo area)

theorem mods_keys (area : Num α) (l : List Nat) : (mods area l).map (·.1) = l.map modName := by
  simp [mods, Function.comp_def]

theorem dictUpdate_mods (area : Num α) (l1 l2 : List Nat) (h : (l1 ++ l2).Nodup) :
    dictUpdate (mods area l1) (mods area l2) = mods area (l1 ++ l2) := by
  rw [dictUpdate_of_nodup]
  · simp [mods]
  · rw [mods_keys, mods_keys, ← List.map_append]
    exact modName_nodup _ h

theorem dictUpdate_mods_range (area : Num α) (f a b g : Nat) (hg : g = f + a) :
    dictUpdate (mods area (List.range' f a)) (mods area (List.range' g b)) = mods area (List.range' f (a + b)) := by
  subst hg
  have h : List.range' f a ++ List.range' (f + a) b = List.range' f (a + b) := by
    have := List.range'_append (s := f) (m := a) (n := b) (step := 1)
    simpa using this
  rw [dictUpdate_mods, h]
  rw [h]
  exact List.nodup_range' 1

variable [Mul α] [NatCast α]

/-- the edges of an H-tree with `k + 1` levels rooted at index `f`, written with the closed-form sub-tree roots
    `f + 3 + j · size(k)` (no threaded counter). -/
def htreeEdges : Nat → α → Nat → List (Nat × Nat × α)
  | 0, _, _ => []
  | k + 1, w, f =>
    let s := htreeSize k
    let w2 : α := ((2 : Nat) : α) * w
    let c0 := f + 3
    let c1 := f + 3 + s
    let c2 := f + 3 + 2 * s
    let c3 := f + 3 + 3 * s
    [(f + 1, f, w), (f + 2, f, w)]
      ++ [(f, c0, w)] ++ htreeEdges k w2 c0
      ++ [(f, c1, w)] ++ htreeEdges k w2 c1
      ++ [(f, c2, w)] ++ htreeEdges k w2 c2
      ++ [(f, c3, w)] ++ htreeEdges k w2 c3
      ++ [(f + 1, c0, w), (f + 1, c1, w), (f + 2, c2, w), (f + 2, c3, w)]

def hEdge (e : Nat × Nat × α) : GEdge α := wEdge (modName e.1) (modName e.2.1) e.2.2

/-- the threaded generator equals the closed form: modules `M_f … M_{f+size-1}` in increasing order, the edges of
    `htreeEdges`, next free index `f + size`. -/
theorem htreeRec_spec (area : Num α) : ∀ (k : Nat) (w : α) (f : Nat),
    htreeRec area k w f
      = (mods area (List.range' f (htreeSize k)), (htreeEdges k w f).map hEdge, f + htreeSize k)
  | 0, w, f => by simp [htreeRec, htreeSize, mods, htreeEdges]
  | k + 1, w, f => by
    have ih := htreeRec_spec area k
    have h0 : dictInsert (modName (f + 2)) (modInfo area)
        (dictInsert (modName (f + 1)) (modInfo area) [(modName f, modInfo area)]) = mods area (List.range' f 3) := by
      rw [dictInsert_of_not_mem, dictInsert_of_not_mem]
      · simp [mods, List.range']
      · simp only [List.map_cons, List.map_nil, List.mem_cons, List.mem_nil_iff, or_false]
        exact fun e => by have := modName_inj e; omega
      · rw [dictInsert_of_not_mem]
        · simp only [List.map_cons, List.map_nil, List.cons_append, List.nil_append, List.mem_cons,
            List.mem_nil_iff, or_false, not_or]
          exact ⟨fun e => by have := modName_inj e; omega, fun e => by have := modName_inj e; omega⟩
        · simp only [List.map_cons, List.map_nil, List.mem_cons, List.mem_nil_iff, or_false]
          exact fun e => by have := modName_inj e; omega
    simp only [htreeRec, ih, h0]
    generalize hS : htreeSize k = S
    rw [dictUpdate_mods_range area f 3 S (f + 3) rfl,
      dictUpdate_mods_range area f (3 + S) S (f + 3 + S) (by omega),
      dictUpdate_mods_range area f (3 + S + S) S (f + 3 + S + S) (by omega),
      dictUpdate_mods_range area f (3 + S + S + S) S (f + 3 + S + S + S) (by omega)]
    have s4 : htreeSize (k + 1) = 3 + S + S + S + S := by simp only [htreeSize, hS]; omega
    have c2 : f + 3 + 2 * S = f + 3 + S + S := by omega
    have c3 : f + 3 + 3 * S = f + 3 + S + S + S := by omega
    refine Prod.ext (by rw [s4]) (Prod.ext ?_ (by simp only [s4]; omega))
    simp only [htreeEdges, hS, c2, c3]
    simp [hEdge, List.map_append]

end htree

section htreeOrd
variable {α : Type} [Field α] [LinearOrder α] [IsStrictOrderedRing α]

/-- an edge of the H-tree rooted at `f`: both endpoints lie between the first index and the next free index, they
    differ, and the weight is positive. -/
def HGood (k f : Nat) (e : Nat × Nat × α) : Prop :=
  f ≤ e.1 ∧ e.1 < f + htreeSize k ∧ f ≤ e.2.1 ∧ e.2.1 < f + htreeSize k ∧ e.1 ≠ e.2.1 ∧ 0 < e.2.2

theorem hgood_mk (k f a b : Nat) (w : α) (h1 : f ≤ a) (h2 : a < f + htreeSize k) (h3 : f ≤ b)
    (h4 : b < f + htreeSize k) (h5 : a ≠ b) (hw : 0 < w) : HGood k f (a, b, w) := ⟨h1, h2, h3, h4, h5, hw⟩

theorem htreeSize_pos (k : Nat) : 1 ≤ htreeSize k := by cases k <;> simp [htreeSize] <;> omega

theorem htreeEdges_bound : ∀ (k : Nat) (w : α) (f : Nat), 0 < w → ∀ e ∈ htreeEdges k w f, HGood k f e
  | 0, _, _, _ => by simp [htreeEdges]
  | k + 1, w, f, hw => by
    have hw2 : (0 : α) < ((2 : Nat) : α) * w := by
      have : ((2 : Nat) : α) = 2 := by norm_num
      rw [this]; linarith
    have hs := htreeSize_pos k
    have lift : ∀ c, f + 3 ≤ c → c + htreeSize k ≤ f + htreeSize (k + 1) →
        ∀ e ∈ htreeEdges k (((2 : Nat) : α) * w) c, HGood (k + 1) f e := by
      intro c h1 h2 e he
      obtain ⟨a1, a2, a3, a4, a5, a6⟩ := htreeEdges_bound k _ c hw2 e he
      exact ⟨by omega, by omega, by omega, by omega, a5, a6⟩
    simp only [htreeEdges, List.forall_mem_append, List.forall_mem_cons, List.not_mem_nil, false_imp_iff,
      implies_true, and_true, and_assoc]
    refine ⟨?_, ?_, ?_, ?_, ?_, ?_, ?_, ?_, ?_, ?_, ?_, ?_, ?_, ?_⟩
    all_goals first
      | exact hgood_mk _ _ _ _ _ (by omega) (by simp only [htreeSize]; omega) (by omega)
          (by simp only [htreeSize]; omega) (by omega) hw
      | exact lift _ (by omega) (by simp only [htreeSize]; omega)

end htreeOrd

/-! ### the reader of C04/C05 on producer trees -/

section reader
variable {α : Type} [Field α] [LinearOrder α] [IsStrictOrderedRing α]

@[simp] theorem nl_zero_eq : (NL.zero : α) = 0 := by simp [NL.zero]
@[simp] theorem nl_one_eq : (NL.one : α) = 1 := by simp [NL.one]

theorem mapE_map_ok {β γ δ : Type} (f : γ → Except Err δ) (g : β → γ) (h : β → δ) (l : List β)
    (H : ∀ x ∈ l, f (g x) = .ok (h x)) : mapE f (l.map g) = .ok (l.map h) := by
  induction l with
  | nil => rfl
  | cons x r ih =>
    have h1 := H x (by simp)
    have h2 := ih (fun y hy => H y (List.mem_cons_of_mem _ hy))
    simp [mapE, h1, h2]

theorem mapE_ok_self {β : Type} (f : β → Except Err β) (l : List β) (H : ∀ x ∈ l, f x = .ok x) :
    mapE f l = .ok l := by
  have := mapE_map_ok f id id l (by simpa using H)
  simpa using this

theorem nodupB_of_nodup {β : Type} [DecidableEq β] (l : List β) (h : l.Nodup) : nodupB l = true := by
  induction l with
  | nil => rfl
  | cons x r ih =>
    have := List.nodup_cons.mp h
    simp [nodupB, this.1, ih this.2]

/-- a soft module without rectangles, as the reader builds it. -/
def softMod (a : α) (name : String) : NL.Mod α :=
  { name := name, center := none, aspect := none, terminal := false, hard := false, fixed := false,
    flip := false, areaRegions := [("_", a)], rects := [] }

theorem parseModule_soft (name : String) (a : Num α) (hn : validIdent name = true) (ha : (0 : α) < a.val) :
    parseModule (α := α) (.str name, modInfo a) = .ok (softMod a.val name) := by
  simp [softMod, parseModule, modInfo, YVal.str?, hn, mapE, classify, attrKind, nodupB, mkParam, ctor, foldlE,
    ctorStep, readRegionArea, assoc, setup, ha]

theorem splitLast_append_single {β : Type} (l : List β) (x : β) : splitLast (l ++ [x]) = some (l, x) := by
  induction l with
  | nil => rfl
  | cons y r ih =>
    cases r with
    | nil => simp [splitLast]
    | cons z r' =>
      have : (y :: z :: r') ++ [x] = y :: z :: (r' ++ [x]) := by simp
      rw [this, splitLast]
      have ih' : splitLast (z :: (r' ++ [x])) = some (z :: r', x) := by simpa using ih
      rw [ih']

theorem strs_map_str (l : List String) : strs (l.map (YVal.str (α := α))) = some l := by
  induction l with
  | nil => rfl
  | cons x r ih => simp [strs, YVal.str?, ih]

/-- the net a netgen / emitter edge denotes. -/
def GEdge.toNet (e : GEdge α) : Net α :=
  { members := e.members, weight := match e.weight with | some w => w.val | none => 1 }

theorem parseEdge_gedge (e : GEdge α) (h2 : 2 ≤ e.members.length) :
    parseEdge (α := α) e.toY = .ok e.toNet := by
  obtain ⟨members, weight⟩ := e
  simp only at h2
  cases weight with
  | some w =>
    have hl : ¬ (List.map YVal.str members ++ [YVal.ofNum w]).length < 2 := by simp only [List.length_append, List.length_map, List.length_cons, List.length_nil]; omega
    have hm : ¬ members.length < 2 := by omega
    simp [parseEdge, GEdge.toY, GEdge.toNet, hl, splitLast_append_single, strs_map_str, hm]
    omega
  | none =>
    obtain ⟨ini, last, rfl⟩ : ∃ ini last, members = ini ++ [last] := by
      refine ⟨members.dropLast, members.getLast (by intro h; simp [h] at h2), ?_⟩
      exact (List.dropLast_append_getLast _).symm
    have hl : ¬ (List.map (YVal.str (α := α)) (ini ++ [last])).length < 2 := by
      simp at h2 ⊢; omega
    have : List.map (YVal.str (α := α)) (ini ++ [last]) = List.map YVal.str ini ++ [YVal.str last] := by simp
    simp only [parseEdge, GEdge.toY, List.append_nil]
    rw [if_neg hl, this, splitLast_append_single]
    simp [strs_map_str, YVal.num?, YVal.str?, GEdge.toNet]

theorem prepModule_soft (a : α) (name : String) : prepModule (softMod a name) = .ok (softMod a name) := by
  simp [prepModule, softMod]

/-! ### die and allocation: reader ∘ writer -/

/-- a vector spec the constructors can have produced: non-negative centre, positive sides. -/
def VRect.Geo (r : VRect α) : Prop := 0 ≤ r.cx.val ∧ 0 ≤ r.cy.val ∧ 0 < r.w.val ∧ 0 < r.h.val

theorem parseDieRect_toY (r : VRect α) (hg : r.Geo) (ht : (validIdent r.region = true ∨ r.region = "#") ∧ r.region ≠ "_") :
    parseDieRect r.toY = .ok r := by
  obtain ⟨cx, cy, w, h, region⟩ := r
  obtain ⟨h1, h2, h3, h4⟩ := hg
  simp only at h1 h2 h3 h4 ht
  have h3' := le_of_lt h3
  have h4' := le_of_lt h4
  rcases ht with ⟨ht | ht, hne⟩ <;>
    simp [parseDieRect, VRect.toY, YVal.str?, h1, h2, h3, h4, h3', h4', ht, hne]

theorem parseRect_toY (r : VRect α) (hg : r.Geo) (ht : validIdent r.region = true) :
    NL.parseRect false false r.toY = .ok { cx := r.cx, cy := r.cy, w := r.w, h := r.h, region := r.region } := by
  obtain ⟨cx, cy, w, h, region⟩ := r
  obtain ⟨h1, h2, h3, h4⟩ := hg
  simp only at h1 h2 h3 h4 ht
  have h3' := le_of_lt h3
  have h4' := le_of_lt h4
  simp [parseRect, VRect.toY, YVal.str?, h1, h2, h3, h4, h3', h4', ht]

theorem dmapE_map_ok {β γ δ : Type} (f : γ → Except DErr δ) (g : β → γ) (h : β → δ) (l : List β)
    (H : ∀ x ∈ l, f (g x) = .ok (h x)) : dmapE f (l.map g) = .ok (l.map h) := by
  induction l with
  | nil => rfl
  | cons x r ih =>
    have h1 := H x (by simp)
    have h2 := ih (fun y hy => H y (List.mem_cons_of_mem _ hy))
    simp [dmapE, h1, h2]

theorem amapE_map_ok {β γ δ : Type} (f : γ → Except AErr δ) (g : β → γ) (h : β → δ) (l : List β)
    (H : ∀ x ∈ l, f (g x) = .ok (h x)) : amapE f (l.map g) = .ok (l.map h) := by
  induction l with
  | nil => rfl
  | cons x r ih =>
    have h1 := H x (by simp)
    have h2 := ih (fun y hy => H y (List.mem_cons_of_mem _ hy))
    simp [amapE, h1, h2]

/-- a die object the constructor can have produced. -/
def DieObj.WF (d : DieObj α) : Prop :=
  0 < d.width.val ∧ 0 < d.height.val ∧
  (∀ r ∈ d.blockages, r.Geo ∧ r.region = "#") ∧
  (∀ r ∈ d.specialised, r.Geo ∧ validIdent r.region = true ∧ r.region ≠ "_")

theorem hash_not_ident : validIdent "#" = false := by decide

theorem readDie_writeDie (d : DieObj α) (h : d.WF) : readDie (writeDie d).1 = .ok d := by
  obtain ⟨width, height, blk, spc⟩ := d
  obtain ⟨hw, hh, hb, hs⟩ := h
  simp only at hw hh hb hs
  have hregs : dmapE (parseDieRect (α := α)) ((blk ++ spc).map VRect.toY) = .ok (blk ++ spc) := by
    have := dmapE_map_ok (parseDieRect (α := α)) VRect.toY id (blk ++ spc) (by
      intro r hr
      rcases List.mem_append.mp hr with hr | hr
      · exact parseDieRect_toY r (hb r hr).1 ⟨Or.inr (hb r hr).2, by rw [(hb r hr).2]; decide⟩
      · exact parseDieRect_toY r (hs r hr).1 ⟨Or.inl (hs r hr).2.1, (hs r hr).2.2⟩)
    simpa using this
  have hfb : (blk ++ spc).filter (fun r => decide (r.region = "#")) = blk := by
    rw [List.filter_append]
    have h1 : blk.filter (fun r => decide (r.region = "#")) = blk :=
      List.filter_eq_self.mpr (fun r hr => by simp [(hb r hr).2])
    have h2 : spc.filter (fun r => decide (r.region = "#")) = [] :=
      List.filter_eq_nil_iff.mpr (fun r hr => by
        have := (hs r hr).2.1
        simp only [decide_eq_true_eq]
        intro e; rw [e, hash_not_ident] at this; exact absurd this (by simp))
    rw [h1, h2, List.append_nil]
  have hfs : (blk ++ spc).filter (fun r => decide (r.region ≠ "#")) = spc := by
    rw [List.filter_append]
    have h1 : blk.filter (fun r => decide (r.region ≠ "#")) = [] :=
      List.filter_eq_nil_iff.mpr (fun r hr => by simp [(hb r hr).2])
    have h2 : spc.filter (fun r => decide (r.region ≠ "#")) = spc :=
      List.filter_eq_self.mpr (fun r hr => by
        have := (hs r hr).2.1
        simp only [ne_eq, decide_not, Bool.not_eq_eq_eq_not, Bool.not_true, decide_eq_false_iff_not]
        intro e; rw [e, hash_not_ident] at this; exact absurd this (by simp))
    rw [h1, h2, List.nil_append]
  cases hre : (blk ++ spc) with
  | nil =>
    have hbn : blk = [] := (List.append_eq_nil_iff.mp hre).1
    have hsn : spc = [] := (List.append_eq_nil_iff.mp hre).2
    subst hbn hsn
    simp [writeDie, readDie, dieKey, YVal.str?, nodupB, lookup, hw, hh]
  | cons x xs =>
    have hx : ((blk ++ spc).map VRect.toY) = x.toY :: xs.map VRect.toY := by rw [hre]; rfl
    have hnum : (VRect.toY x).isNumber = false := rfl
    rw [hre] at hregs hfb hfs
    have hregs' : dmapE (parseDieRect (α := α)) (x.toY :: xs.map VRect.toY) = .ok (x :: xs) := by
      simpa using hregs
    simp [writeDie, readDie, dieKey, YVal.str?, nodupB, lookup, hw, hh, hre, hnum, hregs', hfb]
    simpa using hfs


/-- a cell the allocation constructor can have produced. -/
def Cell.WF (c : Cell α) : Prop :=
  c.rect.Geo ∧ validIdent c.rect.region = true ∧ (c.alloc.map (·.1)).Nodup ∧
  ∀ kv ∈ c.alloc, validIdent kv.1 = true ∧ 0 ≤ kv.2.val ∧ kv.2.val ≤ 1

theorem parseCell_toY (c : Cell α) (h : c.WF) : parseCell c.toY = .ok c := by
  obtain ⟨rect, alloc, depth, fixed⟩ := c
  obtain ⟨hg, hr, hnd, ha⟩ := h
  simp only at hg hr hnd ha
  have hrect : parseCellRect rect.toY = .ok rect := by
    simp [parseCellRect, parseRect_toY rect hg hr]
  have hent : amapE (parseEntry (α := α)) (alloc.map fun kv => (YVal.str kv.1, YVal.ofNum kv.2)) = .ok alloc := by
    have := amapE_map_ok (parseEntry (α := α)) (fun kv : String × Num α => (YVal.str kv.1, YVal.ofNum kv.2)) id alloc (by
      intro kv hkv
      obtain ⟨h1, h2, h3⟩ := ha kv hkv
      simp [parseEntry, YVal.str?, h1, h2, h3])
    simpa using this
  have hnd' := nodupB_of_nodup _ hnd
  have h0 : (0 : Int) ≤ (depth : Int) := by omega
  cases fixed with
  | true =>
    simp [Cell.toY, parseCell, parseDepth, parseMark, h0, hrect, hent, hnd']
  | false =>
    by_cases hd : depth > 0
    · simp [Cell.toY, parseCell, hd, parseDepth, h0, hrect, hent, hnd']
    · have : depth = 0 := by omega
      subst this
      simp [Cell.toY, parseCell, hrect, hent, hnd']

theorem readAlloc_writeAlloc (cs : List (Cell α)) (h : ∀ c ∈ cs, c.WF) : readAlloc (writeAlloc cs).1 = .ok cs := by
  have := amapE_map_ok (parseCell (α := α)) Cell.toY id cs (fun c hc => parseCell_toY c (h c hc))
  simpa [readAlloc, writeAlloc] using this


/-! ### modules with rectangles, terminals: what the reader builds -/

abbrev Num4 (α : Type) := Num α × Num α × Num α × Num α

/-- the rectangle the reader builds from `[x, y, w, h]`. -/
def nrect (fx hd : Bool) (r : Num4 α) : NRect α :=
  { cx := r.1, cy := r.2.1, w := r.2.2.1, h := r.2.2.2, fixed := fx, hard := hd }

def Num4.Ok (r : Num4 α) : Prop := 0 ≤ r.1.val ∧ 0 ≤ r.2.1.val ∧ 0 < r.2.2.1.val ∧ 0 < r.2.2.2.val

def f4 (r : α × α × α × α) : Num4 α := (.f r.1, .f r.2.1, .f r.2.2.1, .f r.2.2.2)

theorem rect4Y_eq (r : α × α × α × α) : rect4Y r = num4Y (f4 r) := rfl

theorem parseRect_num4Y (fx hd : Bool) (r : Num4 α) (h : r.Ok) : parseRect fx hd (num4Y r) = .ok (nrect fx hd r) := by
  obtain ⟨a, b, c, d⟩ := r
  obtain ⟨h1, h2, h3, h4⟩ := h
  simp only at h1 h2 h3 h4
  simp [parseRect, num4Y, nrect, h1, h2, h3, h4, le_of_lt h3, le_of_lt h4]

theorem parseRects_num4 (fx hd : Bool) (rs : List (Num4 α)) (hne : rs ≠ []) (h : ∀ r ∈ rs, r.Ok) :
    parseRects fx hd (.seq (rs.map num4Y)) = .ok (rs.map (nrect fx hd)) := by
  cases rs with
  | nil => exact absurd rfl hne
  | cons x xs =>
    have hn : (num4Y x).isNumber = false := rfl
    have := mapE_map_ok (parseRect (α := α) fx hd) num4Y (nrect fx hd) (x :: xs) (fun r hr => parseRect_num4Y fx hd r (h r hr))
    simp only [List.map_cons] at this ⊢
    simp [parseRects, hn, this]

/-- a module that carries only rectangles and the `fixed` flag. -/
theorem parseModule_fixed_rects (name : String) (rs : List (Num4 α)) (hn : validIdent name = true)
    (hne : rs ≠ []) (h : ∀ r ∈ rs, r.Ok) :
    parseModule (α := α) (.str name, .map [(.str "rectangles", .seq (rs.map num4Y)), (.str "fixed", .bool true)])
      = .ok { name := name, center := none, aspect := none, terminal := false, hard := true, fixed := true,
              flip := false, areaRegions := [("_", sumAreas (rs.map (nrect true true)))], rects := rs.map (nrect true true) } := by
  have hr := parseRects_num4 true true rs hne h
  simp [parseModule, YVal.str?, hn, mapE, classify, attrKind, nodupB, mkParam, Param.kind, ctor, foldlE, ctorStep, assoc, setup,
    YVal.bool?, hr, hne]


theorem parseModule_hard_rects (name : String) (rs : List (Num4 α)) (hn : validIdent name = true)
    (hne : rs ≠ []) (h : ∀ r ∈ rs, r.Ok) :
    parseModule (α := α) (.str name, .map [(.str "rectangles", .seq (rs.map num4Y)), (.str "hard", .bool true)])
      = .ok { name := name, center := none, aspect := none, terminal := false, hard := true, fixed := false,
              flip := false, areaRegions := [("_", sumAreas (rs.map (nrect false true)))], rects := rs.map (nrect false true) } := by
  have hr := parseRects_num4 false true rs hne h
  simp [parseModule, YVal.str?, hn, mapE, classify, attrKind, nodupB, mkParam, Param.kind, ctor, foldlE, ctorStep, assoc, setup,
    YVal.bool?, hr, hne]

/-- FloorSet soft block: rectangles, area, centre. -/
theorem parseModule_soft_rects (name : String) (rs : List (Num4 α)) (a : α) (c : α × α) (hn : validIdent name = true)
    (hne : rs ≠ []) (h : ∀ r ∈ rs, r.Ok) (ha : 0 < a) :
    parseModule (α := α) (.str name, .map [(.str "rectangles", .seq (rs.map num4Y)), (.str "area", .float a),
        (.str "center", .seq [.float c.1, .float c.2])])
      = .ok { name := name, center := some c, aspect := none, terminal := false, hard := false, fixed := false,
              flip := false, areaRegions := [("_", a)], rects := rs.map (nrect false false) } := by
  have hr := parseRects_num4 false false rs hne h
  simp [parseModule, YVal.str?, hn, mapE, classify, attrKind, nodupB, mkParam, Param.kind, parseCenter, ctor, foldlE, ctorStep,
    readRegionArea, assoc, setup, YVal.num?, Num.val, hr, ha]

/-- FloorSet pin as a terminal. -/
theorem parseModule_terminal (name : String) (c : α × α) (hn : validIdent name = true) :
    parseModule (α := α) (.str name, .map [(.str "center", .seq [.float c.1, .float c.2]), (.str "terminal", .bool true)])
      = .ok { name := name, center := some c, aspect := none, terminal := true, hard := true, fixed := false,
              flip := false, areaRegions := [("_", sumAreas [])], rects := [] } := by
  simp [parseModule, YVal.str?, hn, mapE, classify, attrKind, nodupB, mkParam, Param.kind, parseCenter, ctor, foldlE, ctorStep,
    assoc, setup, YVal.num?, Num.val, YVal.bool?]

/-- FloorSet pin stored as a fixed module with one (un-nested) rectangle. -/
theorem parseModule_flat_fixed (name : String) (r : Num4 α) (hn : validIdent name = true) (h : r.Ok) :
    parseModule (α := α) (.str name, .map [(.str "rectangles", num4Y r), (.str "fixed", .bool true)])
      = .ok { name := name, center := none, aspect := none, terminal := false, hard := true, fixed := true,
              flip := false, areaRegions := [("_", sumAreas [nrect true true r])], rects := [nrect true true r] } := by
  have hp := parseRect_num4Y true true r h
  obtain ⟨a, b, c, d⟩ := r
  have hn1 : (YVal.ofNum a : YVal α).isNumber = true := by simp [YVal.isNumber]
  simp only [num4Y] at hp ⊢
  simp [parseModule, YVal.str?, hn, mapE, classify, attrKind, nodupB, mkParam, Param.kind, ctor, foldlE, ctorStep, assoc, setup,
    YVal.bool?, parseRects, hn1, hp]


/-- the root of a netlist document with both sections. -/
theorem parseDoc_two (mods nets : YVal α) (ms : List (NL.Mod α)) (es : List (Net α))
    (hm : parseModules mods = .ok ms) (he : parseEdges nets = .ok es) :
    parseDoc (.map [(.str "Modules", mods), (.str "Nets", nets)]) = .ok (ms, es) := by
  simp [parseDoc, mapE, classifyRoot, YVal.str?, rootKind, nodupB, assoc, optParse, hm, he]

theorem parseModules_of (l : List (YVal α × YVal α)) (ms : List (NL.Mod α))
    (h : mapE parseModule l = .ok ms) (hnd : (ms.map (·.name)).Nodup) :
    parseModules (.map l) = .ok ms := by
  simp [parseModules, h, nodupB_of_nodup _ hnd]

theorem resolve_ok (names : List String) (es : List (Net α))
    (h : ∀ e ∈ es, (∀ m ∈ e.members, m ∈ names) ∧ (0 : α) < e.weight) :
    mapE (resolveNet (α := α) names) es = .ok es :=
  mapE_ok_self _ _ (by
    intro e he
    have hall : e.members.all (fun m => names.contains m) = true := by
      simp only [List.all_eq_true, List.contains_iff_mem]
      exact (h e he).1
    simp only [resolveNet, hall, (h e he).2, Bool.not_true, Bool.false_eq_true, if_false, nl_zero_eq, if_true])

/-- `finish` on modules without rectangles and without `flip`. -/
theorem finish_norects (stog : List (NRect α) → List (NRect α)) (εA : α) (ms : List (NL.Mod α)) (es : List (Net α))
    (hm : ∀ m ∈ ms, m.rects = [] ∧ m.flip = false ∧ (m.hard = true → m.terminal = true))
    (he : ∀ e ∈ es, (∀ x ∈ e.members, x ∈ ms.map (·.name)) ∧ (0 : α) < e.weight) :
    finish stog εA ms es = .ok { modules := ms, nets := es } := by
  have hprep : mapE (prepModule (α := α)) ms = .ok ms :=
    mapE_ok_self _ _ (by
      intro m h
      obtain ⟨h1, h2, h3⟩ := hm m h
      cases hh : m.hard <;> cases ht : m.terminal <;> simp_all [prepModule])
  have hmap : (ms.map fun m => if m.rects.isEmpty then m else { m with rects := stog m.rects }) = ms := by
    conv_rhs => rw [← List.map_id ms]
    apply List.map_congr_left
    intro m h
    simp [(hm m h).1]
  have hov : (ms.all fun m => !(m.hard && !m.terminal) || noOverlap εA m.rects) = true := by
    simp only [List.all_eq_true]
    intro m h
    simp [(hm m h).1, noOverlap, pairsAll]
  have hfl : (ms.all fun m => !m.flip || hasStog m) = true := by
    simp only [List.all_eq_true]
    intro m h
    simp [(hm m h).2.1]
  simp only [finish, hprep, hmap, hov, hfl, resolve_ok _ es he, Bool.not_true, Bool.false_eq_true, if_false]

/-- what the reader returns for a document made of soft, area-only modules and name-only nets. -/
theorem parseNetlist_soft (stog : List (NRect α) → List (NRect α)) (εA : α)
    (names : List String) (area : Num α) (nets : List (GEdge α))
    (hv : ∀ n ∈ names, validIdent n = true) (hnd : names.Nodup) (ha : (0 : α) < area.val)
    (hnets : ∀ e ∈ nets, 2 ≤ e.members.length ∧ (∀ m ∈ e.members, m ∈ names) ∧
      (∀ w, e.weight = some w → (0 : α) < w.val)) :
    parseNetlist stog εA (GenOut.toY { modules := names.map fun n => (n, modInfo area), nets := nets })
      = .ok { modules := names.map (softMod area.val), nets := nets.map GEdge.toNet } := by
  have hmods : mapE (parseModule (α := α)) (names.map fun n => (YVal.str n, modInfo area))
      = .ok (names.map (softMod area.val)) :=
    mapE_map_ok _ _ _ _ (fun n hn => parseModule_soft n area (hv n hn) ha)
  have hnames : (names.map (softMod area.val)).map (·.name) = names := by
    simp [softMod, Function.comp_def]
  have hedges : mapE (parseEdge (α := α)) (nets.map GEdge.toY) = .ok (nets.map GEdge.toNet) :=
    mapE_map_ok _ _ _ _ (fun e he => parseEdge_gedge e (hnets e he).1)
  have hmap : (names.map fun n => (n, modInfo area)).map (fun kv => (YVal.str (α := α) kv.1, kv.2))
      = names.map fun n => (YVal.str n, modInfo area) := by simp [Function.comp_def]
  have hdoc := parseDoc_two (α := α) (.map (names.map fun n => (YVal.str n, modInfo area))) (.seq (nets.map GEdge.toY))
    _ (nets.map GEdge.toNet) (parseModules_of _ _ hmods (by rw [hnames]; exact hnd)) (by simp [parseEdges, hedges])
  have hfin := finish_norects stog εA (names.map (softMod area.val)) (nets.map GEdge.toNet)
    (by
      intro m hm
      obtain ⟨n, _, rfl⟩ := List.mem_map.mp hm
      simp [softMod])
    (by
      intro x hx
      obtain ⟨e, he, rfl⟩ := List.mem_map.mp hx
      have h := hnets e he
      rw [hnames]
      refine ⟨h.2.1, ?_⟩
      unfold GEdge.toNet
      cases hwt : e.weight with
      | none => simp
      | some w => simpa using h.2.2 w hwt)
  simp only [parseNetlist, GenOut.toY, Dict.toY, hmap, hdoc, hfin]


/-- what `_create_rectangles` does to a module: the centre is recomputed from the rectangles, which are handed to the
    STOG construction. -/
def post (stog : List (NRect α) → List (NRect α)) (m : NL.Mod α) : NL.Mod α :=
  if m.rects.isEmpty then m else { m with center := some (centroid m.rects), rects := stog m.rects }

theorem post_name (stog : List (NRect α) → List (NRect α)) (m : NL.Mod α) : (post stog m).name = m.name := by
  unfold post; split <;> rfl

/-- `finish` on modules without `flip` whose hard non-terminal members have pairwise non-overlapping rectangles. -/
theorem finish_ok (stog : List (NRect α) → List (NRect α)) (εA : α) (ms : List (NL.Mod α)) (es : List (Net α))
    (hm : ∀ m ∈ ms, m.flip = false ∧ (m.hard = true → m.terminal = true ∨ m.rects ≠ []) ∧
      (m.hard = true → m.terminal = false → noOverlap εA m.rects = true))
    (he : ∀ e ∈ es, (∀ x ∈ e.members, x ∈ ms.map (·.name)) ∧ (0 : α) < e.weight) :
    finish stog εA ms es = .ok { modules := ms.map (post stog), nets := es } := by
  let prep : NL.Mod α → NL.Mod α := fun m => if m.rects.isEmpty then m else { m with center := some (centroid m.rects) }
  have hprep : mapE (prepModule (α := α)) ms = .ok (ms.map prep) := by
    have := mapE_map_ok (prepModule (α := α)) id prep ms (by
      intro m h
      obtain ⟨h1, h2, h3⟩ := hm m h
      cases hh : m.hard <;> cases ht : m.terminal <;> cases hr : m.rects <;>
        simp_all [prepModule, prep])
    simpa using this
  have hov : ((ms.map prep).all fun m => !(m.hard && !m.terminal) || noOverlap εA m.rects) = true := by
    simp only [List.all_eq_true, List.mem_map]
    rintro _ ⟨m, h, rfl⟩
    obtain ⟨h1, h2, h3⟩ := hm m h
    have hr : (prep m).rects = m.rects := by simp only [prep]; split <;> rfl
    have hh : (prep m).hard = m.hard := by simp only [prep]; split <;> rfl
    have ht : (prep m).terminal = m.terminal := by simp only [prep]; split <;> rfl
    rw [hr, hh, ht]
    cases hh' : m.hard <;> cases ht' : m.terminal <;> simp_all
  have hmap : ((ms.map prep).map fun m => if m.rects.isEmpty then m else { m with rects := stog m.rects })
      = ms.map (post stog) := by
    rw [List.map_map]
    apply List.map_congr_left
    intro m _
    simp only [Function.comp, prep, post]
    cases hr : m.rects with
    | nil => simp [hr]
    | cons x xs => simp [hr]
  have hfl : ((ms.map (post stog)).all fun m => !m.flip || hasStog m) = true := by
    simp only [List.all_eq_true, List.mem_map]
    rintro _ ⟨m, h, rfl⟩
    have : (post stog m).flip = m.flip := by unfold post; split <;> rfl
    simp [this, (hm m h).1]
  have hn : (ms.map (post stog)).map (·.name) = ms.map (·.name) := by
    simp [Function.comp_def, post_name]
  simp only [finish, hprep, hov, hmap, hfl, hn, resolve_ok _ es he, Bool.not_true, Bool.false_eq_true, if_false]

/-! ### FloorSet converter: the reader on `write_yaml_FPEF` -/

theorem enum_map_fst {β : Type} (l : List β) : (enum l).map (·.1) = List.range l.length := by
  simp [enum, List.map_fst_zip]

theorem mem_enum {β : Type} {l : List β} {p : Nat × β} (h : p ∈ enum l) : p.1 < l.length ∧ p.2 ∈ l := by
  obtain ⟨i, b⟩ := p
  have h' := List.of_mem_zip h
  exact ⟨List.mem_range.mp h'.1, h'.2⟩

/-- the module the reader builds from a FloorSet block. -/
def fsBlockMod (i : Nat) (b : FsBlock α) : NL.Mod α :=
  if b.kind = 2 then
    { name := modName i, center := none, aspect := none, terminal := false, hard := true, fixed := true, flip := false,
      areaRegions := [("_", sumAreas ((b.rects.map f4).map (nrect true true)))], rects := (b.rects.map f4).map (nrect true true) }
  else if b.kind = 1 then
    { name := modName i, center := none, aspect := none, terminal := false, hard := true, fixed := false, flip := false,
      areaRegions := [("_", sumAreas ((b.rects.map f4).map (nrect false true)))], rects := (b.rects.map f4).map (nrect false true) }
  else
    { name := modName i, center := some (fsCentroid b.rects), aspect := none, terminal := false, hard := false,
      fixed := false, flip := false, areaRegions := [("_", b.area)], rects := (b.rects.map f4).map (nrect false false) }

/-- the module the reader builds from a FloorSet pin. -/
def fsPinMod (eps sx sy : α) (tam : Bool) (j : Nat) (p : α × α) : NL.Mod α :=
  if tam then
    { name := termName j, center := none, aspect := none, terminal := false, hard := true, fixed := true, flip := false,
      areaRegions := [("_", sumAreas [nrect true true (f4 (fsPinCoord eps sx p.1, fsPinCoord eps sy p.2, eps, eps))])],
      rects := [nrect true true (f4 (fsPinCoord eps sx p.1, fsPinCoord eps sy p.2, eps, eps))] }
  else
    { name := termName j, center := some p, aspect := none, terminal := true, hard := true, fixed := false, flip := false,
      areaRegions := [("_", sumAreas [])], rects := [] }

def Rect4Ok (r : α × α × α × α) : Prop := 0 ≤ r.1 ∧ 0 ≤ r.2.1 ∧ 0 < r.2.2.1 ∧ 0 < r.2.2.2

theorem f4_ok (r : α × α × α × α) (h : Rect4Ok r) : (f4 r).Ok := by
  simpa [Num4.Ok, f4, Num.val, Rect4Ok] using h

/-- a FloorSet instance the converter is meant for. -/
structure FsInst.WF (eps εA : α) (f : FsInst α) : Prop where
  eps_pos : 0 < eps
  blocks : ∀ b ∈ f.blocks, b.rects ≠ [] ∧ (∀ r ∈ b.rects, Rect4Ok r) ∧ (b.kind ≠ 1 → b.kind ≠ 2 → 0 < b.area) ∧
    (b.kind = 2 → noOverlap εA ((b.rects.map f4).map (nrect true true)) = true) ∧
    (b.kind = 1 → noOverlap εA ((b.rects.map f4).map (nrect false true)) = true)
  pins : ∀ p ∈ f.pins, 0 ≤ p.1 ∧ 0 ≤ p.2
  pins_ne : f.pins ≠ []
  b2b : ∀ e ∈ f.b2b, e.1 < f.blocks.length ∧ e.2.1 < f.blocks.length
  p2b : ∀ e ∈ f.p2b, e.1 < f.pins.length ∧ e.2.1 < f.blocks.length

theorem fsPinCoord_nonneg (eps s p : α) (he : 0 < eps) (hp : 0 ≤ p) : 0 ≤ fsPinCoord eps s p := by
  unfold fsPinCoord
  split
  · linarith
  · split
    · linarith
    · exact hp

theorem parse_fsBlock (i : Nat) (b : FsBlock α) (hne : b.rects ≠ []) (hr : ∀ r ∈ b.rects, Rect4Ok r)
    (ha : b.kind ≠ 1 → b.kind ≠ 2 → 0 < b.area) :
    parseModule (α := α) (.str (modName i), fsBlockInfo b) = .ok (fsBlockMod i b) := by
  have hmap : b.rects.map rect4Y = (b.rects.map f4).map num4Y := by simp [rect4Y_eq, Function.comp_def]
  have hne' : b.rects.map f4 ≠ [] := by simpa using hne
  have hok : ∀ r ∈ b.rects.map f4, r.Ok := by
    intro r hr'
    obtain ⟨x, hx, rfl⟩ := List.mem_map.mp hr'
    exact f4_ok x (hr x hx)
  unfold fsBlockInfo fsBlockMod
  by_cases h2 : b.kind = 2
  · simp only [h2, if_true, hmap]
    exact parseModule_fixed_rects _ _ (validIdent_modName i) hne' hok
  · by_cases h1 : b.kind = 1
    · simp only [h2, h1, if_true, if_false, hmap]
      exact parseModule_hard_rects _ _ (validIdent_modName i) hne' hok
    · simp only [h2, h1, if_false, hmap]
      exact parseModule_soft_rects _ _ _ _ (validIdent_modName i) hne' hok (ha h1 h2)


theorem parse_fsPin (eps sx sy : α) (tam : Bool) (j : Nat) (p : α × α) (he : 0 < eps) (hp : 0 ≤ p.1 ∧ 0 ≤ p.2) :
    parseModule (α := α) (.str (termName j), fsPinInfo eps sx sy tam p) = .ok (fsPinMod eps sx sy tam j p) := by
  unfold fsPinInfo fsPinMod
  cases tam with
  | true =>
    simp only [if_true]
    have hok : (f4 (fsPinCoord eps sx p.1, fsPinCoord eps sy p.2, eps, eps)).Ok :=
      f4_ok _ ⟨fsPinCoord_nonneg _ _ _ he hp.1, fsPinCoord_nonneg _ _ _ he hp.2, he, he⟩
    exact parseModule_flat_fixed _ _ (validIdent_termName j) hok
  | false =>
    simp only [Bool.false_eq_true, if_false]
    exact parseModule_terminal _ _ (validIdent_termName j)

/-- the net the reader builds from a named edge whose members are module names. -/
def neNet (names : List String) (w : Num α) : Net α := { members := names, weight := w.val }

theorem parseEdge_named (names : List String) (w : Num α) (h2 : 2 ≤ names.length) :
    parseEdge (α := α) (.seq (names.map YVal.str ++ (if weightIsOne w then [] else [YVal.ofNum w]))) = .ok (neNet names w) := by
  by_cases h : weightIsOne w = true
  · have := parseEdge_gedge (α := α) { members := names, weight := none } h2
    have hv : w.val = 1 := by simpa [weightIsOne] using h
    simpa [GEdge.toY, GEdge.toNet, h, neNet, hv] using this
  · have := parseEdge_gedge (α := α) { members := names, weight := some w } h2
    simpa [GEdge.toY, GEdge.toNet, h, neNet] using this

theorem fsWeight_pos (alpha w : α) : 0 < (fsWeight alpha w).val := by
  unfold fsWeight
  split
  · rename_i h
    simpa [Num.val] using h
  · simp [Num.val, intToSc]


/-- the nets of a FloorSet instance as the reader returns them. -/
def fsNetsRead (f : FsInst α) : List (Net α) :=
  (f.b2b.map fun e => neNet [modName e.1, modName e.2.1] (fsWeight f.alpha e.2.2))
  ++ (f.p2b.map fun e => neNet [termName e.1, modName e.2.1] (fsWeight f.alpha e.2.2))

/-- the modules of a FloorSet instance as the reader's `parse_yaml_netlist` returns them. -/
def fsModsRead (eps sx sy : α) (f : FsInst α) : List (NL.Mod α) :=
  ((enum f.blocks).map fun ib => fsBlockMod ib.1 ib.2)
  ++ ((enum f.pins).map fun jp => fsPinMod eps sx sy f.terminalsAsModules jp.1 jp.2)

theorem fsBlockMod_name (i : Nat) (b : FsBlock α) : (fsBlockMod i b).name = modName i := by
  unfold fsBlockMod; split
  · rfl
  · split <;> rfl

theorem fsPinMod_name (eps sx sy : α) (tam : Bool) (j : Nat) (p : α × α) :
    (fsPinMod eps sx sy tam j p).name = termName j := by
  unfold fsPinMod; split <;> rfl

theorem fsModsRead_names (eps sx sy : α) (f : FsInst α) :
    (fsModsRead eps sx sy f).map (·.name)
      = (List.range f.blocks.length).map modName ++ (List.range f.pins.length).map termName := by
  simp only [fsModsRead, List.map_append, List.map_map, Function.comp_def, fsBlockMod_name, fsPinMod_name]
  rw [← enum_map_fst f.blocks, ← enum_map_fst f.pins]
  simp [Function.comp_def]

theorem fs_names_nodup (n m : Nat) :
    ((List.range n).map modName ++ (List.range m).map termName).Nodup := by
  refine List.Nodup.append (modName_nodup _ List.nodup_range)
    (List.Nodup.map (fun _ _ e => termName_inj e) List.nodup_range) ?_
  intro s h1 h2
  obtain ⟨i, _, rfl⟩ := List.mem_map.mp h1
  obtain ⟨j, _, hj⟩ := List.mem_map.mp h2
  exact modName_ne_termName i j hj.symm

theorem mapE_append_ok {β γ : Type} (f : β → Except Err γ) (l1 l2 : List β) (r1 r2 : List γ)
    (h1 : mapE f l1 = .ok r1) (h2 : mapE f l2 = .ok r2) : mapE f (l1 ++ l2) = .ok (r1 ++ r2) := by
  induction l1 generalizing r1 with
  | nil => simp only [mapE] at h1; cases h1; simpa using h2
  | cons x xs ih =>
    simp only [mapE] at h1
    cases hx : f x with
    | error e => simp [hx] at h1
    | ok y =>
      cases hxs : mapE f xs with
      | error e => simp [hx, hxs] at h1
      | ok ys =>
        simp only [hx, hxs, Except.ok.injEq] at h1
        subst h1
        simp [mapE, hx, ih ys hxs]

theorem fsShape_ok (f : FsInst α) (h : f.pins ≠ []) : ∃ sx sy, fsShape f = .ok (sx, sy) := by
  cases hp : f.pins with
  | nil => exact absurd hp h
  | cons p ps => exact ⟨(ps.map (·.1)).foldl pyMax p.1, (ps.map (·.2)).foldl pyMax p.2, by simp [fsShape, hp, maxOf?]⟩

theorem fsShape_nopins (f : FsInst α) (h : f.pins = []) : fsShape f = .error .valueError := by
  simp [fsShape, h, maxOf?]

theorem le_pyMax_left (a b : α) : a ≤ pyMax a b := by
  unfold pyMax; split
  · exact le_of_lt ‹_›
  · exact le_refl _

theorem le_pyMax_right (a b : α) : b ≤ pyMax a b := by
  unfold pyMax; split
  · exact le_refl _
  · exact not_lt.mp ‹_›

theorem le_foldl_pyMax (l : List α) (init x : α) (h : x ≤ init ∨ x ∈ l) : x ≤ l.foldl pyMax init := by
  induction l generalizing init with
  | nil =>
    rcases h with h | h
    · exact h
    · cases h
  | cons y ys ih =>
    rw [List.foldl_cons]
    apply ih
    rcases h with h | h
    · exact Or.inl (le_trans h (le_pyMax_left _ _))
    · rcases List.mem_cons.mp h with rfl | h
      · exact Or.inl (le_pyMax_right _ _)
      · exact Or.inr h

theorem maxOf?_ge (l : List α) (m : α) (h : maxOf? l = some m) : ∀ x ∈ l, x ≤ m := by
  cases l with
  | nil => cases h
  | cons y ys =>
    simp only [maxOf?, Option.some.injEq] at h
    subst h
    intro x hx
    rcases List.mem_cons.mp hx with rfl | hx
    · exact le_foldl_pyMax _ _ _ (Or.inl (le_refl _))
    · exact le_foldl_pyMax _ _ _ (Or.inr hx)

/-- the die `_parse_modules` derives is spanned by the pins: every pin lies in `[0, sx] × [0, sy]` (upper bounds). -/
theorem fsShape_bounds (f : FsInst α) (sx sy : α) (h : fsShape f = .ok (sx, sy)) :
    ∀ p ∈ f.pins, p.1 ≤ sx ∧ p.2 ≤ sy := by
  unfold fsShape at h
  cases hx : maxOf? (f.pins.map (·.1)) with
  | none => rw [hx] at h; cases h
  | some mx =>
    cases hy : maxOf? (f.pins.map (·.2)) with
    | none => rw [hx, hy] at h; cases h
    | some my =>
      rw [hx, hy] at h
      simp only [Except.ok.injEq, Prod.mk.injEq] at h
      obtain ⟨rfl, rfl⟩ := h
      intro p hp
      exact ⟨maxOf?_ge _ _ hx p.1 (List.mem_map.mpr ⟨p, hp, rfl⟩), maxOf?_ge _ _ hy p.2 (List.mem_map.mpr ⟨p, hp, rfl⟩)⟩

/-! #### from the raw arrays to a well-formed instance -/

/-- raw FloorSet arrays the converter is meant for: what `__init__` checks (`valid`, `dens`), at least one pin, a proper
    decomposition of every block (non-empty, proper rectangles in the positive quadrant, no overlap for hard / fixed
    blocks — what `strop_decomposition` delivers for a single-trunk orthogon, property C15), positive area for soft blocks,
    connections between existing blocks / pins, and a density whose normalisation does not divide by zero. -/
structure FsRaw.WF (eps εA : α) (sqrt : α → α) (r : FsRaw α) : Prop where
  eps_pos : 0 < eps
  valid : fsValidate r = true
  dens : ∀ x, r.density = some x → 0 ≤ x ∧ x ≤ 1
  pins_ne : r.pins ≠ []
  blocks : ∀ i, i < r.areaBlocks.length →
    r.decomp.getD i [] ≠ [] ∧ (∀ q ∈ r.decomp.getD i [], Rect4Ok q) ∧
    (fsKindOf (r.cons.getD i []) ≠ 1 → fsKindOf (r.cons.getD i []) ≠ 2 → 0 < r.areaBlocks.getD i 0) ∧
    (fsKindOf (r.cons.getD i []) = 2 → noOverlap εA (((r.decomp.getD i []).map f4).map (nrect true true)) = true) ∧
    (fsKindOf (r.cons.getD i []) = 1 → noOverlap εA (((r.decomp.getD i []).map f4).map (nrect false true)) = true)
  b2b : ∀ e ∈ r.b2b, e.1 < r.areaBlocks.length ∧ e.2.1 < r.areaBlocks.length
  p2b : ∀ e ∈ r.p2b, e.1 < r.pins.length ∧ e.2.1 < r.areaBlocks.length
  alpha_ok : ∀ x, r.density = some x → x ≠ 0 → ∃ a, fsAlpha sqrt r x = .ok a

theorem fsValidate_pins (r : FsRaw α) (h : fsValidate r = true) : ∀ p ∈ r.pins, 0 ≤ p.1 ∧ 0 ≤ p.2 := by
  intro p hp
  simp only [fsValidate, Bool.and_eq_true, List.all_eq_true] at h
  have := h.1.1.2 p hp
  simp only [Bool.and_eq_true, Bool.not_eq_true', decide_eq_false_iff_not, not_lt, nl_zero_eq] at this
  exact this

/-- **the constructor on well-formed raw arrays returns a well-formed instance**: the blocks are those of
    `_parse_modules` (kinds from the placement constraints), pins and connections are the arrays', the normalisation factor
    is 1 without a density and `density / max_b (weight_sum b / perimeter b)` with one. -/
theorem fsOfRaw_ok (eps εA : α) (sqrt : α → α) (r : FsRaw α) (h : FsRaw.WF eps εA sqrt r) :
    ∃ f, fsOfRaw sqrt r = .ok f ∧ FsInst.WF eps εA f ∧ f.blocks = fsBlocksOf r ∧ f.pins = r.pins ∧
      f.terminalsAsModules = r.terminalsAsModules ∧ f.b2b = r.b2b ∧ f.p2b = r.p2b ∧
      ((r.density = none ∨ r.density = some 0) → f.alpha = 1) ∧
      (∀ x, r.density = some x → x ≠ 0 → fsAlpha sqrt r x = .ok f.alpha) := by
  have hlen : (fsBlocksOf r).length = r.areaBlocks.length := by simp [fsBlocksOf]
  have hwf : ∀ a : α, FsInst.WF eps εA
      { blocks := fsBlocksOf r, pins := r.pins, terminalsAsModules := r.terminalsAsModules, alpha := a,
        b2b := r.b2b, p2b := r.p2b } := by
    intro a
    refine ⟨h.eps_pos, ?_, fsValidate_pins r h.valid, h.pins_ne, ?_, ?_⟩
    · intro b hb
      simp only [fsBlocksOf, List.mem_map, List.mem_range] at hb
      obtain ⟨i, hi, rfl⟩ := hb
      have := h.blocks i hi
      simpa [nl_zero_eq] using this
    · intro e he; simpa [hlen] using h.b2b e he
    · intro e he; simpa [hlen] using h.p2b e he
  obtain ⟨sx, sy, hs⟩ := fsShape_ok (FsInst.mk (fsBlocksOf r) r.pins r.terminalsAsModules (1 : α) r.b2b r.p2b) h.pins_ne
  have hone : (NL.one : α) = 1 := by simp [NL.one]
  cases hd : r.density with
  | none =>
    refine ⟨_, ?_, hwf 1, rfl, rfl, rfl, rfl, rfl, fun _ => rfl, fun x hx => by cases hx⟩
    simp [fsOfRaw, h.valid, hd, fsDensity, hone, hs]
  | some x =>
    obtain ⟨hx0, hx1⟩ := h.dens x hd
    by_cases hz : x = 0
    · refine ⟨_, ?_, hwf 1, rfl, rfl, rfl, rfl, rfl, fun _ => rfl, fun y hy hy0 => ?_⟩
      · simp [fsOfRaw, h.valid, hd, fsDensity, hz, hone, hs, nl_zero_eq]
      · cases hy; exact absurd hz hy0
    · obtain ⟨a, haa⟩ := h.alpha_ok x hd hz
      refine ⟨_, ?_, hwf a, rfl, rfl, rfl, rfl, rfl, fun hc => ?_, fun y hy _ => ?_⟩
      · simp [fsOfRaw, h.valid, hd, fsDensity, hz, hx0, hx1, hone, hs, nl_zero_eq, haa]
      · rcases hc with hc | hc
        · cases hc
        · cases hc; exact absurd rfl hz
      · cases hy; exact haa

theorem floorset_parseNetlist (stog : List (NRect α) → List (NRect α)) (εA eps sx sy : α) (f : FsInst α)
    (h : FsInst.WF eps εA f) :
    parseNetlist stog εA (fpefTree eps sx sy f)
      = .ok { modules := (fsModsRead eps sx sy f).map (post stog), nets := fsNetsRead f } := by
  let L1 : List (String × YVal α) := (enum f.blocks).map fun ib => (modName ib.1, fsBlockInfo ib.2)
  let L2 : List (String × YVal α) := (enum f.pins).map fun ip =>
    (termName ip.1, fsPinInfo eps sx sy f.terminalsAsModules ip.2)
  have hk1 : L1.map (·.1) = (List.range f.blocks.length).map modName := by
    simp only [L1, List.map_map, Function.comp_def]
    rw [← enum_map_fst f.blocks]; simp [Function.comp_def]
  have hk2 : L2.map (·.1) = (List.range f.pins.length).map termName := by
    simp only [L2, List.map_map, Function.comp_def]
    rw [← enum_map_fst f.pins]; simp [Function.comp_def]
  have hdict : fsModulesAt eps sx sy f = L1 ++ L2 := by
    have e1 : dictUpdate ([] : Dict α) L1 = L1 := by
      have := dictUpdate_of_nodup ([] : Dict α) L1 (by
        simp only [List.map_nil, List.nil_append, hk1]; exact modName_nodup _ List.nodup_range)
      simpa using this
    simp only [fsModulesAt]
    rw [e1, dictUpdate_of_nodup L1 L2 (by rw [hk1, hk2]; exact fs_names_nodup _ _)]
  have hmods : mapE (parseModule (α := α)) ((L1 ++ L2).map fun kv => (YVal.str kv.1, kv.2)) = .ok (fsModsRead eps sx sy f) := by
    have h1 : (L1 ++ L2).map (fun kv => (YVal.str (α := α) kv.1, kv.2))
        = ((enum f.blocks).map fun ib => (YVal.str (modName ib.1), fsBlockInfo ib.2))
          ++ ((enum f.pins).map fun ip => (YVal.str (termName ip.1), fsPinInfo eps sx sy f.terminalsAsModules ip.2)) := by
      simp [L1, L2, Function.comp_def]
    rw [h1]
    refine mapE_append_ok _ _ _ _ _ ?_ ?_
    · exact mapE_map_ok _ _ _ _ (fun ib hib => by
        obtain ⟨_, hb⟩ := mem_enum hib
        obtain ⟨b1, b2, b3, _, _⟩ := h.blocks _ hb
        exact parse_fsBlock ib.1 ib.2 b1 b2 b3)
    · exact mapE_map_ok _ _ _ _ (fun jp hjp => by
        obtain ⟨_, hp⟩ := mem_enum hjp
        exact parse_fsPin eps sx sy _ jp.1 jp.2 h.eps_pos (h.pins _ hp))
  have hnames := fsModsRead_names eps sx sy f
  have hedges : parseEdges (α := α) (dumpNamedEdges (fsNets f)).1 = .ok (fsNetsRead f) := by
    simp only [dumpNamedEdges, fsNets, parseEdges, List.map_append, List.map_map, Function.comp_def]
    refine mapE_append_ok _ _ _ _ _ ?_ ?_
    · exact mapE_map_ok _ _ _ _ (fun e _ => by
        have := parseEdge_named (α := α) [modName e.1, modName e.2.1] (fsWeight f.alpha e.2.2) (by simp)
        simpa using this)
    · exact mapE_map_ok _ _ _ _ (fun e _ => by
        have := parseEdge_named (α := α) [termName e.1, modName e.2.1] (fsWeight f.alpha e.2.2) (by simp)
        simpa using this)
  have hdoc := parseDoc_two (α := α) (.map ((L1 ++ L2).map fun kv => (YVal.str kv.1, kv.2))) (dumpNamedEdges (fsNets f)).1
    _ _ (parseModules_of _ _ hmods (by rw [hnames]; exact fs_names_nodup _ _)) hedges
  have hfin := finish_ok stog εA (fsModsRead eps sx sy f) (fsNetsRead f)
    (by
      intro m hm
      simp only [fsModsRead, List.mem_append, List.mem_map] at hm
      rcases hm with ⟨ib, hib, rfl⟩ | ⟨jp, hjp, rfl⟩
      · obtain ⟨_, hb⟩ := mem_enum hib
        obtain ⟨b1, b2, b3, b4, b5⟩ := h.blocks _ hb
        unfold fsBlockMod
        by_cases h2 : ib.2.kind = 2
        · simp only [h2, if_true]
          exact ⟨by simp, fun _ => Or.inr (by simpa using b1), fun _ _ => b4 h2⟩
        · by_cases h1 : ib.2.kind = 1
          · simp only [h2, h1, if_true, if_false]
            exact ⟨by simp, fun _ => Or.inr (by simpa using b1), fun _ _ => b5 h1⟩
          · simp only [h2, h1, if_false]
            exact ⟨by simp, fun hh => by simp at hh, fun hh => by simp at hh⟩
      · unfold fsPinMod
        cases f.terminalsAsModules with
        | true =>
          simp only [if_true]
          exact ⟨by simp, fun _ => Or.inr (by simp), fun _ _ => by simp [noOverlap, pairsAll]⟩
        | false =>
          simp only [Bool.false_eq_true, if_false]
          exact ⟨by simp, fun _ => Or.inl (by simp), fun _ hh => by simp at hh⟩)
    (by
      intro e he
      rw [hnames]
      simp only [fsNetsRead, List.mem_append, List.mem_map] at he
      rcases he with ⟨x, hx, rfl⟩ | ⟨x, hx, rfl⟩
      · refine ⟨?_, fsWeight_pos _ _⟩
        intro s hs
        simp only [neNet, List.mem_cons, List.mem_nil_iff, or_false] at hs
        have hb := h.b2b x hx
        rcases hs with rfl | rfl
        · exact List.mem_append_left _ (List.mem_map.mpr ⟨_, List.mem_range.mpr hb.1, rfl⟩)
        · exact List.mem_append_left _ (List.mem_map.mpr ⟨_, List.mem_range.mpr hb.2, rfl⟩)
      · refine ⟨?_, fsWeight_pos _ _⟩
        intro s hs
        simp only [neNet, List.mem_cons, List.mem_nil_iff, or_false] at hs
        have hb := h.p2b x hx
        rcases hs with rfl | rfl
        · exact List.mem_append_right _ (List.mem_map.mpr ⟨_, List.mem_range.mpr hb.1, rfl⟩)
        · exact List.mem_append_left _ (List.mem_map.mpr ⟨_, List.mem_range.mpr hb.2, rfl⟩))
  simp only [parseNetlist, fpefTree, Dict.toY, hdict, hdoc, hfin]


/-! ### rect_io.get_netlist -/

theorem rioStep_keys (mm : List (String × (α × α) × α)) (m : String) (c : α × α) (a : α) :
    (rioStep mm m c a).map (·.1) = if m ∈ mm.map (·.1) then mm.map (·.1) else mm.map (·.1) ++ [m] := by
  induction mm with
  | nil => simp [rioStep]
  | cons x r ih =>
    obtain ⟨m', c1, a1⟩ := x
    by_cases h : m' = m
    · subst h
      simp only [rioStep, if_true]
      split <;> simp
    · have h' : ¬ m = m' := fun e => h e.symm
      simp only [rioStep, h, if_false, List.map_cons, ih, List.mem_cons, h', false_or]
      split <;> simp

theorem rioStep_nodup (mm : List (String × (α × α) × α)) (m : String) (c : α × α) (a : α)
    (h : (mm.map (·.1)).Nodup) : ((rioStep mm m c a).map (·.1)).Nodup := by
  rw [rioStep_keys]
  split
  · exact h
  · rename_i hm
    exact List.Nodup.append h (by simp) (by simpa using hm)

theorem rioStep_valid (mm : List (String × (α × α) × α)) (m : String) (c : α × α) (a : α)
    (h : ∀ k ∈ mm.map (·.1), validIdent k = true) (hm : validIdent m = true) :
    ∀ k ∈ (rioStep mm m c a).map (·.1), validIdent k = true := by
  rw [rioStep_keys]
  split
  · exact h
  · intro k hk
    rcases List.mem_append.mp hk with hk | hk
    · exact h k hk
    · simp only [List.mem_cons, List.mem_nil_iff, or_false] at hk; rw [hk]; exact hm

theorem rioMap_keys (cells : List (Cell α)) (hv : ∀ c ∈ cells, ∀ kv ∈ c.alloc, validIdent kv.1 = true) :
    ((rioMap cells).map (·.1)).Nodup ∧ ∀ k ∈ (rioMap cells).map (·.1), validIdent k = true := by
  unfold rioMap
  suffices H : ∀ (cs : List (Cell α)) (mm : List (String × (α × α) × α)),
      (∀ c ∈ cs, ∀ kv ∈ c.alloc, validIdent kv.1 = true) →
      ((mm.map (·.1)).Nodup ∧ ∀ k ∈ mm.map (·.1), validIdent k = true) →
      let r := cs.foldl (fun mm c => c.alloc.foldl (fun mm kv =>
        rioStep mm kv.1 (c.rect.cx.val, c.rect.cy.val) (c.rect.w.val * c.rect.h.val * kv.2.val)) mm) mm
      ((r.map (·.1)).Nodup ∧ ∀ k ∈ r.map (·.1), validIdent k = true) from
    H cells [] hv (by simp)
  intro cs
  induction cs with
  | nil => intro mm _ h; exact h
  | cons c r ih =>
    intro mm hv h
    simp only [List.foldl_cons]
    apply ih _ (fun c' hc' => hv c' (List.mem_cons_of_mem _ hc'))
    have hc := hv c (by simp)
    clear ih hv
    generalize c.alloc = al at hc
    induction al generalizing mm with
    | nil => exact h
    | cons kv t iht =>
      simp only [List.foldl_cons]
      apply iht
      · exact ⟨rioStep_nodup _ _ _ _ h.1, rioStep_valid _ _ _ _ h.2 (hc kv (by simp))⟩
      · intro kv' hkv'; exact hc kv' (List.mem_cons_of_mem _ hkv')

/-- a soft module with area and centre and no rectangles. -/
def softModC (name : String) (c : α × α) (a : α) : NL.Mod α :=
  { name := name, center := some c, aspect := none, terminal := false, hard := false, fixed := false,
    flip := false, areaRegions := [("_", a)], rects := [] }

theorem parseModule_area_center (name : String) (a : α) (c : α × α) (hn : validIdent name = true) (ha : 0 < a) :
    parseModule (α := α) (.str name, .map [(.str "area", .float a), (.str "center", .seq [.float c.1, .float c.2])])
      = .ok (softModC name c a) := by
  simp [softModC, parseModule, YVal.str?, hn, mapE, classify, attrKind, nodupB, mkParam, Param.kind, parseCenter, ctor,
    foldlE, ctorStep, readRegionArea, assoc, setup, YVal.num?, Num.val, ha]

theorem rectio_parseNetlist (stog : List (NRect α) → List (NRect α)) (εA : α) (cells : List (Cell α))
    (hv : ∀ c ∈ cells, ∀ kv ∈ c.alloc, validIdent kv.1 = true)
    (hpos : ∀ e ∈ rioMap cells, 0 < e.2.2) :
    parseNetlist stog εA (rioTree cells)
      = .ok { modules := (rioMap cells).map fun e => softModC e.1 e.2.1 e.2.2, nets := [] } := by
  obtain ⟨hnd, hval⟩ := rioMap_keys cells hv
  have hmods : mapE (parseModule (α := α)) ((rioMap cells).map fun e =>
      (YVal.str e.1, YVal.map [(.str "area", .float e.2.2), (.str "center", .seq [.float e.2.1.1, .float e.2.1.2])]))
      = .ok ((rioMap cells).map fun e => softModC e.1 e.2.1 e.2.2) :=
    mapE_map_ok _ _ _ _ (fun e he =>
      parseModule_area_center e.1 e.2.2 e.2.1 (hval e.1 (List.mem_map.mpr ⟨e, he, rfl⟩)) (hpos e he))
  have hnames : ((rioMap cells).map fun e => softModC e.1 e.2.1 e.2.2).map (·.name) = (rioMap cells).map (·.1) := by
    simp [softModC, Function.comp_def]
  have hdoc := parseDoc_two (α := α) _ (.seq []) _ []
    (parseModules_of _ _ hmods (by rw [hnames]; exact hnd)) (by simp [parseEdges, mapE])
  have hfin := finish_norects stog εA ((rioMap cells).map fun e => softModC e.1 e.2.1 e.2.2) []
    (by
      intro m hm
      obtain ⟨e, _, rfl⟩ := List.mem_map.mp hm
      simp [softModC])
    (by simp)
  simp only [parseNetlist, rioTree, hdoc, hfin]


/-! ### legalfloor Model.get_netlist -/

theorem parseModule_area_rects (name : String) (a : Num α) (rs : List (Num4 α)) (hn : validIdent name = true)
    (hne : rs ≠ []) (h : ∀ r ∈ rs, r.Ok) (ha : 0 < a.val) :
    parseModule (α := α) (.str name, .map [(.str "area", YVal.ofNum a), (.str "rectangles", .seq (rs.map num4Y))])
      = .ok { name := name, center := none, aspect := none, terminal := false, hard := false, fixed := false,
              flip := false, areaRegions := [("_", a.val)], rects := rs.map (nrect false false) } := by
  have hr := parseRects_num4 false false rs hne h
  simp [parseModule, YVal.str?, hn, mapE, classify, attrKind, nodupB, mkParam, Param.kind, ctor, foldlE, ctorStep,
    readRegionArea, assoc, setup, hr, ha]

theorem parseModule_hard_first (name : String) (rs : List (Num4 α)) (hn : validIdent name = true)
    (hne : rs ≠ []) (h : ∀ r ∈ rs, r.Ok) :
    parseModule (α := α) (.str name, .map [(.str "hard", .bool true), (.str "rectangles", .seq (rs.map num4Y))])
      = .ok { name := name, center := none, aspect := none, terminal := false, hard := true, fixed := false,
              flip := false, areaRegions := [("_", sumAreas (rs.map (nrect false true)))], rects := rs.map (nrect false true) } := by
  have hr := parseRects_num4 false true rs hne h
  simp [parseModule, YVal.str?, hn, mapE, classify, attrKind, nodupB, mkParam, Param.kind, ctor, foldlE, ctorStep, assoc,
    setup, YVal.bool?, hr, hne]

theorem parseModule_fixed_first (name : String) (rs : List (Num4 α)) (hn : validIdent name = true)
    (hne : rs ≠ []) (h : ∀ r ∈ rs, r.Ok) :
    parseModule (α := α) (.str name, .map [(.str "fixed", .bool true), (.str "rectangles", .seq (rs.map num4Y))])
      = .ok { name := name, center := none, aspect := none, terminal := false, hard := true, fixed := true,
              flip := false, areaRegions := [("_", sumAreas (rs.map (nrect true true)))], rects := rs.map (nrect true true) } := by
  have hr := parseRects_num4 true true rs hne h
  simp [parseModule, YVal.str?, hn, mapE, classify, attrKind, nodupB, mkParam, Param.kind, ctor, foldlE, ctorStep, assoc,
    setup, YVal.bool?, hr, hne]

/-- the module the reader builds from a module of the legalisation model. -/
def lfModRead (m : LfMod α) : NL.Mod α :=
  if m.degree = 0 then
    { name := m.name, center := none, aspect := none, terminal := false, hard := false, fixed := false, flip := false,
      areaRegions := [("_", m.area.val)], rects := m.rects.map (nrect false false) }
  else if m.degree = 1 then
    { name := m.name, center := none, aspect := none, terminal := false, hard := true, fixed := false, flip := false,
      areaRegions := [("_", sumAreas (m.rects.map (nrect false true)))], rects := m.rects.map (nrect false true) }
  else
    { name := m.name, center := none, aspect := none, terminal := false, hard := true, fixed := true, flip := false,
      areaRegions := [("_", sumAreas (m.rects.map (nrect true true)))], rects := m.rects.map (nrect true true) }

theorem lfModRead_name (m : LfMod α) : (lfModRead m).name = m.name := by
  unfold lfModRead; split
  · rfl
  · split <;> rfl

/-- a state of the legalisation model that is a solution for a netlist: every module has rectangles. -/
structure LfWF (εA : α) (ms : List (LfMod α)) (hyper : List (Num α × List Nat)) : Prop where
  names_valid : ∀ m ∈ ms, validIdent m.name = true
  names_nodup : (ms.map (·.name)).Nodup
  rects : ∀ m ∈ ms, m.rects ≠ [] ∧ (∀ r ∈ m.rects, Num4.Ok r) ∧ (m.degree = 0 → 0 < m.area.val) ∧
    (m.degree = 1 → noOverlap εA (m.rects.map (nrect false true)) = true) ∧
    (m.degree ≠ 0 → m.degree ≠ 1 → noOverlap εA (m.rects.map (nrect true true)) = true)
  hyper : ∀ e ∈ hyper, 2 ≤ e.2.length ∧ (∀ i ∈ e.2, i < ms.length) ∧ 0 < e.1.val

theorem lfMember_mem (names : List String) (i : Nat) (h : i < names.length) : lfMember names i ∈ names := by
  simp only [lfMember, List.getElem?_eq_getElem h]
  exact List.getElem_mem h

theorem legal_parseNetlist (stog : List (NRect α) → List (NRect α)) (εA : α) (ms : List (LfMod α))
    (hyper : List (Num α × List Nat)) (h : LfWF εA ms hyper) :
    parseNetlist stog εA (lfTree ms hyper)
      = .ok { modules := (ms.map lfModRead).map (post stog),
              nets := hyper.map fun e => neNet (e.2.map (lfMember (ms.map (·.name)))) e.1 } := by
  have hmods : mapE (parseModule (α := α)) (ms.map fun m => (YVal.str m.name, lfModInfo m)) = .ok (ms.map lfModRead) :=
    mapE_map_ok _ _ _ _ (fun m hm => by
      obtain ⟨r1, r2, r3, _, _⟩ := h.rects m hm
      have hn := h.names_valid m hm
      unfold lfModInfo lfModRead
      by_cases h0 : m.degree = 0
      · simp only [h0, if_true]
        exact parseModule_area_rects _ _ _ hn r1 r2 (r3 h0)
      · by_cases h1 : m.degree = 1
        · simp only [h0, h1, if_true, if_false]
          exact parseModule_hard_first _ _ hn r1 r2
        · simp only [h0, h1, if_false]
          exact parseModule_fixed_first _ _ hn r1 r2)
  have hnames : (ms.map lfModRead).map (·.name) = ms.map (·.name) := by
    simp [Function.comp_def, lfModRead_name]
  have hedges : parseEdges (α := α) (.seq (hyper.map fun e =>
      .seq ((e.2.map fun m => YVal.str (lfMember (ms.map (·.name)) m)) ++ (if weightIsOne e.1 then [] else [YVal.ofNum e.1]))))
      = .ok (hyper.map fun e => neNet (e.2.map (lfMember (ms.map (·.name)))) e.1) := by
    simp only [parseEdges]
    exact mapE_map_ok _ _ _ _ (fun e he => by
      have := parseEdge_named (α := α) (e.2.map (lfMember (ms.map (·.name)))) e.1 (by simpa using (h.hyper e he).1)
      simpa [Function.comp_def] using this)
  have hdoc := parseDoc_two (α := α) _ _ _ _
    (parseModules_of _ _ hmods (by rw [hnames]; exact h.names_nodup)) hedges
  have hfin := finish_ok stog εA (ms.map lfModRead) (hyper.map fun e => neNet (e.2.map (lfMember (ms.map (·.name)))) e.1)
    (by
      intro x hx
      obtain ⟨m, hm, rfl⟩ := List.mem_map.mp hx
      obtain ⟨r1, r2, r3, r4, r5⟩ := h.rects m hm
      unfold lfModRead
      by_cases h0 : m.degree = 0
      · simp only [h0, if_true]
        exact ⟨by simp, fun hh => by simp at hh, fun hh => by simp at hh⟩
      · by_cases h1 : m.degree = 1
        · simp only [h0, h1, if_true, if_false]
          exact ⟨by simp, fun _ => Or.inr (by simpa using r1), fun _ _ => r4 h1⟩
        · simp only [h0, h1, if_false]
          exact ⟨by simp, fun _ => Or.inr (by simpa using r1), fun _ _ => r5 h0 h1⟩)
    (by
      intro x hx
      obtain ⟨e, he, rfl⟩ := List.mem_map.mp hx
      rw [hnames]
      refine ⟨?_, (h.hyper e he).2.2⟩
      intro s hs
      simp only [neNet, List.mem_map] at hs
      obtain ⟨i, hi, rfl⟩ := hs
      exact lfMember_mem _ _ (by simpa using (h.hyper e he).2.1 i hi))
  simp only [parseNetlist, lfTree, hdoc, hfin]


/-! ### rect_io.solution_to_netlist -/

def RegsOk (regs : List (String × α)) : Prop :=
  (regs.map (·.1)).Nodup ∧ ∀ p ∈ regs, validIdent p.1 = true ∧ 0 < p.2

theorem readRegionArea_regions (regs : List (String × α)) (h : RegsOk regs) :
    readRegionArea (regionsY regs) = .ok regs := by
  have hm : mapE (readRegion (α := α)) (regs.map fun p => (YVal.str p.1, YVal.float p.2)) = .ok regs := by
    have := mapE_map_ok (readRegion (α := α)) (fun p : String × α => (YVal.str p.1, YVal.float p.2)) id regs (by
      intro p hp
      obtain ⟨h1, h2⟩ := h.2 p hp
      simp [readRegion, YVal.str?, YVal.num?, Num.val, h1, h2])
    simpa using this
  simp [readRegionArea, regionsY, YVal.num?, hm, nodupB_of_nodup _ h.1]

theorem readRegionArea_float (a : α) (h : 0 < a) : readRegionArea (.float a) = .ok [("_", a)] := by
  simp [readRegionArea, YVal.num?, Num.val, h]

/-- `area:` value of `solution_to_netlist` and what the reader makes of it. -/
theorem parseModule_sol_soft_rects (name : String) (rs : List (Num4 α)) (av : YVal α) (regs : List (String × α))
    (hn : validIdent name = true) (hne : rs ≠ []) (h : ∀ r ∈ rs, r.Ok) (hregs : regs ≠ [])
    (ha : readRegionArea av = .ok regs) :
    parseModule (α := α) (.str name, .map [(.str "rectangles", .seq (rs.map num4Y)), (.str "area", av)])
      = .ok { name := name, center := none, aspect := none, terminal := false, hard := false, fixed := false,
              flip := false, areaRegions := regs, rects := rs.map (nrect false false) } := by
  have hr := parseRects_num4 false false rs hne h
  simp [parseModule, YVal.str?, hn, mapE, classify, attrKind, nodupB, mkParam, Param.kind, ctor, foldlE, ctorStep,
    assoc, setup, hr, ha, hregs]

theorem parseModule_sol_soft_center (name : String) (c : α × α) (av : YVal α) (regs : List (String × α))
    (hn : validIdent name = true) (hregs : regs ≠ []) (ha : readRegionArea av = .ok regs) :
    parseModule (α := α) (.str name, .map [(.str "center", .seq [.float c.1, .float c.2]), (.str "area", av)])
      = .ok { name := name, center := some c, aspect := none, terminal := false, hard := false, fixed := false,
              flip := false, areaRegions := regs, rects := [] } := by
  simp [parseModule, YVal.str?, hn, mapE, classify, attrKind, nodupB, mkParam, Param.kind, parseCenter, ctor, foldlE,
    ctorStep, assoc, setup, YVal.num?, Num.val, ha, hregs]

theorem parseModule_fixed_terminal (name : String) (c : α × α) (hn : validIdent name = true) :
    parseModule (α := α) (.str name, .map [(.str "center", .seq [.float c.1, .float c.2]), (.str "fixed", .bool true),
        (.str "terminal", .bool true)])
      = .ok { name := name, center := some c, aspect := none, terminal := true, hard := true, fixed := true,
              flip := false, areaRegions := [("_", sumAreas [])], rects := [] } := by
  simp [parseModule, YVal.str?, hn, mapE, classify, attrKind, nodupB, mkParam, Param.kind, parseCenter, ctor, foldlE,
    ctorStep, assoc, setup, YVal.num?, Num.val, YVal.bool?]


/-- … and the per-region areas the reader gets from it. -/
def solAreaRead (m : SolMod α) : List (String × α) :=
  match m.areaRegions with
  | [(r, _)] => if r = "_" then [("_", m.area)] else m.areaRegions
  | _ => m.areaRegions

def SolAreaOk (m : SolMod α) : Prop :=
  m.areaRegions ≠ [] ∧
  match m.areaRegions with
  | [(r, _)] => if r = "_" then 0 < m.area else RegsOk m.areaRegions
  | _ => RegsOk m.areaRegions

theorem solArea_read (m : SolMod α) (h : SolAreaOk m) :
    readRegionArea (solAreaY m) = .ok (solAreaRead m) ∧ solAreaRead m ≠ [] := by
  obtain ⟨hne, h⟩ := h
  unfold solAreaY solAreaRead
  rcases hr : m.areaRegions with _ | ⟨⟨r, a⟩, _ | ⟨y, ys⟩⟩
  · exact absurd hr hne
  · rw [hr] at h
    simp only at h ⊢
    by_cases hr' : r = "_"
    · simp only [hr', if_true] at h ⊢
      exact ⟨readRegionArea_float _ h, by simp⟩
    · simp only [hr', if_false] at h ⊢
      exact ⟨readRegionArea_regions _ h, by simp⟩
  · rw [hr] at h
    simp only at h ⊢
    exact ⟨readRegionArea_regions _ h, by simp⟩

/-- the module the reader builds from a module of `solution_to_netlist`. -/
def solModRead (m : SolMod α) : NL.Mod α :=
  match m.shape with
  | .center c =>
    if m.terminal then
      { name := m.name, center := some c, aspect := none, terminal := true, hard := true, fixed := m.fixed,
        flip := false, areaRegions := [("_", sumAreas [])], rects := [] }
    else
      { name := m.name, center := some c, aspect := none, terminal := false, hard := false, fixed := false,
        flip := false, areaRegions := solAreaRead m, rects := [] }
  | .result rs | .rects rs =>
    if m.hard then
      { name := m.name, center := none, aspect := none, terminal := false, hard := true, fixed := m.fixed,
        flip := false, areaRegions := [("_", sumAreas (rs.map (nrect m.fixed true)))], rects := rs.map (nrect m.fixed true) }
    else
      { name := m.name, center := none, aspect := none, terminal := false, hard := false, fixed := false,
        flip := false, areaRegions := solAreaRead m, rects := rs.map (nrect false false) }

theorem solModRead_name (m : SolMod α) : (solModRead m).name = m.name := by
  unfold solModRead
  split
  · split <;> rfl
  · split <;> rfl
  · split <;> rfl

/-- a module of a netlist the reader accepted, together with a result of the normalisation stage. -/
def SolMod.WF (εA : α) (m : SolMod α) : Prop :=
  validIdent m.name = true ∧
  match m.shape, m.hard, m.fixed, m.terminal with
  | .center _, true, _, true => True
  | .center _, false, false, false => SolAreaOk m
  | .result rs, false, false, false => rs ≠ [] ∧ (∀ r ∈ rs, Num4.Ok r) ∧ SolAreaOk m
  | .rects rs, false, false, false => rs ≠ [] ∧ (∀ r ∈ rs, Num4.Ok r) ∧ SolAreaOk m
  | .result rs, true, fx, false => rs ≠ [] ∧ (∀ r ∈ rs, Num4.Ok r) ∧ noOverlap εA (rs.map (nrect fx true)) = true
  | .rects rs, true, fx, false => rs ≠ [] ∧ (∀ r ∈ rs, Num4.Ok r) ∧ noOverlap εA (rs.map (nrect fx true)) = true
  | _, _, _, _ => False

theorem parse_solMod (εA : α) (m : SolMod α) (h : m.WF εA) :
    parseModule (α := α) (.str m.name, solModInfo m) = .ok (solModRead m) := by
  obtain ⟨hn, h⟩ := h
  unfold solModInfo solModRead
  cases hs : m.shape <;> cases hh : m.hard <;> cases hf : m.fixed <;> cases ht : m.terminal <;>
    simp only [hs, hh, hf, ht] at h <;>
    simp only [solShapeY, Bool.false_eq_true, if_false, if_true, Bool.false_and, Bool.true_and, Bool.not_true,
      Bool.not_false, List.append_nil, List.nil_append, List.cons_append]
  all_goals first
    | exact parseModule_sol_soft_rects _ _ _ _ hn h.1 h.2.1 (solArea_read m h.2.2).2 (solArea_read m h.2.2).1
    | exact parseModule_hard_rects _ _ hn h.1 h.2.1
    | exact parseModule_fixed_rects _ _ hn h.1 h.2.1
    | exact parseModule_sol_soft_center _ _ _ _ hn (solArea_read m h).2 (solArea_read m h).1
    | exact parseModule_terminal _ _ hn
    | exact parseModule_fixed_terminal _ _ hn

theorem solNetY_eq (e : List String × α) :
    solNetY e = .seq (e.1.map YVal.str ++ (if weightIsOne (Num.f e.2) then [] else [YVal.ofNum (Num.f e.2)])) := by
  simp [solNetY, weightIsOne, Num.val, YVal.ofNum]

theorem sol_parseNetlist (stog : List (NRect α) → List (NRect α)) (εA : α) (ms : List (SolMod α))
    (es : List (List String × α)) (hm : ∀ m ∈ ms, m.WF εA) (hnd : (ms.map (·.name)).Nodup)
    (he : ∀ e ∈ es, 2 ≤ e.1.length ∧ (∀ x ∈ e.1, x ∈ ms.map (·.name)) ∧ 0 < e.2) :
    parseNetlist stog εA (solTree ms es)
      = .ok { modules := (ms.map solModRead).map (post stog), nets := es.map fun e => neNet e.1 (Num.f e.2) } := by
  have hmods : mapE (parseModule (α := α)) (ms.map fun m => (YVal.str m.name, solModInfo m)) = .ok (ms.map solModRead) :=
    mapE_map_ok _ _ _ _ (fun m h => parse_solMod εA m (hm m h))
  have hnames : (ms.map solModRead).map (·.name) = ms.map (·.name) := by
    simp [Function.comp_def, solModRead_name]
  have hedges : parseEdges (α := α) (.seq (es.map solNetY)) = .ok (es.map fun e => neNet e.1 (Num.f e.2)) := by
    simp only [parseEdges]
    exact mapE_map_ok _ _ _ _ (fun e h => by
      rw [solNetY_eq]; exact parseEdge_named e.1 (Num.f e.2) (he e h).1)
  have hdoc := parseDoc_two (α := α) _ _ _ _ (parseModules_of _ _ hmods (by rw [hnames]; exact hnd)) hedges
  have hfin := finish_ok stog εA (ms.map solModRead) (es.map fun e => neNet e.1 (Num.f e.2))
    (by
      intro x hx
      obtain ⟨m, hmm, rfl⟩ := List.mem_map.mp hx
      obtain ⟨_, h⟩ := hm m hmm
      unfold solModRead
      cases hs : m.shape <;> cases hh : m.hard <;> cases hf : m.fixed <;> cases ht : m.terminal <;>
        simp only [hs, hh, hf, ht] at h <;>
        simp only [Bool.false_eq_true, if_false, if_true]
      all_goals first
        | exact ⟨by simp, fun hh' => by simp at hh', fun hh' => by simp at hh'⟩
        | exact ⟨by simp, fun _ => Or.inl (by simp), fun _ hh' => by simp at hh'⟩
        | exact ⟨by simp, fun _ => Or.inr (by simpa using h.1), fun _ _ => h.2.2⟩)
    (by
      intro x hx
      obtain ⟨e, hee, rfl⟩ := List.mem_map.mp hx
      rw [hnames]
      exact ⟨(he e hee).2.1, by simpa [neNet, Num.val] using (he e hee).2.2⟩)
  simp only [parseNetlist, solTree, hdoc, hfin]


end reader

/-! ### netgen `--add-centers` -/

section centres
variable {α : Type} [Field α] [LinearOrder α] [IsStrictOrderedRing α]

/-- `{area: a, center: c}` -/
def modInfoC (area : Num α) (c : YVal α) : YVal α := .map [(.str "area", YVal.ofNum area), (.str "center", c)]

theorem setCentre_map (l0 : List (Nat × Nat)) (g : Nat × Nat → YVal α) (rc0 : Nat × Nat) (c : YVal α) :
    setCentre (l0.map fun rc => (modName2 rc.1 rc.2, g rc)) (modName2 rc0.1 rc0.2) c
      = l0.map fun rc => (modName2 rc.1 rc.2,
          if rc = rc0 then addCentre c (g rc) else g rc) := by
  simp only [setCentre, List.map_map, Function.comp_def]
  apply List.map_congr_left
  intro rc _
  by_cases h : rc = rc0
  · subst h; simp
  · have : ¬ modName2 rc.1 rc.2 = modName2 rc0.1 rc0.2 := fun e => h (Prod.ext (modName2_inj e).1 (modName2_inj e).2)
    simp [h, this]

/-- the centre loop over distinct positions turns every visited `{area}` entry into `{area, center}`. -/
theorem centre_loop (area : Num α) (ctr : Nat × Nat → YVal α) (l0 : List (Nat × Nat)) :
    ∀ (l done : List (Nat × Nat)), (done ++ l).Nodup →
      l.foldl (fun d rc => setCentre d (modName2 rc.1 rc.2) (ctr rc))
        (l0.map fun rc => (modName2 rc.1 rc.2, if rc ∈ done then modInfoC area (ctr rc) else modInfo area))
      = l0.map fun rc => (modName2 rc.1 rc.2, if rc ∈ done ++ l then modInfoC area (ctr rc) else modInfo area)
  | [], done, _ => by simp
  | rc0 :: l, done, hnd => by
    rw [List.foldl_cons, setCentre_map]
    have hnd' : ((done ++ [rc0]) ++ l).Nodup := by simpa [List.append_assoc] using hnd
    have h0 : rc0 ∉ done := by
      have := List.nodup_append.mp hnd
      intro hm; exact this.2.2 rc0 hm rc0 (by simp) rfl
    have := centre_loop area ctr l0 l (done ++ [rc0]) hnd'
    rw [List.append_assoc, List.singleton_append] at this
    rw [← this]
    congr 1
    apply List.map_congr_left
    intro rc _
    by_cases h : rc = rc0
    · subst h
      simp [h0, modInfo, modInfoC, addCentre, yInsert, YVal.str?]
    · simp [h]

theorem genModulesCentred_eq (area : Num α) (rows columns : Nat) (W H : α) (noise : List α) :
    genModulesCentred area rows columns W H noise
      = (gridIdx rows columns).map fun rc =>
          (modName2 rc.1 rc.2, modInfoC area (gridCentreY rows columns W H noise rc)) := by
  have hnames : ((gridIdx rows columns).map fun rc => (modName2 rc.1 rc.2, modInfo area)).map (·.1)
      = gridNames rows columns := by
    rw [gridNames_eq]; simp [Function.comp_def]
  unfold genModulesCentred
  rw [dictOfList_of_nodup _ (by rw [hnames]; exact gridNames_nodup rows columns)]
  have := centre_loop area (gridCentreY rows columns W H noise) (gridIdx rows columns) (gridIdx rows columns) []
    (by simpa using gridIdx_nodup rows columns)
  simp only [List.not_mem_nil, if_false, List.nil_append] at this
  rw [this]
  apply List.map_congr_left
  intro rc h
  simp [h]


/-- the reader on a document of soft modules without rectangles (any per-module info the reader turns into such a
    module) and name-only / weighted nets. -/
theorem parseNetlist_softgen (stog : List (NRect α) → List (NRect α)) (εA : α) {ι : Type} (idx : List ι)
    (name : ι → String) (info : ι → YVal α) (md : ι → NL.Mod α) (nets : List (GEdge α))
    (hp : ∀ i ∈ idx, parseModule (α := α) (.str (name i), info i) = .ok (md i))
    (hmd : ∀ i ∈ idx, (md i).name = name i ∧ (md i).rects = [] ∧ (md i).flip = false ∧ (md i).hard = false)
    (hnd : (idx.map name).Nodup)
    (hnets : ∀ e ∈ nets, 2 ≤ e.members.length ∧ (∀ m ∈ e.members, m ∈ idx.map name) ∧
      (∀ w, e.weight = some w → (0 : α) < w.val)) :
    parseNetlist stog εA (GenOut.toY { modules := idx.map fun i => (name i, info i), nets := nets })
      = .ok { modules := idx.map md, nets := nets.map GEdge.toNet } := by
  have hmods : mapE (parseModule (α := α)) (idx.map fun i => (YVal.str (name i), info i)) = .ok (idx.map md) :=
    mapE_map_ok _ _ _ _ hp
  have hnames : (idx.map md).map (·.name) = idx.map name := by
    rw [List.map_map]; apply List.map_congr_left; intro i hi; exact (hmd i hi).1
  have hedges : mapE (parseEdge (α := α)) (nets.map GEdge.toY) = .ok (nets.map GEdge.toNet) :=
    mapE_map_ok _ _ _ _ (fun e he => parseEdge_gedge e (hnets e he).1)
  have hmap : (idx.map fun i => (name i, info i)).map (fun kv => (YVal.str (α := α) kv.1, kv.2))
      = idx.map fun i => (YVal.str (name i), info i) := by simp [Function.comp_def]
  have hdoc := parseDoc_two (α := α) (.map (idx.map fun i => (YVal.str (name i), info i))) (.seq (nets.map GEdge.toY))
    _ (nets.map GEdge.toNet) (parseModules_of _ _ hmods (by rw [hnames]; exact hnd)) (by simp [parseEdges, hedges])
  have hfin := finish_norects stog εA (idx.map md) (nets.map GEdge.toNet)
    (by
      intro m hm
      obtain ⟨i, hi, rfl⟩ := List.mem_map.mp hm
      obtain ⟨_, h2, h3, h4⟩ := hmd i hi
      exact ⟨h2, h3, fun hh => by rw [h4] at hh; exact absurd hh (by simp)⟩)
    (by
      intro x hx
      obtain ⟨e, he, rfl⟩ := List.mem_map.mp hx
      have h := hnets e he
      rw [hnames]
      refine ⟨h.2.1, ?_⟩
      unfold GEdge.toNet
      cases hwt : e.weight with
      | none => simp
      | some w => simpa using h.2.2 w hwt)
  simp only [parseNetlist, GenOut.toY, Dict.toY, hmap, hdoc, hfin]

theorem parseModule_areaNum_center (name : String) (a : Num α) (c : α × α) (hn : validIdent name = true)
    (ha : 0 < a.val) :
    parseModule (α := α) (.str name, modInfoC a (.seq [.float c.1, .float c.2])) = .ok (softModC name c a.val) := by
  have hc : parseCenter (α := α) (.seq [.float c.1, .float c.2]) = .ok c := by
    simp [parseCenter, YVal.num?, Num.val]
  simp [modInfoC, softModC, parseModule, YVal.str?, hn, mapE, classify, attrKind, nodupB, mkParam, Param.kind,
    hc, ctor, foldlE, ctorStep, readRegionArea, assoc, setup, ha]

/-- the centre of grid position `(r, c)` as a pair. -/
def gridCentre (rows columns : Nat) (W H : α) (noise : List α) (rc : Nat × Nat) : α × α :=
  (gridCentreCoord rc.2 W columns (noise.getD (2 * (rc.1 * columns + rc.2)) ((0 : Nat) : α)),
   gridCentreCoord rc.1 H rows (noise.getD (2 * (rc.1 * columns + rc.2) + 1) ((0 : Nat) : α)))

/-- without noise the coordinate is the middle of slot `k` of `count` equal slots of `[0, extent]`. -/
theorem gridCentreCoord_mid (k count : Nat) (extent : α) (hk : k < count) (he : 0 < extent) :
    gridCentreCoord k extent count ((0 : Nat) : α) = ((k : α) + 1 / 2) * extent / (count : α) ∧
    (k : α) * extent / (count : α) < gridCentreCoord k extent count ((0 : Nat) : α) ∧
    gridCentreCoord k extent count ((0 : Nat) : α) < ((k : α) + 1) * extent / (count : α) ∧
    0 < gridCentreCoord k extent count ((0 : Nat) : α) ∧ gridCentreCoord k extent count ((0 : Nat) : α) < extent := by
  have hc : (0 : α) < (count : α) := by exact_mod_cast (Nat.lt_of_le_of_lt (Nat.zero_le k) hk)
  have hkc : (k : α) + 1 ≤ (count : α) := by exact_mod_cast hk
  have hk0 : (0 : α) ≤ (k : α) := by exact_mod_cast Nat.zero_le k
  have e : gridCentreCoord k extent count ((0 : Nat) : α) = ((k : α) + 1 / 2) * extent / (count : α) := by
    simp only [gridCentreCoord, Nat.cast_zero, Nat.cast_one, Nat.cast_ofNat, add_zero]; ring
  have hq : 0 < extent / (count : α) := div_pos he hc
  refine ⟨e, ?_, ?_, ?_, ?_⟩
  · rw [e, div_lt_div_iff_of_pos_right hc]; nlinarith
  · rw [e, div_lt_div_iff_of_pos_right hc]; nlinarith
  · rw [e]; positivity
  · rw [e, div_lt_iff₀ hc]; nlinarith

end centres
end FV.Prod

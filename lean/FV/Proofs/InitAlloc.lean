import FV.Model.InitAlloc
import FV.Proofs.Geom
import Mathlib.Algebra.BigOperators.Group.List.Basic
import Mathlib.Algebra.Order.BigOperators.Group.List
import Mathlib.Tactic.Linarith
import Mathlib.Tactic.Ring
import Mathlib.Tactic.FieldSimp
import Mathlib.Tactic.Positivity
/-
  Helper lemmas for the initial-allocation model (`FV/Model/InitAlloc.lean`) over an arbitrary linearly
  ordered field (exact arithmetic).
-/
namespace FV.InitAlloc
open FV FV.Rect
set_option linter.unusedSectionVars false
set_option linter.unusedSimpArgs false
set_option linter.unusedVariables false

variable {α : Type} [Field α] [LinearOrder α] [IsStrictOrderedRing α]

@[simp] theorem zero_eq : (zero : α) = 0 := by simp [zero]
@[simp] theorem one_eq : (one : α) = 1 := by simp [one]
theorem eps6_eq : (eps6 : α) = 1 / 1000000 := by simp [eps6]
theorem eps6_pos : (0 : α) < eps6 := by rw [eps6_eq]; positivity
theorem eps6_lt_one : (eps6 : α) < 1 := by
  rw [eps6_eq, div_lt_one (by positivity)]; norm_num

@[simp] theorem isZero_iff (x : α) : isZero x = true ↔ x = 0 := by
  simp only [isZero, zero_eq, Bool.and_eq_true, decide_eq_true_eq]
  exact ⟨fun h => le_antisymm h.1 h.2, fun h => by subst h; exact ⟨le_refl _, le_refl _⟩⟩

/-! ### `sum()` is the sum (no rounding: the compensation term stays `0`) -/

theorem neumaierStep_exact (f x : α) : neumaierStep (f, (0 : α)) x = (f + x, 0) := by
  unfold neumaierStep
  split <;> (simp only [Prod.mk.injEq, true_and]; ring)

theorem foldl_neumaier_exact (xs : List α) (f : α) :
    xs.foldl neumaierStep (f, (0 : α)) = (f + xs.sum, 0) := by
  induction xs generalizing f with
  | nil => simp
  | cons x xs ih => rw [List.foldl_cons, neumaierStep_exact, ih, List.sum_cons, add_assoc]

theorem pySum_eq_sum (xs : List α) : pySum xs = xs.sum := by
  cases xs with
  | nil => simp [pySum]
  | cons x xs =>
    simp only [pySum, zero_eq, foldl_neumaier_exact, List.sum_cons, zero_add]
    simp

/-- `Σ_r areaOverlap c r`: the area of `c` covered by the rectangles `rs`, counted with multiplicity. -/
def overlapSum (c : Rect α) (rs : List (Rect α)) : α := (rs.map fun r => c.areaOverlap r).sum

theorem overlapSum_nil (c : Rect α) : overlapSum c [] = 0 := by simp [overlapSum]
theorem overlapSum_cons (c r : Rect α) (rs : List (Rect α)) :
    overlapSum c (r :: rs) = c.areaOverlap r + overlapSum c rs := by simp [overlapSum]

theorem areaOverlap_nonneg' (a b : Rect α) : 0 ≤ a.areaOverlap b := by
  rw [areaOverlap_eq]; exact mul_nonneg (ovLen_nonneg ..) (ovLen_nonneg ..)

theorem overlapSum_nonneg (c : Rect α) (rs : List (Rect α)) : 0 ≤ overlapSum c rs := by
  induction rs with
  | nil => simp [overlapSum]
  | cons r rs ih => rw [overlapSum_cons]; exact add_nonneg (areaOverlap_nonneg' c r) ih

theorem ratioIn_eq (c : Rect α) (rs : List (Rect α)) : ratioIn c rs = overlapSum c rs / c.area := by
  unfold ratioIn overlapSum
  rw [pySum_eq_sum]
  induction rs with
  | nil => simp
  | cons r rs ih => simp only [List.map_cons, List.sum_cons, ih, add_div]

/-- the ratio is positive iff some rectangle of the module overlaps the cell. -/
theorem overlapSum_pos_iff (c : Rect α) (rs : List (Rect α)) :
    0 < overlapSum c rs ↔ ∃ r ∈ rs, 0 < c.areaOverlap r := by
  induction rs with
  | nil => simp [overlapSum]
  | cons r rs ih =>
    rw [overlapSum_cons]
    have h1 := areaOverlap_nonneg' c r
    have h2 := overlapSum_nonneg c rs
    constructor
    · intro h
      by_cases hr : 0 < c.areaOverlap r
      · exact ⟨r, List.mem_cons_self, hr⟩
      · have : 0 < overlapSum c rs := by linarith [not_lt.mp hr]
        obtain ⟨s, hs, hp⟩ := ih.mp this
        exact ⟨s, List.mem_cons_of_mem _ hs, hp⟩
    · rintro ⟨s, hs, hp⟩
      rcases List.mem_cons.mp hs with rfl | hs
      · linarith
      · have := ih.mpr ⟨s, hs, hp⟩; linarith

theorem clampOne_of_le (a : α) (h : a ≤ 1) : clampOne a = a := by
  unfold clampOne; simp only [one_eq]; rw [if_neg]; intro hc; exact absurd hc.1 (not_lt.mpr h)

/-! ### squares -/

/-- the shape the allocation uses for a module: its rectangles, or — for a rectangle-less module with a
    centre — the square of side `sqrt(area)` around the centre. -/
def shapeOf (sqrt : α → α) (m : Module α) : List (Rect α) :=
  if m.rects.isEmpty then
    match m.center with
    | some (cx, cy) => [{ cx := cx, cy := cy, w := sqrt m.area, h := sqrt m.area }]
    | none => []
  else m.rects

theorem shapeOf_of_rects (sqrt : α → α) (m : Module α) (h : m.rects ≠ []) : shapeOf sqrt m = m.rects := by
  unfold shapeOf
  cases hr : m.rects with
  | nil => exact absurd hr h
  | cons r rs => simp

theorem createSquare_ok (sqrt : α → α) (m m' : Module α) (hm : m.rects = [])
    (h : createSquare sqrt m = .ok m') :
    m' = { m with rects := shapeOf sqrt m } ∧ ∃ cx cy, m.center = some (cx, cy) ∧
      0 ≤ m.area ∧ 0 < sqrt m.area := by
  unfold createSquare at h
  cases hc : m.center with
  | none => rw [hc] at h; simp at h
  | some p =>
    obtain ⟨cx, cy⟩ := p
    rw [hc] at h
    simp only [zero_eq] at h
    split at h
    · simp at h
    · rename_i h1
      split at h
      · simp at h
      · rename_i h2
        simp only [Except.ok.injEq] at h
        refine ⟨?_, cx, cy, rfl, not_not.mp h1, not_not.mp h2⟩
        rw [← h]; simp [shapeOf, hm, hc]

/-- the netlist after `create_squares`. -/
def squared (sqrt : α → α) (mods : List (Module α)) : List (Module α) :=
  mods.map fun m => { m with rects := shapeOf sqrt m }

theorem createSquares_ok (sqrt : α → α) (mods mods' : List (Module α))
    (h : createSquares sqrt mods = .ok mods') :
    mods' = squared sqrt mods ∧ ∀ m ∈ mods, m.rects = [] → ∃ cx cy, m.center = some (cx, cy) ∧
      0 ≤ m.area ∧ 0 < sqrt m.area := by
  induction mods generalizing mods' with
  | nil => simp [createSquares] at h; subst h; simp [squared]
  | cons m ms ih =>
    unfold createSquares at h
    by_cases hm : m.rects = []
    · simp only [hm, List.isEmpty_nil, ↓reduceIte] at h
      cases h1 : createSquare sqrt m with
      | error e => rw [h1] at h; simp at h
      | ok m1 =>
        rw [h1] at h
        cases h2 : createSquares sqrt ms with
        | error e => rw [h2] at h; simp at h
        | ok ms1 =>
          rw [h2] at h
          simp only [Except.ok.injEq] at h
          obtain ⟨e1, w1⟩ := createSquare_ok sqrt m m1 hm h1
          obtain ⟨e2, w2⟩ := ih ms1 h2
          refine ⟨?_, ?_⟩
          · rw [← h, e1, e2]; simp [squared]
          · intro x hx
            rcases List.mem_cons.mp hx with rfl | hx
            · intro _; exact w1
            · exact w2 x hx
    · have hne : m.rects.isEmpty = false := by
        cases hr : m.rects with
        | nil => exact absurd hr hm
        | cons r rs => rfl
      simp only [hne, Bool.false_eq_true, ↓reduceIte] at h
      cases h2 : createSquares sqrt ms with
      | error e => rw [h2] at h; simp at h
      | ok ms1 =>
        rw [h2] at h
        simp only [Except.ok.injEq] at h
        obtain ⟨e2, w2⟩ := ih ms1 h2
        refine ⟨?_, ?_⟩
        · rw [← h, e2]; simp [squared, shapeOf_of_rects sqrt m hm]
        · intro x hx
          rcases List.mem_cons.mp hx with rfl | hx
          · intro hc; exact absurd hc hm
          · exact w2 x hx

theorem mem_squared (sqrt : α → α) (mods : List (Module α)) (m' : Module α) :
    m' ∈ squared sqrt mods ↔ ∃ m ∈ mods, m' = { m with rects := shapeOf sqrt m } := by
  simp only [squared, List.mem_map]
  constructor
  · rintro ⟨m, hm, rfl⟩; exact ⟨m, hm, rfl⟩
  · rintro ⟨m, hm, rfl⟩; exact ⟨m, hm, rfl⟩

theorem squared_names (sqrt : α → α) (mods : List (Module α)) :
    (squared sqrt mods).map (·.name) = mods.map (·.name) := by
  simp [squared, List.map_map, Function.comp_def]

/-! ### the ratio dictionary of a non-fixed cell -/

/-- the value `initial_allocation` computes for a module in a cell. -/
def ratioOf (c : Rect α) (m : Module α) : α := clampOne (ratioIn c m.rects)

theorem allocOf_foldl (iz : Bool) (c : Rect α) (mods : List (Module α)) (d : List (String × α))
    (hd : ∀ m ∈ mods, ∀ p ∈ d, p.1 ≠ m.name) (hn : (mods.map (·.name)).Nodup) :
    mods.foldl (fun d m =>
      let a := clampOne (ratioIn c m.rects)
      if iz || decide (zero < a) then dictSet d m.name a else d) d
    = d ++ mods.filterMap (fun m => if iz || decide (0 < ratioOf c m) then some (m.name, ratioOf c m) else none) := by
  induction mods generalizing d with
  | nil => simp
  | cons m ms ih =>
    simp only [List.foldl_cons, List.filterMap_cons]
    have hfresh : (d.any fun p => p.1 == m.name) = false := by
      rw [List.any_eq_false]
      intro p hp
      simpa using hd m List.mem_cons_self p hp
    rw [List.map_cons, List.nodup_cons] at hn
    by_cases hcond : (iz || decide (0 < ratioOf c m)) = true
    · have hcond' : (iz || decide (zero < clampOne (ratioIn c m.rects))) = true := by
        simp only [ratioOf, zero_eq] at hcond ⊢; exact hcond
      simp only [hcond', ↓reduceIte, hcond]
      rw [dictSet, hfresh]
      simp only [Bool.false_eq_true, ↓reduceIte]
      rw [ih]
      · simp [ratioOf]
      · intro x hx p hp
        rcases List.mem_append.mp hp with hp | hp
        · exact hd x (List.mem_cons_of_mem _ hx) p hp
        · simp only [List.mem_singleton] at hp
          subst hp
          intro he
          exact hn.1 (by simp only [List.mem_map]; exact ⟨x, hx, he.symm⟩)
      · exact hn.2
    · have hcond' : ¬ (iz || decide (zero < clampOne (ratioIn c m.rects))) = true := by
        simp only [ratioOf, zero_eq] at hcond ⊢; exact hcond
      simp only [hcond', hcond, Bool.false_eq_true, ↓reduceIte]
      rw [ih]
      · intro x hx p hp; exact hd x (List.mem_cons_of_mem _ hx) p hp
      · exact hn.2

theorem allocOf_eq (iz : Bool) (c : Rect α) (mods : List (Module α)) (hn : (mods.map (·.name)).Nodup) :
    allocOf iz c mods =
      mods.filterMap (fun m => if iz || decide (0 < ratioOf c m) then some (m.name, ratioOf c m) else none) := by
  unfold allocOf
  rw [allocOf_foldl iz c mods [] (by simp) hn]; simp

/-- what a non-fixed cell lists for a module of the netlist. -/
theorem allocOf_lookup (iz : Bool) (c : Rect α) (mods : List (Module α)) (hn : (mods.map (·.name)).Nodup)
    (m : Module α) (hm : m ∈ mods) :
    (allocOf iz c mods).lookup m.name =
      if iz || decide (0 < ratioOf c m) then some (ratioOf c m) else none := by
  rw [allocOf_eq iz c mods hn]
  induction mods with
  | nil => simp at hm
  | cons x xs ih =>
    rw [List.map_cons, List.nodup_cons] at hn
    simp only [List.filterMap_cons]
    rcases List.mem_cons.mp hm with rfl | hm'
    · by_cases hc : (iz || decide (0 < ratioOf c m)) = true
      · simp only [hc, ↓reduceIte, List.lookup_cons_self]
      · simp only [hc, Bool.false_eq_true, ↓reduceIte]
        rw [List.lookup_eq_none_iff.mpr]
        intro p hp
        simp only [List.mem_filterMap] at hp
        obtain ⟨y, hy, hp⟩ := hp
        split at hp
        · simp only [Option.some.injEq] at hp; subst hp
          simp only [bne_iff_ne, ne_eq]
          intro he; exact hn.1 (by simp only [List.mem_map]; exact ⟨y, hy, he.symm⟩)
        · simp at hp
    · have hne : m.name ≠ x.name := by
        intro he; exact hn.1 (by simp only [List.mem_map]; exact ⟨m, hm', he⟩)
      by_cases hc : (iz || decide (0 < ratioOf c x)) = true
      · simp only [hc, ↓reduceIte]
        rw [List.lookup_cons, show (m.name == x.name) = false by simpa using hne]
        exact ih hn.2 hm'
      · simp only [hc, Bool.false_eq_true, ↓reduceIte]
        exact ih hn.2 hm'

/-- every key of the dictionary is the name of a module of the netlist. -/
theorem allocOf_keys (iz : Bool) (c : Rect α) (mods : List (Module α)) (hn : (mods.map (·.name)).Nodup)
    (p : String × α) (hp : p ∈ allocOf iz c mods) : ∃ m ∈ mods, p = (m.name, ratioOf c m) ∧
      (iz = true ∨ 0 < ratioOf c m) := by
  rw [allocOf_eq iz c mods hn] at hp
  simp only [List.mem_filterMap] at hp
  obtain ⟨m, hm, hp⟩ := hp
  split at hp
  · rename_i hc
    simp only [Option.some.injEq] at hp
    refine ⟨m, hm, hp.symm, ?_⟩
    simpa using hc
  · simp at hp

/-! ### detection of the fixed cells -/

/-- the fixed modules that own a rectangle: ratio above `1 - 1e-6`. -/
def owners (fm : List (Module α)) (r : Rect α) : List String :=
  (fm.filter fun m => decide (1 - eps6 < ratioIn r m.rects)).map (·.name)

/-- a cell after `_detect_fixed_rectangles`: flagged when it has an owner. -/
def flagged (fm : List (Module α)) (c : Cell α) : Cell α :=
  { c with rect := if (owners fm c.rect).isEmpty then c.rect else { c.rect with fixed := true } }

/-- the assertion of `_detect_fixed_rectangles` for one cell and one fixed module. -/
def AllOrNothing (r : Rect α) (m : Module α) : Prop :=
  ratioIn r m.rects < eps6 ∨ (1 - eps6 < ratioIn r m.rects ∧ ratioIn r m.rects < 1 + eps6)

theorem detectCell_ok (c : Rect α) (fm : List (Module α)) (names : List String)
    (h : detectCell c fm = .ok names) : names = owners fm c ∧ ∀ m ∈ fm, AllOrNothing c m := by
  induction fm generalizing names with
  | nil => simp [detectCell] at h; subst h; simp [owners]
  | cons m ms ih =>
    unfold detectCell at h
    simp only [one_eq] at h
    split at h
    · rename_i hc
      cases h1 : detectCell c ms with
      | error e => rw [h1] at h; simp at h
      | ok l =>
        rw [h1] at h
        simp only [Except.ok.injEq] at h
        obtain ⟨e, w⟩ := ih l h1
        refine ⟨?_, ?_⟩
        · rw [← h, e]
          unfold owners
          by_cases hb : 1 - eps6 < ratioIn c m.rects
          · simp [hb, List.filter_cons]
          · simp [hb, List.filter_cons]
        · intro x hx
          rcases List.mem_cons.mp hx with rfl | hx
          · exact hc
          · exact w x hx
    · simp at h

theorem detectLoop_ok (fm : List (Module α)) (cells cells' : List (Cell α)) (fr : List (Rect α × String))
    (h : detectLoop fm cells = .ok (cells', fr)) :
    cells' = cells.map (flagged fm) ∧
    fr = cells.flatMap (fun c => (owners fm c.rect).map fun n => ((flagged fm c).rect, n)) ∧
    ∀ c ∈ cells, ∀ m ∈ fm, AllOrNothing c.rect m := by
  induction cells generalizing cells' fr with
  | nil => simp [detectLoop] at h; obtain ⟨rfl, rfl⟩ := h; simp
  | cons c cs ih =>
    unfold detectLoop at h
    cases h1 : detectCell c.rect fm with
    | error e => rw [h1] at h; simp at h
    | ok names =>
      rw [h1] at h
      simp only at h
      cases h2 : detectLoop fm cs with
      | error e => rw [h2] at h; simp at h
      | ok q =>
        obtain ⟨cs', fr'⟩ := q
        rw [h2] at h
        simp only [Except.ok.injEq, Prod.mk.injEq] at h
        obtain ⟨e1, w1⟩ := detectCell_ok c.rect fm names h1
        obtain ⟨e2, e3, w2⟩ := ih cs' fr' h2
        subst e1
        refine ⟨?_, ?_, ?_⟩
        · rw [← h.1, e2]; simp [flagged]
        · rw [← h.2, e3]; simp [flagged]
        · intro x hx
          rcases List.mem_cons.mp hx with rfl | hx
          · exact w1
          · exact w2 x hx

theorem detectFixed_ok (mods : List (Module α)) (cells cells' : List (Cell α)) (fr : List (Rect α × String))
    (h : detectFixed mods cells = .ok (cells', fr)) :
    cells' = cells.map (flagged (mods.filter (·.fixed))) ∧
    fr = cells.flatMap (fun c => (owners (mods.filter (·.fixed)) c.rect).map fun n =>
      ((flagged (mods.filter (·.fixed)) c).rect, n)) ∧
    (∀ c ∈ cells, ∀ m ∈ mods.filter (·.fixed), AllOrNothing c.rect m) ∧
    (∀ m ∈ mods.filter (·.fixed), m.rects.length = (fr.filter fun p => p.2 == m.name).length) := by
  unfold detectFixed at h
  simp only at h
  cases h1 : detectLoop (mods.filter (·.fixed)) cells with
  | error e => rw [h1] at h; simp at h
  | ok q =>
    obtain ⟨cs', fr'⟩ := q
    rw [h1] at h
    simp only at h
    split at h
    · rename_i hc
      simp only [Except.ok.injEq, Prod.mk.injEq] at h
      obtain ⟨rfl, rfl⟩ := h
      obtain ⟨e1, e2, w⟩ := detectLoop_ok _ cells cs' fr' h1
      refine ⟨e1, e2, w, ?_⟩
      intro m hm
      have := List.all_eq_true.mp hc m hm
      simpa using this
    · simp at h

/-! ### the `Allocation` constructor -/

theorem mkAllocation_ok (εA : α) (cells : List (Cell α)) (A : Allocation α)
    (h : mkAllocation εA cells = .ok A) :
    A.cells = cells ∧ ratiosValid cells = true ∧ boundingBox cells = .ok A.bbox ∧
    noOverlap εA cells = true ∧ areasAndCenters cells (moduleOrder cells) = .ok A.stats := by
  unfold mkAllocation at h
  split at h
  · simp at h
  · rename_i h1
    cases h2 : boundingBox cells with
    | error e => rw [h2] at h; simp at h
    | ok bb =>
      rw [h2] at h
      simp only at h
      split at h
      · simp at h
      · rename_i h3
        cases h4 : areasAndCenters cells (moduleOrder cells) with
        | error e => rw [h4] at h; simp at h
        | ok st =>
          rw [h4] at h
          simp only [Except.ok.injEq] at h
          subst h
          exact ⟨rfl, by simpa using h1, rfl, by simpa using h3, rfl⟩

/-- the area `_calculate_areas_and_centers` accumulates for module name `n`: `Σ ratio · area` over the cells
    that list it. -/
def allocatedSum (cells : List (Cell α)) (n : String) : α :=
  (cells.map fun c => match c.alloc.lookup n with | none => 0 | some occ => occ * c.rect.area).sum

theorem accumulate_fst (cells : List (Cell α)) (n : String) :
    (accumulate cells n).1 = allocatedSum cells n := by
  unfold accumulate allocatedSum
  have key : ∀ (cs : List (Cell α)) (acc : α × α × α),
      (cs.foldl (fun (acc : α × α × α) c =>
        match c.alloc.lookup n with
        | none => acc
        | some occ =>
          let ratio := occ * c.rect.area
          (acc.1 + ratio, acc.2.1 + c.rect.cx * ratio, acc.2.2 + c.rect.cy * ratio)) acc).1 =
      acc.1 + (cs.map fun c => match c.alloc.lookup n with | none => 0 | some occ => occ * c.rect.area).sum := by
    intro cs
    induction cs with
    | nil => intro acc; simp
    | cons c cs ih =>
      intro acc
      rw [List.foldl_cons, ih, List.map_cons, List.sum_cons]
      cases hl : c.alloc.lookup n with
      | none => simp
      | some occ => simp only; ring
  have h := key cells (zero, zero, zero)
  rw [show ((zero : α), (zero : α), (zero : α)).1 = 0 from zero_eq, zero_add] at h
  exact h

theorem areasAndCenters_ok (cells : List (Cell α)) (ms : List String) (st : List (String × α × α × α))
    (h : areasAndCenters cells ms = .ok st) :
    st.map (·.1) = ms ∧ ∀ e ∈ st, e.2.1 = allocatedSum cells e.1 ∧ e.2.1 ≠ 0 := by
  induction ms generalizing st with
  | nil => simp [areasAndCenters] at h; subst h; simp
  | cons m ms ih =>
    unfold areasAndCenters at h
    simp only at h
    split at h
    · simp at h
    · rename_i hz
      cases h1 : areasAndCenters cells ms with
      | error e => rw [h1] at h; simp at h
      | ok l =>
        rw [h1] at h
        simp only [Except.ok.injEq] at h
        obtain ⟨e1, w⟩ := ih l h1
        subst h
        refine ⟨by simp [e1], ?_⟩
        intro e he
        rcases List.mem_cons.mp he with rfl | he
        · simp only
          rw [← accumulate_fst]
          refine ⟨rfl, ?_⟩
          intro hc; exact hz ((isZero_iff _).mpr hc)
        · exact w e he

theorem mem_moduleOrder (cells : List (Cell α)) (n : String) :
    n ∈ moduleOrder cells ↔ ∃ c ∈ cells, ∃ p ∈ c.alloc, p.1 = n := by
  unfold moduleOrder
  have key : ∀ (l acc : List String),
      n ∈ l.foldl (fun acc n => if acc.contains n then acc else acc ++ [n]) acc ↔ n ∈ acc ∨ n ∈ l := by
    intro l
    induction l with
    | nil => intro acc; simp
    | cons x xs ih =>
      intro acc
      rw [List.foldl_cons, ih]
      by_cases hx : acc.contains x = true
      · simp only [hx, ↓reduceIte, List.mem_cons]
        constructor
        · rintro (h | h); exact Or.inl h; exact Or.inr (Or.inr h)
        · rintro (h | h | h)
          · exact Or.inl h
          · subst h; exact Or.inl (by simpa using hx)
          · exact Or.inr h
      · simp only [hx, Bool.false_eq_true, ↓reduceIte, List.mem_append, List.mem_singleton, List.mem_cons]
        tauto
  rw [key]
  simp only [List.not_mem_nil, false_or, List.mem_flatMap, List.mem_map]

/-! ### the whole of `create_initial_allocation` -/

/-- the allocation `create_initial_allocation` starts from. -/
def cells0 (refinable fixed : List (Rect α)) : List (Cell α) :=
  (refinable ++ fixed).map fun r => (⟨r, [], 0⟩ : Cell α)

/-- the pre-allocated fixed cells. -/
def preCells (fm : List (Module α)) (cells : List (Cell α)) : List (Cell α) :=
  cells.flatMap fun c => (owners fm c.rect).map fun n => (⟨(flagged fm c).rect, [(n, 1)], 0⟩ : Cell α)

/-- the remaining cells with their ratio dictionaries. -/
def restCells (iz : Bool) (mods' fm : List (Module α)) (cells : List (Cell α)) : List (Cell α) :=
  ((cells.map (flagged fm)).filter fun c => !c.rect.fixed).map fun c =>
    (⟨c.rect, allocOf iz c.rect mods', c.depth⟩ : Cell α)

/-- the fixed modules of the netlist after `create_squares`. -/
def fixedMods (sqrt : α → α) (mods : List (Module α)) : List (Module α) :=
  (squared sqrt mods).filter (·.fixed)

theorem cia_ok (sqrt : α → α) (εA : α) (iz : Bool) (mods : List (Module α)) (refinable fixed : List (Rect α))
    (A : Allocation α) (h : createInitialAllocation sqrt εA iz mods refinable fixed = .ok A) :
    (∀ m ∈ mods, m.rects = [] → ∃ cx cy, m.center = some (cx, cy) ∧ 0 ≤ m.area ∧ 0 < sqrt m.area) ∧
    A.cells = preCells (fixedMods sqrt mods) (cells0 refinable fixed) ++
      restCells iz (squared sqrt mods) (fixedMods sqrt mods) (cells0 refinable fixed) ∧
    mkAllocation εA A.cells = .ok A ∧
    (∀ c ∈ cells0 refinable fixed, ∀ m ∈ fixedMods sqrt mods, AllOrNothing c.rect m) ∧
    (∀ m ∈ fixedMods sqrt mods, m.rects.length =
      ((preCells (fixedMods sqrt mods) (cells0 refinable fixed)).filter fun c => c.alloc.lookup m.name |>.isSome).length) ∧
    noOverlap εA (cells0 refinable fixed) = true := by
  unfold createInitialAllocation at h
  cases h0 : mkAllocation εA ((refinable ++ fixed).map fun r => (⟨r, [], 0⟩ : Cell α)) with
  | error e => rw [h0] at h; simp at h
  | ok A0 =>
    rw [h0] at h
    simp only at h
    obtain ⟨a1, _, _, a4, _⟩ := mkAllocation_ok εA _ A0 h0
    rw [a1] at h
    unfold initialAllocation at h
    cases h1 : createSquares sqrt mods with
    | error e => rw [h1] at h; simp at h
    | ok mods' =>
      rw [h1] at h
      simp only at h
      obtain ⟨e1, w1⟩ := createSquares_ok sqrt mods mods' h1
      subst e1
      cases h2 : detectFixed (squared sqrt mods) ((refinable ++ fixed).map fun r => (⟨r, [], 0⟩ : Cell α)) with
      | error e => rw [h2] at h; simp at h
      | ok q =>
        obtain ⟨cells', fr⟩ := q
        rw [h2] at h
        simp only at h
        obtain ⟨e2, e3, w2, w3⟩ := detectFixed_ok _ _ cells' fr h2
        obtain ⟨b1, _⟩ := mkAllocation_ok εA _ A h
        have hcells : A.cells = preCells (fixedMods sqrt mods) (cells0 refinable fixed) ++
            restCells iz (squared sqrt mods) (fixedMods sqrt mods) (cells0 refinable fixed) := by
          rw [b1, e2, e3]
          simp only [preCells, restCells, cells0, fixedMods, one_eq, List.map_flatMap, List.map_map]
          rfl
        refine ⟨w1, hcells, ?_, w2, ?_, a4⟩
        · rw [b1]; exact h
        · intro m hm
          rw [w3 m hm, e3]
          simp only [preCells, cells0, fixedMods]
          induction ((refinable ++ fixed).map fun r => (⟨r, [], 0⟩ : Cell α)) with
          | nil => simp
          | cons c cs ih =>
            simp only [List.flatMap_cons, List.filter_append, List.length_append, ih]
            congr 1
            induction owners (List.filter (fun x => x.fixed) (squared sqrt mods)) c.rect with
            | nil => simp
            | cons n ns ih2 =>
              simp only [List.map_cons, List.filter_cons]
              by_cases hn : n = m.name
              · subst hn; simp [ih2]
              · have hn' : (n == m.name) = false := by simpa using hn
                have hn'' : (m.name == n) = false := by simpa using fun e => hn e.symm
                simp [hn', hn'', ih2, List.lookup]

/-! ### rectangles that do not overlap each other cover no cell more than once

  `Σ_r areaOverlap c r ≤ area c` for pairwise non-overlapping `r`.  Proof by induction on the list: the box is cut
  along the four sides of the first rectangle into (at most) five boxes; the middle one lies inside that rectangle, so
  no other rectangle meets it; the other four do not meet the first rectangle and the induction hypothesis applies. -/

/-- overlap of the box `[x0,x1] × [y0,y1]` with a rectangle. -/
def boxOv (x0 x1 y0 y1 : α) (s : Rect α) : α :=
  ovLen x0 x1 s.xmin s.xmax * ovLen y0 y1 s.ymin s.ymax

def boxSum (x0 x1 y0 y1 : α) (rs : List (Rect α)) : α := (rs.map (boxOv x0 x1 y0 y1)).sum

theorem boxOv_nonneg (x0 x1 y0 y1 : α) (s : Rect α) : 0 ≤ boxOv x0 x1 y0 y1 s :=
  mul_nonneg (ovLen_nonneg ..) (ovLen_nonneg ..)

theorem areaOverlap_eq_boxOv (c s : Rect α) : c.areaOverlap s = boxOv c.xmin c.xmax c.ymin c.ymax s := by
  rw [areaOverlap_eq]; rfl

theorem ovLen_split3 (a u v b l h : α) (h1 : a ≤ u) (h2 : u ≤ v) (h3 : v ≤ b) :
    ovLen a b l h = ovLen a u l h + ovLen u v l h + ovLen v b l h := by
  rw [← ovLen_split a u b l h h1 (le_trans h2 h3), ← ovLen_split u v b l h h2 h3]; ring

theorem boxOv_split5 (x0 u1 u2 x1 y0 v1 v2 y1 : α) (s : Rect α)
    (hx1 : x0 ≤ u1) (hx2 : u1 ≤ u2) (hx3 : u2 ≤ x1) (hy1 : y0 ≤ v1) (hy2 : v1 ≤ v2) (hy3 : v2 ≤ y1) :
    boxOv x0 x1 y0 y1 s = boxOv x0 u1 y0 y1 s + boxOv u2 x1 y0 y1 s + boxOv u1 u2 y0 v1 s +
      boxOv u1 u2 v1 v2 s + boxOv u1 u2 v2 y1 s := by
  unfold boxOv
  rw [ovLen_split3 x0 u1 u2 x1 _ _ hx1 hx2 hx3, ovLen_split3 y0 v1 v2 y1 _ _ hy1 hy2 hy3]; ring

theorem boxSum_split5 (x0 u1 u2 x1 y0 v1 v2 y1 : α) (rs : List (Rect α))
    (hx1 : x0 ≤ u1) (hx2 : u1 ≤ u2) (hx3 : u2 ≤ x1) (hy1 : y0 ≤ v1) (hy2 : v1 ≤ v2) (hy3 : v2 ≤ y1) :
    boxSum x0 x1 y0 y1 rs = boxSum x0 u1 y0 y1 rs + boxSum u2 x1 y0 y1 rs + boxSum u1 u2 y0 v1 rs +
      boxSum u1 u2 v1 v2 rs + boxSum u1 u2 v2 y1 rs := by
  induction rs with
  | nil => simp [boxSum]
  | cons s rs ih =>
    simp only [boxSum, List.map_cons, List.sum_cons] at ih ⊢
    rw [ih, boxOv_split5 x0 u1 u2 x1 y0 v1 v2 y1 s hx1 hx2 hx3 hy1 hy2 hy3]; ring

/-- `t` clamped into `[a, b]`. -/
def cl (a b t : α) : α := min (max t a) b

theorem cl_facts (a b l h : α) (hab : a ≤ b) (hlh : l ≤ h) :
    a ≤ cl a b l ∧ cl a b l ≤ cl a b h ∧ cl a b h ≤ b := by
  unfold cl; grind

theorem ovLen_left_zero (a b l h : α) (hab : a ≤ b) (hlh : l ≤ h) : ovLen a (cl a b l) l h = 0 := by
  unfold ovLen cl; grind

theorem ovLen_right_zero (a b l h : α) (hab : a ≤ b) (hlh : l ≤ h) : ovLen (cl a b h) b l h = 0 := by
  unfold ovLen cl; grind

theorem ovLen_le_len (p q l h : α) (hpq : p ≤ q) : ovLen p q l h ≤ q - p := by
  unfold ovLen; grind

theorem ovLen_mid_le (a b l h sl sh : α) (hab : a ≤ b) (hlh : l ≤ h) :
    ovLen (cl a b l) (cl a b h) sl sh ≤ ovLen l h sl sh := by
  unfold ovLen cl; grind

theorem ovLen_whole_le (a b l h : α) (hab : a ≤ b) (hlh : l ≤ h) :
    ovLen a b l h ≤ cl a b h - cl a b l := by
  unfold ovLen cl; grind

theorem boxSum_le (rs : List (Rect α)) (hpw : rs.Pairwise fun a b => a.areaOverlap b = 0)
    (hpos : ∀ r ∈ rs, 0 ≤ r.w ∧ 0 ≤ r.h) :
    ∀ x0 x1 y0 y1 : α, x0 ≤ x1 → y0 ≤ y1 → boxSum x0 x1 y0 y1 rs ≤ (x1 - x0) * (y1 - y0) := by
  induction rs with
  | nil =>
    intro x0 x1 y0 y1 hx hy
    simp only [boxSum, List.map_nil, List.sum_nil]
    exact mul_nonneg (by linarith) (by linarith)
  | cons r rs ih =>
    intro x0 x1 y0 y1 hx hy
    rw [List.pairwise_cons] at hpw
    obtain ⟨hr, hpw'⟩ := hpw
    have ih' := ih hpw' (fun s hs => hpos s (List.mem_cons_of_mem _ hs))
    obtain ⟨hw, hh⟩ := hpos r List.mem_cons_self
    have hrx : r.xmin ≤ r.xmax := by have := xmax_sub_xmin r; linarith
    have hry : r.ymin ≤ r.ymax := by have := ymax_sub_ymin r; linarith
    obtain ⟨a1, a2, a3⟩ := cl_facts x0 x1 r.xmin r.xmax hx hrx
    obtain ⟨b1, b2, b3⟩ := cl_facts y0 y1 r.ymin r.ymax hy hry
    generalize hu1 : cl x0 x1 r.xmin = u1 at *
    generalize hu2 : cl x0 x1 r.xmax = u2 at *
    generalize hv1 : cl y0 y1 r.ymin = v1 at *
    generalize hv2 : cl y0 y1 r.ymax = v2 at *
    -- the first rectangle itself
    have hfirst : boxOv x0 x1 y0 y1 r ≤ (u2 - u1) * (v2 - v1) := by
      unfold boxOv
      have e1 := ovLen_whole_le x0 x1 r.xmin r.xmax hx hrx
      have e2 := ovLen_whole_le y0 y1 r.ymin r.ymax hy hry
      rw [hu1, hu2] at e1; rw [hv1, hv2] at e2
      exact mul_le_mul e1 e2 (ovLen_nonneg ..) (by linarith)
    -- the middle box meets no other rectangle
    have hmid : boxSum u1 u2 v1 v2 rs = 0 := by
      have : ∀ s ∈ rs, boxOv u1 u2 v1 v2 s = 0 := by
        intro s hs
        have h0 := hr s hs
        rw [areaOverlap_eq] at h0
        have e1 := ovLen_mid_le x0 x1 r.xmin r.xmax s.xmin s.xmax hx hrx
        have e2 := ovLen_mid_le y0 y1 r.ymin r.ymax s.ymin s.ymax hy hry
        rw [hu1, hu2] at e1; rw [hv1, hv2] at e2
        have := mul_le_mul e1 e2 (ovLen_nonneg ..) (ovLen_nonneg ..)
        rw [h0] at this
        exact le_antisymm this (boxOv_nonneg ..)
      unfold boxSum
      rw [List.map_congr_left this]
      simp
    have hL := ih' x0 u1 y0 y1 a1 hy
    have hR := ih' u2 x1 y0 y1 a3 hy
    have hB := ih' u1 u2 y0 v1 a2 b1
    have hT := ih' u1 u2 v2 y1 a2 b3
    have hsplit := boxSum_split5 x0 u1 u2 x1 y0 v1 v2 y1 rs a1 a2 a3 b1 b2 b3
    have : boxSum x0 x1 y0 y1 (r :: rs) = boxOv x0 x1 y0 y1 r + boxSum x0 x1 y0 y1 rs := by
      simp [boxSum]
    rw [this, hsplit, hmid]
    nlinarith [hfirst, hL, hR, hB, hT]

/-- **no cell is covered more than once** by rectangles that do not overlap each other. -/
theorem overlapSum_le_area (c : Rect α) (rs : List (Rect α)) (hw : 0 ≤ c.w) (hh : 0 ≤ c.h)
    (hpw : rs.Pairwise fun a b => a.areaOverlap b = 0) (hpos : ∀ r ∈ rs, 0 ≤ r.w ∧ 0 ≤ r.h) :
    overlapSum c rs ≤ c.area := by
  have hx : c.xmin ≤ c.xmax := by have := xmax_sub_xmin c; linarith
  have hy : c.ymin ≤ c.ymax := by have := ymax_sub_ymin c; linarith
  have := boxSum_le rs hpw hpos c.xmin c.xmax c.ymin c.ymax hx hy
  rw [xmax_sub_xmin, ymax_sub_ymin] at this
  unfold overlapSum
  rw [show (fun r => c.areaOverlap r) = boxOv c.xmin c.xmax c.ymin c.ymax from
    funext fun r => areaOverlap_eq_boxOv c r]
  exact this

/-! ### membership in the result -/

theorem mem_preCells (fm : List (Module α)) (cells : List (Cell α)) (cell : Cell α) :
    cell ∈ preCells fm cells ↔ ∃ c ∈ cells, ∃ n ∈ owners fm c.rect,
      cell = ⟨{ c.rect with fixed := true }, [(n, 1)], 0⟩ := by
  simp only [preCells, List.mem_flatMap, List.mem_map]
  constructor
  · rintro ⟨c, hc, n, hn, rfl⟩
    refine ⟨c, hc, n, hn, ?_⟩
    have : (owners fm c.rect).isEmpty = false := by
      cases ho : owners fm c.rect with
      | nil => rw [ho] at hn; simp at hn
      | cons x xs => rfl
    simp [flagged, this]
  · rintro ⟨c, hc, n, hn, rfl⟩
    refine ⟨c, hc, n, hn, ?_⟩
    have : (owners fm c.rect).isEmpty = false := by
      cases ho : owners fm c.rect with
      | nil => rw [ho] at hn; simp at hn
      | cons x xs => rfl
    simp [flagged, this]

theorem mem_restCells (iz : Bool) (mods' fm : List (Module α)) (cells : List (Cell α)) (cell : Cell α) :
    cell ∈ restCells iz mods' fm cells ↔ ∃ c ∈ cells, owners fm c.rect = [] ∧ c.rect.fixed = false ∧
      cell = ⟨c.rect, allocOf iz c.rect mods', c.depth⟩ := by
  simp only [restCells, List.mem_map, List.mem_filter]
  constructor
  · rintro ⟨c', ⟨⟨c, hc, rfl⟩, hf⟩, rfl⟩
    cases ho : owners fm c.rect with
    | nil =>
      have e : (flagged fm c).rect = c.rect := by simp [flagged, ho]
      rw [e] at hf
      exact ⟨c, hc, ho, by simpa using hf, by rw [e]; rfl⟩
    | cons x xs =>
      have e : (flagged fm c).rect.fixed = true := by simp [flagged, ho]
      rw [e] at hf; simp at hf
  · rintro ⟨c, hc, ho, hf, rfl⟩
    have e : (flagged fm c).rect = c.rect := by simp [flagged, ho]
    exact ⟨flagged fm c, ⟨⟨c, hc, rfl⟩, by rw [e]; simpa using hf⟩, by rw [e]; rfl⟩

/-- **shape of the result**: every cell of the returned allocation is either a die cell owned by a fixed module —
    flagged, with the dictionary `{owner ↦ 1}` and depth 0 — or a die cell without owner that was not flagged
    before, with the ratio dictionary `allocOf` and depth 0. -/
theorem mem_cells_iff (sqrt : α → α) (εA : α) (iz : Bool) (mods : List (Module α)) (refinable fixed : List (Rect α))
    (A : Allocation α) (h : createInitialAllocation sqrt εA iz mods refinable fixed = .ok A) (cell : Cell α) :
    cell ∈ A.cells ↔
      (∃ c ∈ refinable ++ fixed, ∃ n ∈ owners (fixedMods sqrt mods) c,
        cell = ⟨{ c with fixed := true }, [(n, 1)], 0⟩) ∨
      (∃ c ∈ refinable ++ fixed, owners (fixedMods sqrt mods) c = [] ∧ c.fixed = false ∧
        cell = ⟨c, allocOf iz c (squared sqrt mods), 0⟩) := by
  obtain ⟨_, hcells, _⟩ := cia_ok sqrt εA iz mods refinable fixed A h
  rw [hcells, List.mem_append, mem_preCells, mem_restCells]
  simp only [cells0, List.mem_map]
  constructor
  · rintro (⟨c, ⟨r, hr, rfl⟩, n, hn, rfl⟩ | ⟨c, ⟨r, hr, rfl⟩, ho, hf, rfl⟩)
    · exact Or.inl ⟨r, hr, n, hn, rfl⟩
    · exact Or.inr ⟨r, hr, ho, hf, rfl⟩
  · rintro (⟨r, hr, n, hn, rfl⟩ | ⟨r, hr, ho, hf, rfl⟩)
    · exact Or.inl ⟨_, ⟨r, hr, rfl⟩, n, hn, rfl⟩
    · exact Or.inr ⟨_, ⟨r, hr, rfl⟩, ho, hf, rfl⟩

theorem mem_owners (fm : List (Module α)) (r : Rect α) (n : String) :
    n ∈ owners fm r ↔ ∃ m ∈ fm, m.name = n ∧ 1 - eps6 < ratioIn r m.rects := by
  simp only [owners, List.mem_map, List.mem_filter, decide_eq_true_eq]
  constructor
  · rintro ⟨m, ⟨hm, hr⟩, rfl⟩; exact ⟨m, hm, rfl, hr⟩
  · rintro ⟨m, hm, rfl, hr⟩; exact ⟨m, ⟨hm, hr⟩, rfl⟩

theorem mem_fixedMods (sqrt : α → α) (mods : List (Module α)) (m' : Module α) :
    m' ∈ fixedMods sqrt mods ↔ ∃ m ∈ mods, m.fixed = true ∧ m' = { m with rects := shapeOf sqrt m } := by
  simp only [fixedMods, List.mem_filter, mem_squared]
  constructor
  · rintro ⟨⟨m, hm, rfl⟩, hf⟩; exact ⟨m, hm, hf, rfl⟩
  · rintro ⟨m, hm, hf, rfl⟩; exact ⟨⟨m, hm, rfl⟩, hf⟩

/-! ### geometry used by the property theorems -/

/-- same place and size (attributes may differ). -/
def GeoEq (a b : Rect α) : Prop := a.cx = b.cx ∧ a.cy = b.cy ∧ a.w = b.w ∧ a.h = b.h

theorem GeoEq.areaOverlap_left {a b : Rect α} (h : GeoEq a b) (s : Rect α) : a.areaOverlap s = b.areaOverlap s := by
  obtain ⟨h1, h2, h3, h4⟩ := h
  rw [areaOverlap_eq, areaOverlap_eq]
  simp only [xmin, xmax, ymin, ymax, h1, h2, h3, h4]

theorem GeoEq.area_eq {a b : Rect α} (h : GeoEq a b) : a.area = b.area := by
  obtain ⟨h1, h2, h3, h4⟩ := h
  simp only [area, h3, h4]

theorem GeoEq.overlapSum_left {a b : Rect α} (h : GeoEq a b) (rs : List (Rect α)) : overlapSum a rs = overlapSum b rs := by
  unfold overlapSum
  rw [show (fun r => a.areaOverlap r) = fun r => b.areaOverlap r from funext fun r => h.areaOverlap_left r]

theorem GeoEq.ratioIn_left {a b : Rect α} (h : GeoEq a b) (rs : List (Rect α)) : ratioIn a rs = ratioIn b rs := by
  rw [ratioIn_eq, ratioIn_eq, h.overlapSum_left, h.area_eq]

theorem geoEq_setFixed (c : Rect α) : GeoEq { c with fixed := true } c := ⟨rfl, rfl, rfl, rfl⟩

theorem areaOverlap_comm' (a b : Rect α) : a.areaOverlap b = b.areaOverlap a := by
  rw [areaOverlap_eq, areaOverlap_eq, ovLen_comm, ovLen_comm a.ymin]

theorem areaOverlap_self (a : Rect α) (hw : 0 ≤ a.w) (hh : 0 ≤ a.h) : a.areaOverlap a = a.area := by
  rw [areaOverlap_eq]
  have hx := xmax_sub_xmin a
  have hy := ymax_sub_ymin a
  have e1 : ovLen a.xmin a.xmax a.xmin a.xmax = a.w := by unfold ovLen; grind
  have e2 : ovLen a.ymin a.ymax a.ymin a.ymax = a.h := by unfold ovLen; grind
  rw [e1, e2]; rfl

/-- a rectangle of a list of pairwise non-overlapping rectangles is covered exactly once by the list. -/
theorem overlapSum_self_of_pairwise (r : Rect α) (rs : List (Rect α)) (hr : r ∈ rs)
    (hpw : rs.Pairwise fun a b => a.areaOverlap b = 0) (hw : 0 ≤ r.w) (hh : 0 ≤ r.h) :
    overlapSum r rs = r.area := by
  induction rs with
  | nil => simp at hr
  | cons x xs ih =>
    rw [List.pairwise_cons] at hpw
    rw [overlapSum_cons]
    by_cases hx : r = x
    · subst hx
      rw [areaOverlap_self r hw hh]
      have : overlapSum r xs = 0 := by
        unfold overlapSum
        rw [List.map_congr_left (fun s hs => hpw.1 s hs)]; simp
      rw [this, add_zero]
    · have hr' : r ∈ xs := by
        rcases List.mem_cons.mp hr with e | e
        · exact absurd e hx
        · exact e
      rw [areaOverlap_comm', hpw.1 r hr', zero_add]
      exact ih hr' hpw.2

theorem overlapSum_eq_zero (c : Rect α) (rs : List (Rect α)) (h : ∀ r ∈ rs, c.areaOverlap r = 0) :
    overlapSum c rs = 0 := by
  unfold overlapSum
  rw [List.map_congr_left h]; simp

theorem area_pos (c : Rect α) (hw : 0 < c.w) (hh : 0 < c.h) : 0 < c.area := mul_pos hw hh

theorem clampOne_pos_iff (a : α) : 0 < clampOne a ↔ 0 < a := by
  unfold clampOne
  simp only [one_eq]
  split
  · rename_i h; constructor <;> intro _ <;> linarith [h.1]
  · exact Iff.rfl

/-! ### the hypotheses of the property (its quantifier) and what they give -/

/-- two rectangles do not overlap (they may touch). -/
def NoOverlap (a b : Rect α) : Prop := a.areaOverlap b = 0

/-- a compatible netlist: distinct module names; `math.sqrt` answers correctly on the areas of the rectangle-less
    modules; each module's own rectangles are proper and pairwise non-overlapping. -/
structure NetOK (sqrt : α → α) (mods : List (Module α)) : Prop where
  names : (mods.map (·.name)).Nodup
  sqrt_ok : ∀ m ∈ mods, m.rects = [] → sqrt m.area * sqrt m.area = m.area ∧ 0 ≤ sqrt m.area
  own_disjoint : ∀ m ∈ mods, m.rects.Pairwise NoOverlap
  proper : ∀ m ∈ mods, ∀ r ∈ m.rects, 0 < r.w ∧ 0 < r.h

/-- die cells are proper rectangles. -/
def CellsProper (cells : List (Rect α)) : Prop := ∀ c ∈ cells, 0 < c.w ∧ 0 < c.h

theorem NetOK.eq_of_name {sqrt : α → α} {mods : List (Module α)} (hn : NetOK sqrt mods) {m1 m2 : Module α}
    (h1 : m1 ∈ mods) (h2 : m2 ∈ mods) (he : m1.name = m2.name) : m1 = m2 :=
  List.inj_on_of_nodup_map hn.names h1 h2 he

theorem NetOK.shape_pairwise {sqrt : α → α} {mods : List (Module α)} (hn : NetOK sqrt mods) {m : Module α}
    (hm : m ∈ mods) : (shapeOf sqrt m).Pairwise fun a b => a.areaOverlap b = 0 := by
  by_cases hr : m.rects = []
  · unfold shapeOf; rw [hr]; simp only [List.isEmpty_nil, ↓reduceIte]
    cases m.center with
    | none => simp
    | some p => simp
  · rw [shapeOf_of_rects sqrt m hr]; exact hn.own_disjoint m hm

theorem NetOK.shape_nonneg {sqrt : α → α} {mods : List (Module α)} (hn : NetOK sqrt mods) {m : Module α}
    (hm : m ∈ mods) : ∀ r ∈ shapeOf sqrt m, 0 ≤ r.w ∧ 0 ≤ r.h := by
  by_cases hr : m.rects = []
  · have hs := (hn.sqrt_ok m hm hr).2
    unfold shapeOf; rw [hr]; simp only [List.isEmpty_nil, ↓reduceIte]
    cases m.center with
    | none => simp
    | some p => intro r hr'; simp only [List.mem_singleton] at hr'; subst hr'; exact ⟨hs, hs⟩
  · rw [shapeOf_of_rects sqrt m hr]
    intro r hr'; exact ⟨le_of_lt (hn.proper m hm r hr').1, le_of_lt (hn.proper m hm r hr').2⟩

/-- no module covers more than the whole cell. -/
theorem NetOK.cover_le {sqrt : α → α} {mods : List (Module α)} (hn : NetOK sqrt mods) {m : Module α}
    (hm : m ∈ mods) (c : Rect α) (hw : 0 < c.w) (hh : 0 < c.h) :
    overlapSum c (shapeOf sqrt m) ≤ c.area :=
  overlapSum_le_area c _ (le_of_lt hw) (le_of_lt hh) (hn.shape_pairwise hm) (hn.shape_nonneg hm)

theorem NetOK.ratioOf_eq {sqrt : α → α} {mods : List (Module α)} (hn : NetOK sqrt mods) {m : Module α}
    (hm : m ∈ mods) (c : Rect α) (hw : 0 < c.w) (hh : 0 < c.h) :
    ratioOf c { m with rects := shapeOf sqrt m } = overlapSum c (shapeOf sqrt m) / c.area := by
  unfold ratioOf
  simp only
  rw [ratioIn_eq]
  apply clampOne_of_le
  rw [div_le_one (area_pos c hw hh)]
  exact hn.cover_le hm c hw hh

/-- what a cell without owner lists for a module of the netlist. -/
theorem NetOK.lookup_rest {sqrt : α → α} {mods : List (Module α)} (hn : NetOK sqrt mods) (iz : Bool) {m : Module α}
    (hm : m ∈ mods) (c : Rect α) (hw : 0 < c.w) (hh : 0 < c.h) :
    (allocOf iz c (squared sqrt mods)).lookup m.name =
      if iz || decide (0 < overlapSum c (shapeOf sqrt m)) then some (overlapSum c (shapeOf sqrt m) / c.area)
      else none := by
  have hm' : ({ m with rects := shapeOf sqrt m } : Module α) ∈ squared sqrt mods :=
    (mem_squared sqrt mods _).mpr ⟨m, hm, rfl⟩
  have hnn : ((squared sqrt mods).map (·.name)).Nodup := by rw [squared_names]; exact hn.names
  have := allocOf_lookup iz c (squared sqrt mods) hnn _ hm'
  simp only at this
  rw [this, hn.ratioOf_eq hm c hw hh]
  have hpos : 0 < overlapSum c (shapeOf sqrt m) / c.area ↔ 0 < overlapSum c (shapeOf sqrt m) := by
    rw [div_pos_iff_of_pos_right (area_pos c hw hh)]
  by_cases hp : 0 < overlapSum c (shapeOf sqrt m)
  · simp [hp, hpos.mpr hp]
  · have : ¬ 0 < overlapSum c (shapeOf sqrt m) / c.area := fun h => hp (hpos.mp h)
    simp [hp, this]

theorem List.Pairwise.noOverlap_of_ne {l : List (Rect α)} (h : l.Pairwise fun a b => a.areaOverlap b = 0)
    {a b : Rect α} (ha : a ∈ l) (hb : b ∈ l) (hne : a ≠ b) : a.areaOverlap b = 0 := by
  have : Std.Symm (fun a b : Rect α => a.areaOverlap b = 0) :=
    ⟨fun x y hxy => by rw [areaOverlap_comm']; exact hxy⟩
  exact h.forall ha hb hne

/-! ### fixed modules: hypotheses on the die (C01 / C02) and what they give -/

/-- what `Die` guarantees about the cells it hands over: they do not overlap each other; every fixed module has
    rectangles (it is hard) and each of them is a die cell; different fixed modules do not overlap. -/
structure FixedOK (mods : List (Module α)) (cells : List (Rect α)) : Prop where
  cells_disjoint : cells.Pairwise NoOverlap
  fixed_have_rects : ∀ m ∈ mods, m.fixed = true → m.rects ≠ []
  fixed_are_cells : ∀ m ∈ mods, m.fixed = true → ∀ r ∈ m.rects, ∃ c ∈ cells, GeoEq c r
  fixed_apart : ∀ m1 ∈ mods, ∀ m2 ∈ mods, m1.fixed = true → m2.fixed = true → m1.name ≠ m2.name →
    ∀ r1 ∈ m1.rects, ∀ r2 ∈ m2.rects, r1.areaOverlap r2 = 0

section fixed
variable {sqrt : α → α} {mods : List (Module α)} {cells : List (Rect α)}

theorem ratio_fixed_self (hn : NetOK sqrt mods) (hf : FixedOK mods cells) {m : Module α} (hm : m ∈ mods)
    (hfx : m.fixed = true) {r c : Rect α} (hr : r ∈ m.rects) (hg : GeoEq c r) :
    ratioIn c (shapeOf sqrt m) = 1 := by
  rw [shapeOf_of_rects sqrt m (hf.fixed_have_rects m hm hfx), hg.ratioIn_left, ratioIn_eq]
  obtain ⟨hw, hh⟩ := hn.proper m hm r hr
  rw [overlapSum_self_of_pairwise r m.rects hr (hn.own_disjoint m hm) (le_of_lt hw) (le_of_lt hh)]
  exact div_self (ne_of_gt (area_pos r hw hh))

theorem ratio_fixed_other (hn : NetOK sqrt mods) (hf : FixedOK mods cells) {m m' : Module α} (hm : m ∈ mods)
    (hm' : m' ∈ mods) (hfx : m.fixed = true) (hfx' : m'.fixed = true) (hne : m'.name ≠ m.name)
    {r c : Rect α} (hr : r ∈ m.rects) (hg : GeoEq c r) :
    ratioIn c (shapeOf sqrt m') = 0 := by
  rw [shapeOf_of_rects sqrt m' (hf.fixed_have_rects m' hm' hfx'), hg.ratioIn_left, ratioIn_eq]
  rw [overlapSum_eq_zero r m'.rects
    (fun s hs => hf.fixed_apart m hm m' hm' hfx hfx' (fun e => hne e.symm) r hr s hs), zero_div]

/-- a die cell at the place of a rectangle of the fixed module `m` is owned by `m` and by nobody else. -/
theorem owners_of_fixed_cell (hn : NetOK sqrt mods) (hf : FixedOK mods cells) {m : Module α} (hm : m ∈ mods)
    (hfx : m.fixed = true) {r c : Rect α} (hr : r ∈ m.rects) (hg : GeoEq c r) (n : String) :
    n ∈ owners (fixedMods sqrt mods) c ↔ n = m.name := by
  rw [mem_owners]
  constructor
  · rintro ⟨m'', hm'', hname, hratio⟩
    obtain ⟨m', hm', hfx', rfl⟩ := (mem_fixedMods sqrt mods m'').mp hm''
    by_contra hne
    simp only at hratio hname
    rw [ratio_fixed_other hn hf hm hm' hfx hfx' (fun e => hne (by rw [← hname, e])) hr hg] at hratio
    linarith [eps6_lt_one (α := α)]
  · rintro rfl
    refine ⟨{ m with rects := shapeOf sqrt m }, (mem_fixedMods sqrt mods _).mpr ⟨m, hm, hfx, rfl⟩, rfl, ?_⟩
    simp only
    rw [ratio_fixed_self hn hf hm hfx hr hg]
    linarith [eps6_pos (α := α)]

/-- a die cell that a fixed module overlaps is one of its rectangles. -/
theorem geo_of_positive_overlap (hn : NetOK sqrt mods) (hf : FixedOK mods cells) {m : Module α} (hm : m ∈ mods)
    (hfx : m.fixed = true) {c : Rect α} (hc : c ∈ cells) (hp : 0 < overlapSum c (shapeOf sqrt m)) :
    ∃ r ∈ m.rects, GeoEq c r := by
  rw [shapeOf_of_rects sqrt m (hf.fixed_have_rects m hm hfx)] at hp
  obtain ⟨r, hr, hov⟩ := (overlapSum_pos_iff c m.rects).mp hp
  obtain ⟨c1, hc1, hg⟩ := hf.fixed_are_cells m hm hfx r hr
  refine ⟨r, hr, ?_⟩
  by_cases he : c = c1
  · subst he; exact hg
  · have h0 := List.Pairwise.noOverlap_of_ne hf.cells_disjoint hc hc1 he
    rw [areaOverlap_comm', hg.areaOverlap_left, areaOverlap_comm'] at h0
    linarith

end fixed

theorem sum_map_ite {β : Type} (l : List β) (p : β → Bool) (f : β → α) :
    (l.map fun x => if p x = true then f x else 0).sum = ((l.filter p).map f).sum := by
  induction l with
  | nil => simp
  | cons x xs ih =>
    by_cases hp : p x = true
    · simp [hp, List.filter_cons, ih]
    · simp [hp, List.filter_cons, ih]

/-! ### cutting regions into cells -/

/-- same bounding box. -/
def SameBox (a b : Rect α) : Prop := a.xmin = b.xmin ∧ a.xmax = b.xmax ∧ a.ymin = b.ymin ∧ a.ymax = b.ymax

/-- `p`, `q` are the west / east pieces of `R` cut at some `x` (the form of C18 `splitH_sides`). -/
def CutH (R p q : Rect α) : Prop :=
  ∃ x, p.xmin = R.xmin ∧ p.xmax = x ∧ q.xmin = x ∧ q.xmax = R.xmax ∧
    p.ymin = R.ymin ∧ p.ymax = R.ymax ∧ q.ymin = R.ymin ∧ q.ymax = R.ymax ∧ R.xmin ≤ x ∧ x ≤ R.xmax

/-- `p`, `q` are the south / north pieces of `R` cut at some `y`. -/
def CutV (R p q : Rect α) : Prop :=
  ∃ y, p.ymin = R.ymin ∧ p.ymax = y ∧ q.ymin = y ∧ q.ymax = R.ymax ∧
    p.xmin = R.xmin ∧ p.xmax = R.xmax ∧ q.xmin = R.xmin ∧ q.xmax = R.xmax ∧ R.ymin ≤ y ∧ y ≤ R.ymax

theorem areaOverlap_cutH (R p q s : Rect α) (h : CutH R p q) :
    p.areaOverlap s + q.areaOverlap s = R.areaOverlap s := by
  obtain ⟨x, a1, a2, a3, a4, a5, a6, a7, a8, a9, a10⟩ := h
  rw [areaOverlap_eq, areaOverlap_eq, areaOverlap_eq, a1, a2, a3, a4, a5, a6, a7, a8,
    ← ovLen_split R.xmin x R.xmax s.xmin s.xmax a9 a10]; ring

theorem areaOverlap_cutV (R p q s : Rect α) (h : CutV R p q) :
    p.areaOverlap s + q.areaOverlap s = R.areaOverlap s := by
  obtain ⟨y, a1, a2, a3, a4, a5, a6, a7, a8, a9, a10⟩ := h
  rw [areaOverlap_eq, areaOverlap_eq, areaOverlap_eq, a1, a2, a3, a4, a5, a6, a7, a8,
    ← ovLen_split R.ymin y R.ymax s.ymin s.ymax a9 a10]; ring

theorem SameBox.areaOverlap_left {a b : Rect α} (h : SameBox a b) (s : Rect α) :
    a.areaOverlap s = b.areaOverlap s := by
  obtain ⟨h1, h2, h3, h4⟩ := h
  rw [areaOverlap_eq, areaOverlap_eq, h1, h2, h3, h4]

/-- the cells `cs` are obtained from the regions `Rs` by repeated cutting (in any order). -/
inductive Dissection : List (Rect α) → List (Rect α) → Prop
  | nil : Dissection [] []
  | keep (R c : Rect α) (Rs cs : List (Rect α)) : SameBox c R → Dissection Rs cs → Dissection (R :: Rs) (c :: cs)
  | cut (R p q : Rect α) (Rs cs : List (Rect α)) : (CutH R p q ∨ CutV R p q) →
      Dissection (p :: q :: Rs) cs → Dissection (R :: Rs) cs
  | permCells (Rs cs cs' : List (Rect α)) : Dissection Rs cs → cs.Perm cs' → Dissection Rs cs'
  | permRegions (Rs Rs' cs : List (Rect α)) : Dissection Rs cs → Rs.Perm Rs' → Dissection Rs' cs

/-! ### exact tilings (not necessarily guillotine): overlap is additive over the tiles

  If pairwise non-overlapping rectangles lie inside `R` and their areas add up to the area of `R`, then for every
  rectangle `s` the areas of `s` on the tiles add up to the area of `s` on `R`.  Proof: cut `R` along the sides of `s`
  into five boxes; on each box the tiles cover at most the box (`boxSum_le`); the five bounds add up to the area of
  `R`, which is what the tiles cover in total; hence each bound is attained, in particular on the middle box `R ∩ s`. -/

theorem ovLen_inside (a b l h : α) (h1 : a ≤ l) (h2 : l ≤ h) (h3 : h ≤ b) : ovLen a b l h = h - l := by
  unfold ovLen; grind

theorem ovLen_whole_eq (a b l h : α) (hab : a ≤ b) (hlh : l ≤ h) :
    ovLen a b l h = cl a b h - cl a b l := by
  unfold ovLen cl; grind

theorem ovLen_mid_inside (a b l h sl sh : α) (hab : a ≤ b) (hlh : l ≤ h) (h1 : a ≤ sl) (h2 : sl ≤ sh) (h3 : sh ≤ b) :
    ovLen (cl a b l) (cl a b h) sl sh = ovLen l h sl sh := by
  unfold ovLen cl; grind

/-- `c` lies inside `R` (coordinates of the four sides). -/
def Inside (c R : Rect α) : Prop := R.xmin ≤ c.xmin ∧ c.xmax ≤ R.xmax ∧ R.ymin ≤ c.ymin ∧ c.ymax ≤ R.ymax

theorem tiling_overlap (R : Rect α) (cells : List (Rect α)) (hR : 0 ≤ R.w ∧ 0 ≤ R.h)
    (hpw : cells.Pairwise fun a b => a.areaOverlap b = 0) (hpos : ∀ c ∈ cells, 0 ≤ c.w ∧ 0 ≤ c.h)
    (hin : ∀ c ∈ cells, Inside c R) (harea : (cells.map Rect.area).sum = R.area)
    (s : Rect α) (hs : 0 ≤ s.w ∧ 0 ≤ s.h) :
    (cells.map fun c => c.areaOverlap s).sum = R.areaOverlap s := by
  have hx : R.xmin ≤ R.xmax := by have := xmax_sub_xmin R; linarith
  have hy : R.ymin ≤ R.ymax := by have := ymax_sub_ymin R; linarith
  have hsx : s.xmin ≤ s.xmax := by have := xmax_sub_xmin s; linarith
  have hsy : s.ymin ≤ s.ymax := by have := ymax_sub_ymin s; linarith
  obtain ⟨a1, a2, a3⟩ := cl_facts R.xmin R.xmax s.xmin s.xmax hx hsx
  obtain ⟨b1, b2, b3⟩ := cl_facts R.ymin R.ymax s.ymin s.ymax hy hsy
  have ewx := ovLen_whole_eq R.xmin R.xmax s.xmin s.xmax hx hsx
  have ewy := ovLen_whole_eq R.ymin R.ymax s.ymin s.ymax hy hsy
  -- the tiles cover all of `R`
  have htot : boxSum R.xmin R.xmax R.ymin R.ymax cells = (R.xmax - R.xmin) * (R.ymax - R.ymin) := by
    rw [xmax_sub_xmin, ymax_sub_ymin]
    have : ∀ c ∈ cells, boxOv R.xmin R.xmax R.ymin R.ymax c = c.area := by
      intro c hc
      obtain ⟨i1, i2, i3, i4⟩ := hin c hc
      obtain ⟨p1, p2⟩ := hpos c hc
      have := xmax_sub_xmin c; have := ymax_sub_ymin c
      unfold boxOv
      rw [ovLen_inside _ _ _ _ i1 (by linarith) i2, ovLen_inside _ _ _ _ i3 (by linarith) i4, xmax_sub_xmin,
        ymax_sub_ymin]; rfl
    unfold boxSum
    rw [List.map_congr_left this, harea]; rfl
  -- on the middle box the tiles see exactly `s`
  have hmidc : ∀ c ∈ cells, boxOv (cl R.xmin R.xmax s.xmin) (cl R.xmin R.xmax s.xmax)
      (cl R.ymin R.ymax s.ymin) (cl R.ymin R.ymax s.ymax) c = c.areaOverlap s := by
    intro c hc
    obtain ⟨i1, i2, i3, i4⟩ := hin c hc
    obtain ⟨p1, p2⟩ := hpos c hc
    have := xmax_sub_xmin c; have := ymax_sub_ymin c
    unfold boxOv
    rw [ovLen_mid_inside _ _ _ _ _ _ hx hsx i1 (by linarith) i2,
      ovLen_mid_inside _ _ _ _ _ _ hy hsy i3 (by linarith) i4, areaOverlap_eq, ovLen_comm, ovLen_comm c.ymin]
  generalize hu1 : cl R.xmin R.xmax s.xmin = u1 at *
  generalize hu2 : cl R.xmin R.xmax s.xmax = u2 at *
  generalize hv1 : cl R.ymin R.ymax s.ymin = v1 at *
  generalize hv2 : cl R.ymin R.ymax s.ymax = v2 at *
  have hL := boxSum_le cells hpw hpos R.xmin u1 R.ymin R.ymax a1 hy
  have hRr := boxSum_le cells hpw hpos u2 R.xmax R.ymin R.ymax a3 hy
  have hB := boxSum_le cells hpw hpos u1 u2 R.ymin v1 a2 b1
  have hM := boxSum_le cells hpw hpos u1 u2 v1 v2 a2 b2
  have hT := boxSum_le cells hpw hpos u1 u2 v2 R.ymax a2 b3
  have hsplit := boxSum_split5 R.xmin u1 u2 R.xmax R.ymin v1 v2 R.ymax cells a1 a2 a3 b1 b2 b3
  have hmid : boxSum u1 u2 v1 v2 cells = (u2 - u1) * (v2 - v1) := by
    apply le_antisymm hM
    nlinarith [hL, hRr, hB, hT, hsplit, htot]
  rw [areaOverlap_eq, ewx, ewy, ← hmid]
  unfold boxSum
  rw [List.map_congr_left hmidc]

/-! ### the second entry point: `Allocation(descriptors).initial_allocation(netlist)` -/

/-- the allocation built from descriptors `(rectangle, {}, depth)`. -/
def cellsD (cells : List (Rect α × Nat)) : List (Cell α) := cells.map fun p => (⟨p.1, [], p.2⟩ : Cell α)

theorem initialAllocation_ok (sqrt : α → α) (εA : α) (iz : Bool) (mods : List (Module α)) (cs : List (Cell α))
    (A : Allocation α) (h : initialAllocation sqrt εA iz mods cs = .ok A) :
    (∀ m ∈ mods, m.rects = [] → ∃ cx cy, m.center = some (cx, cy) ∧ 0 ≤ m.area ∧ 0 < sqrt m.area) ∧
    A.cells = preCells (fixedMods sqrt mods) cs ++ restCells iz (squared sqrt mods) (fixedMods sqrt mods) cs ∧
    mkAllocation εA A.cells = .ok A ∧
    (∀ c ∈ cs, ∀ m ∈ fixedMods sqrt mods, AllOrNothing c.rect m) := by
  unfold initialAllocation at h
  cases h1 : createSquares sqrt mods with
  | error e => rw [h1] at h; simp at h
  | ok mods' =>
    rw [h1] at h
    simp only at h
    obtain ⟨e1, w1⟩ := createSquares_ok sqrt mods mods' h1
    subst e1
    cases h2 : detectFixed (squared sqrt mods) cs with
    | error e => rw [h2] at h; simp at h
    | ok q =>
      obtain ⟨cells', fr⟩ := q
      rw [h2] at h
      simp only at h
      obtain ⟨e2, e3, w2, _⟩ := detectFixed_ok _ _ cells' fr h2
      obtain ⟨b1, _⟩ := mkAllocation_ok εA _ A h
      have hcells : A.cells = preCells (fixedMods sqrt mods) cs ++
          restCells iz (squared sqrt mods) (fixedMods sqrt mods) cs := by
        rw [b1, e2, e3]
        simp only [preCells, restCells, fixedMods, one_eq, List.map_flatMap, List.map_map]
        rfl
      exact ⟨w1, hcells, by rw [b1]; exact h, w2⟩

theorem ati_ok (sqrt : α → α) (εA : α) (iz : Bool) (mods : List (Module α)) (cells : List (Rect α × Nat))
    (A : Allocation α) (h : allocationThenInitial sqrt εA iz mods cells = .ok A) :
    (∀ m ∈ mods, m.rects = [] → ∃ cx cy, m.center = some (cx, cy) ∧ 0 ≤ m.area ∧ 0 < sqrt m.area) ∧
    A.cells = preCells (fixedMods sqrt mods) (cellsD cells) ++
      restCells iz (squared sqrt mods) (fixedMods sqrt mods) (cellsD cells) ∧
    mkAllocation εA A.cells = .ok A ∧ noOverlap εA (cellsD cells) = true := by
  unfold allocationThenInitial at h
  cases h0 : mkAllocation εA (cells.map fun p => (⟨p.1, [], p.2⟩ : Cell α)) with
  | error e => rw [h0] at h; simp at h
  | ok A0 =>
    rw [h0] at h
    simp only at h
    obtain ⟨a1, _, _, a4, _⟩ := mkAllocation_ok εA _ A0 h0
    rw [a1] at h
    obtain ⟨w1, hcells, hmk, _⟩ := initialAllocation_ok sqrt εA iz mods _ A h
    exact ⟨w1, hcells, hmk, a4⟩

/-- `create_initial_allocation(die)` is the second entry point on the die's cells with depth 0. -/
theorem cia_eq_ati (sqrt : α → α) (εA : α) (iz : Bool) (mods : List (Module α)) (refinable fixed : List (Rect α)) :
    createInitialAllocation sqrt εA iz mods refinable fixed =
      allocationThenInitial sqrt εA iz mods ((refinable ++ fixed).map fun r => (r, 0)) := by
  unfold createInitialAllocation allocationThenInitial
  rw [List.map_map]
  rfl

/-- shape of the result of the second entry point (depths are kept on the cells that stay refinable). -/
theorem mem_cells_then_iff (sqrt : α → α) (εA : α) (iz : Bool) (mods : List (Module α)) (cells : List (Rect α × Nat))
    (A : Allocation α) (h : allocationThenInitial sqrt εA iz mods cells = .ok A) (cell : Cell α) :
    cell ∈ A.cells ↔
      (∃ p ∈ cells, ∃ n ∈ owners (fixedMods sqrt mods) p.1,
        cell = ⟨{ p.1 with fixed := true }, [(n, 1)], 0⟩) ∨
      (∃ p ∈ cells, owners (fixedMods sqrt mods) p.1 = [] ∧ p.1.fixed = false ∧
        cell = ⟨p.1, allocOf iz p.1 (squared sqrt mods), p.2⟩) := by
  obtain ⟨_, hcells, _⟩ := ati_ok sqrt εA iz mods cells A h
  rw [hcells, List.mem_append, mem_preCells, mem_restCells]
  simp only [cellsD, List.mem_map]
  constructor
  · rintro (⟨c, ⟨r, hr, rfl⟩, n, hn, rfl⟩ | ⟨c, ⟨r, hr, rfl⟩, ho, hf, rfl⟩)
    · exact Or.inl ⟨r, hr, n, hn, rfl⟩
    · exact Or.inr ⟨r, hr, ho, hf, rfl⟩
  · rintro (⟨r, hr, n, hn, rfl⟩ | ⟨r, hr, ho, hf, rfl⟩)
    · exact Or.inl ⟨_, ⟨r, hr, rfl⟩, n, hn, rfl⟩
    · exact Or.inr ⟨_, ⟨r, hr, rfl⟩, ho, hf, rfl⟩

/-- **the repaired clamp never fires in exact arithmetic**: for a compatible netlist the ratio of a module in a
    proper cell is at most 1, so `if 1.0 < area < 1.0 + eps: area = 1.0` leaves it unchanged. -/
theorem NetOK.clamp_id {sqrt : α → α} {mods : List (Module α)} (hn : NetOK sqrt mods) {m : Module α}
    (hm : m ∈ mods) (c : Rect α) (hw : 0 < c.w) (hh : 0 < c.h) :
    ratioIn c (shapeOf sqrt m) ≤ 1 ∧ clampOne (ratioIn c (shapeOf sqrt m)) = ratioIn c (shapeOf sqrt m) := by
  have hle : ratioIn c (shapeOf sqrt m) ≤ 1 := by
    rw [ratioIn_eq, div_le_one (area_pos c hw hh)]; exact hn.cover_le hm c hw hh
  exact ⟨hle, clampOne_of_le _ hle⟩

end FV.InitAlloc

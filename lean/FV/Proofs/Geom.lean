import FV.Model.Geom
import Mathlib.Algebra.Order.Field.Basic
import Mathlib.Tactic.Linarith
import Mathlib.Tactic.Ring
import Mathlib.Tactic.FieldSimp
import Mathlib.Tactic.Positivity
/-
  Helper lemmas for the `Rectangle` model over an arbitrary linearly ordered field.
-/
namespace FV
set_option linter.unusedSectionVars false

variable {α : Type} [Field α] [LinearOrder α] [IsStrictOrderedRing α]

@[simp] theorem pyMax_eq (a b : α) : pyMax a b = max a b := by
  unfold pyMax; split
  · rw [max_eq_right (le_of_lt ‹_›)]
  · rw [max_eq_left (not_lt.mp ‹_›)]

@[simp] theorem pyMin_eq (a b : α) : pyMin a b = min a b := by
  unfold pyMin; split
  · rw [min_eq_right (le_of_lt ‹_›)]
  · rw [min_eq_left (not_lt.mp ‹_›)]

namespace Rect

@[simp] theorem two_eq : (two : α) = 2 := by simp [two]
@[simp] theorem zero_eq : (zero : α) = 0 := by simp [zero]
@[simp] theorem negOne_eq : (negOne : α) = -1 := by simp [negOne]

theorem xmax_sub_xmin (r : Rect α) : r.xmax - r.xmin = r.w := by
  simp only [xmax, xmin, two_eq]; ring
theorem ymax_sub_ymin (r : Rect α) : r.ymax - r.ymin = r.h := by
  simp only [ymax, ymin, two_eq]; ring

theorem xmin_lt_xmax (r : Rect α) (hw : 0 < r.w) : r.xmin < r.xmax := by
  have := xmax_sub_xmin r; linarith
theorem ymin_lt_ymax (r : Rect α) (hh : 0 < r.h) : r.ymin < r.ymax := by
  have := ymax_sub_ymin r; linarith

theorem cx_eq (r : Rect α) : r.cx = (r.xmin + r.xmax) / 2 := by
  simp only [xmax, xmin, two_eq]; ring
theorem cy_eq (r : Rect α) : r.cy = (r.ymin + r.ymax) / 2 := by
  simp only [ymax, ymin, two_eq]; ring

/-- 1-D length of the common part of two intervals, as computed by `area_overlap`. -/
def ovLen (lo1 hi1 lo2 hi2 : α) : α := max 0 (min hi1 hi2 - max lo1 lo2)

theorem areaOverlap_eq (a b : Rect α) :
    a.areaOverlap b = ovLen a.xmin a.xmax b.xmin b.xmax * ovLen a.ymin a.ymax b.ymin b.ymax := by
  unfold areaOverlap ovLen
  simp only [pyMax_eq, pyMin_eq, zero_eq]
  split
  · rename_i h
    rw [max_eq_left (by linarith)]; ring
  · rename_i h
    split
    · rename_i h2
      rw [max_eq_left (a := 0) (b := min a.ymax b.ymax - max a.ymin b.ymin) (by linarith)]; ring
    · rename_i h2
      have h' := not_le.mp h
      have h2' := not_le.mp h2
      rw [max_eq_right (a := 0) (b := min a.xmax b.xmax - max a.xmin b.xmin) (by linarith),
        max_eq_right (a := 0) (b := min a.ymax b.ymax - max a.ymin b.ymin) (by linarith)]

theorem ovLen_comm (l1 h1 l2 h2 : α) : ovLen l1 h1 l2 h2 = ovLen l2 h2 l1 h1 := by
  unfold ovLen; rw [min_comm, max_comm l1 l2]

theorem ovLen_nonneg (l1 h1 l2 h2 : α) : 0 ≤ ovLen l1 h1 l2 h2 := le_max_left _ _

theorem ovLen_pos_iff (l1 h1 l2 h2 : α) : 0 < ovLen l1 h1 l2 h2 ↔ max l1 l2 < min h1 h2 := by
  unfold ovLen
  constructor
  · intro h
    by_contra hc
    rw [max_eq_left (by linarith [not_lt.mp hc])] at h
    exact lt_irrefl _ h
  · intro h
    exact lt_max_of_lt_right (by linarith)

/-- additivity of the 1-D overlap when `[l, h]` is cut at `m ∈ [l, h]`. -/
theorem ovLen_split (l m h l2 h2 : α) (h1 : l ≤ m) (h3 : m ≤ h) :
    ovLen l m l2 h2 + ovLen m h l2 h2 = ovLen l h l2 h2 := by
  unfold ovLen
  grind

end Rect
end FV

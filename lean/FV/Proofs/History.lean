import FV.Proofs.Vars
/-
  Helper lemmas for C07, part 6: posting histories.  `MInv S m ps` says that manager `m` (sharing store `S`) encodes
  exactly the list `ps` of accepted constraints; every posting operation re-establishes it, and so does any growth
  of the store caused by other managers.  Core Lean only.
-/
set_option linter.unusedSectionVars false
namespace FV.Sat
open FV.PB

/-- a user variable (anything that is not `robdd_<n>` / `aux_<n>`) -/
def isUser : Var → Prop
  | .user _ => True
  | _ => False

/-- a constraint handed to the SAT layer -/
inductive Post where
  | clause (c : Clause)                      -- add_clause
  | imply (l1 : List Lit) (l2 : Lit)         -- imply
  | amoQ (lst : List Lit)                    -- quadraticencoding
  | amoH (k : Int) (lst : List Lit)          -- heuleencoding(lst, k)
  | pb (q : Ineq Var) (dec : Bool)           -- pseudoboolencoding(ineq, coefficientdecomposition)

/-- what the constraint means for an assignment -/
def Post.holds (τ : Var → Bool) : Post → Prop
  | .clause c => clauseTrue τ c = true
  | .imply l1 l2 => (∀ l ∈ l1, litTrue τ l = true) → litTrue τ l2 = true
  | .amoQ lst => amo τ lst
  | .amoH _ lst => amo τ lst
  | .pb q _ => q.holds τ

/-- the constraint is over user variables; an inequality is one built by the `Expr` algebra (normal form, C16) -/
def Post.WF : Post → Prop
  | .clause c => ∀ l ∈ c, isUser l.v
  | .imply l1 l2 => (∀ l ∈ l1, isUser l.v) ∧ isUser l2.v
  | .amoQ lst => ∀ l ∈ lst, isUser l.v
  | .amoH _ lst => ∀ l ∈ lst, isUser l.v
  | .pb q _ => q.lhs.NF ∧ q.lhs.c = 0 ∧ ∀ t ∈ q.lhs.t, isUser t.L.v

/-- the posting methods of `SATManager` -/
def Mgr.post (m : Mgr) (S : Store Var) : Post → Except Err (Mgr × Store Var)
  | .clause c => .ok (m.addClause c, S)
  | .imply l1 l2 => .ok (m.imply l1 l2, S)
  | .amoQ lst => .ok (m.quadratic lst, S)
  | .amoH k lst => match m.heule lst k with
      | .ok m' => .ok (m', S)
      | .error e => .error e
  | .pb q dec => m.pseudoBool S q dec

theorem holds_congr {p : Post} (hp : p.WF) {τ σ : Var → Bool} (h : ∀ v, isUser v → τ v = σ v) :
    p.holds τ ↔ p.holds σ := by
  cases p with
  | clause c => simp only [Post.holds]; rw [clauseTrue_congr (fun l hl => h l.v (hp l hl))]
  | imply l1 l2 =>
    simp only [Post.holds]
    rw [litTrue_congr (h l2.v hp.2)]
    constructor
    · intro hh hall; exact hh (fun l hl => by rw [litTrue_congr (h l.v (hp.1 l hl))]; exact hall l hl)
    · intro hh hall; exact hh (fun l hl => by rw [← litTrue_congr (h l.v (hp.1 l hl))]; exact hall l hl)
  | amoQ lst => simp only [Post.holds, amo]; rw [countP_litTrue_congr (fun l hl => h l.v (hp l hl))]
  | amoH k lst => simp only [Post.holds, amo]; rw [countP_litTrue_congr (fun l hl => h l.v (hp l hl))]
  | pb q dec =>
    simp only [Post.holds, Ineq.holds, Expr.eval]
    rw [termsVal_congr (fun t ht => h t.L.v (hp.2.2 t ht))]

/-- on encoded nodes the node function only looks at user variables -/
theorem evalNodeD_congr {S : Store Var} {m : Mgr} (hw : WFStore S) (hc : CodInv S m) (hv : CodVars S isUser m)
    {τ τ' : Var → Bool} (h : ∀ v, isUser v → τ v = τ' v) : ∀ j, j ∈ m.codified → evalNodeD S τ j = evalNodeD S τ' j := by
  intro j
  induction j using Nat.strongRecOn with
  | _ j ih =>
    intro hj
    by_cases h0 : j = 0
    · subst h0; rw [evalNodeD_leaf0 hw, evalNodeD_leaf0 hw]
    · by_cases h1 : j = 1
      · subst h1; rw [evalNodeD_leaf1 hw, evalNodeD_leaf1 hw]
      · have h2 : 2 ≤ j := by omega
        obtain ⟨hsz, _, hch⟩ := hc j hj
        have hget : S.memory[j]? = some S.memory[j] := List.getElem?_eq_getElem hsz
        obtain ⟨dv, i, e, hn, hi, he⟩ := hw.nodes j _ hget h2
        rw [hn] at hget
        obtain ⟨hic, hec⟩ := hch h2 dv i e hget
        rw [evalNodeD_node hw τ hget h2, evalNodeD_node hw τ' hget h2, h dv (hv j hj h2 dv i e hget),
          ih i hi hic, ih e he hec]

/-- manager `m` over store `S` encodes exactly the accepted constraints `ps` -/
structure MInv (S : Store Var) (m : Mgr) (ps : List Post) : Prop where
  wf : WFStore S
  cod : CodInv S m
  coduser : CodVars S isUser m
  mentions : ∀ c ∈ m.clauses, ∀ l ∈ c,
    isUser l.v ∨ (∃ a, l.v = .aux a ∧ a ≤ m.auxcount) ∨ (∃ j, l.v = .node j ∧ j ∈ m.codified)
  sound : ∀ τ, cnfTrue τ m.clauses → ∀ p ∈ ps, p.holds τ
  complete : ∀ σ, (∀ p ∈ ps, p.holds σ) → ∃ τ, (∀ v, isUser v → τ v = σ v) ∧
    (∀ j ∈ m.codified, τ (.node j) = evalNodeD S τ j) ∧ cnfTrue τ m.clauses

theorem minv_init {S : Store Var} (hw : WFStore S) : MInv S {} [] where
  wf := hw
  cod := by intro j hj; simp at hj
  coduser := by intro j hj; simp at hj
  mentions := by intro c hc; simp at hc
  sound := by intro τ _ p hp; simp at hp
  complete := by intro σ _; exact ⟨σ, fun _ _ => rfl, by intro j hj; simp at hj, by simp [cnfTrue]⟩

/-- a manager that has registered variables (`newvar`) but posted nothing yet encodes the empty list -/
theorem minv_registered {S : Store Var} (hw : WFStore S) (m0 : Mgr) (hc : m0.clauses = []) (hd : m0.codified = []) :
    MInv S m0 [] where
  wf := hw
  cod := by intro j hj; simp [hd] at hj
  coduser := by intro j hj; simp [hd] at hj
  mentions := by intro c hc'; simp [hc] at hc'
  sound := by intro τ _ p hp; simp at hp
  complete := by intro σ _; exact ⟨σ, fun _ _ => rfl, by intro j hj; simp [hd] at hj, by simp [cnfTrue, hc]⟩

/-- `newvar` only touches the variable table -/
theorem minv_newvar {S : Store Var} {m : Mgr} {ps : List Post} (h : MInv S m ps) (v : Var) : MInv S (m.newvar v) ps where
  wf := h.wf
  cod := fun j hj => (h.cod j (by simpa using hj)).mono (by simp) (by simp)
  coduser := by intro j hj; exact h.coduser j (by simpa using hj)
  mentions := by simpa using h.mentions
  sound := by simpa using h.sound
  complete := by simpa using h.complete

/-- other managers appending nodes to the shared store change nothing for this one -/
theorem minv_grow {S S' : Store Var} {m : Mgr} {ps : List Post} (h : MInv S m ps) (hle : S.le S') (hw' : WFStore S') :
    MInv S' m ps where
  wf := hw'
  cod := fun j hj => (h.cod j hj).le hle
  coduser := by
    intro j hj h2 v i e hn
    rw [Store.le_get hle (h.cod j hj).1] at hn
    exact h.coduser j hj h2 v i e hn
  mentions := h.mentions
  sound := h.sound
  complete := by
    intro σ hσ
    obtain ⟨τ, h1, h2, h3⟩ := h.complete σ hσ
    exact ⟨τ, h1, fun j hj => by rw [evalNodeD_le h.wf hle τ (h.cod j hj).1]; exact h2 j hj, h3⟩

theorem forall_mem_append_single {α : Type} {P : α → Prop} {l : List α} {a : α} :
    (∀ x ∈ l ++ [a], P x) ↔ (∀ x ∈ l, P x) ∧ P a := by
  simp only [List.mem_append, List.mem_singleton]
  exact ⟨fun h => ⟨fun x hx => h x (Or.inl hx), h a (Or.inr rfl)⟩, fun h x hx => hx.elim (h.1 x) (fun e => e ▸ h.2)⟩

/-- adding one clause over user variables that is equivalent to the posted constraint -/
theorem minv_addClause {S : Store Var} {m : Mgr} {ps : List Post} (h : MInv S m ps) (c : Clause) (p : Post)
    (hc : ∀ l ∈ c, isUser l.v) (hp : p.WF) (heq : ∀ τ, clauseTrue τ c = true ↔ p.holds τ) :
    MInv S (m.addClause c) (ps ++ [p]) where
  wf := h.wf
  cod := fun j hj => (h.cod j hj).mono (by simp; intro c' hc'; exact Or.inl hc') (by simp)
  coduser := h.coduser
  mentions := by
    intro c' hc' l hl
    simp at hc'
    rcases hc' with hc' | rfl
    · exact h.mentions c' hc' l hl
    · exact Or.inl (hc l hl)
  sound := by
    intro τ hτ
    simp only [addClause_clauses, cnfTrue_append, cnfTrue_single] at hτ
    rw [forall_mem_append_single]
    exact ⟨h.sound τ hτ.1, (heq τ).1 hτ.2⟩
  complete := by
    intro σ hσ
    rw [forall_mem_append_single] at hσ
    obtain ⟨τ, h1, h2, h3⟩ := h.complete σ hσ.1
    refine ⟨τ, h1, h2, ?_⟩
    simp only [addClause_clauses, cnfTrue_append, cnfTrue_single]
    exact ⟨h3, (heq τ).2 ((holds_congr hp h1).2 hσ.2)⟩

/-- a constraint that holds under every assignment needs no clause -/
theorem minv_taut {S : Store Var} {m : Mgr} {ps : List Post} (h : MInv S m ps) (p : Post) (ht : ∀ τ, p.holds τ) :
    MInv S m (ps ++ [p]) where
  wf := h.wf
  cod := h.cod
  coduser := h.coduser
  mentions := h.mentions
  sound := by intro τ hτ; rw [forall_mem_append_single]; exact ⟨h.sound τ hτ, ht τ⟩
  complete := by intro σ hσ; rw [forall_mem_append_single] at hσ; exact h.complete σ hσ.1

theorem isUser_not_newAux {lo hi : Nat} {v : Var} (h : isUser v) : ¬ newAux lo hi v := by
  rintro ⟨a, rfl, _⟩; exact h

/-- an at-most-one group, pairwise or chained -/
theorem minv_amo {S : Store Var} {m m' : Mgr} {ps : List Post} (h : MInv S m ps) {lst : List Lit} (st : AmoStep m m' lst)
    (hl : ∀ l ∈ lst, isUser l.v) (p : Post) (hp : p.WF) (hpe : ∀ τ, p.holds τ ↔ amo τ lst) :
    MInv S m' (ps ++ [p]) := by
  obtain ⟨ext, hext, hvars, hsound, hcompl⟩ := st.clauses
  have hcl : ∀ c ∈ m.clauses, c ∈ m'.clauses := by intro c hc; rw [hext]; simp [hc]
  refine ⟨h.wf, ?_, ?_, ?_, ?_, ?_⟩
  · intro j hj; rw [st.cod] at hj; exact (h.cod j hj).mono hcl (by rw [st.cod]; simp)
  · intro j hj; rw [st.cod] at hj; exact h.coduser j hj
  · intro c hc l hl'
    rw [hext] at hc
    rcases List.mem_append.1 hc with hc | hc
    · rcases h.mentions c hc l hl' with u | ⟨a, ha, hle⟩ | ⟨j, hj, hjc⟩
      · exact Or.inl u
      · exact Or.inr (Or.inl ⟨a, ha, Nat.le_trans hle st.aux_le⟩)
      · exact Or.inr (Or.inr ⟨j, hj, by rw [st.cod]; exact hjc⟩)
    · rcases hvars c hc l hl' with ⟨l', hl'', e⟩ | ⟨a, ha, _, h2⟩
      · exact Or.inl (by rw [e]; exact hl l' hl'')
      · exact Or.inr (Or.inl ⟨a, ha, h2⟩)
  · intro τ hτ
    rw [hext, cnfTrue_append] at hτ
    rw [forall_mem_append_single]
    exact ⟨h.sound τ hτ.1, (hpe τ).2 (hsound τ hτ.2)⟩
  · intro σ hσ
    rw [forall_mem_append_single] at hσ
    obtain ⟨τ, h1, h2, h3⟩ := h.complete σ hσ.1
    have hamo : amo τ lst := (hpe τ).1 ((holds_congr hp h1).2 hσ.2)
    obtain ⟨τ', hag, hτ'⟩ := hcompl τ hamo
    have huser : ∀ v, isUser v → τ' v = τ v := fun v hv => hag v (isUser_not_newAux hv)
    refine ⟨τ', fun v hv => by rw [huser v hv, h1 v hv], ?_, ?_⟩
    · intro j hj
      rw [st.cod] at hj
      have : τ' (.node j) = τ (.node j) := hag _ (by rintro ⟨a, ha, _⟩; simp at ha)
      rw [this, h2 j hj]
      exact (evalNodeD_congr h.wf h.cod h.coduser huser j hj).symm
    · rw [hext, cnfTrue_append]
      refine ⟨cnfTrue_congr ?_ h3, hτ'⟩
      intro c hc l hl'
      symm; apply hag
      rintro ⟨a, ha, hlo, _⟩
      rcases h.mentions c hc l hl' with u | ⟨a', ha', hle⟩ | ⟨j, hj, _⟩
      · rw [ha] at u; exact u
      · rw [ha] at ha'; simp at ha'; omega
      · rw [ha] at hj; simp at hj

/-- a pseudo-Boolean inequality through the ROBDD and its Tseitin encoding -/
theorem minv_pb_bdd {S S' : Store Var} {m m2 : Mgr} {ps : List Post} (h : MInv S m ps) (q : Ineq Var) (dec : Bool)
    (hq : (Post.pb q dec).WF) (hop : q.op = .ge) {root : Nat} (hget : q.getRobdd dec S = .ok (root, S'))
    (hcod : Mgr.codify S' (root + 1) root m = .ok m2) :
    MInv S' ((m2.newvar (.node root)).addClause [⟨.node root, true⟩]) (ps ++ [.pb q dec]) := by
  obtain ⟨hnf, hc0, huv⟩ := hq
  obtain ⟨id, S'', hg, w, le, hs, sem⟩ := getRobdd_spec q dec S h.wf hnf.1 hop
  rw [hg] at hget
  simp only [Except.ok.injEq, Prod.mk.injEq] at hget
  obtain ⟨rfl, rfl⟩ := hget
  have hv : VarsOK S'' isUser id := getRobdd_vars q dec S h.wf hnf.1 isUser huv hg
  have h' := minv_grow h le w
  obtain ⟨m2', r, step⟩ := codify_spec w (id + 1) id m hs (by omega)
  rw [r] at hcod
  simp only [Except.ok.injEq] at hcod
  subst hcod
  obtain ⟨ext, hext, hextj⟩ := step.clauses
  have cod2 : CodInv S'' m2' := by
    intro j hj
    exact step.inv (max j id + 1) (by omega) (fun j' hj' _ => h'.cod j' hj') j hj (by omega)
  have vars2 : CodVars S'' isUser m2' := codify_vars isUser _ _ _ _ r hv h'.coduser
  have hholds : ∀ τ : Var → Bool, evalNodeD S'' τ id = true ↔ q.holds τ := by
    intro τ
    rw [sem τ]
    simp [Ineq.holds, hop, Expr.eval, hc0]
  have hcl2 : ∀ c ∈ m2'.clauses, c ∈ ((m2'.newvar (.node id)).addClause [⟨.node id, true⟩]).clauses := by
    intro c hc; simp [hc]
  refine ⟨w, ?_, ?_, ?_, ?_, ?_⟩
  · intro j hj
    simp at hj
    exact (cod2 j hj).mono hcl2 (by simp)
  · intro j hj; simp at hj; exact vars2 j hj
  · intro c hc l hl
    simp only [addClause_clauses, newvar_clauses, hext, List.mem_append, List.mem_singleton, addClause_auxcount,
      newvar_auxcount, addClause_codified, newvar_codified] at hc ⊢
    rcases hc with (hc | hc) | rfl
    · rcases h'.mentions c hc l hl with u | ⟨a, ha, hle⟩ | ⟨j, hj, hjc⟩
      · exact Or.inl u
      · exact Or.inr (Or.inl ⟨a, ha, by rw [step.aux]; exact hle⟩)
      · exact Or.inr (Or.inr ⟨j, hj, step.cod_mono j hjc⟩)
    · obtain ⟨j, hj, _, hcj⟩ := hextj c hc
      obtain ⟨hsz, _, hch⟩ := cod2 j hj
      unfold nodeClauses at hcj
      split at hcj
      · rename_i h0; subst h0; simp at hcj; subst hcj; simp at hl; subst hl
        exact Or.inr (Or.inr ⟨0, rfl, hj⟩)
      · split at hcj
        · rename_i h1; subst h1; simp at hcj; subst hcj; simp at hl; subst hl
          exact Or.inr (Or.inr ⟨1, rfl, hj⟩)
        · rename_i h0 h1
          split at hcj
          · rename_i dv i e hn
            have h2 : 2 ≤ j := by omega
            obtain ⟨hi, he⟩ := hch h2 dv i e hn
            have hu := vars2 j hj h2 dv i e hn
            simp at hcj
            rcases hcj with rfl | rfl <;> simp at hl <;> rcases hl with rfl | rfl | rfl
            · exact Or.inr (Or.inr ⟨j, rfl, hj⟩)
            · exact Or.inl hu
            · exact Or.inr (Or.inr ⟨i, rfl, hi⟩)
            · exact Or.inr (Or.inr ⟨j, rfl, hj⟩)
            · exact Or.inl hu
            · exact Or.inr (Or.inr ⟨e, rfl, he⟩)
          · simp at hcj
    · simp at hl; subst hl
      exact Or.inr (Or.inr ⟨id, rfl, step.cod_id⟩)
  · intro τ hτ
    rw [forall_mem_append_single]
    have hτ2 : cnfTrue τ m2'.clauses := fun c hc => hτ c (hcl2 c hc)
    have hτ1 : cnfTrue τ m.clauses := fun c hc => hτ2 c (by rw [hext]; simp [hc])
    refine ⟨h'.sound τ hτ1, ?_⟩
    have hroot : τ (.node id) = true := by
      have := hτ [⟨.node id, true⟩] (by simp)
      simpa [clauseTrue, litTrue] using this
    exact (hholds τ).1 (codify_sound w cod2 τ hτ2 id step.cod_id hroot)
  · intro σ hσ
    rw [forall_mem_append_single] at hσ
    obtain ⟨τ, h1, h2, h3⟩ := h'.complete σ hσ.1
    -- give every freshly encoded node variable the value of its node
    obtain ⟨τ', hτ'⟩ : ∃ τ' : Var → Bool, ∀ v, τ' v = match v with
        | .node j => if j ∈ m.codified then τ (.node j) else if j ∈ m2'.codified then evalNodeD S'' τ j else τ (.node j)
        | v => τ v := ⟨_, fun _ => rfl⟩
    have ha : ∀ v, isUser v → τ' v = τ v := by
      intro v hv; rw [hτ']; cases v <;> simp [isUser] at hv ⊢
    have hb : ∀ j ∈ m.codified, τ' (.node j) = τ (.node j) := by intro j hj; rw [hτ']; simp [hj]
    have hc : ∀ j ∈ m2'.codified, j ∉ m.codified → τ' (.node j) = evalNodeD S'' τ j := by
      intro j hj hn; rw [hτ']; simp [hj, hn]
    have hd : ∀ a, τ' (.aux a) = τ (.aux a) := by intro a; rw [hτ']
    have he : ∀ j ∈ m2'.codified, evalNodeD S'' τ' j = evalNodeD S'' τ j :=
      fun j hj => evalNodeD_congr w cod2 vars2 ha j hj
    have hf : ∀ j ∈ m2'.codified, τ' (.node j) = evalNodeD S'' τ' j := by
      intro j hj
      rw [he j hj]
      by_cases hjm : j ∈ m.codified
      · rw [hb j hjm]; exact h2 j hjm
      · exact hc j hj hjm
    have hold : cnfTrue τ' m.clauses := by
      refine cnfTrue_congr ?_ h3
      intro c hc' l hl
      rcases h'.mentions c hc' l hl with u | ⟨a, ha', _⟩ | ⟨j, hj, hjc⟩
      · exact (ha _ u).symm
      · rw [ha']; exact (hd a).symm
      · rw [hj]; exact (hb j hjc).symm
    refine ⟨τ', fun v hv => by rw [ha v hv, h1 v hv], ?_, ?_⟩
    · intro j hj; simp at hj; exact hf j hj
    · simp only [addClause_clauses, newvar_clauses, hext, cnfTrue_append, cnfTrue_single]
      refine ⟨⟨hold, ?_⟩, ?_⟩
      · intro c hc'
        obtain ⟨j, hj, _, hcj⟩ := hextj c hc'
        obtain ⟨hsz, _, hch⟩ := cod2 j hj
        exact nodeClauses_true w τ' hsz (hf j hj)
          (fun h2' v i e hn => ⟨hf i (hch h2' v i e hn).1, hf e (hch h2' v i e hn).2⟩) c hcj
      · have : τ' (.node id) = true := by
          rw [hf id step.cod_id]
          exact (hholds τ').2 ((holds_congr (p := .pb q dec) ⟨hnf, hc0, huv⟩
            (fun v hv => by rw [ha v hv, h1 v hv])).2 hσ.2)
        simp [clauseTrue, litTrue, this]

theorem isClause_lits {q : Ineq Var} {c : Clause} (h : q.isClause = .clause c) : ∀ l ∈ c, ∃ t ∈ q.lhs.t, l = t.L := by
  unfold Ineq.isClause at h
  split at h
  · simp at h
  · split at h
    · simp at h
    · dsimp only at h
      split at h
      · simp at h
      · simp only [ClauseRes.clause.injEq] at h
        subst h
        intro l hl
        simp only [pySortLits, List.mem_reverse, List.mem_map] at hl
        obtain ⟨t, ht, rfl⟩ := hl
        exact ⟨t, mem_sortDesc.1 (mem_of_mem_takeWhile' ht), rfl⟩

/-- every accepted posting re-establishes the invariant, with the new constraint added to the list -/
theorem minv_post {S S' : Store Var} {m m' : Mgr} {ps : List Post} (h : MInv S m ps) (p : Post) (hp : p.WF)
    (hpost : m.post S p = .ok (m', S')) : MInv S' m' (ps ++ [p]) := by
  cases p with
  | clause c =>
    simp only [Mgr.post, Except.ok.injEq, Prod.mk.injEq] at hpost
    obtain ⟨rfl, rfl⟩ := hpost
    exact minv_addClause h c _ hp hp (fun τ => Iff.rfl)
  | imply l1 l2 =>
    simp only [Mgr.post, Except.ok.injEq, Prod.mk.injEq] at hpost
    obtain ⟨rfl, rfl⟩ := hpost
    refine minv_addClause h _ _ ?_ hp (fun τ => imply_clause_exact τ l1 l2)
    intro l hl
    simp only [List.mem_append, List.mem_map, List.mem_singleton] at hl
    rcases hl with ⟨l', hl', rfl⟩ | rfl
    · exact hp.1 l' hl'
    · exact hp.2
  | amoQ lst =>
    simp only [Mgr.post, Except.ok.injEq, Prod.mk.injEq] at hpost
    obtain ⟨rfl, rfl⟩ := hpost
    exact minv_amo h (quadratic_step m lst) hp _ hp (fun τ => Iff.rfl)
  | amoH k lst =>
    simp only [Mgr.post, Mgr.heule] at hpost
    split at hpost
    · rename_i m'' hh
      simp only [Except.ok.injEq, Prod.mk.injEq] at hpost
      obtain ⟨rfl, rfl⟩ := hpost
      split at hh
      · simp at hh
      · simp only [Except.ok.injEq] at hh
        subst hh
        refine minv_amo h (heuleGo_step k.toNat _ _ lst m rfl ?_) hp _ hp (fun τ => Iff.rfl)
        intro l hl a ha
        have := hp l hl
        rw [ha] at this
        exact absurd this (by simp [isUser])
    · simp at hpost
  | pb q dec =>
    simp only [Mgr.post, Mgr.pseudoBool] at hpost
    have hex := fun τ => isClause_exact' q (fun t ht => hp.1.1 t ht) hp.2.1 τ
    split at hpost
    · rename_i ht
      simp only [Except.ok.injEq, Prod.mk.injEq] at hpost
      obtain ⟨rfl, rfl⟩ := hpost
      exact minv_taut h _ (fun τ => (hex τ).1 ht)
    · rename_i c hc
      simp only [Except.ok.injEq, Prod.mk.injEq] at hpost
      obtain ⟨rfl, rfl⟩ := hpost
      refine minv_addClause h c _ ?_ hp (fun τ => (hex τ).2 c hc)
      intro l hl
      obtain ⟨t, ht, rfl⟩ := isClause_lits hc l hl
      exact hp.2.2 t ht
    · split at hpost
      · simp at hpost
      · simp at hpost
      · rename_i root S1 hget
        have hop : q.op = .ge := by
          apply Classical.byContradiction
          intro hne
          rw [getRobdd_refused q dec S hne] at hget
          simp at hget
        cases hcod : Mgr.codify S1 (root + 1) root m with
        | error e => simp [hcod, bind, Except.bind] at hpost
        | ok m2 =>
          simp only [hcod, bind, Except.bind, pure, Except.pure, Except.ok.injEq, Prod.mk.injEq] at hpost
          obtain ⟨rfl, rfl⟩ := hpost
          exact minv_pb_bdd h q dec hp hop hget hcod

/-- One manager's view of a process history.  `Run m S ps m' S'`: starting from manager `m` and store `S`, the
    accepted constraints were exactly `ps` (in order) and the final state is `m'`, `S'`.  Between its own operations
    the shared store may grow arbitrarily through other managers (`grow`; they keep it well formed, see
    `store_history_wf`); a refused constraint (`refused`) changes nothing; `newvar` registers a variable name at
    any point (in the Python every literal handed to a posting method comes from `SATManager.newvar`; posting itself
    registers nothing except the variables the encodings create); `solve` is a call of `solve()` in the middle of
    the history, with whatever the solver answered (it only replaces `self.model`; a `solve()` that raises changes
    nothing). -/
inductive Run : Mgr → Store Var → List Post → Mgr → Store Var → Prop
  | done (m : Mgr) (S : Store Var) : Run m S [] m S
  | grow {m : Mgr} {S S' : Store Var} {ps : List Post} {m' : Mgr} {S'' : Store Var} :
      S.le S' → WFStore S' → Run m S' ps m' S'' → Run m S ps m' S''
  | ok {m : Mgr} {S : Store Var} {p : Post} {m1 : Mgr} {S1 : Store Var} {ps : List Post} {m' : Mgr} {S' : Store Var} :
      m.post S p = .ok (m1, S1) → Run m1 S1 ps m' S' → Run m S (p :: ps) m' S'
  | refused {m : Mgr} {S : Store Var} {p : Post} {e : Err} {ps : List Post} {m' : Mgr} {S' : Store Var} :
      m.post S p = .error e → Run m S ps m' S' → Run m S ps m' S'
  | newvar {m : Mgr} {S : Store Var} (v : Var) {ps : List Post} {m' : Mgr} {S' : Store Var} :
      Run (m.newvar v) S ps m' S' → Run m S ps m' S'
  | solve {m : Mgr} {S : Store Var} (ans : Option (List Int)) {b : Bool} {m1 : Mgr} {ps : List Post} {m' : Mgr}
      {S' : Store Var} : m.solve ans = .ok (b, m1) → Run m1 S ps m' S' → Run m S ps m' S'

/-- `solve()` only writes `self.model` -/
theorem solve_fields {m m1 : Mgr} {ans : Option (List Int)} {b : Bool} (h : m.solve ans = .ok (b, m1)) :
    m1.clauses = m.clauses ∧ m1.codified = m.codified ∧ m1.auxcount = m.auxcount ∧ m1.vars = m.vars := by
  unfold Mgr.solve at h
  split at h
  · simp at h
  · split at h
    · simp at h; obtain ⟨_, rfl⟩ := h; simp
    · split at h
      · simp at h
      · simp at h; obtain ⟨_, rfl⟩ := h; simp

theorem minv_solve {S : Store Var} {m m1 : Mgr} {ps : List Post} (h : MInv S m ps) {ans : Option (List Int)} {b : Bool}
    (hs : m.solve ans = .ok (b, m1)) : MInv S m1 ps := by
  obtain ⟨hc, hd, ha, _⟩ := solve_fields hs
  exact ⟨h.wf, fun j hj => (h.cod j (hd ▸ hj)).mono (by simp [hc]) (by simp [hd]),
    fun j hj => h.coduser j (hd ▸ hj), by rw [hc, hd, ha]; exact h.mentions, by rw [hc]; exact h.sound,
    by rw [hc, hd]; exact h.complete⟩

theorem minv_run {m : Mgr} {S : Store Var} {ps : List Post} {m' : Mgr} {S' : Store Var} (r : Run m S ps m' S') :
    ∀ qs, MInv S m qs → (∀ p ∈ ps, p.WF) → MInv S' m' (qs ++ ps) := by
  induction r with
  | done m S => intro qs h _; simpa using h
  | grow hle hw _ ih => intro qs h hp; exact ih qs (minv_grow h hle hw) hp
  | ok hpost _ ih =>
    intro qs h hp
    have := ih _ (minv_post h _ (hp _ (by simp)) hpost) (fun p' hp' => hp p' (by simp [hp']))
    simpa [List.append_assoc] using this
  | refused _ _ ih => intro qs h hp; exact ih qs h hp
  | newvar v _ ih => intro qs h hp; exact ih qs (minv_newvar h v) hp
  | solve ans hs _ ih => intro qs h hp; exact ih qs (minv_solve h hs) hp

/-- histories compose -/
theorem run_trans {m : Mgr} {S : Store Var} {ps : List Post} {m1 : Mgr} {S1 : Store Var} (r : Run m S ps m1 S1) :
    ∀ {qs : List Post} {m' : Mgr} {S' : Store Var}, Run m1 S1 qs m' S' → Run m S (ps ++ qs) m' S' := by
  induction r with
  | done => intro qs m' S' r2; simpa using r2
  | grow hle hw _ ih => intro qs m' S' r2; exact Run.grow hle hw (ih r2)
  | ok hpost _ ih => intro qs m' S' r2; exact Run.ok hpost (ih r2)
  | refused he _ ih => intro qs m' S' r2; exact Run.refused he (ih r2)
  | newvar v _ ih => intro qs m' S' r2; exact Run.newvar v (ih r2)
  | solve ans hs _ ih => intro qs m' S' r2; exact Run.solve ans hs (ih r2)

/-- executable form of a history: register `vs`, then post `ps` in order, skipping what is refused; returns the final
    manager, the final store and the accepted constraints -/
def execPosts : Mgr → Store Var → List Post → Mgr × Store Var × List Post
  | m, S, [] => (m, S, [])
  | m, S, p :: r =>
    match m.post S p with
    | .ok (m1, S1) => let x := execPosts m1 S1 r; (x.1, x.2.1, p :: x.2.2)
    | .error _ => execPosts m S r

theorem execPosts_subset : ∀ (ps : List Post) (m : Mgr) (S : Store Var), ∀ p ∈ (execPosts m S ps).2.2, p ∈ ps
  | [], _, _ => by simp [execPosts]
  | q :: r, m, S => by
    unfold execPosts
    cases h : m.post S q with
    | ok x =>
      obtain ⟨m1, S1⟩ := x
      intro p hp
      simp only [List.mem_cons] at hp ⊢
      rcases hp with e | hp
      · exact Or.inl e
      · exact Or.inr (execPosts_subset r m1 S1 p hp)
    | error e => intro p hp; exact List.mem_cons_of_mem _ (execPosts_subset r m S p hp)

def registerAll (m : Mgr) (vs : List Var) : Mgr := vs.foldl Mgr.newvar m

theorem run_execPosts : ∀ (ps : List Post) (m : Mgr) (S : Store Var),
    Run m S (execPosts m S ps).2.2 (execPosts m S ps).1 (execPosts m S ps).2.1
  | [], m, S => Run.done m S
  | p :: r, m, S => by
    unfold execPosts
    cases h : m.post S p with
    | ok x => obtain ⟨m1, S1⟩ := x; exact Run.ok h (run_execPosts r m1 S1)
    | error e => exact Run.refused h (run_execPosts r m S)

theorem run_registerAll : ∀ (vs : List Var) {m : Mgr} {S : Store Var} {ps : List Post} {m' : Mgr} {S' : Store Var},
    Run (registerAll m vs) S ps m' S' → Run m S ps m' S'
  | [], _, _, _, _, _, r => r
  | v :: vs, m, _, _, _, _, r => Run.newvar v (run_registerAll vs (m := m.newvar v) r)

end FV.Sat

import FV.Proofs.InitAllocDie
import FV.Proofs.GlbAlloc
/-
  Bridge from the initial allocation (C03) to the start state of `glbfloor` (C10, `FV.C10.glbfloor_correct`):
  the allocation returned by `create_initial_allocation(die)` (include-zero off, as `glbfloor` calls it) is accepted
  by the allocation model of C02 (`FV.Alloc.mkAllocation`, hence `ValidAlloc`), its cells lie inside the die, and every
  fixed module owns its cells in the sense of `FV.Glb.FixedOwn`.

  ADAPTERS (stated; all three cell records have the same fields `rect / alloc / depth`):
    * `toAllocCell : FV.InitAlloc.Cell → FV.Alloc.Cell`      field-by-field copy;
    * `FV.Glb.ofCell : FV.Alloc.Cell → FV.Glb.RectAlloc`     builder-glb's, field-by-field copy (round trips are `rfl`);
    * modules: `FV.Glb.Module` (name, hard, fixed, flip, centre, rectangles) vs `FV.InitAlloc.Module`
      (name, fixed, rectangles, areas, centre) are two views of `frame.netlist.module.Module`; `FixedOwn` reads only the
      name and the rectangles, so the link is `GlbModsOf`: every fixed Glb module has a fixed counterpart with the
      same name and rectangles;
    * tolerances: the class-wide `Rectangle` tolerances are `st : FV.Alloc.Eps` (C02/C10) and the area tolerance `εA`
      of the C03 model is `st.area`;
    * identifiers: the C03 model does not model `valid_identifier`; that module names are identifiers is a netlist
      side condition here (`hid`).
-/
namespace FV.InitAlloc
open FV FV.Rect
set_option linter.unusedSectionVars false
set_option linter.unusedSimpArgs false
set_option linter.unusedVariables false

variable {α : Type} [Field α] [LinearOrder α] [IsStrictOrderedRing α]

/-- adapter: the same record in the allocation model of C02/C12. -/
def toAllocCell (c : Cell α) : Alloc.Cell α := ⟨c.rect, c.alloc, c.depth⟩

/-- link between the two views of the netlist's modules (only fixed modules matter for `FixedOwn`). -/
def GlbModsOf (mods : List (Module α)) (gmods : List (Glb.Module α)) : Prop :=
  ∀ f ∈ gmods, f.fixed = true → ∃ m ∈ mods, m.fixed = true ∧ m.name = f.name ∧ m.rects = f.rects ∧
    -- `Netlist._create_rectangles`: `if m.num_rectangles > 0: m.calculate_center_from_rectangles()` — the centre
    -- `glbfloor` reads (`module.center`, optimization.py 291-294) is the area-weighted mean of the rectangle centres
    f.cx = Glb.momentX f.rects / Glb.totalArea f.rects ∧ f.cy = Glb.momentY f.rects / Glb.totalArea f.rects

theorem noOverlap_pairwise (εA : α) (cs : List (Cell α)) (h : noOverlap εA cs = true) :
    cs.Pairwise fun c d => c.rect.areaOverlap d.rect ≤ εA := by
  induction cs with
  | nil => exact List.Pairwise.nil
  | cons c cs ih =>
    simp only [noOverlap, Bool.and_eq_true, List.all_eq_true] at h
    rw [List.pairwise_cons]
    refine ⟨?_, ih h.2⟩
    intro d hd
    have := h.1 d hd
    simpa [Rect.overlap] using this

theorem mem_addKeys (al : Alloc.Alloc α) (acc : List String) (m : String)
    (h : m ∈ Alloc.addKeys acc al) : m ∈ acc ∨ ∃ p ∈ al, p.1 = m := by
  unfold Alloc.addKeys at h
  induction al generalizing acc with
  | nil => exact Or.inl h
  | cons p ps ih =>
    rw [List.foldl_cons] at h
    rcases ih _ h with h1 | ⟨q, hq, rfl⟩
    · split at h1
      · exact Or.inl h1
      · rcases List.mem_append.mp h1 with h2 | h2
        · exact Or.inl h2
        · simp only [List.mem_singleton] at h2
          exact Or.inr ⟨p, List.mem_cons_self, h2.symm⟩
    · exact Or.inr ⟨q, List.mem_cons_of_mem _ hq, rfl⟩

theorem mem_alloc_modules (cs : List (Alloc.Cell α)) (m : String) (h : m ∈ Alloc.modules cs) :
    ∃ c ∈ cs, ∃ p ∈ c.alloc, p.1 = m := by
  unfold Alloc.modules at h
  have key : ∀ (l : List (Alloc.Cell α)) (acc : List String),
      m ∈ l.foldl (fun acc c => Alloc.addKeys acc c.alloc) acc → m ∈ acc ∨ ∃ c ∈ l, ∃ p ∈ c.alloc, p.1 = m := by
    intro l
    induction l with
    | nil => intro acc h; exact Or.inl h
    | cons c cs ih =>
      intro acc h
      rw [List.foldl_cons] at h
      rcases ih _ h with h1 | ⟨d, hd, hp⟩
      · rcases mem_addKeys c.alloc acc m h1 with h2 | h2
        · exact Or.inl h2
        · exact Or.inr ⟨c, List.mem_cons_self, h2⟩
      · exact Or.inr ⟨d, List.mem_cons_of_mem _ hd, hp⟩
  rcases key cs [] h with h1 | h1
  · simp at h1
  · exact h1

theorem areaSum_toAllocCell (cs : List (Cell α)) (m : String) :
    Alloc.areaSum m (cs.map toAllocCell) = allocatedSum cs m := by
  unfold Alloc.areaSum allocatedSum
  rw [List.map_map]
  congr 1
  apply List.map_congr_left
  intro c _
  simp only [Function.comp, toAllocCell, Alloc.occ]
  cases c.alloc.lookup m with
  | none => simp
  | some v => simp

theorem filterMap_keys_sublist (l : List (Module α)) (cnd : Module α → Bool) (g : Module α → α) :
    List.Sublist ((l.filterMap fun m => if cnd m = true then some (m.name, g m) else none).map Prod.fst)
      (l.map (·.name)) := by
  induction l with
  | nil => simp
  | cons m ms ih =>
    simp only [List.filterMap_cons, List.map_cons]
    by_cases hc : cnd m = true
    · simp only [hc, ↓reduceIte, List.map_cons]; exact List.Sublist.cons_cons _ ih
    · simp only [hc, Bool.false_eq_true, ↓reduceIte]; exact List.Sublist.cons _ ih

/-- **the result of `create_initial_allocation` is a start state of `glbfloor`** (cells-level statement). -/
theorem glb_start_of_cells (env : Alloc.Env α) (st : Alloc.Eps α) (sqrt : α → α) (mods : List (Module α))
    (refinable fixed : List (Rect α)) (A : Allocation α) (die : Rect α)
    (h : createInitialAllocation sqrt st.area false mods refinable fixed = .ok A)
    (hd : 0 ≤ st.dist) (ha : 0 ≤ st.area)
    (hn : NetOK sqrt mods) (hid : ∀ m ∈ mods, Alloc.validIdent m.name = true)
    (hc : CellsProper (refinable ++ fixed)) (hf : FixedOK mods (refinable ++ fixed))
    (hq : ∀ c ∈ refinable ++ fixed, c.isInside die = true ∧ 0 ≤ c.xmin ∧ 0 ≤ c.ymin) :
    ∃ a, Alloc.mkAllocation env st ((A.cells.map toAllocCell).map Alloc.Cell.toRaw) = .ok (a, st) ∧
      a.cells = A.cells.map toAllocCell ∧ Alloc.ValidAlloc st a ∧
      (∀ c ∈ a.cells, c.rect.isInside die = true) ∧
      ∀ m ∈ mods, m.fixed = true → ∀ f : Glb.Module α, f.name = m.name → f.rects = m.rects →
        Glb.FixedOwn (a.cells.map Glb.ofCell) f := by
  have hmem := mem_cells_iff sqrt st.area false mods refinable fixed A h
  obtain ⟨_, hcells, hmk, _⟩ := cia_ok sqrt st.area false mods refinable fixed A h
  obtain ⟨_, hrv, hbb, hno, hst⟩ := mkAllocation_ok st.area A.cells A hmk
  obtain ⟨hnames, hstats⟩ := areasAndCenters_ok A.cells _ A.stats hst
  have hnn : ((squared sqrt mods).map (·.name)).Nodup := by rw [squared_names]; exact hn.names
  -- geometry of a returned cell: one of the die cells, possibly flagged
  have hgeo : ∀ cell ∈ A.cells, ∃ c ∈ refinable ++ fixed, cell.rect = c ∨ cell.rect = { c with fixed := true } := by
    intro cell hcell
    rcases (hmem cell).mp hcell with ⟨c, hcm, n, _, rfl⟩ | ⟨c, hcm, _, _, rfl⟩
    · exact ⟨c, hcm, Or.inr rfl⟩
    · exact ⟨c, hcm, Or.inl rfl⟩
  have hcok : Alloc.CellsOK st.area (A.cells.map toAllocCell) := by
    refine ⟨?_, ?_, ?_, ?_, ?_⟩
    · intro he
      have : A.cells = [] := by simpa using he
      rw [this] at hbb; simp [boundingBox] at hbb
    · intro c' hc'
      obtain ⟨cell, hcell, rfl⟩ := List.mem_map.mp hc'
      obtain ⟨c, hcm, hr⟩ := hgeo cell hcell
      have hp := hc c hcm
      have hqq := hq c hcm
      unfold Alloc.CellGood
      simp only [toAllocCell]
      rcases hr with hr | hr <;> rw [hr] <;> exact ⟨hp.1, hp.2, hqq.2.1, hqq.2.2⟩
    · intro c' hc'
      obtain ⟨cell, hcell, rfl⟩ := List.mem_map.mp hc'
      simp only [toAllocCell, Alloc.allocOK, Bool.and_eq_true, List.all_eq_true, decide_eq_true_eq, Rect.zero_eq,
        Alloc.one_eq]
      have hb := List.all_eq_true.mp hrv cell hcell
      refine ⟨?_, ?_⟩
      · intro p hp
        have hbp := List.all_eq_true.mp hb p hp
        simp only [Bool.and_eq_true, decide_eq_true_eq, zero_eq, one_eq] at hbp
        refine ⟨⟨?_, hbp.1⟩, hbp.2⟩
        rcases (hmem cell).mp hcell with ⟨c, _, n, hno', rfl⟩ | ⟨c, _, _, _, rfl⟩
        · simp only [List.mem_singleton] at hp
          subst hp
          obtain ⟨m', hm', hname, _⟩ := (mem_owners _ _ _).mp hno'
          obtain ⟨m, hm, _, rfl⟩ := (mem_fixedMods sqrt mods m').mp hm'
          rw [← hname]; exact hid m hm
        · obtain ⟨m', hm', rfl, _⟩ := allocOf_keys false c (squared sqrt mods) hnn p hp
          obtain ⟨m, hm, rfl⟩ := (mem_squared sqrt mods m').mp hm'
          exact hid m hm
      · rcases (hmem cell).mp hcell with ⟨c, _, n, _, rfl⟩ | ⟨c, _, _, _, rfl⟩
        · simp
        · simp only
          rw [allocOf_eq false c (squared sqrt mods) hnn]
          exact decide_eq_true (List.Nodup.sublist
            (filterMap_keys_sublist (squared sqrt mods) (fun m => false || decide (0 < ratioOf c m)) (ratioOf c)) hnn)
    · have := noOverlap_pairwise st.area A.cells hno
      rw [List.pairwise_map]
      exact this
    · intro m hm
      obtain ⟨c', hc', p, hp, hpm⟩ := mem_alloc_modules _ m hm
      obtain ⟨cell, hcell, rfl⟩ := List.mem_map.mp hc'
      rw [areaSum_toAllocCell]
      have : m ∈ moduleOrder A.cells := (mem_moduleOrder A.cells m).mpr ⟨cell, hcell, p, hp, hpm⟩
      rw [← hnames] at this
      obtain ⟨e, he, rfl⟩ := List.mem_map.mp this
      rw [← (hstats e he).1]; exact (hstats e he).2
  obtain ⟨a, ha1, ha2, ha3⟩ := Alloc.mkAllocation_obj_ok env st _ hd ha hcok
  refine ⟨a, ha1, ha2, ha3, ?_, ?_⟩
  · intro c' hc'
    rw [ha2] at hc'
    obtain ⟨cell, hcell, rfl⟩ := List.mem_map.mp hc'
    obtain ⟨c, hcm, hr⟩ := hgeo cell hcell
    simp only [toAllocCell]
    rcases hr with hr | hr <;> rw [hr] <;> exact (hq c hcm).1
  · intro m hm hfx f hfn hfr ra hra
    rw [ha2, List.map_map] at hra
    obtain ⟨cell, hcell, rfl⟩ := List.mem_map.mp hra
    simp only [Function.comp, Glb.ofCell, toAllocCell, hfn, hfr]
    have hsh : shapeOf sqrt m = m.rects := shapeOf_of_rects sqrt m (hf.fixed_have_rects m hm hfx)
    rcases (hmem cell).mp hcell with ⟨c, hcm, n, hno', rfl⟩ | ⟨c, hcm, ho, _, rfl⟩
    · by_cases hnm : n = m.name
      · subst hnm; exact Or.inl rfl
      · right
        refine ⟨?_, ?_⟩
        · have : (m.name == n) = false := by simpa using fun e => hnm e.symm
          simp [List.lookup, this]
        · intro r hr
          obtain ⟨m'', hm'', hname, hratio⟩ := (mem_owners _ _ _).mp hno'
          obtain ⟨m', hm', hfx', rfl⟩ := (mem_fixedMods sqrt mods m'').mp hm''
          simp only at hratio hname
          rw [ratioIn_eq] at hratio
          have hp := hc c hcm
          have hpos' : 0 < overlapSum c (shapeOf sqrt m') / c.area := by linarith [eps6_lt_one (α := α)]
          rw [div_pos_iff_of_pos_right (area_pos c hp.1 hp.2)] at hpos'
          obtain ⟨r', hr', hg⟩ := geo_of_positive_overlap hn hf hm' hfx' hcm hpos'
          have hg2 : GeoEq ({ c with fixed := true } : Rect α) r' := hg
          rw [hg2.areaOverlap_left]
          exact hf.fixed_apart m' hm' m hm hfx' hfx (fun e => hnm (by rw [← hname, e])) r' hr' r hr
    · right
      have hp := hc c hcm
      have hz : ¬ 0 < overlapSum c (shapeOf sqrt m) := by
        intro hpos
        obtain ⟨r, hr, hg⟩ := geo_of_positive_overlap hn hf hm hfx hcm hpos
        have := (owners_of_fixed_cell hn hf hm hfx hr hg m.name).mpr rfl
        rw [ho] at this; simp at this
      refine ⟨?_, ?_⟩
      · simp only
        rw [hn.lookup_rest false hm c hp.1 hp.2]
        simp [hz]
      · intro r hr
        simp only
        by_contra hne
        have hpos : 0 < c.areaOverlap r := lt_of_le_of_ne (areaOverlap_nonneg' c r) (Ne.symm hne)
        exact hz ((overlapSum_pos_iff c _).mpr ⟨r, by rw [hsh]; exact hr, hpos⟩)

/-- a weighted mean (positive weights) of values in `[lo, hi]` lies in `[lo, hi]`. -/
theorem weighted_mean_bounds {β : Type} (l : List β) (v wt : β → α) (lo hi : α) (hne : l ≠ [])
    (hw : ∀ x ∈ l, 0 < wt x) (hv : ∀ x ∈ l, lo ≤ v x ∧ v x ≤ hi) :
    0 < (l.map wt).sum ∧ lo ≤ (l.map fun x => v x * wt x).sum / (l.map wt).sum ∧
      (l.map fun x => v x * wt x).sum / (l.map wt).sum ≤ hi := by
  have key : ∀ l : List β, (∀ x ∈ l, 0 < wt x) → (∀ x ∈ l, lo ≤ v x ∧ v x ≤ hi) →
      0 ≤ (l.map wt).sum ∧ lo * (l.map wt).sum ≤ (l.map fun x => v x * wt x).sum ∧
        (l.map fun x => v x * wt x).sum ≤ hi * (l.map wt).sum := by
    intro l
    induction l with
    | nil => intro _ _; simp
    | cons x xs ih =>
      intro hw hv
      obtain ⟨i1, i2, i3⟩ := ih (fun y hy => hw y (List.mem_cons_of_mem _ hy)) (fun y hy => hv y (List.mem_cons_of_mem _ hy))
      have hx := hw x List.mem_cons_self
      obtain ⟨v1, v2⟩ := hv x List.mem_cons_self
      simp only [List.map_cons, List.sum_cons]
      refine ⟨by linarith, ?_, ?_⟩ <;> nlinarith
  obtain ⟨_, k2, k3⟩ := key l hw hv
  have hpos : 0 < (l.map wt).sum := by
    cases l with
    | nil => exact absurd rfl hne
    | cons x xs =>
      obtain ⟨i1, _, _⟩ := key xs (fun y hy => hw y (List.mem_cons_of_mem _ hy)) (fun y hy => hv y (List.mem_cons_of_mem _ hy))
      have := hw x List.mem_cons_self
      simp only [List.map_cons, List.sum_cons]; linarith
  exact ⟨hpos, by rw [le_div_iff₀ hpos]; exact k2, by rw [div_le_iff₀ hpos]; exact k3⟩

/-- the centroid of proper rectangles lying in `[0,W] × [0,H]` lies there too. -/
theorem centroid_in_box (rs : List (Rect α)) (W H : α) (hne : rs ≠ []) (hp : ∀ r ∈ rs, 0 < r.w ∧ 0 < r.h)
    (hin : ∀ r ∈ rs, 0 ≤ r.xmin ∧ r.xmax ≤ W ∧ 0 ≤ r.ymin ∧ r.ymax ≤ H) :
    0 ≤ Glb.momentX rs / Glb.totalArea rs ∧ Glb.momentX rs / Glb.totalArea rs ≤ W ∧
    0 ≤ Glb.momentY rs / Glb.totalArea rs ∧ Glb.momentY rs / Glb.totalArea rs ≤ H := by
  have hwt : ∀ r ∈ rs, 0 < r.area := fun r hr => area_pos r (hp r hr).1 (hp r hr).2
  have hx : ∀ r ∈ rs, 0 ≤ r.cx ∧ r.cx ≤ W := by
    intro r hr
    obtain ⟨a, b, _, _⟩ := hin r hr
    have := (hp r hr).1
    simp only [xmin, xmax, two_eq] at a b
    exact ⟨by linarith, by linarith⟩
  have hy : ∀ r ∈ rs, 0 ≤ r.cy ∧ r.cy ≤ H := by
    intro r hr
    obtain ⟨_, _, a, b⟩ := hin r hr
    have := (hp r hr).2
    simp only [ymin, ymax, two_eq] at a b
    exact ⟨by linarith, by linarith⟩
  obtain ⟨_, x1, x2⟩ := weighted_mean_bounds rs (·.cx) Rect.area 0 W hne hwt hx
  obtain ⟨_, y1, y2⟩ := weighted_mean_bounds rs (·.cy) Rect.area 0 H hne hwt hy
  exact ⟨x1, x2, y1, y2⟩

theorem isInside_of_inside (r die : Rect α) (h : Inside r die) : r.isInside die = true := by
  obtain ⟨h1, h2, h3, h4⟩ := h
  simp [Rect.isInside, h1, h2, h3, h4]

end FV.InitAlloc

import FV.Proofs.Glb
import FV.Proofs.GlbAlloc
import FV.Proofs.GlbOpt
import FV.Props.C02
import FV.Props.C03
/-
  C10 — Global floorplanning returns a feasible allocation and rigid hard modules.

  PARTIAL BY NATURE.  The numbers returned by `glbfloor` are computed by a non-linear solver (GEKKO/IPOPT), which
  is not modelled.  The solver's answer `ans : Answer α` is an INPUT of the model `FV.Glb.extractSolution`; the
  theorems below say what FRAME's own bookkeeping (`extract_solution`, `Module.recenter_rectangles`, the flip step,
  the `Allocation` constructor, the refine/optimise loop) guarantees, and name exactly what is assumed of `ans`:

  | theorem                                   | assumed of the solver's answer                                   |
  |-------------------------------------------|------------------------------------------------------------------|
  | `extract_cells_subset`, `_feasible`       | nothing                                                          |
  | `extract_ratio_range`                     | nothing (the `Allocation` constructor rejects ratios ∉ [0,1])     |
  | `extract_ratios`                          | `SolverPost`: ratios ≥ 0, cell rows ≤ 1 + tol, centres in the die |
  | `fixed_kept`                              | `SolverPost` (ratios ≥ 0, rows ≤ 1 + tol) with `tol ≤ 1 - thr`;   |
  |                                           | `ConstRespect` is FRAME's construction of the model, not solver  |
  | `recenter_rigid`, `flip_rigid`,           | nothing — any answer whatsoever                                  |
  | `extract_hard_rigid`                      |                                                                  |
  | `glbLoop_invariant`, `glbfloor_feasible`, | nothing (the solver is an arbitrary partial function)            |
  | `glbfloor_returns_extracted`              |                                                                  |
  | `glbfloorA_*` (loop with the allocation    | nothing; `refine` / `must_be_refined` / the constructor are the   |
  |  model of C02/C12 plugged in)              | allocation model's, no hypothesis about them is left              |

  | `glbfloor_correct` (ONE statement about   | `SolverOK`: `SolverPost` + `ConstRespect` of every answer given on |
  |  the returned value, vs the INPUT netlist) | a state satisfying the loop invariant                            |

  | `posted_constraints_imply_solverPost`,     | the point returned satisfies what `optimize_allocation` POSTED     |
  | `glbfloor_correct_posted`                  | (`FV/Model/GlbOpt.lean`: bounds, constants, capacity, hard-sum     |
  |                                            | rows) within `tolI`/`tolE`; non-convergence ⇒ raise (`solve=none`) |

  | `glbfloor_correct_from_die`,               | `SolverOK` / `SolverMeetsPosted`; the start state is DERIVED (C01   |
  | `glbfloor_correct_posted_from_die`         | valid die → C03 `initial_allocation_is_glb_start` → the loop)      |
  | `WitnessFixed/WitnessHard.glbfloor_correct_applied` | applied instances (fixed module / flippable hard module,  |
  |                                            | state-dependent solver, refine pass, `SolverOK` proved)            |
  | `posted_centres_in_die`, `posted_area_centroid`,     | nothing: statements about EVERY point satisfying the     |
  | `posted_centroid_in_cell_hull`, `posted_dispersion`, | generated system — the bodies of the area, centroid,     |
  | `posted_net_centres`,                                | dispersion and net-centre rows read back, and the        |
  | `posted_objective_alpha_weighting`                   | objective = alpha·wire length + (1-alpha)·dispersion     |
  | `extract_returns_of_solverPost`            | `SolverPost` incl. `a ≤ 1`: then `extract_solution` does NOT raise  |
  | `WitnessPosted.glbfloor_correct_solver_vars_applied`, `…_posted_from_die_applied`, `…_from_die_applied`: the posted-  |
  |   system headlines APPLIED with a certifying solver defined on every state (refine pass, kernel-checked runs)        |
  | `solverMeetsPosted_of_vars`,               | `SolverMeetsPostedVars`: bounds of the declared VARIABLES and the   |
  | `glbfloor_correct_solver_vars`             | posted rows — the constants are read back by FRAME, not assumed    |

  THE HYPOTHESES OF `glbfloor_correct_posted` / `glbfloor_correct_solver_vars`, one by one:
  * `hv`, `hin`, `hown`, `hfc` (valid start allocation inside the die on which the fixed modules own their cells, fixed
    centres inside the die): DISCHARGED by `glbfloor_correct_posted_from_die` for what `create_initial_allocation` returns
    on a valid die (C01 → C03).
  * `hthr : 0 < thr`: a PARAMETER RANGE.  Needed: with `thr = 0` the filter `a > 1 - thr` keeps nothing (the constructor then
    refuses the empty list: the run does not return); stated because `fixed_kept` needs `1 - thr < 1`.
  * `htI, htE : 0 ≤ tol`, `htol : tolI + (#modules)·tolE ≤ 1 - thr`: the solver's constraint tolerance must be smaller than the
    filter's margin (IPOPT/APOPT: 1e-6 against `1 - thr ≥ 0.01` in every run of the harness).  A PARAMETER of the solver
    hypothesis; necessary for "a fixed module's cell lists nobody else" (a stray ratio `tol > 1 - thr` would be listed).
  * `hlim : maxIter ≠ some 0`: PARAMETER RANGE (`glbfloor`'s command line asserts `max_iter is None or max_iter > 0`); with 0
    passes `glbfloor` returns the initial allocation, which may over-occupy cells, and the optimiser never ran ("for which
    the optimiser returns" is then empty).
  * `hk : KeysDistinct` (only `…_solver_vars`): module names distinct and different from the names `m_r` FRAME gives to the
    rectangles of movable hard modules.  INPUT WELL-FORMEDNESS; when violated GEKKO refuses the duplicate variable (raise).
  * `hsol : SolverMeetsPosted(Vars)`: MUST STAY AN ASSUMPTION ABOUT GEKKO/APOPT.  It says three things nothing in FRAME can
    establish: (i) when `solve()` returns (no exception; GEKKO raises on APPSTATUS ≠ 1 because FRAME calls it with the
    default `debug=1` — observed on every solve by the harness), the values it left in the variables are a point of the NLP
    that was posted; (ii) that point respects the declared bounds and the equations within the solver's tolerances;
    (iii) `get_value` reads those values.  The CONTENT of what was posted is no longer assumed: it is the generated system
    `GlbOpt.post`, compared node-for-node with the captured GEKKO model on every run; that constants read back as constants is
    proved (`sat_of_satVars`).
  `SolverPost.bounds … ≤ 1`: not needed by any clause about a RETURNED value (the constructor asserts `ratio ≤ 1`); it is what
  makes `extract_solution` total on the answer — `extract_returns_of_solverPost`.

  OUTSIDE THE QUANTIFIER (recorded, counted by the harness family `blocked`): a module — hard or soft — lying entirely on
  blockages gets no cell in the initial allocation and `glbfloor` raises `KeyError` in `calculate_dispersions`
  (optimization.py:439 → :80 → allocation.py:115) before the first optimisation.  The property says "whenever global
  floorplanning returns"; a raise is not a return, so no clause applies.  (In the model this is the start state of the loop
  not existing — `create_initial_allocation` is C03's.)  Likewise a netlist with clashing keys (`H` movable hard and a module
  named `H_0`): GEKKO raises "Duplicate Names".

  The start-state hypotheses `hv`, `hin`, `hown` of `glbfloor_correct` are established for what
  `create_initial_allocation` returns on a valid die by `FV.C03.initial_allocation_is_glb_start`; `hfc` (centres of the
  fixed modules inside the die) is an input fact.

  Honest reading of `extract_ratios` / clauses 3-4 of `glbfloor_correct`: "cell total ≤ 1 + tol" and "centre in the die" are
  the solver hypothesis pushed through FRAME's bookkeeping (threshold filtering cannot increase a row; centres are copied
  from variables whose bounds are the die) — FRAME's part is proved, the solver's part is assumed and monitored.
  Remaining start-state hypothesis of `glbfloor_correct`: `ValidAlloc`, cells inside the die, `FixedOwn` (C01/C03 territory).

  All statements are over an arbitrary linearly ordered field (exact arithmetic); `Rat`, at which the driver runs
  the same definitions, is one.  IEEE rounding is executed (F stream of the harness), never proved.
-/
namespace FV.C10
open FV FV.Glb FV.Alloc
set_option linter.unusedSectionVars false
set_option linter.unusedSimpArgs false
set_option linter.unusedVariables false

variable {α : Type} [Field α] [LinearOrder α] [IsStrictOrderedRing α]

/-! ### specification vocabulary -/

/-- the point `(x, y)` lies in the (closed) bounding box of the die. -/
def InDie (die : Rect α) (x y : α) : Prop := die.xmin ≤ x ∧ x ≤ die.xmax ∧ die.ymin ≤ y ∧ y ≤ die.ymax

/-- WHAT IS ASSUMED OF THE SOLVER (monitored on every run by the harness): for the netlist's modules and the
    `ncells` offered cells, every ratio respects its bounds `0 ≤ a ≤ 1`, every cell row respects
    `Σ_m a[m][c] ≤ 1` up to the solver's constraint tolerance `tol`, every centre respects its bounds (the die's
    bounding box).  (For constant entries — fixed modules, frozen ratios — these are facts about the offered
    allocation rather than about the solver; they are part of the same monitored predicate.) -/
structure SolverPost (ans : Answer α) (tol : α) (die : Rect α) (mods : List (Glb.Module α)) (ncells : Nat) : Prop where
  bounds : ∀ m ∈ mods, ∀ c < ncells, 0 ≤ ans.a m.name c ∧ ans.a m.name c ≤ 1
  rows : ∀ c < ncells, (mods.map fun m => ans.a m.name c).sum ≤ 1 + tol
  centres : ∀ m ∈ mods, InDie die (ans.x m.name) (ans.y m.name)

/-- FRAME's construction of the GEKKO model for a fixed module `f` (`optimize_allocation` 288-291, 308-312):
    its ratios and its centre are constants, not variables, so the "answer" reads them back unchanged. -/
structure ConstRespect (ans : Answer α) (offered : List (RectAlloc α)) (f : Glb.Module α) : Prop where
  a : ∀ c v, getA offered f c = some v → ans.a f.name c = v
  x : ans.x f.name = f.cx
  y : ans.y f.name = f.cy

/-- the offered allocation treats `f` as a fixed module: every cell is entirely its own or not its own at all
    (`get_a` is 1 or 0).  Established by `create_initial_allocation` and kept by refinement and by `fixed_kept`. -/
def OfferedFixed (offered : List (RectAlloc α)) (f : Glb.Module α) : Prop :=
  ∀ c v, getA offered f c = some v → v = 1 ∨ v = 0

/-- the image of a list of rectangles under `x ↦ sx·x + tx`, `y ↦ sy·y + ty` on the centres, with `sx, sy = ±1`:
    a translation, possibly composed with a mirror in x and/or y.  Shapes, regions and flags are untouched. -/
def RigidImage (rs rs' : List (Rect α)) (mayFlip : Bool) : Prop :=
  ∃ sx sy tx ty : α, (sx = 1 ∨ sx = -1) ∧ (sy = 1 ∨ sy = -1) ∧ (mayFlip = false → sx = 1 ∧ sy = 1) ∧
    rs' = rs.map (affine sx tx sy ty)

/-- `(cx, cy)` is the area-weighted mean of the centres of `rs` (the centroid of the module). -/
def IsCentroid (rs : List (Rect α)) (cx cy : α) : Prop :=
  totalArea rs ≠ 0 ∧ momentX rs / totalArea rs = cx ∧ momentY rs / totalArea rs = cy

/-! ### cells: returned ⊆ offered -/

/-- The rectangles of the returned allocation are a sub-list (same order, some dropped) of the offered cells. -/
theorem extract_cells_subset (ans : Answer α) (εA thr : α) (mods : List (Glb.Module α)) (cells : List (Rect α))
    (al : List (RectAlloc α)) (ms : List (Glb.Module α)) (h : extractSolution ans εA thr mods cells = .ok (al, ms)) :
    (al.map (·.rect)).Sublist cells := by
  obtain ⟨h1, _⟩ := extractSolution_ok ans εA thr mods cells al ms h
  obtain ⟨rfl, _⟩ := allocationCtor_ok εA _ _ h1
  exact allocList_rects_sublist ans thr mods cells

/-- Hence non-overlap and inside-the-die are inherited from the offered cells, whatever the solver answered:
    for any pairwise relation `R` (e.g. `areaOverlap ≤ εA`) and any predicate `Q` (e.g. `isInside die`). -/
theorem extract_cells_feasible (ans : Answer α) (εA thr : α) (mods : List (Glb.Module α)) (cells : List (Rect α))
    (al : List (RectAlloc α)) (ms : List (Glb.Module α)) (h : extractSolution ans εA thr mods cells = .ok (al, ms))
    (R : Rect α → Rect α → Prop) (Q : Rect α → Prop) (hR : cells.Pairwise R) (hQ : ∀ r ∈ cells, Q r) :
    (al.map (·.rect)).Pairwise R ∧ ∀ r ∈ al.map (·.rect), Q r := by
  have hs := extract_cells_subset ans εA thr mods cells al ms h
  exact ⟨hR.sublist hs, fun r hr => hQ r (hs.subset hr)⟩

/-- The instance used by the property: cells pairwise overlapping by at most `εA` and inside the die. -/
theorem extract_cells_disjoint_inside (ans : Answer α) (εA thr : α) (die : Rect α) (mods : List (Glb.Module α))
    (cells : List (Rect α)) (al : List (RectAlloc α)) (ms : List (Glb.Module α))
    (h : extractSolution ans εA thr mods cells = .ok (al, ms))
    (hR : cells.Pairwise fun a b => a.areaOverlap b ≤ εA) (hQ : ∀ r ∈ cells, r.isInside die = true) :
    (al.map (·.rect)).Pairwise (fun a b => a.areaOverlap b ≤ εA) ∧ ∀ r ∈ al.map (·.rect), r.isInside die = true :=
  extract_cells_feasible ans εA thr mods cells al ms h _ _ hR hQ

/-! ### ratios and centres -/

/-- Without any assumption on the solver: every listed ratio is in `[0,1]` and exceeds `1 - thr`, no returned cell
    is empty, the allocation is not empty (otherwise the `Allocation` constructor raised). -/
theorem extract_ratio_range (ans : Answer α) (εA thr : α) (mods : List (Glb.Module α)) (cells : List (Rect α))
    (al : List (RectAlloc α)) (ms : List (Glb.Module α)) (h : extractSolution ans εA thr mods cells = .ok (al, ms)) :
    al ≠ [] ∧ ∀ ra ∈ al, ra.alloc ≠ [] ∧ ∀ p ∈ ra.alloc, 0 ≤ p.2 ∧ p.2 ≤ 1 ∧ 1 - thr < p.2 := by
  obtain ⟨h1, _⟩ := extractSolution_ok ans εA thr mods cells al ms h
  obtain ⟨rfl, hne, hr, _, _⟩ := allocationCtor_ok εA _ _ h1
  refine ⟨hne, fun ra hra => ?_⟩
  obtain ⟨c, cell, _, hcne, rfl⟩ := (mem_allocList ans thr mods cells ra).mp hra
  refine ⟨hcne, fun p hp => ?_⟩
  obtain ⟨h0, h1'⟩ := hr _ hra p hp
  obtain ⟨m, _, _, _, hlt⟩ := (mem_cellAlloc ans thr mods c p.1 p.2).mp hp
  exact ⟨h0, h1', hlt⟩

/-- every updated module carries the answer's centre and keeps its name and flags. -/
theorem updateModule_fields (ans : Answer α) (m m' : Glb.Module α) (h : updateModule ans m = some m') :
    m'.cx = ans.x m.name ∧ m'.cy = ans.y m.name ∧ m'.name = m.name ∧ m'.hard = m.hard ∧ m'.fixed = m.fixed ∧
      m'.flip = m.flip := by
  unfold updateModule at h
  dsimp only at h
  split at h
  · split at h
    · exact absurd h (by simp)
    · simp only [Option.some.injEq] at h; subst h; simp
  · simp only [Option.some.injEq] at h; subst h; simp

/-- Under `SolverPost`: every listed ratio is in `[0,1]`, every returned cell's total is at most `1 + tol`, every
    module centre lies in the die.  (Uses: ratios ≥ 0, rows, centres.) -/
theorem extract_ratios (ans : Answer α) (εA thr tol : α) (die : Rect α) (mods : List (Glb.Module α))
    (cells : List (Rect α)) (al : List (RectAlloc α)) (ms : List (Glb.Module α))
    (post : SolverPost ans tol die mods cells.length)
    (h : extractSolution ans εA thr mods cells = .ok (al, ms)) :
    (∀ ra ∈ al, ∀ p ∈ ra.alloc, 0 ≤ p.2 ∧ p.2 ≤ 1) ∧
    (∀ ra ∈ al, (ra.alloc.map (·.2)).sum ≤ 1 + tol) ∧
    (∀ m' ∈ ms, InDie die m'.cx m'.cy) := by
  obtain ⟨h1, h2⟩ := extractSolution_ok ans εA thr mods cells al ms h
  obtain ⟨rfl, _, hr, _, _⟩ := allocationCtor_ok εA _ _ h1
  refine ⟨hr, ?_, ?_⟩
  · intro ra hra
    obtain ⟨c, cell, hc, _, rfl⟩ := (mem_allocList ans thr mods cells ra).mp hra
    have hlt : c < cells.length := by
      by_contra hge
      rw [List.getElem?_eq_none (Nat.le_of_not_lt hge)] at hc; exact absurd hc (by simp)
    simp only [cellAlloc_eq_map_filter, List.map_map, Function.comp_def]
    refine le_trans (sum_filter_le mods (fun m => ans.a m.name c) _ ?_) (post.rows c hlt)
    intro m hm; exact (post.bounds m hm c hlt).1
  · have hf := updateModules_spec ans mods ms h2
    intro m' hm'
    obtain ⟨m, hm, hu⟩ := forall₂_mem_right hf m' hm'
    obtain ⟨hx, hy, _⟩ := updateModule_fields ans m m' hu
    rw [hx, hy]; exact post.centres m hm

/-! ### fixed modules -/

/-- **Fixed modules keep their rectangles and fully own their cells.**  For `0 < thr`, a fixed module `f` of the
    netlist, an answer that reads FRAME's constants back (`ConstRespect`), an offered allocation that treats `f`
    as fixed (`OfferedFixed`), and a solver answer with non-negative ratios and rows `≤ 1 + tol`, `tol ≤ 1 - thr`:
    1. the module at the same position in the returned netlist has the same rectangles and the same centre;
    2. every returned cell that lists `f` lists exactly `{f ↦ 1}`;
    3. every offered cell owned by `f` (`get_a = 1`) is returned (not dropped), with `{f ↦ 1}`. -/
theorem fixed_kept (ans : Answer α) (εA thr tol : α) (die : Rect α) (mods : List (Glb.Module α))
    (offered : List (RectAlloc α)) (al : List (RectAlloc α)) (ms : List (Glb.Module α)) (f : Glb.Module α)
    (hthr : 0 < thr) (htol0 : 0 ≤ tol) (htol : tol ≤ 1 - thr) (hf : f ∈ mods) (hfix : f.fixed = true)
    (post : SolverPost ans tol die mods offered.length)
    (cr : ConstRespect ans offered f) (ofx : OfferedFixed offered f)
    (h : extractSolution ans εA thr mods (offered.map (·.rect)) = .ok (al, ms)) :
    (∀ (i : Nat) (f' : Glb.Module α), mods[i]? = some f → ms[i]? = some f' →
        f'.rects = f.rects ∧ f'.cx = f.cx ∧ f'.cy = f.cy ∧ f'.name = f.name ∧ f'.fixed = true) ∧
    (∀ ra ∈ al, ∀ v, (f.name, v) ∈ ra.alloc → ra.alloc = [(f.name, 1)]) ∧
    (∀ (c : Nat) (ra0 : RectAlloc α), offered[c]? = some ra0 → getA offered f c = some 1 →
        ({ rect := ra0.rect, alloc := [(f.name, 1)], depth := 0 } : RectAlloc α) ∈ al) := by
  obtain ⟨h1, h2⟩ := extractSolution_ok ans εA thr mods _ al ms h
  obtain ⟨rfl, _, _, _, _⟩ := allocationCtor_ok εA _ _ h1
  have hlen : (offered.map (·.rect)).length = offered.length := by simp
  have own : ∀ c, c < offered.length → ans.a f.name c = 1 → cellAlloc ans thr mods c = [(f.name, 1)] := by
    intro c hc h1c
    exact cellAlloc_owned ans thr tol mods c f hthr htol hf h1c
      (fun m hm => (post.bounds m hm c hc).1) (post.rows c hc)
  refine ⟨?_, ?_, ?_⟩
  · intro i f' hi hi'
    have hu := forall₂_get (updateModules_spec ans mods ms h2) i f f' hi hi'
    obtain ⟨hx, hy, hn, _, hfx, _⟩ := updateModule_fields ans f f' hu
    refine ⟨?_, by rw [hx, cr.x], by rw [hy, cr.y], hn, by rw [hfx, hfix]⟩
    unfold updateModule at hu
    simp only [hfix, Bool.not_true, Bool.and_false, Bool.false_eq_true, if_false, Option.some.injEq] at hu
    rw [← hu]
  · intro ra hra v hv
    obtain ⟨c, cell, hc, _, rfl⟩ := (mem_allocList ans thr mods _ ra).mp hra
    have hlt : c < offered.length := by
      by_contra hge
      rw [List.getElem?_eq_none (by rw [hlen]; exact Nat.le_of_not_lt hge)] at hc; exact absurd hc (by simp)
    obtain ⟨m, _, hmn, hav, hgt⟩ := (mem_cellAlloc ans thr mods c f.name v).mp hv
    rw [hmn] at hav
    obtain ⟨v', hv'⟩ := getA_isSome offered f c hlt
    have hvv : v = v' := by rw [← hav]; exact cr.a c v' hv'
    have hv1 : v = 1 := by
      rcases ofx c v' hv' with h1' | h0
      · rw [hvv, h1']
      · rw [hvv, h0] at hgt; linarith
    exact own c hlt (by rw [hav, hv1])
  · intro c ra0 hc hg
    have hlt : c < offered.length := by
      by_contra hge
      rw [List.getElem?_eq_none (Nat.le_of_not_lt hge)] at hc; exact absurd hc (by simp)
    have hown := own c hlt (cr.a c 1 hg)
    refine (mem_allocList ans thr mods _ _).mpr ⟨c, ra0.rect, ?_, ?_, ?_⟩
    · rw [List.getElem?_map, hc]; rfl
    · rw [hown]; simp
    · rw [hown]

/-! ### movable hard modules: rigid for every answer -/

/-- `recenter_rectangles` translates all rectangles by one vector and makes the requested centre the centroid
    (area-weighted mean of the rectangle centres). -/
theorem recenter_rigid (cx cy : α) (rs rs' : List (Rect α)) (h : recenter cx cy rs = some rs') :
    (∃ tx ty : α, rs' = rs.map (affine 1 tx 1 ty)) ∧ IsCentroid rs' cx cy := by
  obtain ⟨hA, rfl⟩ := recenter_eq cx cy rs rs' h
  refine ⟨⟨_, _, rfl⟩, ?_, ?_, ?_⟩
  · rw [totalArea_affine]; exact hA
  · rw [totalArea_affine, momentX_affine]; field_simp; ring
  · rw [totalArea_affine, momentY_affine]; field_simp; ring

/-- `recenter_rectangles` succeeds exactly when the total area is non-zero (no `ZeroDivisionError`). -/
theorem recenter_isSome_iff (cx cy : α) (rs : List (Rect α)) :
    (recenter cx cy rs).isSome = true ↔ totalArea rs ≠ 0 := by
  constructor
  · intro h
    obtain ⟨rs', hrs⟩ := Option.isSome_iff_exists.mp h
    exact (recenter_eq cx cy rs rs' hrs).1
  · exact recenter_isSome cx cy rs

/-- **Movable hard modules are only translated or mirrored**, for every answer whatsoever: the new rectangles are
    the image of the old ones under a translation composed with a mirror in x and/or y (mirror only if the module
    is flippable), and the module's reported centre is their centroid. -/
theorem flip_rigid (ans : Answer α) (m m' : Glb.Module α) (hh : m.hard = true) (hnf : m.fixed = false)
    (h : updateModule ans m = some m') :
    RigidImage m.rects m'.rects m.flip ∧ IsCentroid m'.rects m'.cx m'.cy ∧
      m'.cx = ans.x m.name ∧ m'.cy = ans.y m.name := by
  obtain ⟨hx, hy, _⟩ := updateModule_fields ans m m' h
  unfold updateModule at h
  simp only [hh, hnf, Bool.not_false, Bool.and_self, if_true] at h
  split at h
  · exact absurd h (by simp)
  · rename_i rs hrec
    simp only [Option.some.injEq] at h
    obtain ⟨⟨tx, ty, hrs⟩, hA, hcx, hcy⟩ := recenter_rigid _ _ _ _ hrec
    by_cases hfl : (m.flip && decide (1 < rs.length)) = true
    · simp only [hfl, if_true] at h
      obtain ⟨sx, sy, hsx, hsy, hflip⟩ := flipStep_eq ans m.name (ans.x m.name) (ans.y m.name) rs
      have hr' : m'.rects = rs.map (affine sx ((1 - sx) * ans.x m.name) sy ((1 - sy) * ans.y m.name)) := by
        rw [← h, ← hflip]
      refine ⟨⟨sx, sy, sx * tx + (1 - sx) * ans.x m.name, sy * ty + (1 - sy) * ans.y m.name, hsx, hsy, ?_, ?_⟩,
        ⟨?_, ?_, ?_⟩, hx, hy⟩
      · intro hf; simp [hf] at hfl
      · rw [hr', hrs, affine_comp]; simp
      · rw [hr', totalArea_affine]; exact hA
      · rw [hr', totalArea_affine, momentX_affine, hx]
        have : momentX rs = ans.x m.name * totalArea rs := by rw [← hcx]; field_simp
        rw [this]; field_simp; ring
      · rw [hr', totalArea_affine, momentY_affine, hy]
        have : momentY rs = ans.y m.name * totalArea rs := by rw [← hcy]; field_simp
        rw [this]; field_simp; ring
    · simp only [hfl] at h
      simp only [Bool.false_eq_true, if_false] at h
      have hr' : m'.rects = rs := by rw [← h]
      refine ⟨⟨1, 1, tx, ty, Or.inl rfl, Or.inl rfl, fun _ => ⟨rfl, rfl⟩, by rw [hr', hrs]⟩, ?_, hx, hy⟩
      rw [hr', hx, hy]; exact ⟨hA, hcx, hcy⟩

/-- What a rigid image means rectangle by rectangle: same number of rectangles; the `i`-th keeps its shape, region
    and flags; every pairwise offset of centres is kept up to the common signs `sx, sy ∈ {1, -1}`
    (both `1` when the module may not flip). -/
theorem rigid_shapes_offsets (rs rs' : List (Rect α)) (fl : Bool) (h : RigidImage rs rs' fl) :
    rs'.length = rs.length ∧
    (∀ (i : Nat) (r r' : Rect α), rs[i]? = some r → rs'[i]? = some r' →
        r'.w = r.w ∧ r'.h = r.h ∧ r'.region = r.region ∧ r'.fixed = r.fixed ∧ r'.hard = r.hard) ∧
    ∃ sx sy : α, (sx = 1 ∨ sx = -1) ∧ (sy = 1 ∨ sy = -1) ∧ (fl = false → sx = 1 ∧ sy = 1) ∧
      ∀ (i j : Nat) (ri rj ri' rj' : Rect α), rs[i]? = some ri → rs[j]? = some rj → rs'[i]? = some ri' → rs'[j]? = some rj' →
        ri'.cx - rj'.cx = sx * (ri.cx - rj.cx) ∧ ri'.cy - rj'.cy = sy * (ri.cy - rj.cy) := by
  obtain ⟨sx, sy, tx, ty, hsx, hsy, hfl, rfl⟩ := h
  refine ⟨by simp, ?_, sx, sy, hsx, hsy, hfl, ?_⟩
  · intro i r r' hr hr'
    rw [List.getElem?_map, hr] at hr'
    simp only [Option.map_some, Option.some.injEq] at hr'
    subst hr'; simp [affine]
  · intro i j ri rj ri' rj' hi hj hi' hj'
    rw [List.getElem?_map, hi] at hi'
    rw [List.getElem?_map, hj] at hj'
    simp only [Option.map_some, Option.some.injEq] at hi' hj'
    subst hi'; subst hj'
    simp only [affine]; constructor <;> ring

/-- The same at the level of `extract_solution`: in every returned netlist, the module at the position of a
    movable hard module is a rigid image of it with the reported centre as centroid; every other module keeps its
    rectangles untouched. -/
theorem extract_hard_rigid (ans : Answer α) (εA thr : α) (mods : List (Glb.Module α)) (cells : List (Rect α))
    (al : List (RectAlloc α)) (ms : List (Glb.Module α)) (h : extractSolution ans εA thr mods cells = .ok (al, ms)) :
    ms.length = mods.length ∧
    ∀ (i : Nat) (m m' : Glb.Module α), mods[i]? = some m → ms[i]? = some m' →
      (m.hard = true → m.fixed = false → RigidImage m.rects m'.rects m.flip ∧ IsCentroid m'.rects m'.cx m'.cy) ∧
      (¬(m.hard = true ∧ m.fixed = false) → m'.rects = m.rects) := by
  obtain ⟨_, h2⟩ := extractSolution_ok ans εA thr mods cells al ms h
  have hf := updateModules_spec ans mods ms h2
  refine ⟨hf.length_eq.symm, ?_⟩
  intro i m m' hi hi'
  have hu := forall₂_get hf i m m' hi hi'
  refine ⟨fun hh hnf => ?_, fun hn => ?_⟩
  · obtain ⟨hr, hc, _⟩ := flip_rigid ans m m' hh hnf hu
    exact ⟨hr, hc⟩
  · unfold updateModule at hu
    have : (m.hard && !m.fixed) = false := by
      cases hh : m.hard <;> cases hx : m.fixed <;> simp_all
    simp only [this, Bool.false_eq_true, if_false, Option.some.injEq] at hu
    rw [← hu]

/-! ### the refine / optimise loop -/

/-- Any invariant of the loop state that holds initially, is preserved by `refine` (on the allocation) and by one
    `extract_solution` on the offered cells — for whatever the solver answers — holds of what `glbfloor` returns. -/
theorem glbLoop_invariant (solve : State α → Option (Answer α)) (mustRefine : List (RectAlloc α) → Bool)
    (refine : List (RectAlloc α) → List (RectAlloc α)) (εA thr : α) (maxIter : Option Nat)
    (P : State α → Prop)
    (hrefine : ∀ s : State α, P s → P (refine s.1, s.2))
    (hextract : ∀ (s : State α) (ans : Answer α) (r : State α), P s →
        extractSolution ans εA thr s.2 (s.1.map (·.rect)) = .ok r → P r)
    (fuel n : Nat) (s r : State α) (hs : P s)
    (h : glbLoop solve mustRefine refine εA thr maxIter fuel n s = some r) : P r := by
  have hopt : ∀ s r : State α, P s → optimizeStep solve εA thr s = some r → P r := by
    intro s r hs h
    unfold optimizeStep at h
    split at h
    · exact absurd h (by simp)
    · rename_i ans _
      split at h
      · exact absurd h (by simp)
      · rename_i r' hr'
        simp only [Option.some.injEq] at h; subst h
        exact hextract s ans _ hs hr'
  exact loopG_invariant _ _ _ maxIter P (fun s r hs hr => by cases hr; exact hrefine s hs) hopt fuel n s r hs h

/-- **The loop optimises before it may stop.**  With at least one pass allowed (`max_iter` is `None` or `≥ 1`),
    whatever `glbfloor` returns is the output of `extract_solution` on the cells of some offered allocation — never
    the initial allocation itself (which need not be feasible: overlapping initial squares over-occupy cells).  So the
    conclusions of `extract_ratios`, `fixed_kept`, `extract_hard_rigid` apply to the value `glbfloor` returns. -/
theorem glbfloor_returns_extracted (solve : State α → Option (Answer α)) (mustRefine : List (RectAlloc α) → Bool)
    (refine : List (RectAlloc α) → List (RectAlloc α)) (εA thr : α) (maxIter : Option Nat) (fuel : Nat)
    (init r : State α) (hlim : maxIter ≠ some 0)
    (h : glbfloor solve mustRefine refine εA thr maxIter fuel init = some r) :
    ∃ (s : State α) (ans : Answer α), solve s = some ans ∧
      extractSolution ans εA thr s.2 (s.1.map (·.rect)) = .ok r := by
  have hl : withinLimit maxIter 1 = true := by
    cases maxIter with
    | none => rfl
    | some k =>
      have : k ≠ 0 := fun hk => hlim (by rw [hk])
      simp only [withinLimit, decide_eq_true_eq]; omega
  obtain ⟨s, _, hs⟩ := loopG_first _ _ _ maxIter fuel init r hl h
  unfold optimizeStep at hs
  cases hsol : solve s with
  | none => simp only [hsol] at hs; exact absurd hs (by simp)
  | some ans =>
    simp only [hsol] at hs
    cases hex : extractSolution ans εA thr s.2 (s.1.map (·.rect)) with
    | error e => simp only [hex] at hs; exact absurd hs (by simp)
    | ok r' =>
      simp only [hex, Option.some.injEq] at hs
      exact ⟨s, ans, hsol, by rw [hex, hs]⟩

/-- Feasibility of the cells through the whole loop: if the initial allocation's cells are pairwise `R`-related
    and all satisfy `Q` (non-overlapping, inside the die), and `refine` keeps that (the allocation model's
    theorem, C02), then so are the cells of the allocation `glbfloor` returns. -/
theorem glbfloor_feasible (solve : State α → Option (Answer α)) (mustRefine : List (RectAlloc α) → Bool)
    (refine : List (RectAlloc α) → List (RectAlloc α)) (εA thr : α) (maxIter : Option Nat) (fuel : Nat)
    (R : Rect α → Rect α → Prop) (Q : Rect α → Prop)
    (hrefine : ∀ l : List (RectAlloc α), ((l.map (·.rect)).Pairwise R ∧ ∀ r ∈ l.map (·.rect), Q r) →
        (((refine l).map (·.rect)).Pairwise R ∧ ∀ r ∈ (refine l).map (·.rect), Q r))
    (init r : State α) (h0 : (init.1.map (·.rect)).Pairwise R ∧ ∀ c ∈ init.1.map (·.rect), Q c)
    (h : glbfloor solve mustRefine refine εA thr maxIter fuel init = some r) :
    (r.1.map (·.rect)).Pairwise R ∧ ∀ c ∈ r.1.map (·.rect), Q c := by
  refine glbLoop_invariant solve mustRefine refine εA thr maxIter
    (fun s => (s.1.map (·.rect)).Pairwise R ∧ ∀ c ∈ s.1.map (·.rect), Q c)
    (fun s hs => hrefine s.1 hs) ?_ fuel 1 init r h0 h
  intro s ans r hs hr
  obtain ⟨al, ms⟩ := r
  exact extract_cells_feasible ans εA thr s.2 _ al ms hr R Q hs.1 hs.2

/-! ### the loop with the allocation model plugged in (no hypothesis about `refine` left)

`FV/Model/GlbAlloc.lean` instantiates the loop with `refine := Allocation.refine(threshold)` (`FV.Alloc.refine env st a thr 1`,
`levels` defaults to 1 as in `optimization.py`), `must_be_refined := FV.Alloc.mustBeRefined a thr` and the real constructor
`Allocation(allocation_list)` (`FV.Alloc.mkAllocation`) inside `extract_solution` — the model of
`frame/allocation/allocation.py` of properties C02/C12 (code with their repairs applied).  The only parameter left is the
solver.  Start: any `ValidAlloc` (what the constructor returns, `FV.C02.constructor_valid`) whose cells lie inside the
die. -/

/-- the adapter between `Glb.RectAlloc` and the allocation model's `Cell` is a bijection (both round trips). -/
theorem adapter_roundtrip (ra : RectAlloc α) (c : Cell α) : ofCell (toCell ra) = ra ∧ toCell (ofCell c) = c :=
  ⟨rfl, rfl⟩

/-- pairwise overlap at most `ε` and inside the die, for the rectangles offered / returned in a loop state. -/
def CellsFeasible (die : Rect α) (ε : α) (s : AState α) : Prop :=
  s.cells.Pairwise (fun a b => a.areaOverlap b ≤ ε) ∧ ∀ r ∈ s.cells, r.isInside die = true

theorem feasible_cells {die : Rect α} {ε : α} {st : Eps α} {s : AState α} (h : Feasible die ε st s) :
    CellsFeasible die ε s := by
  refine ⟨?_, ?_⟩
  · unfold AState.cells; rw [List.pairwise_map]; exact h.sep
  · intro r hr
    obtain ⟨c, hc, rfl⟩ := List.mem_map.mp hr
    exact h.inside c hc

/-- in a feasible state `allocation.refine(threshold)` never raises (and `extract_solution`'s constructor can only
    refuse for reasons of the answer: an empty list, a ratio outside `[0,1]`). -/
theorem glbfloorA_refine_total (env : Env α) (thr ε : α) (die : Rect α) (s : AState α) (hε : 0 ≤ ε)
    (hs : Feasible die ε s.eps s) : ∃ r, refineA env thr s = some r ∧ Feasible die ε s.eps r := by
  obtain ⟨r, h1, h2, _⟩ := refineA_spec env thr ε die s.eps s hε hs
  exact ⟨r, h1, h2⟩

/-- **every allocation the loop offers to the solver is feasible** (valid `Allocation` object, cells inside the die,
    pairwise overlap ≤ ε), for every solver. -/
theorem glbfloorA_offered_feasible (env : Env α) (solve : AState α → Option (Answer α)) (thr ε : α) (die : Rect α)
    (init o : AState α) (hε : 0 ≤ ε) (h0 : Feasible die ε init.eps init)
    (ho : Offered (optimizeA env solve thr) (mustRefineA thr) (refineA env thr) init o) : Feasible die ε init.eps o :=
  ho.inv (Feasible die ε init.eps) h0
    (fun s r hs hr => refineA_feasible env thr ε die init.eps s r hε hs hr)
    (fun s r hs hr => optimizeA_feasible env solve thr ε die init.eps s r hs hr)

/-- **… and so is the one `glbfloor` returns.** -/
theorem glbfloorA_returned_feasible (env : Env α) (solve : AState α → Option (Answer α)) (thr ε : α) (die : Rect α)
    (maxIter : Option Nat) (fuel : Nat) (init r : AState α) (hε : 0 ≤ ε) (h0 : Feasible die ε init.eps init)
    (h : glbfloorA env solve thr maxIter fuel init = some r) : Feasible die ε init.eps r :=
  loopG_invariant _ _ _ maxIter (Feasible die ε init.eps)
    (fun s r hs hr => refineA_feasible env thr ε die init.eps s r hε hs hr)
    (fun s r hs hr => optimizeA_feasible env solve thr ε die init.eps s r hs hr) fuel 1 init r h0 h

/-- With at least one pass allowed, what `glbfloor` returns is `extract_solution` — the model `Glb.extractSolution`
    of the theorems above, with area tolerance `st.area` — applied to the solver's answer on a feasible offered
    allocation; so `extract_ratios`, `fixed_kept`, `extract_hard_rigid` speak about the returned value. -/
theorem glbfloorA_returns_extracted (env : Env α) (solve : AState α → Option (Answer α)) (thr ε : α) (die : Rect α)
    (maxIter : Option Nat) (fuel : Nat) (init r : AState α) (hε : 0 ≤ ε) (h0 : Feasible die ε init.eps init)
    (hlim : maxIter ≠ some 0) (h : glbfloorA env solve thr maxIter fuel init = some r) :
    ∃ (o : AState α) (ans : Answer α),
      Offered (optimizeA env solve thr) (mustRefineA thr) (refineA env thr) init o ∧ Feasible die ε init.eps o ∧
      solve o = some ans ∧
      extractSolution ans init.eps.area thr o.mods o.cells = .ok (r.alloc.cells.map ofCell, r.mods) := by
  have hl : withinLimit maxIter 1 = true := by
    cases maxIter with
    | none => rfl
    | some k =>
      have : k ≠ 0 := fun hk => hlim (by rw [hk])
      simp only [withinLimit, decide_eq_true_eq]; omega
  obtain ⟨o, hoff, ho⟩ := loopG_first _ _ _ maxIter fuel init r hl h
  have hfo := glbfloorA_offered_feasible env solve thr ε die init o hε h0 hoff
  unfold optimizeA at ho
  cases hsol : solve o with
  | none => rw [hsol] at ho; cases ho
  | some ans =>
    rw [hsol] at ho
    exact ⟨o, ans, hoff, hfo, hsol, (extractA_spec env ans thr ε die init.eps o r hfo ho).2.2⟩

/-- **C10, cells clause, with nothing assumed but the start and the solver parameter.**  Start from any valid
    allocation (`ValidAlloc`: what `Allocation.__init__` accepts, in particular pairwise overlap within the area
    tolerance `εA = init.eps.area`) whose cells lie inside the die.  Then every allocation offered to the solver and
    the allocation `glbfloor` returns have pairwise overlap `≤ εA` and lie inside the die — for every solver, every
    threshold, every iteration limit. -/
theorem glbfloorA_cells_feasible (env : Env α) (solve : AState α → Option (Answer α)) (thr : α) (die : Rect α)
    (maxIter : Option Nat) (fuel : Nat) (init : AState α) (hv : ValidAlloc init.eps init.alloc)
    (hin : ∀ c ∈ init.alloc.cells, c.rect.isInside die = true) :
    (∀ o, Offered (optimizeA env solve thr) (mustRefineA thr) (refineA env thr) init o →
        CellsFeasible die init.eps.area o ∧ ValidAlloc init.eps o.alloc) ∧
    (∀ r, glbfloorA env solve thr maxIter fuel init = some r →
        CellsFeasible die init.eps.area r ∧ ValidAlloc init.eps r.alloc) := by
  have h0 : Feasible die init.eps.area init.eps init := ⟨rfl, hv, hin, hv.cells.noOverlap⟩
  refine ⟨fun o ho => ?_, fun r hr => ?_⟩
  · have := glbfloorA_offered_feasible env solve thr _ die init o hv.epsArea h0 ho
    exact ⟨feasible_cells this, this.valid⟩
  · have := glbfloorA_returned_feasible env solve thr _ die maxIter fuel init r hv.epsArea h0 hr
    exact ⟨feasible_cells this, this.valid⟩

/-- … and if the start cells do not overlap at all (an exact tiling, C01), neither do the offered / returned ones. -/
theorem glbfloorA_cells_disjoint (env : Env α) (solve : AState α → Option (Answer α)) (thr : α) (die : Rect α)
    (maxIter : Option Nat) (fuel : Nat) (init : AState α) (hv : ValidAlloc init.eps init.alloc)
    (hin : ∀ c ∈ init.alloc.cells, c.rect.isInside die = true)
    (h0 : init.alloc.cells.Pairwise (fun c d => c.rect.areaOverlap d.rect ≤ 0)) :
    (∀ o, Offered (optimizeA env solve thr) (mustRefineA thr) (refineA env thr) init o → CellsFeasible die 0 o) ∧
    (∀ r, glbfloorA env solve thr maxIter fuel init = some r → CellsFeasible die 0 r) := by
  have hf : Feasible die 0 init.eps init := ⟨rfl, hv, hin, h0⟩
  exact ⟨fun o ho => feasible_cells (glbfloorA_offered_feasible env solve thr 0 die init o (le_refl _) hf ho),
    fun r hr => feasible_cells (glbfloorA_returned_feasible env solve thr 0 die maxIter fuel init r (le_refl _) hf hr)⟩

/-! ### ONE theorem about the value `glbfloor` returns

All clauses of the property about the value returned by the loop with the allocation model plugged in, against the INPUT
netlist, across all passes.  Hypotheses: the start (`ValidAlloc`, cells inside the die, the centres of the fixed modules
inside the die — an input fact, no longer part of the solver assumption —, `FixedOwn` for the fixed modules:
what `create_initial_allocation` produces, `FV.C03.fixed_full` — the REMAINING start-state hypothesis, not derived here
because C03 has its own netlist model); the parameters `0 < thr`, `0 ≤ tol ≤ 1 - thr`, at least one pass; and `SolverOK`:
every answer the solver gives satisfies `SolverPost` for the state it was asked about, and reads FRAME's constants of
the fixed modules back (`ConstRespect`).  Which conclusion uses what:
cells — nothing; ratios in [0,1] — nothing; rows, centres — `SolverPost` of the LAST answer (these two restate it through
the threshold filter / the centre update: FRAME's contribution is that filtering cannot increase a row and that centres are
copied from variables it bounded by the die); rigidity against the input — nothing (every pass is a translation/mirror and
these compose); fixed ownership — `SolverOK` of every pass (it is a loop invariant). -/

/-- `FixedOwn` gives the hypothesis `OfferedFixed` of `fixed_kept`. -/
theorem offeredFixed_of_fixedOwn (offered : List (RectAlloc α)) (f : Glb.Module α) (h : FixedOwn offered f) :
    OfferedFixed offered f := by
  intro c v hv
  unfold getA at hv
  cases hoc : offered[c]? with
  | none => rw [hoc] at hv; cases hv
  | some ra =>
    rcases getA_of_fixedOwn offered f h c ra hoc with ⟨_, hg⟩ | ⟨_, _, hg⟩
    · unfold getA at hg; rw [hg] at hv; left; exact (Option.some.inj hv).symm
    · unfold getA at hg; rw [hg] at hv; right; exact (Option.some.inj hv).symm

/-- a rigid image of a rigid image is a rigid image: translations / mirrors compose. -/
theorem rigidImage_trans (a b c : List (Rect α)) (fl : Bool) (h1 : RigidImage a b fl) (h2 : RigidImage b c fl) :
    RigidImage a c fl := by
  obtain ⟨sx, sy, tx, ty, hsx, hsy, hf, rfl⟩ := h1
  obtain ⟨sx', sy', tx', ty', hsx', hsy', hf', rfl⟩ := h2
  refine ⟨sx' * sx, sy' * sy, sx' * tx + tx', sy' * ty + ty', ?_, ?_, ?_, affine_comp _ _ _ _ _ _ _ _ _⟩
  · rcases hsx with rfl | rfl <;> rcases hsx' with rfl | rfl <;> simp
  · rcases hsy with rfl | rfl <;> rcases hsy' with rfl | rfl <;> simp
  · intro h
    obtain ⟨a1, a2⟩ := hf h
    obtain ⟨b1, b2⟩ := hf' h
    subst a1; subst a2; subst b1; subst b2; simp

theorem rigidImage_refl (rs : List (Rect α)) (fl : Bool) : RigidImage rs rs fl :=
  ⟨1, 1, 0, 0, Or.inl rfl, Or.inl rfl, fun _ => ⟨rfl, rfl⟩, (affine_id rs).symm⟩

/-- a module of the input netlist and the module at the same position later: same name and flags; a movable hard
    module is a rigid image (mirrored only if flippable); any other module has literally the same rectangles. -/
def ModRel (m m' : Glb.Module α) : Prop :=
  m'.name = m.name ∧ m'.hard = m.hard ∧ m'.fixed = m.fixed ∧ m'.flip = m.flip ∧
  ((m.hard = true ∧ m.fixed = false) → RigidImage m.rects m'.rects m.flip) ∧
  (¬(m.hard = true ∧ m.fixed = false) → m'.rects = m.rects)

theorem modRel_refl (m : Glb.Module α) : ModRel m m :=
  ⟨rfl, rfl, rfl, rfl, fun _ => rigidImage_refl _ _, fun _ => rfl⟩

theorem modRel_trans (a b c : Glb.Module α) (h1 : ModRel a b) (h2 : ModRel b c) : ModRel a c := by
  obtain ⟨n1, hd1, fx1, fl1, r1, k1⟩ := h1
  obtain ⟨n2, hd2, fx2, fl2, r2, k2⟩ := h2
  refine ⟨n2.trans n1, hd2.trans hd1, fx2.trans fx1, fl2.trans fl1, fun hm => ?_, fun hn => ?_⟩
  · have hb : b.hard = true ∧ b.fixed = false := ⟨hd1 ▸ hm.1, fx1 ▸ hm.2⟩
    have := r2 hb
    rw [fl1] at this
    exact rigidImage_trans _ _ _ _ (r1 hm) this
  · have hb : ¬(b.hard = true ∧ b.fixed = false) := fun hb => hn ⟨hd1 ▸ hb.1, fx1 ▸ hb.2⟩
    rw [k2 hb, k1 hn]

/-- one `extract_solution` relates every module to its update. -/
theorem modRel_step (ans : Answer α) (m m' : Glb.Module α) (h : updateModule ans m = some m') : ModRel m m' := by
  obtain ⟨_, _, hn, hh, hf, hfl⟩ := updateModule_fields ans m m' h
  refine ⟨hn, hh, hf, hfl, fun hm => (flip_rigid ans m m' hm.1 hm.2 h).1, fun hn' => ?_⟩
  unfold updateModule at h
  have : (m.hard && !m.fixed) = false := by
    cases hh' : m.hard <;> cases hx : m.fixed <;> simp_all
  simp only [this, Bool.false_eq_true, if_false, Option.some.injEq] at h
  rw [← h]

/-- a fixed module whose centre the answer reads back is left literally unchanged. -/
theorem updateModule_fixed (ans : Answer α) (f : Glb.Module α) (hfix : f.fixed = true) (hx : ans.x f.name = f.cx)
    (hy : ans.y f.name = f.cy) : updateModule ans f = some f := by
  unfold updateModule
  simp only [hfix, Bool.not_true, Bool.and_false, Bool.false_eq_true, if_false, hx, hy]
  cases f; simp_all

/-- the loop invariant of the composed theorem. -/
structure GlbInv (die : Rect α) (init s : AState α) : Prop where
  feasible : Feasible die init.eps.area init.eps s
  mods : List.Forall₂ ModRel init.mods s.mods
  fixed : ∀ f ∈ init.mods, f.fixed = true →
    f ∈ s.mods ∧ FixedOwn (s.alloc.cells.map ofCell) f ∧
    ∀ c0 ∈ init.alloc.cells, c0.alloc = [(f.name, 1)] → c0.rect.fixed = true →
      ∃ d ∈ s.alloc.cells, d.rect = c0.rect ∧ d.alloc = [(f.name, 1)]
  fixedCentres : ∀ m ∈ s.mods, m.fixed = true → InDie die m.cx m.cy

/-- WHAT IS ASSUMED OF EVERY SOLVER CALL in the composed theorem: the answer satisfies `SolverPost` for the state the
    solver was asked about (only states satisfying the loop invariant `GlbInv` matter), and FRAME's constants for the fixed modules are read back (`ConstRespect`: by construction
    of the GEKKO model, checked by the harness on every captured answer). -/
def SolverOK (solve : AState α → Option (Answer α)) (tol : α) (die : Rect α) (init : AState α) : Prop :=
  ∀ o ans, GlbInv die init o → solve o = some ans →
    SolverPost ans tol die o.mods o.alloc.cells.length ∧
    ∀ f ∈ o.mods, f.fixed = true → ConstRespect ans (o.alloc.cells.map ofCell) f

theorem glbInv_refine (env : Env α) (thr : α) (die : Rect α) (init s r : AState α)
    (hs : GlbInv die init s) (h : refineA env thr s = some r) : GlbInv die init r := by
  obtain ⟨r', h1, hf, hm, href⟩ := refineA_spec env thr _ die init.eps s hs.feasible.valid.epsArea hs.feasible
  rw [h1] at h; cases h
  refine ⟨hf, hm ▸ hs.mods, fun f hfm hfx => ?_, hm ▸ hs.fixedCentres⟩
  obtain ⟨a1, a2, a3⟩ := hs.fixed f hfm hfx
  refine ⟨hm ▸ a1, fixedOwn_refines _ _ f href a2, fun c0 hc0 hal hfix => ?_⟩
  obtain ⟨d, hd, hdr, hda⟩ := a3 c0 hc0 hal hfix
  exact ⟨d, href.fixed_kept d hd (by rw [hdr]; exact hfix), hdr, hda⟩

theorem glbInv_optimize (env : Env α) (solve : AState α → Option (Answer α)) (thr tol : α) (die : Rect α)
    (init s r : AState α) (hthr : 0 < thr) (htol0 : 0 ≤ tol) (htol : tol ≤ 1 - thr) (hsol : SolverOK solve tol die init)
    (hs : GlbInv die init s) (h : optimizeA env solve thr s = some r) : GlbInv die init r := by
  unfold optimizeA at h
  cases hsv : solve s with
  | none => rw [hsv] at h; cases h
  | some ans =>
    rw [hsv] at h
    obtain ⟨post, hcr⟩ := hsol s ans hs hsv
    obtain ⟨hf, hcells, hex⟩ := extractA_spec env ans thr _ die init.eps s r hs.feasible h
    obtain ⟨_, hupd⟩ := extractSolution_ok _ _ _ _ _ _ _ hex
    have hstep := updateModules_spec ans s.mods r.mods hupd
    have hrects : (s.alloc.cells.map ofCell).map (·.rect) = s.cells := by
      unfold AState.cells; rw [List.map_map]; rfl
    have hlen : (s.alloc.cells.map ofCell).length = s.alloc.cells.length := by simp
    refine ⟨hf, forall₂_trans_of (fun a b c h1 h2 => modRel_trans a b c h1 (modRel_step ans b c h2)) hs.mods hstep,
      fun f hfm hfx => ?_, fun m' hm' hfx' => ?_⟩
    swap
    · obtain ⟨m, hm, hu⟩ := forall₂_mem_right hstep m' hm'
      obtain ⟨hx, hy, _, _, hfx2, _⟩ := updateModule_fields ans m m' hu
      have hfm : m.fixed = true := by rw [← hfx2]; exact hfx'
      have cr := hcr m hm hfm
      rw [hx, hy, cr.x, cr.y]; exact hs.fixedCentres m hm hfm
    obtain ⟨a1, a2, a3⟩ := hs.fixed f hfm hfx
    have cr := hcr f a1 hfx
    have hnn : ∀ m ∈ s.mods, ∀ c < (s.alloc.cells.map ofCell).length, 0 ≤ ans.a m.name c :=
      fun m hm c hc => (post.bounds m hm c (hlen ▸ hc)).1
    have hrow : ∀ c < (s.alloc.cells.map ofCell).length, (s.mods.map fun m => ans.a m.name c).sum ≤ 1 + tol :=
      fun c hc => post.rows c (hlen ▸ hc)
    have hcells' : r.alloc.cells.map ofCell = allocList ans thr s.mods ((s.alloc.cells.map ofCell).map (·.rect)) := by
      rw [hcells, map_ofCell_toCell, hrects]
    refine ⟨?_, ?_, fun c0 hc0 hal hfix => ?_⟩
    · obtain ⟨m', hm', hu⟩ := forall₂_mem_left hstep f a1
      rw [updateModule_fixed ans f hfx cr.x cr.y] at hu
      cases hu; exact hm'
    · rw [hcells']
      exact fixedOwn_extract ans thr tol s.mods _ f hthr htol0 htol a1 hnn hrow cr.a a2
    · obtain ⟨d, hd, hdr, hda⟩ := a3 c0 hc0 hal hfix
      obtain ⟨ra, hra, hr1, hr2⟩ := owned_kept_extract ans thr tol s.mods _ f hthr htol a1 hnn hrow cr.a (ofCell d)
        (List.mem_map.mpr ⟨d, hd, rfl⟩) hda
      rw [← hcells'] at hra
      obtain ⟨d', hd', rfl⟩ := List.mem_map.mp hra
      exact ⟨d', hd', hr1.trans hdr, hr2⟩

/-- **C10 as one statement about the value `glbfloor` returns** (loop with the allocation model plugged in, at
    least one pass allowed).  Start: a valid allocation inside the die on which the fixed modules own their cells.
    Solver: `SolverOK`.  Then, for the returned allocation `r.alloc` and netlist `r.mods`:
    1. cells pairwise overlap ≤ the area tolerance and lie inside the die;
    2. no returned cell is empty and every listed ratio is in `[0,1]`;
    3. every cell's total is at most `1 + tol`;
    4. every module centre lies in the die;
    5. against the INPUT netlist, position by position: same names and flags; every movable hard module is a
       translation/mirror image of its input rectangles (mirror only if flippable); every other module has the same
       rectangles;  6. the reported centre of a movable hard module is the centroid of its rectangles;
    7. every fixed module of the input is in the returned netlist unchanged (rectangles and centre), every returned
       cell is exactly `{f ↦ 1}` or does not list `f` and does not overlap its rectangles, and each cell it owned at
       the start is still there with `{f ↦ 1}`. -/
theorem glbfloor_correct (env : Env α) (solve : AState α → Option (Answer α)) (thr tol : α) (die : Rect α)
    (maxIter : Option Nat) (fuel : Nat) (init r : AState α)
    (hv : ValidAlloc init.eps init.alloc) (hin : ∀ c ∈ init.alloc.cells, c.rect.isInside die = true)
    (hown : ∀ f ∈ init.mods, f.fixed = true → FixedOwn (init.alloc.cells.map ofCell) f)
    (hfc : ∀ f ∈ init.mods, f.fixed = true → InDie die f.cx f.cy)
    (hthr : 0 < thr) (htol0 : 0 ≤ tol) (htol : tol ≤ 1 - thr) (hlim : maxIter ≠ some 0)
    (hsol : SolverOK solve tol die init)
    (h : glbfloorA env solve thr maxIter fuel init = some r) :
    CellsFeasible die init.eps.area r ∧
    (∀ c ∈ r.alloc.cells, c.alloc ≠ [] ∧ ∀ p ∈ c.alloc, 0 ≤ p.2 ∧ p.2 ≤ 1) ∧
    (∀ c ∈ r.alloc.cells, (c.alloc.map (·.2)).sum ≤ 1 + tol) ∧
    (∀ m ∈ r.mods, InDie die m.cx m.cy) ∧
    List.Forall₂ ModRel init.mods r.mods ∧
    (∀ m ∈ r.mods, m.hard = true → m.fixed = false → IsCentroid m.rects m.cx m.cy) ∧
    (∀ f ∈ init.mods, f.fixed = true →
      f ∈ r.mods ∧ FixedOwn (r.alloc.cells.map ofCell) f ∧
      ∀ c0 ∈ init.alloc.cells, c0.alloc = [(f.name, 1)] → c0.rect.fixed = true →
        ∃ d ∈ r.alloc.cells, d.rect = c0.rect ∧ d.alloc = [(f.name, 1)]) := by
  have h0 : Feasible die init.eps.area init.eps init := ⟨rfl, hv, hin, hv.cells.noOverlap⟩
  have hinv0 : GlbInv die init init :=
    ⟨h0, forall₂_refl_of modRel_refl _, fun f hf hfx => ⟨hf, hown f hf hfx, fun c0 hc0 hal _ => ⟨c0, hc0, rfl, hal⟩⟩, hfc⟩
  have hinv : GlbInv die init r :=
    loopG_invariant _ _ _ maxIter (GlbInv die init)
      (fun s r hs hr => glbInv_refine env thr die init s r hs hr)
      (fun s r hs hr => glbInv_optimize env solve thr tol die init s r hthr htol0 htol hsol hs hr) fuel 1 init r hinv0 h
  obtain ⟨o, ans, hoff, hfo, hsv, hex⟩ :=
    glbfloorA_returns_extracted env solve thr _ die maxIter fuel init r hv.epsArea h0 hlim h
  have hinvo : GlbInv die init o :=
    hoff.inv (GlbInv die init) hinv0 (fun s r hs hr => glbInv_refine env thr die init s r hs hr)
      (fun s r hs hr => glbInv_optimize env solve thr tol die init s r hthr htol0 htol hsol hs hr)
  obtain ⟨post, _⟩ := hsol o ans hinvo hsv
  have hlen : o.cells.length = o.alloc.cells.length := by unfold AState.cells; simp
  obtain ⟨_, hrange⟩ := extract_ratio_range ans _ thr o.mods o.cells _ _ hex
  obtain ⟨_, hrows, hcentres⟩ := extract_ratios ans _ thr tol die o.mods o.cells _ _ (hlen ▸ post) hex
  obtain ⟨hlenm, hrig⟩ := extract_hard_rigid ans _ thr o.mods o.cells _ _ hex
  refine ⟨feasible_cells hinv.feasible, ?_, ?_, hcentres, hinv.mods, ?_, hinv.fixed⟩
  · intro c hc
    have := hrange (ofCell c) (List.mem_map.mpr ⟨c, hc, rfl⟩)
    exact ⟨this.1, fun p hp => ⟨(this.2 p hp).1, (this.2 p hp).2.1⟩⟩
  · intro c hc
    exact hrows (ofCell c) (List.mem_map.mpr ⟨c, hc, rfl⟩)
  · intro m' hm' hh hnf
    obtain ⟨i, hi, rfl⟩ := List.getElem_of_mem hm'
    have hi' : i < o.mods.length := hlenm ▸ hi
    have hm := hrig i o.mods[i] r.mods[i] (by rw [List.getElem?_eq_getElem hi']) (by rw [List.getElem?_eq_getElem hi])
    obtain ⟨_, hupd⟩ := extractSolution_ok _ _ _ _ _ _ _ hex
    have hu := forall₂_get (updateModules_spec ans o.mods r.mods hupd) i o.mods[i] r.mods[i]
      (by rw [List.getElem?_eq_getElem hi']) (by rw [List.getElem?_eq_getElem hi])
    obtain ⟨_, _, _, hh', hf', _⟩ := updateModule_fields ans _ _ hu
    exact (hm.1 (hh' ▸ hh) (hf' ▸ hnf)).2

/-! ### what `optimize_allocation` posts implies what is assumed of the answer

`FV/Model/GlbOpt.lean` generates the bounds, constants and equations `optimize_allocation` hands to GEKKO (checked
node-for-node against the real GEKKO model on every harness instance).  A point satisfying them — bounds and constants
exactly, `<=`/`>=` within `tolI`, `==` within `tolE` — yields an answer with `SolverPost` and `ConstRespect`.  So the solver
hypothesis of `glbfloor_correct` becomes: "whenever the solver returns, it returns a point satisfying what FRAME posted,
within its tolerances" (and: when it does not converge it raises — `solve = none` —, observed by the harness on every
solve).  Not used by this implication (hence irrelevant to C10): the area, centroid, rigid-offset and dispersion equations
and the objective. -/

/-- `get_a` of any module on an allocation with proper cells and ratios in `[0,1]` is in `[0,1]`. -/
theorem getA_unit (offered : List (RectAlloc α)) (mm : Glb.Module α)
    (hok : ∀ ra ∈ offered, 0 < ra.rect.w ∧ 0 < ra.rect.h ∧ ∀ p ∈ ra.alloc, 0 ≤ p.2 ∧ p.2 ≤ 1)
    (c : Nat) (v : α) (h : getA offered mm c = some v) : 0 ≤ v ∧ v ≤ 1 := by
  unfold getA at h
  cases hoc : offered[c]? with
  | none => rw [hoc] at h; cases h
  | some ra =>
    rw [hoc] at h; simp only at h
    obtain ⟨hw, hh, hr⟩ := hok ra (List.mem_of_getElem? hoc)
    cases hl : ra.alloc.lookup mm.name with
    | some w =>
      rw [hl] at h; cases h
      exact hr _ (mem_of_lookup _ _ _ hl)
    | none =>
      rw [hl] at h; simp only at h
      split at h
      · rename_i r _
        cases h
        have hA : 0 < ra.rect.area := by unfold Rect.area; positivity
        have h0 := C18.areaOverlap_nonneg ra.rect r
        have hle : ra.rect.areaOverlap r ≤ ra.rect.area := by
          rw [Rect.areaOverlap_eq]
          have e1 : Rect.ovLen ra.rect.xmin ra.rect.xmax r.xmin r.xmax ≤ ra.rect.w := by
            have := Rect.xmax_sub_xmin ra.rect; unfold Rect.ovLen; grind
          have e2 : Rect.ovLen ra.rect.ymin ra.rect.ymax r.ymin r.ymax ≤ ra.rect.h := by
            have := Rect.ymax_sub_ymin ra.rect; unfold Rect.ovLen; grind
          unfold Rect.area
          exact mul_le_mul e1 e2 (Rect.ovLen_nonneg ..) (le_of_lt hw)
        exact ⟨div_nonneg h0 (le_of_lt hA), (div_le_one hA).mpr hle⟩
      · cases h; simp

/-- **posted_constraints_imply_solverPost**: every point `σ` that satisfies what `optimize_allocation` posts for the
    offered allocation and netlist `inp` gives an answer (`ansOf σ`: what `extract_solution` reads) with `SolverPost`, for
    the tolerance `tolI + (#movable hard modules)·tolE`, and `ConstRespect` for every fixed module.  Facts about the INPUT
    used: offered ratios / `get_a` in `[0,1]` (`getA_unit`), centres of the fixed modules inside the die. -/
theorem posted_constraints_imply_solverPost (inp : GlbOpt.Input α) (σ : GlbOpt.V → α) (tolI tolE : α)
    (hs : GlbOpt.Sat σ tolI tolE (GlbOpt.post inp))
    (hunit : ∀ mm ∈ modelModules inp.mods, ∀ c v, getA inp.offered mm c = some v → 0 ≤ v ∧ v ≤ 1)
    (hfc : ∀ f ∈ inp.mods, f.fixed = true → InDie inp.die f.cx f.cy) :
    SolverPost (GlbOpt.ansOf σ) (tolI + ((inp.mods.filter GlbOpt.movable).length : α) * tolE) inp.die inp.mods
      inp.offered.length ∧
    ∀ f ∈ inp.mods, f.fixed = true → ConstRespect (GlbOpt.ansOf σ) inp.offered f := by
  refine ⟨⟨fun m hm c hc => ?_, fun c hc => GlbOpt.rows_of_sat inp σ tolI tolE hs c hc, fun m hm => ?_⟩, fun f hf hfx => ?_⟩
  · by_cases hmv : GlbOpt.movable m = true
    · exact (GlbOpt.movable_bounds inp σ tolI tolE hs m hm hmv).1 c hc
    · exact GlbOpt.a_model_bounds inp σ tolI tolE hs hunit m
        (GlbOpt.mem_modelModules_self inp.mods m hm (by simpa using hmv)) c hc
  · show InDie inp.die (σ (.x m.name)) (σ (.y m.name))
    by_cases hmv : GlbOpt.movable m = true
    · exact (GlbOpt.movable_bounds inp σ tolI tolE hs m hm hmv).2
    · by_cases hfx : m.fixed = true
      · obtain ⟨hx, hy, _⟩ := GlbOpt.fixed_consts inp σ tolI tolE hs m hm hfx
        rw [hx, hy]; exact hfc m hm hfx
      · exact GlbOpt.model_centre_bounds inp σ tolI tolE hs m
          (GlbOpt.mem_modelModules_self inp.mods m hm (by simpa using hmv)) (by simpa using hfx)
  · obtain ⟨hx, hy, ha⟩ := GlbOpt.fixed_consts inp σ tolI tolE hs f hf hfx
    exact ⟨ha, hx, hy⟩

theorem solverPost_mono (ans : Answer α) (tol tol' : α) (die : Rect α) (mods : List (Glb.Module α)) (n : Nat)
    (h : SolverPost ans tol die mods n) (hle : tol ≤ tol') : SolverPost ans tol' die mods n :=
  ⟨h.bounds, fun c hc => le_trans (h.rows c hc) (by linarith), h.centres⟩

/-- what the loop state does not carry and the implication does not use: the trade-off parameter, the soft modules'
    areas, the nets (weight, pins) and Python's float power. -/
structure NetData (α : Type) where
  alpha : α
  areaOf : String → α
  edges : List (α × List String)
  powF : α → α → α

/-- the input of the constraint generator for a loop state. -/
def inputOf (die : Rect α) (thr : α) (o : AState α) (nd : NetData α) : GlbOpt.Input α :=
  { die := die, epsD := o.eps.dist, thr := thr, alpha := nd.alpha, offered := o.alloc.cells.map ofCell, mods := o.mods,
    areaOf := nd.areaOf, edges := nd.edges, powF := nd.powF }

/-- WHAT REMAINS ASSUMED OF THE SOLVER: whenever it returns an answer for a state of the loop, the answer is read from
    a point that satisfies what `optimize_allocation` posted for that state, within the tolerances. -/
def SolverMeetsPosted (solve : AState α → Option (Answer α)) (tolI tolE thr : α) (die : Rect α) (init : AState α) : Prop :=
  ∀ o ans, GlbInv die init o → solve o = some ans →
    ∃ (σ : GlbOpt.V → α) (nd : NetData α),
      ans = GlbOpt.ansOf σ ∧ GlbOpt.Sat σ tolI tolE (GlbOpt.post (inputOf die thr o nd))

theorem solverOK_of_posted (solve : AState α → Option (Answer α)) (tolI tolE thr : α) (die : Rect α) (init : AState α)
    (htE : 0 ≤ tolE) (h : SolverMeetsPosted solve tolI tolE thr die init) :
    SolverOK solve (tolI + (init.mods.length : α) * tolE) die init := by
  intro o ans hinv hsv
  obtain ⟨σ, nd, rfl, hsat⟩ := h o ans hinv hsv
  have hunit : ∀ mm ∈ modelModules (inputOf die thr o nd).mods, ∀ c v,
      getA (inputOf die thr o nd).offered mm c = some v → 0 ≤ v ∧ v ≤ 1 := by
    intro mm _ c v hg
    refine getA_unit _ mm ?_ c v hg
    intro ra hra
    obtain ⟨cell, hcell, rfl⟩ := List.mem_map.mp hra
    obtain ⟨hw, hh, _⟩ := hinv.feasible.valid.cells.good cell hcell
    refine ⟨hw, hh, fun p hp => ?_⟩
    have := hinv.feasible.valid.cells.allocs cell hcell
    unfold allocOK at this
    simp only [Bool.and_eq_true, List.all_eq_true, decide_eq_true_eq, Rect.zero_eq, Alloc.one_eq] at this
    exact ⟨(this.1 p hp).1.2, (this.1 p hp).2⟩
  obtain ⟨post, cr⟩ := posted_constraints_imply_solverPost (inputOf die thr o nd) σ tolI tolE hsat hunit
    hinv.fixedCentres
  have hlen : (o.alloc.cells.map ofCell).length = o.alloc.cells.length := by simp
  refine ⟨?_, cr⟩
  have hcount : (((inputOf die thr o nd).mods.filter GlbOpt.movable).length : α) ≤ (init.mods.length : α) := by
    have h1 : (o.mods.filter GlbOpt.movable).length ≤ o.mods.length := List.length_filter_le _ _
    have h2 : o.mods.length = init.mods.length := hinv.mods.length_eq.symm
    exact_mod_cast (h2 ▸ h1)
  have := solverPost_mono _ _ (tolI + (init.mods.length : α) * tolE) _ _ _ post
    (by have := mul_le_mul_of_nonneg_right hcount htE; linarith)
  simpa [inputOf, hlen] using this

/-- **C10 with the solver hypothesis reduced to "the returned point satisfies what FRAME posted"**: all conclusions of
    `glbfloor_correct`, for `tol = tolI + (#modules)·tolE`. -/
theorem glbfloor_correct_posted (env : Env α) (solve : AState α → Option (Answer α)) (thr tolI tolE : α) (die : Rect α)
    (maxIter : Option Nat) (fuel : Nat) (init r : AState α)
    (hv : ValidAlloc init.eps init.alloc) (hin : ∀ c ∈ init.alloc.cells, c.rect.isInside die = true)
    (hown : ∀ f ∈ init.mods, f.fixed = true → FixedOwn (init.alloc.cells.map ofCell) f)
    (hfc : ∀ f ∈ init.mods, f.fixed = true → InDie die f.cx f.cy)
    (hthr : 0 < thr) (htI : 0 ≤ tolI) (htE : 0 ≤ tolE) (htol : tolI + (init.mods.length : α) * tolE ≤ 1 - thr)
    (hlim : maxIter ≠ some 0)
    (hsol : SolverMeetsPosted solve tolI tolE thr die init)
    (h : glbfloorA env solve thr maxIter fuel init = some r) :
    CellsFeasible die init.eps.area r ∧
    (∀ c ∈ r.alloc.cells, c.alloc ≠ [] ∧ ∀ p ∈ c.alloc, 0 ≤ p.2 ∧ p.2 ≤ 1) ∧
    (∀ c ∈ r.alloc.cells, (c.alloc.map (·.2)).sum ≤ 1 + (tolI + (init.mods.length : α) * tolE)) ∧
    (∀ m ∈ r.mods, InDie die m.cx m.cy) ∧
    List.Forall₂ ModRel init.mods r.mods ∧
    (∀ m ∈ r.mods, m.hard = true → m.fixed = false → IsCentroid m.rects m.cx m.cy) ∧
    (∀ f ∈ init.mods, f.fixed = true →
      f ∈ r.mods ∧ FixedOwn (r.alloc.cells.map ofCell) f ∧
      ∀ c0 ∈ init.alloc.cells, c0.alloc = [(f.name, 1)] → c0.rect.fixed = true →
        ∃ d ∈ r.alloc.cells, d.rect = c0.rect ∧ d.alloc = [(f.name, 1)]) :=
  glbfloor_correct env solve thr _ die maxIter fuel init r hv hin hown hfc hthr
    (by have := mul_nonneg (Nat.cast_nonneg (α := α) init.mods.length) htE; linarith) htol hlim
    (solverOK_of_posted solve tolI tolE thr die init htE hsol) h

/-! ### the bodies of the posted rows: what they say, proved from the generated system

`FV/Model/GlbOpt.lean` generates every row `optimize_allocation` posts WITH its body (compared node-for-node with the captured
GEKKO model on every harness run).  The theorems below read the bodies back: every statement is about an arbitrary point `σ`
that satisfies the generated system (`GlbOpt.Sat`) — a theorem about what FRAME posts, not an assumption about the solver. -/

/-- **every module centre lies in the die — from the posted system.**  For every module of the netlist the centre read
    back from a point satisfying the posted system is inside the die: for soft and movable hard modules because FRAME
    declares the centre variables with the die's bounding box as bounds, for fixed modules because their centres are posted as
    constants (inside the die by C01/C03). -/
theorem posted_centres_in_die (inp : GlbOpt.Input α) (σ : GlbOpt.V → α) (tolI tolE : α)
    (hs : GlbOpt.Sat σ tolI tolE (GlbOpt.post inp))
    (hfc : ∀ f ∈ inp.mods, f.fixed = true → InDie inp.die f.cx f.cy) :
    ∀ m ∈ inp.mods, InDie inp.die (σ (.x m.name)) (σ (.y m.name)) := by
  intro m hm
  by_cases hmv : GlbOpt.movable m = true
  · exact (GlbOpt.movable_bounds inp σ tolI tolE hs m hm hmv).2
  · by_cases hfx : m.fixed = true
    · obtain ⟨hx, hy, _⟩ := GlbOpt.fixed_consts inp σ tolI tolE hs m hm hfx
      rw [hx, hy]; exact hfc m hm hfx
    · exact GlbOpt.model_centre_bounds inp σ tolI tolE hs m
        (GlbOpt.mem_modelModules_self inp.mods m hm (by simpa using hmv)) (by simpa using hfx)

/-- **area and centroid rows.**  For every model module (soft, fixed, or one rectangle of a movable hard module): the area
    it is given over the offered cells is at least its own area (within `tolI`), and its centre is the mean of the cell
    centres weighted by the area given in each cell, normalised by its own area (within `tolE`). -/
theorem posted_area_centroid (inp : GlbOpt.Input α) (σ : GlbOpt.V → α) (tolI tolE : α)
    (hs : GlbOpt.Sat σ tolI tolE (GlbOpt.post inp)) (m : Glb.Module α) (hm : m ∈ modelModules inp.mods) :
    GlbOpt.mmArea inp m ≤ GlbOpt.givenArea σ inp m + tolI ∧
    |1 / GlbOpt.mmArea inp m * ((GlbOpt.cellIdx inp).map fun c =>
        GlbOpt.cellArea inp c * GlbOpt.cellCx inp c * σ (.a m.name c)).sum - σ (.x m.name)| ≤ tolE ∧
    |1 / GlbOpt.mmArea inp m * ((GlbOpt.cellIdx inp).map fun c =>
        GlbOpt.cellArea inp c * GlbOpt.cellCy inp c * σ (.a m.name c)).sum - σ (.y m.name)| ≤ tolE :=
  ⟨GlbOpt.area_row_meaning inp σ tolI tolE hs m hm, GlbOpt.centroid_row_meaning inp σ tolI tolE hs m hm⟩

/-- **a convex combination of cell centres inside the die is inside the die.**  If the cells offered lie (with their
    centres) in `[xlo,xhi] × [ylo,yhi]` — e.g. the die — the ratios are non-negative and the module is given exactly its
    area, then the centroid rows put its centre in that box (within `tolE`); in general the box is scaled by
    (given area)/(own area) ≥ 1 - tolI/area, which is why FRAME also bounds the centre variables (`posted_centres_in_die`). -/
theorem posted_centroid_in_cell_hull (inp : GlbOpt.Input α) (σ : GlbOpt.V → α) (tolI tolE : α)
    (hs : GlbOpt.Sat σ tolI tolE (GlbOpt.post inp)) (m : Glb.Module α) (hm : m ∈ modelModules inp.mods)
    (hpos : 0 < GlbOpt.mmArea inp m)
    (hnn : ∀ c < inp.offered.length, 0 ≤ σ (.a m.name c)) (hA : ∀ c < inp.offered.length, 0 ≤ GlbOpt.cellArea inp c)
    (xlo xhi ylo yhi : α)
    (hcx : ∀ c < inp.offered.length, xlo ≤ GlbOpt.cellCx inp c ∧ GlbOpt.cellCx inp c ≤ xhi)
    (hcy : ∀ c < inp.offered.length, ylo ≤ GlbOpt.cellCy inp c ∧ GlbOpt.cellCy inp c ≤ yhi) :
    (xlo * (GlbOpt.givenArea σ inp m / GlbOpt.mmArea inp m) - tolE ≤ σ (.x m.name) ∧
     σ (.x m.name) ≤ xhi * (GlbOpt.givenArea σ inp m / GlbOpt.mmArea inp m) + tolE ∧
     ylo * (GlbOpt.givenArea σ inp m / GlbOpt.mmArea inp m) - tolE ≤ σ (.y m.name) ∧
     σ (.y m.name) ≤ yhi * (GlbOpt.givenArea σ inp m / GlbOpt.mmArea inp m) + tolE) ∧
    (GlbOpt.givenArea σ inp m = GlbOpt.mmArea inp m →
      xlo - tolE ≤ σ (.x m.name) ∧ σ (.x m.name) ≤ xhi + tolE ∧ ylo - tolE ≤ σ (.y m.name) ∧ σ (.y m.name) ≤ yhi + tolE) :=
  ⟨GlbOpt.centroid_between inp σ tolI tolE hs m hm hpos hnn hA xlo xhi ylo yhi hcx hcy,
   fun hex => GlbOpt.centroid_in_hull inp σ tolI tolE hs m hm hpos hex hnn hA xlo xhi ylo yhi hcx hcy⟩

/-- **dispersion rows.**  `d[m]` of a soft module is `6 / area^(3/2)` times the second moment, about the module's centre, of
    the area it is given; `d[m_i]` of rectangle `i` (`w × h`) of a movable hard module is `12 / (w³ + h³)` times the second
    moment of the area given to the rectangle, the offset along the shorter side stretched by the aspect ratio.  (Within
    `tolE`; `powF` is Python's float power.) -/
theorem posted_dispersion (inp : GlbOpt.Input α) (σ : GlbOpt.V → α) (tolI tolE : α)
    (hs : GlbOpt.Sat σ tolI tolE (GlbOpt.post inp)) :
    (∀ m ∈ modelModules inp.mods, m.hard = false →
      |6 / inp.powF (GlbOpt.mmArea inp m) (3 / 2) * ((GlbOpt.cellIdx inp).map fun c =>
          GlbOpt.cellArea inp c * σ (.a m.name c) *
            ((σ (.x m.name) - GlbOpt.cellCx inp c) ^ 2 + (σ (.y m.name) - GlbOpt.cellCy inp c) ^ 2)).sum
        - σ (.d m.name)| ≤ tolE) ∧
    (∀ m ∈ inp.mods, GlbOpt.movable m = true → ∀ (i : Nat) (rect : Rect α), m.rects[i]? = some rect →
      |12 / (inp.powF rect.w 3 + inp.powF rect.h 3) * ((GlbOpt.cellIdx inp).map fun c =>
          GlbOpt.cellArea inp c * σ (.a (subName m.name i) c) *
            (if rect.w < rect.h then
              (rect.h / rect.w * (σ (.x (subName m.name i)) - GlbOpt.cellCx inp c)) ^ 2 +
                (σ (.y (subName m.name i)) - GlbOpt.cellCy inp c) ^ 2
            else
              (σ (.x (subName m.name i)) - GlbOpt.cellCx inp c) ^ 2 +
                (rect.w / rect.h * (σ (.y (subName m.name i)) - GlbOpt.cellCy inp c)) ^ 2)).sum
        - σ (.d (subName m.name i))| ≤ tolE) :=
  ⟨fun m hm hh => GlbOpt.softDisp_row_meaning inp σ tolI tolE hs m hm hh,
   fun m hm hmv i rect hi => GlbOpt.hardDisp_row_meaning inp σ tolI tolE hs m hm hmv i rect hi⟩

/-- **nets with other than two pins**: the anonymous centre variables are the mean of the pins' centres (a fixed module
    contributes its constant centre). -/
theorem posted_net_centres (inp : GlbOpt.Input α) (σ : GlbOpt.V → α) (tolI tolE : α)
    (hs : GlbOpt.Sat σ tolI tolE (GlbOpt.post inp)) (e : Nat) (w : α) (pins : List String)
    (he : inp.edges[e]? = some (w, pins)) (h2 : pins.length ≠ 2) :
    |(pins.map (GlbOpt.pinVx σ inp)).sum / (pins.length : α) - σ (.ex e)| ≤ tolE ∧
    |(pins.map (GlbOpt.pinVy σ inp)).sum / (pins.length : α) - σ (.ey e)| ≤ tolE :=
  GlbOpt.hyper_row_meaning inp σ tolI tolE hs e w pins he h2

/-- **the objective with its alpha weighting.**  At every point, the sum of all `g.Minimize` terms FRAME posts is
    `alpha · (total wire length) + (1 - alpha) · (total dispersion)`: wire length = per net the weight times half the
    squared distance of its two pins, or times the sum of squared distances of its pins from the net's centre variables;
    total dispersion = the sum of the dispersion variables of the soft modules and of the rectangles of movable hard
    modules. -/
theorem posted_objective_alpha_weighting (inp : GlbOpt.Input α) (σ : GlbOpt.V → α) :
    GlbOpt.objective σ (GlbOpt.post inp) =
      inp.alpha * GlbOpt.wireLength σ inp + (1 - inp.alpha) * GlbOpt.totalDispersion σ inp :=
  GlbOpt.objective_eq σ inp

/-! ### `SolverPost.bounds … ≤ 1` is what keeps `extract_solution` from raising

The conclusions above never needed the upper bound `a ≤ 1` of `SolverPost` ("listed ratios ≤ 1" holds of every RETURNED
allocation because the `Allocation` constructor asserts it).  Its role is the converse direction: with it the constructor's
ratio assertion cannot fire. -/

/-- **`extract_solution` returns** on an answer meeting `SolverPost`, offered cells in the positive quadrant with pairwise
    overlap `≤ εA` (any feasible loop state), some ratio above the threshold filter and movable hard modules of non-zero
    area: no assertion of the `Allocation` constructor fires and `recenter_rectangles` does not divide by zero.  Uses
    BOTH bounds `0 ≤ a ≤ 1` of `SolverPost`. -/
theorem extract_returns_of_solverPost (ans : Answer α) (εA thr tol : α) (die : Rect α) (mods : List (Glb.Module α))
    (cells : List (Rect α)) (post : SolverPost ans tol die mods cells.length)
    (hne : ∃ m ∈ mods, ∃ c, c < cells.length ∧ 1 - thr < ans.a m.name c)
    (hq : ∀ r ∈ cells, 0 ≤ r.xmin ∧ 0 ≤ r.ymin)
    (hsep : cells.Pairwise fun a b => a.areaOverlap b ≤ εA)
    (harea : ∀ m ∈ mods, m.hard = true → m.fixed = false → totalArea m.rects ≠ 0) :
    ∃ ms, extractSolution ans εA thr mods cells = .ok (allocList ans thr mods cells, ms) :=
  extractSolution_returns ans εA thr mods cells post.bounds hne hq hsep harea

/-! ### the constants are FRAME's: the solver hypothesis mentions variables only

`GlbOpt.Sat` asks three things of the point: bounds of the declared variables, the posted rows, and that the entries FRAME
posted as CONSTANTS read back as those constants.  The last one is not about the solver at all (`get_value` of a float is the
float): it is discharged here, for netlists whose dictionary keys are distinct (`GlbOpt.KeysDistinct`: module names, and the
names `m_r` FRAME gives to the rectangles of movable hard modules; a clash makes GEKKO refuse the duplicate variable name —
observed: the run raises). -/

theorem sameShape_of_modRel (m m' : Glb.Module α) (h : ModRel m m') : GlbOpt.SameShape m m' := by
  obtain ⟨hn, hh, hf, _, hr, hk⟩ := h
  refine ⟨hn, hh, hf, ?_⟩
  by_cases hm : m.hard = true ∧ m.fixed = false
  · obtain ⟨_, _, _, _, _, _, _, e⟩ := hr hm
    rw [e]; simp
  · rw [hk hm]

/-- WHAT REMAINS ASSUMED OF THE SOLVER, constants discharged: whenever it returns for a state of the loop, its values `σ` of
    the VARIABLES FRAME declared respect their bounds and satisfy the posted rows once FRAME's constants are put back; the
    answer `extract_solution` reads is that point with the constants read back (`get_value` of a float is the float). -/
def SolverMeetsPostedVars (solve : AState α → Option (Answer α)) (tolI tolE thr : α) (die : Rect α) (init : AState α) : Prop :=
  ∀ o ans, GlbInv die init o → solve o = some ans →
    ∃ (σ : GlbOpt.V → α) (nd : NetData α),
      ans = GlbOpt.ansOf (GlbOpt.readBack (GlbOpt.post (inputOf die thr o nd)) σ) ∧
      GlbOpt.SatVars σ tolI tolE (GlbOpt.post (inputOf die thr o nd))

/-- with distinct dictionary keys in the INPUT netlist (they stay distinct along the loop: names, flags and numbers of
    rectangles do not change), the variables-only hypothesis implies `SolverMeetsPosted`. -/
theorem solverMeetsPosted_of_vars (solve : AState α → Option (Answer α)) (tolI tolE thr : α) (die : Rect α) (init : AState α)
    (hk : GlbOpt.KeysDistinct init.mods) (h : SolverMeetsPostedVars solve tolI tolE thr die init) :
    SolverMeetsPosted solve tolI tolE thr die init := by
  intro o ans hinv hsv
  obtain ⟨σ, nd, rfl, hsat⟩ := h o ans hinv hsv
  have hko : GlbOpt.NamesOK (inputOf die thr o nd) :=
    GlbOpt.keysDistinct_congr init.mods o.mods (hinv.mods.imp sameShape_of_modRel) hk
  exact ⟨_, nd, rfl, GlbOpt.sat_of_satVars _ hko σ tolI tolE hsat⟩

/-- **C10 with the solver hypothesis reduced to the VARIABLES and ROWS FRAME posted** (`SolverMeetsPostedVars`): all
    conclusions of `glbfloor_correct`, for `tol = tolI + (#modules)·tolE`.  Hypotheses left — see the table in the header:
    start state (discharged by `glbfloor_correct_posted_from_die`), parameter ranges, distinct keys, the solver. -/
theorem glbfloor_correct_solver_vars (env : Env α) (solve : AState α → Option (Answer α)) (thr tolI tolE : α) (die : Rect α)
    (maxIter : Option Nat) (fuel : Nat) (init r : AState α)
    (hv : ValidAlloc init.eps init.alloc) (hin : ∀ c ∈ init.alloc.cells, c.rect.isInside die = true)
    (hown : ∀ f ∈ init.mods, f.fixed = true → FixedOwn (init.alloc.cells.map ofCell) f)
    (hfc : ∀ f ∈ init.mods, f.fixed = true → InDie die f.cx f.cy)
    (hthr : 0 < thr) (htI : 0 ≤ tolI) (htE : 0 ≤ tolE) (htol : tolI + (init.mods.length : α) * tolE ≤ 1 - thr)
    (hlim : maxIter ≠ some 0) (hk : GlbOpt.KeysDistinct init.mods)
    (hsol : SolverMeetsPostedVars solve tolI tolE thr die init)
    (h : glbfloorA env solve thr maxIter fuel init = some r) :
    CellsFeasible die init.eps.area r ∧
    (∀ c ∈ r.alloc.cells, c.alloc ≠ [] ∧ ∀ p ∈ c.alloc, 0 ≤ p.2 ∧ p.2 ≤ 1) ∧
    (∀ c ∈ r.alloc.cells, (c.alloc.map (·.2)).sum ≤ 1 + (tolI + (init.mods.length : α) * tolE)) ∧
    (∀ m ∈ r.mods, InDie die m.cx m.cy) ∧
    List.Forall₂ ModRel init.mods r.mods ∧
    (∀ m ∈ r.mods, m.hard = true → m.fixed = false → IsCentroid m.rects m.cx m.cy) ∧
    (∀ f ∈ init.mods, f.fixed = true →
      f ∈ r.mods ∧ FixedOwn (r.alloc.cells.map ofCell) f ∧
      ∀ c0 ∈ init.alloc.cells, c0.alloc = [(f.name, 1)] → c0.rect.fixed = true →
        ∃ d ∈ r.alloc.cells, d.rect = c0.rect ∧ d.alloc = [(f.name, 1)]) :=
  glbfloor_correct_posted env solve thr tolI tolE die maxIter fuel init r hv hin hown hfc hthr htI htE htol hlim
    (solverMeetsPosted_of_vars solve tolI tolE thr die init hk hsol) h

/-! ### non-vacuity: concrete instances meet the hypotheses -/

section Examples

/-- two offered cells; `S` soft, `F` fixed (owns cell 1), `H` hard, flippable, two rectangles. -/
def exCells : List (Rect ℚ) := [⟨1, 1, 2, 2, "_", false, false, .nopoly⟩, ⟨3, 1, 2, 2, "_", true, false, .nopoly⟩]
def exF : Glb.Module ℚ := ⟨"F", true, true, false, 3, 1, [⟨3, 1, 2, 2, "_", true, true, .nopoly⟩]⟩
def exH : Glb.Module ℚ := ⟨"H", true, false, true, 1, 1,
  [⟨1, 1, 1, 1, "_", false, true, .nopoly⟩, ⟨2, 1, 1, 1, "_", false, true, .nopoly⟩]⟩
def exMods : List (Glb.Module ℚ) := [⟨"S", false, false, false, 1, 1, []⟩, exF, exH]
def exAns : Answer ℚ where
  a := fun n c => if n = "F" then (if c = 1 then 1 else 0) else if c = 0 then (if n = "S" then 1/2 else 1/4) else 0
  x := fun n => if n = "F" then 3 else if n = "H_0" then 2 else if n = "H_1" then 1 else 1
  y := fun n => 1
def exOffered : List (RectAlloc ℚ) :=
  [⟨⟨1, 1, 2, 2, "_", false, false, .nopoly⟩, [("S", 1/2)], 0⟩, ⟨⟨3, 1, 2, 2, "_", true, false, .nopoly⟩, [("F", 1)], 0⟩]

/-- `extract_solution` returns on this instance (threshold 0.9): both cells are kept. -/
example : (match extractSolution exAns (1/1000000) (9/10) exMods exCells with
    | .ok (al, ms) => al.length == 2 && ms.length == 3 | .error _ => false) = true := by decide +kernel

/-- the answer meets `SolverPost` with `tol = 0` on the die `[0,4]×[0,2]`. -/
example : SolverPost exAns 0 (⟨2, 1, 4, 2, "_", false, false, .nopoly⟩ : Rect ℚ) exMods 2 := by
  refine ⟨?_, ?_, ?_⟩
  · intro m hm c hc
    have : c = 0 ∨ c = 1 := by omega
    simp only [exMods, exF, exH, List.mem_cons, List.mem_nil_iff, or_false] at hm
    rcases hm with rfl | rfl | rfl <;> rcases this with rfl | rfl <;> (simp [exAns]; try norm_num)
  · intro c hc
    have : c = 0 ∨ c = 1 := by omega
    rcases this with rfl | rfl <;> (simp [exMods, exF, exH, exAns]; try norm_num)
  · intro m hm
    simp only [exMods, exF, exH, List.mem_cons, List.mem_nil_iff, or_false] at hm
    rcases hm with rfl | rfl | rfl <;>
      (simp [exAns, InDie, Rect.xmin, Rect.xmax, Rect.ymin, Rect.ymax]; try norm_num)

/-- FRAME's constants for the fixed module and the offered allocation meet `ConstRespect` / `OfferedFixed`. -/
example : (getA exOffered exF 0, getA exOffered exF 1) = (some 0, some 1) := by decide +kernel

/-- the flippable hard module is mirrored by this answer (sub-rectangle 1 answered left of sub-rectangle 0) and
    keeps centroid `(1, 1)`. -/
example : (updateModule exAns exH).map (fun m => m.rects.map fun r => (r.cx, r.cy, r.w, r.h)) =
    some [(3/2, 1, 1, 1), (1/2, 1, 1, 1)] := by decide +kernel

/-- `recenter` fails (ZeroDivisionError) exactly on zero total area: e.g. no rectangles. -/
example : (recenter (1 : ℚ) 1 []).isSome = false := by decide +kernel

/-- the loop with the allocation model plugged in runs on a concrete instance: a 4x2 die of two cells accepted by the
    constructor (hence `ValidAlloc`, `FV.C02.constructor_valid`), the answer `exAns` at every pass, `max_iter = 2`. -/
def exEnvA : Env ℚ := ⟨1 / 1000000000000, 1 / 100, fun _ => 1 / 1000⟩
def exRawA : List (RawCell ℚ) :=
  [⟨.obj ⟨1, 1, 2, 2, "_", false, false, .nopoly⟩, [("S", 1/2)], 0⟩,
   ⟨.obj ⟨3, 1, 2, 2, "_", true, false, .nopoly⟩, [("F", 1)], 0⟩]

example : (match mkAllocation exEnvA ⟨1/1000000, 1/1000⟩ exRawA with
    | .ok (a, st) => (glbfloorA exEnvA (fun _ => some exAns) (9/10) (some 2) 5 ⟨a, st, exMods⟩).isSome
    | .error _ => false) = true := by decide +kernel

/-- what is posted for a soft module `S` (area 2) and the fixed module `F` on the two offered cells, threshold 0.9:
    5 variables (`x_S, y_S, d_S, a_S_0, a_S_1`), 4 constants (`x_F, y_F, a_F_0 = 0, a_F_1 = 1`), 2 capacity rows, and
    per module an area row, two centroid rows (+ the dispersion stub of `S`), one net, the dispersion objective. -/
def exInp : GlbOpt.Input ℚ :=
  { die := ⟨2, 1, 4, 2, "_", false, false, .nopoly⟩, epsD := 1/1000000, thr := 9/10, offered := exOffered,
    alpha := 3/10, mods := [⟨"S", false, false, false, 1, 1, []⟩, exF], areaOf := fun n => if n = "S" then 2 else 4,
    edges := [(1, ["S", "F"])], powF := fun a _ => a * a }

example : ((GlbOpt.post exInp).vars.length, (GlbOpt.post exInp).consts.length, (GlbOpt.post exInp).rows.length) =
    (5, 4, 11) := by decide +kernel

/-- a point satisfying everything that is posted there (all residuals 0, all bounds met): `a_S_0 = 1/2`, centre (1,1). -/
def exSigma : GlbOpt.V → ℚ
  | .a "S" 0 => 1/2 | .a "F" 1 => 1 | .x "S" => 1 | .y "S" => 1 | .x "F" => 3 | .y "F" => 1 | _ => 0

example : ((GlbOpt.post exInp).rows.all fun r => decide (GlbOpt.residual exSigma r = 0)) = true := by decide +kernel
example : ((GlbOpt.post exInp).consts.all fun d => decide (exSigma d.1 = d.2)) = true := by decide +kernel
example : ((GlbOpt.post exInp).vars.all fun d =>
    (match d.2.1 with | some lb => decide (lb ≤ exSigma d.1) | none => true) &&
    (match d.2.2 with | some ub => decide (exSigma d.1 ≤ ub) | none => true)) = true := by decide +kernel

/-- the same with the movable hard module `H` (two rectangles) and three nets — three pins (weight 2), two pins, and a
    net between the fixed module and itself (a constant objective term): 21 variables (incl. the net-centre variables
    `ex_0, ey_0`), 4 constants, 31 rows of which 6 are objective terms. -/
def exInp2 : GlbOpt.Input ℚ :=
  { die := ⟨2, 1, 4, 2, "_", false, false, .nopoly⟩, epsD := 1/1000000, thr := 9/10, alpha := 3/10, offered := exOffered,
    mods := exMods, areaOf := fun n => if n = "S" then 2 else 4,
    edges := [(2, ["S", "F", "H"]), (1, ["S", "H"]), (5, ["F", "F"])], powF := fun a _ => a * a }

example : ((GlbOpt.post exInp2).vars.length, (GlbOpt.post exInp2).consts.length, (GlbOpt.post exInp2).rows.length,
    ((GlbOpt.post exInp2).rows.filter fun r => !r.isEqn).length) = (21, 4, 31, 6) := by decide +kernel

/-- the objective at `exSigma`: `alpha · wire length + (1 - alpha) · dispersion` (theorem applied), and its value. -/
example : GlbOpt.objective exSigma (GlbOpt.post exInp) =
    3/10 * GlbOpt.wireLength exSigma exInp + (1 - 3/10) * GlbOpt.totalDispersion exSigma exInp :=
  posted_objective_alpha_weighting exInp exSigma
example : GlbOpt.objective exSigma (GlbOpt.post exInp) = 3/5 := by decide +kernel
example : GlbOpt.objective exSigma (GlbOpt.post exInp2) = 15/2 := by decide +kernel

/-- the dictionary keys of the example netlist are distinct (`S, F, H_0, H_1` and `H`). -/
example : GlbOpt.KeysDistinct exMods := by unfold GlbOpt.KeysDistinct; decide +kernel

/-- `extract_returns_of_solverPost` applies to the example answer: its conclusion, computed. -/
example : (match extractSolution exAns (1/1000000) (9/10) exMods exCells with
    | .ok (al, _) => al.length == (allocList exAns (9/10) exMods exCells).length | .error _ => false) = true := by
  decide +kernel

end Examples

/-! ### C10 ← C03 ← C01: `glbfloor` on the allocation `create_initial_allocation` returns for a valid die -/

/-- **Composition with the start state.**  For a `ValidDie` document (C01), an accepted pick sequence and a compatible
    netlist (hypotheses of `FV.C03.initial_allocation_is_glb_start`): the die model returns, and for whatever
    `create_initial_allocation` returns on it, re-read by the allocation model, every Glb view `gmods` of the netlist
    and every solver meeting `SolverOK`, every value the loop returns has all seven properties of `glbfloor_correct` —
    the start-state hypotheses `hv`, `hin`, `hown`, `hfc` are discharged by C03, none is left. -/
theorem glbfloor_correct_from_die (env : Alloc.Env α) (st : Alloc.Eps α) (hd : 0 ≤ st.dist) (ha : 0 ≤ st.area)
    (sqrt : α → α) (stD : Option (α × α)) (doc : Die.YV α) (inp : Die.DieIn α)
    (mods : List (InitAlloc.Module α)) (hp : Die.parseDie doc = .ok inp)
    (hεd : 0 ≤ (Die.mkEps sqrt stD inp.W inp.H).1.d) (hεa : 0 ≤ (Die.mkEps sqrt stD inp.W inp.H).1.a)
    (hvd : C01.ValidDie (Die.mkEps sqrt stD inp.W inp.H).1.d inp (InitAlloc.netFixedRects mods)) (picks : List Die.IRect)
    (hacc : Die.coverAccept ((Die.gridOf (Die.mkEps sqrt stD inp.W inp.H).1 inp (InitAlloc.netFixedRects mods)).2.length - 1)
      ((Die.gridOf (Die.mkEps sqrt stD inp.W inp.H).1 inp (InitAlloc.netFixedRects mods)).1.length - 1)
      (Die.occ (Die.gridOf (Die.mkEps sqrt stD inp.W inp.H).1 inp (InitAlloc.netFixedRects mods)).1
        (Die.gridOf (Die.mkEps sqrt stD inp.W inp.H).1 inp (InitAlloc.netFixedRects mods)).2
        (Die.occRects inp (InitAlloc.netFixedRects mods))) picks = true)
    (hn : InitAlloc.NetOK sqrt mods) (hrects : ∀ m ∈ mods, m.fixed = true → m.rects ≠ [])
    (hid : ∀ m ∈ mods, Alloc.validIdent m.name = true) :
    ∃ out, Die.dieModel sqrt stD doc (InitAlloc.netFixedRects mods) (some picks) =
        .ok (out, (Die.mkEps sqrt stD inp.W inp.H).1, (Die.mkEps sqrt stD inp.W inp.H).2) ∧
      ∀ (A : InitAlloc.Allocation α),
        InitAlloc.createInitialAllocation sqrt st.area false mods (InitAlloc.refinableOf out) out.fixed = .ok A →
        ∃ a, Alloc.mkAllocation env st ((A.cells.map InitAlloc.toAllocCell).map Alloc.Cell.toRaw) = .ok (a, st) ∧
          ∀ gmods : List (Glb.Module α), InitAlloc.GlbModsOf mods gmods →
          ∀ (solve : AState α → Option (Answer α)) (thr tol : α) (maxIter : Option Nat) (fuel : Nat) (r : AState α),
            0 < thr → 0 ≤ tol → tol ≤ 1 - thr → maxIter ≠ some 0 →
            SolverOK solve tol (Die.dieRect inp.W inp.H) ⟨a, st, gmods⟩ →
            glbfloorA env solve thr maxIter fuel ⟨a, st, gmods⟩ = some r →
            CellsFeasible (Die.dieRect inp.W inp.H) st.area r ∧
            (∀ c ∈ r.alloc.cells, c.alloc ≠ [] ∧ ∀ p ∈ c.alloc, 0 ≤ p.2 ∧ p.2 ≤ 1) ∧
            (∀ c ∈ r.alloc.cells, (c.alloc.map (·.2)).sum ≤ 1 + tol) ∧
            (∀ m ∈ r.mods, InDie (Die.dieRect inp.W inp.H) m.cx m.cy) ∧
            List.Forall₂ ModRel gmods r.mods ∧
            (∀ m ∈ r.mods, m.hard = true → m.fixed = false → IsCentroid m.rects m.cx m.cy) ∧
            (∀ f ∈ gmods, f.fixed = true →
              f ∈ r.mods ∧ FixedOwn (r.alloc.cells.map ofCell) f ∧
              ∀ c0 ∈ a.cells, c0.alloc = [(f.name, 1)] → c0.rect.fixed = true →
                ∃ d ∈ r.alloc.cells, d.rect = c0.rect ∧ d.alloc = [(f.name, 1)]) := by
  obtain ⟨out, hrun, hall⟩ := C03.initial_allocation_is_glb_start env st hd ha sqrt stD doc inp mods hp hεd hεa hvd picks
    hacc hn hrects hid
  refine ⟨out, hrun, fun A hA => ?_⟩
  obtain ⟨a, hmk, _, hstart⟩ := hall A hA
  refine ⟨a, hmk, fun gmods hg solve thr tol maxIter fuel r hthr htol0 htol hlim hsol hrun' => ?_⟩
  obtain ⟨h1, h2, h3, h4⟩ := hstart gmods hg
  exact glbfloor_correct env solve thr tol (Die.dieRect inp.W inp.H) maxIter fuel ⟨a, st, gmods⟩ r h1 h2 h3 h4
    hthr htol0 htol hlim hsol hrun'

/-- **the same composition with the solver hypothesis reduced to the posted system**: C01 valid die → C03 initial allocation
    → C10 loop, where all that is assumed of GEKKO is `SolverMeetsPosted` (whenever it returns, the point satisfies what
    `optimize_allocation` posted for that loop state, within `tolI` / `tolE`).  No start-state hypothesis and no
    `SolverPost` / `ConstRespect` hypothesis is left. -/
theorem glbfloor_correct_posted_from_die (env : Alloc.Env α) (st : Alloc.Eps α) (hd : 0 ≤ st.dist) (ha : 0 ≤ st.area)
    (sqrt : α → α) (stD : Option (α × α)) (doc : Die.YV α) (inp : Die.DieIn α)
    (mods : List (InitAlloc.Module α)) (hp : Die.parseDie doc = .ok inp)
    (hεd : 0 ≤ (Die.mkEps sqrt stD inp.W inp.H).1.d) (hεa : 0 ≤ (Die.mkEps sqrt stD inp.W inp.H).1.a)
    (hvd : C01.ValidDie (Die.mkEps sqrt stD inp.W inp.H).1.d inp (InitAlloc.netFixedRects mods)) (picks : List Die.IRect)
    (hacc : Die.coverAccept ((Die.gridOf (Die.mkEps sqrt stD inp.W inp.H).1 inp (InitAlloc.netFixedRects mods)).2.length - 1)
      ((Die.gridOf (Die.mkEps sqrt stD inp.W inp.H).1 inp (InitAlloc.netFixedRects mods)).1.length - 1)
      (Die.occ (Die.gridOf (Die.mkEps sqrt stD inp.W inp.H).1 inp (InitAlloc.netFixedRects mods)).1
        (Die.gridOf (Die.mkEps sqrt stD inp.W inp.H).1 inp (InitAlloc.netFixedRects mods)).2
        (Die.occRects inp (InitAlloc.netFixedRects mods))) picks = true)
    (hn : InitAlloc.NetOK sqrt mods) (hrects : ∀ m ∈ mods, m.fixed = true → m.rects ≠ [])
    (hid : ∀ m ∈ mods, Alloc.validIdent m.name = true) :
    ∃ out, Die.dieModel sqrt stD doc (InitAlloc.netFixedRects mods) (some picks) =
        .ok (out, (Die.mkEps sqrt stD inp.W inp.H).1, (Die.mkEps sqrt stD inp.W inp.H).2) ∧
      ∀ (A : InitAlloc.Allocation α),
        InitAlloc.createInitialAllocation sqrt st.area false mods (InitAlloc.refinableOf out) out.fixed = .ok A →
        ∃ a, Alloc.mkAllocation env st ((A.cells.map InitAlloc.toAllocCell).map Alloc.Cell.toRaw) = .ok (a, st) ∧
          ∀ gmods : List (Glb.Module α), InitAlloc.GlbModsOf mods gmods →
          ∀ (solve : AState α → Option (Answer α)) (thr tolI tolE : α) (maxIter : Option Nat) (fuel : Nat) (r : AState α),
            0 < thr → 0 ≤ tolI → 0 ≤ tolE → tolI + (gmods.length : α) * tolE ≤ 1 - thr → maxIter ≠ some 0 →
            SolverMeetsPosted solve tolI tolE thr (Die.dieRect inp.W inp.H) ⟨a, st, gmods⟩ →
            glbfloorA env solve thr maxIter fuel ⟨a, st, gmods⟩ = some r →
            CellsFeasible (Die.dieRect inp.W inp.H) st.area r ∧
            (∀ c ∈ r.alloc.cells, c.alloc ≠ [] ∧ ∀ p ∈ c.alloc, 0 ≤ p.2 ∧ p.2 ≤ 1) ∧
            (∀ c ∈ r.alloc.cells, (c.alloc.map (·.2)).sum ≤ 1 + (tolI + (gmods.length : α) * tolE)) ∧
            (∀ m ∈ r.mods, InDie (Die.dieRect inp.W inp.H) m.cx m.cy) ∧
            List.Forall₂ ModRel gmods r.mods ∧
            (∀ m ∈ r.mods, m.hard = true → m.fixed = false → IsCentroid m.rects m.cx m.cy) ∧
            (∀ f ∈ gmods, f.fixed = true →
              f ∈ r.mods ∧ FixedOwn (r.alloc.cells.map ofCell) f ∧
              ∀ c0 ∈ a.cells, c0.alloc = [(f.name, 1)] → c0.rect.fixed = true →
                ∃ d ∈ r.alloc.cells, d.rect = c0.rect ∧ d.alloc = [(f.name, 1)]) := by
  obtain ⟨out, hrun, hall⟩ := C03.initial_allocation_is_glb_start env st hd ha sqrt stD doc inp mods hp hεd hεa hvd picks
    hacc hn hrects hid
  refine ⟨out, hrun, fun A hA => ?_⟩
  obtain ⟨a, hmk, _, hstart⟩ := hall A hA
  refine ⟨a, hmk, fun gmods hg solve thr tolI tolE maxIter fuel r hthr htI htE htol hlim hsol hrun' => ?_⟩
  obtain ⟨h1, h2, h3, h4⟩ := hstart gmods hg
  exact glbfloor_correct_posted env solve thr tolI tolE (Die.dieRect inp.W inp.H) maxIter fuel ⟨a, st, gmods⟩ r h1 h2 h3 h4
    hthr htI htE htol hlim hsol hrun'

/-! ### applied witnesses of `glbfloor_correct` (ported from audit 3) -/

namespace WitnessFixed
/-! a soft module + a FIXED module, a state-dependent solver that answers, a refine pass, `max_iter = 2`;
    `SolverOK` is proved from the loop invariant and `glbfloor_correct` is applied. -/

def die0 : Rect ℚ := ⟨2, 1, 4, 2, "_", false, false, .nopoly⟩
def st0 : Eps ℚ := ⟨1/1000000, 1/1000⟩
def wS : Glb.Module ℚ := ⟨"S", false, false, false, 1, 1, []⟩
def wMods : List (Glb.Module ℚ) := [wS, exF]

def aF (o : AState ℚ) (c : Nat) : ℚ := (getA (o.alloc.cells.map ofCell) exF c).getD 0
def wAns (o : AState ℚ) : Answer ℚ where
  a := fun n c => if n = "F" then aF o c else if n = "S" then (1 - aF o c) / 2 else 0
  x := fun n => if n = "F" then 3 else 1
  y := fun _ => 1
def wSolve : AState ℚ → Option (Answer ℚ) := fun o => some (wAns o)

def ownB (ra : RectAlloc ℚ) : Bool :=
  ra.alloc == [("F", 1)] || ((ra.alloc.lookup "F").isNone && exF.rects.all fun r => ra.rect.areaOverlap r == 0)

theorem mk_ok : ∃ a st, mkAllocation exEnvA st0 exRawA = .ok (a, st) ∧
    (a.cells.all fun c => c.rect.isInside die0) = true ∧
    ((a.cells.map ofCell).all ownB) = true ∧
    (glbfloorA exEnvA wSolve (9/10) (some 2) 5 ⟨a, st, wMods⟩).isSome = true ∧
    ((optimizeA exEnvA wSolve (9/10) ⟨a, st, wMods⟩).map (mustRefineA (9/10))) = some true := by
  have h : (match mkAllocation exEnvA st0 exRawA with
    | .ok (a, st) => (a.cells.all fun c => c.rect.isInside die0) && ((a.cells.map ofCell).all ownB) &&
        (glbfloorA exEnvA wSolve (9/10) (some 2) 5 ⟨a, st, wMods⟩).isSome &&
        (((optimizeA exEnvA wSolve (9/10) ⟨a, st, wMods⟩).map (mustRefineA (9/10))) == some true)
    | .error _ => false) = true := by decide +kernel
  cases hh : mkAllocation exEnvA st0 exRawA with
  | error e => rw [hh] at h; cases h
  | ok p =>
    obtain ⟨a, st⟩ := p
    rw [hh] at h
    simp only [Bool.and_eq_true, beq_iff_eq] at h
    exact ⟨a, st, rfl, h.1.1.1, h.1.1.2, h.1.2, h.2⟩

theorem mods_of_inv (init o : AState ℚ) (hm : init.mods = wMods) (hinv : GlbInv die0 init o) :
    ∃ m1, o.mods = [m1, exF] ∧ m1.name = "S" ∧ m1.fixed = false := by
  have h := hinv.mods
  have hF := (hinv.fixed exF (by rw [hm]; simp [wMods]) rfl).1
  rw [hm] at h
  unfold wMods at h
  generalize o.mods = l at h hF
  cases h with
  | cons h1 h2 =>
    cases h2 with
    | cons h3 h4 =>
      cases h4
      rename_i m1 m2
      simp only [List.mem_cons, List.not_mem_nil, or_false] at hF
      rcases hF with e | e
      · have := h1.1; rw [← e] at this; simp [exF, wS] at this
      · subst e; exact ⟨_, rfl, h1.1, h1.2.2.1⟩

theorem aF_cases (init o : AState ℚ) (hm : init.mods = wMods) (hinv : GlbInv die0 init o) (c : Nat) :
    aF o c = 1 ∨ aF o c = 0 := by
  have hown := (hinv.fixed exF (by rw [hm]; simp [wMods]) rfl).2.1
  unfold aF
  cases hg : getA (o.alloc.cells.map ofCell) exF c with
  | none => right; rfl
  | some v =>
    rcases offeredFixed_of_fixedOwn _ _ hown c v hg with h | h
    · left; simp [h]
    · right; simp [h]

theorem wSolverOK (init : AState ℚ) (hm : init.mods = wMods) : SolverOK wSolve 0 die0 init := by
  intro o ans hinv hs
  simp only [wSolve, Option.some.injEq] at hs
  subst hs
  obtain ⟨m1, ho, n1, f1⟩ := mods_of_inv init o hm hinv
  have hc := aF_cases init o hm hinv
  refine ⟨⟨?_, ?_, ?_⟩, ?_⟩
  · intro m hmm c _
    rw [ho] at hmm
    simp only [List.mem_cons, List.not_mem_nil, or_false] at hmm
    rcases hmm with rfl | rfl
    · simp only [wAns, n1]
      have e1 : ("S" = "F") = False := by decide
      simp only [e1, if_false, if_true]
      rcases hc c with h | h <;> rw [h] <;> norm_num
    · simp only [wAns, exF, if_true]
      rcases hc c with h | h <;> rw [h] <;> norm_num
  · intro c _
    rw [ho]
    simp only [List.map_cons, List.map_nil, List.sum_cons, List.sum_nil, n1, wAns, exF]
    have e1 : ("S" = "F") = False := by decide
    simp only [e1, if_false, if_true]
    rcases hc c with h | h <;> rw [h] <;> norm_num
  · intro m hmm
    unfold wAns InDie die0
    simp only [Rect.xmin, Rect.xmax, Rect.ymin, Rect.ymax]
    split_ifs <;> norm_num
  · intro f hf hfx
    rw [ho] at hf
    simp only [List.mem_cons, List.not_mem_nil, or_false] at hf
    rcases hf with rfl | rfl
    · rw [f1] at hfx; cases hfx
    · refine ⟨?_, ?_, ?_⟩
      · intro c v hv
        simp only [wAns, exF, if_true]
        unfold aF
        rw [hv]; rfl
      · simp [wAns, exF]
      · simp [wAns, exF]

/-- `glbfloor_correct` applied: the loop returns on this instance and the returned value has all seven properties. -/
theorem glbfloor_correct_applied : ∃ (init r : AState ℚ), glbfloorA exEnvA wSolve (9/10) (some 2) 5 init = some r ∧
    CellsFeasible die0 init.eps.area r ∧ List.Forall₂ ModRel init.mods r.mods ∧
    (exF ∈ r.mods ∧ FixedOwn (r.alloc.cells.map ofCell) exF) := by
  obtain ⟨a, st, hmk, hin, hownb, hrun, href⟩ := mk_ok
  have hv : ValidAlloc st a := FV.C02.constructor_valid exEnvA st0 exRawA a st
    (by intro rc hrc; simp [exRawA] at hrc; rcases hrc with rfl | rfl <;> simp [RawPos])
    (by intro _; simp [st0]) (by simp [exEnvA]) (by intro x; simp [exEnvA]) hmk
  obtain ⟨r, hr⟩ := Option.isSome_iff_exists.mp hrun
  have hin' : ∀ c ∈ (⟨a, st, wMods⟩ : AState ℚ).alloc.cells, c.rect.isInside die0 = true := by
    simpa [List.all_eq_true] using hin
  have hown : ∀ f ∈ (⟨a, st, wMods⟩ : AState ℚ).mods, f.fixed = true →
      FixedOwn ((⟨a, st, wMods⟩ : AState ℚ).alloc.cells.map ofCell) f := by
    intro f hf hfx
    simp only [wMods, List.mem_cons, List.not_mem_nil, or_false] at hf
    rcases hf with rfl | rfl
    · simp [wS] at hfx
    · intro ra hra
      have := List.all_eq_true.mp hownb ra hra
      unfold ownB at this
      simp only [Bool.or_eq_true, Bool.and_eq_true, beq_iff_eq, Option.isNone_iff_eq_none, List.all_eq_true] at this
      rcases this with h | ⟨h1, h2⟩
      · left; simpa [exF] using h
      · right; exact ⟨by simpa [exF] using h1, fun r hr => h2 r hr⟩
  have hall := glbfloor_correct exEnvA wSolve (9/10) 0 die0 (some 2) 5 ⟨a, st, wMods⟩ r hv hin' hown
    (by intro f hf hfx
        simp only [wMods, List.mem_cons, List.not_mem_nil, or_false] at hf
        rcases hf with rfl | rfl
        · simp [wS] at hfx
        · simp [InDie, die0, exF, Rect.xmin, Rect.xmax, Rect.ymin, Rect.ymax]; norm_num)
    (by norm_num) (le_refl _) (by norm_num) (by simp) (wSolverOK _ rfl) hr
  obtain ⟨c1, _, _, _, c5, _, c7⟩ := hall
  have hF := c7 exF (by simp [wMods]) rfl
  exact ⟨⟨a, st, wMods⟩, r, hr, c1, c5, hF.1, hF.2.1⟩

end WitnessFixed

namespace WitnessHard
/-! a soft module + a flippable two-rectangle hard module, a refine pass, `max_iter = 2`. -/

def die0 : Rect ℚ := ⟨2, 1, 4, 2, "_", false, false, .nopoly⟩
def st0 : Eps ℚ := ⟨1/1000000, 1/1000⟩
def wS : Glb.Module ℚ := ⟨"S", false, false, false, 1, 1, []⟩
def wMods : List (Glb.Module ℚ) := [wS, exH]
def wRaw : List (RawCell ℚ) :=
  [⟨.obj ⟨1, 1, 2, 2, "_", false, false, .nopoly⟩, [("S", 1/2)], 0⟩,
   ⟨.obj ⟨3, 1, 2, 2, "_", false, false, .nopoly⟩, [("H", 1/2)], 0⟩]
def wSolve : AState ℚ → Option (Answer ℚ) := fun _ => some exAns

theorem mk_ok : ∃ a st, mkAllocation exEnvA st0 wRaw = .ok (a, st) ∧
    (a.cells.all fun c => c.rect.isInside die0) = true ∧
    (glbfloorA exEnvA wSolve (9/10) (some 2) 5 ⟨a, st, wMods⟩).isSome = true ∧
    ((optimizeA exEnvA wSolve (9/10) ⟨a, st, wMods⟩).map (mustRefineA (9/10))) = some true := by
  have h : (match mkAllocation exEnvA st0 wRaw with
    | .ok (a, st) => (a.cells.all fun c => c.rect.isInside die0) &&
        (glbfloorA exEnvA wSolve (9/10) (some 2) 5 ⟨a, st, wMods⟩).isSome &&
        (((optimizeA exEnvA wSolve (9/10) ⟨a, st, wMods⟩).map (mustRefineA (9/10))) == some true)
    | .error _ => false) = true := by decide +kernel
  cases hh : mkAllocation exEnvA st0 wRaw with
  | error e => rw [hh] at h; cases h
  | ok p =>
    obtain ⟨a, st⟩ := p
    rw [hh] at h
    simp only [Bool.and_eq_true, beq_iff_eq] at h
    exact ⟨a, st, rfl, h.1.1, h.1.2, h.2⟩

theorem names_of_inv (init o : AState ℚ) (hm : init.mods = wMods) (h : List.Forall₂ ModRel init.mods o.mods) :
    ∃ m1 m2, o.mods = [m1, m2] ∧ m1.name = "S" ∧ m2.name = "H" ∧ m1.fixed = false ∧ m2.fixed = false := by
  rw [hm] at h
  unfold wMods at h
  generalize o.mods = l at h
  cases h with
  | cons h1 h2 =>
    cases h2 with
    | cons h3 h4 =>
      cases h4
      exact ⟨_, _, rfl, h1.1, h3.1, h1.2.2.1, h3.2.2.1⟩

theorem wSolverOK (init : AState ℚ) (hm : init.mods = wMods) : SolverOK wSolve 0 die0 init := by
  intro o ans hinv hs
  simp only [wSolve, Option.some.injEq] at hs
  subst hs
  obtain ⟨m1, m2, ho, n1, n2, f1, f2⟩ := names_of_inv init o hm hinv.mods
  refine ⟨⟨?_, ?_, ?_⟩, ?_⟩
  · intro m _ c _
    unfold exAns; simp only
    split_ifs <;> norm_num
  · intro c _
    rw [ho]
    simp only [List.map_cons, List.map_nil, List.sum_cons, List.sum_nil, n1, n2, exAns]
    have e1 : ("S" = "F") = False := by decide
    have e2 : ("H" = "F") = False := by decide
    have e3 : ("H" = "S") = False := by decide
    simp only [e1, e2, e3, if_false, if_true]
    split_ifs <;> norm_num
  · intro m _
    unfold exAns InDie die0
    simp only [Rect.xmin, Rect.xmax, Rect.ymin, Rect.ymax]
    split_ifs <;> norm_num
  · intro f hf hfx
    rw [ho] at hf
    simp only [List.mem_cons, List.not_mem_nil, or_false] at hf
    rcases hf with rfl | rfl
    · rw [f1] at hfx; cases hfx
    · rw [f2] at hfx; cases hfx

/-- `glbfloor_correct` applied: the flippable hard module of the returned netlist is a rigid image of the input one and
    its reported centre is its centroid. -/
theorem glbfloor_correct_applied : ∃ (init r : AState ℚ), glbfloorA exEnvA wSolve (9/10) (some 2) 5 init = some r ∧
    CellsFeasible die0 init.eps.area r ∧ List.Forall₂ ModRel init.mods r.mods ∧
    (∀ m ∈ r.mods, m.hard = true → m.fixed = false → IsCentroid m.rects m.cx m.cy) := by
  obtain ⟨a, st, hmk, hin, hrun, href⟩ := mk_ok
  have hv : ValidAlloc st a := FV.C02.constructor_valid exEnvA st0 wRaw a st
    (by intro rc hrc; simp [wRaw] at hrc; rcases hrc with rfl | rfl <;> simp [RawPos])
    (by intro _; simp [st0]) (by simp [exEnvA]) (by intro x; simp [exEnvA]) hmk
  obtain ⟨r, hr⟩ := Option.isSome_iff_exists.mp hrun
  have hin' : ∀ c ∈ (⟨a, st, wMods⟩ : AState ℚ).alloc.cells, c.rect.isInside die0 = true := by
    simpa [List.all_eq_true] using hin
  have hall := glbfloor_correct exEnvA wSolve (9/10) 0 die0 (some 2) 5 ⟨a, st, wMods⟩ r hv hin'
    (by intro f hf hfx; simp [wMods, wS, exH] at hf; rcases hf with rfl | rfl <;> simp at hfx)
    (by intro f hf hfx; simp [wMods, wS, exH] at hf; rcases hf with rfl | rfl <;> simp at hfx)
    (by norm_num) (le_refl _) (by norm_num) (by simp) (wSolverOK _ rfl) hr
  obtain ⟨c1, _, _, _, c5, c6, _⟩ := hall
  exact ⟨⟨a, st, wMods⟩, r, hr, c1, c5, c6⟩

end WitnessHard

/-! ### applied witness of the POSTED-SYSTEM headline (audit 4): a solver that answers, on every state

`WitnessFixed.wSolve` cannot meet `SolverMeetsPosted` (its constant centre violates the centroid rows after a refinement).
Here the solver is CERTIFYING: for the system FRAME posts for the state it is asked about it proposes a point computed from
that system and answers only if the point checks (bounds + residual 0 of every row, constants read back) — so
`SolverMeetsPostedVars` holds on every state by construction, no decidable equality on states needed, and the loop really
returns across a refine pass (kernel-checked). -/

namespace WitnessPosted
open WitnessFixed (die0 st0 wS wMods ownB)

/-- a row with residual 0 holds with tolerance 0. -/
theorem holds_of_residual (σ : GlbOpt.V → ℚ) (r : GlbOpt.Row ℚ) (h : GlbOpt.residual σ r = 0) : GlbOpt.holds σ 0 0 r := by
  cases r with
  | obj n e => trivial
  | eqn n l c rr =>
    cases c <;> simp only [GlbOpt.residual, GlbOpt.holds] at h ⊢
    · split at h <;> linarith
    · split at h <;> linarith
    · split at h <;> (rw [abs_le]; constructor <;> linarith)

def nd0 : NetData ℚ := ⟨3/10, fun n => if n = "S" then 2 else 4, [(1, ["S", "F"])], fun a _ => a * a⟩

/-- the point the witness solver proposes for a posted system `I` (soft `S` of area 2, fixed `F`): `S` takes the same
    ratio `2 / (free area)` of every cell `F` does not own; centre and dispersion by their defining rows. -/
def sigmaOf (I : GlbOpt.Input ℚ) : GlbOpt.V → ℚ :=
  let isFree : Nat → Bool := fun c => getA I.offered exF c == some 0
  let free := GlbOpt.lsum (((GlbOpt.cellIdx I).filter isFree).map (GlbOpt.cellArea I))
  let aS : Nat → ℚ := fun c => if isFree c then 2 / free else 0
  let xS := 1 / 2 * GlbOpt.lsum ((GlbOpt.cellIdx I).map fun c => GlbOpt.cellArea I c * GlbOpt.cellCx I c * aS c)
  let yS := 1 / 2 * GlbOpt.lsum ((GlbOpt.cellIdx I).map fun c => GlbOpt.cellArea I c * GlbOpt.cellCy I c * aS c)
  let dS := 6 / I.powF 2 (3 / 2) * GlbOpt.lsum ((GlbOpt.cellIdx I).map fun c => GlbOpt.cellArea I c * aS c *
    ((xS - GlbOpt.cellCx I c) * (xS - GlbOpt.cellCx I c) + (yS - GlbOpt.cellCy I c) * (yS - GlbOpt.cellCy I c)))
  fun v => match v with
    | .a n c => if n = "S" then aS c else 0
    | .x n => if n = "S" then xS else 0
    | .y n => if n = "S" then yS else 0
    | .d n => if n = "S" then dS else 0
    | _ => 0

/-- the certificate: the variables respect their bounds and every posted row has residual 0 once the constants are read
    back. -/
def certOK (p : GlbOpt.Posted ℚ) (σ : GlbOpt.V → ℚ) : Bool :=
  (p.vars.all fun d =>
    (match d.2.1 with | some lb => decide (lb ≤ σ d.1) | none => true) &&
    (match d.2.2 with | some ub => decide (σ d.1 ≤ ub) | none => true)) &&
  (p.rows.all fun r => decide (GlbOpt.residual (GlbOpt.readBack p σ) r = 0))

theorem satVars_of_cert (p : GlbOpt.Posted ℚ) (σ : GlbOpt.V → ℚ) (h : certOK p σ = true) : GlbOpt.SatVars σ 0 0 p := by
  unfold certOK at h
  simp only [Bool.and_eq_true, List.all_eq_true, decide_eq_true_eq] at h
  refine ⟨fun d hd => ⟨fun lb hl => ?_, fun ub hu => ?_⟩, fun r hr => holds_of_residual _ _ (h.2 r hr)⟩
  · have := (h.1 d hd).1; rw [hl] at this; simpa using this
  · have := (h.1 d hd).2; rw [hu] at this; simpa using this

/-- A CERTIFYING SOLVER, defined on every loop state: it proposes `sigmaOf` for the system FRAME posts for that state and
    answers only if the certificate checks. -/
def cSolve : AState ℚ → Option (Answer ℚ) := fun o =>
  let p := GlbOpt.post (inputOf die0 (9/10) o nd0)
  let σ := sigmaOf (inputOf die0 (9/10) o nd0)
  if certOK p σ then some (GlbOpt.ansOf (GlbOpt.readBack p σ)) else none

/-- it meets the posted-system hypothesis on EVERY state (tolerances 0). -/
theorem cSolve_meets (init : AState ℚ) : SolverMeetsPostedVars cSolve 0 0 (9/10) die0 init := by
  intro o ans _ hs
  unfold cSolve at hs
  simp only at hs
  split at hs
  · rename_i hc
    simp only [Option.some.injEq] at hs
    exact ⟨_, nd0, hs.symm, satVars_of_cert _ _ hc⟩
  · cases hs

theorem mk_ok : ∃ a st, mkAllocation exEnvA st0 exRawA = .ok (a, st) ∧
    (a.cells.all fun c => c.rect.isInside die0) = true ∧
    ((a.cells.map ofCell).all ownB) = true ∧
    (glbfloorA exEnvA cSolve (9/10) (some 2) 5 ⟨a, st, wMods⟩).isSome = true ∧
    ((optimizeA exEnvA cSolve (9/10) ⟨a, st, wMods⟩).map (mustRefineA (9/10))) = some true := by
  have h : (match mkAllocation exEnvA st0 exRawA with
    | .ok (a, st) => (a.cells.all fun c => c.rect.isInside die0) && ((a.cells.map ofCell).all ownB) &&
        (glbfloorA exEnvA cSolve (9/10) (some 2) 5 ⟨a, st, wMods⟩).isSome &&
        (((optimizeA exEnvA cSolve (9/10) ⟨a, st, wMods⟩).map (mustRefineA (9/10))) == some true)
    | .error _ => false) = true := by decide +kernel
  cases hh : mkAllocation exEnvA st0 exRawA with
  | error e => rw [hh] at h; cases h
  | ok p =>
    obtain ⟨a, st⟩ := p
    rw [hh] at h
    simp only [Bool.and_eq_true, beq_iff_eq] at h
    exact ⟨a, st, rfl, h.1.1.1, h.1.1.2, h.1.2, h.2⟩

/-- **`glbfloor_correct_solver_vars` (hence `glbfloor_correct_posted`) APPLIED**: soft `S` + fixed `F`, the certifying
    solver `cSolve` (defined on every state, proved to meet `SolverMeetsPostedVars`), `max_iter = 2` with a refine pass in
    between (`mk_ok`, kernel-checked): the loop returns and the returned value has the seven properties. -/
theorem glbfloor_correct_solver_vars_applied : ∃ (init r : AState ℚ),
    glbfloorA exEnvA cSolve (9/10) (some 2) 5 init = some r ∧
    SolverMeetsPosted cSolve 0 0 (9/10) die0 init ∧
    CellsFeasible die0 init.eps.area r ∧
    (∀ c ∈ r.alloc.cells, (c.alloc.map (·.2)).sum ≤ 1 + (0 + (init.mods.length : ℚ) * 0)) ∧
    (∀ m ∈ r.mods, InDie die0 m.cx m.cy) ∧ List.Forall₂ ModRel init.mods r.mods ∧
    (exF ∈ r.mods ∧ FixedOwn (r.alloc.cells.map ofCell) exF) := by
  obtain ⟨a, st, hmk, hin, hownb, hrun, href⟩ := mk_ok
  have hv : ValidAlloc st a := FV.C02.constructor_valid exEnvA st0 exRawA a st
    (by intro rc hrc; simp [exRawA] at hrc; rcases hrc with rfl | rfl <;> simp [RawPos])
    (by intro _; simp [st0]) (by simp [exEnvA]) (by intro x; simp [exEnvA]) hmk
  obtain ⟨r, hr⟩ := Option.isSome_iff_exists.mp hrun
  have hin' : ∀ c ∈ (⟨a, st, wMods⟩ : AState ℚ).alloc.cells, c.rect.isInside die0 = true := by
    simpa [List.all_eq_true] using hin
  have hown : ∀ f ∈ (⟨a, st, wMods⟩ : AState ℚ).mods, f.fixed = true →
      FixedOwn ((⟨a, st, wMods⟩ : AState ℚ).alloc.cells.map ofCell) f := by
    intro f hf hfx
    simp only [wMods, List.mem_cons, List.not_mem_nil, or_false] at hf
    rcases hf with rfl | rfl
    · simp [wS] at hfx
    · intro ra hra
      have := List.all_eq_true.mp hownb ra hra
      unfold ownB at this
      simp only [Bool.or_eq_true, Bool.and_eq_true, beq_iff_eq, Option.isNone_iff_eq_none, List.all_eq_true] at this
      rcases this with h | ⟨h1, h2⟩
      · left; simpa [exF] using h
      · right; exact ⟨by simpa [exF] using h1, fun r hr => h2 r hr⟩
  have hk : GlbOpt.KeysDistinct (⟨a, st, wMods⟩ : AState ℚ).mods := by
    show GlbOpt.KeysDistinct wMods
    unfold GlbOpt.KeysDistinct; decide +kernel
  have hall := glbfloor_correct_solver_vars exEnvA cSolve (9/10) 0 0 die0 (some 2) 5 ⟨a, st, wMods⟩ r hv hin' hown
    (by intro f hf hfx
        simp only [wMods, List.mem_cons, List.not_mem_nil, or_false] at hf
        rcases hf with rfl | rfl
        · simp [wS] at hfx
        · simp [InDie, die0, exF, Rect.xmin, Rect.xmax, Rect.ymin, Rect.ymax]; norm_num)
    (by norm_num) (le_refl _) (le_refl _) (by norm_num) (by simp) hk (cSolve_meets _) hr
  obtain ⟨c1, _, c3, c4, c5, _, c7⟩ := hall
  have hF := c7 exF (by simp [wMods]) rfl
  exact ⟨⟨a, st, wMods⟩, r, hr, solverMeetsPosted_of_vars cSolve 0 0 (9/10) die0 _ hk (cSolve_meets _), c1, c3, c4, c5,
    hF.1, hF.2.1⟩

/-! the same through the whole chain C01 → C03 → C10: the die document and netlist of `FV.C03`'s example -/
section FromDie
open FV.C03 FV.InitAlloc
def die44 : Rect ℚ := Die.dieRect 4 4
def cSolve4 : AState ℚ → Option (Answer ℚ) := fun o =>
  let p := GlbOpt.post (inputOf die44 (9/10) o nd0)
  let σ := sigmaOf (inputOf die44 (9/10) o nd0)
  if certOK p σ then some (GlbOpt.ansOf (GlbOpt.readBack p σ)) else none

theorem run44 : (match Die.dieModel exSqrt none exDoc (netFixedRects C03.exMods) (some exPicks) with
     | .ok (out, _, _) =>
       (match createInitialAllocation exSqrt 0 false C03.exMods (refinableOf out) out.fixed with
        | .ok A =>
          (match Alloc.mkAllocation (⟨0, 0, exSqrt⟩ : Alloc.Env ℚ) ⟨0, 0⟩ ((A.cells.map toAllocCell).map Alloc.Cell.toRaw) with
           | .ok (a, st) => (glbfloorA ⟨0, 0, exSqrt⟩ cSolve4 (9/10) (some 2) 5 ⟨a, st, WitnessFixed.wMods⟩).isSome
           | .error _ => false)
        | .error _ => false)
     | .error _ => false) = true := by
  unfold Die.dieModel
  simp only [show Die.parseDie exDoc = .ok C03.exInp from by with_unfolding_all rfl]
  unfold Die.dieCore
  simp only [ex_grid]
  decide +kernel

theorem cSolve4_meets (init : AState ℚ) : SolverMeetsPostedVars cSolve4 0 0 (9/10) die44 init := by
  intro o ans _ hs
  unfold cSolve4 at hs
  simp only at hs
  split at hs
  · rename_i hc
    simp only [Option.some.injEq] at hs
    exact ⟨_, nd0, hs.symm, satVars_of_cert _ _ hc⟩
  · cases hs

theorem wMods_glbModsOf : GlbModsOf C03.exMods WitnessFixed.wMods := by
  intro f hf hfx
  simp only [WitnessFixed.wMods, List.mem_cons, List.not_mem_nil, or_false] at hf
  rcases hf with rfl | rfl
  · simp [WitnessFixed.wS] at hfx
  · refine ⟨⟨"F", true, [{ cx := 3, cy := 1, w := 2, h := 2, fixed := true, hard := true }], [4], none⟩,
      by simp [C03.exMods], rfl, rfl, rfl, ?_, ?_⟩ <;>
    norm_num [exF, Glb.momentX, Glb.momentY, Glb.totalArea, Rect.area]

/-- **`glbfloor_correct_posted_from_die` APPLIED**: the 4×4 die document and netlist of `FV.C03` (valid die, accepted picks),
    the allocation `create_initial_allocation` returns on it, the Glb view `[S, F]`, the certifying solver: the loop returns
    after a refine pass (`run44`, kernel-checked) and the returned value has the properties — no start-state hypothesis and
    no `SolverPost` hypothesis anywhere. -/
theorem glbfloor_correct_posted_from_die_applied : ∃ (a : Alloc.Allocation ℚ) (r : AState ℚ),
    glbfloorA ⟨0, 0, exSqrt⟩ cSolve4 (9/10) (some 2) 5 ⟨a, ⟨0, 0⟩, WitnessFixed.wMods⟩ = some r ∧
    CellsFeasible die44 0 r ∧ (∀ m ∈ r.mods, InDie die44 m.cx m.cy) ∧
    List.Forall₂ ModRel WitnessFixed.wMods r.mods ∧
    (exF ∈ r.mods ∧ FixedOwn (r.alloc.cells.map ofCell) exF) := by
  obtain ⟨out, h1, h2⟩ := glbfloor_correct_posted_from_die (⟨0, 0, exSqrt⟩ : Alloc.Env ℚ) (⟨0, 0⟩ : Alloc.Eps ℚ)
    (le_refl _) (le_refl _) exSqrt none exDoc C03.exInp C03.exMods (by with_unfolding_all rfl)
    (by decide +kernel) (by decide +kernel) ex_validDie exPicks ex_picks_accepted ex_netOK ex_fixed_have_rects
    (by decide +kernel)
  have hrun := run44
  rw [h1] at hrun
  simp only at hrun
  cases hA : createInitialAllocation exSqrt 0 false C03.exMods (refinableOf out) out.fixed with
  | error e => rw [hA] at hrun; simp at hrun
  | ok A =>
    rw [hA] at hrun
    simp only at hrun
    obtain ⟨a, hmk, hall⟩ := h2 A hA
    rw [hmk] at hrun
    simp only at hrun
    obtain ⟨r, hr⟩ := Option.isSome_iff_exists.mp hrun
    have hk : GlbOpt.KeysDistinct (⟨a, ⟨0, 0⟩, WitnessFixed.wMods⟩ : AState ℚ).mods := by
      show GlbOpt.KeysDistinct WitnessFixed.wMods
      unfold GlbOpt.KeysDistinct; decide +kernel
    obtain ⟨c1, _, _, c4, c5, _, c7⟩ := hall WitnessFixed.wMods wMods_glbModsOf cSolve4 (9/10) 0 0 (some 2) 5 r
      (by norm_num) (le_refl _) (le_refl _) (by norm_num [WitnessFixed.wMods]) (by simp)
      (solverMeetsPosted_of_vars cSolve4 0 0 (9/10) die44 _ hk (cSolve4_meets _)) hr
    have hF := c7 exF (by simp [WitnessFixed.wMods]) rfl
    exact ⟨a, r, hr, c1, c4, c5, hF.1, hF.2.1⟩

/-- **`glbfloor_correct_from_die` APPLIED** on the same instance, `SolverOK` obtained from the posted system
    (`solverOK_of_posted`). -/
theorem glbfloor_correct_from_die_applied : ∃ (a : Alloc.Allocation ℚ) (r : AState ℚ),
    glbfloorA ⟨0, 0, exSqrt⟩ cSolve4 (9/10) (some 2) 5 ⟨a, ⟨0, 0⟩, WitnessFixed.wMods⟩ = some r ∧
    CellsFeasible die44 0 r ∧ List.Forall₂ ModRel WitnessFixed.wMods r.mods := by
  obtain ⟨out, h1, h2⟩ := glbfloor_correct_from_die (⟨0, 0, exSqrt⟩ : Alloc.Env ℚ) (⟨0, 0⟩ : Alloc.Eps ℚ)
    (le_refl _) (le_refl _) exSqrt none exDoc C03.exInp C03.exMods (by with_unfolding_all rfl)
    (by decide +kernel) (by decide +kernel) ex_validDie exPicks ex_picks_accepted ex_netOK ex_fixed_have_rects
    (by decide +kernel)
  have hrun := run44
  rw [h1] at hrun
  simp only at hrun
  cases hA : createInitialAllocation exSqrt 0 false C03.exMods (refinableOf out) out.fixed with
  | error e => rw [hA] at hrun; simp at hrun
  | ok A =>
    rw [hA] at hrun
    simp only at hrun
    obtain ⟨a, hmk, hall⟩ := h2 A hA
    rw [hmk] at hrun
    simp only at hrun
    obtain ⟨r, hr⟩ := Option.isSome_iff_exists.mp hrun
    have hk : GlbOpt.KeysDistinct (⟨a, ⟨0, 0⟩, WitnessFixed.wMods⟩ : AState ℚ).mods := by
      show GlbOpt.KeysDistinct WitnessFixed.wMods
      unfold GlbOpt.KeysDistinct; decide +kernel
    have hok := solverOK_of_posted cSolve4 0 0 (9/10) die44 ⟨a, ⟨0, 0⟩, WitnessFixed.wMods⟩ (le_refl _)
      (solverMeetsPosted_of_vars cSolve4 0 0 (9/10) die44 _ hk (cSolve4_meets _))
    obtain ⟨c1, _, _, _, c5, _, _⟩ := hall WitnessFixed.wMods wMods_glbModsOf cSolve4 (9/10) _ (some 2) 5 r
      (by norm_num) (by norm_num) (by norm_num [WitnessFixed.wMods]) (by simp) hok hr
    exact ⟨a, r, hr, c1, c5⟩

end FromDie

end WitnessPosted

end FV.C10

import FV.Proofs.Spectral
/-
  C14 — Spectral placement keeps every module's disc inside the die.

  Property theorems about the model `FV/Model/Spectral.lean` of `spectral_layout_die`, `normalize`,
  `Spectral.spectral_layout` and `Module.recenter_rectangles`.  They hold in every linearly ordered field
  (exact arithmetic) and for EVERY list of values returned by `random.uniform`, every number of trials and
  every iteration bound: the draws are a universally quantified input of the model, and the post-condition
  is established by the last `normalize` call whatever happened before it.  This is how the "for every random
  seed and number of trials" quantifier of the property is discharged.

  THE `_partial` HYPOTHESIS (the `|x_i| ≤ 1e-9` escape, finding `C14-delta-escape`, `findings/C14_delta_escape.json`):
  `normalize` only bounds coordinates whose magnitude exceeds `10e-10` before scaling; the others are multiplied
  by the same scale without taking part in its choice (`normalize_delta_escape` exhibits a coordinate pushed
  beyond its span).  That this cannot happen inside `spectral_layout` under the admissibility hypotheses is NOT
  proved (it is a statement about the values of the power iteration).  The headline theorems are therefore named
  `…_partial` and carry `delta < |pre_i|`, where `pre` is not an existential: it is the ghost field `preX` / `preY`
  of the record returned by the model — the very vector handed to the LAST `normalize` call of that dimension in
  the winning trial (`die_post`).  The harness watches every `normalize` call of its runs for entries in that
  region (none in > 10^7 calls) and exhibits the escape at function level.

  Admissibility (`Admissible`: ≥ 4 movable modules, every module on some net, every MOVABLE disc fits the die
  — `≤`, no margin: a disc that fills the die within ~1e-3·size makes the floating-point run raise, finding
  `C14-near-filling-disc`; the theorems, conditional on `.ok`, are unaffected): only "discs fit" is needed for the post-condition; "every module on a net" is what makes the centroid step total
  (`centroids_return`).  That the run returns at all (orthogonality `assert`, non-zero denominators of the
  power iteration) is NOT proved: every theorem is conditional on `.ok`, and non-returning runs on admissible inputs
  are searched for by the harness (reported as `operation-raised`).

  Best-of-n (`best_of_n`: first strictly smallest wirelength among the trials run; `non_finite_wirelength_asserts`: an
  `inf` / NaN wirelength never wins and, if all are, the `assert best_coord is not None` fails), dropped centres
  (`centres_after_layout`), rigid recentring (`recenter_rigid`, `movable_position`), areas / flags / shapes
  (`areas_nets_unchanged`).

  NOT proved (float matters, decided by search in `harness/props/c14.py`): IEEE rounding (the disc is inside
  up to `1e-9 * size`), the orthogonality `assert` and the divisions not failing on admissible inputs (the
  model returns `Err` there and the theorems are conditional on `.ok`), convergence (not needed).
  The radius of a module is `o.sqrt (mass / o.pi)` for an uninterpreted non-negative `sqrt`.
-/
namespace FV.C14
open FV FV.Force FV.Spectral
set_option linter.unusedSectionVars false
set_option linter.unusedVariables false

variable {α : Type} [Field α] [LinearOrder α] [IsStrictOrderedRing α] {β : Type}

/-- the die `[0, W] × [0, H]`. -/
def InDie (W H : α) (px py : α) : Prop := 0 ≤ px ∧ px ≤ W ∧ 0 ≤ py ∧ py ≤ H

/-- the closed disc of radius `r` centred at `(cx, cy)` lies in the die. -/
def DiscInDie (W H cx cy r : α) : Prop :=
  ∀ px py : α, (px - cx) ^ 2 + (py - cy) ^ 2 ≤ r ^ 2 → InDie W H px py

/-! ### `normalize` -/

/-- `normalize_post`: for every input vector, the output has the same length, fixed entries are untouched, and
    every movable entry with `|x_i| > 1e-9` ends with `|x'_i| ≤ maxSpan_i` — provided the spans of the entries
    that determine the scale are non-negative (their discs fit in the die). -/
theorem normalize_post (x span : List α) (fixed : List Bool) (y : List α)
    (h : normalize x span fixed = .ok y)
    (hspan : ∀ j, j < x.length → fixedAt fixed j = false → delta < |vat x j| → 0 ≤ vat span j) :
    y.length = x.length ∧
    (∀ i, i < x.length → fixedAt fixed i = true → vat y i = vat x i) ∧
    (∀ i, i < x.length → fixedAt fixed i = false → delta < |vat x i| → |vat y i| ≤ vat span i) :=
  ⟨normalize_length x span fixed y h, fun i hi hf => normalize_fixed x span fixed y h i hi hf,
   fun i hi hf hd => normalize_bound x span fixed y h hspan i hi hf hd⟩

/-- the escape is real at function level: a coordinate at `1e-9` can be scaled beyond its span
    (`x = [2e-9, 1e-9]`, spans `[5, 1]`: the scale is `2.5e9`, the second entry becomes `2.5 > 1`). -/
theorem normalize_delta_escape :
    normalize [(2 : Rat) / 1000000000, 1 / 1000000000] [5, 1] [false, false] = .ok [5, 5 / 2] := by
  decide +kernel

/-! ### the loop: what is left in `coord[d]` -/

/-- `loop_post`: for one dimension, whatever the initial row, the other rows, the iteration bound (0 included) and
    the number of iterations actually made, the row left in `coord[d]` is the output of `normalize` — for the spans
    of that dimension — on the recorded vector (third component), and no other row is modified. -/
theorem loop_post (c : Cst α) (span : List α) (maxIter : Nat) (coord : List (List α)) (d : Nat)
    (res : List (List α) × Nat × List α) (hd : d < coord.length) (h : processDim c span maxIter coord d = .ok res) :
    normalize res.2.2 span c.fixed = .ok (res.1.getD d []) ∧
    res.1.length = coord.length ∧ ∀ j, j ≠ d → res.1.getD j [] = coord.getD j [] :=
  ⟨processDim_normalized c span maxIter coord d res hd h, processDim_frame c span maxIter coord d res h⟩

/-- the same for the loop body alone: every iteration ends with `normalize` on the vector it records. -/
theorem iteration_post (c : Cst α) (span : List α) (coord : List (List α)) (d : Nat) (r : List α × α × List α)
    (h : iterBody c span coord d = .ok r) : normalize r.2.2 span c.fixed = .ok r.1 :=
  iterBody_normalized c span coord d r h

/-- `spectral_layout_die`, every draw list: both returned rows are the `normalize` outputs of the recorded vectors
    `preX`, `preY` for the spans `size/2 - radius_i` of their dimension, and have one entry per node. -/
theorem die_post (o : Ops α) (adj : List (List (Edge α))) (mass : List α) (W H : α) (init0 init1 : List α)
    (fixed : List Bool) (draws : List α) (maxIter : Nat) (r : DieResult α)
    (h : spectralLayoutDie o adj mass W H init0 init1 fixed draws maxIter = .ok r)
    (hl0 : init0.length = adj.length) (hl1 : init1.length = adj.length) :
    normalize r.preX (maxSpans W (radii o mass)) fixed = .ok r.xs ∧
    normalize r.preY (maxSpans H (radii o mass)) fixed = .ok r.ys ∧
    r.xs.length = adj.length ∧ r.ys.length = adj.length :=
  ⟨(sld_normalized o adj mass W H init0 init1 fixed draws maxIter r h).1,
   (sld_normalized o adj mass W H init0 init1 fixed draws maxIter r h).2,
   sld_lengths o adj mass W H init0 init1 fixed draws maxIter r h hl0 hl1⟩

/-! ### discs -/

/-- `disc_inside`: `|c| ≤ size/2 - r` in both dimensions (die-centred coordinates) and `r ≥ 0` put the disc of
    radius `r` around the reported centre `c + size/2` inside the die. -/
theorem disc_inside (W H cx cy r : α) (hr : 0 ≤ r) (hx : |cx| ≤ W / 2 - r) (hy : |cy| ≤ H / 2 - r) :
    DiscInDie W H (cx + W / 2) (cy + H / 2) r := by
  intro px py hp
  obtain ⟨h1, h2⟩ := disc_coords (cx + W / 2) (cy + H / 2) r px py hr hp
  rw [abs_le] at h1 h2 hx hy
  exact ⟨by linarith [h1.1, hx.1], by linarith [h1.2, hx.2], by linarith [h2.1, hy.1], by linarith [h2.2, hy.2]⟩

/-- `spectral_layout_die`, EVERY draw list and iteration bound: if every disc fits the die (`radius_j ≤ size/2`)
    then every movable node `i` whose coordinates were not in the `1e-9` escape of the last `normalize` call
    (`preX`, `preY` of the returned record) has its disc inside the die.  `_partial`: see the header. -/
theorem die_disc_inside_partial (o : Ops α) (adj : List (List (Edge α))) (mass : List α) (W H : α)
    (init0 init1 : List α) (fixed : List Bool) (draws : List α) (maxIter : Nat) (r : DieResult α)
    (h : spectralLayoutDie o adj mass W H init0 init1 fixed draws maxIter = .ok r)
    (hl0 : init0.length = adj.length) (hl1 : init1.length = adj.length) (hlm : mass.length = adj.length)
    (hsqrt : ∀ x, 0 ≤ o.sqrt x)
    (hfit : ∀ j, j < adj.length → fixedAt fixed j = false →
      vat (radii o mass) j ≤ W / 2 ∧ vat (radii o mass) j ≤ H / 2)
    (i : Nat) (hi : i < adj.length) (hf : fixedAt fixed i = false)
    (dX : delta < |vat r.preX i|) (dY : delta < |vat r.preY i|) :
    DiscInDie W H (vat r.xs i + W / 2) (vat r.ys i + H / 2) (vat (radii o mass) i) := by
  obtain ⟨hX, hY, lx, ly⟩ := die_post o adj mass W H init0 init1 fixed draws maxIter r h hl0 hl1
  have hrl : (radii o mass).length = adj.length := by simp [radii, hlm]
  have hspan : ∀ (size : α) (j : Nat), j < adj.length → vat (maxSpans size (radii o mass)) j = size / 2 - vat (radii o mass) j := by
    intro size j hj
    unfold maxSpans
    rw [vat_map _ _ _ (by rw [hrl]; exact hj)]; simp
  have hpx : r.preX.length = adj.length := by rw [← normalize_length _ _ _ _ hX]; exact lx
  have hpy : r.preY.length = adj.length := by rw [← normalize_length _ _ _ _ hY]; exact ly
  have hrad : 0 ≤ vat (radii o mass) i := by
    unfold radii; rw [vat_map _ _ _ (by rw [hlm]; exact hi)]; exact hsqrt _
  have bx := normalize_bound r.preX _ fixed r.xs hX
    (fun j hj hjf _ => by rw [hspan W j (by rw [← hpx]; exact hj)]; linarith [(hfit j (by rw [← hpx]; exact hj) hjf).1])
    i (by rw [hpx]; exact hi) hf dX
  have by' := normalize_bound r.preY _ fixed r.ys hY
    (fun j hj hjf _ => by rw [hspan H j (by rw [← hpy]; exact hj)]; linarith [(hfit j (by rw [← hpy]; exact hj) hjf).2])
    i (by rw [hpy]; exact hi) hf dY
  rw [hspan W i hi] at bx
  rw [hspan H i hi] at by'
  exact disc_inside W H _ _ _ hrad bx by'

/-! ### fixed nodes -/

/-- `fixed_unmoved` (coordinates): a fixed node comes back at `initial - size/2`, i.e. its reported position
    `+ size/2` is exactly the initial one — for every draw list. -/
theorem die_fixed_unmoved (o : Ops α) (adj : List (List (Edge α))) (mass : List α) (W H : α) (init0 init1 : List α)
    (fixed : List Bool) (draws : List α) (maxIter : Nat) (r : DieResult α)
    (h : spectralLayoutDie o adj mass W H init0 init1 fixed draws maxIter = .ok r)
    (hl0 : init0.length = adj.length) (hl1 : init1.length = adj.length)
    (i : Nat) (hi : i < adj.length) (hf : fixedAt fixed i = true) :
    vat r.xs i + W / 2 = vat init0 i ∧ vat r.ys i + H / 2 = vat init1 i := by
  obtain ⟨a, b⟩ := sld_fixed o adj mass W H init0 init1 fixed draws maxIter r h hl0 hl1 i hi hf
  rw [a, b]; exact ⟨by ring, by ring⟩

/-! ### progress of the centroid step -/

/-- when every node has at least one adjacency entry and all weights are positive ("every module is on some net"),
    the degrees are positive and `calculate_centroids` cannot raise `ZeroDivisionError`. -/
theorem centroids_return (adj : List (List (Edge α))) (coord : List α) (hl : coord.length = adj.length)
    (hnet : ∀ es ∈ adj, es ≠ [] ∧ ∀ e ∈ es, 0 < e.weight) :
    ∃ out, calculateCentroids adj coord (adj.map fun es => nsum (es.map (·.weight))) = .ok out := by
  apply calculateCentroids_ok
  intro i hi
  rw [hl] at hi
  have : vat (adj.map fun es => nsum (es.map (·.weight))) i = nsum ((adj[i]).map (·.weight)) := by
    simp [vat, List.getD_eq_getElem?_getD, hi]
  rw [this, nsum_eq]
  obtain ⟨h1, h2⟩ := hnet adj[i] (List.getElem_mem hi)
  exact ne_of_gt (sum_weights_pos _ h1 h2)

/-! ### `Spectral.spectral_layout` -/

/-- `spectralLayout` is `spectralLayoutTrace` with the record of the winning trial forgotten. -/
theorem layout_has_trace (o : Ops α) (mods : List (SMod α β)) (nets : List (SNet α)) (W H : α)
    (nfl : Nat) (draws : List α) (maxIter : Nat) (out : List (SMod α β)) :
    spectralLayout o mods nets W H nfl draws maxIter = .ok out ↔
      ∃ b, spectralLayoutTrace o mods nets W H nfl draws maxIter = .ok (out, b) :=
  layout_trace o mods nets W H nfl draws maxIter out

/-- structure of a returning run: the graph was built, the record `b` is the result of ONE call of
    `spectral_layout_die` (the best trial) for SOME draw list, and every module `i` of the output is module `i` of the
    input finished with the centre `b[i] + size/2`. -/
theorem layout_structure (o : Ops α) (mods : List (SMod α β)) (nets : List (SNet α)) (W H : α)
    (nfl : Nat) (draws : List α) (maxIter : Nat) (out : List (SMod α β)) (b : DieResult α)
    (h : spectralLayoutTrace o mods nets W H nfl draws maxIter = .ok (out, b)) :
    ∃ adj dr, buildAdj mods.length nets = .ok adj ∧ adj.length = mods.length ∧
      spectralLayoutDie o adj (mods.map (·.mass)) W H (initCentres mods nfl false) (initCentres mods nfl true)
        (mods.map (·.fixed)) dr maxIter = .ok b ∧
      out.length = mods.length ∧
      ∀ (i : Nat) (m : SMod α β), mods[i]? = some m → ∃ m' : SMod α β, out[i]? = some m' ∧
        finishModule m (vat b.xs i + W / 2, vat b.ys i + H / 2) = .ok m' := by
  obtain ⟨_, adj, dr, ha, hb, hf⟩ := trace_unfold o mods nets W H nfl draws maxIter out b h
  obtain ⟨hl, hm⟩ := finishAll_spec b.xs b.ys W H mods 0 out hf
  refine ⟨adj, dr, ha, buildAdj_length _ _ _ ha, hb, hl, ?_⟩
  intro i m hi
  obtain ⟨m', a1, a2⟩ := hm i m hi
  exact ⟨m', a1, by simpa using a2⟩

/-- `areas_nets_unchanged`: the result has one module per input module, in order, with the same mass (area),
    flags, payload (name, regions, …), the same number of rectangles and the same rectangle shapes.  (The nets are
    an input of the model only: the run has no way to alter them.) -/
theorem areas_nets_unchanged (o : Ops α) (mods : List (SMod α β)) (nets : List (SNet α)) (W H : α)
    (nfl : Nat) (draws : List α) (maxIter : Nat) (out : List (SMod α β))
    (h : spectralLayout o mods nets W H nfl draws maxIter = .ok out) :
    out.length = mods.length ∧ ∀ (i : Nat) (m : SMod α β), mods[i]? = some m → ∃ m' : SMod α β, out[i]? = some m' ∧
      m'.mass = m.mass ∧ m'.fixed = m.fixed ∧ m'.hard = m.hard ∧ m'.terminal = m.terminal ∧ m'.rest = m.rest ∧
      m'.rects.map (fun r => (r.w, r.h)) = m.rects.map (fun r => (r.w, r.h)) := by
  obtain ⟨b, hb⟩ := (layout_has_trace o mods nets W H nfl draws maxIter out).mp h
  obtain ⟨adj, dr, _, _, _, hl, hm⟩ := layout_structure o mods nets W H nfl draws maxIter out b hb
  refine ⟨hl, ?_⟩
  intro i m hi
  obtain ⟨m', a1, a2⟩ := hm i m hi
  obtain ⟨s1, s2, s3, s4, s5, _, s7⟩ := finishModule_spec m m' _ a2
  refine ⟨m', a1, s1, s2, s3, s4, s5, ?_⟩
  split at s7
  · obtain ⟨_, e⟩ := recenter_spec _ _ _ s7
    rw [e]; simp [Function.comp_def]
  · rw [s7]

/-- `fixed_unmoved`: a fixed module keeps its rectangles exactly, and a fixed terminal keeps its centre exactly
    (`(c - size/2) + size/2 = c`). -/
theorem fixed_unmoved (o : Ops α) (mods : List (SMod α β)) (nets : List (SNet α)) (W H : α)
    (nfl : Nat) (draws : List α) (maxIter : Nat) (out : List (SMod α β))
    (h : spectralLayout o mods nets W H nfl draws maxIter = .ok out)
    (i : Nat) (m : SMod α β) (c : α × α) (hi : mods[i]? = some m) (hf : m.fixed = true) (hc : m.center = some c) :
    ∃ m' : SMod α β, out[i]? = some m' ∧ m'.rects = m.rects ∧ (m.terminal = true → m'.center = some c) ∧
      (m.hard = true → m.terminal = false → m'.center = none) := by
  obtain ⟨b, hb⟩ := (layout_has_trace o mods nets W H nfl draws maxIter out).mp h
  obtain ⟨adj, dr, _, hal, hb, hl, hm⟩ := layout_structure o mods nets W H nfl draws maxIter out b hb
  obtain ⟨m', a1, a2⟩ := hm i m hi
  obtain ⟨_, _, _, _, _, s6, s7⟩ := finishModule_spec m m' _ a2
  have hil : i < adj.length := by rw [hal]; exact (List.getElem?_eq_some_iff.mp hi).1
  obtain ⟨e1, e2⟩ := die_fixed_unmoved o adj _ W H _ _ _ dr maxIter b hb
    (by rw [initCentres_length, hal]) (by rw [initCentres_length, hal]) i hil
    (by rw [fixedAt_map mods i m hi]; exact hf)
  obtain ⟨c1, c2⟩ := initCentres_fixed mods nfl i m c hi hf hc
  refine ⟨m', a1, ?_, ?_, ?_⟩
  · simpa [hf] using s7
  · intro ht
    rw [s6, e1, e2, c1, c2]; simp [ht]
  · intro hh ht
    rw [s6]; simp [hh, ht]

/-- `recenter_rigid`: `recenter_rectangles` translates all rectangles of the module by ONE vector (so shapes and
    pairwise offsets are kept) and the area-weighted centroid of the result is the centre asked for. -/
theorem recenter_rigid (c : α × α) (rects out : List (SRect α)) (h : recenter c rects = .ok out) :
    ∃ dx dy : α,
      out = rects.map (fun r => { r with cx := r.cx + dx, cy := r.cy + dy }) ∧
      (out.map fun r => r.w * r.h).sum ≠ 0 ∧
      (out.map fun r => r.cx * (r.w * r.h)).sum / (out.map fun r => r.w * r.h).sum = c.1 ∧
      (out.map fun r => r.cy * (r.w * r.h)).sum / (out.map fun r => r.w * r.h).sum = c.2 := by
  obtain ⟨hA, e⟩ := recenter_spec c rects out h
  refine ⟨_, _, e, ?_, ?_, ?_⟩
  · rw [e]; simpa [Function.comp_def] using hA
  · rw [e]
    simp only [List.map_map, Function.comp_def]
    rw [sum_shift rects (fun r => r.cx)]
    field_simp
    ring
  · rw [e]
    simp only [List.map_map, Function.comp_def]
    rw [sum_shift rects (fun r => r.cy)]
    field_simp
    ring

/-- the position of a module in an output: a soft module's centre; a hard module's area-weighted centroid of its
    rectangles (its centre is dropped by `spectral_layout`). -/
def Position (m' : SMod α β) (p : α × α) : Prop :=
  (m'.hard = false → m'.center = some p) ∧
  (m'.hard = true → (m'.rects.map fun r => r.w * r.h).sum ≠ 0 ∧
    (m'.rects.map fun r => r.cx * (r.w * r.h)).sum / (m'.rects.map fun r => r.w * r.h).sum = p.1 ∧
    (m'.rects.map fun r => r.cy * (r.w * r.h)).sum / (m'.rects.map fun r => r.w * r.h).sum = p.2)

/-- every movable module of the output sits at `b[i] + size/2`: a soft module has that centre (rectangles
    untouched), a hard module was translated rigidly so that its centroid is that point. -/
theorem movable_position (o : Ops α) (mods : List (SMod α β)) (nets : List (SNet α)) (W H : α)
    (nfl : Nat) (draws : List α) (maxIter : Nat) (out : List (SMod α β)) (b : DieResult α)
    (h : spectralLayoutTrace o mods nets W H nfl draws maxIter = .ok (out, b))
    (i : Nat) (m : SMod α β) (hi : mods[i]? = some m) (hf : m.fixed = false) :
    ∃ m' : SMod α β, out[i]? = some m' ∧ Position m' (vat b.xs i + W / 2, vat b.ys i + H / 2) ∧
      (m.hard = false → m'.rects = m.rects) ∧
      (m.hard = true → ∃ dx dy : α, m'.rects = m.rects.map (fun r => { r with cx := r.cx + dx, cy := r.cy + dy })) := by
  obtain ⟨adj, dr, _, _, _, _, hm⟩ := layout_structure o mods nets W H nfl draws maxIter out b h
  obtain ⟨m', a1, a2⟩ := hm i m hi
  obtain ⟨_, _, s3, _, _, s6, s7⟩ := finishModule_spec m m' _ a2
  refine ⟨m', a1, ⟨?_, ?_⟩, ?_, ?_⟩
  · intro hh
    rw [s3] at hh
    rw [s6]; simp [hh]
  · intro hh
    rw [s3] at hh
    have hr : recenter (vat b.xs i + W / 2, vat b.ys i + H / 2) m.rects = .ok m'.rects := by simpa [hh, hf] using s7
    obtain ⟨dx, dy, _, hA, hx, hy⟩ := recenter_rigid _ _ _ hr
    exact ⟨hA, hx, hy⟩
  · intro hh
    simpa [hh] using s7
  · intro hh
    have hr : recenter (vat b.xs i + W / 2, vat b.ys i + H / 2) m.rects = .ok m'.rects := by simpa [hh, hf] using s7
    obtain ⟨dx, dy, e, _⟩ := recenter_rigid _ _ _ hr
    exact ⟨dx, dy, e⟩

/-! ### best-of-n, dropped centres -/

/-- `best_of_n`: the trial kept by `spectral_layout` is the FIRST of strictly smallest wirelength among the
    `max(nfloorplans, 1)` trials actually run (each starting with the draws its predecessor left) — when every
    wirelength is below `inf` (always so in exact arithmetic). -/
theorem best_of_n (o : Ops α) (mods : List (SMod α β)) (nets : List (SNet α)) (W H : α)
    (nfl : Nat) (draws : List α) (maxIter : Nat) (out : List (SMod α β)) (b : DieResult α)
    (h : spectralLayoutTrace o mods nets W H nfl draws maxIter = .ok (out, b)) (hlt : ∀ x, o.ltInf x = true) :
    ∃ adj rs l1 l2, buildAdj mods.length nets = .ok adj ∧
      trialResults o adj (mods.map (·.mass)) W H (initCentres mods nfl false) (initCentres mods nfl true)
        (mods.map (·.fixed)) maxIter (if nfl = 0 then 1 else nfl) draws = .ok rs ∧
      rs.length = (if nfl = 0 then 1 else nfl) ∧
      rs = l1 ++ b :: l2 ∧ (∀ x ∈ l1, b.wl < x.wl) ∧ (∀ x ∈ l2, b.wl ≤ x.wl) := by
  obtain ⟨adj, rs, ha, hrs, hf⟩ := trace_trials o mods nets W H nfl draws maxIter out b h
  rcases betterTrial_fold_spec o hlt rs with ⟨_, hn⟩ | ⟨b', l1, l2, hb, e, m1, m2⟩
  · rw [hn] at hf; cases hf
  · rw [hb] at hf
    cases hf
    exact ⟨adj, rs, l1, l2, ha, hrs, trialResults_length _ _ _ _ _ _ _ _ _ _ _ _ hrs, e, m1, m2⟩

/-- non-finite wirelength: a trial whose wirelength is not below `inf` (`inf` / NaN on doubles) never wins; when ALL
    trials are like that `best_coord` stays `None` and `spectral_layout` fails its `assert` — the model raises the same
    `AssertionError` (it used to keep the first trial). -/
theorem non_finite_wirelength_asserts (o : Ops α) (mods : List (SMod α β)) (nets : List (SNet α)) (W H : α)
    (nfl : Nat) (draws : List α) (maxIter : Nat) (adj : List (List (Edge α))) (rs : List (DieResult α))
    (ha : buildAdj mods.length nets = .ok adj)
    (hrs : trialResults o adj (mods.map (·.mass)) W H (initCentres mods nfl false) (initCentres mods nfl true)
        (mods.map (·.fixed)) maxIter (if nfl = 0 then 1 else nfl) draws = .ok rs)
    (hinf : ∀ r ∈ rs, o.ltInf r.wl = false) :
    spectralLayout o mods nets W H nfl draws maxIter = .error .assertion := by
  unfold spectralLayout
  rw [trace_nonfinite o mods nets W H nfl draws maxIter adj rs ha hrs hinf]
  rfl

/-- `centres_after_layout` ("drop hard centres"): in the result every hard non-terminal module (fixed or movable) has NO
    centre; every other module (soft, terminal) has the centre `b[i] + size/2` of the winning trial. -/
theorem centres_after_layout (o : Ops α) (mods : List (SMod α β)) (nets : List (SNet α)) (W H : α)
    (nfl : Nat) (draws : List α) (maxIter : Nat) (out : List (SMod α β)) (b : DieResult α)
    (h : spectralLayoutTrace o mods nets W H nfl draws maxIter = .ok (out, b))
    (i : Nat) (m : SMod α β) (hi : mods[i]? = some m) :
    ∃ m' : SMod α β, out[i]? = some m' ∧
      ((m.hard = true ∧ m.terminal = false) → m'.center = none) ∧
      (¬ (m.hard = true ∧ m.terminal = false) → m'.center = some (vat b.xs i + W / 2, vat b.ys i + H / 2)) := by
  obtain ⟨adj, dr, _, _, _, _, hm⟩ := layout_structure o mods nets W H nfl draws maxIter out b h
  obtain ⟨m', a1, a2⟩ := hm i m hi
  obtain ⟨_, _, _, _, _, s6, _⟩ := finishModule_spec m m' _ a2
  refine ⟨m', a1, ?_, ?_⟩
  · rintro ⟨hh, ht⟩; rw [s6]; simp [hh, ht]
  · intro hn
    rw [s6]
    cases hh : m.hard <;> cases ht : m.terminal <;> simp_all

/-- the admissibility hypotheses of the property. -/
structure Admissible (o : Ops α) (mods : List (SMod α β)) (nets : List (SNet α)) (W H : α) : Prop where
  /-- at least four movable modules -/
  movable : 4 ≤ (mods.filter fun m => !m.fixed).length
  /-- every module is on some net -/
  onNet : ∀ i, i < mods.length → ∃ e ∈ nets, i ∈ e.pins
  /-- the disc of every MOVABLE module fits the die (fixed modules are not placed: `normalize` ignores them, so
      a fixed macro may be longer than the die is high) -/
  fits : ∀ m ∈ mods, m.fixed = false → o.sqrt (m.mass / o.pi) ≤ W / 2 ∧ o.sqrt (m.mass / o.pi) ≤ H / 2

/-- HEADLINE (`_partial`: the `1e-9` escape is a hypothesis, see the header).  For EVERY draw list, trial count and
    iteration bound, on an admissible input: when the run returns `out` together with the record `b` of its winning
    trial, every movable module `i` whose coordinates were outside the `1e-9` region in the last `normalize` call of
    each dimension (`b.preX`, `b.preY`) has, IN `out`, a position `p` (soft: its centre; hard: the centroid of its
    rectangles) such that the disc of its area centred at `p` lies inside the die. -/
theorem layout_disc_inside_partial (o : Ops α) (mods : List (SMod α β)) (nets : List (SNet α)) (W H : α)
    (nfl : Nat) (draws : List α) (maxIter : Nat) (out : List (SMod α β)) (b : DieResult α)
    (h : spectralLayoutTrace o mods nets W H nfl draws maxIter = .ok (out, b))
    (hsqrt : ∀ x, 0 ≤ o.sqrt x) (hadm : Admissible o mods nets W H)
    (i : Nat) (m : SMod α β) (hi : mods[i]? = some m) (hf : m.fixed = false)
    (dX : delta < |vat b.preX i|) (dY : delta < |vat b.preY i|) :
    ∃ (m' : SMod α β) (p : α × α), out[i]? = some m' ∧ Position m' p ∧
      DiscInDie W H p.1 p.2 (o.sqrt (m.mass / o.pi)) := by
  obtain ⟨adj, dr, ha, hal, hb, _, _⟩ := layout_structure o mods nets W H nfl draws maxIter out b h
  obtain ⟨m', a1, hpos, _, _⟩ := movable_position o mods nets W H nfl draws maxIter out b h i m hi hf
  have hrad : ∀ j (mj : SMod α β), mods[j]? = some mj → vat (radii o (mods.map (·.mass))) j = o.sqrt (mj.mass / o.pi) := by
    intro j mj hj
    have hjl : j < mods.length := (List.getElem?_eq_some_iff.mp hj).1
    unfold radii
    rw [vat_map _ _ _ (by simpa using hjl), vat_mass_map mods j mj hj]
  have hil : i < adj.length := by rw [hal]; exact (List.getElem?_eq_some_iff.mp hi).1
  have hd := die_disc_inside_partial o adj _ W H _ _ _ dr maxIter b hb
    (by rw [initCentres_length, hal]) (by rw [initCentres_length, hal]) (by simp [hal]) hsqrt
    (by
      intro j hj hjf
      rw [hal] at hj
      have hmj : mods[j]? = some mods[j] := List.getElem?_eq_getElem hj
      rw [hrad j _ hmj]
      rw [fixedAt_map mods j _ hmj] at hjf
      exact hadm.fits _ (List.getElem_mem hj) hjf)
    i hil (by rw [fixedAt_map mods i m hi]; exact hf) dX dY
  rw [hrad i m hi] at hd
  exact ⟨m', _, a1, hpos, hd⟩

/-- the same, stated on `spectral_layout` itself: ONE witness `b` ties the output, the escape hypothesis and the
    conclusion together. -/
theorem spectral_layout_disc_inside_partial (o : Ops α) (mods : List (SMod α β)) (nets : List (SNet α)) (W H : α)
    (nfl : Nat) (draws : List α) (maxIter : Nat) (out : List (SMod α β))
    (h : spectralLayout o mods nets W H nfl draws maxIter = .ok out)
    (hsqrt : ∀ x, 0 ≤ o.sqrt x) (hadm : Admissible o mods nets W H) :
    ∃ b : DieResult α, spectralLayoutTrace o mods nets W H nfl draws maxIter = .ok (out, b) ∧
      ∀ (i : Nat) (m : SMod α β), mods[i]? = some m → m.fixed = false →
        delta < |vat b.preX i| → delta < |vat b.preY i| →
        ∃ (m' : SMod α β) (p : α × α), out[i]? = some m' ∧ Position m' p ∧
          DiscInDie W H p.1 p.2 (o.sqrt (m.mass / o.pi)) := by
  obtain ⟨b, hb⟩ := (layout_has_trace o mods nets W H nfl draws maxIter out).mp h
  exact ⟨b, hb, fun i m hi hf dX dY =>
    layout_disc_inside_partial o mods nets W H nfl draws maxIter out b hb hsqrt hadm i m hi hf dX dY⟩

/-! ### non-vacuity -/

section Examples

def opsQ : Ops Rat := { sqrt := fun _ => 1, powHalf := fun x => x, sq := fun x => x * x, pi := 3, ltInf := fun _ => true }

/-- a path a–b–c–d with unit weights, 4 movable nodes of radius 1 in a 10 × 8 die, one iteration allowed. -/
def adjQ : List (List (Edge Rat)) := [[⟨1, 1⟩], [⟨0, 1⟩, ⟨2, 1⟩], [⟨1, 1⟩, ⟨3, 1⟩], [⟨2, 1⟩]]

example : (spectralLayoutDie opsQ adjQ [3, 3, 3, 3] 10 8 [-1, -1, -1, -1] [-1, -1, -1, -1]
    [false, false, false, false] [1, 3, 5, 8, 2, 5, 1, 6] 1).toBool = true := by decide +kernel

example : (normalize [(3 : Rat), -4, 1 / 2] [5, 2, 1] [false, false, true]) = .ok [3 / 2, -2, 1 / 2] := by
  decide +kernel

example : (recenter ((5 : Rat), 5) [⟨1, 1, 2, 2⟩, ⟨1, 5 / 2, 1, 1⟩]).toBool = true := by decide +kernel

/-- an admissible netlist: three soft modules, a movable hard module with two rectangles, a fixed terminal;
    four nets (one with three pins); 10 × 8 die; two trials, two iterations each. -/
def modsQ : List (SMod Rat Unit) :=
  [⟨none, 3, false, false, false, [], ()⟩,
   ⟨none, 3, false, false, false, [], ()⟩,
   ⟨some (2, 2), 3, false, true, false, [⟨2, 2, 1, 1⟩, ⟨2, 3, 1, 1⟩], ()⟩,
   ⟨none, 3, false, false, false, [], ()⟩,
   ⟨some (9, 7), 0, true, true, true, [], ()⟩]
def netsQ : List (SNet Rat) := [⟨[0, 1], 1⟩, ⟨[1, 2, 4], 2⟩, ⟨[2, 3], 1⟩, ⟨[3, 0], 1⟩]
def drawsQ : List Rat := [1, 3, 5, 8, 2, 5, 1, 6, 1, 2, 3, 4, 5, 6, 7, 8, 1, 2, 3, 4]

/-- the run returns … -/
example : (spectralLayout opsQ modsQ netsQ 10 8 2 drawsQ 2).toBool = true := by decide +kernel
example : (spectralLayoutTrace opsQ modsQ netsQ 10 8 2 drawsQ 2).toBool = true := by decide +kernel

/-- … on an admissible input … -/
theorem modsQ_admissible : Admissible opsQ modsQ netsQ (10 : Rat) 8 where
  movable := by decide
  onNet := by
    intro i hi
    have : i < 5 := hi
    match i, this with
    | 0, _ => exact ⟨⟨[0, 1], 1⟩, by simp [netsQ], by simp⟩
    | 1, _ => exact ⟨⟨[0, 1], 1⟩, by simp [netsQ], by simp⟩
    | 2, _ => exact ⟨⟨[2, 3], 1⟩, by simp [netsQ], by simp⟩
    | 3, _ => exact ⟨⟨[2, 3], 1⟩, by simp [netsQ], by simp⟩
    | 4, _ => exact ⟨⟨[1, 2, 4], 2⟩, by simp [netsQ], by simp⟩
  fits := by intro m hm _; simp [opsQ]; norm_num

/-- … and no movable coordinate of the winning trial is in the `1e-9` region (so the escape hypothesis of the
    headline theorem is met by every movable module of this run). -/
example : (match spectralLayoutTrace opsQ modsQ netsQ 10 8 2 drawsQ 2 with
    | .ok (_, b) => (List.range 4).all fun i =>
        decide ((delta : Rat) < |vat b.preX i|) && decide ((delta : Rat) < |vat b.preY i|)
    | .error _ => false) = true := by decide +kernel

/-- the headline theorem applied to this run (its three hypotheses are the facts checked by the `decide +kernel`
    examples above): module 0 of the output sits where its disc is inside the 10 × 8 die. -/
example (out : List (SMod Rat Unit)) (b : DieResult Rat)
    (h : spectralLayoutTrace opsQ modsQ netsQ 10 8 2 drawsQ 2 = .ok (out, b))
    (dX : (delta : Rat) < |vat b.preX 0|) (dY : (delta : Rat) < |vat b.preY 0|) :
    ∃ (m' : SMod Rat Unit) (p : Rat × Rat), out[0]? = some m' ∧ Position m' p ∧
      DiscInDie 10 8 p.1 p.2 (opsQ.sqrt ((3 : Rat) / opsQ.pi)) :=
  layout_disc_inside_partial opsQ modsQ netsQ 10 8 2 drawsQ 2 out b h (fun _ => by simp [opsQ]) modsQ_admissible
    0 ⟨none, 3, false, false, false, [], ()⟩ rfl rfl dX dY

/-- `best_of_n` applied to the same run (two trials): the kept trial is the first of strictly smallest wirelength. -/
example (out : List (SMod Rat Unit)) (b : DieResult Rat)
    (h : spectralLayoutTrace opsQ modsQ netsQ 10 8 2 drawsQ 2 = .ok (out, b)) :
    ∃ adj rs l1 l2, buildAdj modsQ.length netsQ = .ok adj ∧
      trialResults opsQ adj (modsQ.map (·.mass)) 10 8 (initCentres modsQ 2 false) (initCentres modsQ 2 true)
        (modsQ.map (·.fixed)) 2 (if 2 = 0 then 1 else 2) drawsQ = .ok rs ∧
      rs.length = (if 2 = 0 then 1 else 2) ∧ rs = l1 ++ b :: l2 ∧ (∀ x ∈ l1, b.wl < x.wl) ∧ (∀ x ∈ l2, b.wl ≤ x.wl) :=
  best_of_n opsQ modsQ netsQ 10 8 2 drawsQ 2 out b h (fun _ => rfl)

/-- a numeric library whose every wirelength is "not below inf" (what `inf` / NaN wirelengths are on doubles): the same
    run now fails the `assert best_coord is not None`, as the Python does. -/
def opsInf : Ops Rat := { opsQ with ltInf := fun _ => false }
example : (match spectralLayout opsInf modsQ netsQ 10 8 2 drawsQ 2 with | .error .assertion => true | _ => false) = true := by
  decide +kernel

/-- hard centres are dropped, soft centres are set (module 2 is the movable hard module, module 0 a soft one). -/
example (out : List (SMod Rat Unit)) (b : DieResult Rat)
    (h : spectralLayoutTrace opsQ modsQ netsQ 10 8 2 drawsQ 2 = .ok (out, b)) :
    ∃ m' : SMod Rat Unit, out[2]? = some m' ∧ m'.center = none := by
  obtain ⟨m', a, hd, _⟩ := centres_after_layout opsQ modsQ netsQ 10 8 2 drawsQ 2 out b h 2 _ rfl
  exact ⟨m', a, hd ⟨rfl, rfl⟩⟩

end Examples

end FV.C14

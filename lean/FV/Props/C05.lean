import FV.Proofs.Netlist
import FV.Proofs.NetlistDoc
import FV.Proofs.StogInst
/-
  C05 — a loaded netlist matches its definition; ill-formed designs are rejected.

  Model: `FV/Model/Netlist.lean` (`parseNetlist stog εA : YVal α → Except Err (Netlist α)`), following the code after
  fixes/C05_one_pin_net.diff.  `stog` (create_stog) and `sqrt` (math.sqrt) are parameters; `εA` is the area tolerance
  `Rectangle._area_epsilon` in force.  Scalars: any linearly ordered field (the driver runs the same code at `Rat`).

  The theorems of Part 1 that mention the STOG step take the hypothesis `StogPerm stog`; each has a corollary
  `…_createStog` for `stogC06 ε εA`, the C06 model of `create_stog` run on the tagged rectangles, for which `StogPerm`
  is proved (`FV/Proofs/StogInst.lean`): those corollaries carry no assumption about `create_stog`.

  Part 1 — derived quantities equal their definitions (the model computes them with the running sums of the Python
  code; the definitions are written with `List.sum`).
  Part 2 — one rejection theorem per listed class of defect.  Each `HasDefect…` predicate is a statement about the
  DOCUMENT only (a root dictionary with a `Modules` dictionary / a `Nets` list in which some entry has the defect,
  anywhere); the conclusion is that loading fails.

  Helper definitions used in the statements (in `FV/Proofs/Netlist.lean`): `StogPerm` (the STOG step permutes the
  rectangles, changing only roles), `rectEntries` (the entries of a `rectangles:` attribute: a single rectangle may be
  written without the outer list), `entryRect` (the rectangle a four-number entry `[x, y, w, h]` describes), `DocWith`,
  `finalize`, `kindName`.
-/
namespace FV.C05
open FV FV.NL
set_option linter.unusedSectionVars false
set_option linter.unusedVariables false
set_option linter.unusedSimpArgs false

variable {α : Type} [Field α] [LinearOrder α] [IsStrictOrderedRing α]
variable {stog : List (NRect α) → List (NRect α)} {εA : α}

/-! ## Part 1: derived quantities -/

/-- the attribute dictionary `info` has the entry `key: v`. -/
def HasAttr (info : List (YVal α × YVal α)) (key : String) (v : YVal α) : Prop := (YVal.str key, v) ∈ info

/-- the attribute dictionary `info` has no entry `key`. -/
def NoAttr (info : List (YVal α × YVal α)) (key : String) : Prop := ∀ v, (YVal.str key, v) ∉ info


/-- `Module.area()` is the sum of the per-region areas (running sum = `List.sum`). -/
theorem area_def (m : NL.Mod α) : m.area = (m.areaRegions.map (·.2)).sum := Mod.area_eq m

/-- soft modules: the regions are those the document gives (`area: x` is ground area `x`; a dictionary is taken entry
    by entry), so the area is the sum of the document's region areas. -/
theorem area_def_soft {t : YVal α} {n : Netlist α} (h : parseNetlist stog εA t = .ok n) {m : NL.Mod α}
    (hm : m ∈ n.modules) (hs : m.hard = false) :
    m.areaRegions ≠ [] ∧ (∀ p ∈ m.areaRegions, 0 < p.2) ∧ m.area = (m.areaRegions.map (·.2)).sum := by
  obtain ⟨m0, hok, rfl⟩ := loaded_mem h hm
  have hh : m0.hard = false := by
    by_cases hr : m0.rects = []
    · rwa [finalize_rects_nil hr] at hs
    · rwa [finalize_rects_cons hr] at hs
  have har : (finalize stog m0).areaRegions = m0.areaRegions := by
    by_cases hr : m0.rects = []
    · rw [finalize_rects_nil hr]
    · rw [finalize_rects_cons hr]
  obtain ⟨a1, a2, _⟩ := hok.soft_area hh
  rw [area_def, har]
  exact ⟨a1, fun p hp => (a2 p hp).2, rfl⟩

/-- hard modules (fixed and terminal ones included): the only region is the ground one and the area is the sum of the
    areas of the module's rectangles. -/
theorem area_def_hard (hp : StogPerm stog) {t : YVal α} {n : Netlist α} (h : parseNetlist stog εA t = .ok n)
    {m : NL.Mod α} (hm : m ∈ n.modules) (hh : m.hard = true) :
    m.areaRegions = [("_", (m.rects.map NRect.area).sum)] ∧ m.area = (m.rects.map NRect.area).sum := by
  obtain ⟨m0, hok, rfl⟩ := loaded_mem h hm
  by_cases hr : m0.rects = []
  · rw [finalize_rects_nil hr] at hh ⊢
    obtain ⟨_, ha, _⟩ := hok.hard_ok hh
    rw [area_def, ha, sumAreas_eq]; simp
  · rw [finalize_rects_cons hr] at hh ⊢
    simp only at hh ⊢
    obtain ⟨_, ha, _⟩ := hok.hard_ok hh
    have hsum : sumAreas m0.rects = ((stog m0.rects).map NRect.area).sum := by
      rw [← sumAreas_resetLoc m0.rects, ← sumAreas_eq, ← sumAreas_resetLoc (stog m0.rects)]
      exact sumAreas_perm (hp m0.rects).symm
    rw [area_def]
    simp only [ha, hsum]
    simp

/-- a terminal without rectangles has area zero. -/
theorem area_def_terminal (hp : StogPerm stog) {t : YVal α} {n : Netlist α} (h : parseNetlist stog εA t = .ok n)
    {m : NL.Mod α} (hm : m ∈ n.modules) (ht : m.terminal = true) (hr : m.rects = []) : m.area = 0 := by
  obtain ⟨m0, hok, rfl⟩ := loaded_mem h hm
  have hr0 : m0.rects = [] := by
    by_contra hne
    rw [finalize_rects_cons hne] at hr
    simp only at hr
    have := (hp m0.rects).length_eq
    rw [hr] at this
    simp at this
    exact hne (List.eq_nil_of_length_eq_zero this.symm)
  rw [finalize_rects_nil hr0] at ht ⊢
  obtain ⟨_, ha, _⟩ := hok.hard_ok (hok.term_hard ht)
  rw [area_def, ha, hr0]; simp [sumAreas]

/-- `calculate_center_from_rectangles` (three running sums) is the area-weighted centroid. -/
theorem centroid_def (rs : List (NRect α)) :
    centroid rs = ((rs.map fun r => r.area * r.cx.val).sum / (rs.map NRect.area).sum,
                   (rs.map fun r => r.area * r.cy.val).sum / (rs.map NRect.area).sum) := centroid_eq rs

/-- a loaded module with rectangles has the area-weighted centroid of ITS rectangles as centre (whatever centre the
    document gave), in whatever order the STOG step left them. -/
theorem center_def (hp : StogPerm stog) {t : YVal α} {n : Netlist α} (h : parseNetlist stog εA t = .ok n)
    {m : NL.Mod α} (hm : m ∈ n.modules) (hr : m.rects ≠ []) :
    m.center = some ((m.rects.map fun r => r.area * r.cx.val).sum / (m.rects.map NRect.area).sum,
                     (m.rects.map fun r => r.area * r.cy.val).sum / (m.rects.map NRect.area).sum) := by
  obtain ⟨m0, hok, rfl⟩ := loaded_mem h hm
  by_cases hr0 : m0.rects = []
  · rw [finalize_rects_nil hr0] at hr; exact absurd hr0 hr
  · rw [finalize_rects_cons hr0]
    simp only
    rw [← centroid_def, ← centroid_resetLoc m0.rects, ← centroid_resetLoc (stog m0.rects)]
    exact congrArg some (centroid_perm (hp m0.rects).symm)

/-- a loaded module without rectangles keeps the centre of the document (`none` when it gives none). -/
theorem center_def_no_rects {t : YVal α} {n : Netlist α} (h : parseNetlist stog εA t = .ok n) :
    ∃ ms es, parseDoc t = .ok (ms, es) ∧ n.modules = ms.map (finalize stog) ∧
      ∀ m0 ∈ ms, m0.rects = [] → finalize stog m0 = m0 := by
  obtain ⟨ms, es, hd, _, hmods, _⟩ := parseNetlist_modules h
  exact ⟨ms, es, hd, hmods, fun m0 _ hr => finalize_rects_nil hr⟩

/-- each loaded module holds a permutation (roles apart) of the rectangles the reader parsed for it, module by module
    in the same order, under the same names. -/
theorem rectangles_perm (hp : StogPerm stog) {t : YVal α} {n : Netlist α} (h : parseNetlist stog εA t = .ok n) :
    ∃ ms es, parseDoc t = .ok (ms, es) ∧
      List.Forall₂ (fun (m : NL.Mod α) (m0 : NL.Mod α) => m.name = m0.name ∧
        (m.rects.map NRect.resetLoc).Perm (m0.rects.map NRect.resetLoc)) n.modules ms := by
  have key : ∀ ms : List (NL.Mod α), List.Forall₂ (fun (m : NL.Mod α) (m0 : NL.Mod α) => m.name = m0.name ∧
      (m.rects.map NRect.resetLoc).Perm (m0.rects.map NRect.resetLoc)) (ms.map (finalize stog)) ms := by
    intro ms
    induction ms with
    | nil => exact List.Forall₂.nil
    | cons m0 rest ih =>
      refine List.Forall₂.cons ⟨finalize_name stog m0, ?_⟩ ih
      by_cases hr : m0.rects = []
      · rw [finalize_rects_nil hr]
      · rw [finalize_rects_cons hr]; exact hp m0.rects
  obtain ⟨ms, es, hd, _, hmods, _⟩ := parseNetlist_modules h
  refine ⟨ms, es, hd, ?_⟩
  rw [hmods]; exact key ms


/-! ### Part 1 at the level of the SOURCE DOCUMENT

`HasModules t mods` / `HasNets t nets`: `t` is a root dictionary with `Modules: mods` / `Nets: nets`.
`AreaOfDoc v regs`: the `area:` value `v` denotes the regions `regs` (a number is ground area; a dictionary is taken entry
by entry, in order).  `EntryRect ent r`: the entry `[x, y, w, h(, region)]` describes the rectangle `r` (numbers with
their tags, region, no role yet).  `CenterOfDoc cv c`: `cv = [x, y]` denotes the point `c`.  `NetOfDoc y e`: the entry
`[names…(, weight)]` denotes the net `e` (weight 1 when absent).  (Definitions in `FV/Proofs/NetlistDoc.lean`.) -/

/-- what the document says about one module. -/
structure ModuleOfDoc (stog : List (NRect α) → List (NRect α)) (info : List (YVal α × YVal α)) (m : NL.Mod α) : Prop where
  /-- soft ⇔ the entry has a (non-empty) `area` -/
  soft_iff : m.hard = false ↔ ∃ v, HasAttr info "area" v ∧ v ≠ .map []
  /-- soft: the per-region areas are the document's -/
  area : ∀ v, HasAttr info "area" v → m.hard = false → AreaOfDoc v m.areaRegions
  fixed_iff : m.fixed = true ↔ HasAttr info "fixed" (.bool true)
  terminal_iff : m.terminal = true ↔ HasAttr info "terminal" (.bool true)
  flip_iff : m.flip = true ↔ HasAttr info "flip" (.bool true)
  /-- no `rectangles`: none loaded, and the centre is the document's `center` (or none) -/
  no_rects : NoAttr info "rectangles" → m.rects = [] ∧
    (∀ cv, HasAttr info "center" cv → ∃ c, CenterOfDoc cv c ∧ m.center = some c) ∧
    (NoAttr info "center" → m.center = none)
  /-- `rectangles`: the loaded rectangles are the STOG step applied to the rectangles the entries describe (in document
      order); the centre is THEIR area-weighted centroid whatever `center` says; a hard module's area is THEIR total;
      each of them carries the module's `fixed` / `hard` flags (which `fixed_iff`, `soft_iff` tie to the document) -/
  rects : ∀ rv, HasAttr info "rectangles" rv → ∃ es rs0, rectEntries rv = some es ∧ List.Forall₂ EntryRect es rs0 ∧
    rs0 ≠ [] ∧ m.rects = stog rs0 ∧
    m.center = some ((rs0.map fun r => r.area * r.cx.val).sum / (rs0.map NRect.area).sum,
                     (rs0.map fun r => r.area * r.cy.val).sum / (rs0.map NRect.area).sum) ∧
    0 < (rs0.map NRect.area).sum ∧
    (m.hard = true → m.areaRegions = [("_", (rs0.map NRect.area).sum)]) ∧
    (∀ r ∈ rs0, r.fixed = m.fixed ∧ r.hard = m.hard)

/-- MODULES: the loaded modules are the entries of the document's `Modules` dictionary, in the same order and under the
    same names, and every field of a loaded module is what its entry says (`ModuleOfDoc`). -/
theorem modules_of_document {t : YVal α} {n : Netlist α} {mods : List (YVal α × YVal α)} (hd : HasModules t mods)
    (h : parseNetlist stog εA t = .ok n) :
    List.Forall₂ (fun (e : YVal α × YVal α) (m : NL.Mod α) =>
      ∃ info, e = (YVal.str m.name, YVal.map info) ∧ ModuleOfDoc stog info m) mods n.modules := by
  obtain ⟨ms, hF, hmods, hes⟩ := loaded_modules_doc hd h
  rw [hmods]
  clear hmods hes hd
  induction hF with
  | nil => exact List.Forall₂.nil
  | @cons e m0 _ _ hpe _ ih =>
    refine List.Forall₂.cons ?_ ih
    obtain ⟨name, l, _, _, _, _, he1, _, he2, _⟩ := parseModule_ok hpe
    have hee : e = (e.1, YVal.map l) := Prod.ext rfl he2
    rw [hee] at hpe
    obtain ⟨d1, d2, d3, d4, d5, d6, d7, d8, d9, d10⟩ := parseModule_doc hpe
    have hok := (parseModule_modOK hpe).1
    obtain ⟨g1, g2, g3, g4, g5⟩ := finalize_fields stog m0
    refine ⟨l, ?_, ?_⟩
    · rw [hee, finalize_name]; exact Prod.ext d1 rfl
    · refine ⟨by rw [g1]; exact d2, ?_, by rw [g2]; exact d4, by rw [g3]; exact d5, by rw [g4]; exact d6, ?_, ?_⟩
      · intro v hv hh; rw [g1] at hh; rw [g5]; exact d3 v hv hh
      · intro hno
        have hr := d7 hno
        rw [finalize_rects_nil hr]
        exact ⟨hr, d9, d10⟩
      · intro rv hrv
        obtain ⟨es, hes, hF2, hne⟩ := d8 rv hrv
        refine ⟨es, m0.rects, hes, hF2, hne, ?_, ?_, ?_, ?_, ?_⟩
        rotate_right
        · intro r hr
          rw [g1, g2]
          exact ⟨(hok.rects_ok r hr).fixed_eq, (hok.rects_ok r hr).hard_eq⟩
        · rw [finalize_rects_cons hne]
        · rw [finalize_rects_cons hne, centroid_def]
        · obtain ⟨r, rest, hrr⟩ := List.exists_cons_of_ne_nil hne
          have hpos : ∀ r ∈ m0.rects, 0 < r.area := fun r hr => by
            have := hok.rects_ok r hr
            exact mul_pos this.w_pos this.h_pos
          rw [hrr] at hpos ⊢
          simp only [List.map_cons, List.sum_cons]
          have h1 := hpos r List.mem_cons_self
          have h2 : 0 ≤ (rest.map NRect.area).sum :=
            List.sum_nonneg (fun x hx => by
              obtain ⟨y, hy, rfl⟩ := List.mem_map.mp hx
              exact le_of_lt (hpos y (List.mem_cons_of_mem _ hy)))
          linarith
        · intro hh
          rw [g1] at hh
          rw [g5, (hok.hard_ok hh).2.1, sumAreas_eq]

/-- RECTANGLES: the flat list `Netlist.rectangles` is the concatenation, module by module in document order, of the
    rectangles the `rectangles:` entries describe; each loaded module holds the STOG step of its chunk. -/
theorem rectangles_def {t : YVal α} {n : Netlist α} {mods : List (YVal α × YVal α)} (hd : HasModules t mods)
    (h : parseNetlist stog εA t = .ok n) :
    ∃ rss : List (List (NRect α)),
      List.Forall₂ (fun (e : YVal α × YVal α) (rs0 : List (NRect α)) => ∃ k info, e = (k, YVal.map info) ∧
        ((NoAttr info "rectangles" ∧ rs0 = []) ∨
          ∃ rv es, HasAttr info "rectangles" rv ∧ rectEntries rv = some es ∧ List.Forall₂ EntryRect es rs0)) mods rss ∧
      loadRectangles stog εA t = .ok rss.flatten ∧
      n.modules.map (·.rects) = rss.map (fun rs0 => if rs0 = [] then [] else stog rs0) := by
  obtain ⟨ms, hF, hmods, es, hdoc⟩ := loaded_modules_doc hd h
  refine ⟨ms.map (·.rects), ?_, ?_, ?_⟩
  · clear hmods hdoc hd
    induction hF with
    | nil => exact List.Forall₂.nil
    | @cons e m0 _ _ hpe _ ih =>
      refine List.Forall₂.cons ?_ ih
      obtain ⟨name, l, _, _, _, _, he1, _, he2, _⟩ := parseModule_ok hpe
      have hee : e = (e.1, YVal.map l) := Prod.ext rfl he2
      rw [hee] at hpe
      obtain ⟨_, _, _, _, _, _, d7, d8, _, _⟩ := parseModule_doc hpe
      refine ⟨e.1, l, hee, ?_⟩
      by_cases hno : ∀ rv, (YVal.str "rectangles", rv) ∉ l
      · exact Or.inl ⟨hno, d7 hno⟩
      · simp only [not_forall, not_not] at hno
        obtain ⟨rv, hrv⟩ := hno
        obtain ⟨es', hes, hF2, _⟩ := d8 rv hrv
        exact Or.inr ⟨rv, es', hrv, hes, hF2⟩
  · simp [loadRectangles, h, hdoc, List.flatMap_def]
  · rw [hmods, List.map_map, List.map_map]
    apply List.map_congr_left
    intro m0 _
    simp only [Function.comp]
    by_cases hr : m0.rects = []
    · rw [finalize_rects_nil hr]; simp [hr]
    · rw [finalize_rects_cons hr]; simp [hr]

/-- NETS: the loaded nets are the entries of the document's `Nets` list, in order (members and weight, 1 when absent);
    each has at least two pins, a positive weight, and names modules of the netlist. -/
theorem nets_of_document {t : YVal α} {n : Netlist α} {nets : List (YVal α)} (hd : HasNets t nets)
    (h : parseNetlist stog εA t = .ok n) :
    List.Forall₂ NetOfDoc nets n.nets ∧
    ∀ e ∈ n.nets, 2 ≤ e.members.length ∧ 0 < e.weight ∧ ∀ x ∈ e.members, ∃ m ∈ n.modules, m.name = x :=
  ⟨loaded_nets_doc hd h, fun e he => loaded_net_ok h he⟩

/-- a document without `Nets:` / without `Modules:` loads with no nets / no modules. -/
theorem missing_keys {t : YVal α} {n : Netlist α} (h : parseNetlist stog εA t = .ok n) :
    (NoRootKey t "Nets" → n.nets = []) ∧ (NoRootKey t "Modules" → n.modules = []) :=
  ⟨fun hd => loaded_no_nets hd h, fun hd => loaded_no_modules hd h⟩

/-- FIXED RECTANGLES at the level of the document: `fixed_rectangles()` filters the flat list (document order); what is
    left is, chunk by chunk, everything of the modules whose entry says `fixed: true` and nothing of the others. -/
theorem fixedRectangles_of_document {t : YVal α} {n : Netlist α} {mods : List (YVal α × YVal α)}
    (hd : HasModules t mods) (h : parseNetlist stog εA t = .ok n) :
    ∃ rss : List (List (NRect α)), loadRectangles stog εA t = .ok rss.flatten ∧
      fixedOf rss.flatten = (rss.map fixedOf).flatten ∧
      List.Forall₂ (fun (e : YVal α × YVal α) (rs0 : List (NRect α)) => ∃ k info, e = (k, YVal.map info) ∧
        (HasAttr info "fixed" (.bool true) → fixedOf rs0 = rs0) ∧
        (¬ HasAttr info "fixed" (.bool true) → fixedOf rs0 = [])) mods rss := by
  obtain ⟨ms, hF, hmods, es, hdoc⟩ := loaded_modules_doc hd h
  refine ⟨ms.map (·.rects), ?_, ?_, ?_⟩
  · simp [loadRectangles, h, hdoc, List.flatMap_def]
  · unfold fixedOf
    generalize ms.map (·.rects) = rss
    induction rss with
    | nil => rfl
    | cons x xs ih => simp only [List.flatten_cons, List.filter_append, List.map_cons, ih]
  · clear hmods hdoc hd
    induction hF with
    | nil => exact List.Forall₂.nil
    | @cons e m0 _ _ hpe _ ih =>
      refine List.Forall₂.cons ?_ ih
      obtain ⟨name, l, _, _, _, _, he1, _, he2, _⟩ := parseModule_ok hpe
      have hee : e = (e.1, YVal.map l) := Prod.ext rfl he2
      rw [hee] at hpe
      obtain ⟨_, _, _, d4, _, _, _, _, _, _⟩ := parseModule_doc hpe
      have hok := (parseModule_modOK hpe).1
      refine ⟨e.1, l, hee, ?_, ?_⟩
      · intro hf
        have hfx := d4.mpr hf
        unfold fixedOf
        exact List.filter_eq_self.mpr (fun r hr => by rw [(hok.rects_ok r hr).fixed_eq, hfx])
      · intro hnf
        have hfx : m0.fixed = false := by
          cases hc : m0.fixed with
          | false => rfl
          | true => exact absurd (d4.mp hc) hnf
        unfold fixedOf
        exact List.filter_eq_nil_iff.mpr (fun r hr => by rw [(hok.rects_ok r hr).fixed_eq, hfx]; simp)

/-- the names of a loaded netlist are distinct: "the module a net names" is one module. -/
theorem names_nodup {t : YVal α} {n : Netlist α} (h : parseNetlist stog εA t = .ok n) :
    (n.modules.map (·.name)).Nodup := by
  obtain ⟨ms, es, hd, _, hmods, _⟩ := parseNetlist_modules h
  rw [hmods, List.map_map]
  have : (ms.map ((fun m => m.name) ∘ finalize stog)) = ms.map (·.name) := by
    apply List.map_congr_left; intro m _; simp
  rw [this]
  exact (parseDoc_mods_ok hd).2.1

/-- every rectangle of a loaded module carries the module's `fixed` and `hard` flags. -/
theorem rectangle_flags (hp : StogPerm stog) {t : YVal α} {n : Netlist α} (h : parseNetlist stog εA t = .ok n)
    {m : NL.Mod α} (hm : m ∈ n.modules) {r : NRect α} (hr : r ∈ m.rects) : r.fixed = m.fixed ∧ r.hard = m.hard := by
  obtain ⟨m0, hok, rfl⟩ := loaded_mem h hm
  by_cases hr0 : m0.rects = []
  · rw [finalize_rects_nil hr0] at hr ⊢
    exact ⟨(hok.rects_ok r hr).fixed_eq, (hok.rects_ok r hr).hard_eq⟩
  · rw [finalize_rects_cons hr0] at hr ⊢
    simp only at hr ⊢
    obtain ⟨r0, hr0m, he⟩ := resetLoc_mem_of_perm hp hr
    have h1 : r.fixed = r0.fixed := by have := congrArg NRect.fixed he; exact this
    have h2 : r.hard = r0.hard := by have := congrArg NRect.hard he; exact this
    rw [h1, h2]
    exact ⟨(hok.rects_ok r0 hr0m).fixed_eq, (hok.rects_ok r0 hr0m).hard_eq⟩

/-- `fixed_rectangles()` = exactly the rectangles of the fixed modules. -/
theorem fixedRectangles_def (hp : StogPerm stog) {t : YVal α} {n : Netlist α} (h : parseNetlist stog εA t = .ok n) :
    n.fixedRectangles = (n.modules.filter (·.fixed)).flatMap (·.rects) := by
  unfold Netlist.fixedRectangles Netlist.rectangles fixedOf
  have key : ∀ ms : List (NL.Mod α), (∀ m ∈ ms, ∀ r ∈ m.rects, r.fixed = m.fixed) →
      (ms.flatMap (·.rects)).filter (·.fixed) = (ms.filter (·.fixed)).flatMap (·.rects) := by
    intro ms
    induction ms with
    | nil => intro _; rfl
    | cons m rest ih =>
      intro hall
      have hrest := ih (fun m' hm' => hall m' (List.mem_cons_of_mem _ hm'))
      have hm := hall m List.mem_cons_self
      simp only [List.flatMap_cons, List.filter_append, hrest]
      cases hf : m.fixed with
      | true =>
        simp only [List.filter_cons, hf, ↓reduceIte, List.flatMap_cons]
        congr 1
        exact List.filter_eq_self.mpr (fun r hr => by rw [hm r hr, hf])
      | false =>
        simp only [List.filter_cons, hf, Bool.false_eq_true, ↓reduceIte]
        have : m.rects.filter (·.fixed) = [] := List.filter_eq_nil_iff.mpr (fun r hr => by rw [hm r hr, hf]; simp)
        rw [this]; rfl
  exact key n.modules (fun m hm r hr => (rectangle_flags hp h hm hr).1)

/-- the same for the flat list in document order (`Netlist.rectangles` as stored). -/
theorem fixedRectangles_def_flat {t : YVal α} {ms : List (NL.Mod α)} {es : List (Net α)} (h : parseDoc t = .ok (ms, es)) :
    fixedOf (ms.flatMap (·.rects)) = (ms.filter (·.fixed)).flatMap (·.rects) := by
  have hall : ∀ m ∈ ms, ∀ r ∈ m.rects, r.fixed = m.fixed := by
    intro m hm r hr
    obtain ⟨e, he⟩ := (parseDoc_mods_ok h).1 m hm
    exact ((parseModule_modOK he).1.rects_ok r hr).fixed_eq
  unfold fixedOf
  clear h
  induction ms with
  | nil => rfl
  | cons m rest ih =>
    have hrest := ih (fun m' hm' => hall m' (List.mem_cons_of_mem _ hm'))
    have hm := hall m List.mem_cons_self
    simp only [List.flatMap_cons, List.filter_append, hrest]
    cases hf : m.fixed with
    | true =>
      simp only [List.filter_cons, hf, ↓reduceIte, List.flatMap_cons]
      congr 1
      exact List.filter_eq_self.mpr (fun r hr => by rw [hm r hr, hf])
    | false =>
      simp only [List.filter_cons, hf, Bool.false_eq_true, ↓reduceIte]
      have : m.rects.filter (·.fixed) = [] := List.filter_eq_nil_iff.mpr (fun r hr => by rw [hm r hr, hf]; simp)
      rw [this]; rfl


/-! ### the same with the C06 model of `create_stog` as the STOG step (no assumption left about it) -/

theorem area_def_hard_createStog (ε : α) {t : YVal α} {n : Netlist α}
    (h : parseNetlist (stogC06 ε εA) εA t = .ok n) {m : NL.Mod α} (hm : m ∈ n.modules) (hh : m.hard = true) :
    m.areaRegions = [("_", (m.rects.map NRect.area).sum)] ∧ m.area = (m.rects.map NRect.area).sum :=
  area_def_hard (stogPerm_stogC06 ε εA) h hm hh

theorem area_def_terminal_createStog (ε : α) {t : YVal α} {n : Netlist α}
    (h : parseNetlist (stogC06 ε εA) εA t = .ok n) {m : NL.Mod α} (hm : m ∈ n.modules) (ht : m.terminal = true)
    (hr : m.rects = []) : m.area = 0 :=
  area_def_terminal (stogPerm_stogC06 ε εA) h hm ht hr

theorem center_def_createStog (ε : α) {t : YVal α} {n : Netlist α}
    (h : parseNetlist (stogC06 ε εA) εA t = .ok n) {m : NL.Mod α} (hm : m ∈ n.modules) (hr : m.rects ≠ []) :
    m.center = some ((m.rects.map fun r => r.area * r.cx.val).sum / (m.rects.map NRect.area).sum,
                     (m.rects.map fun r => r.area * r.cy.val).sum / (m.rects.map NRect.area).sum) :=
  center_def (stogPerm_stogC06 ε εA) h hm hr

theorem rectangles_perm_createStog (ε : α) {t : YVal α} {n : Netlist α}
    (h : parseNetlist (stogC06 ε εA) εA t = .ok n) :
    ∃ ms es, parseDoc t = .ok (ms, es) ∧
      List.Forall₂ (fun (m : NL.Mod α) (m0 : NL.Mod α) => m.name = m0.name ∧
        (m.rects.map NRect.resetLoc).Perm (m0.rects.map NRect.resetLoc)) n.modules ms :=
  rectangles_perm (stogPerm_stogC06 ε εA) h

theorem rectangle_flags_createStog (ε : α) {t : YVal α} {n : Netlist α}
    (h : parseNetlist (stogC06 ε εA) εA t = .ok n) {m : NL.Mod α} (hm : m ∈ n.modules) {r : NRect α}
    (hr : r ∈ m.rects) : r.fixed = m.fixed ∧ r.hard = m.hard :=
  rectangle_flags (stogPerm_stogC06 ε εA) h hm hr

theorem fixedRectangles_def_createStog (ε : α) {t : YVal α} {n : Netlist α}
    (h : parseNetlist (stogC06 ε εA) εA t = .ok n) :
    n.fixedRectangles = (n.modules.filter (·.fixed)).flatMap (·.rects) :=
  fixedRectangles_def (stogPerm_stogC06 ε εA) h

/-- `HyperEdge.wire_length`: the weight times the sum of the distances from the member centres to their mean. -/
theorem netWireLength_def (sqrt : α → α) (cs : List (α × α)) (w : α) :
    netWireLength sqrt cs w =
      w * (cs.map fun c =>
        sqrt (((cs.map (·.1)).sum / (cs.length : α) - c.1) ^ 2 + ((cs.map (·.2)).sum / (cs.length : α) - c.2) ^ 2)).sum := by
  unfold netWireLength
  have hs : ∀ (l : List (α × α)) (a b : α),
      l.foldl (fun (acc : α × α) c => (acc.1 + c.1, acc.2 + c.2)) (a, b) = (a + (l.map (·.1)).sum, b + (l.map (·.2)).sum) := by
    intro l
    induction l with
    | nil => intro a b; simp
    | cons c cs ih => intro a b; simp [ih, add_assoc]
  simp only [hs, zero_eq, zero_add]
  rw [foldl_add_eq (fun c => sqrt _) cs 0, zero_add, mul_comm]
  refine congrArg (fun l => w * List.sum l) (List.map_congr_left (fun c _ => ?_))
  congr 1
  ring

/-- centres of the members of a net (empty when some member has none: then `wire_length` raises). -/
def netCenters (n : Netlist α) (e : Net α) : List (α × α) := (centersOf n e.members).getD []

/-- `Netlist.wire_length`: the sum over the nets of their wire lengths; defined iff every member has a centre. -/
theorem wireLength_def (sqrt : α → α) (n : Netlist α) :
    (n.wireLength sqrt = none ↔ ∃ e ∈ n.nets, centersOf n e.members = none) ∧
    ∀ w, n.wireLength sqrt = some w →
      w = (n.nets.map fun e => netWireLength sqrt (netCenters n e) e.weight).sum := by
  unfold Netlist.wireLength
  have key : ∀ (nets : List (Net α)) (a : α),
      (nets.foldl (fun acc e =>
        match acc, centersOf n e.members with
        | some a, some cs => some (a + netWireLength sqrt cs e.weight)
        | _, _ => none) (some a) = none ↔ ∃ e ∈ nets, centersOf n e.members = none) ∧
      ∀ w, nets.foldl (fun acc e =>
        match acc, centersOf n e.members with
        | some a, some cs => some (a + netWireLength sqrt cs e.weight)
        | _, _ => none) (some a) = some w →
        w = a + (nets.map fun e => netWireLength sqrt (netCenters n e) e.weight).sum := by
    intro nets
    induction nets with
    | nil => intro a; simp
    | cons e rest ih =>
      intro a
      simp only [List.foldl_cons, List.mem_cons, exists_eq_or_imp, List.map_cons, List.sum_cons]
      cases hc : centersOf n e.members with
      | none =>
        have hnone : ∀ l : List (Net α), l.foldl (fun acc e =>
            match acc, centersOf n e.members with
            | some a, some cs => some (a + netWireLength sqrt cs e.weight)
            | _, _ => none) (none : Option α) = none := by
          intro l; induction l with
          | nil => rfl
          | cons x xs ihx => simpa using ihx
        simp [hnone]
      | some cs =>
        simp only [reduceCtorEq, false_or]
        obtain ⟨i1, i2⟩ := ih (a + netWireLength sqrt cs e.weight)
        refine ⟨i1, ?_⟩
        intro w hw
        rw [i2 w hw]
        simp [netCenters, hc, add_assoc]
  obtain ⟨k1, k2⟩ := key n.nets 0
  simp only [zero_eq]
  refine ⟨k1, ?_⟩
  intro w hw
  have := k2 w hw
  simpa using this

/-- WIRE LENGTH of a LOADED netlist: the sum over its nets of weight × Σ over the members' centres of the distance to
    their mean; the centres are those of the modules the net names, there are at least two of them (the divisor of the
    mean is ≥ 2) and the weight is positive. -/
theorem wireLength_loaded (sqrt : α → α) {t : YVal α} {n : Netlist α} (h : parseNetlist stog εA t = .ok n) (w : α)
    (hw : n.wireLength sqrt = some w) :
    w = (n.nets.map fun e => e.weight * ((netCenters n e).map fun c =>
          sqrt ((((netCenters n e).map (·.1)).sum / ((netCenters n e).length : α) - c.1) ^ 2 +
                (((netCenters n e).map (·.2)).sum / ((netCenters n e).length : α) - c.2) ^ 2)).sum).sum ∧
    ∀ e ∈ n.nets, List.Forall₂ (fun x c => ∃ m ∈ n.modules, m.name = x ∧ m.center = some c) e.members (netCenters n e) ∧
      2 ≤ (netCenters n e).length ∧ 0 < e.weight := by
  obtain ⟨k1, k2⟩ := wireLength_def sqrt n
  refine ⟨?_, ?_⟩
  · rw [k2 w hw]
    congr 1
    apply List.map_congr_left
    intro e _
    exact netWireLength_def sqrt _ _
  · intro e he
    have hsome : ∃ cs, centersOf n e.members = some cs := by
      cases hc : centersOf n e.members with
      | some cs => exact ⟨cs, rfl⟩
      | none =>
        have := k1.mpr ⟨e, he, hc⟩
        rw [this] at hw; cases hw
    obtain ⟨cs, hcs⟩ := hsome
    have hnc : netCenters n e = cs := by simp [netCenters, hcs]
    have hF := centersOf_some hcs
    obtain ⟨h2, hpos, _⟩ := loaded_net_ok h he
    rw [hnc]
    exact ⟨hF, by rw [← hF.length_eq]; exact h2, hpos⟩

/-- the wire length of a loaded netlist is undefined (the implementation raises) only if some net names a module that
    has no centre. -/
theorem wireLength_none_loaded (sqrt : α → α) {t : YVal α} {n : Netlist α} (h : parseNetlist stog εA t = .ok n)
    (hw : n.wireLength sqrt = none) :
    ∃ e ∈ n.nets, ∃ x ∈ e.members, ∃ m ∈ n.modules, m.name = x ∧ m.center = none := by
  obtain ⟨e, he, hc⟩ := (wireLength_def sqrt n).1.mp hw
  obtain ⟨x, hx, hcase⟩ := centersOf_none hc
  refine ⟨e, he, x, hx, ?_⟩
  rcases hcase with hf | ⟨m, hf, hcn⟩
  · obtain ⟨m, hm, hname⟩ := (loaded_net_ok h he).2.2 x hx
    have := List.find?_eq_none.mp hf m hm
    simp [hname] at this
  · refine ⟨m, List.mem_of_find?_eq_some hf, ?_, hcn⟩
    have := List.find?_some hf
    simpa using this


/-- the centre the DOCUMENT gives a module entry: the area-weighted centroid of the rectangles its `rectangles:` entries
    describe (whatever `center:` says), else the point its `center:` denotes. -/
def DocCenter (info : List (YVal α × YVal α)) (c : α × α) : Prop :=
  (∃ rv es rs0, HasAttr info "rectangles" rv ∧ rectEntries rv = some es ∧ List.Forall₂ EntryRect es rs0 ∧
      c = ((rs0.map fun r => r.area * r.cx.val).sum / (rs0.map NRect.area).sum,
           (rs0.map fun r => r.area * r.cy.val).sum / (rs0.map NRect.area).sum)) ∨
  (NoAttr info "rectangles" ∧ ∃ cv, HasAttr info "center" cv ∧ CenterOfDoc cv c)

/-- the centre of a loaded module is the centre its document entry gives (`DocCenter`). -/
theorem center_of_document {t : YVal α} {n : Netlist α} {mods : List (YVal α × YVal α)} (hd : HasModules t mods)
    (h : parseNetlist stog εA t = .ok n) {m : NL.Mod α} (hm : m ∈ n.modules) {c : α × α} (hc : m.center = some c) :
    ∃ info, (YVal.str m.name, YVal.map info) ∈ mods ∧ DocCenter info c := by
  obtain ⟨e, he, info, rfl, hdoc⟩ := forall₂_mem_right (modules_of_document hd h) hm
  refine ⟨info, he, ?_⟩
  by_cases hr : ∃ rv, HasAttr info "rectangles" rv
  · obtain ⟨rv, hrv⟩ := hr
    obtain ⟨es, rs0, hes, hF, _, _, hcen, _⟩ := hdoc.rects rv hrv
    rw [hc] at hcen
    exact Or.inl ⟨rv, es, rs0, hrv, hes, hF, Option.some.inj hcen⟩
  · have hno : NoAttr info "rectangles" := fun v hv => hr ⟨v, hv⟩
    obtain ⟨_, h1, h2⟩ := hdoc.no_rects hno
    refine Or.inr ⟨hno, ?_⟩
    by_cases hcv : ∃ cv, HasAttr info "center" cv
    · obtain ⟨cv, hcv⟩ := hcv
      obtain ⟨c', hc', hmc⟩ := h1 cv hcv
      rw [hc] at hmc
      cases hmc
      exact ⟨cv, hcv, hc'⟩
    · have := h2 (fun v hv => hcv ⟨v, hv⟩)
      rw [hc] at this; cases this

/-- a module WITHOUT rectangles keeps the centre of its document entry: the point `center:` denotes, none when the
    entry has no `center:` (this is the content `center_def_no_rects` only hints at). -/
theorem center_def_no_rects_of_document {t : YVal α} {n : Netlist α} {mods : List (YVal α × YVal α)}
    (hd : HasModules t mods) (h : parseNetlist stog εA t = .ok n) :
    List.Forall₂ (fun (e : YVal α × YVal α) (m : NL.Mod α) => ∃ info, e = (YVal.str m.name, YVal.map info) ∧
      (NoAttr info "rectangles" → m.rects = [] ∧
        (∀ cv, HasAttr info "center" cv → ∃ c, CenterOfDoc cv c ∧ m.center = some c) ∧
        (NoAttr info "center" → m.center = none))) mods n.modules :=
  (modules_of_document hd h).imp fun _ _ ⟨info, he, hdoc⟩ => ⟨info, he, hdoc.no_rects⟩

/-- WIRE LENGTH at the level of the DOCUMENT: the sum over the nets of weight × Σ over the members of the distance from
    the member's centre to the mean of the members' centres, where the centre of a member is the one the `Modules` entry
    of that name gives (`DocCenter`: centroid of its rectangle entries, else its `center:`); `nets_of_document` ties the
    nets (members, weight) to the `Nets` entries. -/
theorem wireLength_of_document (sqrt : α → α) {t : YVal α} {n : Netlist α} {mods : List (YVal α × YVal α)}
    (hd : HasModules t mods) (h : parseNetlist stog εA t = .ok n) (w : α) (hw : n.wireLength sqrt = some w) :
    ∃ css : List (List (α × α)),
      List.Forall₂ (fun (e : Net α) (cs : List (α × α)) =>
        List.Forall₂ (fun x c => ∃ info, (YVal.str x, YVal.map info) ∈ mods ∧ DocCenter info c) e.members cs ∧
        2 ≤ cs.length ∧ 0 < e.weight) n.nets css ∧
      w = ((n.nets.zip css).map fun p => p.1.weight * (p.2.map fun c =>
            sqrt (((p.2.map (·.1)).sum / (p.2.length : α) - c.1) ^ 2 +
                  ((p.2.map (·.2)).sum / (p.2.length : α) - c.2) ^ 2)).sum).sum := by
  obtain ⟨hsum, hall⟩ := wireLength_loaded sqrt h w hw
  refine ⟨n.nets.map (netCenters n), forall₂_self_map _ _ ?_, ?_⟩
  · intro e he
    obtain ⟨hF, h2, hpos⟩ := hall e he
    refine ⟨hF.imp ?_, h2, hpos⟩
    rintro x c ⟨m, hm, rfl, hc⟩
    exact center_of_document hd h hm hc
  · rw [zip_self_map]; exact hsum

/-- the names of the `Modules` entries are distinct: "the entry of that name" is one entry. -/
theorem module_entry_unique {t : YVal α} {n : Netlist α} {mods : List (YVal α × YVal α)} (hd : HasModules t mods)
    (h : parseNetlist stog εA t = .ok n) : (mods.map (·.1)).Nodup := by
  have hF := modules_of_document hd h
  have hn := names_nodup h
  have key : ∀ (l1 : List (YVal α × YVal α)) (l2 : List (NL.Mod α)),
      List.Forall₂ (fun (e : YVal α × YVal α) (m : NL.Mod α) => ∃ info, e = (YVal.str m.name, YVal.map info) ∧
        ModuleOfDoc stog info m) l1 l2 → l1.map (·.1) = l2.map fun m => YVal.str m.name := by
    intro l1 l2 hF
    induction hF with
    | nil => rfl
    | @cons e m _ _ hem _ ih =>
      obtain ⟨info, rfl, _⟩ := hem
      simp only [List.map_cons, ih]
  rw [key _ _ hF]
  have h2 : ((n.modules.map (·.name)).map (YVal.str (α := α))).Nodup :=
    hn.map (fun a b hab => by injection hab)
  rw [List.map_map] at h2
  exact h2

/-! ## Part 2: ill-formed designs are rejected

`HasModules t mods`: `t` is a root dictionary with `Modules: mods` (a dictionary); `HasNets t nets`: … with `Nets: nets`
(a list); `NoRootKey t key`: … without that key.  Only the key a defect lives under has to be present (a document
without `Nets:` is well formed).
A module entry is a pair `(name, .map info)` in `mods`; its attribute `key: v` is the pair `(.str key, v)` in `info`.
The defect may sit in any module / net / attribute / rectangle of the document. -/

/-- the module is declared hard: `fixed: true` or `hard: true`. -/
def DeclaredHard (info : List (YVal α × YVal α)) : Prop :=
  HasAttr info "fixed" (.bool true) ∨ HasAttr info "hard" (.bool true)

/-- (1) a net names a module that the `Modules` dictionary does not define (or there is no `Modules` key at all). -/
def UnknownModuleInNet (t : YVal α) : Prop :=
  ∃ nets, HasNets t nets ∧ ∃ l x, YVal.seq l ∈ nets ∧ YVal.str x ∈ l ∧
    (NoRootKey t "Modules" ∨ ∃ mods, HasModules t mods ∧ ∀ info, (YVal.str x, info) ∉ mods)

theorem reject_unknown_module {t : YVal α} (h : UnknownModuleInNet t) :
    ∃ err, parseNetlist stog εA t = .error err := by
  obtain ⟨nets, hd, l, x, hy, hx, hno⟩ := h
  apply error_of_not_ok
  intro n hn
  obtain ⟨ms, es, hdoc, hee, hf⟩ := loaded_nets hd hn
  obtain ⟨e, hemem, he⟩ := mapE_ok_mem hee hy
  have hxm := parseEdge_member he hx
  obtain ⟨hmods, hnets⟩ := finish_modules hf
  obtain ⟨_, _, _, _, _, hres⟩ := finish_ok hf
  rw [hnets] at hres
  obtain ⟨e', _, hr⟩ := mapE_ok_mem hres hemem
  have hxn := (resolveNet_ok hr).2.1 x hxm
  rcases hno with hnom | ⟨mods, hdm, hno⟩
  · rw [loaded_no_modules hnom hn] at hxn
    simp at hxn
  · obtain ⟨ms', es', hdoc', hmm, _⟩ := loaded_modules hdm hn
    rw [hdoc] at hdoc'
    cases hdoc'
    rw [hmods, List.map_map] at hxn
    obtain ⟨m, hm, hname⟩ := List.mem_map.mp hxn
    simp only [Function.comp, finalize_name] at hname
    obtain ⟨entry, hentry, hpe⟩ := mapE_ok_mem' hmm hm
    have := (parseModule_modOK hpe).2
    apply hno entry.2
    have hentry' : entry = (YVal.str x, entry.2) := Prod.ext (by rw [this, hname]) rfl
    rw [← hentry']; exact hentry

/-- (2) a net ends with a number (its weight) that is not positive (`0`, negative, `false`). -/
def NonPositiveWeight (t : YVal α) : Prop :=
  ∃ nets, HasNets t nets ∧ ∃ l w nw, YVal.seq (l ++ [w]) ∈ nets ∧ w.num? = some nw ∧ nw.val ≤ 0

theorem reject_nonpositive_weight {t : YVal α} (h : NonPositiveWeight t) :
    ∃ err, parseNetlist stog εA t = .error err := by
  obtain ⟨nets, hd, l, w, nw, hy, hw, hle⟩ := h
  apply error_of_not_ok
  intro n hn
  obtain ⟨ms, es, _, hee, hf⟩ := loaded_nets hd hn
  obtain ⟨e, hemem, he⟩ := mapE_ok_mem hee hy
  obtain ⟨hmods, hnets⟩ := finish_modules hf
  obtain ⟨_, _, _, _, _, hres⟩ := finish_ok hf
  rw [hnets] at hres
  obtain ⟨e', _, hr⟩ := mapE_ok_mem hres hemem
  have hpos := (resolveNet_ok hr).2.2
  obtain ⟨_, hc⟩ := parseEdge_ok he
  rcases hc with ⟨w', heq, hwt⟩ | ⟨heq, _⟩
  · have h1 : l ++ [w] = e.members.map YVal.str ++ [YVal.ofNum w'] := by injection heq
    have h2 : [w] = [YVal.ofNum w'] := List.append_inj_right' h1 rfl
    have h3 : w = YVal.ofNum w' := by injection h2
    rw [h3, YVal.num?_ofNum] at hw
    cases hw
    rw [hwt] at hpos
    exact absurd hpos (not_lt.mpr hle)
  · have h1 : l ++ [w] = e.members.map YVal.str := by injection heq
    have : w ∈ e.members.map YVal.str := by rw [← h1]; simp
    obtain ⟨y, _, hyw⟩ := List.mem_map.mp this
    rw [← hyw] at hw
    simp [YVal.num?] at hw

/-- an `area` value with a non-positive number in it: the scalar itself or some entry of the region dictionary. -/
def BadAreaValue (v : YVal α) : Prop :=
  (∃ nv, v.num? = some nv ∧ nv.val ≤ 0) ∨
  (∃ entries key a na, v = .map entries ∧ (key, a) ∈ entries ∧ a.num? = some na ∧ na.val ≤ 0)

/-- (3) some module has an area that is not positive. -/
def NonPositiveArea (t : YVal α) : Prop :=
  ∃ mods, HasModules t mods ∧ ∃ k info v, (k, YVal.map info) ∈ mods ∧ HasAttr info "area" v ∧ BadAreaValue v

theorem reject_nonpositive_area {t : YVal α} (h : NonPositiveArea t) :
    ∃ err, parseNetlist stog εA t = .error err := by
  obtain ⟨mods, hd, k, info, v, hmem, hattr, hbad⟩ := h
  refine reject_module' hd hmem ?_
  intro m hm
  obtain ⟨kvs, ps, s, rects, hk, hnd, hp, hc, _, _⟩ := parseModule_info hm
  obtain ⟨c1, _, c3, _, _⟩ := params_of_doc hk hnd hp
  obtain ⟨p, hpm, hmk⟩ := c1 AttrKind.area v (by decide) hattr
  simp [mkParam] at hmk; subst hmk
  have hra := ctor_area hc c3 hpm
  obtain ⟨a1, _, a3⟩ := readRegionArea_ok hra
  rcases hbad with ⟨nv, hnv, hle⟩ | ⟨entries, key, a, na, hv, hkm, hna, hle⟩
  · rcases a3 with ⟨n', hvn, hregs⟩ | ⟨l', hvl, _⟩
    · rw [hvn, YVal.num?_ofNum] at hnv; cases hnv
      have := (a1 ("_", nv.val) (by rw [hregs]; simp)).2
      exact absurd this (not_lt.mpr hle)
    · rw [hvl] at hnv; simp [YVal.num?] at hnv
  · rcases a3 with ⟨n', hvn, _⟩ | ⟨l', hvl, hmr⟩
    · rw [hv] at hvn; cases n' <;> cases hvn
    · rw [hv] at hvl; cases hvl
      obtain ⟨pr, _, hrr⟩ := mapE_ok_mem hmr hkm
      obtain ⟨_, hpos, n', hke, hval⟩ := readRegion_ok hrr
      have : a = YVal.ofNum n' := (Prod.ext_iff.mp hke).2
      rw [this, YVal.num?_ofNum] at hna; cases hna
      rw [hval] at hle
      exact absurd hpos (not_lt.mpr hle)

/-- (4) a soft module (no `terminal`, every `fixed` / `hard` attribute `false`) without `area`. -/
def SoftWithoutArea (t : YVal α) : Prop :=
  ∃ mods, HasModules t mods ∧ ∃ k info, (k, YVal.map info) ∈ mods ∧ NoAttr info "area" ∧
    NoAttr info "terminal" ∧ (∀ v, HasAttr info "fixed" v → v = .bool false) ∧
    (∀ v, HasAttr info "hard" v → v = .bool false)

theorem reject_soft_without_area {t : YVal α} (h : SoftWithoutArea t) :
    ∃ err, parseNetlist stog εA t = .error err := by
  obtain ⟨mods, hd, k, info, hmem, hnoa, hnot, hfx, hhd⟩ := h
  refine reject_module' hd hmem ?_
  intro m hm
  obtain ⟨kvs, ps, s, rects, hk, hnd, hp, hc, _, hs⟩ := parseModule_info hm
  obtain ⟨_, c2, _, _, _⟩ := params_of_doc hk hnd hp
  have hsoft : s.hard = false := by
    apply ctor_hard_false hc
    intro p hpm
    obtain ⟨v, hv, hmk⟩ := c2 p hpm
    refine ⟨?_, ?_⟩
    · intro v' hor
      rcases hor with rfl | rfl
      · simp [Param.kind, mkParam] at hmk; subst hmk; exact hfx v hv
      · simp [Param.kind, mkParam] at hmk; subst hmk; exact hhd v hv
    · intro v' hpt; subst hpt
      exact hnot v hv
  have harea : s.area = [] := by
    apply (ctor_inv hc).area_dflt
    intro hin
    obtain ⟨p, hpm, hpk⟩ := List.mem_map.mp hin
    obtain ⟨v, hv, _⟩ := c2 p hpm
    rw [hpk] at hv
    exact hnoa v hv
  exact (setup_ok hs).2.2.1 hsoft harea

/-- (5) a module declared hard (or a terminal) that specifies an `area` (other than the empty dictionary, which the
    reader treats as "no area"). -/
def HardWithArea (t : YVal α) : Prop :=
  ∃ mods, HasModules t mods ∧ ∃ k info v, (k, YVal.map info) ∈ mods ∧ HasAttr info "area" v ∧ v ≠ .map [] ∧
    (DeclaredHard info ∨ ∃ v', HasAttr info "terminal" v')

theorem reject_hard_with_area {t : YVal α} (h : HardWithArea t) :
    ∃ err, parseNetlist stog εA t = .error err := by
  obtain ⟨mods, hd, k, info, v, hmem, hattr, hne, hhard⟩ := h
  refine reject_module' hd hmem ?_
  intro m hm
  obtain ⟨kvs, ps, s, rects, hk, hnd, hp, hc, _, hs⟩ := parseModule_info hm
  obtain ⟨c1, _, c3, _, _⟩ := params_of_doc hk hnd hp
  obtain ⟨p, hpm, hmk⟩ := c1 AttrKind.area v (by decide) hattr
  simp [mkParam] at hmk; subst hmk
  rcases hhard with hdecl | ⟨v', hterm⟩
  · have hh : s.hard = true := by
      apply ctor_hard_true hc c3
      rcases hdecl with hf | hh
      · obtain ⟨p, hpm', hmk'⟩ := c1 AttrKind.fixed _ (by decide) hf
        simp [mkParam] at hmk'; subst hmk'; exact Or.inl hpm'
      · obtain ⟨p, hpm', hmk'⟩ := c1 AttrKind.hard _ (by decide) hh
        simp [mkParam] at hmk'; subst hmk'; exact Or.inr hpm'
    have hra := ctor_area hc c3 hpm
    exact readRegionArea_ne_nil hra hne ((setup_ok hs).2.2.2.2.1 hh).1
  · obtain ⟨p, hpm', hmk'⟩ := c1 AttrKind.terminal v' (by decide) hterm
    simp [mkParam] at hmk'; subst hmk'
    obtain ⟨a, b, hab⟩ := foldlE_step_ok (ctor_ok hc).1 hpm'
    have hex : ∃ a ∈ ps, a.kind = AttrKind.area := ⟨_, hpm, rfl⟩
    simp [ctorStep, hex] at hab

/-- (6) a module declared hard, not a terminal (no `terminal` attribute, or `terminal: false`), without `rectangles`. -/
def HardWithoutRectangles (t : YVal α) : Prop :=
  ∃ mods, HasModules t mods ∧ ∃ k info, (k, YVal.map info) ∈ mods ∧ DeclaredHard info ∧
    (∀ v, HasAttr info "terminal" v → v = .bool false) ∧ NoAttr info "rectangles"

theorem reject_hard_without_rectangles {t : YVal α} (h : HardWithoutRectangles t) :
    ∃ err, parseNetlist stog εA t = .error err := by
  obtain ⟨mods, hd, k, info, hmem, hdecl, hnot, hnor⟩ := h
  refine reject_module' hd hmem ?_
  intro m hm
  obtain ⟨kvs, ps, s, rects, hk, hnd, hp, hc, hr, hs⟩ := parseModule_info hm
  obtain ⟨hh, ht⟩ := declared_hard_nonterminal hk hnd hp hc hdecl hnot
  obtain ⟨_, _, _, _, c5⟩ := params_of_doc hk hnd hp
  have hnone := c5 hnor
  have hrects : rects = [] := by
    rcases hr with ⟨_, h2⟩ | ⟨v, h1, _⟩
    · exact h2
    · rw [hnone] at h1; cases h1
  obtain ⟨_, _, _, h4⟩ := (setup_ok hs).2.2.2.2.1 hh
  rcases h4 with h4 | h4
  · rw [ht] at h4; cases h4
  · exact h4 hrects

/-- (7) a module declared hard, not a terminal (no `terminal` attribute, or `terminal: false`), two of whose rectangles overlap by more than the tolerance `εA`. -/
def HardWithOverlap (εA : α) (t : YVal α) : Prop :=
  ∃ mods, HasModules t mods ∧ ∃ k info, (k, YVal.map info) ∈ mods ∧ DeclaredHard info ∧
    (∀ v, HasAttr info "terminal" v → v = .bool false) ∧ ∃ rv es ea eb ra rb, HasAttr info "rectangles" rv ∧ rectEntries rv = some es ∧
      [ea, eb].Sublist es ∧ entryRect ea = some ra ∧ entryRect eb = some rb ∧ εA < ra.areaOverlap rb

theorem reject_hard_overlap {t : YVal α} (h : HardWithOverlap εA t) :
    ∃ err, parseNetlist stog εA t = .error err := by
  obtain ⟨mods, hd, k, info, hmem, hdecl, hnot, rv, es, ea, eb, ra, rb, hattr, hes, hsub, hra, hrb, hov⟩ := h
  apply error_of_not_ok
  intro n hn
  obtain ⟨ms, es', _, hmm, hf⟩ := loaded_modules hd hn
  obtain ⟨m, hmin, hm⟩ := mapE_ok_mem hmm hmem
  obtain ⟨kvs, ps, s, rects, hk, hnd, hp, hc, hr, hs⟩ := parseModule_info hm
  obtain ⟨hh, ht⟩ := declared_hard_nonterminal hk hnd hp hc hdecl hnot
  obtain ⟨_, _, _, c4, _⟩ := params_of_doc hk hnd hp
  have hsome := c4 rv hattr
  have hpr : parseRects s.fixed s.hard rv = .ok rects := by
    rcases hr with ⟨h1, _⟩ | ⟨v, h1, h2⟩
    · rw [hsome] at h1; cases h1
    · rw [hsome] at h1; cases h1; exact h2
  obtain ⟨es2, hes2, hme, _⟩ := parseRects_ok hpr
  rw [hes] at hes2; cases hes2
  obtain ⟨qa, qb, hsubq, hpa, hpb⟩ := sublist_pair_forall₂ ((mapE_ok_iff _ _ _).mp hme) hsub
  -- the module as `setup` built it
  have hmeq := (setup_ok hs).2.2.2.2.2
  have hmh : m.hard = true := by rw [hmeq]; exact hh
  have hmt : m.terminal = false := by rw [hmeq]; exact ht
  have hmr : m.rects = rects := by rw [hmeq]
  -- the overlap check of `_create_rectangles`
  obtain ⟨ms1, hprep, hcheck, _, _, _⟩ := finish_ok hf
  obtain ⟨m1, hm1, hpm1⟩ := mapE_ok_mem hprep hmin
  have hm1eq := (prepModule_ok hpm1).1
  have hm1h : m1.hard = true := by rw [hm1eq]; unfold withCentroid; split <;> simp [hmh]
  have hm1t : m1.terminal = false := by rw [hm1eq]; unfold withCentroid; split <;> simp [hmt]
  have hm1r : m1.rects = rects := by rw [hm1eq]; unfold withCentroid; split <;> simp [hmr]
  have hno := hcheck m1 hm1 hm1h hm1t
  rw [hm1r] at hno
  unfold noOverlap at hno
  rw [pairsAll_iff] at hno
  have hpair := hno.sublist hsubq
  simp only [List.pairwise_cons, List.mem_singleton, forall_eq, Bool.not_eq_eq_eq_not, Bool.not_true] at hpair
  have hfalse := hpair.1
  unfold Rect.overlap at hfalse
  simp only [decide_eq_false_iff_not, not_lt] at hfalse
  obtain ⟨a1, a2, a3, a4⟩ := entryRect_of_parse hpa hra
  obtain ⟨b1, b2, b3, b4⟩ := entryRect_of_parse hpb hrb
  rw [areaOverlap_geom a1 a2 a3 a4 b1 b2 b3 b4] at hov
  exact absurd hov (not_lt.mpr hfalse)

/-- FRESH PROCESS: when no tolerance is defined the netlist installs the one it proposes, `defaultEps` =
    (`d·1e-12`, `sqrt(d·1e-12)`) with `d` the smallest rectangle side / square root of a positive module area; a hard
    module whose rectangles overlap by more than THAT area tolerance is rejected (`loadFresh` = `Netlist(tree)` with the
    tolerance undefined). -/
theorem reject_hard_overlap_fresh (sqrt : α → α) (tiny : α) (stogOf : α → α → List (NRect α) → List (NRect α))
    {t : YVal α} {ms : List (NL.Mod α)} {es : List (Net α)} {ε εA' : α} (hdoc : parseDoc t = .ok (ms, es))
    (heps : defaultEps sqrt tiny ms = some (ε, εA')) (h : HardWithOverlap εA' t) :
    ∃ err, loadFresh sqrt tiny stogOf t = .error err := by
  have hl : loadFresh sqrt tiny stogOf t = parseNetlist (stogOf ε εA') εA' t := by
    simp [loadFresh, parseNetlist, hdoc, heps]
  rw [hl]
  exact reject_hard_overlap h

/-- the proposed tolerance in terms of the smallest dimension. -/
theorem defaultEps_def (sqrt : α → α) (tiny : α) (ms : List (NL.Mod α)) :
    defaultEps sqrt tiny ms = (smallestDistance sqrt ms).map fun d => (d * tiny, sqrt (d * tiny)) := by
  unfold defaultEps; cases smallestDistance sqrt ms <;> rfl


/-- the proposed tolerance is built on a lower bound of every rectangle side and of the square root of every positive
    module area (`smallest_distance`). -/
theorem smallestDistance_bound (sqrt : α → α) (ms : List (NL.Mod α)) (d : α) (h : smallestDistance sqrt ms = some d) :
    (∀ m ∈ ms, ∀ r ∈ m.rects, d ≤ r.w.val ∧ d ≤ r.h.val) ∧ (∀ m ∈ ms, 0 < m.area → d ≤ sqrt m.area) :=
  smallestDistance_le sqrt ms d h

/-- (8) a module has an attribute that is not one of the eight keywords. -/
def UnknownAttribute (t : YVal α) : Prop :=
  ∃ mods, HasModules t mods ∧ ∃ k info key v, (k, YVal.map info) ∈ mods ∧ (key, v) ∈ info ∧
    ∀ kd, key ≠ YVal.str (kindName kd)

theorem reject_unknown_attribute {t : YVal α} (h : UnknownAttribute t) :
    ∃ err, parseNetlist stog εA t = .error err := by
  obtain ⟨mods, hd, k, info, key, v, hmem, hkv, hunk⟩ := h
  refine reject_module' hd hmem ?_
  intro m hm
  obtain ⟨kvs, ps, s, rects, hk, _, _, _, _, _⟩ := parseModule_info hm
  obtain ⟨y, _, hy⟩ := mapE_ok_mem hk hkv
  exact hunk y.1 (classify_ok (k := y.1) (v := y.2) hy).2

/-- (8') the root dictionary has a key other than `Modules` and `Nets`. -/
def UnknownRootKey (t : YVal α) : Prop :=
  ∃ l key v, t = .map l ∧ (key, v) ∈ l ∧ key ≠ YVal.str "Modules" ∧ key ≠ YVal.str "Nets"

theorem reject_unknown_root_key {t : YVal α} (h : UnknownRootKey t) :
    ∃ err, parseNetlist stog εA t = .error err := by
  obtain ⟨l, key, v, rfl, hkv, h1, h2⟩ := h
  apply error_of_not_ok
  intro n hn
  obtain ⟨ms, es, hdoc, _⟩ := parseNetlist_ok hn
  rcases parseDoc_rootKeys hdoc hkv with h | h
  · exact h1 h
  · exact h2 h

/-- (9) a module name that is not an identifier `[A-Za-z_][A-Za-z0-9_]*` (or not a string at all). -/
def InvalidModuleName (t : YVal α) : Prop :=
  ∃ mods, HasModules t mods ∧ ∃ key info, (key, info) ∈ mods ∧ key.validIdent = false

theorem reject_invalid_name {t : YVal α} (h : InvalidModuleName t) :
    ∃ err, parseNetlist stog εA t = .error err := by
  obtain ⟨mods, hd, key, info, hmem, hbad⟩ := h
  refine reject_module' hd hmem ?_
  intro m hm
  obtain ⟨hok, hname⟩ := parseModule_modOK hm
  simp only at hname
  rw [hname] at hbad
  simp only [YVal.validIdent] at hbad
  rw [hok.name_ok] at hbad
  cases hbad

/-- (9') a region name in an area dictionary that is not an identifier. -/
def InvalidRegionName (t : YVal α) : Prop :=
  ∃ mods, HasModules t mods ∧ ∃ k info entries key a, (k, YVal.map info) ∈ mods ∧
    HasAttr info "area" (.map entries) ∧ (key, a) ∈ entries ∧ key.validIdent = false

theorem reject_invalid_region_name {t : YVal α} (h : InvalidRegionName t) :
    ∃ err, parseNetlist stog εA t = .error err := by
  obtain ⟨mods, hd, k, info, entries, key, a, hmem, hattr, hkm, hbad⟩ := h
  refine reject_module' hd hmem ?_
  intro m hm
  obtain ⟨kvs, ps, s, rects, hk, hnd, hp, hc, _, _⟩ := parseModule_info hm
  obtain ⟨c1, _, c3, _, _⟩ := params_of_doc hk hnd hp
  obtain ⟨p, hpm, hmk⟩ := c1 AttrKind.area _ (by decide) hattr
  simp [mkParam] at hmk; subst hmk
  have hra := ctor_area hc c3 hpm
  obtain ⟨_, _, a3⟩ := readRegionArea_ok hra
  rcases a3 with ⟨n', hvn, _⟩ | ⟨l', hvl, hmr⟩
  · cases n' <;> cases hvn
  · cases hvl
    obtain ⟨pr, _, hrr⟩ := mapE_ok_mem hmr hkm
    obtain ⟨hvalid, _, n', hke, _⟩ := readRegion_ok hrr
    have : key = YVal.str pr.1 := (Prod.ext_iff.mp hke).1
    rw [this] at hbad
    simp only [YVal.validIdent] at hbad
    rw [hvalid] at hbad
    cases hbad

/-- (9b) a rectangle `[x, y, w, h, region]` whose region is not an identifier (or not a string), anywhere in a
    `rectangles` attribute. -/
def InvalidRectRegionName (t : YVal α) : Prop :=
  ∃ mods, HasModules t mods ∧ ∃ k info rv es x y w h reg, (k, YVal.map info) ∈ mods ∧
    HasAttr info "rectangles" rv ∧ rectEntries rv = some es ∧ YVal.seq [x, y, w, h, reg] ∈ es ∧ reg.validIdent = false

theorem reject_invalid_rect_region_name {t : YVal α} (h : InvalidRectRegionName t) :
    ∃ err, parseNetlist stog εA t = .error err := by
  obtain ⟨mods, hd, k, info, rv, es, x, y, w, hh, reg, hmem, hattr, hes, hent, hbad⟩ := h
  refine reject_module' hd hmem ?_
  intro m hm
  obtain ⟨kvs, ps, s, rects, hk, hnd, hp, hc, hr, _⟩ := parseModule_info hm
  obtain ⟨_, _, _, c4, _⟩ := params_of_doc hk hnd hp
  have hsome := c4 rv hattr
  have hpr : parseRects s.fixed s.hard rv = .ok rects := by
    rcases hr with ⟨h1, _⟩ | ⟨v, h1, h2⟩
    · rw [hsome] at h1; cases h1
    · rw [hsome] at h1; cases h1; exact h2
  obtain ⟨es2, hes2, hme, _⟩ := parseRects_ok hpr
  rw [hes] at hes2; cases hes2
  obtain ⟨q, _, hq⟩ := mapE_ok_mem hme hent
  obtain ⟨hok, hform⟩ := parseRect_ok hq
  rcases hform with ⟨hf, _⟩ | hf
  · have := congrArg (fun v => match v with | YVal.seq l => l.length | _ => 0) hf
    simp at this
  · have hreg : reg = YVal.str q.region := by
      injection hf with hf; injection hf with _ hf; injection hf with _ hf; injection hf with _ hf
      injection hf with _ hf; injection hf with h5 _
    rw [hreg] at hbad
    simp only [YVal.validIdent] at hbad
    rw [hok.region_ok] at hbad
    cases hbad

/-- (9c) a rectangle of a module declared hard (not a terminal) that names a region at all: the rectangles of hard
    modules live in the ground region and must be written `[x, y, w, h]`. -/
def RegionOnHardRectangle (t : YVal α) : Prop :=
  ∃ mods, HasModules t mods ∧ ∃ k info rv es x y w h reg, (k, YVal.map info) ∈ mods ∧
    HasAttr info "rectangles" rv ∧ rectEntries rv = some es ∧ YVal.seq [x, y, w, h, reg] ∈ es ∧
    DeclaredHard info ∧ (∀ v, HasAttr info "terminal" v → v = .bool false)

theorem reject_region_on_hard_rectangle {t : YVal α} (h : RegionOnHardRectangle t) :
    ∃ err, parseNetlist stog εA t = .error err := by
  obtain ⟨mods, hd, k, info, rv, es, x, y, w, hh, reg, hmem, hattr, hes, hent, hdecl, hnot⟩ := h
  refine reject_module' hd hmem ?_
  intro m hm
  obtain ⟨kvs, ps, s, rects, hk, hnd, hp, hc, hr, _⟩ := parseModule_info hm
  obtain ⟨hhard, _⟩ := declared_hard_nonterminal hk hnd hp hc hdecl hnot
  obtain ⟨_, _, _, c4, _⟩ := params_of_doc hk hnd hp
  have hsome := c4 rv hattr
  have hpr : parseRects s.fixed s.hard rv = .ok rects := by
    rcases hr with ⟨h1, _⟩ | ⟨v, h1, h2⟩
    · rw [hsome] at h1; cases h1
    · rw [hsome] at h1; cases h1; exact h2
  obtain ⟨es2, hes2, hme, _⟩ := parseRects_ok hpr
  rw [hes] at hes2; cases hes2
  obtain ⟨q, _, hq⟩ := mapE_ok_mem hme hent
  obtain ⟨hok, hform⟩ := parseRect_ok hq
  rcases hform with ⟨hf, _⟩ | hf
  · have := congrArg (fun v => match v with | YVal.seq l => l.length | _ => 0) hf
    simp at this
  · -- a five-element entry is only accepted for a rectangle that is neither fixed nor hard
    simp only [parseRect, hhard, Bool.or_true, Bool.not_true, Bool.and_false] at hq
    split at hq
    · split at hq
      · split at hq <;> simp at hq
      · simp at hq
    · simp at hq

/-- (10) a net with a single pin: `[a]`, or `[a, w]` with `w` a number (the weight is not a pin). -/
def OnePinNet (t : YVal α) : Prop :=
  ∃ nets, HasNets t nets ∧ ∃ y, y ∈ nets ∧
    ((∃ a, y = YVal.seq [a]) ∨ (∃ a w, y = YVal.seq [a, w] ∧ w.isNumber = true))

theorem reject_one_pin_net {t : YVal α} (h : OnePinNet t) :
    ∃ err, parseNetlist stog εA t = .error err := by
  obtain ⟨nets, hd, y, hy, hform⟩ := h
  refine reject_net' hd hy ?_
  intro e he
  obtain ⟨hlen, hc⟩ := parseEdge_ok he
  rcases hform with ⟨a, rfl⟩ | ⟨a, w, rfl, hw⟩
  · rcases hc with ⟨w', heq, _⟩ | ⟨heq, _⟩
    · have h1 : [a] = e.members.map YVal.str ++ [YVal.ofNum w'] := by injection heq
      have := congrArg List.length h1
      simp only [List.length_cons, List.length_nil, List.length_append, List.length_map] at this; omega
    · have h1 : [a] = e.members.map YVal.str := by injection heq
      have := congrArg List.length h1
      simp only [List.length_cons, List.length_nil, List.length_append, List.length_map] at this; omega
  · rcases hc with ⟨w', heq, _⟩ | ⟨heq, _⟩
    · have h1 : [a, w] = e.members.map YVal.str ++ [YVal.ofNum w'] := by injection heq
      have := congrArg List.length h1
      simp only [List.length_cons, List.length_nil, List.length_append, List.length_map] at this; omega
    · have h1 : [a, w] = e.members.map YVal.str := by injection heq
      have : w ∈ e.members.map YVal.str := by rw [← h1]; simp
      obtain ⟨x, _, hx⟩ := List.mem_map.mp this
      rw [← hx] at hw
      simp [YVal.isNumber, YVal.num?] at hw

/-- (11) a rectangle whose width or height is not positive, anywhere in a `rectangles` attribute. -/
def NonPositiveRectangleSize (t : YVal α) : Prop :=
  ∃ mods, HasModules t mods ∧ ∃ k info rv es x y w h rest nd, (k, YVal.map info) ∈ mods ∧
    HasAttr info "rectangles" rv ∧ rectEntries rv = some es ∧ YVal.seq (x :: y :: w :: h :: rest) ∈ es ∧
    (w.num? = some nd ∨ h.num? = some nd) ∧ nd.val ≤ 0

theorem reject_nonpositive_rectangle_size {t : YVal α} (h : NonPositiveRectangleSize t) :
    ∃ err, parseNetlist stog εA t = .error err := by
  obtain ⟨mods, hd, k, info, rv, es, x, y, w, hh, rest, nd, hmem, hattr, hes, hent, hnum, hle⟩ := h
  refine reject_module' hd hmem ?_
  intro m hm
  obtain ⟨kvs, ps, s, rects, hk, hnd, hp, hc, hr, _⟩ := parseModule_info hm
  obtain ⟨_, _, _, c4, _⟩ := params_of_doc hk hnd hp
  have hsome := c4 rv hattr
  have hpr : parseRects s.fixed s.hard rv = .ok rects := by
    rcases hr with ⟨h1, _⟩ | ⟨v, h1, h2⟩
    · rw [hsome] at h1; cases h1
    · rw [hsome] at h1; cases h1; exact h2
  obtain ⟨es2, hes2, hme, _⟩ := parseRects_ok hpr
  rw [hes] at hes2; cases hes2
  obtain ⟨q, _, hq⟩ := mapE_ok_mem hme hent
  obtain ⟨hok, hform⟩ := parseRect_ok hq
  have hwh : w = YVal.ofNum q.w ∧ hh = YVal.ofNum q.h := by
    rcases hform with ⟨hf, _⟩ | hf
    · injection hf with hf; injection hf with _ hf; injection hf with _ hf; injection hf with h3 hf
      injection hf with h4 _
      exact ⟨h3, h4⟩
    · injection hf with hf; injection hf with _ hf; injection hf with _ hf; injection hf with h3 hf
      injection hf with h4 _
      exact ⟨h3, h4⟩
  rcases hnum with hn | hn
  · rw [hwh.1, YVal.num?_ofNum] at hn; cases hn
    exact absurd hok.w_pos (not_lt.mpr hle)
  · rw [hwh.2, YVal.num?_ofNum] at hn; cases hn
    exact absurd hok.h_pos (not_lt.mpr hle)

/-! ## non-vacuity: each class of defect has concrete members (documents over `Rat`), and a well-formed document loads -/

section examples

/-- the document `{Modules: mods, Nets: nets}`. -/
def doc (mods : List (YVal Rat × YVal Rat)) (nets : List (YVal Rat)) : YVal Rat :=
  .map [(.str "Modules", .map mods), (.str "Nets", .seq nets)]

theorem hasModules_doc (mods : List (YVal Rat × YVal Rat)) (nets : List (YVal Rat)) : HasModules (doc mods nets) mods :=
  ⟨_, rfl, List.mem_cons_self⟩

theorem hasNets_doc (mods : List (YVal Rat × YVal Rat)) (nets : List (YVal Rat)) : HasNets (doc mods nets) nets :=
  ⟨_, rfl, List.mem_cons_of_mem _ List.mem_cons_self⟩

/-- a soft module `A` of area 1. -/
def softA : YVal Rat × YVal Rat := (.str "A", .map [(.str "area", .int 1)])

example : UnknownModuleInNet (doc [softA] [.seq [.str "A", .str "B"]]) :=
  ⟨_, hasNets_doc _ _, [.str "A", .str "B"], "B", by simp, by simp,
    Or.inr ⟨_, hasModules_doc _ _, by intro info h; simp [softA] at h⟩⟩

example : NonPositiveWeight (doc [softA] [.seq [.str "A", .str "A", .int 0]]) :=
  ⟨_, hasNets_doc _ _, [.str "A", .str "A"], .int 0, .i 0, by simp, rfl, by decide +kernel⟩

example : NonPositiveArea (doc [(.str "A", .map [(.str "area", .map [(.str "_", .int 2), (.str "dsp", .float (-1))])])] []) :=
  ⟨_, hasModules_doc _ _, _, _, _, List.mem_cons_self, List.mem_cons_self,
    Or.inr ⟨_, .str "dsp", .float (-1), .f (-1), rfl, by simp, rfl, by decide +kernel⟩⟩

example : SoftWithoutArea (doc [(.str "A", .map [(.str "center", .seq [.int 1, .int 2]), (.str "hard", .bool false)])] []) :=
  ⟨_, hasModules_doc _ _, _, _, List.mem_cons_self, by intro v h; simp at h, by intro v h; simp at h,
    by intro v h; simp [HasAttr] at h, by intro v h; simp [HasAttr] at h; exact h⟩

example : HardWithArea (doc [(.str "A", .map [(.str "area", .int 4), (.str "fixed", .bool true),
    (.str "rectangles", .seq [.int 1, .int 1, .int 2, .int 2])])] []) :=
  ⟨_, hasModules_doc _ _, _, _, _, List.mem_cons_self, List.mem_cons_self, by simp,
    Or.inl (Or.inl (List.mem_cons_of_mem _ List.mem_cons_self))⟩

example : HardWithoutRectangles (doc [(.str "A", .map [(.str "hard", .bool true)])] []) :=
  ⟨_, hasModules_doc _ _, _, _, List.mem_cons_self, Or.inr List.mem_cons_self, by intro v h; simp [HasAttr] at h,
    by intro v h; simp at h⟩

/-- two 2×2 squares centred at (1,1) and (2,2) overlap on a unit square: more than the tolerance 1/4. -/
example : HardWithOverlap (1 / 4 : Rat) (doc [(.str "A", .map [(.str "hard", .bool true),
    (.str "rectangles", .seq [.seq [.int 1, .int 1, .int 2, .int 2], .seq [.int 2, .int 2, .int 2, .int 2]])])] []) :=
  ⟨_, hasModules_doc _ _, _, _, List.mem_cons_self, Or.inr List.mem_cons_self, by intro v h; simp [HasAttr] at h,
    _, _, _, _, _, _, List.mem_cons_of_mem _ List.mem_cons_self, rfl, List.Sublist.refl _, rfl, rfl, by decide +kernel⟩

example : UnknownAttribute (doc [(.str "A", .map [(.str "area", .int 1), (.str "min_shape", .int 1)])] []) :=
  ⟨_, hasModules_doc _ _, _, _, .str "min_shape", .int 1, List.mem_cons_self, by simp,
    by intro kd; cases kd <;> simp [kindName]⟩

example : UnknownRootKey (.map [(.str "Modules", .map []), (.str "Edges", .seq [])] : YVal Rat) :=
  ⟨_, .str "Edges", .seq [], rfl, by simp, by simp, by simp⟩

example : InvalidModuleName (doc [(.str "L1-Cache", .map [(.str "area", .int 1)])] []) :=
  ⟨_, hasModules_doc _ _, _, _, List.mem_cons_self, by decide⟩

example : InvalidModuleName (doc [(.int 1, .map [(.str "area", .int 1)])] []) :=
  ⟨_, hasModules_doc _ _, _, _, List.mem_cons_self, rfl⟩

example : OnePinNet (doc [softA] [.seq [.str "A", .float 3]]) :=
  ⟨_, hasNets_doc _ _, _, List.mem_cons_self, Or.inr ⟨_, _, rfl, rfl⟩⟩

example : NonPositiveRectangleSize (doc [(.str "A", .map [(.str "area", .int 1),
    (.str "rectangles", .seq [.int 1, .int 1, .int 0, .int 2])])] []) :=
  ⟨_, hasModules_doc _ _, _, _, _, _, _, _, _, _, _, .i 0, List.mem_cons_self,
    List.mem_cons_of_mem _ List.mem_cons_self, rfl, List.mem_cons_self, Or.inl rfl, by decide +kernel⟩

/-- a document WITHOUT a `Nets:` key, module declared `hard: true, terminal: false`, no rectangles. -/
example : HardWithoutRectangles (.map [(.str "Modules",
    .map [(.str "A", .map [(.str "hard", .bool true), (.str "terminal", .bool false)])])] : YVal Rat) :=
  ⟨_, ⟨_, rfl, List.mem_cons_self⟩, _, _, List.mem_cons_self, Or.inr List.mem_cons_self,
    by intro v h; simp [HasAttr] at h; exact h, by intro v h; simp at h⟩

/-- a net naming a module in a document without `Modules:`. -/
example : UnknownModuleInNet (.map [(.str "Nets", .seq [.seq [.str "A", .str "B"]])] : YVal Rat) :=
  ⟨_, ⟨_, rfl, List.mem_cons_self⟩, [.str "A", .str "B"], "A", by simp, by simp,
    Or.inl ⟨_, rfl, by intro v h; simp at h⟩⟩


/-- a well-formed document loads, and its derived quantities are the expected numbers
    (soft `A`: regions 3 + 2; hard `H`: one 4×2 rectangle, centre (2,2); terminal `T`: area 0). -/
example : (match parseNetlist (fun rs => rs.map fun r => { r with loc := Loc.trunk }) (0 : Rat)
      (doc [(.str "A", .map [(.str "area", .map [(.str "_", .int 3), (.str "dsp", .float 2)])]),
            (.str "H", .map [(.str "hard", .bool true), (.str "rectangles", .seq [.int 2, .int 2, .int 4, .int 2])]),
            (.str "T", .map [(.str "terminal", .bool true), (.str "center", .seq [.int 5, .int 2])])]
           [.seq [.str "A", .str "H", .str "T"]]) with
    | .ok n => n.modules.map (·.area) == [5, 8, 0] && n.modules.map (·.center) == [none, some (2, 2), some (5, 2)]
               && n.fixedRectangles.length == 0 && n.rectangles.length == 1
    | .error _ => false) = true := by decide +kernel

/-! ### the document-level theorems APPLIED to a five-module document loaded with the real `create_stog`
(`stogC06`, tolerances 1/1000): soft `A` (two regions), soft `S` (explicit centre AND two rectangles: the centre is
overridden), hard `H` (two rectangles), fixed `F` (single-rectangle shorthand), terminal `T`; two nets. -/

def isOkB {ε β : Type} : Except ε β → Bool | .ok _ => true | .error _ => false
theorem ok_of_isOkB {ε β : Type} {x : Except ε β} (h : isOkB x = true) : ∃ y, x = .ok y := by
  cases x with
  | ok y => exact ⟨y, rfl⟩
  | error e => cases h

abbrev Y := YVal Rat
-- soft, two regions, no centre
def mA : Y × Y := (.str "A", .map [(.str "area", .map [(.str "_", .int 3), (.str "dsp", .float 2)])])
-- soft WITH explicit centre [100,100] AND two rectangles (one in dsp): the centre must be overridden
def mS : Y × Y := (.str "S", .map [(.str "area", .int 6), (.str "center", .seq [.int 100, .int 100]),
  (.str "rectangles", .seq [.seq [.int 10, .int 10, .int 2, .int 2], .seq [.int 12, .int 10, .int 2, .int 1, .str "dsp"]])])
def mH : Y × Y := (.str "H", .map [(.str "hard", .bool true), (.str "rectangles", .seq [.seq [.int 1, .int 1, .int 2, .int 2], .seq [.int 3, .int 1, .int 2, .int 4]])])
-- fixed, single-rectangle shorthand
def mF : Y × Y := (.str "F", .map [(.str "fixed", .bool true), (.str "rectangles", .seq [.int 20, .int 20, .int 4, .int 2])])
def mT : Y × Y := (.str "T", .map [(.str "terminal", .bool true), (.str "center", .seq [.int 5, .int 2])])
def goodNets : List Y := [.seq [.str "S", .str "H", .str "T"], .seq [.str "H", .str "F", .int 2]]
def good : Y := doc [mA, mS, mH, mF, mT] goodNets
abbrev e3 : Rat := 1/1000
abbrev LD (t : Y) := parseNetlist (stogC06 e3 e3) e3 t

theorem good_ok : isOkB (LD good) = true := by decide +kernel

/-! modules_of_document applied: 2nd module (explicit centre + 2 rectangles) -/
example : ∃ (n : Netlist Rat) (m : NL.Mod Rat) (rs0 : List (NRect Rat)), LD good = .ok n ∧ n.modules[1]? = some m ∧
    m.name = "S" ∧ rs0.length = 2 ∧ m.rects = stogC06 e3 e3 rs0 ∧
    m.center = some ((rs0.map fun r => r.area * r.cx.val).sum / (rs0.map NRect.area).sum,
                     (rs0.map fun r => r.area * r.cy.val).sum / (rs0.map NRect.area).sum) ∧
    0 < (rs0.map NRect.area).sum ∧ AreaOfDoc (.int 6 : Y) m.areaRegions ∧ m.fixed = false := by
  obtain ⟨n, hn⟩ := ok_of_isOkB good_ok
  have hF := modules_of_document (hasModules_doc _ _) hn
  generalize hms : n.modules = ms at hF
  -- peel the Forall₂
  cases hF with
  | cons h1 hF2 =>
    cases hF2 with
    | cons h2 hF3 =>
      rename_i ms1 m2 ms2
      obtain ⟨info, he, hmod⟩ := h2
      have hinfo : info = [(.str "area", .int 6), (.str "center", .seq [.int 100, .int 100]),
          (.str "rectangles", .seq [.seq [.int 10, .int 10, .int 2, .int 2], .seq [.int 12, .int 10, .int 2, .int 1, .str "dsp"]])] := by
        simp [mS] at he; exact he.2.symm
      have hname : m2.name = "S" := by simp [mS] at he; exact he.1.symm
      subst hinfo
      obtain ⟨es, rs0, hes, hFR, hne, hr, hc, hpos, _⟩ := hmod.rects (.seq [.seq [.int 10, .int 10, .int 2, .int 2], .seq [.int 12, .int 10, .int 2, .int 1, .str "dsp"]]) (by simp [HasAttr])
      have hes' : es = [.seq [.int 10, .int 10, .int 2, .int 2], .seq [.int 12, .int 10, .int 2, .int 1, .str "dsp"]] := by
        simp [rectEntries, YVal.isNumber, YVal.num?] at hes; exact hes.symm
      have hlen : rs0.length = 2 := by rw [← hFR.length_eq, hes']; rfl
      have hsoft : m2.hard = false := hmod.soft_iff.mpr ⟨.int 6, by simp [HasAttr], by simp⟩
      have harea := hmod.area (.int 6) (by simp [HasAttr]) hsoft
      have hfix : m2.fixed = false := by
        cases hf : m2.fixed with
        | false => rfl
        | true => have := hmod.fixed_iff.mp hf; simp [HasAttr] at this
      exact ⟨n, m2, rs0, hn, by rw [hms]; simp, hname, hlen, hr, hc, hpos, harea, hfix⟩

/-! rectangles_def applied: 5 chunks, flat list = their concatenation -/
example : ∃ (n : Netlist Rat) (rss : List (List (NRect Rat))), LD good = .ok n ∧ rss.length = 5 ∧
    loadRectangles (stogC06 e3 e3) e3 good = .ok rss.flatten := by
  obtain ⟨n, hn⟩ := ok_of_isOkB good_ok
  obtain ⟨rss, hF, hl, _⟩ := rectangles_def (hasModules_doc _ _) hn
  exact ⟨n, rss, hn, by rw [← hF.length_eq]; rfl, hl⟩

/-! nets_of_document applied -/
example : ∃ (n : Netlist Rat), LD good = .ok n ∧ List.Forall₂ NetOfDoc goodNets n.nets ∧ n.nets.length = 2 := by
  obtain ⟨n, hn⟩ := ok_of_isOkB good_ok
  have h := (nets_of_document (hasNets_doc _ _) hn).1
  exact ⟨n, hn, h, by rw [← h.length_eq]; rfl⟩

/-! wireLength_loaded applied (sqrt := id) -/
theorem good_wl : (match LD good with | .ok n => (n.wireLength (fun x => x)).isSome | .error _ => false) = true := by decide +kernel
example : ∃ (n : Netlist Rat) (w : Rat), LD good = .ok n ∧ n.wireLength (fun x => x) = some w ∧
    ∀ e ∈ n.nets, 2 ≤ (netCenters n e).length ∧ 0 < e.weight := by
  obtain ⟨n, hn⟩ := ok_of_isOkB good_ok
  have := good_wl; rw [hn] at this; simp at this
  obtain ⟨w, hw⟩ := Option.isSome_iff_exists.mp this
  obtain ⟨_, h2⟩ := wireLength_loaded (fun x => x) hn w hw
  exact ⟨n, w, hn, hw, fun e he => (h2 e he).2⟩

/-! wireLength_none_loaded applied: a net names soft A (no centre) -/
def noCtr : Y := doc [mA, mT] [.seq [.str "A", .str "T"]]
theorem noCtr_none : (match LD noCtr with | .ok n => (n.wireLength (fun x => x)).isNone | .error _ => false) = true := by decide +kernel
example : ∃ (n : Netlist Rat), LD noCtr = .ok n ∧ ∃ e ∈ n.nets, ∃ x ∈ e.members, ∃ m ∈ n.modules, m.name = x ∧ m.center = none := by
  have hok : isOkB (LD noCtr) = true := by decide +kernel
  obtain ⟨n, hn⟩ := ok_of_isOkB hok
  have := noCtr_none; rw [hn] at this; simp at this
  exact ⟨n, hn, wireLength_none_loaded (fun x => x) hn this⟩

/-! missing_keys applied: Modules only -/
def modsOnly : Y := .map [(.str "Modules", .map [mA])]
example : ∃ (n : Netlist Rat), LD modsOnly = .ok n ∧ n.nets = [] := by
  have hok : isOkB (LD modsOnly) = true := by decide +kernel
  obtain ⟨n, hn⟩ := ok_of_isOkB hok
  exact ⟨n, hn, (missing_keys hn).1 ⟨_, rfl, by intro v h; simp [mA] at h⟩⟩


/-! the two new defect classes have members -/
example : InvalidRectRegionName (doc [(.str "A", .map [(.str "area", .int 1),
    (.str "rectangles", .seq [.seq [.int 1, .int 1, .int 2, .int 2, .str "L1-dsp"]])])] []) :=
  ⟨_, hasModules_doc _ _, _, _, _, _, _, _, _, _, .str "L1-dsp", List.mem_cons_self,
    List.mem_cons_of_mem _ List.mem_cons_self, rfl, List.mem_cons_self, by decide⟩

example : RegionOnHardRectangle (doc [(.str "A", .map [(.str "hard", .bool true),
    (.str "rectangles", .seq [.seq [.int 1, .int 1, .int 2, .int 2, .str "_"]])])] []) :=
  ⟨_, hasModules_doc _ _, _, _, _, _, _, _, _, _, .str "_", List.mem_cons_self,
    List.mem_cons_of_mem _ List.mem_cons_self, rfl, List.mem_cons_self, Or.inr List.mem_cons_self,
    by intro v h; simp [HasAttr] at h⟩

/-! fixedRectangles_of_document applied: five chunks; only the chunk of `F` (`fixed: true`) survives the filter -/
example : ∃ (n : Netlist Rat) (rss : List (List (NRect Rat))), LD good = .ok n ∧
    loadRectangles (stogC06 e3 e3) e3 good = .ok rss.flatten ∧ fixedOf rss.flatten = (rss.map fixedOf).flatten ∧
    ∃ a s h f t, rss = [a, s, h, f, t] ∧ fixedOf a = [] ∧ fixedOf s = [] ∧ fixedOf h = [] ∧ fixedOf f = f ∧ fixedOf t = [] := by
  obtain ⟨n, hn⟩ := ok_of_isOkB good_ok
  obtain ⟨rss, hl, hflat, hF⟩ := fixedRectangles_of_document (hasModules_doc _ _) hn
  refine ⟨n, rss, hn, hl, hflat, ?_⟩
  cases hF with
  | cons h1 hF => cases hF with
    | cons h2 hF => cases hF with
      | cons h3 hF => cases hF with
        | cons h4 hF => cases hF with
          | cons h5 hF =>
            cases hF
            rename_i a s h f t
            refine ⟨a, s, h, f, t, rfl, ?_, ?_, ?_, ?_, ?_⟩
            · obtain ⟨k, info, he, _, hno⟩ := h1
              have : info = [(.str "area", .map [(.str "_", .int 3), (.str "dsp", .float 2)])] := by
                simp [mA] at he; exact he.2.symm
              subst this; exact hno (by simp [HasAttr])
            · obtain ⟨k, info, he, _, hno⟩ := h2
              simp only [mS, Prod.mk.injEq, YVal.map.injEq] at he
              obtain ⟨_, rfl⟩ := he
              exact hno (by simp [HasAttr])
            · obtain ⟨k, info, he, _, hno⟩ := h3
              simp only [mH, Prod.mk.injEq, YVal.map.injEq] at he
              obtain ⟨_, rfl⟩ := he
              exact hno (by simp [HasAttr])
            · obtain ⟨k, info, he, hyes, _⟩ := h4
              simp only [mF, Prod.mk.injEq, YVal.map.injEq] at he
              obtain ⟨_, rfl⟩ := he
              exact hyes (by simp [HasAttr])
            · obtain ⟨k, info, he, _, hno⟩ := h5
              simp only [mT, Prod.mk.injEq, YVal.map.injEq] at he
              obtain ⟨_, rfl⟩ := he
              exact hno (by simp [HasAttr])

/-! wireLength_of_document applied: two nets, every member's centre comes from the `Modules` entry of its name -/
example : ∃ (n : Netlist Rat) (w : Rat) (css : List (List (Rat × Rat))), LD good = .ok n ∧
    n.wireLength (fun x => x) = some w ∧ css.length = 2 ∧
    List.Forall₂ (fun (e : Net Rat) (cs : List (Rat × Rat)) =>
      List.Forall₂ (fun x c => ∃ info, (YVal.str x, YVal.map info) ∈ [mA, mS, mH, mF, mT] ∧ DocCenter info c) e.members cs ∧
      2 ≤ cs.length ∧ 0 < e.weight) n.nets css := by
  obtain ⟨n, hn⟩ := ok_of_isOkB good_ok
  have := good_wl; rw [hn] at this; simp at this
  obtain ⟨w, hw⟩ := Option.isSome_iff_exists.mp this
  obtain ⟨css, hF, _⟩ := wireLength_of_document (fun x => x) (hasModules_doc _ _) hn w hw
  have hlen : n.nets.length = 2 := by
    have h := (nets_of_document (hasNets_doc _ _) hn).1
    rw [← h.length_eq]; rfl
  exact ⟨n, w, css, hn, hw, by rw [← hF.length_eq, hlen], hF⟩

/-! center_def_no_rects_of_document applied: terminal `T` (last entry, `center: [5, 2]`, no rectangles) keeps (5, 2);
    soft `A` (first entry, neither) has no centre -/
example : ∃ (n : Netlist Rat) (a t : NL.Mod Rat), LD good = .ok n ∧ n.modules[0]? = some a ∧ n.modules[4]? = some t ∧
    a.center = none ∧ a.rects = [] ∧ t.center = some (5, 2) ∧ t.rects = [] := by
  obtain ⟨n, hn⟩ := ok_of_isOkB good_ok
  have hF := center_def_no_rects_of_document (hasModules_doc _ _) hn
  generalize hms : n.modules = ms at hF
  cases hF with
  | cons h1 hF => cases hF with
    | cons h2 hF => cases hF with
      | cons h3 hF => cases hF with
        | cons h4 hF => cases hF with
          | cons h5 hF =>
            cases hF
            rename_i a s h f t
            obtain ⟨ia, hea, ha⟩ := h1
            obtain ⟨it, het, ht⟩ := h5
            have hia : ia = [(.str "area", .map [(.str "_", .int 3), (.str "dsp", .float 2)])] := by
              simp [mA] at hea; exact hea.2.symm
            have hit : it = [(.str "terminal", .bool true), (.str "center", .seq [.int 5, .int 2])] := by
              simp [mT] at het; exact het.2.symm
            subst hia hit
            obtain ⟨ar, _, ac⟩ := ha (by intro v hv; simp [HasAttr] at hv)
            obtain ⟨tr, tc, _⟩ := ht (by intro v hv; simp [HasAttr] at hv)
            obtain ⟨c, hc, htc⟩ := tc (.seq [.int 5, .int 2]) (by simp [HasAttr])
            obtain ⟨x, y, hxy, rfl⟩ := hc
            have hx : x = .i 5 ∧ y = .i 2 := by
              simp at hxy
              obtain ⟨h1, h2⟩ := hxy
              cases x <;> cases y <;> simp_all [YVal.ofNum]
            refine ⟨n, a, t, hn, by rw [hms]; rfl, by rw [hms]; rfl, ac (by intro v hv; simp [HasAttr] at hv), ar, ?_, tr⟩
            rw [htc, hx.1, hx.2]
            rfl


end examples

end FV.C05

import FV.Proofs.Force
/-
  C13 — Force-directed relocation: fixed modules stay, centres stay in the die.

  Property theorems about the model `FV/Model/Force.lean` of `fruchterman_reingold_layout` and
  `force_algorithm`.  They hold in every linearly ordered field `α` (exact arithmetic), for EVERY choice of
  the numeric library (`Ops`: `sqrt`, `** (1/2)`, `** 2`, `pi`) and of the disc-overlap function, every spring
  constant, every iteration count and every netlist (any mix of fixed / movable modules, coincident centres,
  centres on the border, nets of any arity and weight, pins out of range included).

  Exceptions.  The model raises where the Python raises: `ZeroDivisionError` for a netlist without modules
  (`/ num_modules`) and when `k == 0` (e.g. `kappa = 0`) as soon as an attraction term is evaluated (`/ k`); a
  failing `assert` for a missing centre in the cost.  Every theorem below is conditional on the call returning
  (`= .ok out`); `layout_returns` / `layout_kappa_zero_raises` say when the layout does.  ALL `forceAlgorithm`
  theorems are likewise conditional on `.ok`: no `force_returns` lemma is proved (it would need every one of the 12
  layouts and costs to be computable — non-empty netlist, `k ≠ 0`, pins in range, non-empty nets; the model's
  `.assertion` for an out-of-range pin cannot occur in Python, where nets hold module objects).

  Boundary of "every centre inside the die": the code clamps a MOVABLE module in every iteration, so after ≥ 1
  iteration it is inside whatever its start — outside the die, negative, missing (`movable_centre_inside`).  It never
  clamps a FIXED module, and with `max_iter = 0` nothing is clamped: those centres are inside iff they were on input
  (`centres_inside_die`, hypothesis `hin`); the harness generates out-of-die starts and checks exactly this split.  No theorem relies on the field
  convention `x / 0 = 0` for these divisors.  `force_algorithm` starts from `best_cost = inf`: a cost that is not
  below `inf` (inf / NaN doubles) never wins and `best_kappa` stays `0.0`; `Ops.ltInf` models `cost < inf` and
  the theorems assume it is always true (it is for every number of an ordered field).

  How the clauses of the property are covered:
  * fixed modules not moved — `fixed_unmoved` (equality; on doubles `c - s + s` drifts by ≤ 1 ulp: searched);
  * every centre inside the die — `movable_centre_inside`, `centres_inside_die`;
  * FINITE — not expressible over an ordered field.  `clamp_total_any_order` uses no order axiom and therefore holds
    for IEEE doubles (NaN / ±inf are clamped to a side of the die); finiteness of whole runs is searched by the harness;
  * nothing but centres changed — `only_centres`, `force_only_centres`: TRUE BY CONSTRUCTION of the model (the payload
    `rest` is never touched); the assurance for the Python is the harness' deep snapshot (all rectangles incl. default
    squares, areas, nets, flags) under several object histories with aliased centre Points;
  * DETERMINISTIC — no theorem: the model is a pure function (no hidden state), so the clause is "the model is a pure
    function + correspondence": the harness checks that two runs are bit-identical and that the layout returned by
    `force_algorithm` is bit-identical to the layout scored for the selected constant (this is where `copy.deepcopy`
    and Python object aliasing — part of the trusted base — are exercised);
  * smallest cost among the constants tried — `best_kappa`, `best_kappa_minimal` (first strict minimum).
-/
namespace FV.C13
open FV FV.Force
set_option linter.unusedSectionVars false
set_option linter.unusedVariables false

variable {α : Type} [Field α] [LinearOrder α] [IsStrictOrderedRing α] {β : Type}

/-- the die `[0, W] × [0, H]`. -/
def InDie (W H : α) (c : Pt α) : Prop := 0 ≤ c.1 ∧ c.1 ≤ W ∧ 0 ≤ c.2 ∧ c.2 ≤ H

/-! ### when the layout returns -/

/-- the layout returns for a non-empty netlist whenever `k ≠ 0` (e.g. `kappa ≠ 0` and a positive die area with a
    `** (1/2)` that is positive on positive numbers). -/
theorem layout_returns (o : Ops α) (inst : Inst α β) (kappa : α) (maxIter : Nat)
    (hn : inst.mods ≠ [])
    (hk : kappa * o.powHalf (inst.W * inst.H / ((inst.mods.length : Nat) : α)) ≠ 0) :
    ∃ out, frLayout o inst kappa maxIter = .ok out := by
  have hl : inst.mods.length ≠ 0 := by simpa using hn
  have hz : isZeroF (kappa * o.powHalf (inst.W * inst.H / ((inst.mods.length : Nat) : α))) = false := by
    cases h : isZeroF (kappa * o.powHalf (inst.W * inst.H / ((inst.mods.length : Nat) : α))) with
    | true => exact absurd ((isZeroF_iff _).mp h) hk
    | false => rfl
  refine ⟨writeCentres inst (frLoop o inst (kappa * o.powHalf (inst.W * inst.H / ((inst.mods.length : Nat) : α)))
    (tempStep inst maxIter) maxIter (temp0 inst) (initPos inst)), ?_⟩
  simp only [frLayout, frPositions, springK, hl, ↓reduceIte, bind, Except.bind, attractionRaises, hz, Bool.false_and,
    Bool.false_eq_true, pure, Except.pure]

/-- with `kappa = 0` the model raises `ZeroDivisionError` exactly where the Python does: as soon as there is an
    iteration and a net with two pins (and it raises for a netlist without modules, whatever `kappa`). -/
theorem layout_kappa_zero_raises (o : Ops α) (inst : Inst α β) (maxIter : Nat)
    (hi : 0 < maxIter) (hnet : ∃ e ∈ inst.nets, 2 ≤ e.pins.length) :
    frLayout o inst 0 maxIter = .error .zeroDiv := by
  obtain ⟨e, he, h2⟩ := hnet
  by_cases hl : inst.mods.length = 0
  · simp [frLayout, frPositions, springK, hl, bind, Except.bind]
  · have hz : isZeroF (0 : α) = true := (isZeroF_iff _).mpr rfl
    have hany : inst.nets.any (fun e => decide (2 ≤ e.pins.length)) = true :=
      List.any_eq_true.mpr ⟨e, he, by simpa using h2⟩
    simp [frLayout, frPositions, springK, hl, bind, Except.bind, attractionRaises, hz, hi, hany]

theorem layout_no_modules_raises (o : Ops α) (inst : Inst α β) (kappa : α) (maxIter : Nat) (h : inst.mods = []) :
    frLayout o inst kappa maxIter = .error .zeroDiv := by
  simp [frLayout, frPositions, springK, h, bind, Except.bind]

/-! ### fixed modules do not move -/

/-- along the whole run (any number of iterations) the position of a fixed module is the initial one. -/
theorem fixed_unmoved_positions (o : Ops α) (inst : Inst α β) (kappa : α) (maxIter : Nat) (pos : List (Pt α))
    (h : frPositions o inst kappa maxIter = .ok pos) (v : Nat)
    (hv : v < inst.mods.length) (hf : modFixed inst v = true) :
    pos.getD v pzero = (initPos inst).getD v pzero := by
  obtain ⟨k, _, _, rfl⟩ := frPositions_ok o inst kappa maxIter pos h
  exact frLoop_fixed o inst _ _ maxIter _ _ v hv hf

/-- `fixed_unmoved`: a fixed module comes back unchanged — its centre `(c - s) + s` equals `c` exactly. -/
theorem fixed_unmoved (o : Ops α) (inst : Inst α β) (kappa : α) (maxIter : Nat) (out : Inst α β)
    (h : frLayout o inst kappa maxIter = .ok out) (v : Nat) (m : Mod α β) (c : Pt α)
    (hm : inst.mods[v]? = some m) (hf : m.fixed = true) (hc : m.center = some c) :
    out.mods[v]? = some m := by
  obtain ⟨pos, hp, rfl⟩ := frLayout_ok o inst kappa maxIter out h
  have hv : v < inst.mods.length := (List.getElem?_eq_some_iff.mp hm).1
  have hfx : modFixed inst v = true := by simp [modFixed, hm, hf]
  rw [writeCentres_mods inst _ v m hm, fixed_unmoved_positions o inst kappa maxIter pos hp v hv hfx,
    initPos_getD inst v m c hm hc, shift_back, ← hc]

/-! ### movable modules are clamped to the die -/

/-- the clamp of lines 123–124 lands in `{lo, hi}` or strictly between them using nothing but the
    `if`-structure of Python's `min`/`max`: it holds for any type with a decidable `<` — IEEE doubles
    (Lean's `Float`, NaN and ±inf included) as well as ordered fields. -/
theorem clamp_total_any_order {γ : Type} [LT γ] [DecidableLT γ] (lo hi x : γ) :
    pyMin hi (pyMax lo x) = hi ∨ pyMin hi (pyMax lo x) = lo ∨
      (pyMin hi (pyMax lo x) = x ∧ lo < x ∧ x < hi) :=
  clamp_trichotomy lo hi x

/-- `clamped`: after EVERY step, whatever the displacement, a movable position lies in
    `[-W/2, W/2] × [-H/2, H/2]`. -/
theorem clamped (o : Ops α) (inst : Inst α β) (k t : α) (pos : List (Pt α)) (v : Nat)
    (hv : v < inst.mods.length) (hf : modFixed inst v = false) (hW : 0 ≤ inst.W) (hH : 0 ≤ inst.H) :
    InBox inst.W inst.H ((frStep o inst k t pos).getD v pzero) :=
  frStep_clamped o inst k t pos v hv hf hW hH

/-- a step is `moveOne` on each node for SOME displacement: nothing else about the forces matters. -/
theorem step_is_moveOne (o : Ops α) (inst : Inst α β) (k t : α) (pos : List (Pt α)) (v : Nat)
    (hv : v < inst.mods.length) :
    ∃ d : Pt α, (frStep o inst k t pos).getD v pzero =
      moveOne o inst.W inst.H t (modFixed inst v) (pos.getD v pzero) d :=
  frStep_getD o inst k t pos v hv

/-- after at least one iteration every movable module's centre is inside the die. -/
theorem movable_centre_inside (o : Ops α) (inst : Inst α β) (kappa : α) (maxIter : Nat) (out : Inst α β)
    (h : frLayout o inst kappa maxIter = .ok out) (v : Nat) (m : Mod α β)
    (hm : inst.mods[v]? = some m) (hf : m.fixed = false) (hW : 0 ≤ inst.W) (hH : 0 ≤ inst.H)
    (hit : 1 ≤ maxIter) :
    ∃ c, out.mods[v]? = some { m with center := some c } ∧ InDie inst.W inst.H c := by
  obtain ⟨pos, hp, rfl⟩ := frLayout_ok o inst kappa maxIter out h
  obtain ⟨k, _, _, rfl⟩ := frPositions_ok o inst kappa maxIter pos hp
  have hv : v < inst.mods.length := (List.getElem?_eq_some_iff.mp hm).1
  have hfx : modFixed inst v = false := by simp [modFixed, hm, hf]
  refine ⟨_, writeCentres_mods inst _ v m hm, ?_⟩
  obtain ⟨h1, h2, h3, h4⟩ := frLoop_clamped o inst k (tempStep inst maxIter) maxIter (temp0 inst) (initPos inst)
    v hv hfx hW hH (by omega)
  simp only [InDie, padd, pdiv, Force.two_eq]
  refine ⟨by linarith, by linarith, by linarith, by linarith⟩

/-- `centres_inside_die`: if the centres given on input are inside the die, then for every iteration count
    (0 included) every module of the result has a centre, and it is inside the die. -/
theorem centres_inside_die (o : Ops α) (inst : Inst α β) (kappa : α) (maxIter : Nat) (out : Inst α β)
    (h : frLayout o inst kappa maxIter = .ok out) (v : Nat) (m : Mod α β)
    (hm : inst.mods[v]? = some m) (hW : 0 ≤ inst.W) (hH : 0 ≤ inst.H)
    (hin : ∀ c, m.center = some c → InDie inst.W inst.H c) :
    ∃ c, out.mods[v]? = some { m with center := some c } ∧ InDie inst.W inst.H c := by
  obtain ⟨pos, hp, rfl⟩ := frLayout_ok o inst kappa maxIter out h
  have hv : v < inst.mods.length := (List.getElem?_eq_some_iff.mp hm).1
  refine ⟨_, writeCentres_mods inst _ v m hm, ?_⟩
  have h0 : InBox inst.W inst.H ((initPos inst).getD v pzero) := by
    cases hc : m.center with
    | none =>
      have : (initPos inst).getD v pzero = pzero := by
        simp only [initPos, List.getD_eq_getElem?_getD, List.getElem?_map, hm, Option.map_some, Option.getD_some, hc]
      rw [this]
      simp only [InBox, pzero, Force.zero_eq]
      refine ⟨by linarith, by linarith, by linarith, by linarith⟩
    | some c =>
      rw [initPos_getD inst v m c hm hc]
      obtain ⟨a1, a2, a3, a4⟩ := hin c hc
      simp only [InBox, psub, pdiv, Force.two_eq]
      refine ⟨by linarith, by linarith, by linarith, by linarith⟩
  have hb : InBox inst.W inst.H (pos.getD v pzero) := by
    cases hf : modFixed inst v with
    | true => rw [fixed_unmoved_positions o inst kappa maxIter pos hp v hv hf]; exact h0
    | false =>
      obtain ⟨k, _, _, rfl⟩ := frPositions_ok o inst kappa maxIter pos hp
      exact frLoop_clamped o inst k (tempStep inst maxIter) maxIter (temp0 inst) (initPos inst)
        v hv hf hW hH (fun _ => h0)
  obtain ⟨h1, h2, h3, h4⟩ := hb
  simp only [InDie, padd, pdiv, Force.two_eq]
  refine ⟨by linarith, by linarith, by linarith, by linarith⟩

/-! ### frame condition (true by construction of the model; see the header) -/

/-- `only_centres`: the result has the same die, the same nets, the same number of modules, and every
    module keeps its area, its fixed flag and everything the payload stands for (name, rectangles, …). -/
theorem only_centres (o : Ops α) (inst : Inst α β) (kappa : α) (maxIter : Nat) (out : Inst α β)
    (h : frLayout o inst kappa maxIter = .ok out) :
    out.W = inst.W ∧ out.H = inst.H ∧ out.nets = inst.nets ∧ out.mods.length = inst.mods.length ∧
    out.mods.map (fun m => (m.area, m.fixed, m.rest)) = inst.mods.map (fun m => (m.area, m.fixed, m.rest)) := by
  obtain ⟨pos, _, rfl⟩ := frLayout_ok o inst kappa maxIter out h
  exact ⟨rfl, rfl, rfl, writeCentres_length _ _, writeCentres_frame _ _⟩

/-! ### the spring constant finally used -/

/-- `best_kappa`: when `force_algorithm` returns (and every cost is below `inf`), the layout returned IS the layout
    of one of the spring constants tried — the one whose cost was scored, since the model is a pure function —,
    its cost is minimal in the table of all constants tried, and it is the FIRST minimum (strictly smaller than
    every earlier entry). -/
theorem best_kappa (o : Ops α) (disc : Pt α → α → Pt α → α → α) (inst : Inst α β) (maxIter : Nat) (out : Inst α β)
    (hlt : ∀ x, o.ltInf x = true)
    (h : forceAlgorithm o disc inst maxIter = .ok out) :
    ∃ (table l1 l2 : List (α × α)) (b : α × α),
      table.map Prod.fst = kappas ∧
      (∀ x ∈ table, costOf o disc inst maxIter x.1 = .ok x.2) ∧
      table = l1 ++ b :: l2 ∧ (∀ x ∈ l1, b.2 < x.2) ∧ (∀ x ∈ l2, b.2 ≤ x.2) ∧
      frLayout o inst b.1 maxIter = .ok out := by
  simp only [forceAlgorithm, bestKappa, bind_ok] at h
  obtain ⟨bo, ⟨table, ht, hb⟩, h⟩ := h
  rw [pure_ok] at hb
  obtain ⟨h1, h2⟩ := costTable_spec _ _ _ ht
  rcases argminFrom_spec o.ltInf hlt table with ⟨he, _⟩ | ⟨b, l1, l2, hb', e, m1, m2⟩
  · exfalso
    rw [he] at h1
    have : (kappas : List α).length = 0 := by rw [← h1]; rfl
    simp [kappas] at this
  · rw [hb'] at hb
    subst hb
    exact ⟨table, l1, l2, b, h1, h2, e, m1, m2, h⟩

/-- consequence: no spring constant tried gives a cheaper layout than the one returned. -/
theorem best_kappa_minimal (o : Ops α) (disc : Pt α → α → Pt α → α → α) (inst : Inst α β) (maxIter : Nat)
    (out : Inst α β) (hlt : ∀ x, o.ltInf x = true) (h : forceAlgorithm o disc inst maxIter = .ok out) :
    ∃ cOut, cost o disc out = .ok cOut ∧
      ∀ kp ∈ (kappas : List α), ∀ l c, frLayout o inst kp maxIter = .ok l → cost o disc l = .ok c → cOut ≤ c := by
  obtain ⟨table, l1, l2, b, h1, h2, e, m1, m2, ho⟩ := best_kappa o disc inst maxIter out hlt h
  have hb : b ∈ table := by rw [e]; simp
  have hcb := h2 b hb
  simp only [costOf, bind_ok] at hcb
  obtain ⟨l0, hl0, hc0⟩ := hcb
  rw [ho] at hl0
  have : l0 = out := (Except.ok.inj hl0).symm
  subst this
  refine ⟨b.2, hc0, ?_⟩
  intro kp hk l c hl hc
  rw [← h1] at hk
  obtain ⟨x, hx, rfl⟩ := List.mem_map.mp hk
  have hcx := h2 x hx
  simp only [costOf, bind_ok] at hcx
  obtain ⟨l', hl', hc'⟩ := hcx
  rw [hl] at hl'
  have : l' = l := (Except.ok.inj hl').symm
  subst this
  rw [hc] at hc'
  have hcx : c = x.2 := Except.ok.inj hc'
  rw [hcx]
  rw [e] at hx
  rcases List.mem_append.mp hx with hx | hx
  · exact le_of_lt (m1 x hx)
  · rcases List.mem_cons.mp hx with hx | hx
    · rw [hx]
    · exact m2 x hx

/-- the frame condition carries over to `force_algorithm`. -/
theorem force_only_centres (o : Ops α) (disc : Pt α → α → Pt α → α → α) (inst : Inst α β) (maxIter : Nat)
    (out : Inst α β) (hlt : ∀ x, o.ltInf x = true) (h : forceAlgorithm o disc inst maxIter = .ok out) :
    out.W = inst.W ∧ out.H = inst.H ∧ out.nets = inst.nets ∧ out.mods.length = inst.mods.length ∧
    out.mods.map (fun m => (m.area, m.fixed, m.rest)) = inst.mods.map (fun m => (m.area, m.fixed, m.rest)) := by
  obtain ⟨_, _, _, b, _, _, _, _, _, ho⟩ := best_kappa o disc inst maxIter out hlt h
  exact only_centres o inst b.1 maxIter out ho

/-- `fixed_unmoved` for `force_algorithm`. -/
theorem force_fixed_unmoved (o : Ops α) (disc : Pt α → α → Pt α → α → α) (inst : Inst α β) (maxIter : Nat)
    (out : Inst α β) (hlt : ∀ x, o.ltInf x = true) (h : forceAlgorithm o disc inst maxIter = .ok out)
    (v : Nat) (m : Mod α β) (c : Pt α) (hm : inst.mods[v]? = some m) (hf : m.fixed = true) (hc : m.center = some c) :
    out.mods[v]? = some m := by
  obtain ⟨_, _, _, b, _, _, _, _, _, ho⟩ := best_kappa o disc inst maxIter out hlt h
  exact fixed_unmoved o inst b.1 maxIter out ho v m c hm hf hc

/-- `movable_centre_inside` for `force_algorithm`: after ≥ 1 iteration a movable module is inside the die
    WHATEVER its start (outside the die, negative coordinates, no centre). -/
theorem force_movable_centre_inside (o : Ops α) (disc : Pt α → α → Pt α → α → α) (inst : Inst α β) (maxIter : Nat)
    (out : Inst α β) (hlt : ∀ x, o.ltInf x = true) (h : forceAlgorithm o disc inst maxIter = .ok out)
    (v : Nat) (m : Mod α β) (hm : inst.mods[v]? = some m) (hf : m.fixed = false)
    (hW : 0 ≤ inst.W) (hH : 0 ≤ inst.H) (hit : 1 ≤ maxIter) :
    ∃ c, out.mods[v]? = some { m with center := some c } ∧ InDie inst.W inst.H c := by
  obtain ⟨_, _, _, b, _, _, _, _, _, ho⟩ := best_kappa o disc inst maxIter out hlt h
  exact movable_centre_inside o inst b.1 maxIter out ho v m hm hf hW hH hit

/-- `centres_inside_die` for `force_algorithm` (any iteration count; needs the input centre inside the die —
    fixed modules and `max_iter = 0` are not clamped by the code). -/
theorem force_centres_inside_die (o : Ops α) (disc : Pt α → α → Pt α → α → α) (inst : Inst α β) (maxIter : Nat)
    (out : Inst α β) (hlt : ∀ x, o.ltInf x = true) (h : forceAlgorithm o disc inst maxIter = .ok out)
    (v : Nat) (m : Mod α β) (hm : inst.mods[v]? = some m) (hW : 0 ≤ inst.W) (hH : 0 ≤ inst.H)
    (hin : ∀ c, m.center = some c → InDie inst.W inst.H c) :
    ∃ c, out.mods[v]? = some { m with center := some c } ∧ InDie inst.W inst.H c := by
  obtain ⟨_, _, _, b, _, _, _, _, _, ho⟩ := best_kappa o disc inst maxIter out hlt h
  exact centres_inside_die o inst b.1 maxIter out ho v m hm hW hH hin

/-! ### non-vacuity: a concrete instance over `Rat` meets the hypotheses -/

section Examples

/-- a numeric library over `Rat` (any functions do: the theorems do not look inside). -/
def opsQ : Ops Rat := { sqrt := fun x => x, powHalf := fun x => x, sq := fun x => x * x, pi := 3, ltInf := fun _ => true }
def discQ : Pt Rat → Rat → Pt Rat → Rat → Rat := fun _ r1 _ r2 => r1 * r2

/-- 8 × 6 die, a fixed module, two movable ones (one on the border, two coincident), a 3-pin net. -/
def instQ : Inst Rat Unit :=
  { W := 8, H := 6,
    mods := [⟨some (1, 1), 4, true, ()⟩, ⟨some (8, 3), 2, false, ()⟩, ⟨some (8, 3), 1, false, ()⟩],
    nets := [⟨[0, 1, 2], 2⟩] }

example : (frLayout opsQ instQ 1 2).toBool = true := by decide +kernel
example : (forceAlgorithm opsQ discQ instQ 2).toBool = true := by decide +kernel
example : ∃ out, frLayout opsQ instQ 1 2 = .ok out :=
  layout_returns opsQ instQ 1 2 (by simp [instQ]) (by simp [opsQ, instQ])
example : frLayout opsQ instQ 0 2 = .error .zeroDiv :=
  layout_kappa_zero_raises opsQ instQ 2 (by decide) ⟨_, List.mem_singleton.mpr rfl, by decide⟩

example (out : Inst Rat Unit) (h : frLayout opsQ instQ 1 2 = .ok out) :
    out.mods[0]? = some ⟨some (1, 1), 4, true, ()⟩ :=
  fixed_unmoved opsQ instQ 1 2 out h 0 _ (1, 1) rfl rfl rfl

example (out : Inst Rat Unit) (h : frLayout opsQ instQ 1 2 = .ok out) :
    ∃ c, out.mods[1]? = some ⟨some c, 2, false, ()⟩ ∧ InDie (8 : Rat) 6 c :=
  movable_centre_inside opsQ instQ 1 2 out h 1 _ rfl rfl (by decide) (by decide) (by decide)

/-- a movable module that STARTS OUTSIDE the die (11, 3) / at negative coordinates, alone or with others, is inside
    after one iteration — `movable_centre_inside` applied. -/
def instOut : Inst Rat Unit :=
  { W := 8, H := 6, mods := [⟨some (11, 3), 4, false, ()⟩, ⟨some (-1, 15 / 2), 0, false, ()⟩], nets := [] }

example : (frLayout opsQ instOut 1 1).toBool = true := by decide +kernel
example (out : Inst Rat Unit) (h : frLayout opsQ instOut 1 1 = .ok out) :
    ∃ c, out.mods[0]? = some ⟨some c, 4, false, ()⟩ ∧ InDie (8 : Rat) 6 c :=
  movable_centre_inside opsQ instOut 1 1 out h 0 _ rfl rfl (by decide) (by decide) (by decide)

/-- the `force_algorithm` theorems applied to `instQ`. -/
example (out : Inst Rat Unit) (h : forceAlgorithm opsQ discQ instQ 2 = .ok out) :
    ∃ cOut, cost opsQ discQ out = .ok cOut ∧
      ∀ kp ∈ (kappas : List Rat), ∀ l c, frLayout opsQ instQ kp 2 = .ok l → cost opsQ discQ l = .ok c → cOut ≤ c :=
  best_kappa_minimal opsQ discQ instQ 2 out (fun _ => rfl) h

example (out : Inst Rat Unit) (h : forceAlgorithm opsQ discQ instQ 2 = .ok out) :
    out.mods[0]? = some ⟨some (1, 1), 4, true, ()⟩ :=
  force_fixed_unmoved opsQ discQ instQ 2 out (fun _ => rfl) h 0 _ (1, 1) rfl rfl rfl

example (out : Inst Rat Unit) (h : forceAlgorithm opsQ discQ instQ 2 = .ok out) :
    ∃ c, out.mods[2]? = some ⟨some c, 1, false, ()⟩ ∧ InDie (8 : Rat) 6 c :=
  force_centres_inside_die opsQ discQ instQ 2 out (fun _ => rfl) h 2 _ rfl (by decide) (by decide)
    (by intro c hc; cases hc; simp only [InDie, instQ]; norm_num)

end Examples

end FV.C13

import FV.Proofs.Force
/-
  C13 — Force-directed relocation: fixed modules stay, centres stay in the die.

  Property theorems about the model `FV/Model/Force.lean` of `fruchterman_reingold_layout` and
  `force_algorithm`.  They hold in every linearly ordered field `α` (exact arithmetic), for EVERY choice of
  the numeric library (`Ops`: `sqrt`, `** (1/2)`, `** 2`, `pi`) and of the disc-overlap function, every spring
  constant `kappa` (also `kappa ≤ 0`: in a field `x / 0 = 0`; the Python raises `ZeroDivisionError` for
  `kappa = 0`, which is excluded by the property's hypothesis `kappa > 0`), every iteration count and every
  netlist (any mix of fixed / movable modules, coincident centres, centres on the border, nets of any arity
  and weight, pins out of range included).

  What is NOT proved here (float matters, decided by search in `harness/props/c13.py`):
  finiteness of the IEEE computation, the ≤ 1 ulp drift of `c - s + s` for fixed modules, and that
  `copy.deepcopy` / the Python object graph behaves like the pure function of the model.
  `clamp_total_any_order` is the one statement that also covers `Float`: it uses no order axiom.
-/
namespace FV.C13
open FV FV.Force
set_option linter.unusedSectionVars false
set_option linter.unusedVariables false

variable {α : Type} [Field α] [LinearOrder α] [IsStrictOrderedRing α] {β : Type}

/-- the die `[0, W] × [0, H]`. -/
def InDie (W H : α) (c : Pt α) : Prop := 0 ≤ c.1 ∧ c.1 ≤ W ∧ 0 ≤ c.2 ∧ c.2 ≤ H

/-! ### fixed modules do not move -/

/-- along the whole run (any number of iterations) the position of a fixed module is the initial one. -/
theorem fixed_unmoved_positions (o : Ops α) (inst : Inst α β) (kappa : α) (maxIter : Nat) (v : Nat)
    (hv : v < inst.mods.length) (hf : modFixed inst v = true) :
    (frPositions o inst kappa maxIter).getD v pzero = (initPos inst).getD v pzero := by
  unfold frPositions
  exact frLoop_fixed o inst _ _ maxIter _ _ v hv hf

/-- `fixed_unmoved`: a fixed module comes back unchanged — its centre `(c - s) + s` equals `c` exactly. -/
theorem fixed_unmoved (o : Ops α) (inst : Inst α β) (kappa : α) (maxIter : Nat) (v : Nat) (m : Mod α β) (c : Pt α)
    (hm : inst.mods[v]? = some m) (hf : m.fixed = true) (hc : m.center = some c) :
    (frLayout o inst kappa maxIter).mods[v]? = some m := by
  have hv : v < inst.mods.length := (List.getElem?_eq_some_iff.mp hm).1
  have hfx : modFixed inst v = true := by simp [modFixed, hm, hf]
  unfold frLayout
  rw [writeCentres_mods inst _ v m hm, fixed_unmoved_positions o inst kappa maxIter v hv hfx,
    initPos_getD inst v m c hm hc, shift_back, ← hc]

/-! ### movable modules are clamped to the die -/

/-- the clamp of lines 123–124 lands in `{lo, hi}` or strictly between them using nothing but the
    `if`-structure of Python's `min`/`max`: it holds for any type with a decidable `<` — IEEE doubles
    (Lean's `Float`, NaN and ±inf included) as well as ordered fields. -/
theorem clamp_total_any_order {γ : Type} [LT γ] [DecidableLT γ] (lo hi x : γ) :
    pyMin hi (pyMax lo x) = hi ∨ pyMin hi (pyMax lo x) = lo ∨
      (pyMin hi (pyMax lo x) = x ∧ lo < x ∧ x < hi) :=
  clamp_trichotomy lo hi x

/-- `clamped`: after EVERY step, whatever the displacement, a movable position lies in
    `[-W/2, W/2] × [-H/2, H/2]`. -/
theorem clamped (o : Ops α) (inst : Inst α β) (k t : α) (pos : List (Pt α)) (v : Nat)
    (hv : v < inst.mods.length) (hf : modFixed inst v = false) (hW : 0 ≤ inst.W) (hH : 0 ≤ inst.H) :
    InBox inst.W inst.H ((frStep o inst k t pos).getD v pzero) :=
  frStep_clamped o inst k t pos v hv hf hW hH

/-- a step is `moveOne` on each node for SOME displacement: nothing else about the forces matters. -/
theorem step_is_moveOne (o : Ops α) (inst : Inst α β) (k t : α) (pos : List (Pt α)) (v : Nat)
    (hv : v < inst.mods.length) :
    ∃ d : Pt α, (frStep o inst k t pos).getD v pzero =
      moveOne o inst.W inst.H t (modFixed inst v) (pos.getD v pzero) d :=
  frStep_getD o inst k t pos v hv

/-- after at least one iteration every movable module's centre is inside the die. -/
theorem movable_centre_inside (o : Ops α) (inst : Inst α β) (kappa : α) (maxIter : Nat) (v : Nat) (m : Mod α β)
    (hm : inst.mods[v]? = some m) (hf : m.fixed = false) (hW : 0 ≤ inst.W) (hH : 0 ≤ inst.H)
    (hit : 1 ≤ maxIter) :
    ∃ c, (frLayout o inst kappa maxIter).mods[v]? = some { m with center := some c } ∧ InDie inst.W inst.H c := by
  have hv : v < inst.mods.length := (List.getElem?_eq_some_iff.mp hm).1
  have hfx : modFixed inst v = false := by simp [modFixed, hm, hf]
  refine ⟨_, writeCentres_mods inst _ v m hm, ?_⟩
  have hb := frLoop_clamped o inst (springK o inst kappa) (tempStep inst maxIter) maxIter (temp0 inst) (initPos inst)
    v hv hfx hW hH (by omega)
  obtain ⟨h1, h2, h3, h4⟩ := hb
  simp only [InDie, padd, pdiv, Force.two_eq]
  change -inst.W / 2 ≤ ((frPositions o inst kappa maxIter).getD v pzero).1 at h1
  change ((frPositions o inst kappa maxIter).getD v pzero).1 ≤ inst.W / 2 at h2
  change -inst.H / 2 ≤ ((frPositions o inst kappa maxIter).getD v pzero).2 at h3
  change ((frPositions o inst kappa maxIter).getD v pzero).2 ≤ inst.H / 2 at h4
  refine ⟨by linarith, by linarith, by linarith, by linarith⟩

/-- `centres_inside_die`: if the centres given on input are inside the die, then for every iteration count
    (0 included) every module of the result has a centre, and it is inside the die. -/
theorem centres_inside_die (o : Ops α) (inst : Inst α β) (kappa : α) (maxIter : Nat) (v : Nat) (m : Mod α β)
    (hm : inst.mods[v]? = some m) (hW : 0 ≤ inst.W) (hH : 0 ≤ inst.H)
    (hin : ∀ c, m.center = some c → InDie inst.W inst.H c) :
    ∃ c, (frLayout o inst kappa maxIter).mods[v]? = some { m with center := some c } ∧ InDie inst.W inst.H c := by
  have hv : v < inst.mods.length := (List.getElem?_eq_some_iff.mp hm).1
  refine ⟨_, writeCentres_mods inst _ v m hm, ?_⟩
  -- the initial position is in the box
  have h0 : InBox inst.W inst.H ((initPos inst).getD v pzero) := by
    cases hc : m.center with
    | none =>
      have : (initPos inst).getD v pzero = pzero := by
        simp only [initPos, List.getD_eq_getElem?_getD, List.getElem?_map, hm, Option.map_some, Option.getD_some, hc]
      rw [this]
      simp only [InBox, pzero, Force.zero_eq]
      refine ⟨by linarith, by linarith, by linarith, by linarith⟩
    | some c =>
      rw [initPos_getD inst v m c hm hc]
      obtain ⟨a1, a2, a3, a4⟩ := hin c hc
      simp only [InBox, psub, pdiv, Force.two_eq]
      refine ⟨by linarith, by linarith, by linarith, by linarith⟩
  have hb : InBox inst.W inst.H ((frPositions o inst kappa maxIter).getD v pzero) := by
    cases hf : modFixed inst v with
    | true => rw [fixed_unmoved_positions o inst kappa maxIter v hv hf]; exact h0
    | false =>
      exact frLoop_clamped o inst (springK o inst kappa) (tempStep inst maxIter) maxIter (temp0 inst) (initPos inst)
        v hv hf hW hH (fun _ => h0)
  obtain ⟨h1, h2, h3, h4⟩ := hb
  simp only [InDie, padd, pdiv, Force.two_eq]
  refine ⟨by linarith, by linarith, by linarith, by linarith⟩

/-! ### frame condition -/

/-- `only_centres`: the result has the same die, the same nets, the same number of modules, and every
    module keeps its area, its fixed flag and everything the payload stands for (name, rectangles, …). -/
theorem only_centres (o : Ops α) (inst : Inst α β) (kappa : α) (maxIter : Nat) :
    (frLayout o inst kappa maxIter).W = inst.W ∧ (frLayout o inst kappa maxIter).H = inst.H ∧
    (frLayout o inst kappa maxIter).nets = inst.nets ∧
    (frLayout o inst kappa maxIter).mods.length = inst.mods.length ∧
    (frLayout o inst kappa maxIter).mods.map (fun m => (m.area, m.fixed, m.rest)) =
      inst.mods.map (fun m => (m.area, m.fixed, m.rest)) :=
  ⟨rfl, rfl, rfl, writeCentres_length _ _, writeCentres_frame _ _⟩

/-! ### the spring constant finally used -/

/-- `best_kappa` (+ `deterministic`): when `force_algorithm` returns, the layout returned IS the layout
    computed for one of the spring constants tried (the model is a pure function of die, centres, areas, fixed
    flags, nets, kappa and the iteration count — no hidden state, so re-running it reproduces the layout that
    was scored), its cost is minimal in the table of all constants tried, and it is the FIRST minimum
    (strictly smaller than every earlier entry). -/
theorem best_kappa (o : Ops α) (disc : Pt α → α → Pt α → α → α) (inst : Inst α β) (maxIter : Nat) (out : Inst α β)
    (h : forceAlgorithm o disc inst maxIter = some out) :
    ∃ (table l1 l2 : List (α × α)) (b : α × α),
      table.map Prod.fst = kappas ∧
      (∀ x ∈ table, cost o disc (frLayout o inst x.1 maxIter) = some x.2) ∧
      table = l1 ++ b :: l2 ∧ (∀ x ∈ l1, b.2 < x.2) ∧ (∀ x ∈ l2, b.2 ≤ x.2) ∧
      out = frLayout o inst b.1 maxIter := by
  simp only [forceAlgorithm, bestKappa, bind, Option.bind] at h
  split at h
  · simp at h
  · rename_i b hb
    split at hb
    · simp at hb
    · rename_i table ht
      simp only [pure, Option.some.injEq] at h
      obtain ⟨h1, h2⟩ := costTable_spec _ _ _ ht
      obtain ⟨l1, l2, e, m1, m2⟩ := argminFirst_spec table b hb
      exact ⟨table, l1, l2, b, h1, h2, e, m1, m2, h.symm⟩

/-- consequence: no spring constant tried gives a cheaper layout than the one returned. -/
theorem best_kappa_minimal (o : Ops α) (disc : Pt α → α → Pt α → α → α) (inst : Inst α β) (maxIter : Nat)
    (out : Inst α β) (h : forceAlgorithm o disc inst maxIter = some out) :
    ∃ cOut, cost o disc out = some cOut ∧
      ∀ kp ∈ (kappas : List α), ∀ c, cost o disc (frLayout o inst kp maxIter) = some c → cOut ≤ c := by
  obtain ⟨table, l1, l2, b, h1, h2, e, m1, m2, ho⟩ := best_kappa o disc inst maxIter out h
  have hb : b ∈ table := by rw [e]; simp
  refine ⟨b.2, by rw [ho]; exact h2 b hb, ?_⟩
  intro kp hk c hc
  rw [← h1] at hk
  obtain ⟨x, hx, rfl⟩ := List.mem_map.mp hk
  have := h2 x hx
  rw [hc] at this
  have hcx : c = x.2 := Option.some.inj this
  rw [hcx]
  rw [e] at hx
  rcases List.mem_append.mp hx with hx | hx
  · exact le_of_lt (m1 x hx)
  · rcases List.mem_cons.mp hx with hx | hx
    · rw [hx]
    · exact m2 x hx

/-- the frame condition and the clauses above carry over to `force_algorithm`. -/
theorem force_only_centres (o : Ops α) (disc : Pt α → α → Pt α → α → α) (inst : Inst α β) (maxIter : Nat)
    (out : Inst α β) (h : forceAlgorithm o disc inst maxIter = some out) :
    out.W = inst.W ∧ out.H = inst.H ∧ out.nets = inst.nets ∧ out.mods.length = inst.mods.length ∧
    out.mods.map (fun m => (m.area, m.fixed, m.rest)) = inst.mods.map (fun m => (m.area, m.fixed, m.rest)) := by
  obtain ⟨_, _, _, b, _, _, _, _, _, ho⟩ := best_kappa o disc inst maxIter out h
  rw [ho]; exact only_centres o inst b.1 maxIter

/-! ### non-vacuity: a concrete instance over `Rat` meets the hypotheses -/

section Examples

/-- a numeric library over `Rat` (any functions do: the theorems do not look inside). -/
def opsQ : Ops Rat := { sqrt := fun x => x, powHalf := fun x => x, sq := fun x => x * x, pi := 3 }
def discQ : Pt Rat → Rat → Pt Rat → Rat → Rat := fun _ r1 _ r2 => r1 * r2

/-- 8 × 6 die, a fixed module, two movable ones (one on the border, two coincident), a 3-pin net. -/
def instQ : Inst Rat Unit :=
  { W := 8, H := 6,
    mods := [⟨some (1, 1), 4, true, ()⟩, ⟨some (8, 3), 2, false, ()⟩, ⟨some (8, 3), 1, false, ()⟩],
    nets := [⟨[0, 1, 2], 2⟩] }

example : (frLayout opsQ instQ 1 2).mods[0]? = some ⟨some (1, 1), 4, true, ()⟩ :=
  fixed_unmoved opsQ instQ 1 2 0 _ (1, 1) rfl rfl rfl

example : (forceAlgorithm opsQ discQ instQ 2).isSome = true := by decide +kernel

example : ∃ c, (frLayout opsQ instQ 1 2).mods[1]? = some ⟨some c, 2, false, ()⟩ ∧ InDie (8 : Rat) 6 c :=
  movable_centre_inside opsQ instQ 1 2 1 _ rfl rfl (by decide) (by decide) (by decide)

end Examples

end FV.C13

import FV.Proofs.Force
import FV.Proofs.ForceRet
/-
  C13 — Force-directed relocation: fixed modules stay, centres stay in the die.

  Property theorems about the model `FV/Model/Force.lean` of `fruchterman_reingold_layout` and
  `force_algorithm`.  They hold in every linearly ordered field `α` (exact arithmetic), for EVERY choice of
  the numeric library (`Ops`: `sqrt`, `** (1/2)`, `** 2`, `pi`) and of the disc-overlap function, every spring
  constant, every iteration count and every netlist (any mix of fixed / movable modules, coincident centres,
  centres on the border, nets of any arity and weight, pins out of range included).

  Exceptions.  The model raises where the Python raises: `ZeroDivisionError` for a netlist without modules
  (`/ num_modules`) and when `k == 0` (e.g. `kappa = 0`) as soon as an attraction term is evaluated (`/ k`); a
  failing `assert` for a missing centre in the cost.  Every theorem below is conditional on the call returning
  (`= .ok out`); `layout_returns` / `layout_kappa_zero_raises` say when the layout does, `cost_returns` that the cost
  of ANY layout is computable, and `force_returns` that `force_algorithm` returns for every well-formed input (≥ 1
  module, `(W·H/n) ** (1/2) ≠ 0`, nets with ≥ 1 pin whose pins are modules — the model's `.assertion` for an
  out-of-range pin cannot occur in Python, where nets hold module objects — and `cost < inf`, see below).

  Boundary of "every centre inside the die": the code clamps a MOVABLE module in every iteration, so after ≥ 1
  iteration it is inside whatever its start — outside the die, negative, missing (`movable_centre_inside`).  It never
  clamps a FIXED module, and with `max_iter = 0` nothing is clamped: those centres are inside iff they were on input
  (`centres_inside_die`, hypothesis `hin`); the harness generates out-of-die starts and checks exactly this split.  No theorem relies on the field
  convention `x / 0 = 0` for these divisors.  `force_algorithm` starts from `best_cost = inf`: a cost that is not
  below `inf` (inf / NaN doubles) never wins and `best_kappa` stays `0.0`; `Ops.ltInf` models `cost < inf` and
  the theorems assume it is always true (it is for every number of an ordered field).

  How the clauses of the property are covered:
  * fixed modules not moved — `fixed_unmoved` (equality; on doubles `c - s + s` drifts by ≤ 1 ulp: searched);
  * every centre inside the die — `movable_centre_inside`, `centres_inside_die`;
  * FINITE — not expressible over an ordered field.  `clamp_total_any_order` uses no order axiom and therefore holds
    for IEEE doubles (NaN / ±inf are clamped to a side of the die); finiteness of whole runs is searched by the harness;
  * nothing but centres changed — `only_centres`, `force_only_centres`: TRUE BY CONSTRUCTION of the model (the payload
    `rest` is never touched); the assurance for the Python is the harness' deep snapshot (all rectangles incl. default
    squares, areas, nets, flags) under several object histories with aliased centre Points;
  * DETERMINISTIC — `deterministic` (the model is a function: no hidden state, draw or clock) and, with content,
    `layout_reads_only_core` / `force_reads_only_core` / `force_payload_irrelevant`: the centres returned are a function of
    the die size, the nets and per module (centre, area, fixed flag) ONLY — names, rectangles, hash values, … cannot
    matter.  What ties this to the Python is the harness: two runs bit-identical, 5 interpreter processes with different
    PYTHONHASHSEED bit-identical, the layout returned by `force_algorithm` bit-identical to the layout scored for the
    selected constant (`copy.deepcopy` and object aliasing — trusted base — are exercised there);
  * `visualize` (centres written back before the loop and after every iteration instead of once at the end) —
    `visualize_same_layout`, `visualize_frames`, `force_visualize_same`: same die, `max_iter + 1` frames;
  * `max_iter = 0` / fixed modules outside the die (NOT clamped by the code) — `zero_iterations_unmoved`,
    `zero_iterations_no_centre`, `fixed_unmoved`, with kernel-checked witnesses that stay outside the die;
  * `total_intersection_area` — `tia_each_pair_once` (every unordered pair of distinct positions, once per order),
    `tia_twice_pairs` (symmetric overlap), `tia_nonneg`, `tia_perm` (module order irrelevant);
  * smallest cost among the constants tried — `best_kappa`, `best_kappa_minimal` (first strict minimum).
-/
namespace FV.C13
open FV FV.Force
set_option linter.unusedSectionVars false
set_option linter.unusedVariables false

variable {α : Type} [Field α] [LinearOrder α] [IsStrictOrderedRing α] {β : Type}

/-- the die `[0, W] × [0, H]`. -/
def InDie (W H : α) (c : Pt α) : Prop := 0 ≤ c.1 ∧ c.1 ≤ W ∧ 0 ≤ c.2 ∧ c.2 ≤ H

/-! ### when the layout returns -/

/-- the layout returns for a non-empty netlist whenever `k ≠ 0` (e.g. `kappa ≠ 0` and a positive die area with a
    `** (1/2)` that is positive on positive numbers). -/
theorem layout_returns (o : Ops α) (inst : Inst α β) (kappa : α) (maxIter : Nat)
    (hn : inst.mods ≠ [])
    (hk : kappa * o.powHalf (inst.W * inst.H / ((inst.mods.length : Nat) : α)) ≠ 0) :
    ∃ out, frLayout o inst kappa maxIter = .ok out := by
  have hl : inst.mods.length ≠ 0 := by simpa using hn
  have hz : isZeroF (kappa * o.powHalf (inst.W * inst.H / ((inst.mods.length : Nat) : α))) = false := by
    cases h : isZeroF (kappa * o.powHalf (inst.W * inst.H / ((inst.mods.length : Nat) : α))) with
    | true => exact absurd ((isZeroF_iff _).mp h) hk
    | false => rfl
  refine ⟨writeCentres inst (frLoop o inst (kappa * o.powHalf (inst.W * inst.H / ((inst.mods.length : Nat) : α)))
    (tempStep inst maxIter) maxIter (temp0 inst) (initPos inst)), ?_⟩
  simp only [frLayout, frPositions, springK, hl, ↓reduceIte, bind, Except.bind, attractionRaises, hz, Bool.false_and,
    Bool.false_eq_true, pure, Except.pure]

/-- with `kappa = 0` the model raises `ZeroDivisionError` exactly where the Python does: as soon as there is an
    iteration and a net with two pins (and it raises for a netlist without modules, whatever `kappa`). -/
theorem layout_kappa_zero_raises (o : Ops α) (inst : Inst α β) (maxIter : Nat)
    (hi : 0 < maxIter) (hnet : ∃ e ∈ inst.nets, 2 ≤ e.pins.length) :
    frLayout o inst 0 maxIter = .error .zeroDiv := by
  obtain ⟨e, he, h2⟩ := hnet
  by_cases hl : inst.mods.length = 0
  · simp [frLayout, frPositions, springK, hl, bind, Except.bind]
  · have hz : isZeroF (0 : α) = true := (isZeroF_iff _).mpr rfl
    have hany : inst.nets.any (fun e => decide (2 ≤ e.pins.length)) = true :=
      List.any_eq_true.mpr ⟨e, he, by simpa using h2⟩
    simp [frLayout, frPositions, springK, hl, bind, Except.bind, attractionRaises, hz, hi, hany]

theorem layout_no_modules_raises (o : Ops α) (inst : Inst α β) (kappa : α) (maxIter : Nat) (h : inst.mods = []) :
    frLayout o inst kappa maxIter = .error .zeroDiv := by
  simp [frLayout, frPositions, springK, h, bind, Except.bind]

/-! ### fixed modules do not move -/

/-- along the whole run (any number of iterations) the position of a fixed module is the initial one. -/
theorem fixed_unmoved_positions (o : Ops α) (inst : Inst α β) (kappa : α) (maxIter : Nat) (pos : List (Pt α))
    (h : frPositions o inst kappa maxIter = .ok pos) (v : Nat)
    (hv : v < inst.mods.length) (hf : modFixed inst v = true) :
    pos.getD v pzero = (initPos inst).getD v pzero := by
  obtain ⟨k, _, _, rfl⟩ := frPositions_ok o inst kappa maxIter pos h
  exact frLoop_fixed o inst _ _ maxIter _ _ v hv hf

/-- `fixed_unmoved`: a fixed module comes back unchanged — its centre `(c - s) + s` equals `c` exactly. -/
theorem fixed_unmoved (o : Ops α) (inst : Inst α β) (kappa : α) (maxIter : Nat) (out : Inst α β)
    (h : frLayout o inst kappa maxIter = .ok out) (v : Nat) (m : Mod α β) (c : Pt α)
    (hm : inst.mods[v]? = some m) (hf : m.fixed = true) (hc : m.center = some c) :
    out.mods[v]? = some m := by
  obtain ⟨pos, hp, rfl⟩ := frLayout_ok o inst kappa maxIter out h
  have hv : v < inst.mods.length := (List.getElem?_eq_some_iff.mp hm).1
  have hfx : modFixed inst v = true := by simp [modFixed, hm, hf]
  rw [writeCentres_mods inst _ v m hm, fixed_unmoved_positions o inst kappa maxIter pos hp v hv hfx,
    initPos_getD inst v m c hm hc, shift_back, ← hc]

/-! ### movable modules are clamped to the die -/

/-- the clamp of lines 123–124 lands in `{lo, hi}` or strictly between them using nothing but the
    `if`-structure of Python's `min`/`max`: it holds for any type with a decidable `<` — IEEE doubles
    (Lean's `Float`, NaN and ±inf included) as well as ordered fields. -/
theorem clamp_total_any_order {γ : Type} [LT γ] [DecidableLT γ] (lo hi x : γ) :
    pyMin hi (pyMax lo x) = hi ∨ pyMin hi (pyMax lo x) = lo ∨
      (pyMin hi (pyMax lo x) = x ∧ lo < x ∧ x < hi) :=
  clamp_trichotomy lo hi x

/-- `clamped`: after EVERY step, whatever the displacement, a movable position lies in
    `[-W/2, W/2] × [-H/2, H/2]`. -/
theorem clamped (o : Ops α) (inst : Inst α β) (k t : α) (pos : List (Pt α)) (v : Nat)
    (hv : v < inst.mods.length) (hf : modFixed inst v = false) (hW : 0 ≤ inst.W) (hH : 0 ≤ inst.H) :
    InBox inst.W inst.H ((frStep o inst k t pos).getD v pzero) :=
  frStep_clamped o inst k t pos v hv hf hW hH

/-- a step is `moveOne` on each node for SOME displacement: nothing else about the forces matters. -/
theorem step_is_moveOne (o : Ops α) (inst : Inst α β) (k t : α) (pos : List (Pt α)) (v : Nat)
    (hv : v < inst.mods.length) :
    ∃ d : Pt α, (frStep o inst k t pos).getD v pzero =
      moveOne o inst.W inst.H t (modFixed inst v) (pos.getD v pzero) d :=
  frStep_getD o inst k t pos v hv

/-- after at least one iteration every movable module's centre is inside the die. -/
theorem movable_centre_inside (o : Ops α) (inst : Inst α β) (kappa : α) (maxIter : Nat) (out : Inst α β)
    (h : frLayout o inst kappa maxIter = .ok out) (v : Nat) (m : Mod α β)
    (hm : inst.mods[v]? = some m) (hf : m.fixed = false) (hW : 0 ≤ inst.W) (hH : 0 ≤ inst.H)
    (hit : 1 ≤ maxIter) :
    ∃ c, out.mods[v]? = some { m with center := some c } ∧ InDie inst.W inst.H c := by
  obtain ⟨pos, hp, rfl⟩ := frLayout_ok o inst kappa maxIter out h
  obtain ⟨k, _, _, rfl⟩ := frPositions_ok o inst kappa maxIter pos hp
  have hv : v < inst.mods.length := (List.getElem?_eq_some_iff.mp hm).1
  have hfx : modFixed inst v = false := by simp [modFixed, hm, hf]
  refine ⟨_, writeCentres_mods inst _ v m hm, ?_⟩
  obtain ⟨h1, h2, h3, h4⟩ := frLoop_clamped o inst k (tempStep inst maxIter) maxIter (temp0 inst) (initPos inst)
    v hv hfx hW hH (by omega)
  simp only [InDie, padd, pdiv, Force.two_eq]
  refine ⟨by linarith, by linarith, by linarith, by linarith⟩

/-- `centres_inside_die`: if the centres given on input are inside the die, then for every iteration count
    (0 included) every module of the result has a centre, and it is inside the die. -/
theorem centres_inside_die (o : Ops α) (inst : Inst α β) (kappa : α) (maxIter : Nat) (out : Inst α β)
    (h : frLayout o inst kappa maxIter = .ok out) (v : Nat) (m : Mod α β)
    (hm : inst.mods[v]? = some m) (hW : 0 ≤ inst.W) (hH : 0 ≤ inst.H)
    (hin : ∀ c, m.center = some c → InDie inst.W inst.H c) :
    ∃ c, out.mods[v]? = some { m with center := some c } ∧ InDie inst.W inst.H c := by
  obtain ⟨pos, hp, rfl⟩ := frLayout_ok o inst kappa maxIter out h
  have hv : v < inst.mods.length := (List.getElem?_eq_some_iff.mp hm).1
  refine ⟨_, writeCentres_mods inst _ v m hm, ?_⟩
  have h0 : InBox inst.W inst.H ((initPos inst).getD v pzero) := by
    cases hc : m.center with
    | none =>
      have : (initPos inst).getD v pzero = pzero := by
        simp only [initPos, List.getD_eq_getElem?_getD, List.getElem?_map, hm, Option.map_some, Option.getD_some, hc]
      rw [this]
      simp only [InBox, pzero, Force.zero_eq]
      refine ⟨by linarith, by linarith, by linarith, by linarith⟩
    | some c =>
      rw [initPos_getD inst v m c hm hc]
      obtain ⟨a1, a2, a3, a4⟩ := hin c hc
      simp only [InBox, psub, pdiv, Force.two_eq]
      refine ⟨by linarith, by linarith, by linarith, by linarith⟩
  have hb : InBox inst.W inst.H (pos.getD v pzero) := by
    cases hf : modFixed inst v with
    | true => rw [fixed_unmoved_positions o inst kappa maxIter pos hp v hv hf]; exact h0
    | false =>
      obtain ⟨k, _, _, rfl⟩ := frPositions_ok o inst kappa maxIter pos hp
      exact frLoop_clamped o inst k (tempStep inst maxIter) maxIter (temp0 inst) (initPos inst)
        v hv hf hW hH (fun _ => h0)
  obtain ⟨h1, h2, h3, h4⟩ := hb
  simp only [InDie, padd, pdiv, Force.two_eq]
  refine ⟨by linarith, by linarith, by linarith, by linarith⟩

/-! ### frame condition (true by construction of the model; see the header) -/

/-- `only_centres`: the result has the same die, the same nets, the same number of modules, and every
    module keeps its area, its fixed flag and everything the payload stands for (name, rectangles, …). -/
theorem only_centres (o : Ops α) (inst : Inst α β) (kappa : α) (maxIter : Nat) (out : Inst α β)
    (h : frLayout o inst kappa maxIter = .ok out) :
    out.W = inst.W ∧ out.H = inst.H ∧ out.nets = inst.nets ∧ out.mods.length = inst.mods.length ∧
    out.mods.map (fun m => (m.area, m.fixed, m.rest)) = inst.mods.map (fun m => (m.area, m.fixed, m.rest)) := by
  obtain ⟨pos, _, rfl⟩ := frLayout_ok o inst kappa maxIter out h
  exact ⟨rfl, rfl, rfl, writeCentres_length _ _, writeCentres_frame _ _⟩

/-! ### the spring constant finally used -/

/-- `best_kappa`: when `force_algorithm` returns (and every cost is below `inf`), the layout returned IS the layout
    of one of the spring constants tried — the one whose cost was scored, since the model is a pure function —,
    its cost is minimal in the table of all constants tried, and it is the FIRST minimum (strictly smaller than
    every earlier entry). -/
theorem best_kappa (o : Ops α) (disc : Pt α → α → Pt α → α → α) (inst : Inst α β) (maxIter : Nat) (out : Inst α β)
    (hlt : ∀ x, o.ltInf x = true)
    (h : forceAlgorithm o disc inst maxIter = .ok out) :
    ∃ (table l1 l2 : List (α × α)) (b : α × α),
      table.map Prod.fst = kappas ∧
      (∀ x ∈ table, costOf o disc inst maxIter x.1 = .ok x.2) ∧
      table = l1 ++ b :: l2 ∧ (∀ x ∈ l1, b.2 < x.2) ∧ (∀ x ∈ l2, b.2 ≤ x.2) ∧
      frLayout o inst b.1 maxIter = .ok out := by
  simp only [forceAlgorithm, bestKappa, bind_ok] at h
  obtain ⟨bo, ⟨table, ht, hb⟩, h⟩ := h
  rw [pure_ok] at hb
  obtain ⟨h1, h2⟩ := costTable_spec _ _ _ ht
  rcases argminFrom_spec o.ltInf hlt table with ⟨he, _⟩ | ⟨b, l1, l2, hb', e, m1, m2⟩
  · exfalso
    rw [he] at h1
    have : (kappas : List α).length = 0 := by rw [← h1]; rfl
    simp [kappas] at this
  · rw [hb'] at hb
    subst hb
    exact ⟨table, l1, l2, b, h1, h2, e, m1, m2, h⟩

/-- consequence: no spring constant tried gives a cheaper layout than the one returned. -/
theorem best_kappa_minimal (o : Ops α) (disc : Pt α → α → Pt α → α → α) (inst : Inst α β) (maxIter : Nat)
    (out : Inst α β) (hlt : ∀ x, o.ltInf x = true) (h : forceAlgorithm o disc inst maxIter = .ok out) :
    ∃ cOut, cost o disc out = .ok cOut ∧
      ∀ kp ∈ (kappas : List α), ∀ l c, frLayout o inst kp maxIter = .ok l → cost o disc l = .ok c → cOut ≤ c := by
  obtain ⟨table, l1, l2, b, h1, h2, e, m1, m2, ho⟩ := best_kappa o disc inst maxIter out hlt h
  have hb : b ∈ table := by rw [e]; simp
  have hcb := h2 b hb
  simp only [costOf, bind_ok] at hcb
  obtain ⟨l0, hl0, hc0⟩ := hcb
  rw [ho] at hl0
  have : l0 = out := (Except.ok.inj hl0).symm
  subst this
  refine ⟨b.2, hc0, ?_⟩
  intro kp hk l c hl hc
  rw [← h1] at hk
  obtain ⟨x, hx, rfl⟩ := List.mem_map.mp hk
  have hcx := h2 x hx
  simp only [costOf, bind_ok] at hcx
  obtain ⟨l', hl', hc'⟩ := hcx
  rw [hl] at hl'
  have : l' = l := (Except.ok.inj hl').symm
  subst this
  rw [hc] at hc'
  have hcx : c = x.2 := Except.ok.inj hc'
  rw [hcx]
  rw [e] at hx
  rcases List.mem_append.mp hx with hx | hx
  · exact le_of_lt (m1 x hx)
  · rcases List.mem_cons.mp hx with hx | hx
    · rw [hx]
    · exact m2 x hx

/-- the frame condition carries over to `force_algorithm`. -/
theorem force_only_centres (o : Ops α) (disc : Pt α → α → Pt α → α → α) (inst : Inst α β) (maxIter : Nat)
    (out : Inst α β) (hlt : ∀ x, o.ltInf x = true) (h : forceAlgorithm o disc inst maxIter = .ok out) :
    out.W = inst.W ∧ out.H = inst.H ∧ out.nets = inst.nets ∧ out.mods.length = inst.mods.length ∧
    out.mods.map (fun m => (m.area, m.fixed, m.rest)) = inst.mods.map (fun m => (m.area, m.fixed, m.rest)) := by
  obtain ⟨_, _, _, b, _, _, _, _, _, ho⟩ := best_kappa o disc inst maxIter out hlt h
  exact only_centres o inst b.1 maxIter out ho

/-- `fixed_unmoved` for `force_algorithm`. -/
theorem force_fixed_unmoved (o : Ops α) (disc : Pt α → α → Pt α → α → α) (inst : Inst α β) (maxIter : Nat)
    (out : Inst α β) (hlt : ∀ x, o.ltInf x = true) (h : forceAlgorithm o disc inst maxIter = .ok out)
    (v : Nat) (m : Mod α β) (c : Pt α) (hm : inst.mods[v]? = some m) (hf : m.fixed = true) (hc : m.center = some c) :
    out.mods[v]? = some m := by
  obtain ⟨_, _, _, b, _, _, _, _, _, ho⟩ := best_kappa o disc inst maxIter out hlt h
  exact fixed_unmoved o inst b.1 maxIter out ho v m c hm hf hc

/-- `movable_centre_inside` for `force_algorithm`: after ≥ 1 iteration a movable module is inside the die
    WHATEVER its start (outside the die, negative coordinates, no centre). -/
theorem force_movable_centre_inside (o : Ops α) (disc : Pt α → α → Pt α → α → α) (inst : Inst α β) (maxIter : Nat)
    (out : Inst α β) (hlt : ∀ x, o.ltInf x = true) (h : forceAlgorithm o disc inst maxIter = .ok out)
    (v : Nat) (m : Mod α β) (hm : inst.mods[v]? = some m) (hf : m.fixed = false)
    (hW : 0 ≤ inst.W) (hH : 0 ≤ inst.H) (hit : 1 ≤ maxIter) :
    ∃ c, out.mods[v]? = some { m with center := some c } ∧ InDie inst.W inst.H c := by
  obtain ⟨_, _, _, b, _, _, _, _, _, ho⟩ := best_kappa o disc inst maxIter out hlt h
  exact movable_centre_inside o inst b.1 maxIter out ho v m hm hf hW hH hit

/-- `centres_inside_die` for `force_algorithm` (any iteration count; needs the input centre inside the die —
    fixed modules and `max_iter = 0` are not clamped by the code). -/
theorem force_centres_inside_die (o : Ops α) (disc : Pt α → α → Pt α → α → α) (inst : Inst α β) (maxIter : Nat)
    (out : Inst α β) (hlt : ∀ x, o.ltInf x = true) (h : forceAlgorithm o disc inst maxIter = .ok out)
    (v : Nat) (m : Mod α β) (hm : inst.mods[v]? = some m) (hW : 0 ≤ inst.W) (hH : 0 ≤ inst.H)
    (hin : ∀ c, m.center = some c → InDie inst.W inst.H c) :
    ∃ c, out.mods[v]? = some { m with center := some c } ∧ InDie inst.W inst.H c := by
  obtain ⟨_, _, _, b, _, _, _, _, _, ho⟩ := best_kappa o disc inst maxIter out hlt h
  exact centres_inside_die o inst b.1 maxIter out ho v m hm hW hH hin

/-! ### `force_algorithm` returns (`force_returns`) -/

/-- after ANY layout the cost is computable: every module has a centre (the write-back gives one to all of them),
    so neither `assert` of `total_intersection_area` / `wire_length` can fail; nets are well formed (`NetsOK`: at least
    one pin, pins are modules of the netlist — in Python a net holds ≥ 2 module objects). -/
theorem cost_returns (o : Ops α) (disc : Pt α → α → Pt α → α → α) (inst : Inst α β) (kappa : α) (maxIter : Nat)
    (out : Inst α β) (h : frLayout o inst kappa maxIter = .ok out) (hnets : NetsOK inst) :
    ∃ c, cost o disc out = .ok c := by
  obtain ⟨pos, _, rfl⟩ := frLayout_ok o inst kappa maxIter out h
  exact cost_ok o disc _ (writeCentres_allCentres _ _) (writeCentres_netsOK _ _ hnets)

/-- `force_returns`: `force_algorithm` returns for EVERY well-formed input — a netlist with at least one module,
    well-formed nets, and a die whose `(W·H/n) ** (1/2)` is not zero (any positive die with the real `**`); centres may
    be missing, outside the die, coincident; any iteration count.  All twelve layouts and costs are computable, a spring
    constant is selected (the table is not empty and every cost is below `inf`), and the final layout returns. -/
theorem force_returns (o : Ops α) (disc : Pt α → α → Pt α → α → α) (inst : Inst α β) (maxIter : Nat)
    (hlt : ∀ x, o.ltInf x = true) (hn : inst.mods ≠ [])
    (hp : o.powHalf (inst.W * inst.H / ((inst.mods.length : Nat) : α)) ≠ 0) (hnets : NetsOK inst) :
    ∃ out, forceAlgorithm o disc inst maxIter = .ok out :=
  forceAlgorithm_ok o disc inst maxIter hlt hn hp hnets

/-! ### `max_iter = 0`, fixed modules outside the die: what the code does (it does NOT clamp them) -/

/-- with `max_iter = 0` nothing moves and nothing is clamped: every module that had a centre comes back unchanged
    (`(c - s) + s = c`), inside the die or not. -/
theorem zero_iterations_unmoved (o : Ops α) (inst : Inst α β) (kappa : α) (out : Inst α β)
    (h : frLayout o inst kappa 0 = .ok out) (v : Nat) (m : Mod α β) (c : Pt α)
    (hm : inst.mods[v]? = some m) (hc : m.center = some c) : out.mods[v]? = some m := by
  obtain ⟨pos, hp, rfl⟩ := frLayout_ok o inst kappa 0 out h
  obtain ⟨k, _, _, rfl⟩ := frPositions_ok o inst kappa 0 pos hp
  rw [writeCentres_mods inst _ v m hm]
  simp only [frLoop]
  rw [initPos_getD inst v m c hm hc, shift_back, ← hc]

/-- … and a module WITHOUT centre is put at the centre of the die (`Point() + (W, H)/2`). -/
theorem zero_iterations_no_centre (o : Ops α) (inst : Inst α β) (kappa : α) (out : Inst α β)
    (h : frLayout o inst kappa 0 = .ok out) (v : Nat) (m : Mod α β)
    (hm : inst.mods[v]? = some m) (hc : m.center = none) :
    out.mods[v]? = some { m with center := some (inst.W / 2, inst.H / 2) } := by
  obtain ⟨pos, hp, rfl⟩ := frLayout_ok o inst kappa 0 out h
  obtain ⟨k, _, _, rfl⟩ := frPositions_ok o inst kappa 0 pos hp
  rw [writeCentres_mods inst _ v m hm]
  simp only [frLoop]
  have : (initPos inst).getD v pzero = pzero := by
    simp only [initPos, List.getD_eq_getElem?_getD, List.getElem?_map, hm, Option.map_some, Option.getD_some, hc]
  rw [this]
  simp [padd, pdiv, pzero]

/-! ### the `visualize` branches -/

/-- what is assumed of `get_floorplan_plot`: it may change centres (it does: `calculate_center_from_rectangles`), and
    nothing else. -/
def PlotOK (plot : Inst α β → Inst α β) : Prop := ∀ d, SameButCentres (plot d) d

/-- `visualize` does not change the result (REPAIRED code: centres written once more after the loop): for ANY plot that
    changes nothing but centres, the die returned by the visualising run (centres written back before the loop and
    after every iteration, area / fixed flags read from the die being overwritten and redrawn) is the die of the plain
    run; same exceptions. -/
theorem visualize_same_layout (o : Ops α) (plot : Inst α β → Inst α β) (hplot : PlotOK plot) (inst : Inst α β)
    (kappa : α) (maxIter : Nat) (vis : Bool) :
    (frLayoutVis o plot inst kappa maxIter vis).map Prod.fst = frLayout o inst kappa maxIter := by
  rw [frLayoutVis_eq o plot hplot, frLayout_eq]
  cases hp : frPositions o inst kappa maxIter with
  | error e => rfl
  | ok pos =>
    obtain ⟨k, hk, _, _⟩ := frPositions_ok o inst kappa maxIter pos hp
    simp only [Except.bind, hk, Except.map]

/-- the frames of a visualising run: one before the loop and one per iteration (`max_iter + 1` images); the first shows
    the input centres (missing ones at the die centre), the last shows the centres returned. -/
theorem visualize_frames (o : Ops α) (plot : Inst α β → Inst α β) (hplot : PlotOK plot) (inst : Inst α β) (kappa : α)
    (maxIter : Nat) (out : Inst α β) (frames : List (List (Option (Pt α))))
    (h : frLayoutVis o plot inst kappa maxIter true = .ok (out, frames)) :
    frames.length = maxIter + 1 ∧ frames[0]? = some (centresOf (writeCentres inst (initPos inst))) ∧
      frames.getLast? = some (centresOf out) := by
  rw [frLayoutVis_eq o plot hplot] at h
  cases hp : frPositions o inst kappa maxIter with
  | error e => rw [hp] at h; cases h
  | ok pos =>
    obtain ⟨k, hk, _, hpos⟩ := frPositions_ok o inst kappa maxIter pos hp
    rw [hp] at h
    simp only [Except.bind, hk, ↓reduceIte, Except.ok.injEq, Prod.mk.injEq] at h
    obtain ⟨rfl, rfl⟩ := h
    refine ⟨by simp, by simp, ?_⟩
    cases maxIter with
    | zero => simp [hpos, frLoop]
    | succ n =>
      rw [List.getLast?_cons_of_ne_nil (by simp), List.range_succ, List.map_append]
      simp [hpos]

/-- `force_algorithm(die, visualize=…)`: the scored runs do not visualise, the final one does — same die returned. -/
theorem force_visualize_same (o : Ops α) (disc : Pt α → α → Pt α → α → α) (plot : Inst α β → Inst α β)
    (hplot : PlotOK plot) (inst : Inst α β) (maxIter : Nat) (vis : Bool) :
    (forceAlgorithmVis o disc plot inst maxIter vis).map Prod.fst = forceAlgorithm o disc inst maxIter := by
  unfold forceAlgorithmVis forceAlgorithm
  cases bestKappa o disc inst kappas maxIter with
  | error e => rfl
  | ok b =>
    cases b with
    | none => exact visualize_same_layout o plot hplot inst _ maxIter vis
    | some x => exact visualize_same_layout o plot hplot inst _ maxIter vis

/-- the code AS FOUND (no write-back after the loop when visualising) returns the plain layout AS THE LAST PLOT LEFT IT:
    with the real plot, every module with rectangles that sits on a net comes back at the centroid of its (unmoved)
    rectangles — not at the position of the layout that was scored (`visualize_as_found_differs` below; genuine defect
    `C13_visualize_final_writeback`). -/
theorem visualize_as_found (o : Ops α) (plot : Inst α β → Inst α β) (hplot : PlotOK plot) (inst : Inst α β)
    (kappa : α) (maxIter : Nat) (out : Inst α β) (frames : List (List (Option (Pt α))))
    (h : frLayoutVisAsFound o plot inst kappa maxIter = .ok (out, frames)) :
    ∃ plain, frLayout o inst kappa maxIter = .ok plain ∧ out = plot plain :=
  frLayoutVisAsFound_eq o plot hplot inst kappa maxIter out frames h

/-! ### `total_intersection_area` -/

/-- each pair counted once per order: when every module has a centre (always so after a layout) the double loop
    returns the sum, over every unordered pair of distinct POSITIONS `i < j` of the module list, of
    `disc(m_i, m_j) + disc(m_j, m_i)` — no pair is skipped, none is taken twice, a module is never paired with itself. -/
theorem tia_each_pair_once (o : Ops α) (disc : Pt α → α → Pt α → α → α) (inst : Inst α β) (hc : AllCentres inst) :
    totalIntersectionArea o disc inst = .ok (pairSum (pairTerm o disc) inst.mods) := by
  rw [tia_value o disc inst hc, sq_sub_diag]

/-- with a symmetric overlap function (C17 `area_symm`) this is twice the sum over unordered pairs. -/
theorem tia_twice_pairs (o : Ops α) (disc : Pt α → α → Pt α → α → α) (inst : Inst α β) (hc : AllCentres inst)
    (hsym : ∀ c1 r1 c2 r2, disc c1 r1 c2 r2 = disc c2 r2 c1 r1) :
    totalIntersectionArea o disc inst = .ok (2 * pairSumOnce (pairTerm o disc) inst.mods) := by
  rw [tia_each_pair_once o disc inst hc, pairSum_symm]
  intro a b
  unfold pairTerm
  cases a.center <;> cases b.center <;> simp [hsym]

/-- non-negative whenever the overlap function is (C17 `lens_bounds`) — whatever the centres. -/
theorem tia_nonneg (o : Ops α) (disc : Pt α → α → Pt α → α → α) (inst : Inst α β)
    (hnn : ∀ c1 r1 c2 r2, 0 ≤ disc c1 r1 c2 r2) (a : α) (h : totalIntersectionArea o disc inst = .ok a) : 0 ≤ a := by
  unfold totalIntersectionArea at h
  refine foldlM_inv (fun x => 0 ≤ x) _ _ ?_ _ a (by simp) h
  intro acc i b hacc hb
  refine foldlM_inv (fun x => 0 ≤ x) _ _ ?_ _ b hacc hb
  intro acc j b hacc hb
  split at hb
  · cases hb; exact hacc
  · split at hb
    · split at hb
      · cases hb; exact add_nonneg hacc (hnn _ _ _ _)
      · cases hb
    · cases hb

/-- symmetric in the module order: listing the modules in another order gives the same total (exact arithmetic;
    on doubles the additions are re-associated: compared to 1e-9 by the harness). -/
theorem tia_perm (o : Ops α) (disc : Pt α → α → Pt α → α → α) (a b : Inst α β) (hp : a.mods.Perm b.mods)
    (hc : AllCentres a) : totalIntersectionArea o disc a = totalIntersectionArea o disc b := by
  have hcb : AllCentres b := by
    intro v m hm
    have hmem : m ∈ a.mods := hp.mem_iff.mpr (List.mem_of_getElem? hm)
    obtain ⟨w, hw⟩ := List.getElem?_of_mem hmem
    exact hc w m hw
  rw [tia_value o disc a hc, tia_value o disc b hcb, sqSum_perm _ _ _ hp, diagSum_perm _ _ _ hp]

/-! ### determinism: the result is a function of what the code reads, and of nothing else -/

/-- the model is a function: one input, one result (no hidden state, no random draw, no clock). -/
theorem deterministic (o : Ops α) (disc : Pt α → α → Pt α → α → α) (inst : Inst α β) (maxIter : Nat)
    (out1 out2 : Inst α β) (h1 : forceAlgorithm o disc inst maxIter = .ok out1)
    (h2 : forceAlgorithm o disc inst maxIter = .ok out2) : out1 = out2 := by
  rw [h1] at h2; exact Except.ok.inj h2

/-- … and it reads nothing but the die size, the nets and, per module, (centre, area, fixed flag): two dies that agree on
    these — whatever their module names, rectangles, aspect ratios, hash values, … (payloads of possibly different
    types) — get the same centres, from `fruchterman_reingold_layout` and from `force_algorithm`. -/
theorem layout_reads_only_core {γ : Type} (o : Ops α) (a : Inst α β) (b : Inst α γ) (h : SameCore a b) (kappa : α)
    (maxIter : Nat) : (frLayout o a kappa maxIter).map centresOf = (frLayout o b kappa maxIter).map centresOf :=
  h.frLayout o kappa maxIter

theorem force_reads_only_core {γ : Type} (o : Ops α) (disc : Pt α → α → Pt α → α → α) (a : Inst α β) (b : Inst α γ)
    (h : SameCore a b) (maxIter : Nat) :
    (forceAlgorithm o disc a maxIter).map centresOf = (forceAlgorithm o disc b maxIter).map centresOf :=
  h.forceAlgorithm o disc maxIter

/-- in particular relabelling everything the code does not read leaves the centres alone. -/
theorem force_payload_irrelevant {γ : Type} (o : Ops α) (disc : Pt α → α → Pt α → α → α) (inst : Inst α β) (f : β → γ)
    (maxIter : Nat) :
    (forceAlgorithm o disc (mapRest f inst) maxIter).map centresOf = (forceAlgorithm o disc inst maxIter).map centresOf :=
  ((mapRest_sameCore f inst).forceAlgorithm o disc maxIter).symm

/-! ### non-vacuity: a concrete instance over `Rat` meets the hypotheses -/

section Examples

/-- a numeric library over `Rat` (any functions do: the theorems do not look inside). -/
def opsQ : Ops Rat := { sqrt := fun x => x, powHalf := fun x => x, sq := fun x => x * x, pi := 3, ltInf := fun _ => true }
def discQ : Pt Rat → Rat → Pt Rat → Rat → Rat := fun _ r1 _ r2 => r1 * r2

/-- 8 × 6 die, a fixed module, two movable ones (one on the border, two coincident), a 3-pin net. -/
def instQ : Inst Rat Unit :=
  { W := 8, H := 6,
    mods := [⟨some (1, 1), 4, true, ()⟩, ⟨some (8, 3), 2, false, ()⟩, ⟨some (8, 3), 1, false, ()⟩],
    nets := [⟨[0, 1, 2], 2⟩] }

example : (frLayout opsQ instQ 1 2).toBool = true := by decide +kernel
example : (forceAlgorithm opsQ discQ instQ 2).toBool = true := by decide +kernel
example : ∃ out, frLayout opsQ instQ 1 2 = .ok out :=
  layout_returns opsQ instQ 1 2 (by simp [instQ]) (by simp [opsQ, instQ])
example : frLayout opsQ instQ 0 2 = .error .zeroDiv :=
  layout_kappa_zero_raises opsQ instQ 2 (by decide) ⟨_, List.mem_singleton.mpr rfl, by decide⟩

example (out : Inst Rat Unit) (h : frLayout opsQ instQ 1 2 = .ok out) :
    out.mods[0]? = some ⟨some (1, 1), 4, true, ()⟩ :=
  fixed_unmoved opsQ instQ 1 2 out h 0 _ (1, 1) rfl rfl rfl

example (out : Inst Rat Unit) (h : frLayout opsQ instQ 1 2 = .ok out) :
    ∃ c, out.mods[1]? = some ⟨some c, 2, false, ()⟩ ∧ InDie (8 : Rat) 6 c :=
  movable_centre_inside opsQ instQ 1 2 out h 1 _ rfl rfl (by decide) (by decide) (by decide)

/-- a movable module that STARTS OUTSIDE the die (11, 3) / at negative coordinates, alone or with others, is inside
    after one iteration — `movable_centre_inside` applied. -/
def instOut : Inst Rat Unit :=
  { W := 8, H := 6, mods := [⟨some (11, 3), 4, false, ()⟩, ⟨some (-1, 15 / 2), 0, false, ()⟩], nets := [] }

example : (frLayout opsQ instOut 1 1).toBool = true := by decide +kernel
example (out : Inst Rat Unit) (h : frLayout opsQ instOut 1 1 = .ok out) :
    ∃ c, out.mods[0]? = some ⟨some c, 4, false, ()⟩ ∧ InDie (8 : Rat) 6 c :=
  movable_centre_inside opsQ instOut 1 1 out h 0 _ rfl rfl (by decide) (by decide) (by decide)

/-- the `force_algorithm` theorems applied to `instQ`. -/
example (out : Inst Rat Unit) (h : forceAlgorithm opsQ discQ instQ 2 = .ok out) :
    ∃ cOut, cost opsQ discQ out = .ok cOut ∧
      ∀ kp ∈ (kappas : List Rat), ∀ l c, frLayout opsQ instQ kp 2 = .ok l → cost opsQ discQ l = .ok c → cOut ≤ c :=
  best_kappa_minimal opsQ discQ instQ 2 out (fun _ => rfl) h

example (out : Inst Rat Unit) (h : forceAlgorithm opsQ discQ instQ 2 = .ok out) :
    out.mods[0]? = some ⟨some (1, 1), 4, true, ()⟩ :=
  force_fixed_unmoved opsQ discQ instQ 2 out (fun _ => rfl) h 0 _ (1, 1) rfl rfl rfl

example (out : Inst Rat Unit) (h : forceAlgorithm opsQ discQ instQ 2 = .ok out) :
    ∃ c, out.mods[2]? = some ⟨some c, 1, false, ()⟩ ∧ InDie (8 : Rat) 6 c :=
  force_centres_inside_die opsQ discQ instQ 2 out (fun _ => rfl) h 2 _ rfl (by decide) (by decide)
    (by intro c hc; cases hc; simp only [InDie, instQ]; norm_num)

/-- `force_returns` applied: all three hypotheses hold on `instQ` (3 modules, `(8·6/3) ** (1/2) ≠ 0`, one 3-pin net). -/
theorem instQ_netsOK : NetsOK instQ := by
  intro e he
  simp only [instQ, List.mem_singleton] at he
  subst he
  refine ⟨by simp, ?_⟩
  intro v hv
  simp only [List.mem_cons, List.not_mem_nil, or_false] at hv
  rcases hv with rfl | rfl | rfl <;> simp [instQ]

example : ∃ out, forceAlgorithm opsQ discQ instQ 5 = .ok out :=
  force_returns opsQ discQ instQ 5 (fun _ => rfl) (by simp [instQ]) (by simp [opsQ, instQ]) instQ_netsOK

/-- `max_iter = 0`: the movable module that starts outside the die STAYS outside — `hit : 1 ≤ maxIter` of
    `movable_centre_inside` and `hin` of `centres_inside_die` are necessary. -/
example (out : Inst Rat Unit) (h : frLayout opsQ instOut 1 0 = .ok out) :
    out.mods[0]? = some ⟨some (11, 3), 4, false, ()⟩ ∧ ¬ InDie (8 : Rat) 6 (11, 3) :=
  ⟨zero_iterations_unmoved opsQ instOut 1 out h 0 _ (11, 3) rfl rfl, by simp only [InDie]; norm_num⟩

/-- a FIXED module outside the die stays outside for every iteration count (the code never clamps it). -/
def instFixOut : Inst Rat Unit :=
  { W := 8, H := 6, mods := [⟨some (11, 3), 4, true, ()⟩, ⟨some (2, 2), 1, false, ()⟩], nets := [⟨[0, 1], 1⟩] }

example : (frLayout opsQ instFixOut 1 3).toBool = true := by decide +kernel
example (out : Inst Rat Unit) (h : frLayout opsQ instFixOut 1 3 = .ok out) :
    out.mods[0]? = some ⟨some (11, 3), 4, true, ()⟩ ∧ ¬ InDie (8 : Rat) 6 (11, 3) :=
  ⟨fixed_unmoved opsQ instFixOut 1 3 out h 0 _ (11, 3) rfl rfl rfl, by simp only [InDie]; norm_num⟩

/-- a plot that, like the real one, puts module 1 back at the centroid `(8, 3)` of its rectangles. -/
def resetSecond : List (Mod Rat Unit) → List (Mod Rat Unit)
  | a :: b :: l => a :: { b with center := some (8, 3) } :: l
  | l => l
def plotQ (d : Inst Rat Unit) : Inst Rat Unit := { d with mods := resetSecond d.mods }

theorem plotQ_ok : PlotOK plotQ := by
  intro d
  refine ⟨rfl, rfl, rfl, ?_⟩
  simp only [plotQ]
  match d.mods with
  | [] => rfl
  | [_] => rfl
  | _ :: _ :: _ => rfl

/-- the visualising run returns on `instQ`, draws 3 frames for 2 iterations, the last one showing the result. -/
example : (frLayoutVis opsQ plotQ instQ 1 2 true).toBool = true := by decide +kernel
example (out : Inst Rat Unit) (frames : List (List (Option (Pt Rat))))
    (h : frLayoutVis opsQ plotQ instQ 1 2 true = .ok (out, frames)) :
    frames.length = 3 ∧ frames.getLast? = some (centresOf out) :=
  ⟨(visualize_frames opsQ plotQ plotQ_ok instQ 1 2 out frames h).1,
   (visualize_frames opsQ plotQ plotQ_ok instQ 1 2 out frames h).2.2⟩

/-- the defect of the code as found, kernel-checked: with a plot that resets one centre, the visualising run does NOT
    return the layout of the plain run (the repaired model does: `visualize_same_layout`). -/
theorem visualize_as_found_differs :
    (frLayoutVisAsFound opsQ plotQ instQ 1 2).map (fun r => centresOf r.1) ≠ (frLayout opsQ instQ 1 2).map centresOf := by
  decide +kernel

/-- `total_intersection_area` on `instQ` (every module has a centre): value, and invariance under a reordering. -/
theorem instQ_allCentres : AllCentres instQ := by
  intro v m hm
  have hv : v < 3 := (List.getElem?_eq_some_iff.mp hm).1
  match v, hv with
  | 0, _ => cases hm; simp
  | 1, _ => cases hm; simp
  | 2, _ => cases hm; simp

example : totalIntersectionArea opsQ discQ instQ = .ok (pairSum (pairTerm opsQ discQ) instQ.mods) :=
  tia_each_pair_once opsQ discQ instQ instQ_allCentres

example : totalIntersectionArea opsQ discQ instQ =
    totalIntersectionArea opsQ discQ { instQ with mods := [instQ.mods[2], instQ.mods[0], instQ.mods[1]] } :=
  tia_perm opsQ discQ instQ _ ((List.Perm.cons _ (List.Perm.swap _ _ [])).trans (List.Perm.swap _ _ _)) instQ_allCentres

/-- the value really is "each unordered pair twice": radii 4, 2, 1 (sqrt = id, pi = 3 ⇒ 4/3, 2/3, 1/3), `discQ = r1·r2`. -/
example : totalIntersectionArea opsQ discQ instQ = .ok (2 * (4 / 3 * (2 / 3) + 4 / 3 * (1 / 3) + 2 / 3 * (1 / 3))) := by
  decide +kernel

/-- module names / rectangles (the payload) do not influence the centres. -/
example (f : Unit → String) :
    (forceAlgorithm opsQ discQ (mapRest f instQ) 2).map centresOf = (forceAlgorithm opsQ discQ instQ 2).map centresOf :=
  force_payload_irrelevant opsQ discQ instQ f 2

end Examples

end FV.C13
